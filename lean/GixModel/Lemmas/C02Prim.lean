import GixModel.Model.C02
import GixModel.Lemmas.Dec
/-
C02 helper lemmas, part 1: the parsing primitives on `printed ++ rest` inputs, decimal / hex
round trips, `lines_with_terminator`.
-/
namespace GixModel.C02
open GixModel GixModel.C01 GixModel.Spec.C02

/-! ### literals and spans -/

theorem stripPrefix_append (p r : Bytes) : stripPrefix p (p ++ r) = some r := by
  induction p with
  | nil => cases r <;> rfl
  | cons a p ih => simp [stripPrefix, ih]

/-- what follows a token: nothing, or a byte on which `stop` holds -/
def StopsAt (stop : UInt8 → Bool) (r : Bytes) : Prop := r = [] ∨ ∃ c t, r = c :: t ∧ stop c = true

theorem StopsAt.nil (stop : UInt8 → Bool) : StopsAt stop [] := Or.inl rfl

theorem StopsAt.cons {stop : UInt8 → Bool} {c : UInt8} (t : Bytes) (h : stop c = true) :
    StopsAt stop (c :: t) := Or.inr ⟨c, t, rfl, h⟩

theorem spanTill_append (stop : UInt8 → Bool) (a r : Bytes)
    (ha : ∀ b ∈ a, stop b = false) (hr : StopsAt stop r) : spanTill stop (a ++ r) = (a, r) := by
  induction a with
  | nil =>
    rcases hr with rfl | ⟨c, t, rfl, hc⟩
    · rfl
    · simp [spanTill, hc]
  | cons b a ih =>
    have hb : stop b = false := ha b (by simp)
    have := ih (fun x hx => ha x (by simp [hx]))
    simp [spanTill, hb, this]

theorem spanTill_concat (stop : UInt8 → Bool) (i : Bytes) :
    (spanTill stop i).1 ++ (spanTill stop i).2 = i := by
  induction i with
  | nil => rfl
  | cons b i ih =>
    by_cases hb : stop b = true
    · simp [spanTill, hb]
    · simp [spanTill, hb, ih]

theorem spanTill_fst_noStop (stop : UInt8 → Bool) (i : Bytes) :
    ∀ b ∈ (spanTill stop i).1, stop b = false := by
  induction i with
  | nil => intro b hb; simp [spanTill] at hb
  | cons c i ih =>
    by_cases hc : stop c = true
    · intro b hb; simp [spanTill, hc] at hb
    · intro b hb
      simp only [spanTill, hc, Bool.false_eq_true, if_false, List.mem_cons] at hb
      rcases hb with rfl | hb
      · simpa using hc
      · exact ih b hb

theorem spanTill_snd_stops (stop : UInt8 → Bool) (i : Bytes) : StopsAt stop (spanTill stop i).2 := by
  induction i with
  | nil => exact Or.inl rfl
  | cons c i ih =>
    by_cases hc : stop c = true
    · simp only [spanTill, hc, if_true]; exact StopsAt.cons _ hc
    · simpa [spanTill, hc] using ih

theorem takeUpTo_exact (p : UInt8 → Bool) (a r : Bytes) (ha : ∀ b ∈ a, p b = true) :
    takeUpTo p a.length (a ++ r) = (a, r) := by
  induction a with
  | nil => simp [takeUpTo]
  | cons b a ih =>
    have hb : p b = true := ha b (by simp)
    have := ih (fun x hx => ha x (by simp [hx]))
    simp [takeUpTo, hb, this]

theorem takeUpTo_stop (p : UInt8 → Bool) (n : Nat) (a r : Bytes) (ha : ∀ b ∈ a, p b = true)
    (hn : a.length ≤ n) (hr : StopsAt (fun b => !p b) r) : takeUpTo p n (a ++ r) = (a, r) := by
  induction a generalizing n with
  | nil =>
    cases n with
    | zero => simp [takeUpTo]
    | succ n =>
      rcases hr with rfl | ⟨c, t, rfl, hc⟩
      · simp [takeUpTo]
      · have : p c = false := by simpa using hc
        simp [takeUpTo, this]
  | cons b a ih =>
    cases n with
    | zero => simp at hn
    | succ n =>
      have hb : p b = true := ha b (by simp)
      have := ih n (fun x hx => ha x (by simp [hx])) (by simpa using hn)
      simp [takeUpTo, hb, this]

theorem takeUpTo_concat (p : UInt8 → Bool) (n : Nat) (i : Bytes) :
    (takeUpTo p n i).1 ++ (takeUpTo p n i).2 = i := by
  induction n generalizing i with
  | zero => simp [takeUpTo]
  | succ n ih =>
    cases i with
    | nil => simp [takeUpTo]
    | cons b i =>
      by_cases hb : p b = true
      · simp [takeUpTo, hb, ih]
      · simp [takeUpTo, hb]

theorem takeUpTo_fst_all (p : UInt8 → Bool) (n : Nat) (i : Bytes) :
    ∀ b ∈ (takeUpTo p n i).1, p b = true := by
  induction n generalizing i with
  | zero => intro b hb; simp [takeUpTo] at hb
  | succ n ih =>
    cases i with
    | nil => intro b hb; simp [takeUpTo] at hb
    | cons c i =>
      by_cases hc : p c = true
      · intro b hb
        simp only [takeUpTo, hc, if_true, List.mem_cons] at hb
        rcases hb with rfl | hb
        · exact hc
        · exact ih i b hb
      · intro b hb; simp [takeUpTo, hc] at hb

theorem splitFirst_append (c : UInt8) (a r : Bytes) (ha : ∀ b ∈ a, (b == c) = false) :
    splitFirst c (a ++ c :: r) = some (a, r) := by
  induction a with
  | nil => simp [splitFirst]
  | cons b a ih =>
    have hb : (b == c) = false := ha b (by simp)
    have := ih (fun x hx => ha x (by simp [hx]))
    simp [splitFirst, hb, this]

theorem splitFirst_eq (c : UInt8) (i x y : Bytes) (h : splitFirst c i = some (x, y)) :
    i = x ++ c :: y ∧ ∀ b ∈ x, (b == c) = false := by
  induction i generalizing x with
  | nil => simp [splitFirst] at h
  | cons b i ih =>
    by_cases hb : (b == c) = true
    · simp only [splitFirst, hb, if_true, Option.some.injEq, Prod.mk.injEq] at h
      obtain ⟨rfl, rfl⟩ := h
      have : b = c := by simpa using hb
      simp [this]
    · simp only [splitFirst, hb, Bool.false_eq_true, if_false] at h
      cases hs : splitFirst c i with
      | none => simp [hs] at h
      | some xy =>
        obtain ⟨x', y'⟩ := xy
        simp only [hs, Option.some.injEq, Prod.mk.injEq] at h
        obtain ⟨rfl, rfl⟩ := h
        obtain ⟨h1, h2⟩ := ih x' hs
        refine ⟨by rw [h1]; rfl, ?_⟩
        intro d hd
        simp only [List.mem_cons] at hd
        rcases hd with rfl | hd
        · simpa using hb
        · exact h2 d hd

theorem splitLast_none (c : UInt8) (r : Bytes) (hr : ∀ b ∈ r, (b == c) = false) :
    splitLast c r = none := by
  induction r with
  | nil => rfl
  | cons b r ih =>
    have hb : (b == c) = false := hr b (by simp)
    have := ih (fun x hx => hr x (by simp [hx]))
    simp [splitLast, this, hb]

theorem splitLast_append (c : UInt8) (a r : Bytes) (hr : ∀ b ∈ r, (b == c) = false) :
    splitLast c (a ++ c :: r) = some (a, r) := by
  induction a with
  | nil => simp [splitLast, splitLast_none c r hr]
  | cons b a ih => simp [splitLast, ih]

theorem splitLast_eq (c : UInt8) (i x y : Bytes) (h : splitLast c i = some (x, y)) :
    i = x ++ c :: y := by
  induction i generalizing x with
  | nil => simp [splitLast] at h
  | cons b i ih =>
    simp only [splitLast] at h
    cases hs : splitLast c i with
    | some xy =>
      obtain ⟨x', y'⟩ := xy
      simp only [hs, Option.some.injEq, Prod.mk.injEq] at h
      obtain ⟨rfl, rfl⟩ := h
      rw [ih x' hs]; rfl
    | none =>
      simp only [hs] at h
      by_cases hb : (b == c) = true
      · simp only [hb, if_true, Option.some.injEq, Prod.mk.injEq] at h
        obtain ⟨rfl, rfl⟩ := h
        have : b = c := by simpa using hb
        simp [this]
      · simp [hb] at h

/-! ### `take_until` for a multi-byte pattern -/

/-- no occurrence of `pat` starts inside `m` when `m` is followed by `tail` -/
def NoEarly (pat m tail : Bytes) : Prop := ∀ k, k < m.length → pat.isPrefixOf (m.drop k ++ tail) = false

theorem findSub_append (pat m tail : Bytes) (hne : NoEarly pat m tail)
    (hp : pat.isPrefixOf tail = true) (htail : tail ≠ []) : findSub pat (m ++ tail) = some (m, tail) := by
  induction m with
  | nil =>
    cases tail with
    | nil => exact absurd rfl htail
    | cons c t => simp only [List.nil_append, findSub, hp, if_true]
  | cons b m ih =>
    have h0 : pat.isPrefixOf ((b :: m) ++ tail) = false := by
      have := hne 0 (by simp)
      simpa using this
    have hrest : NoEarly pat m tail := by
      intro k hk
      have := hne (k + 1) (by simp; omega)
      simpa using this
    have := ih hrest
    simp only [List.cons_append] at h0 ⊢
    simp [findSub, h0, this]

theorem findSub_eq (pat i x y : Bytes) (h : findSub pat i = some (x, y)) :
    i = x ++ y ∧ pat.isPrefixOf y = true := by
  induction i generalizing x with
  | nil =>
    by_cases hp : pat.isEmpty = true
    · simp only [findSub, hp, if_true, Option.some.injEq, Prod.mk.injEq] at h
      obtain ⟨rfl, rfl⟩ := h
      have : pat = [] := by simpa using hp
      simp [this]
    · simp [findSub, hp] at h
  | cons b i ih =>
    by_cases hp : pat.isPrefixOf (b :: i) = true
    · simp only [findSub, hp, if_true, Option.some.injEq, Prod.mk.injEq] at h
      obtain ⟨rfl, rfl⟩ := h
      exact ⟨rfl, hp⟩
    · simp only [findSub, hp, Bool.false_eq_true, if_false] at h
      cases hs : findSub pat i with
      | none => simp [hs] at h
      | some xy =>
        obtain ⟨x', y'⟩ := xy
        simp only [hs, Option.some.injEq, Prod.mk.injEq] at h
        obtain ⟨rfl, rfl⟩ := h
        obtain ⟨h1, h2⟩ := ih x' hs
        exact ⟨by rw [h1]; rfl, h2⟩

theorem findSub_none_of_hasInfix (pat i : Bytes) (h : hasInfix pat i = false) : findSub pat i = none := by
  induction i with
  | nil =>
    simp only [hasInfix] at h
    simp [findSub, h]
  | cons b i ih =>
    simp only [hasInfix, Bool.or_eq_false_iff] at h
    simp [findSub, h.1, ih h.2]

theorem findSub_some_of_hasInfix (pat i : Bytes) (h : hasInfix pat i = true) : (findSub pat i).isSome = true := by
  induction i with
  | nil =>
    simp only [hasInfix] at h
    simp [findSub, h]
  | cons b i ih =>
    simp only [hasInfix, Bool.or_eq_true] at h
    by_cases hp : pat.isPrefixOf (b :: i) = true
    · simp [findSub, hp]
    · rcases h with h | h
      · exact absurd h hp
      · have := ih h
        cases hs : findSub pat i with
        | none => simp [hs] at this
        | some xy => simp [findSub, hp, hs]

/-! ### decimal digits -/

theorem digit_facts : ∀ d, d < 10 →
    isDigit (UInt8.ofNat (48 + d)) = true ∧ (UInt8.ofNat (48 + d)).toNat - 48 = d
    ∧ (UInt8.ofNat (48 + d) == 32) = false ∧ (UInt8.ofNat (48 + d) == 45) = false
    ∧ (UInt8.ofNat (48 + d) == 43) = false ∧ (UInt8.ofNat (48 + d) == 10) = false
    ∧ (UInt8.ofNat (48 + d) == 62) = false := by
  decide

def valOf (bs : Bytes) : Nat := bs.foldl (fun acc b => acc * 10 + (b.toNat - 48)) 0

theorem valOf_concat (bs : Bytes) (b : UInt8) : valOf (bs ++ [b]) = valOf bs * 10 + (b.toNat - 48) := by
  simp [valOf, List.foldl_append]

/-- every output of `digitsFuel 10` with enough fuel is a non-empty digit string with the right value -/
theorem digitsFuel_val : ∀ (f n : Nat), n < 10 ^ (f + 1) →
    (digitsFuel 10 (f + 1) n ≠ [] ∧ (∀ b ∈ digitsFuel 10 (f + 1) n, isDigit b = true)
      ∧ valOf (digitsFuel 10 (f + 1) n) = n) := by
  intro f
  induction f with
  | zero =>
    intro n hn
    have h10 : n < 10 := by simpa using hn
    have hd := digit_facts n h10
    unfold digitsFuel
    simp only [h10, if_true]
    refine ⟨by simp, ?_, ?_⟩
    · intro b hb
      simp only [List.mem_singleton] at hb
      subst hb
      exact hd.1
    · simp only [valOf, List.foldl_cons, List.foldl_nil, hd.2.1]; omega
  | succ f ih =>
    intro n hn
    unfold digitsFuel
    by_cases h10 : n < 10
    · have hd := digit_facts n h10
      simp only [h10, if_true]
      refine ⟨by simp, ?_, ?_⟩
      · intro b hb
        simp only [List.mem_singleton] at hb
        subst hb
        exact hd.1
      · simp only [valOf, List.foldl_cons, List.foldl_nil, hd.2.1]; omega
    · simp only [h10, if_false]
      have hq : n / 10 < 10 ^ (f + 1) := by
        rw [Nat.div_lt_iff_lt_mul (by omega)]
        rw [Nat.pow_succ] at hn
        exact hn
      obtain ⟨_, h2, h3⟩ := ih (n / 10) hq
      have hd := digit_facts (n % 10) (Nat.mod_lt _ (by omega))
      refine ⟨by simp, ?_, ?_⟩
      · intro b hb
        simp only [List.mem_append, List.mem_singleton] at hb
        rcases hb with hb | rfl
        · exact h2 b hb
        · exact hd.1
      · rw [valOf_concat, h3, hd.2.1]
        omega

theorem lt_pow10_log2 (n : Nat) : n < 10 ^ (n.log2 + 1 + 1) := by
  have h1 : n < 2 ^ (n.log2 + 1) := Nat.lt_log2_self
  have h2 : 2 ^ (n.log2 + 1) ≤ 10 ^ (n.log2 + 1) := Nat.pow_le_pow_left (by omega) _
  have h3 : 10 ^ (n.log2 + 1) ≤ 10 ^ (n.log2 + 2) := Nat.pow_le_pow_right (by omega) (by omega)
  omega

theorem natDec_facts (n : Nat) :
    natDec n ≠ [] ∧ (∀ b ∈ natDec n, isDigit b = true) ∧ valOf (natDec n) = n :=
  digitsFuel_val (n.log2 + 1) n (lt_pow10_log2 n)

theorem all_of_forall {p : UInt8 → Bool} {bs : Bytes} (h : ∀ b ∈ bs, p b = true) : bs.all p = true := by
  simpa [List.all_eq_true] using h

theorem digitsVal_of_digits (bs : Bytes) (hne : bs ≠ []) (hd : ∀ b ∈ bs, isDigit b = true) :
    digitsVal bs = some (valOf bs) := by
  unfold digitsVal
  have h1 : bs.isEmpty = false := by cases bs <;> simp_all
  simp [h1, all_of_forall hd, valOf]

theorem digitsVal_natDec (n : Nat) : digitsVal (natDec n) = some n := by
  obtain ⟨h1, h2, h3⟩ := natDec_facts n
  rw [digitsVal_of_digits _ h1 h2, h3]

theorem isDigit_ne {b : UInt8} (h : isDigit b = true) :
    (b == 32) = false ∧ (b == 45) = false ∧ (b == 43) = false ∧ (b == 10) = false ∧ (b == 62) = false := by
  simp only [isDigit, Bool.and_eq_true, decide_eq_true_eq, UInt8.le_iff_toNat_le] at h
  have h48 : (48 : UInt8).toNat = 48 := rfl
  have h57 : (57 : UInt8).toNat = 57 := rfl
  rw [h48, h57] at h
  refine ⟨?_, ?_, ?_, ?_, ?_⟩ <;>
  · simp only [beq_eq_false_iff_ne, ne_eq, ← UInt8.toNat_inj]
    intro hc
    rw [hc] at h
    revert h
    decide

theorem toSigned_intDec (lo hi s : Int) (hlo : lo ≤ s) (hhi : s ≤ hi)  :
    toSigned lo hi (intDec s) = some s := by
  unfold intDec
  by_cases hs : s < 0
  · simp only [hs, if_true]
    have hv := digitsVal_natDec s.natAbs
    have : lo ≤ -(s.natAbs : Int) := by omega
    simp only [toSigned, hv, this, if_true]
    have h45 : ((45 : UInt8) == 43) = false := by decide
    simp only [h45, Bool.false_eq_true, if_false, beq_self_eq_true, if_true, Option.some.injEq]
    omega
  · simp only [hs, if_false]
    obtain ⟨h1, h2, _⟩ := natDec_facts s.natAbs
    have hv := digitsVal_natDec s.natAbs
    cases hnd : natDec s.natAbs with
    | nil => exact absurd hnd h1
    | cons b ds =>
      have hb := isDigit_ne (h2 b (by simp [hnd]))
      rw [hnd] at hv
      have : (s.natAbs : Int) ≤ hi := by omega
      simp only [toSigned, hb.2.2.1, hb.2.1, Bool.false_eq_true, if_false, hv, this, if_true,
        Option.some.injEq]
      omega

theorem twoDigits_facts : ∀ h, h < 100 →
    twoDigits h = [UInt8.ofNat (48 + h / 10), UInt8.ofNat (48 + h % 10)] := by
  decide +kernel

theorem twoDigits_props (h : Nat) (hh : h < 100) :
    (twoDigits h).length = 2 ∧ (∀ b ∈ twoDigits h, isDigit b = true)
    ∧ toSigned i32Lo i32Hi (twoDigits h) = some (h : Int) := by
  have hf := twoDigits_facts h hh
  have d1 := digit_facts (h / 10) (by omega)
  have d2 := digit_facts (h % 10) (Nat.mod_lt _ (by omega))
  refine ⟨by rw [hf]; rfl, ?_, ?_⟩
  · intro b hb
    rw [hf] at hb
    simp only [List.mem_cons, List.mem_singleton, List.not_mem_nil, or_false] at hb
    rcases hb with rfl | rfl
    · exact d1.1
    · exact d2.1
  · have hdig : ∀ b ∈ twoDigits h, isDigit b = true := by
      intro b hb
      rw [hf] at hb
      simp only [List.mem_cons, List.mem_singleton, List.not_mem_nil, or_false] at hb
      rcases hb with rfl | rfl
      · exact d1.1
      · exact d2.1
    have hv : digitsVal (twoDigits h) = some h := by
      rw [digitsVal_of_digits _ (by rw [hf]; simp) hdig, hf]
      simp only [valOf, List.foldl_cons, List.foldl_nil, d1.2.1, d2.2.1, Option.some.injEq]
      omega
    rw [hf] at hv ⊢
    have : ((h : Nat) : Int) ≤ i32Hi := by unfold i32Hi; omega
    simp only [toSigned, d1.2.2.2.2.1, d1.2.2.2.1, Bool.false_eq_true, if_false, hv, this, if_true]

/-! ### hex ids -/

def hexD (k : Nat) : UInt8 := if k < 10 then UInt8.ofNat (48 + k) else UInt8.ofNat (87 + k)

theorem hex_facts : ∀ n, n < 256 →
    isHexLc (hexD (n / 16)) = true ∧ isHexLc (hexD (n % 16)) = true
    ∧ hexNib (hexD (n / 16)) = some (n / 16) ∧ hexNib (hexD (n % 16)) = some (n % 16) := by
  decide +kernel

theorem hexBytes_cons (b : UInt8) (id : Bytes) :
    hexBytes (b :: id) = hexD (b.toNat / 16) :: hexD (b.toNat % 16) :: hexBytes id := by
  simp only [hexBytes, List.flatMap_cons, hexD, List.cons_append, List.nil_append]

theorem hexBytes_all (id : Bytes) : ∀ b ∈ hexBytes id, isHexLc b = true := by
  induction id with
  | nil => intro b hb; simp [hexBytes] at hb
  | cons c id ih =>
    intro b hb
    rw [hexBytes_cons] at hb
    have hf := hex_facts c.toNat c.toNat_lt
    simp only [List.mem_cons] at hb
    rcases hb with rfl | rfl | hb
    · exact hf.1
    · exact hf.2.1
    · exact ih b hb

theorem unhex_hexBytes (id : Bytes) : unhex (hexBytes id) = some id := by
  induction id with
  | nil => rfl
  | cons c id ih =>
    rw [hexBytes_cons]
    obtain ⟨_, _, h3, h4⟩ := hex_facts c.toNat c.toNat_lt
    have hc : UInt8.ofNat (c.toNat / 16 * 16 + c.toNat % 16) = c := by
      have : c.toNat / 16 * 16 + c.toNat % 16 = c.toNat := by omega
      rw [this]
      exact UInt8.ofNat_toNat
    simp only [unhex, h3, h4, ih, hc]

theorem unhexAll_map (ids : List Bytes) : unhexAll (ids.map hexBytes) = some ids := by
  induction ids with
  | nil => rfl
  | cons i ids ih => simp [unhexAll, unhex_hexBytes, ih]

/-! ### `lines_with_terminator` -/

theorem lwt_go_nlfree (l acc : Bytes) (rest : Bytes) (hl : ∀ b ∈ l, (b == 10) = false) :
    linesWithTerminator.go (l ++ 10 :: rest) acc = (acc.reverse ++ l ++ [10]) :: linesWithTerminator.go rest [] := by
  induction l generalizing acc with
  | nil => simp [linesWithTerminator.go]
  | cons b l ih =>
    have hb : (b == 10) = false := hl b (by simp)
    have := ih (b :: acc) (fun x hx => hl x (by simp [hx]))
    simp [linesWithTerminator.go, hb, this]

/-- a terminated line in front: it is split off -/
theorem lwt_line (l rest : Bytes) (hl : ∀ b ∈ l, (b == 10) = false) :
    linesWithTerminator (l ++ 10 :: rest) = (l ++ [10]) :: linesWithTerminator rest := by
  simp [linesWithTerminator, lwt_go_nlfree l [] rest hl]

theorem lwt_go_last (l acc : Bytes) (hl : ∀ b ∈ l, (b == 10) = false) :
    linesWithTerminator.go l acc = if (acc.reverse ++ l).isEmpty then [] else [acc.reverse ++ l] := by
  induction l generalizing acc with
  | nil => simp [linesWithTerminator.go]
  | cons b l ih =>
    have hb : (b == 10) = false := hl b (by simp)
    have := ih (b :: acc) (fun x hx => hl x (by simp [hx]))
    simp [linesWithTerminator.go, hb, this]

/-- a non-empty piece without LF is one (unterminated) line -/
theorem lwt_single (l : Bytes) (hne : l ≠ []) (hl : ∀ b ∈ l, (b == 10) = false) :
    linesWithTerminator l = [l] := by
  have h : l.isEmpty = false := by cases l <;> simp_all
  simp [linesWithTerminator, lwt_go_last l [] hl, h]

theorem lwt_nil : linesWithTerminator [] = [] := rfl

/-- terminated lines only -/
theorem lwt_lines (ls : List Bytes) (hl : ∀ l ∈ ls, ∀ b ∈ l, (b == 10) = false) :
    linesWithTerminator (ls.flatMap (fun l => l ++ [10])) = ls.map (fun l => l ++ [10]) := by
  induction ls with
  | nil => rfl
  | cons l ls ih =>
    have h1 := hl l (by simp)
    have h2 := ih (fun x hx => hl x (by simp [hx]))
    simp only [List.flatMap_cons, List.map_cons, List.append_assoc, List.singleton_append]
    rw [lwt_line l _ h1, h2]

theorem endsWithNl_append_nl (a : Bytes) : endsWithNl (a ++ [10]) = true := by
  simp [endsWithNl]

theorem noNl_iff (bs : Bytes) : noNl bs = true ↔ ∀ b ∈ bs, (b == 10) = false := by
  simp only [noNl, Bool.not_eq_true', beq_eq_false_iff_ne, ne_eq]
  constructor
  · intro h b hb hc
    subst hc
    have : bs.contains 10 = true := by simpa using hb
    rw [this] at h
    exact absurd h (by simp)
  · intro h
    cases hc : bs.contains 10 with
    | false => rfl
    | true =>
      have : (10 : UInt8) ∈ bs := by simpa using hc
      exact absurd rfl (h 10 this)

end GixModel.C02
