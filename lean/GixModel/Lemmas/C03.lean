import GixModel.Lemmas.Tree
import GixModel.Spec.C03
/-
C03 helper: git's `base_name_compare` (transcribed in `Spec.C03`) computes, on NUL-free names, the
same order as the structural form `cmpRec` of gitoxide's comparison.
-/
namespace GixModel.Tree
open GixModel GixModel.Spec.C03

theorem len_succ (x y : Nat) :
    (if x + 1 < y + 1 then x + 1 else y + 1) = (if x < y then x else y) + 1 := by
  by_cases h : x < y
  · have : x + 1 < y + 1 := by omega
    simp [h, this]
  · have : ¬ x + 1 < y + 1 := by omega
    simp [h, this]

theorem baseNameCompare_cons_same (a : UInt8) (as bs : Bytes) (m1 m2 : Nat) :
    baseNameCompare (a :: as) m1 (a :: bs) m2 = baseNameCompare as m1 bs m2 := by
  simp only [baseNameCompare, List.length_cons, len_succ, memcmp, if_true, cstrAt,
    List.getElem?_cons_succ]
  rfl

theorem baseNameCompare_cons_ne (a b : UInt8) (as bs : Bytes) (m1 m2 : Nat) (h : a ≠ b) :
    baseNameCompare (a :: as) m1 (b :: bs) m2 = (a.toNat : Int) - (b.toNat : Int) := by
  have hne : (a.toNat : Int) - (b.toNat : Int) ≠ 0 := by
    intro h0
    apply h
    apply UInt8.toNat_inj.1
    omega
  simp only [baseNameCompare, List.length_cons, len_succ, memcmp, h, if_false]
  simp [hne]

theorem u8_pos_of_ne_zero {b : UInt8} (h : b ≠ 0) : (0 : UInt8) < b := by
  rcases UInt8.lt_or_lt_of_ne h with h' | h'
  · exact absurd h' (by rw [UInt8.lt_iff_toNat_lt]; simp)
  · exact h'

theorem git_eq_cmpRec (n1 : Bytes) (m1 : Nat) (n2 : Bytes) (m2 : Nat)
    (h1 : NulFree n1) (h2 : NulFree n2) :
    ordOfInt (baseNameCompare n1 m1 n2 m2) = cmpRec n1 (isTreeMode m1) n2 (isTreeMode m2) := by
  have hd1 : sIsDir m1 = isTreeMode m1 := rfl
  have hd2 : sIsDir m2 = isTreeMode m2 := rfl
  induction n1 generalizing n2 with
  | nil =>
    cases n2 with
    | nil =>
      simp only [baseNameCompare, memcmp, cstrAt, hd1, hd2, cmpRec, treeByte]
      generalize isTreeMode m1 = t1
      generalize isTreeMode m2 = t2
      cases t1 <;> cases t2 <;> decide
    | cons b bs =>
      have hb : b ≠ 0 := h2 b (by simp)
      have hb0 : (b == 0) = false := by simpa using hb
      have hpos := u8_pos_of_ne_zero hb
      simp only [baseNameCompare, List.length_nil, List.length_cons, Nat.zero_lt_succ, if_true,
        memcmp, cstrAt, hd1, hd2, cmpRec, treeByte, List.getElem?_nil,
        List.getElem?_cons_zero, hb0, Bool.false_and, Bool.false_eq_true, if_false]
      generalize isTreeMode m1 = t1
      cases t1
      · simp [hpos, cmpOptByte, ordOfInt]
      · simp only [ne_eq, not_true_eq_false, if_false, beq_self_eq_true, Bool.and_self, if_true,
          cmpOptByte]
        by_cases hlt : (47 : UInt8) < b
        · simp [hlt, ordOfInt]
        · by_cases hgt : b < 47
          · have : (47 : UInt8) > b := hgt
            simp [hlt, this, ordOfInt]
          · have : ¬ (47 : UInt8) > b := hgt
            simp [hlt, this, ordOfInt]
  | cons a as ih =>
    have ha : a ≠ 0 := h1 a (by simp)
    cases n2 with
    | nil =>
      have ha0 : (a == 0) = false := by simpa using ha
      have hpos := u8_pos_of_ne_zero ha
      have hnlt : ¬ (as.length + 1 < 0) := by omega
      simp only [baseNameCompare, List.length_nil, List.length_cons, hnlt, if_false,
        memcmp, cstrAt, hd1, hd2, cmpRec, treeByte, List.getElem?_nil,
        List.getElem?_cons_zero, ha0, Bool.false_and, Bool.false_eq_true]
      generalize isTreeMode m2 = t2
      cases t2
      · have h1' : ¬ a < 0 := by rw [UInt8.lt_iff_toNat_lt]; simp
        have h2' : a > 0 := hpos
        simp [h1', h2', cmpOptByte, ordOfInt]
      · simp only [ne_eq, not_true_eq_false, if_false, beq_self_eq_true, Bool.and_self, if_true,
          cmpOptByte]
        by_cases hlt : a < 47
        · simp [hlt, ordOfInt]
        · by_cases hgt : (47 : UInt8) < a
          · have : a > 47 := hgt
            simp [hlt, this, ordOfInt]
          · have : ¬ a > 47 := hgt
            simp [hlt, this, ordOfInt]
    | cons b bs =>
      have h1' : NulFree as := fun x hx => h1 x (List.mem_cons_of_mem _ hx)
      have h2' : NulFree bs := fun x hx => h2 x (List.mem_cons_of_mem _ hx)
      by_cases hab : a = b
      · subst hab
        rw [baseNameCompare_cons_same, ih bs h1' h2']
        simp [cmpRec, UInt8.lt_irrefl]
      · rw [baseNameCompare_cons_ne _ _ _ _ _ _ hab]
        simp only [cmpRec]
        by_cases hlt : a < b
        · have : (a.toNat : Int) - (b.toNat : Int) < 0 := by
            rw [UInt8.lt_iff_toNat_lt] at hlt; omega
          simp [hlt, ordOfInt, this]
        · have hgt : b < a := by
            rcases UInt8.lt_or_lt_of_ne hab with h | h
            · exact absurd h hlt
            · exact h
          have h3 : ¬ (a.toNat : Int) - (b.toNat : Int) < 0 := by
            rw [UInt8.lt_iff_toNat_lt] at hgt; omega
          have h4 : ¬ (a.toNat : Int) - (b.toNat : Int) = 0 := by
            rw [UInt8.lt_iff_toNat_lt] at hgt; omega
          simp [hlt, hgt, ordOfInt, h3, h4]

/-! ### lookup -/

/-- What Rust documents for `binary_search_by`, as a contract on ANY search function: on a slice
partitioned by `f` it answers `Ok(i)` only with `f(slice[i]) == Equal`, answers `Err(_)` only when
no element compares `Equal`, and never reads out of bounds. -/
def SearchContract (search : List Entry → (Entry → Ordering) → Search) : Prop :=
  ∀ l f, Mono f l →
    match search l f with
    | .found i => ∃ h : i < l.length, f l[i] = .eq
    | .insertAt _ => ∀ e ∈ l, f e ≠ .eq
    | .oob => False

/-- `bisect_entry` over an arbitrary search function -/
def bisectWith (search : List Entry → (Entry → Ordering) → Search)
    (es : List Entry) (name : Bytes) (isDir : Bool) : Option Entry :=
  match search es (fun e => cmpNames e.name e.isTree name isDir) with
  | .found i => es[i]?
  | _ => none

theorem bisectEntry_eq_with : bisectEntry = bisectWith binarySearchBy := rfl

theorem std_contract : SearchContract binarySearchBy := by
  intro l f hm
  have h := binarySearchBy_spec l f hm
  cases hs : binarySearchBy l f with
  | found i => rw [hs] at h; exact h
  | oob => rw [hs] at h; exact h
  | insertAt i =>
    rw [hs] at h
    obtain ⟨_, hlt, hgt⟩ := h
    intro e he
    obtain ⟨j, hj, rfl⟩ := List.mem_iff_getElem.1 he
    by_cases hji : j < i
    · rw [hlt j hj hji]; simp
    · rw [hgt j hj (by omega)]; simp

theorem sorted_key_unique {l : List Entry} (hl : NamesOk l) (hs : Sorted l) {a b : Entry}
    (ha : a ∈ l) (hb : b ∈ l) (hk : a.key = b.key) : a = b := by
  obtain ⟨i, hi, rfl⟩ := List.mem_iff_getElem.1 ha
  obtain ⟨j, hj, rfl⟩ := List.mem_iff_getElem.1 hb
  have hp := List.pairwise_iff_getElem.1 hs
  have hni := hl l[i] (List.getElem_mem hi)
  have hnj := hl l[j] (List.getElem_mem hj)
  by_cases hij : i < j
  · have := hp i j hi hj hij
    rw [entryCmp_eq_key hni hnj, hk, cmpBytes_refl] at this
    cases this
  · by_cases hji : j < i
    · have := hp j i hj hi hji
      rw [entryCmp_eq_key hnj hni, hk, cmpBytes_refl] at this
      cases this
    · have : i = j := by omega
      subst this; rfl

theorem probe_eq_iff {e : Entry} {n : Bytes} {d : Bool} (he : SlashFree e.name) (hn : SlashFree n) :
    cmpNames e.name e.isTree n d = .eq ↔ e.name = n ∧ e.isTree = d := by
  rw [cmpNames_eq_key _ _ _ _ he hn]
  constructor
  · intro h; exact key_inj he hn (cmpBytes_eq h)
  · rintro ⟨h1, h2⟩; rw [h1, h2, cmpBytes_refl]

theorem bisectWith_correct (search : List Entry → (Entry → Ordering) → Search)
    (hc : SearchContract search) (es : List Entry) (hl : NamesOk es) (hs : Sorted es)
    (n : Bytes) (d : Bool) (hn : SlashFree n) (e : Entry) :
    bisectWith search es n d = some e ↔ e ∈ es ∧ e.name = n ∧ e.isTree = d := by
  have hm := mono_of_sorted hl hs n d hn
  have hspec := hc es _ hm
  unfold bisectWith
  cases hsr : search es (fun e => cmpNames e.name e.isTree n d) with
  | oob => rw [hsr] at hspec; exact absurd hspec id
  | insertAt i =>
    rw [hsr] at hspec
    simp only
    constructor
    · intro h; cases h
    · rintro ⟨hmem, h1, h2⟩
      exact absurd ((probe_eq_iff (hl e hmem) hn).2 ⟨h1, h2⟩) (hspec e hmem)
  | found i =>
    rw [hsr] at hspec
    obtain ⟨hi, heq⟩ := hspec
    simp only [List.getElem?_eq_getElem hi, Option.some.injEq]
    have hmi : es[i] ∈ es := List.getElem_mem hi
    have hfound := (probe_eq_iff (hl _ hmi) hn).1 heq
    constructor
    · intro h; subst h; exact ⟨hmi, hfound⟩
    · rintro ⟨hmem, h1, h2⟩
      apply sorted_key_unique hl hs hmi hmem
      simp only [Entry.key, hfound.1, hfound.2, h1, h2]

theorem scan_correct (es : List Entry) (hl : NamesOk es) (hs : Sorted es)
    (n : Bytes) (d : Bool) (e : Entry) :
    scanEntry es n d = some e ↔ e ∈ es ∧ e.name = n ∧ e.isTree = d := by
  unfold scanEntry
  constructor
  · intro h
    have h1 := List.mem_of_find?_eq_some h
    have h2 := List.find?_some h
    simp only [Bool.and_eq_true, beq_iff_eq] at h2
    exact ⟨h1, h2.1, h2.2⟩
  · rintro ⟨hmem, h1, h2⟩
    cases hf : es.find? (fun e => e.name == n && e.isTree == d) with
    | none =>
      have := List.find?_eq_none.1 hf e hmem
      simp [h1, h2] at this
    | some e' =>
      have h1' := List.mem_of_find?_eq_some hf
      have h2' := List.find?_some hf
      simp only [Bool.and_eq_true, beq_iff_eq] at h2'
      congr 1
      apply sorted_key_unique hl hs h1' hmem
      simp only [Entry.key, h2'.1, h2'.2, h1, h2]

/-! ### probes that contain a slash (outside the property's domain) -/

/-- the comparison looks at ONE byte after the common prefix: against slash-free entry names a probe
`q ++ "/" ++ rest` (any `rest`, file or directory) compares exactly like the directory probe `q` -/
theorem cmpRec_slash_probe (n1 : Bytes) (t1 : Bool) (q rest : Bytes) (d : Bool)
    (h1 : SlashFree n1) (hq : SlashFree q) :
    cmpRec n1 t1 (q ++ 47 :: rest) d = cmpRec n1 t1 q true := by
  induction n1 generalizing q with
  | nil =>
    cases q with
    | nil => simp [cmpRec, treeByte]
    | cons b bs => simp [cmpRec]
  | cons a as ih =>
    have ha : a ≠ 47 := h1 a (by simp)
    cases q with
    | nil =>
      simp only [List.nil_append, cmpRec, treeByte, if_true, cmpOptByte]
      by_cases hlt : a < 47
      · simp [hlt]
      · by_cases hgt : (47 : UInt8) < a
        · simp [hlt, hgt]
        · exact absurd (u8_eq_of_not_lt hlt hgt) ha
    | cons b bs =>
      simp only [List.cons_append, cmpRec]
      rw [ih bs h1.tail hq.tail]

theorem searchLoop_congr {α : Type} (f g : α → Ordering) (l : List α) (h : ∀ e ∈ l, f e = g e) :
    ∀ (fuel base size : Nat), searchLoop f l fuel base size = searchLoop g l fuel base size := by
  intro fuel
  induction fuel with
  | zero => intro base size; rfl
  | succ fuel ih =>
    intro base size
    unfold searchLoop
    by_cases hs : size > 1
    · simp only [hs, if_true]
      cases hm : l[base + size / 2]? with
      | none => rfl
      | some e =>
        simp only
        have he : e ∈ l := List.mem_of_getElem? hm
        rw [h e he, ih]
    · simp only [hs, if_false]

theorem binarySearchBy_congr {α : Type} (f g : α → Ordering) (l : List α) (h : ∀ e ∈ l, f e = g e) :
    binarySearchBy l f = binarySearchBy l g := by
  unfold binarySearchBy
  rw [searchLoop_congr f g l h]
  split
  · rfl
  · cases searchLoop g l l.length 0 l.length with
    | none => rfl
    | some base =>
      simp only
      cases hb : l[base]? with
      | none => rfl
      | some e =>
        simp only
        rw [h e (List.mem_of_getElem? hb)]

theorem bisectEntry_slash_probe (es : List Entry) (hl : NamesOk es) (q rest : Bytes) (d : Bool)
    (hq : SlashFree q) : bisectEntry es (q ++ 47 :: rest) d = bisectEntry es q true := by
  unfold bisectEntry
  rw [binarySearchBy_congr _ (fun e => cmpNames e.name e.isTree q true) es]
  intro e he
  rw [cmpNames_eq_rec, cmpNames_eq_rec, cmpRec_slash_probe _ _ _ _ _ (hl e he) hq]

end GixModel.Tree
