import GixModel.Lemmas.C14Write
/-
C14 helper lemmas, part 7: `File.new (sWriteGraph l bases trailer)` succeeds and its chunks are the
layer's chunks.
-/
namespace GixModel.C14
open GixModel
open GixModel.C09 (be32 be64 readU32 readU64 slice)

/-- what `chunks_payload` says about a chunk list, as a relation -/
def Describes (data : Bytes) (chunks : List Chunk) (cs : List (Bytes × Bytes)) : Prop :=
  chunks.map (fun c => (c.kind, c.stop - c.start, chunkBytes data c)) = cs.map (fun c => (c.1, c.2.length, some c.2))

theorem Describes.find_at {data : Bytes} : ∀ {chunks : List Chunk} {cs : List (Bytes × Bytes)},
    Describes data chunks cs → cs.Pairwise (fun a b => a.1 ≠ b.1) →
    ∀ i (hi : i < cs.length), ∃ c, findChunk chunks cs[i].1 = some c ∧ c ∈ chunks ∧
      c.stop - c.start = cs[i].2.length ∧ chunkBytes data c = some cs[i].2 := by
  intro chunks cs
  induction cs generalizing chunks with
  | nil => intro _ _ i hi; simp at hi
  | cons c0 rest ih =>
    intro hd hp i hi
    cases chunks with
    | nil => simp [Describes] at hd
    | cons ch chunks' =>
      simp only [Describes, List.map_cons, List.cons.injEq, Prod.mk.injEq] at hd
      obtain ⟨⟨hk, hs, hb⟩, hrest⟩ := hd
      have hp' := List.pairwise_cons.mp hp
      cases i with
      | zero =>
        refine ⟨ch, ?_, by simp, hs, hb⟩
        simp [findChunk, List.find?_cons, hk]
      | succ j =>
        have hj : j < rest.length := by simpa using hi
        obtain ⟨c, h1, h2, h3, h4⟩ := ih (chunks := chunks') hrest hp'.2 j hj
        refine ⟨c, ?_, by simp [h2], h3, h4⟩
        have hne : ¬ (ch.kind = (rest[j]'hj).1) := by
          rw [hk]; exact hp'.1 _ (List.getElem_mem hj)
        simp only [List.getElem_cons_succ, findChunk, List.find?_cons, hne, decide_false] at h1 ⊢
        exact h1

theorem Describes.find_none {data : Bytes} : ∀ {chunks : List Chunk} {cs : List (Bytes × Bytes)},
    Describes data chunks cs → ∀ K, (∀ c ∈ cs, c.1 ≠ K) → findChunk chunks K = none := by
  intro chunks cs
  induction cs generalizing chunks with
  | nil =>
    intro hd K _
    cases chunks with
    | nil => rfl
    | cons _ _ => simp [Describes] at hd
  | cons c0 rest ih =>
    intro hd K hK
    cases chunks with
    | nil => simp [Describes] at hd
    | cons ch chunks' =>
      simp only [Describes, List.map_cons, List.cons.injEq, Prod.mk.injEq] at hd
      obtain ⟨⟨hk, _, _⟩, hrest⟩ := hd
      have hne : ¬ (ch.kind = K) := by rw [hk]; exact hK c0 (by simp)
      have := ih (chunks := chunks') hrest K (fun c hc => hK c (by simp [hc]))
      simp only [findChunk, List.find?_cons, hne, decide_false] at this ⊢
      exact this

theorem chunksOf_getLast : ∀ (es : List (Bytes × Nat)) (last : Bytes × Nat), es ≠ [] →
    ∃ c, (chunksOf (es ++ [last])).getLast? = some c ∧ c.stop = last.2 := by
  intro es
  induction es with
  | nil => intro _ h; exact absurd rfl h
  | cons e rest ih =>
    intro last _
    obtain ⟨k, a⟩ := e
    cases rest with
    | nil => obtain ⟨k', b⟩ := last; exact ⟨_, rfl, rfl⟩
    | cons e2 rest' =>
      obtain ⟨k2, a2⟩ := e2
      obtain ⟨c, hc, hs⟩ := ih last (by simp)
      refine ⟨c, ?_, hs⟩
      simp only [List.cons_append, chunksOf] at hc ⊢
      rw [List.getLast?_cons, hc]
      rfl

theorem fanMonotone_eq : ∀ l : List Nat, fanMonotone l = C09.fanMonotone l := by
  intro l
  induction l with
  | nil => rfl
  | cons a rest ih =>
    cases rest with
    | nil => rfl
    | cons b r => simp only [fanMonotone, C09.fanMonotone, ih]

end GixModel.C14

namespace GixModel.C14
open GixModel
open GixModel.C09 (be32 be64 readU32 readU64 slice)

theorem graphChunks_shape (l : SLayer) (bases : List Bytes) :
    sGraphChunks l bases =
        (OIDF, (sFile l bases.length).fan.flatMap be32) :: (OIDL, (sFile l bases.length).oidl)
          :: (CDAT, (sFile l bases.length).cdat)
          :: (optChunk EDGE (sFile l bases.length).edges ++ optChunk BASE (basePayload bases)) := by
  simp [sGraphChunks]

theorem graphChunks_kinds (l : SLayer) (bases : List Bytes) : KindsOk (sGraphChunks l bases) ∧
    (sGraphChunks l bases).length ≤ 5 := by
  rw [graphChunks_shape]
  cases (sFile l bases.length).edges <;> cases basePayload bases <;>
    refine ⟨⟨?_, ?_, ?_⟩, ?_⟩ <;>
    simp [optChunk, OIDF, OIDL, CDAT, EDGE, BASE]

theorem readFan_of_take : ∀ (fan : List Nat) (d : Bytes), (∀ v ∈ fan, v < 4294967296) →
    d.take (fan.length * 4) = fan.flatMap be32 → C09.readFan fan.length d = some fan := by
  intro fan
  induction fan with
  | nil => intro d _ _; rfl
  | cons v rest ih =>
    intro d hb ht
    have hlen : (List.flatMap be32 (v :: rest)).length = (rest.length + 1) * 4 := by
      rw [C09.flatMap_be32_length]; simp
    have hdlen : (rest.length + 1) * 4 ≤ d.length := by
      have := congrArg List.length ht
      rw [hlen, List.length_take] at this
      simp only [List.length_cons] at this
      omega
    have h4 : d.take 4 = be32 v := by
      have := congrArg (List.take 4) ht
      rw [List.take_take] at this
      simp only [List.length_cons, List.flatMap_cons] at this
      rw [Nat.min_eq_left (by omega), List.take_append_of_le_length (by simp [C09.be32_length])] at this
      rw [this]; rfl
    have hrest : (d.drop 4).take (rest.length * 4) = rest.flatMap be32 := by
      have := congrArg (List.drop 4) ht
      simp only [List.length_cons, List.flatMap_cons] at this
      rw [List.drop_take, List.drop_left' (C09.be32_length v)] at this
      rw [← this]; congr 1; omega
    simp only [List.length_cons, C09.readFan, h4, C09.readU32_be32 (hb v (by simp)), Option.bind_eq_bind,
      Option.bind_some, ih (d.drop 4) (fun x hx => hb x (by simp [hx])) hrest]

theorem layout_all4 {cs : List (Bytes × Bytes)} (hk : KindsOk cs) (pos : Nat) : ∀ e ∈ layout cs pos, e.1.length = 4 := by
  intro e he
  rw [layout_eq] at he
  rcases List.mem_append.mp he with he | he
  · obtain ⟨⟨c, hc, hkk⟩, _, _⟩ := layoutInit_mem cs _ e he
    rw [← hkk]; exact hk.len4 c hc
  · simp only [List.mem_singleton] at he; subst he; rfl

/-- Byte-level round trip: the file git writes for a layer is accepted and its chunks are the
layer's chunks. -/
theorem File.new_sWriteGraph (l : SLayer) (hl : LayerOk l) (bases : List Bytes)
    (hb20 : ∀ b ∈ bases, b.length = 20) (hbn : bases.length < 256) (tr : Bytes) (htr : tr.length = 20)
    (hsz : (sWriteGraph l bases tr).length < 18446744073709551616) :
    ∃ f, File.new (sWriteGraph l bases tr) = some (.ok f) ∧ f.fan = (sFile l bases.length).fan ∧
      f.oidl = (sFile l bases.length).oidl ∧ f.cdat = (sFile l bases.length).cdat ∧
      f.edges = (sFile l bases.length).edges := by
  obtain ⟨F, hF⟩ : ∃ F, F = sFile l bases.length := ⟨_, rfl⟩
  obtain ⟨cs, hcs⟩ : ∃ cs, cs = sGraphChunks l bases := ⟨_, rfl⟩
  obtain ⟨hdr, hhdr⟩ : ∃ hdr : Bytes, hdr = [67, 71, 80, 72, 1, 1, UInt8.ofNat cs.length, UInt8.ofNat bases.length] := ⟨_, rfl⟩
  have hdata : sWriteGraph l bases tr = sWriteChunks hdr cs tr := by rw [hhdr, hcs]; rfl
  rw [hdata] at hsz ⊢
  rw [← hF]
  -- facts about the layer's chunks
  have hn := sFile_numCommits l bases.length
  rw [← hF] at hn
  have hfan255 : F.fan[255]? = some l.ids.length := hn
  have hfanlen : F.fan.length = 256 := by rw [hF]; simp [sFile]
  have hfaneq := sFile_fan l bases.length
  rw [← hF] at hfaneq
  have hfanU32 : ∀ v ∈ F.fan, v < 4294967296 := by
    intro v hv
    rw [hfaneq] at hv
    obtain ⟨b, _, rfl⟩ := List.mem_map.mp hv
    have := C09.countLe_le_length b (l.ids.map C09.hd)
    have := hl.small
    simp only [List.length_map] at *
    omega
  have hmono : fanMonotone F.fan = true := by rw [fanMonotone_eq, hfaneq]; exact C09.fanMonotone_counts _
  have hoidl : F.oidl.length = l.ids.length * 20 := by rw [hF]; exact C09.flatten_length_fixed _ hl.ids20
  have hcdat : F.cdat.length = l.ids.length * 36 := by
    rw [hF]
    show (sLayer l.commits 0).1.flatten.length = _
    rw [C09.flatten_length_fixed _ (sLayer_records36 l.commits 0 (fun c hc => (hl.fits c hc).tree20)), sLayer_length, hl.lens]
  have hshape := graphChunks_shape l bases
  rw [← hcs, ← hF] at hshape
  obtain ⟨hk, hlen5⟩ := graphChunks_kinds l bases
  rw [← hcs] at hk hlen5
  have hlen3 : 3 ≤ cs.length := by rw [hshape]; simp
  have hne : cs ≠ [] := by intro h; rw [h] at hlen3; simp at hlen3
  have hhl : hdr.length = 8 := by rw [hhdr]; rfl
  -- the parsed table of contents and what it describes
  have hparse := tocParse_write hdr cs tr hhl hk hne hsz
  have htoclen : (tocBytes (layout cs (8 + 12 * (cs.length + 1)))).length = 12 * (cs.length + 1) := by
    rw [tocBytes_length _ (layout_all4 hk _), layout_eq]; simp [layoutInit_length]
  have hprelen : (hdr ++ tocBytes (layout cs (8 + 12 * (cs.length + 1)))).length = 8 + 12 * (cs.length + 1) := by
    simp only [List.length_append, hhl, htoclen]
  have hdesc : Describes (sWriteChunks hdr cs tr) (chunksOf (layout cs (8 + 12 * (cs.length + 1)))) cs := by
    have := chunks_payload cs (hdr ++ tocBytes (layout cs (8 + 12 * (cs.length + 1)))) tr
    rw [hprelen] at this
    simp only [sWriteChunks, Describes]
    rw [← List.append_assoc]
    exact this
  have hdlen : (sWriteChunks hdr cs tr).length = 8 + 12 * (cs.length + 1) + totalLen cs + 20 := by
    simp only [sWriteChunks, List.length_append, hhl, htoclen, totalLen, htr]; omega
  have htotal : 1024 ≤ totalLen cs := by
    rw [hshape, totalLen_cons, C09.flatMap_be32_length, hfanlen]; omega
  -- the individual chunks
  have hi0 : 0 < cs.length := by omega
  have hi1 : 1 < cs.length := by omega
  have hi2 : 2 < cs.length := by omega
  have hc0 : cs[0] = (OIDF, F.fan.flatMap be32) := by simp only [hshape, List.getElem_cons_zero]
  have hc1 : cs[1] = (OIDL, F.oidl) := by simp only [hshape, List.getElem_cons_succ, List.getElem_cons_zero]
  have hc2 : cs[2] = (CDAT, F.cdat) := by simp only [hshape, List.getElem_cons_succ, List.getElem_cons_zero]
  obtain ⟨fo, hfo1, _, hfo3, hfo4⟩ := hdesc.find_at hk.distinct 0 hi0
  obtain ⟨ol, hol1, _, hol3, hol4⟩ := hdesc.find_at hk.distinct 1 hi1
  obtain ⟨cd, hcd1, _, hcd3, hcd4⟩ := hdesc.find_at hk.distinct 2 hi2
  rw [hc0] at hfo1 hfo3 hfo4
  rw [hc1] at hol1 hol3 hol4
  rw [hc2] at hcd1 hcd3 hcd4
  simp only [C09.flatMap_be32_length, hfanlen] at hfo3
  simp only [hoidl] at hol3
  simp only [hcdat] at hcd3
  -- the last chunk ends where the trailer starts
  obtain ⟨lastc, hlast, hlaststop⟩ := chunksOf_getLast (layoutInit cs (8 + 12 * (cs.length + 1)))
    ([0, 0, 0, 0], 8 + 12 * (cs.length + 1) + totalLen cs)
    (by intro h; have := layoutInit_length cs (8 + 12 * (cs.length + 1)); rw [h] at this; simp at this; omega)
  rw [← layout_eq] at hlast
  simp only at hlaststop
  -- EDGE and BASE
  have hedge : (findChunk (chunksOf (layout cs (8 + 12 * (cs.length + 1)))) EDGE).bind (chunkBytes (sWriteChunks hdr cs tr)) = F.edges := by
    cases he : F.edges with
    | none =>
      have : findChunk (chunksOf (layout cs (8 + 12 * (cs.length + 1)))) EDGE = none := by
        apply hdesc.find_none
        intro c hc
        rw [hshape, he] at hc
        cases hb : basePayload bases <;> simp [optChunk, hb] at hc <;>
          (rcases hc with h | h | h | h <;> (try rw [h]) <;> simp [OIDF, OIDL, CDAT, EDGE, BASE])
      rw [this]; rfl
    | some e =>
      have hi3 : 3 < cs.length := by rw [hshape, he]; simp [optChunk]
      have hc3 : cs[3] = (EDGE, e) := by simp only [hshape, he, optChunk, List.getElem_cons_succ, List.cons_append, List.getElem_cons_zero]
      obtain ⟨c, h1, _, _, h4⟩ := hdesc.find_at hk.distinct 3 hi3
      rw [hc3] at h1 h4
      rw [h1]; exact h4
  have hbase : ∃ base, baseCheck (chunksOf (layout cs (8 + 12 * (cs.length + 1)))) bases.length = .ok base ∧
      ¬ (bases.length > 0 ∧ base.isNone = true) := by
    cases hb : basePayload bases with
    | none =>
      have hempty : bases.length = 0 := by
        unfold basePayload at hb
        by_cases h : bases.isEmpty = true
        · simp [List.isEmpty_iff.mp h]
        · simp [h] at hb
      have : findChunk (chunksOf (layout cs (8 + 12 * (cs.length + 1)))) BASE = none := by
        apply hdesc.find_none
        intro c hc
        rw [hshape, hb] at hc
        cases he : F.edges <;> simp [optChunk, he] at hc <;>
          (rcases hc with h | h | h | h <;> (try rw [h]) <;> simp [OIDF, OIDL, CDAT, EDGE, BASE])
      exact ⟨none, by simp [baseCheck, this], by omega⟩
    | some p =>
      have hp : p = bases.flatten := by
        unfold basePayload at hb
        by_cases h : bases.isEmpty = true
        · simp [h] at hb
        · simp [h] at hb; exact hb.symm
      have hplen : p.length = bases.length * 20 := by rw [hp]; exact C09.flatten_length_fixed _ hb20
      obtain ⟨i, hi, hci⟩ : ∃ i, ∃ (hi : i < cs.length), cs[i] = (BASE, p) := by
        cases he : F.edges with
        | none => exact ⟨3, by rw [hshape, he, hb]; simp [optChunk], by simp only [hshape, he, hb, optChunk, List.nil_append, List.getElem_cons_succ, List.getElem_cons_zero]⟩
        | some e => exact ⟨4, by rw [hshape, he, hb]; simp [optChunk], by simp only [hshape, he, hb, optChunk, List.cons_append, List.nil_append, List.getElem_cons_succ, List.getElem_cons_zero]⟩
      obtain ⟨c, h1, _, h3, _⟩ := hdesc.find_at hk.distinct i hi
      rw [hci] at h1 h3
      simp only [hplen] at h3
      refine ⟨some c, ?_, by simp⟩
      have hm : ¬ ((c.stop - c.start) % 20 ≠ 0) := by omega
      have hd : ¬ ((c.stop - c.start) / 20 ≠ bases.length) := by omega
      simp only [baseCheck, h1]
      rw [if_neg hm, if_neg hd]
  obtain ⟨base, hbase1, hbase2⟩ := hbase
  -- reading the fan-out table
  have hfanread : C09.readFan 256 ((sWriteChunks hdr cs tr).drop fo.start) = some F.fan := by
    have hcb := hfo4
    unfold chunkBytes at hcb
    by_cases hc : fo.start ≤ fo.stop ∧ fo.stop ≤ (sWriteChunks hdr cs tr).length
    · rw [if_pos hc] at hcb
      injection hcb with hcb
      rw [hfo3] at hcb
      have := readFan_of_take F.fan ((sWriteChunks hdr cs tr).drop fo.start) hfanU32 (by rw [hfanlen]; exact hcb)
      rw [hfanlen] at this; exact this
    · rw [if_neg hc] at hcb; cases hcb
  -- put it together
  refine ⟨{ baseGraphCount := bases.length, baseGraphs := base.bind (chunkBytes (sWriteChunks hdr cs tr)),
            cdat := F.cdat, edges := F.edges, fan := F.fan, oidl := F.oidl }, ?_, rfl, rfl, rfl, rfl⟩
  have hlen_ok : ¬ (sWriteChunks hdr cs tr).length < 8 + 4 * 12 + 1024 + 20 := by rw [hdlen]; omega
  have htake : (sWriteChunks hdr cs tr).take 4 = [67, 71, 80, 72] := by rw [hhdr]; rfl
  have hg4 : (sWriteChunks hdr cs tr)[4]? = some 1 := by rw [hhdr]; rfl
  have hg5 : (sWriteChunks hdr cs tr)[5]? = some 1 := by rw [hhdr]; rfl
  have hg6 : (sWriteChunks hdr cs tr)[6]? = some (UInt8.ofNat cs.length) := by rw [hhdr]; rfl
  have hg7 : (sWriteChunks hdr cs tr)[7]? = some (UInt8.ofNat bases.length) := by rw [hhdr]; rfl
  have hcc : (UInt8.ofNat cs.length).toNat = cs.length := by rw [UInt8.toNat_ofNat']; exact Nat.mod_eq_of_lt (by omega)
  have hbc : (UInt8.ofNat bases.length).toNat = bases.length := by rw [UInt8.toNat_ofNat']; exact Nat.mod_eq_of_lt hbn
  have hcdneed : needChunk (chunksOf (layout cs (8 + 12 * (cs.length + 1)))) CDAT 36 = .ok cd := by
    have hm : ¬ ((cd.stop - cd.start) % 36 ≠ 0) := by omega
    simp only [needChunk, hcd1]; rw [if_neg hm]
  have holneed : needChunk (chunksOf (layout cs (8 + 12 * (cs.length + 1)))) OIDL 20 = .ok ol := by
    have hm : ¬ ((ol.stop - ol.start) % 20 ≠ 0) := by omega
    simp only [needChunk, hol1]; rw [if_neg hm]
  have hfoneed : needFan (chunksOf (layout cs (8 + 12 * (cs.length + 1)))) = .ok fo := by
    have hm : ¬ (fo.stop - fo.start ≠ 1024) := by omega
    simp only [needFan, hfo1]; rw [if_neg hm]
  unfold File.new
  rw [if_neg hlen_ok, htake, if_neg (by simp)]
  simp only [hg4, hg5, hg6, hg7]
  rw [if_neg (by decide), if_neg (by decide), hcc, hparse]
  simp only [hbc, File.fromChunks, hbase1, hcdneed, hfoneed, holneed, File.assemble, hlast]
  rw [if_neg (by rw [hlaststop, hdlen]; omega), if_neg (by rw [hlaststop, hdlen]; omega), if_neg hbase2]
  simp only [File.finish, hfanread, hfan255, hol4, hcd4, hedge]
  rw [if_neg (by rw [hmono]; decide), if_neg (by omega), if_neg (by omega)]

end GixModel.C14
