import GixModel.Spec.C19
/-
C19 — helper lemmas: the byte order, the std binary search (soundness; contract on sorted input),
`rfind`, the record-start recovery, parsing of rendered records, ownership of offsets.
-/
namespace GixModel.C19
open GixModel

/-! ### the byte order -/

theorem cmpBytes_eq_iff : ∀ {a b : Bytes}, cmpBytes a b = .eq ↔ a = b := by
  intro a
  induction a with
  | nil => intro b; cases b <;> simp [cmpBytes]
  | cons x a ih =>
    intro b
    cases b with
    | nil => simp [cmpBytes]
    | cons y b =>
      unfold cmpBytes
      by_cases h1 : x.toNat < y.toNat
      · simp only [h1, if_true]
        constructor
        · intro h; cases h
        · intro h; injection h with h _; subst h; omega
      · by_cases h2 : y.toNat < x.toNat
        · simp only [h1, h2, if_false, if_true]
          constructor
          · intro h; cases h
          · intro h; injection h with h _; subst h; omega
        · simp only [h1, h2, if_false]
          have hxy : x = y := UInt8.toNat_inj.1 (by omega)
          rw [ih]
          constructor
          · intro h; rw [hxy, h]
          · intro h; injection h

theorem cmpBytes_refl (a : Bytes) : cmpBytes a a = .eq := cmpBytes_eq_iff.2 rfl

/-- `k ≤ m`, `m < n` ⟹ `k < n` -/
theorem cmp_le_lt : ∀ {k m n : Bytes}, cmpBytes k m ≠ .gt → cmpBytes m n = .lt → cmpBytes k n = .lt := by
  intro k
  induction k with
  | nil =>
    intro m n _ h2
    cases n with
    | nil => cases m <;> simp [cmpBytes] at h2
    | cons z n => rfl
  | cons x k ih =>
    intro m n h1 h2
    cases m with
    | nil => simp [cmpBytes] at h1
    | cons y m =>
      cases n with
      | nil => simp [cmpBytes] at h2
      | cons z n =>
        unfold cmpBytes at h1 h2 ⊢
        by_cases a1 : x.toNat < y.toNat
        · by_cases b1 : y.toNat < z.toNat
          · simp [show x.toNat < z.toNat by omega]
          · by_cases b2 : z.toNat < y.toNat
            · simp [b1, b2] at h2
            · simp [show x.toNat < z.toNat by omega]
        · by_cases a2 : y.toNat < x.toNat
          · simp [a1, a2] at h1
          · simp only [a1, a2, if_false] at h1
            by_cases b1 : y.toNat < z.toNat
            · simp [show x.toNat < z.toNat by omega]
            · by_cases b2 : z.toNat < y.toNat
              · simp [b1, b2] at h2
              · simp only [b1, b2, if_false] at h2
                simp only [show ¬ x.toNat < z.toNat by omega, show ¬ z.toNat < x.toNat by omega, if_false]
                exact ih h1 h2

/-- `n < m`, `m ≤ k` ⟹ `n < k` (as `cmp k n = gt`) -/
theorem cmp_gt_le : ∀ {m n k : Bytes}, cmpBytes m n = .gt → cmpBytes m k ≠ .gt → cmpBytes k n = .gt := by
  intro m
  induction m with
  | nil => intro n k h1 _; cases n <;> simp [cmpBytes] at h1
  | cons y m ih =>
    intro n k h1 h2
    cases k with
    | nil => simp [cmpBytes] at h2
    | cons x k =>
      cases n with
      | nil => rfl
      | cons z n =>
        unfold cmpBytes at h1 h2 ⊢
        by_cases a1 : y.toNat < x.toNat
        · by_cases b1 : y.toNat < z.toNat
          · simp [b1] at h1
          · by_cases b2 : z.toNat < y.toNat
            · simp [show ¬ x.toNat < z.toNat by omega, show z.toNat < x.toNat by omega]
            · simp [show ¬ x.toNat < z.toNat by omega, show z.toNat < x.toNat by omega]
        · by_cases a2 : x.toNat < y.toNat
          · simp [a1, a2] at h2
          · simp only [a1, a2, if_false] at h2
            by_cases b1 : y.toNat < z.toNat
            · simp [b1] at h1
            · by_cases b2 : z.toNat < y.toNat
              · simp [show ¬ x.toNat < z.toNat by omega, show z.toNat < x.toNat by omega]
              · simp only [b1, b2, if_false] at h1
                simp only [show ¬ x.toNat < z.toNat by omega, show ¬ z.toNat < x.toNat by omega, if_false]
                exact ih h1 h2

theorem cmp_lt_ne_gt {a b : Bytes} (h : cmpBytes a b = .lt) : cmpBytes a b ≠ .gt := by
  rw [h]; decide


/-! ### `binary_search_by` -/

/-- what the search relies on: the comparator results are ordered like a sorted slice -/
def CmpSorted (cmp : Nat → Ordering) (len : Nat) : Prop :=
  ∀ i j, i ≤ j → j < len → (cmp i = .gt → cmp j = .gt) ∧ (cmp j = .lt → cmp i = .lt)

/-- the contract of any binary search (DESIGN `find_eq_linear`) -/
def BsContract (cmp : Nat → Ordering) (len : Nat) : Except Nat Nat → Prop
  | .ok i => i < len ∧ cmp i = .eq
  | .error _ => ∀ i, i < len → cmp i ≠ .eq

theorem bsearchLoop_bound (cmp : Nat → Ordering) (len : Nat) : ∀ (fuel base size : Nat),
    1 ≤ size → base + size ≤ len → bsearchLoop cmp fuel base size < len := by
  intro fuel
  induction fuel with
  | zero => intro base size h1 h2; simp only [bsearchLoop]; omega
  | succ fuel ih =>
    intro base size h1 h2
    rw [bsearchLoop]
    by_cases hs : size ≤ 1
    · simp only [hs, if_true]; omega
    · simp only [hs, if_false]
      have hhalf : 1 ≤ size / 2 := by omega
      have hhalf2 : size / 2 ≤ size := Nat.div_le_self _ _
      apply ih
      · omega
      · by_cases hc : cmp (base + size / 2) = .gt
        · simp only [hc, if_true]; omega
        · simp only [hc, if_false]; omega

/-- soundness needs nothing about the comparator: `Ok(i)` is only returned where it said `Equal` -/
theorem bsearch_ok_sound (cmp : Nat → Ordering) (len i : Nat) (h : bsearch cmp len = .ok i) :
    i < len ∧ cmp i = .eq := by
  unfold bsearch at h
  by_cases hl : len = 0
  · simp [hl] at h
  · simp only [hl, if_false] at h
    have hb := bsearchLoop_bound cmp len len 0 len (by omega) (by omega)
    cases hc : cmp (bsearchLoop cmp len 0 len) with
    | eq =>
      simp only [hc] at h
      injection h with h
      subst h
      exact ⟨hb, hc⟩
    | lt => simp [hc] at h
    | gt => simp [hc] at h

theorem bsearchLoop_inv (cmp : Nat → Ordering) (len : Nat) (hs : CmpSorted cmp len) :
    ∀ (fuel base size : Nat), size ≤ fuel → 1 ≤ size → base + size ≤ len →
      (base = 0 ∨ cmp base ≠ .gt) → (∀ i, base + size ≤ i → i < len → cmp i = .gt) →
      let b := bsearchLoop cmp fuel base size
      (b = 0 ∨ cmp b ≠ .gt) ∧ (∀ i, b + 1 ≤ i → i < len → cmp i = .gt) := by
  intro fuel
  induction fuel with
  | zero => intro base size h0 h1; omega
  | succ fuel ih =>
    intro base size hfuel h1 h2 hlow hhigh
    rw [bsearchLoop]
    by_cases hsz : size ≤ 1
    · simp only [hsz, if_true]
      have : size = 1 := by omega
      subst this
      exact ⟨hlow, hhigh⟩
    · simp only [hsz, if_false]
      have hhalf : 1 ≤ size / 2 := by omega
      have hhalf2 : 2 * (size / 2) ≤ size := by omega
      by_cases hc : cmp (base + size / 2) = .gt
      · simp only [hc, if_true]
        apply ih base (size - size / 2) (by omega) (by omega) (by omega) hlow
        intro i hi hlen
        exact (hs (base + size / 2) i (by omega) hlen).1 hc
      · simp only [hc, if_false]
        apply ih (base + size / 2) (size - size / 2) (by omega) (by omega) (by omega) (Or.inr hc)
        intro i hi hlen
        exact hhigh i (by omega) hlen

/-- on a sorted slice the std algorithm fulfils the contract -/
theorem bsearch_contract (cmp : Nat → Ordering) (len : Nat) (hs : CmpSorted cmp len) :
    BsContract cmp len (bsearch cmp len) := by
  unfold bsearch
  by_cases hl : len = 0
  · simp only [hl, if_true, BsContract]; intro i hi; omega
  · simp only [hl, if_false]
    have hb := bsearchLoop_bound cmp len len 0 len (by omega) (by omega)
    have hinv := bsearchLoop_inv cmp len hs len 0 len (Nat.le_refl _) (by omega) (by omega) (Or.inl rfl)
      (by intro i hi hlen; omega)
    simp only at hinv
    generalize bsearchLoop cmp len 0 len = b at hb hinv
    obtain ⟨hlow, hhigh⟩ := hinv
    cases hc : cmp b with
    | eq => exact ⟨hb, hc⟩
    | lt =>
      simp only [BsContract]
      intro i hi
      by_cases hib : i ≤ b
      · have := (hs i b hib hb).2 hc
        rw [this]; decide
      · rw [hhigh i (by omega) hi]; decide
    | gt =>
      simp only [BsContract]
      have hb0 : b = 0 := by
        rcases hlow with h | h
        · exact h
        · exact absurd hc h
      intro i hi
      have := (hs b i (by omega) hi).1 hc
      rw [this]; decide

theorem probesLoop_bound (cmp : Nat → Ordering) (len : Nat) : ∀ (fuel base size : Nat),
    1 ≤ size → base + size ≤ len → ∀ p ∈ probesLoop cmp fuel base size, p < len := by
  intro fuel
  induction fuel with
  | zero => intro base size h1 h2 p hp; simp only [probesLoop, List.mem_singleton] at hp; omega
  | succ fuel ih =>
    intro base size h1 h2 p hp
    rw [probesLoop] at hp
    by_cases hs : size ≤ 1
    · simp only [hs, if_true, List.mem_singleton] at hp; omega
    · simp only [hs, if_false, List.mem_cons] at hp
      have hhalf : 1 ≤ size / 2 := by omega
      rcases hp with hp | hp
      · omega
      · apply ih _ _ _ _ p hp
        · omega
        · by_cases hc : cmp (base + size / 2) = .gt
          · simp only [hc, if_true]; omega
          · simp only [hc, if_false]; omega

theorem probes_bound (cmp : Nat → Ordering) (len : Nat) : ∀ p ∈ probes cmp len, p < len := by
  intro p hp
  unfold probes at hp
  by_cases hl : len = 0
  · simp [hl] at hp
  · simp only [hl, if_false] at hp
    exact probesLoop_bound cmp len len 0 len (by omega) (by omega) p hp


/-! ### `rfind` -/

theorem rfindByte_none {c : UInt8} : ∀ {l : Bytes}, rfindByte c l = none ↔ c ∉ l := by
  intro l
  induction l with
  | nil => simp [rfindByte]
  | cons b rest ih =>
    unfold rfindByte
    cases h : rfindByte c rest with
    | some i =>
      simp
      intro _
      apply Classical.byContradiction
      intro hc
      have := ih.2 hc
      simp [h] at this
    | none =>
      have := ih.1 h
      by_cases hb : b = c
      · simp [hb]
      · simp [hb, this]; exact fun h => hb h.symm

theorem rfindByte_some {c : UInt8} : ∀ {l : Bytes} {i : Nat}, rfindByte c l = some i →
    ∃ a b, l = a ++ c :: b ∧ a.length = i ∧ c ∉ b := by
  intro l
  induction l with
  | nil => intro i h; simp [rfindByte] at h
  | cons x rest ih =>
    intro i h
    unfold rfindByte at h
    cases hr : rfindByte c rest with
    | some j =>
      simp only [hr, Option.some.injEq] at h
      obtain ⟨a, b, hab, hlen, hnot⟩ := ih hr
      exact ⟨x :: a, b, by simp [hab], by simp [hlen, h], hnot⟩
    | none =>
      simp only [hr] at h
      by_cases hx : x = c
      · simp only [hx, if_true, Option.some.injEq] at h
        exact ⟨[], rest, by simp [hx], by simp [← h], rfindByte_none.1 hr⟩
      · simp [hx] at h

theorem rfindByte_append {c : UInt8} {a b : Bytes} (hb : c ∉ b) :
    rfindByte c (a ++ c :: b) = some a.length := by
  induction a with
  | nil =>
    simp only [List.nil_append, rfindByte, rfindByte_none.2 hb, if_true, List.length_nil]
  | cons x a ih =>
    simp only [List.cons_append, rfindByte, ih, List.length_cons]

/-- a newline-free tail does not move the last newline -/
theorem rfindByte_append_free {c : UInt8} {a t : Bytes} (ht : c ∉ t) :
    rfindByte c (a ++ t) = rfindByte c a := by
  induction a with
  | nil => simp only [List.nil_append, rfindByte]; exact rfindByte_none.2 ht
  | cons x a ih => simp only [List.cons_append, rfindByte, ih]

/-- `pre` ends at a line boundary -/
def LineComplete (pre : Bytes) : Prop := pre = [] ∨ ∃ p, pre = p ++ [10]

theorem rfind_lineComplete {pre : Bytes} (h : LineComplete pre) :
    (pre = [] ∧ rfindByte 10 pre = none) ∨ (rfindByte 10 pre = some (pre.length - 1) ∧ 1 ≤ pre.length) := by
  rcases h with h | ⟨p, h⟩
  · left; subst h; exact ⟨rfl, rfl⟩
  · right; subst h
    have := rfindByte_append (c := 10) (a := p) (b := []) (by simp)
    simp only [List.length_append, List.length_singleton, Nat.add_sub_cancel]
    exact ⟨this, by omega⟩

/-- **`search_start_of_record` is correct**: for every offset inside a record — its reference
line (LF or CRLF) or its peeled `^` line — the recovered start is the first byte of the record. -/
theorem recordStart_in_record (pre body peel post : Bytes) (hpre : LineComplete pre)
    (hbody : (10 : UInt8) ∉ body) (hhead : ∃ b r, body = b :: r ∧ b ≠ 94)
    (hpeel : peel = [] ∨ ∃ pb, peel = 94 :: pb ++ [10] ∧ (10 : UInt8) ∉ pb)
    (ofs : Nat) (h1 : pre.length ≤ ofs) (h2 : ofs < pre.length + (body.length + 1) + peel.length) :
    recordStart (pre ++ (body ++ [10]) ++ peel ++ post) ofs = pre.length := by
  obtain ⟨b0, r0, hb0, hne94⟩ := hhead
  generalize ha : pre ++ (body ++ [10]) ++ peel ++ post = a
  have hget_pre : a[pre.length]? = some b0 := by
    rw [← ha, hb0]; simp
  by_cases hin : ofs < pre.length + (body.length + 1)
  · -- inside the reference line
    have htake : a.take ofs = pre ++ body.take (ofs - pre.length) := by
      rw [← ha]
      have : pre ++ (body ++ [10]) ++ peel ++ post = pre ++ (body ++ ([10] ++ peel ++ post)) := by simp
      rw [this, List.take_append, List.take_of_length_le (by omega : pre.length ≤ ofs)]
      congr 1
      exact List.take_append_of_le_length (by omega)
    have hfree : (10 : UInt8) ∉ body.take (ofs - pre.length) := fun h => hbody (List.mem_of_mem_take h)
    unfold recordStart
    rw [htake, rfindByte_append_free hfree]
    rcases rfind_lineComplete hpre with ⟨hp, hr⟩ | ⟨hr, hlen⟩
    · rw [hr, hp]; rfl
    · rw [hr]
      simp only []
      have : pre.length - 1 + 1 = pre.length := by omega
      rw [this, hget_pre]
      simp only [hne94, if_false]
  · -- inside the peeled line
    have hpne : peel ≠ [] := by intro h; rw [h] at h2; simp at h2; omega
    obtain ⟨pb, hpeel', hpbfree⟩ : ∃ pb, peel = 94 :: pb ++ [10] ∧ (10 : UInt8) ∉ pb := by
      rcases hpeel with h | h
      · exact absurd h hpne
      · exact h
    have hplen : peel.length = pb.length + 2 := by rw [hpeel']; simp
    let k := ofs - (pre.length + (body.length + 1))
    have hk : k ≤ pb.length + 1 := by show ofs - (pre.length + (body.length + 1)) ≤ _; omega
    have htake : a.take ofs = (pre ++ body) ++ 10 :: (94 :: pb).take k := by
      rw [← ha, hpeel']
      have e1 : pre ++ (body ++ [10]) ++ (94 :: pb ++ [10]) ++ post
          = (pre ++ body ++ [10]) ++ ((94 :: pb) ++ ([10] ++ post)) := by simp
      rw [e1, List.take_append, List.take_of_length_le (by simp <;> omega)]
      have e2 : ofs - (pre ++ body ++ [10]).length = k := by
        show _ = ofs - (pre.length + (body.length + 1)); simp <;> omega
      rw [e2, List.take_append_of_le_length (by simp <;> omega)]
      simp
    have hfree : (10 : UInt8) ∉ (94 :: pb).take k := by
      intro h
      have := List.mem_of_mem_take h
      simp only [List.mem_cons] at this
      rcases this with h | h
      · exact absurd h (by decide)
      · exact hpbfree h
    have hget_peel : a[pre.length + body.length + 1]? = some 94 := by
      rw [← ha, hpeel']
      have e1 : pre ++ (body ++ [10]) ++ (94 :: pb ++ [10]) ++ post
          = (pre ++ body ++ [10]) ++ (94 :: (pb ++ [10] ++ post)) := by simp
      rw [e1]
      have hl : (pre ++ body ++ [10]).length = pre.length + body.length + 1 := by simp <;> omega
      rw [← hl, List.getElem?_append_right (Nat.le_refl _)]
      simp
    have htake2 : a.take (pre.length + body.length) = pre ++ body := by
      rw [← ha]
      have e1 : pre ++ (body ++ [10]) ++ peel ++ post = (pre ++ body) ++ ([10] ++ peel ++ post) := by simp
      rw [e1]
      exact List.take_left' (by simp)
    unfold recordStart
    rw [htake, rfindByte_append hfree]
    simp only [List.length_append]
    rw [hget_peel]
    simp only [if_true]
    rw [htake2, rfindByte_append_free hbody]
    rcases rfind_lineComplete hpre with ⟨hp, hr⟩ | ⟨hr, hlen⟩
    · rw [hr, hp]; rfl
    · rw [hr]; simp only []; omega


/-! ### a rendered record parses back -/

theorem takeWhile_prefix {p : UInt8 → Bool} {a r : Bytes} {y : UInt8} (ha : ∀ x ∈ a, p x = true)
    (hy : p y = false) : (a ++ y :: r).takeWhile p = a := by
  rw [List.takeWhile_append_of_pos ha, List.takeWhile_cons_of_neg (by simp [hy])]
  simp

theorem hexHash_prefix {H r : Bytes} {y : UInt8} (hH : Hex40 H) (hy : isHexLc y = false) :
    hexHash (H ++ y :: r) = some (H, y :: r) := by
  obtain ⟨hlen, hall⟩ := hH
  unfold hexHash takeWhileMN
  simp only [takeWhile_prefix hall hy]
  rw [List.take_of_length_le (by omega)]
  simp only [hlen, Nat.lt_irrefl, if_false]
  rw [← hlen, List.drop_left]

theorem untilNewline_line (name rest : Bytes) (crlf : Bool) (h10 : (10 : UInt8) ∉ name)
    (h13 : (13 : UInt8) ∉ name) :
    untilNewline (name ++ (if crlf then [13] else []) ++ 10 :: rest) = some (name, rest) := by
  have hall : ∀ x ∈ name, (x != 13 && x != 10) = true := by
    intro x hx
    have a : x ≠ 13 := fun h => h13 (h ▸ hx)
    have b : x ≠ 10 := fun h => h10 (h ▸ hx)
    simp [a, b]
  unfold untilNewline
  cases crlf with
  | true =>
    have : name ++ (if true = true then [13] else []) ++ 10 :: rest = name ++ 13 :: 10 :: rest := by simp
    rw [this, takeWhile_prefix hall (by decide)]
    simp only [List.drop_left]
    rfl
  | false =>
    have : name ++ (if false = true then [13] else []) ++ 10 :: rest = name ++ 10 :: rest := by simp
    rw [this, takeWhile_prefix hall (by decide)]
    simp only [List.drop_left]
    rfl

theorem hex_first {H : Bytes} (h : Hex40 H) : ∃ b r, H = b :: r ∧ isHexLc b = true := by
  obtain ⟨hlen, hall⟩ := h
  cases H with
  | nil => simp at hlen
  | cons b r => exact ⟨b, r, rfl, hall b (by simp)⟩

theorem reference_render (vn : Bytes → Bool) (r : FileRec) (rest : Bytes) (hwf : r.WF vn)
    (hrest : r.object = none → ∀ b t, rest = b :: t → b ≠ 94) :
    reference vn (r.render ++ rest) = some (r.toRecord, rest) := by
  have hname := untilNewline_line r.name (r.peelLine ++ rest) r.crlf hwf.noNl hwf.noCr
  have hshape : r.render ++ rest
      = r.target ++ 32 :: (r.name ++ (if r.crlf then [13] else []) ++ 10 :: (r.peelLine ++ rest)) := by
    simp [FileRec.render, FileRec.refBody]
  unfold reference
  rw [hshape, hexHash_prefix hwf.target (by decide)]
  simp only [ne_eq, not_true_eq_false, if_false, hname, hwf.valid, Bool.not_true, Bool.false_eq_true]
  cases hobj : r.object with
  | none =>
    have hp : r.peelLine = [] := by simp [FileRec.peelLine, hobj]
    rw [hp, List.nil_append]
    cases hr : rest with
    | nil => simp [FileRec.toRecord, hobj]
    | cons b t =>
      have := hrest hobj b t hr
      simp [this, FileRec.toRecord, hobj]
  | some o =>
    have ho := hwf.object o hobj
    have hp : r.peelLine ++ rest = 94 :: (o ++ (if r.crlf2 then [13] else []) ++ 10 :: rest) := by
      simp [FileRec.peelLine, hobj]
    rw [hp]
    simp only [not_true_eq_false, if_false]
    cases hc : r.crlf2 with
    | true =>
      have : o ++ (if true = true then [13] else []) ++ 10 :: rest = o ++ 13 :: 10 :: rest := by simp
      rw [this, hexHash_prefix ho (by decide)]
      simp [newline, FileRec.toRecord, hobj]
    | false =>
      have : o ++ (if false = true then [13] else []) ++ 10 :: rest = o ++ 10 :: rest := by simp
      rw [this, hexHash_prefix ho (by decide)]
      simp [newline, FileRec.toRecord, hobj]



/-! ### which record owns an offset of a rendered body -/

def ownerRec : List FileRec → Nat → Option FileRec
  | [], _ => none
  | r :: rs, ofs => if ofs < r.render.length then some r else ownerRec rs (ofs - r.render.length)

theorem render_cons (r : FileRec) (rs : List FileRec) : render (r :: rs) = r.render ++ render rs := by
  simp [render]

theorem isHexLc_facts {x : UInt8} (h : isHexLc x = true) : x ≠ 94 ∧ x ≠ 10 ∧ x ≠ 35 := by
  refine ⟨?_, ?_, ?_⟩ <;> (intro he; subst he; revert h; decide)

theorem hex40_free {H : Bytes} (h : Hex40 H) : (10 : UInt8) ∉ H := fun hm =>
  (isHexLc_facts (h.2 _ hm)).2.1 rfl

theorem refBody_free {vn : Bytes → Bool} {r : FileRec} (h : r.WF vn) : (10 : UInt8) ∉ r.refBody := by
  unfold FileRec.refBody
  simp only [List.mem_append, List.mem_cons, not_or]
  refine ⟨⟨hex40_free h.target, by decide, h.noNl⟩, ?_⟩
  split <;> simp

theorem refBody_head {vn : Bytes → Bool} {r : FileRec} (h : r.WF vn) :
    ∃ b t, r.refBody = b :: t ∧ b ≠ 94 := by
  obtain ⟨b, t, hb, hx⟩ := hex_first h.target
  refine ⟨b, t ++ 32 :: r.name ++ (if r.crlf then [13] else []), ?_, (isHexLc_facts hx).1⟩
  simp [FileRec.refBody, hb]

theorem peelLine_shape {vn : Bytes → Bool} {r : FileRec} (h : r.WF vn) :
    r.peelLine = [] ∨ ∃ pb, r.peelLine = 94 :: pb ++ [10] ∧ (10 : UInt8) ∉ pb := by
  unfold FileRec.peelLine
  cases ho : r.object with
  | none => exact Or.inl rfl
  | some o =>
    right
    refine ⟨o ++ (if r.crlf2 then [13] else []), rfl, ?_⟩
    simp only [List.mem_append, not_or]
    refine ⟨hex40_free (h.object o ho), ?_⟩
    split <;> simp

theorem render_length (r : FileRec) : r.render.length = r.refBody.length + 1 + r.peelLine.length := by
  simp [FileRec.render]; omega

theorem render_rec_lineComplete {vn : Bytes → Bool} {r : FileRec} (h : r.WF vn) :
    ∃ p, r.render = p ++ [10] := by
  unfold FileRec.render
  rcases peelLine_shape h with hp | ⟨pb, hp, _⟩
  · exact ⟨r.refBody, by rw [hp]; simp⟩
  · exact ⟨r.refBody ++ [10] ++ 94 :: pb, by rw [hp]; simp⟩

theorem lineComplete_append {vn : Bytes → Bool} {pre : Bytes} {r : FileRec} (h : r.WF vn) :
    LineComplete (pre ++ r.render) := by
  obtain ⟨p, hp⟩ := render_rec_lineComplete h
  exact Or.inr ⟨pre ++ p, by rw [hp]; simp⟩

/-- a rendered body never starts with `^` -/
theorem render_head {vn : Bytes → Bool} {rs : List FileRec} (h : ∀ r ∈ rs, r.WF vn) :
    ∀ b t, render rs = b :: t → b ≠ 94 := by
  intro b t hb
  cases rs with
  | nil => simp [render] at hb
  | cons r rs =>
    obtain ⟨b0, t0, hb0, hne⟩ := refBody_head (h r (by simp))
    rw [render_cons, FileRec.render, hb0] at hb
    simp only [List.cons_append, List.cons.injEq] at hb
    rw [← hb.1]; exact hne

/-- **`record_start_correct` + parse**: at every offset of a rendered body (placed after any
line-complete prefix) the recovered record start is the start of the owning record, and the record
parsed there is that record. -/
theorem parse_at_offset (vn : Bytes → Bool) : ∀ (rs : List FileRec), (∀ r ∈ rs, r.WF vn) →
    ∀ (pre : Bytes), LineComplete pre → ∀ ofs, ofs < (render rs).length →
    ∃ r rest, ownerRec rs ofs = some r ∧
      reference vn ((pre ++ render rs).drop (recordStart (pre ++ render rs) (pre.length + ofs)))
        = some (r.toRecord, rest) := by
  intro rs
  induction rs with
  | nil => intro _ pre _ ofs h; simp [render] at h
  | cons r rs ih =>
    intro hwf pre hpre ofs hofs
    have hr := hwf r (by simp)
    have hrs : ∀ x ∈ rs, x.WF vn := fun x hx => hwf x (by simp [hx])
    rw [render_cons] at hofs ⊢
    by_cases hin : ofs < r.render.length
    · have hstart := recordStart_in_record pre r.refBody r.peelLine (render rs) hpre (refBody_free hr)
        (refBody_head hr) (peelLine_shape hr) (pre.length + ofs) (by omega)
        (by rw [render_length] at hin; omega)
      have hshape : pre ++ (r.render ++ render rs) = pre ++ (r.refBody ++ [10]) ++ r.peelLine ++ render rs := by
        simp [FileRec.render]
      refine ⟨r, render rs, by simp [ownerRec, hin], ?_⟩
      rw [hshape, hstart]
      have : pre ++ (r.refBody ++ [10]) ++ r.peelLine ++ render rs = pre ++ (r.render ++ render rs) := hshape.symm
      rw [this, List.drop_left]
      apply reference_render vn r (render rs) hr
      intro _ b t hb
      exact render_head hrs b t hb
    · have hlen : ofs - r.render.length < (render rs).length := by
        rw [List.length_append] at hofs; omega
      obtain ⟨r', rest, hown, hparse⟩ := ih hrs (pre ++ r.render) (lineComplete_append hr)
        (ofs - r.render.length) hlen
      refine ⟨r', rest, by simp [ownerRec, hin, hown], ?_⟩
      have e1 : pre ++ (r.render ++ render rs) = (pre ++ r.render) ++ render rs := by simp
      have e2 : (pre ++ r.render).length + (ofs - r.render.length) = pre.length + ofs := by
        simp; omega
      rw [e1, ← e2]
      exact hparse

theorem ownerRec_mem : ∀ (rs : List FileRec) (ofs : Nat) (r : FileRec), ownerRec rs ofs = some r → r ∈ rs := by
  intro rs
  induction rs with
  | nil => intro ofs r h; simp [ownerRec] at h
  | cons x rs ih =>
    intro ofs r h
    unfold ownerRec at h
    by_cases hin : ofs < x.render.length
    · simp only [hin, if_true, Option.some.injEq] at h; simp [h]
    · simp only [hin, if_false] at h
      exact List.mem_cons_of_mem _ (ih _ _ h)

/-- offsets are ordered like the records that own them -/
theorem ownerRec_mono : ∀ (rs : List FileRec), SortedByName rs → ∀ (i j : Nat) (ri rj : FileRec),
    i ≤ j → ownerRec rs i = some ri → ownerRec rs j = some rj → cmpBytes ri.name rj.name ≠ .gt := by
  intro rs
  induction rs with
  | nil => intro _ i j ri rj _ h; simp [ownerRec] at h
  | cons x rs ih =>
    intro hs i j ri rj hij hi hj
    have hs' := List.pairwise_cons.1 hs
    unfold ownerRec at hi hj
    by_cases hjn : j < x.render.length
    · have hin : i < x.render.length := by omega
      simp only [hin, hjn, if_true, Option.some.injEq] at hi hj
      rw [← hi, ← hj, cmpBytes_refl]; decide
    · simp only [hjn, if_false] at hj
      by_cases hin : i < x.render.length
      · simp only [hin, if_true, Option.some.injEq] at hi
        have := hs'.1 rj (ownerRec_mem _ _ _ hj)
        rw [← hi, this]; decide
      · simp only [hin, if_false] at hi
        exact ih hs'.2 _ _ ri rj (by omega) hi hj

/-- every record owns at least its first byte -/
theorem ownerRec_start : ∀ (rs : List FileRec) (r : FileRec), r ∈ rs →
    ∃ ofs, ofs < (render rs).length ∧ ownerRec rs ofs = some r := by
  intro rs
  induction rs with
  | nil => intro r h; simp at h
  | cons x rs ih =>
    intro r hr
    rcases List.mem_cons.1 hr with rfl | hr
    · have : 0 < r.render.length := by rw [render_length]; omega
      refine ⟨0, ?_, ?_⟩
      · rw [render_cons, List.length_append]; omega
      · simp [ownerRec, this]
    · obtain ⟨ofs, h1, h2⟩ := ih r hr
      refine ⟨x.render.length + ofs, ?_, ?_⟩
      · rw [render_cons, List.length_append]; omega
      · have hnot : ¬ x.render.length + ofs < x.render.length := by omega
        have hsub : x.render.length + ofs - x.render.length = ofs := by omega
        simp [ownerRec, hnot, hsub, h2]


theorem keyAt_render (vn : Bytes → Bool) (rs : List FileRec) (hwf : ∀ r ∈ rs, r.WF vn) (ofs : Nat)
    (h : ofs < (render rs).length) :
    ∃ r rest, ownerRec rs ofs = some r ∧ keyAt vn (render rs) ofs = some r.name ∧
      reference vn ((render rs).drop (recordStart (render rs) ofs)) = some (r.toRecord, rest) := by
  obtain ⟨r, rest, hown, hparse⟩ := parse_at_offset vn rs hwf [] (Or.inl rfl) ofs h
  simp only [List.nil_append, List.length_nil, Nat.zero_add] at hparse
  refine ⟨r, rest, hown, ?_, hparse⟩
  unfold keyAt
  rw [hparse]
  rfl

theorem cmpSorted_render (vn : Bytes → Bool) (rs : List FileRec) (hwf : ∀ r ∈ rs, r.WF vn)
    (hs : SortedByName rs) (name : Bytes) :
    CmpSorted (cmpAt vn (render rs) name) (render rs).length := by
  intro i j hij hj
  obtain ⟨ri, _, hoi, hki, _⟩ := keyAt_render vn rs hwf i (by omega)
  obtain ⟨rj, _, hoj, hkj, _⟩ := keyAt_render vn rs hwf j hj
  have hmono := ownerRec_mono rs hs i j ri rj hij hoi hoj
  unfold cmpAt
  rw [hki, hkj]
  simp only [keyOrEmpty]
  exact ⟨fun h => cmp_gt_le h hmono, fun h => cmp_le_lt hmono h⟩

theorem find_sorted_unique : ∀ (rs : List FileRec), SortedByName rs → ∀ r ∈ rs,
    rs.find? (fun x => x.name == r.name) = some r := by
  intro rs
  induction rs with
  | nil => intro _ r h; simp at h
  | cons x rs ih =>
    intro hs r hr
    have hs' := List.pairwise_cons.1 hs
    by_cases hx : x.name = r.name
    · rcases List.mem_cons.1 hr with rfl | hr
      · simp
      · have := hs'.1 r hr
        rw [hx, cmpBytes_refl] at this
        cases this
    · have hne : (x.name == r.name) = false := by simp [hx]
      rcases List.mem_cons.1 hr with rfl | hr
      · exact absurd rfl hx
      · rw [List.find?_cons, hne]
        exact ih hs'.2 r hr


/-! ### the linear scan of a rendered body -/

theorem scanFrom_render (vn : Bytes → Bool) : ∀ (rs : List FileRec), (∀ r ∈ rs, r.WF vn) →
    ∀ fuel, rs.length ≤ fuel → scanFrom vn fuel (render rs) = rs.map (fun r => some r.toRecord) := by
  intro rs
  induction rs with
  | nil =>
    intro _ fuel _
    cases fuel with
    | zero => rfl
    | succ f => simp [scanFrom, render]
  | cons r rs ih =>
    intro hwf fuel hfuel
    have hr := hwf r (by simp)
    have hrs : ∀ x ∈ rs, x.WF vn := fun x hx => hwf x (by simp [hx])
    cases fuel with
    | zero => simp at hfuel
    | succ f =>
      rw [render_cons, scanFrom]
      have hne : (r.render ++ render rs).isEmpty = false := by
        obtain ⟨b, t, hb, _⟩ := refBody_head hr
        simp [FileRec.render, hb]
      have hparse := reference_render vn r (render rs) hr (fun _ b t hb => render_head hrs b t hb)
      simp only [hne, Bool.false_eq_true, if_false, hparse, List.map_cons]
      rw [ih hrs f (by simp at hfuel; omega)]

theorem length_le_render (rs : List FileRec) : rs.length ≤ (render rs).length := by
  induction rs with
  | nil => simp
  | cons r rs ih =>
    rw [render_cons, List.length_append, render_length]
    simp only [List.length_cons]; omega

theorem scan_render (vn : Bytes → Bool) (rs : List FileRec) (hwf : ∀ r ∈ rs, r.WF vn) :
    scan vn (render rs) = some (rs.map (fun r => some r.toRecord)) := by
  unfold scan
  cases hr : render rs with
  | nil =>
    cases rs with
    | nil => rfl
    | cons r rs =>
      have := length_le_render (r :: rs)
      rw [hr] at this; simp at this
  | cons b t =>
    have hb : ¬ b = 35 := by
      cases rs with
      | nil => simp [render] at hr
      | cons r rs =>
        obtain ⟨b0, t0, hb0, hx⟩ := hex_first (hwf r (by simp)).target
        rw [render_cons, FileRec.render, FileRec.refBody, hb0] at hr
        simp only [List.cons_append, List.cons.injEq] at hr
        rw [← hr.1]; exact (isHexLc_facts hx).2.2
    simp only [hb, if_false]
    rw [← hr, scanFrom_render vn rs hwf _ (by have := length_le_render rs; omega)]

theorem firstMatch_map (rs : List FileRec) (name : Bytes) :
    firstMatch (rs.map (fun r => some r.toRecord)) name
      = (rs.find? (fun r => r.name == name)).map FileRec.toRecord := by
  unfold firstMatch
  induction rs with
  | nil => rfl
  | cons r rs ih =>
    simp only [List.map_cons, List.find?_cons]
    by_cases h : r.name == name
    · simp [FileRec.toRecord, h]
    · have : (r.toRecord.name == name) = false := by simpa [FileRec.toRecord] using h
      simp only [this, h]
      exact ih


/-! ### what the parser accepts is well-formed; sorting on open -/

theorem mem_takeWhile {p : UInt8 → Bool} : ∀ {l : Bytes} {x : UInt8}, x ∈ l.takeWhile p → p x = true := by
  intro l
  induction l with
  | nil => intro x h; simp at h
  | cons b l ih =>
    intro x h
    rw [List.takeWhile_cons] at h
    by_cases hb : p b = true
    · simp only [hb, if_true, List.mem_cons] at h
      rcases h with h | h
      · rw [h]; exact hb
      · exact ih h
    · simp [hb] at h

theorem hexHash_spec {i H r : Bytes} (h : hexHash i = some (H, r)) : Hex40 H := by
  unfold hexHash takeWhileMN at h
  simp only at h
  by_cases hl : ((i.takeWhile isHexLc).take 40).length < 40
  · rw [if_pos hl] at h; cases h
  · rw [if_neg hl] at h
    simp only [Option.some.injEq, Prod.mk.injEq] at h
    rw [← h.1]
    refine ⟨?_, fun x hx => mem_takeWhile (List.mem_of_mem_take hx)⟩
    have := List.length_take_le 40 (i.takeWhile isHexLc)
    omega

theorem untilNewline_spec {i n r : Bytes} (h : untilNewline i = some (n, r)) :
    (10 : UInt8) ∉ n ∧ (13 : UInt8) ∉ n := by
  unfold untilNewline at h
  simp only at h
  cases hn : newline (i.drop (i.takeWhile (fun b => b != 13 && b != 10)).length) with
  | none => simp [hn] at h
  | some r' =>
    simp only [hn, Option.some.injEq, Prod.mk.injEq] at h
    rw [← h.1]
    constructor <;> (intro hm; have := mem_takeWhile hm; simp at this)

/-- a parsed record as a file record with LF line ends -/
def Record.toFileRec (r : Record) : FileRec :=
  { name := r.name, target := r.target, object := r.object, crlf := false, crlf2 := false }

theorem renderRecord_eq (r : Record) : renderRecord r = r.toFileRec.render := by
  unfold renderRecord FileRec.render FileRec.refBody FileRec.peelLine Record.toFileRec
  cases r.object <;> simp

theorem reference_wf {vn : Bytes → Bool} {i rest : Bytes} {r : Record}
    (h : reference vn i = some (r, rest)) : r.toFileRec.WF vn := by
  unfold reference at h
  cases h1 : hexHash i with
  | none => simp [h1] at h
  | some p1 =>
    obtain ⟨target, r1⟩ := p1
    simp only [h1] at h
    cases r1 with
    | nil => simp at h
    | cons sp r1 =>
      simp only at h
      by_cases hsp : sp ≠ 32
      · simp [hsp] at h
      · simp only [hsp, if_false] at h
        cases h2 : untilNewline r1 with
        | none => simp [h2] at h
        | some p2 =>
          obtain ⟨name, r2⟩ := p2
          simp only [h2] at h
          cases hv : vn name with
          | false => simp [hv] at h
          | true =>
            simp only [hv, Bool.not_true, Bool.false_eq_true, if_false] at h
            have ht := hexHash_spec h1
            obtain ⟨hn10, hn13⟩ := untilNewline_spec h2
            have plainWF : ∀ {rr : Record}, rr = { name := name, target := target, object := none } →
                rr.toFileRec.WF vn := by
              intro rr hrr
              subst hrr
              exact ⟨ht, hv, hn10, hn13, by intro o ho; cases ho⟩
            cases r2 with
            | nil =>
              simp only [Option.some.injEq, Prod.mk.injEq] at h
              exact plainWF h.1.symm
            | cons c r3 =>
              dsimp only at h
              by_cases hc : c ≠ 94
              · rw [if_pos hc] at h
                simp only [Option.some.injEq, Prod.mk.injEq] at h
                exact plainWF h.1.symm
              · rw [if_neg hc] at h
                cases h3 : hexHash r3 with
                | none =>
                  simp only [h3, Option.some.injEq, Prod.mk.injEq] at h
                  exact plainWF h.1.symm
                | some p3 =>
                  obtain ⟨obj, r4⟩ := p3
                  simp only [h3] at h
                  cases h4 : newline r4 with
                  | none =>
                    simp only [h4, Option.some.injEq, Prod.mk.injEq] at h
                    exact plainWF h.1.symm
                  | some r5 =>
                    simp only [h4, Option.some.injEq, Prod.mk.injEq] at h
                    rw [← h.1]
                    refine ⟨ht, hv, hn10, hn13, ?_⟩
                    intro o ho
                    simp only [Record.toFileRec, Option.some.injEq] at ho
                    rw [← ho]
                    exact hexHash_spec h3

theorem scanFrom_wf (vn : Bytes → Bool) : ∀ (fuel : Nat) (cursor : Bytes) (r : Record),
    some r ∈ scanFrom vn fuel cursor → r.toFileRec.WF vn := by
  intro fuel
  induction fuel with
  | zero => intro c r h; simp [scanFrom] at h
  | succ f ih =>
    intro c r h
    rw [scanFrom] at h
    by_cases he : c.isEmpty
    · simp [he] at h
    · simp only [he, Bool.false_eq_true, if_false] at h
      cases hp : reference vn c with
      | none =>
        simp only [hp, List.mem_cons] at h
        rcases h with h | h
        · cases h
        · exact ih _ r h
      | some pr =>
        obtain ⟨r', rest⟩ := pr
        simp only [hp, List.mem_cons, Option.some.injEq] at h
        rcases h with h | h
        · rw [h]; exact reference_wf hp
        · exact ih _ r h

theorem scan_wf (vn : Bytes → Bool) (a : Bytes) (items : List (Option Record)) (h : scan vn a = some items)
    (r : Record) (hr : some r ∈ items) : r.toFileRec.WF vn := by
  unfold scan at h
  cases a with
  | nil => simp at h; subst h; simp at hr
  | cons b t =>
    simp only at h
    by_cases hb : b = 35
    · simp only [hb, if_true] at h
      cases hh : header (35 :: t) with
      | none => simp [hh] at h
      | some p =>
        obtain ⟨s, rest⟩ := p
        simp only [hh, Option.some.injEq] at h
        subst h
        exact scanFrom_wf vn _ _ r hr
    · simp only [hb, if_false, Option.some.injEq] at h
      subst h
      exact scanFrom_wf vn _ _ r hr

theorem allSome_mem : ∀ (items : List (Option Record)) (rs : List Record), allSome items = some rs →
    ∀ r ∈ rs, some r ∈ items := by
  intro items
  induction items with
  | nil => intro rs h r hr; simp [allSome] at h; subst h; simp at hr
  | cons x items ih =>
    intro rs h r hr
    cases x with
    | none => simp [allSome] at h
    | some x =>
      simp only [allSome] at h
      cases ha : allSome items with
      | none => simp [ha] at h
      | some rs' =>
        simp only [ha, Option.some.injEq] at h
        subst h
        rcases List.mem_cons.1 hr with rfl | hr
        · simp
        · exact List.mem_cons_of_mem _ (ih rs' ha r hr)

/-! order facts for the sort -/

theorem cmp_swap : ∀ {a b : Bytes}, cmpBytes a b = .gt → cmpBytes b a = .lt := by
  intro a
  induction a with
  | nil => intro b h; cases b <;> simp [cmpBytes] at h
  | cons x a ih =>
    intro b h
    cases b with
    | nil => rfl
    | cons y b =>
      unfold cmpBytes at h ⊢
      by_cases h1 : x.toNat < y.toNat
      · simp [h1] at h
      · by_cases h2 : y.toNat < x.toNat
        · simp [h2]
        · simp only [h1, h2, if_false] at h ⊢
          exact ih h

def leName (x y : Record) : Bool := cmpBytes x.name y.name != .gt

theorem leName_trans (a b c : Record) (h1 : leName a b = true) (h2 : leName b c = true) : leName a c = true := by
  unfold leName at *
  simp only [bne_iff_ne, ne_eq] at *
  cases hbc : cmpBytes b.name c.name with
  | gt => exact absurd hbc h2
  | lt => rw [cmp_le_lt h1 hbc]; decide
  | eq => rw [← cmpBytes_eq_iff.1 hbc]; exact h1

theorem leName_total (a b : Record) : (leName a b || leName b a) = true := by
  unfold leName
  cases h : cmpBytes a.name b.name with
  | gt => simp [cmp_swap h]
  | lt => simp
  | eq => simp

/-- the records after `Buffer::open`'s sort: strictly sorted if the names are distinct -/
theorem sorted_after_open (rs : List Record) (hnd : (rs.map (·.name)).Nodup) :
    SortedByName ((rs.mergeSort leName).map Record.toFileRec) := by
  unfold SortedByName
  rw [List.pairwise_map]
  have hle := List.pairwise_mergeSort leName_trans leName_total rs
  have hperm := List.mergeSort_perm rs leName
  have hnd' : ((rs.mergeSort leName).map (·.name)).Nodup := (hperm.map _).nodup_iff.2 hnd
  rw [List.nodup_iff_pairwise_ne, List.pairwise_map] at hnd'
  refine List.Pairwise.imp₂ ?_ hle hnd'
  intro a b h1 h2
  unfold leName at h1
  simp only [bne_iff_ne, ne_eq] at h1
  show cmpBytes a.name b.name = .lt
  cases hc : cmpBytes a.name b.name with
  | gt => exact absurd hc h1
  | eq => exact absurd (cmpBytes_eq_iff.1 hc) h2
  | lt => rfl

theorem flatMap_renderRecord (rs : List Record) :
    rs.flatMap renderRecord = render (rs.map Record.toFileRec) := by
  unfold render
  induction rs with
  | nil => rfl
  | cons r rs ih => simp only [List.flatMap_cons, List.map_cons, renderRecord_eq, ih]


theorem inj_of_nodup_map {α β : Type} (f : α → β) : ∀ (l : List α), (l.map f).Nodup →
    ∀ a ∈ l, ∀ b ∈ l, f a = f b → a = b := by
  intro l
  induction l with
  | nil => intro _ a ha; simp at ha
  | cons x l ih =>
    intro hnd a ha b hb hab
    rw [List.map_cons, List.nodup_cons] at hnd
    rcases List.mem_cons.1 ha with hax | ha'
    · rcases List.mem_cons.1 hb with hbx | hb'
      · rw [hax, hbx]
      · have : f x ∈ l.map f := List.mem_map.2 ⟨b, hb', by rw [← hab, hax]⟩
        exact absurd this hnd.1
    · rcases List.mem_cons.1 hb with hbx | hb'
      · have : f x ∈ l.map f := List.mem_map.2 ⟨a, ha', by rw [hab, hbx]⟩
        exact absurd this hnd.1
      · exact ih hnd.2 a ha' b hb' hab

/-- with distinct names, looking a name up does not depend on the order of the list -/
theorem find_perm_unique (l1 l2 : List Record) (hp : l1.Perm l2) (hnd : (l2.map (·.name)).Nodup)
    (name : Bytes) :
    l1.find? (fun r => r.name == name) = l2.find? (fun r => r.name == name) := by
  cases h2 : l2.find? (fun r => r.name == name) with
  | none =>
    rw [List.find?_eq_none] at h2 ⊢
    intro x hx
    exact h2 x (hp.mem_iff.1 hx)
  | some r =>
    have hr2 := List.mem_of_find?_eq_some h2
    have hn : r.name = name := by simpa using List.find?_some h2
    cases h1 : l1.find? (fun r => r.name == name) with
    | none =>
      rw [List.find?_eq_none] at h1
      have := h1 r (hp.mem_iff.2 hr2)
      simp [hn] at this
    | some r' =>
      have hr1 := List.mem_of_find?_eq_some h1
      have hn' : r'.name = name := by simpa using List.find?_some h1
      rw [inj_of_nodup_map (·.name) l2 hnd r' (hp.mem_iff.1 hr1) r hr2 (by rw [hn, hn'])]


/-! ### what `reference` consumes -/

theorem takeWhile_prefix_split {p : UInt8 → Bool} : ∀ (i : Bytes), ∃ t, i = i.takeWhile p ++ t := by
  intro i
  induction i with
  | nil => exact ⟨[], rfl⟩
  | cons b i ih =>
    rw [List.takeWhile_cons]
    by_cases hb : p b = true
    · obtain ⟨t, ht⟩ := ih
      exact ⟨t, by simp only [hb, if_true, List.cons_append]; rw [← ht]⟩
    · exact ⟨b :: i, by simp [hb]⟩

theorem takeWhileMN_split {m n : Nat} {p : UInt8 → Bool} {i pre rest : Bytes}
    (h : takeWhileMN m n p i = some (pre, rest)) : i = pre ++ rest ∧ ∀ x ∈ pre, p x = true := by
  unfold takeWhileMN at h
  simp only at h
  by_cases hl : ((i.takeWhile p).take n).length < m
  · rw [if_pos hl] at h; cases h
  · rw [if_neg hl] at h
    simp only [Option.some.injEq, Prod.mk.injEq] at h
    obtain ⟨h1, h2⟩ := h
    refine ⟨?_, ?_⟩
    · rw [← h1, ← h2]
      obtain ⟨t, ht⟩ := takeWhile_prefix_split (p := p) i
      have hpre : ∃ u, i = (i.takeWhile p).take n ++ u := by
        refine ⟨(i.takeWhile p).drop n ++ t, ?_⟩
        rw [← List.append_assoc, List.take_append_drop]; exact ht
      obtain ⟨u, hu⟩ := hpre
      have hd : ((i.takeWhile p).take n ++ u).drop ((i.takeWhile p).take n).length = u := List.drop_left
      rw [← hu] at hd
      rw [hd]; exact hu
    · intro x hx
      rw [← h1] at hx
      exact mem_takeWhile (List.mem_of_mem_take hx)

theorem newline_split {i r : Bytes} (h : newline i = some r) : i = 10 :: r ∨ i = 13 :: 10 :: r := by
  unfold newline at h
  split at h
  · injection h with h; right; rw [h]
  · injection h with h; left; rw [h]
  · cases h

theorem untilNewline_split {i n r : Bytes} (h : untilNewline i = some (n, r)) :
    ∃ cr : Bytes, i = n ++ cr ++ 10 :: r ∧ (10 : UInt8) ∉ n ++ cr := by
  have hspec := untilNewline_spec h
  unfold untilNewline at h
  simp only at h
  obtain ⟨t, ht⟩ := takeWhile_prefix_split (p := fun b => b != 13 && b != 10) i
  cases hn : newline (i.drop (i.takeWhile (fun b => b != 13 && b != 10)).length) with
  | none => simp [hn] at h
  | some r' =>
    simp only [hn, Option.some.injEq, Prod.mk.injEq] at h
    obtain ⟨h1, h2⟩ := h
    subst h2
    have hdrop : i.drop (i.takeWhile (fun b => b != 13 && b != 10)).length = t := by
      have hd : (i.takeWhile (fun b => b != 13 && b != 10) ++ t).drop
          (i.takeWhile (fun b => b != 13 && b != 10)).length = t := List.drop_left
      rw [← ht] at hd
      exact hd
    rw [hdrop] at hn
    rw [h1] at ht
    rcases newline_split hn with h | h
    · exact ⟨[], by rw [ht, h]; simp, by simpa using hspec.1⟩
    · refine ⟨[13], by rw [ht, h]; simp, ?_⟩
      simp only [List.mem_append, List.mem_singleton, not_or]
      exact ⟨hspec.1, by decide⟩

/-- `reference` consumes exactly the first line, plus a following `^` line if it takes one -/
theorem reference_consumes {vn : Bytes → Bool} {c rest : Bytes} {r : Record}
    (h : reference vn c = some (r, rest)) :
    ∃ line, (10 : UInt8) ∉ line ∧
      (c = line ++ 10 :: rest ∨ ∃ pl, c = line ++ 10 :: (94 :: pl ++ 10 :: rest) ∧ (10 : UInt8) ∉ pl) := by
  unfold reference at h
  cases h1 : hexHash c with
  | none => simp [h1] at h
  | some p1 =>
    obtain ⟨target, r1⟩ := p1
    simp only [h1] at h
    obtain ⟨hc1, _⟩ := takeWhileMN_split h1
    have ht10 := hex40_free (hexHash_spec h1)
    cases r1 with
    | nil => simp at h
    | cons sp r1 =>
      simp only at h
      by_cases hsp : sp ≠ 32
      · simp [hsp] at h
      · simp only [hsp, if_false] at h
        have hsp' : sp = 32 := by simpa using hsp
        cases h2 : untilNewline r1 with
        | none => simp [h2] at h
        | some p2 =>
          obtain ⟨name, r2⟩ := p2
          simp only [h2] at h
          obtain ⟨cr, hr1, hfree⟩ := untilNewline_split h2
          cases hv : vn name with
          | false => simp [hv] at h
          | true =>
            simp only [hv, Bool.not_true, Bool.false_eq_true, if_false] at h
            have hline : (10 : UInt8) ∉ target ++ 32 :: (name ++ cr) := by
              simp only [List.mem_append, List.mem_cons, not_or] at hfree ⊢
              exact ⟨ht10, by decide, hfree.1, hfree.2⟩
            have hcshape : c = (target ++ 32 :: (name ++ cr)) ++ 10 :: r2 := by
              rw [hc1, hr1, hsp']; simp
            have plain : rest = r2 → ∃ line, (10 : UInt8) ∉ line ∧
                (c = line ++ 10 :: rest ∨ ∃ pl, c = line ++ 10 :: (94 :: pl ++ 10 :: rest) ∧ (10 : UInt8) ∉ pl) := by
              intro hr; subst hr
              exact ⟨_, hline, Or.inl hcshape⟩
            cases r2 with
            | nil =>
              simp only [Option.some.injEq, Prod.mk.injEq] at h
              exact plain h.2.symm
            | cons c0 r3 =>
              dsimp only at h
              by_cases hc : c0 ≠ 94
              · rw [if_pos hc] at h
                simp only [Option.some.injEq, Prod.mk.injEq] at h
                exact plain h.2.symm
              · rw [if_neg hc] at h
                have hc0 : c0 = 94 := by simpa using hc
                cases h3 : hexHash r3 with
                | none =>
                  simp only [h3, Option.some.injEq, Prod.mk.injEq] at h
                  exact plain h.2.symm
                | some p3 =>
                  obtain ⟨obj, r4⟩ := p3
                  simp only [h3] at h
                  obtain ⟨hc3, _⟩ := takeWhileMN_split h3
                  have ho10 := hex40_free (hexHash_spec h3)
                  cases h4 : newline r4 with
                  | none =>
                    simp only [h4, Option.some.injEq, Prod.mk.injEq] at h
                    exact plain h.2.symm
                  | some r5 =>
                    simp only [h4, Option.some.injEq, Prod.mk.injEq] at h
                    obtain ⟨_, hrest⟩ := h
                    subst hrest
                    refine ⟨_, hline, Or.inr ?_⟩
                    rcases newline_split h4 with hn | hn
                    · exact ⟨obj, by rw [hcshape, hc0, hc3, hn]; simp, ho10⟩
                    · refine ⟨obj ++ [13], by rw [hcshape, hc0, hc3, hn]; simp, ?_⟩
                      simp only [List.mem_append, List.mem_singleton, not_or]
                      exact ⟨ho10, by decide⟩


/-! ### every record at a line start is met by the linear scan -/

theorem first_nl_split {line R x y : Bytes} (hfree : (10 : UInt8) ∉ line)
    (h : line ++ 10 :: R = x ++ 10 :: y) :
    (x = line ∧ y = R) ∨ ∃ x', x = line ++ 10 :: x' ∧ R = x' ++ 10 :: y := by
  rcases List.append_eq_append_iff.1 h with ⟨c, hx, hc⟩ | ⟨c, hl, hc⟩
  · cases c with
    | nil => simp at hx hc; exact Or.inl ⟨hx, hc.symm⟩
    | cons b c =>
      simp only [List.cons_append, List.cons.injEq] at hc
      right
      exact ⟨c, by rw [hx, hc.1], hc.2⟩
  · cases c with
    | nil => simp at hl hc; exact Or.inl ⟨hl.symm, hc⟩
    | cons b c =>
      simp only [List.cons_append, List.cons.injEq] at hc
      exact absurd (by rw [hl]; simp [hc.1]) hfree

theorem takeWhile_ne_split : ∀ (c : Bytes), ∃ t, c = c.takeWhile (· != 10) ++ t ∧
    (t = [] ∨ ∃ t', t = 10 :: t') ∧ (10 : UInt8) ∉ c.takeWhile (· != 10) := by
  intro c
  induction c with
  | nil => exact ⟨[], rfl, Or.inl rfl, by simp⟩
  | cons b c ih =>
    rw [List.takeWhile_cons]
    by_cases hb : b = 10
    · subst hb
      exact ⟨10 :: c, by simp, Or.inr ⟨c, rfl⟩, by simp⟩
    · obtain ⟨t, h1, h2, h3⟩ := ih
      have : (b != 10) = true := by simp [hb]
      simp only [this, if_true]
      refine ⟨t, by rw [List.cons_append, ← h1], h2, ?_⟩
      simp only [List.mem_cons, not_or]
      exact ⟨fun h => hb h.symm, h3⟩

theorem reference_caret (vn : Bytes → Bool) (t : Bytes) : reference vn (94 :: t) = none := by
  unfold reference hexHash takeWhileMN
  simp [isHexLc]

theorem reference_nil (vn : Bytes → Bool) : reference vn [] = none := by
  unfold reference hexHash takeWhileMN
  simp

/-- the linear scan meets every line start, except `^` lines it consumed as peeled lines — and
those never parse as a record -/
theorem mem_scanFrom (vn : Bytes → Bool) : ∀ (fuel : Nat) (cursor : Bytes), cursor.length < fuel →
    ∀ (y : Bytes) (r : Record) (rest : Bytes), (cursor = y ∨ ∃ x, cursor = x ++ 10 :: y) →
    reference vn y = some (r, rest) → some r ∈ scanFrom vn fuel cursor := by
  intro fuel
  induction fuel with
  | zero => intro c h; omega
  | succ f ih =>
    intro cursor hlen y r rest hls hparse
    have hyne : y ≠ [] := by intro h; rw [h, reference_nil] at hparse; cases hparse
    have hcne : cursor.isEmpty = false := by
      rcases hls with h | ⟨x, h⟩
      · rw [h]; cases y with | nil => exact absurd rfl hyne | cons _ _ => rfl
      · rw [h]; cases x <;> rfl
    rw [scanFrom]
    simp only [hcne, Bool.false_eq_true, if_false]
    rcases hls with h | ⟨x, hx⟩
    · subst h
      rw [hparse]; simp
    · cases hp : reference vn cursor with
      | some pr =>
        obtain ⟨r0, rest0⟩ := pr
        simp only [List.mem_cons]
        right
        obtain ⟨line, hfree, hshape⟩ := reference_consumes hp
        have hshort : ∀ {R : Bytes}, cursor = line ++ 10 :: R → R.length < f := by
          intro R hR
          have := congrArg List.length hR
          simp at this; omega
        rcases hshape with hs | ⟨pl, hs, hplfree⟩
        · rcases first_nl_split hfree (hs.symm.trans hx) with ⟨_, hy⟩ | ⟨x', _, hR⟩
          · exact ih rest0 (hshort hs) y r rest (Or.inl hy.symm) hparse
          · exact ih rest0 (hshort hs) y r rest (Or.inr ⟨x', hR⟩) hparse
        · rcases first_nl_split hfree (hs.symm.trans hx) with ⟨_, hy⟩ | ⟨x', _, hR⟩
          · rw [hy, List.cons_append, reference_caret] at hparse; cases hparse
          · have hpl : (10 : UInt8) ∉ 94 :: pl := by
              simp only [List.mem_cons, not_or]; exact ⟨by decide, hplfree⟩
            have hlen0 : rest0.length < f := by
              have := congrArg List.length hs
              simp at this; omega
            rcases first_nl_split hpl hR with ⟨_, hy⟩ | ⟨x'', _, hR'⟩
            · exact ih rest0 hlen0 y r rest (Or.inl hy.symm) hparse
            · exact ih rest0 hlen0 y r rest (Or.inr ⟨x'', hR'⟩) hparse
      | none =>
        simp only [List.mem_cons]
        right
        obtain ⟨t, ht, htshape, htfree⟩ := takeWhile_ne_split cursor
        rcases htshape with h | ⟨t', h⟩
        · -- no newline at all: impossible
          rw [h, List.append_nil] at ht
          exact absurd (by rw [ht.symm, hx]; simp) htfree
        · rw [h] at ht
          have hdrop : cursor.drop ((cursor.takeWhile (· != 10)).length + 1) = t' := by
            have hd : ((cursor.takeWhile (· != 10) ++ [10]) ++ t').drop
                ((cursor.takeWhile (· != 10)).length + 1) = t' := List.drop_left' (by simp)
            rw [List.append_assoc, List.singleton_append, ← ht] at hd
            exact hd
          have hlen0 : t'.length < f := by
            have := congrArg List.length ht
            simp at this; omega
          rw [hdrop]
          rcases first_nl_split htfree (ht.symm.trans hx) with ⟨_, hy⟩ | ⟨x', _, hR⟩
          · exact ih t' hlen0 y r rest (Or.inl hy.symm) hparse
          · exact ih t' hlen0 y r rest (Or.inr ⟨x', hR⟩) hparse


/-- a position is a line start: the beginning of the buffer or right after a `\n` -/
def LineStart (a : Bytes) (l : Nat) : Prop := l = 0 ∨ (1 ≤ l ∧ a[l - 1]? = some 10)

theorem lineStart_split {a : Bytes} {l : Nat} (h : LineStart a l) :
    a = a.drop l ∨ ∃ x, a = x ++ 10 :: a.drop l := by
  rcases h with h | ⟨h1, h2⟩
  · left; rw [h]; rfl
  · right
    refine ⟨a.take (l - 1), ?_⟩
    have hlt : l - 1 < a.length := by
      rcases Nat.lt_or_ge (l - 1) a.length with h | h
      · exact h
      · rw [List.getElem?_eq_none h] at h2; cases h2
    have hget : a[l - 1] = 10 := by
      rw [List.getElem?_eq_getElem hlt] at h2; injection h2
    have := List.drop_eq_getElem_cons hlt
    rw [hget, show l - 1 + 1 = l by omega] at this
    rw [← this, List.take_append_drop]

end GixModel.C19
