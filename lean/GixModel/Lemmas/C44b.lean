import GixModel.Lemmas.C44a
/-
C44 helper lemmas, part b: one directory level, name by name — the records are exactly
`Spec.changeAt` of what the two trees hold under each name, the queued items exactly the
directories that need a look inside.
-/
namespace GixModel.C44
open GixModel GixModel.Tree
open GixModel.C04 (Assoc aget TreeOk findName ValidName findName_eq_some_iff findName_eq_none_iff)
open GixModel.Spec.C44 (CChange Node changeAt isDir)

theorem isDir_nodeOf (e : Entry) : isDir (nodeOf e) = e.isTree := rfl

/-- the sub-tree pair to look into for one name -/
def itemAt (p : Path) : Option Entry → Option Entry → List (Path × Option Bytes × Option Bytes)
  | some a, some b =>
    if a.isTree then (if b.isTree then [(p, some a.oid, some b.oid)] else [(p, some a.oid, none)])
    else (if b.isTree then [(p, none, some b.oid)] else [])
  | some a, none => if a.isTree then [(p, some a.oid, none)] else []
  | none, some b => if b.isTree then [(p, none, some b.oid)] else []
  | none, none => []

theorem cmp_eq_of_same {a b : Entry} (ha : SlashFree a.name) (hb : SlashFree b.name)
    (hn : a.name = b.name) (hk : a.isTree = b.isTree) : entryCmp a b = .eq := by
  rw [entryCmp_eq_key ha hb]
  simp only [Entry.key, hn, hk, cmpBytes_refl]

/-- partner-wise description ⇒ name-wise description, for any emission functions that agree with
name-wise functions `gL gR gE` -/
theorem keywise_to_namewise {β : Type} {l r : List Entry} (hl : TreeOk l) (hr : TreeOk r)
    (fL fR : Entry → List β) (fE : Entry → Entry → List β)
    (g : Bytes → Option Entry → Option Entry → List β)
    (hL : ∀ a, g a.name (some a) none = fL a)
    (hR : ∀ b, g b.name none (some b) = fR b)
    (hE : ∀ a b, a.name = b.name → a.isTree = b.isTree → g a.name (some a) (some b) = fE a b)
    (hD : ∀ a b x, a.name = b.name → a.isTree ≠ b.isTree →
      (x ∈ g a.name (some a) (some b) ↔ x ∈ fL a ∨ x ∈ fR b))
    (hN : ∀ n, g n none none = []) (x : β) :
    ((∃ a ∈ l, (∀ b ∈ r, entryCmp a b ≠ .eq) ∧ x ∈ fL a) ∨
     (∃ b ∈ r, (∀ a ∈ l, entryCmp a b ≠ .eq) ∧ x ∈ fR b) ∨
     (∃ a ∈ l, ∃ b ∈ r, entryCmp a b = .eq ∧ x ∈ fE a b)) ↔
    ∃ n, x ∈ g n (findName l n) (findName r n) := by
  have hsl := fun e he => (hl.names e he).2
  have hsr := fun e he => (hr.names e he).2
  constructor
  · rintro (⟨a, ha, hu, hx⟩ | ⟨b, hb, hu, hx⟩ | ⟨a, ha, b, hb, he, hx⟩)
    · refine ⟨a.name, ?_⟩
      rw [(findName_eq_some_iff hl.uniq).2 ⟨ha, rfl⟩]
      cases hf : findName r a.name with
      | none => rw [hL]; exact hx
      | some b =>
        obtain ⟨hb, hbn⟩ := (findName_eq_some_iff hr.uniq).1 hf
        have hk : a.isTree ≠ b.isTree := fun hk =>
          hu b hb (cmp_eq_of_same (hsl a ha) (hsr b hb) hbn.symm hk)
        exact (hD a b x hbn.symm hk).2 (Or.inl hx)
    · refine ⟨b.name, ?_⟩
      rw [(findName_eq_some_iff hr.uniq).2 ⟨hb, rfl⟩]
      cases hf : findName l b.name with
      | none => rw [hR]; exact hx
      | some a =>
        obtain ⟨ha, han⟩ := (findName_eq_some_iff hl.uniq).1 hf
        have hk : a.isTree ≠ b.isTree := fun hk =>
          hu a ha (cmp_eq_of_same (hsl a ha) (hsr b hb) han hk)
        rw [← han]
        exact (hD a b x han hk).2 (Or.inr hx)
    · obtain ⟨hn, hk⟩ := eq_same (hsl a ha) (hsr b hb) he
      refine ⟨a.name, ?_⟩
      rw [(findName_eq_some_iff hl.uniq).2 ⟨ha, rfl⟩, hn,
        (findName_eq_some_iff hr.uniq).2 ⟨hb, rfl⟩, ← hn, hE a b hn hk]
      exact hx
  · rintro ⟨n, hx⟩
    cases hfl : findName l n with
    | none =>
      cases hfr : findName r n with
      | none => rw [hfl, hfr, hN] at hx; cases hx
      | some b =>
        obtain ⟨hb, hbn⟩ := (findName_eq_some_iff hr.uniq).1 hfr
        rw [hfl, hfr, ← hbn, hR] at hx
        refine Or.inr (Or.inl ⟨b, hb, ?_, hx⟩)
        intro a ha he
        have := (eq_same (hsl a ha) (hsr b hb) he).1
        exact findName_eq_none_iff.1 hfl a ha (this.trans hbn)
    | some a =>
      obtain ⟨ha, han⟩ := (findName_eq_some_iff hl.uniq).1 hfl
      cases hfr : findName r n with
      | none =>
        rw [hfl, hfr, ← han, hL] at hx
        refine Or.inl ⟨a, ha, ?_, hx⟩
        intro b hb he
        have := (eq_same (hsl a ha) (hsr b hb) he).1
        exact findName_eq_none_iff.1 hfr b hb (this.symm.trans han)
      | some b =>
        obtain ⟨hb, hbn⟩ := (findName_eq_some_iff hr.uniq).1 hfr
        have hn : a.name = b.name := han.trans hbn.symm
        rw [hfl, hfr, ← han] at hx
        by_cases hk : a.isTree = b.isTree
        · rw [hE a b hn hk] at hx
          exact Or.inr (Or.inr ⟨a, ha, b, hb, cmp_eq_of_same (hsl a ha) (hsr b hb) hn hk, hx⟩)
        · rcases (hD a b x hn hk).1 hx with h | h
          · refine Or.inl ⟨a, ha, ?_, h⟩
            intro b' hb' he
            obtain ⟨h1, h2⟩ := eq_same (hsl a ha) (hsr b' hb') he
            have : b' = b := C04.uniq_name_eq hr.uniq hb' hb (h1.symm.trans hn)
            subst this; exact hk h2
          · refine Or.inr (Or.inl ⟨b, hb, ?_, h⟩)
            intro a' ha' he
            obtain ⟨h1, h2⟩ := eq_same (hsl a' ha') (hsr b hb) he
            have : a' = a := C04.uniq_name_eq hl.uniq ha' ha (h1.trans hn.symm)
            subst this; exact hk h2

/-- the records of one level, name by name -/
theorem level_recs_iff (dir : Path) {l r : List Entry} (hl : TreeOk l) (hr : TreeOk r) (fuel : Nat)
    (hf : l.length + r.length ≤ fuel) (c : CChange) :
    c ∈ mergeG (delChange dir) (addChange dir) (eqChange dir) fuel l r ↔
      ∃ n, c ∈ changeAt (dir ++ [n]) ((findName l n).map nodeOf) ((findName r n).map nodeOf) := by
  rw [mergeG_mem _ _ _ fuel l r hf hl.sorted hr.sorted hl.namesOk hr.namesOk c]
  apply keywise_to_namewise hl hr _ _ _
    (fun n x y => changeAt (dir ++ [n]) (x.map nodeOf) (y.map nodeOf))
  · intro a; simp [changeAt, delChange, nodeOf]
  · intro b; simp [changeAt, addChange, nodeOf]
  · intro a b hn hk
    cases ha : a.isTree with
    | true =>
      have hb : b.isTree = true := by rw [← hk, ha]
      have h1 : isDir (a.mode, a.oid) = true := ha
      have h2 : isDir (b.mode, b.oid) = true := hb
      simp [changeAt, eqChange, h1, h2, ha, hb, nodeOf]
    | false =>
      have hb : b.isTree = false := by rw [← hk, ha]
      have h1 : isDir (a.mode, a.oid) = false := ha
      have h2 : isDir (b.mode, b.oid) = false := hb
      by_cases h3 : a.oid = b.oid
      · by_cases h4 : a.mode = b.mode
        · simp [changeAt, eqChange, nodeOf, h1, h2, ha, hb, h3, h4]
        · have h1' : isDir (a.mode, b.oid) = false := h1
          simp [changeAt, eqChange, nodeOf, h1, h1', h2, ha, hb, h3, h4]
      · simp [changeAt, eqChange, nodeOf, h1, h2, ha, hb, h3]
  · intro a b x hn hk
    cases ha : a.isTree <;> cases hb : b.isTree
    · exact absurd (ha.trans hb.symm) hk
    · have h1 : isDir (a.mode, a.oid) = false := ha
      have h2 : isDir (b.mode, b.oid) = true := hb
      simp [changeAt, h1, h2, delChange, addChange, nodeOf, hn]
    · have h1 : isDir (a.mode, a.oid) = true := ha
      have h2 : isDir (b.mode, b.oid) = false := hb
      simp [changeAt, h1, h2, delChange, addChange, nodeOf, hn]
    · exact absurd (ha.trans hb.symm) hk
  · intro n; simp [changeAt]

/-- the queue items of one level, name by name -/
theorem level_items_iff (dir : Path) {l r : List Entry} (hl : TreeOk l) (hr : TreeOk r) (fuel : Nat)
    (hf : l.length + r.length ≤ fuel) (i : Path × Option Bytes × Option Bytes) :
    i ∈ mergeG (delItem dir) (addItem dir) (eqItem dir) fuel l r ↔
      ∃ n, i ∈ itemAt (dir ++ [n]) (findName l n) (findName r n) := by
  rw [mergeG_mem _ _ _ fuel l r hf hl.sorted hr.sorted hl.namesOk hr.namesOk i]
  apply keywise_to_namewise hl hr _ _ _ (fun n x y => itemAt (dir ++ [n]) x y)
  · intro a; simp [itemAt, delItem]
  · intro b; simp [itemAt, addItem]
  · intro a b hn hk
    cases ha : a.isTree with
    | true =>
      have hb : b.isTree = true := by rw [← hk, ha]
      simp [itemAt, eqItem, ha, hb]
    | false =>
      have hb : b.isTree = false := by rw [← hk, ha]
      simp [itemAt, eqItem, ha, hb]
  · intro a b x hn hk
    cases ha : a.isTree <;> cases hb : b.isTree
    · exact absurd (ha.trans hb.symm) hk
    · simp [itemAt, delItem, addItem, ha, hb, hn]
    · simp [itemAt, delItem, addItem, ha, hb]
    · exact absurd (ha.trans hb.symm) hk
  · intro n; simp [itemAt]

end GixModel.C44
