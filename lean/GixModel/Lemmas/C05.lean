import GixModel.Spec.C05
/-
C05 — helper lemmas: digit tables (by exhaustive `decide` over the 16 nibbles / 256 bytes), hex of
lists, the masking done by `Prefix::new`, and `cmp_oid` read as a comparison of hex strings.
-/
namespace GixModel.C05
open GixModel

theorem forall_u8 (P : UInt8 → Prop) (h : ∀ n, n < 256 → P (UInt8.ofNat n)) : ∀ b, P b := by
  intro b
  have := h b.toNat (UInt8.toNat_lt b)
  simpa using this

theorem unhex_hexDigit : ∀ n, n < 16 → unhexDigit (hexDigit n) = some n := by decide +kernel

theorem hexDigit_lt_iff : ∀ a, a < 16 → ∀ b, b < 16 → (hexDigit a < hexDigit b ↔ a < b) := by
  decide +kernel

theorem hexDigit_inj {a b : Nat} (ha : a < 16) (hb : b < 16) (h : hexDigit a = hexDigit b) : a = b := by
  have h1 := hexDigit_lt_iff a ha b hb
  have h2 := hexDigit_lt_iff b hb a ha
  rw [h] at h1 h2
  have hirr : ¬ hexDigit b < hexDigit b := UInt8.lt_irrefl _
  have n1 : ¬ a < b := fun h' => hirr (h1.2 h')
  have n2 : ¬ b < a := fun h' => hirr (h2.2 h')
  omega

theorem hexDigit_unhexDigit : ∀ c : UInt8, ∀ x, unhexDigit c = some x → x < 16 ∧ hexDigit x = lowerAscii c := by
  apply forall_u8
  decide +kernel

theorem byte_recombine : ∀ b : UInt8, UInt8.ofNat (b.toNat / 16 * 16 + b.toNat % 16) = b := by
  apply forall_u8
  decide +kernel

theorem nibbles_recombine : ∀ x, x < 16 → ∀ y, y < 16 →
    (UInt8.ofNat (x * 16 + y)).toNat / 16 = x ∧ (UInt8.ofNat (x * 16 + y)).toNat % 16 = y := by
  decide +kernel

theorem mask_hi : ∀ b : UInt8, (b &&& 0xf0).toNat / 16 = b.toNat / 16 ∧ (b &&& 0xf0).toNat % 16 = 0 := by
  apply forall_u8
  decide +kernel

/-! ### hex / unhex on lists -/

@[simp] theorem hex_nil : hex [] = [] := rfl

@[simp] theorem hex_cons (b : UInt8) (r : Bytes) :
    hex (b :: r) = hexDigit (b.toNat / 16) :: hexDigit (b.toNat % 16) :: hex r := by
  simp [hex]

theorem hex_append (a b : Bytes) : hex (a ++ b) = hex a ++ hex b := by
  simp [hex]

theorem hex_length (id : Bytes) : (hex id).length = 2 * id.length := by
  induction id with
  | nil => rfl
  | cons b r ih => simp [ih]; omega

theorem hex_replicate_zero (k : Nat) : hex (List.replicate k 0) = List.replicate (2 * k) 48 := by
  induction k with
  | zero => rfl
  | succ k ih =>
    have : 2 * (k + 1) = (2 * k + 1) + 1 := by omega
    rw [List.replicate_succ, hex_cons, ih, this, List.replicate_succ, List.replicate_succ]
    rfl

theorem unhexPairs_hex (id : Bytes) : unhexPairs (hex id) = some id := by
  induction id with
  | nil => rfl
  | cons b r ih =>
    have h1 : b.toNat / 16 < 16 := by have := UInt8.toNat_lt b; omega
    have h2 : b.toNat % 16 < 16 := by omega
    simp only [hex_cons, unhexPairs, unhex_hexDigit _ h1, unhex_hexDigit _ h2, ih, byte_recombine]

theorem unhexPairs_sound : ∀ (s out : Bytes), unhexPairs s = some out →
    hex out = s.map lowerAscii ∧ s.length = 2 * out.length := by
  intro s
  fun_induction unhexPairs s with
  | case1 => intro out h; cases h; exact ⟨rfl, rfl⟩
  | case2 => intro out h; cases h
  | case3 a b rest x y r hr hy hx ih =>
    intro out h
    cases h
    obtain ⟨ih1, ih2⟩ := ih r hr
    obtain ⟨hx1, hx2⟩ := hexDigit_unhexDigit a x hx
    obtain ⟨hy1, hy2⟩ := hexDigit_unhexDigit b y hy
    obtain ⟨n1, n2⟩ := nibbles_recombine x hx1 y hy1
    simp only [hex_cons, n1, n2, hx2, hy2, ih1, List.map_cons, List.length_cons, ih2]
    exact ⟨trivial, by omega⟩
  | case4 a b rest hne => intro out h; cases h

theorem unhexPairs_none : ∀ (s : Bytes), s.length % 2 = 0 → unhexPairs s = none →
    ∃ c ∈ s, unhexDigit c = none := by
  intro s
  fun_induction unhexPairs s with
  | case1 => intro _ h; cases h
  | case2 => intro h; simp at h
  | case3 a b rest x y r hr hy hx ih => intro _ h; cases h
  | case4 a b rest hne ih =>
    intro hl _
    cases hx : unhexDigit a with
    | none => exact ⟨a, by simp, hx⟩
    | some x =>
      cases hy : unhexDigit b with
      | none => exact ⟨b, by simp, hy⟩
      | some y =>
        cases hr : unhexPairs rest with
        | some r => exact (hne x y r hx hy hr).elim
        | none =>
          have : rest.length % 2 = 0 := by simp at hl; omega
          obtain ⟨c, hc, hcn⟩ := ih this hr
          exact ⟨c, by simp [hc], hcn⟩

theorem unhexPairs_some_of_all : ∀ (s : Bytes), s.length % 2 = 0 → (∀ c ∈ s, (unhexDigit c).isSome) →
    ∃ out, unhexPairs s = some out := by
  intro s hl hall
  cases h : unhexPairs s with
  | some out => exact ⟨out, rfl⟩
  | none =>
    obtain ⟨c, hc, hcn⟩ := unhexPairs_none s hl h
    have := hall c hc
    simp [hcn] at this

theorem unhexPairs_all : ∀ (s out : Bytes), unhexPairs s = some out → ∀ c ∈ s, (unhexDigit c).isSome := by
  intro s
  fun_induction unhexPairs s with
  | case1 => intro out _ c hc; cases hc
  | case2 => intro out h; cases h
  | case3 a b rest x y r hr hy hx ih =>
    intro out _ c hc
    simp only [List.mem_cons] at hc
    rcases hc with rfl | rfl | hc
    · rw [hx]; rfl
    · rw [hy]; rfl
    · exact ih r hr c hc
  | case4 a b rest hne => intro out h; cases h

/-! ### masking -/

theorem maskTo_zero (id : Bytes) : maskTo 0 id = List.replicate id.length 0 := by
  induction id with
  | nil => rfl
  | cons b r ih => simp [maskTo, ih, List.replicate_succ]

/-- the code's formulation, for an id of any length -/
def newBytes (id : Bytes) (n : Nat) : Bytes :=
  let b := id.take ((n + 1) / 2) ++ List.replicate (id.length - (n + 1) / 2) 0
  if n % 2 = 1 then b.modify (n / 2) (fun x => x &&& 0xf0) else b

theorem newBytes_eq_maskTo : ∀ (n : Nat) (id : Bytes), newBytes id n = maskTo n id := by
  intro n id
  fun_induction maskTo n id with
  | case1 n => simp [newBytes]
  | case2 b rest ih => simp [newBytes, maskTo_zero, List.replicate_succ]
  | case3 b rest ih => simp [newBytes, maskTo_zero]
  | case4 n b rest ih =>
    rw [← ih]
    have h1 : (n + 2 + 1) / 2 = (n + 1) / 2 + 1 := by omega
    have h2 : (n + 2) / 2 = n / 2 + 1 := by omega
    have h3 : (n + 2) % 2 = n % 2 := by omega
    simp only [newBytes, h1, h2, h3, List.take_succ_cons, List.length_cons, List.cons_append,
      List.modify_succ_cons, Nat.add_sub_add_right]
    split <;> rfl

theorem maskTo_length (n : Nat) (id : Bytes) : (maskTo n id).length = id.length := by
  fun_induction maskTo n id <;> simp_all

/-- the hex form of a masked id: the first `n` digits of the id, then zeros -/
theorem hex_maskTo (n : Nat) (id : Bytes) (h : n ≤ 2 * id.length) :
    hex (maskTo n id) = (hex id).take n ++ List.replicate (2 * id.length - n) 48 := by
  fun_induction maskTo n id with
  | case1 n => simp at h; subst h; rfl
  | case2 b rest ih =>
    rw [maskTo_zero] at *
    rw [← List.replicate_succ, hex_replicate_zero]; simp
  | case3 b rest ih =>
    rw [maskTo_zero, hex_cons, hex_replicate_zero, (mask_hi b).1, (mask_hi b).2]
    simp only [hex_cons, List.length_cons]
    have : 2 * (rest.length + 1) - 1 = 2 * rest.length + 1 := by omega
    rw [this, List.replicate_succ]
    rfl
  | case4 n b rest ih =>
    simp only [List.length_cons] at h
    have := ih (by omega)
    simp only [hex_cons, this, List.take_succ_cons, List.length_cons, List.cons_append]
    have : 2 * (rest.length + 1) - (n + 2) = 2 * rest.length - n := by omega
    rw [this]

/-! ### comparison -/

theorem cmpBytes_eq_iff : ∀ (a b : Bytes), cmpBytes a b = .eq ↔ a = b := by
  intro a b
  fun_induction cmpBytes a b with
  | case1 => simp
  | case2 => simp
  | case3 => simp
  | case4 a as b bs h => simp; intro h'; subst h'; exact absurd h (UInt8.lt_irrefl _)
  | case5 a as b bs h1 h2 => simp; intro h'; subst h'; exact absurd h2 (UInt8.lt_irrefl _)
  | case6 a as b bs h1 h2 ih =>
    have : a = b := by
      have := UInt8.lt_irrefl
      exact UInt8.le_antisymm (UInt8.not_lt.1 h2) (UInt8.not_lt.1 h1)
    simp [this, ih]

/-- one step of a lexicographic comparison -/
def byteOrd (x y : UInt8) (k : Ordering) : Ordering := if x < y then .lt else if y < x then .gt else k

/-- recursive reading of `cmp_oid`: whole bytes first, then the half byte -/
def cmpSpec : Nat → Bytes → Bytes → Ordering
  | 0, _, _ => .eq
  | 1, x :: _, y :: _ => cmpU8 x (y &&& 0xf0)
  | n + 2, x :: xs, y :: ys => byteOrd x y (cmpSpec n xs ys)
  | _, _, _ => .eq

theorem cmpOid_eq_cmpSpec (n : Nat) (pb c : Bytes) (h1 : n ≤ 2 * pb.length) (h2 : n ≤ 2 * c.length) :
    Prefix.cmpOid ⟨pb, n⟩ c = some (cmpSpec n pb c) := by
  fun_induction cmpSpec n pb c with
  | case1 pb c => simp [Prefix.cmpOid, cmpBytes]
  | case2 x xs y ys => simp [Prefix.cmpOid, cmpBytes, Ordering.then]
  | case3 n x xs y ys ih =>
    simp only [List.length_cons] at h1 h2
    have ih := ih (by omega) (by omega)
    have e2 : (n + 2) / 2 = n / 2 + 1 := by omega
    have e3 : (n + 2) % 2 = n % 2 := by omega
    have g1 : ¬ (n / 2 > xs.length ∨ n / 2 > ys.length) := by omega
    have g2 : ¬ (n / 2 + 1 > xs.length + 1 ∨ n / 2 + 1 > ys.length + 1) := by omega
    simp only [Prefix.cmpOid, g1, if_false] at ih
    simp only [Prefix.cmpOid, e2, e3, List.length_cons, g2, if_false, List.take_succ_cons, cmpBytes,
      List.getElem?_cons_succ, byteOrd]
    by_cases hodd : n % 2 = 1
    · simp only [hodd, if_true] at ih ⊢
      have i1 : n / 2 < xs.length := by omega
      have i2 : n / 2 < ys.length := by omega
      simp only [List.getElem?_eq_getElem i1, List.getElem?_eq_getElem i2, Option.some.injEq] at ih ⊢
      rw [← ih]
      by_cases c1 : x < y
      · simp [c1, Ordering.then]
      · by_cases c2 : y < x
        · simp [c1, c2, Ordering.then]
        · simp [c1, c2]
    · simp only [hodd, if_false, Option.some.injEq] at ih ⊢
      rw [← ih]
  | case4 n pb c hn0 hn1 hn2 =>
    exfalso
    cases pb with
    | nil => simp at h1; exact hn0 h1
    | cons x xs =>
      cases c with
      | nil => simp at h2; exact hn0 h2
      | cons y ys =>
        match n, hn0, hn1, hn2 with
        | 0, hn0, _, _ => exact hn0 rfl
        | 1, _, hn1, _ => exact hn1 x xs y ys rfl rfl rfl
        | n + 2, _, _, hn2 => exact hn2 n x xs y ys rfl rfl rfl

theorem u8_lt_iff (a b : UInt8) : a < b ↔ a.toNat < b.toNat := UInt8.lt_iff_toNat_lt

theorem cmp_hex_pair (x y : UInt8) (A B : Bytes) :
    cmpBytes (hexDigit (x.toNat / 16) :: hexDigit (x.toNat % 16) :: A)
             (hexDigit (y.toNat / 16) :: hexDigit (y.toNat % 16) :: B) = byteOrd x y (cmpBytes A B) := by
  have hx := UInt8.toNat_lt x
  have hy := UInt8.toNat_lt y
  have a1 := hexDigit_lt_iff (x.toNat / 16) (by omega) (y.toNat / 16) (by omega)
  have a2 := hexDigit_lt_iff (y.toNat / 16) (by omega) (x.toNat / 16) (by omega)
  have b1 := hexDigit_lt_iff (x.toNat % 16) (by omega) (y.toNat % 16) (by omega)
  have b2 := hexDigit_lt_iff (y.toNat % 16) (by omega) (x.toNat % 16) (by omega)
  simp only [cmpBytes, byteOrd, a1, a2, b1, b2, u8_lt_iff]
  by_cases c1 : x.toNat / 16 < y.toNat / 16
  · have : x.toNat < y.toNat := by omega
    simp [c1, this]
  · by_cases c2 : y.toNat / 16 < x.toNat / 16
    · have h1 : ¬ x.toNat < y.toNat := by omega
      have h2 : y.toNat < x.toNat := by omega
      simp [c1, c2, h1, h2]
    · simp only [c1, c2, if_false]
      by_cases c3 : x.toNat % 16 < y.toNat % 16
      · have : x.toNat < y.toNat := by omega
        simp [c3, this]
      · by_cases c4 : y.toNat % 16 < x.toNat % 16
        · have h1 : ¬ x.toNat < y.toNat := by omega
          have h2 : y.toNat < x.toNat := by omega
          simp [c3, c4, h1, h2]
        · have h1 : ¬ x.toNat < y.toNat := by omega
          have h2 : ¬ y.toNat < x.toNat := by omega
          simp [c3, c4, h1, h2]

theorem cmpSpec_eq_hex (n : Nat) (pb c : Bytes) (h1 : n ≤ 2 * pb.length) (h2 : n ≤ 2 * c.length)
    (hz : ZeroPast n pb) : cmpSpec n pb c = cmpBytes ((hex pb).take n) ((hex c).take n) := by
  fun_induction cmpSpec n pb c with
  | case1 pb c => simp [cmpBytes]
  | case2 x xs y ys =>
    simp only [ZeroPast, hex_cons, List.drop_succ_cons, List.drop_zero, List.length_cons] at hz
    have e : 2 * (xs.length + 1) - 1 = 2 * xs.length + 1 := by omega
    rw [e, List.replicate_succ] at hz
    have hd : hexDigit (x.toNat % 16) = hexDigit 0 := (List.cons.inj hz).1
    have hx0 : x.toNat % 16 = 0 := hexDigit_inj (by omega) (by omega) hd
    have hx := UInt8.toNat_lt x
    have hy := UInt8.toNat_lt y
    obtain ⟨m1, m2⟩ := mask_hi y
    have a1 := hexDigit_lt_iff (x.toNat / 16) (by omega) (y.toNat / 16) (by omega)
    have a2 := hexDigit_lt_iff (y.toNat / 16) (by omega) (x.toNat / 16) (by omega)
    simp only [hex_cons, List.take_succ_cons, List.take_zero, cmpBytes, cmpU8, a1, a2, u8_lt_iff]
    have k1 : x.toNat < (y &&& 0xf0).toNat ↔ x.toNat / 16 < y.toNat / 16 := by omega
    have k2 : (y &&& 0xf0).toNat < x.toNat ↔ y.toNat / 16 < x.toNat / 16 := by omega
    simp only [k1, k2]
  | case3 n x xs y ys ih =>
    simp only [List.length_cons] at h1 h2
    have hz' : ZeroPast n xs := by
      simp only [ZeroPast, hex_cons, List.drop_succ_cons, List.length_cons] at hz ⊢
      have e : 2 * (xs.length + 1) - (n + 2) = 2 * xs.length - n := by omega
      rw [e] at hz; exact hz
    rw [ih (by omega) (by omega) hz']
    simp only [hex_cons, List.take_succ_cons, cmp_hex_pair]
  | case4 n pb c hn0 hn1 hn2 =>
    exfalso
    cases pb with
    | nil => simp at h1; exact hn0 h1
    | cons x xs =>
      cases c with
      | nil => simp at h2; exact hn0 h2
      | cons y ys =>
        match n, hn0, hn1, hn2 with
        | 0, hn0, _, _ => exact hn0 rfl
        | 1, _, hn1, _ => exact hn1 x xs y ys rfl rfl rfl
        | n + 2, _, _, hn2 => exact hn2 n x xs y ys rfl rfl rfl

/-! ### constructors -/

theorem new_ok (id : Bytes) (n : Nat) (hid : id.length = 20) (h4 : 4 ≤ n) (h40 : n ≤ 40) :
    Prefix.new id n = .ok ⟨maskTo n id, n⟩ := by
  have g1 : ¬ n > 40 := by omega
  have g2 : ¬ n < 4 := by omega
  have g3 : ¬ ((n + 1) / 2 > 20 ∨ (n + 1) / 2 > id.length) := by omega
  have hm := newBytes_eq_maskTo n id
  simp only [newBytes, hid] at hm
  simp only [Prefix.new, g1, g2, g3, if_false]
  by_cases hodd : n % 2 = 1
  · simp only [hodd, if_true] at hm ⊢
    have : n / 2 < (List.take ((n + 1) / 2) id ++ List.replicate (20 - (n + 1) / 2) 0).length := by
      simp; omega
    simp only [this, if_true, hm]
  · simp only [hodd, if_false] at hm ⊢
    rw [hm]

theorem zeroPast_maskTo (n : Nat) (id : Bytes) (h : n ≤ 2 * id.length) : ZeroPast n (maskTo n id) := by
  unfold ZeroPast
  rw [hex_maskTo n id h, maskTo_length]
  have hl : ((hex id).take n).length = n := by simp [hex_length]; omega
  rw [List.drop_append_of_le_length (by omega), List.drop_of_length_le (by omega)]
  simp

theorem take_hex_maskTo (n : Nat) (id : Bytes) (h : n ≤ 2 * id.length) :
    (hex (maskTo n id)).take n = (hex id).take n := by
  rw [hex_maskTo n id h]
  have hl : ((hex id).take n).length = n := by simp [hex_length]; omega
  rw [List.take_append_of_le_length (by omega), List.take_of_length_le (by omega)]

theorem byte_zero_of_digits (b : UInt8) (h1 : hexDigit (b.toNat / 16) = 48) (h2 : hexDigit (b.toNat % 16) = 48) :
    b = 0 := by
  have hb := UInt8.toNat_lt b
  have e1 : b.toNat / 16 = 0 := hexDigit_inj (by omega) (by omega) (h1.trans (by rfl))
  have e2 : b.toNat % 16 = 0 := hexDigit_inj (by omega) (by omega) (h2.trans (by rfl))
  have := byte_recombine b
  rw [e1, e2] at this
  exact this.symm

theorem mask_id_of_low_zero (b : UInt8) (h : b.toNat % 16 = 0) : b &&& 0xf0 = b := by
  obtain ⟨m1, m2⟩ := mask_hi b
  have r1 := byte_recombine (b &&& 0xf0)
  have r2 := byte_recombine b
  rw [m1, m2] at r1
  rw [h] at r2
  rw [← r1]; exact r2

theorem maskTo_of_zeroPast (n : Nat) (b : Bytes) (hz : ZeroPast n b) : maskTo n b = b := by
  fun_induction maskTo n b with
  | case1 n => rfl
  | case2 b rest ih =>
    simp only [ZeroPast, hex_cons, List.drop_zero, List.length_cons] at hz
    have e : 2 * (rest.length + 1) - 0 = (2 * rest.length + 1) + 1 := by omega
    rw [e, List.replicate_succ, List.replicate_succ] at hz
    obtain ⟨h1, hz⟩ := List.cons.inj hz
    obtain ⟨h2, hz⟩ := List.cons.inj hz
    have : ZeroPast 0 rest := by simp only [ZeroPast, List.drop_zero]; exact hz
    rw [ih this, byte_zero_of_digits b h1 h2]
  | case3 b rest ih =>
    simp only [ZeroPast, hex_cons, List.drop_succ_cons, List.drop_zero, List.length_cons] at hz
    have e : 2 * (rest.length + 1) - 1 = 2 * rest.length + 1 := by omega
    rw [e, List.replicate_succ] at hz
    obtain ⟨h2, hz⟩ := List.cons.inj hz
    have : ZeroPast 0 rest := by simp only [ZeroPast, List.drop_zero]; exact hz
    have hb := UInt8.toNat_lt b
    have e2 : b.toNat % 16 = 0 := hexDigit_inj (by omega) (by omega) (h2.trans (by rfl))
    rw [ih this, mask_id_of_low_zero b e2]
  | case4 n b rest ih =>
    have : ZeroPast n rest := by
      simp only [ZeroPast, hex_cons, List.drop_succ_cons, List.length_cons] at hz ⊢
      have e : 2 * (rest.length + 1) - (n + 2) = 2 * rest.length - n := by omega
      rw [e] at hz; exact hz
    rw [ih this]

theorem lowerAscii_48 : lowerAscii 48 = 48 := by decide

/-- everything `Prefix::from_hex` establishes on success -/
theorem fromHex_ok (s : Bytes) (p : Prefix) (h : Prefix.fromHex s = .ok p) :
    p.hexLen = s.length ∧ p.bytes.length = 20 ∧ 4 ≤ s.length ∧ s.length ≤ 40 ∧
    (hex p.bytes).take s.length = s.map lowerAscii ∧ ZeroPast s.length p.bytes := by
  unfold Prefix.fromHex at h
  simp only at h
  by_cases g1 : s.length > 40
  · simp [g1] at h
  by_cases g2 : s.length < 4
  · simp [g1, g2] at h
  simp only [g1, g2, if_false] at h
  generalize hsrc : (if s.length % 2 = 0 then s else s ++ [48]) = src at h
  unfold hexDecode at h
  by_cases hl : src.length % 2 = 1
  · simp [hl] at h
  simp only [hl, if_false] at h
  cases hu : unhexPairs src with
  | none => simp [hu] at h
  | some out =>
    simp only [hu] at h
    obtain ⟨hs1, hs2⟩ := unhexPairs_sound src out hu
    by_cases g3 : out.length > 20
    · simp [g3] at h
    simp only [g3, if_false, Outcome.ok.injEq] at h
    subst h
    refine ⟨rfl, by simp; omega, by omega, by omega, ?_, ?_⟩
    · simp only [hex_append, hs1, hex_replicate_zero]
      by_cases hev : s.length % 2 = 0
      · simp only [hev, if_true] at hsrc; subst hsrc
        rw [List.take_append_of_le_length (by simp), List.take_of_length_le (by simp)]
      · simp only [hev, if_false] at hsrc; subst hsrc
        simp only [List.map_append, List.append_assoc]
        rw [List.take_append_of_le_length (by simp), List.take_of_length_le (by simp)]
    · simp only [ZeroPast, hex_append, hs1, hex_replicate_zero, List.length_append, List.length_replicate]
      by_cases hev : s.length % 2 = 0
      · simp only [hev, if_true] at hsrc; subst hsrc
        rw [List.drop_append_of_le_length (by simp), List.drop_of_length_le (by simp)]
        simp only [List.nil_append]
        congr 1; omega
      · simp only [hev, if_false] at hsrc; subst hsrc
        simp only [List.length_append, List.length_singleton] at hs2
        simp only [List.map_append, List.append_assoc, List.map_cons, List.map_nil, lowerAscii_48]
        rw [List.drop_append_of_le_length (by simp), List.drop_of_length_le (by simp)]
        simp only [List.nil_append, List.singleton_append, ← List.replicate_succ]
        congr 1; omega

end GixModel.C05
