import GixModel.Lemmas.C20Fs
/-
C20 helper lemmas, part 2: the step list without directory and reflog operations (`core`), which
is all that matters for what readers of refs and of packed-refs see; facts about the paths involved.
-/
namespace GixModel.C20
open GixModel

def refsPrefix : Bytes := [114, 101, 102, 115, 47]   -- "refs/"
def logsPrefix : Bytes := [108, 111, 103, 115, 47]   -- "logs/"

/-- a ref name the model covers: below `refs/`, not ending in `.lock` -/
def isRefName (n : Name) : Bool :=
  refsPrefix.isPrefixOf n && !(lockSuffix.reverse.isPrefixOf n.reverse)

def isLogPath (p : Path) : Bool := logsPrefix.isPrefixOf p

def isLogOp (op : FsOp) : Bool := op.touches.all isLogPath

/-- drop what readers of refs never look at: directory operations and operations on reflogs -/
def strip (ops : List FsOp) : List FsOp := ops.filter fun op => !op.isDirOp && !isLogOp op

def prepCoreEdit (c : Cfg) (global : Bool) : Edit → List FsOp
  | .delete n => if global then [] else [.create (lockPath n)]
  | .update n new => .create (lockPath n) :: writeOps c.chunk (lockPath n) (renderRef new)

def renameCore : Edit → List FsOp
  | .update n _ => [.rename (lockPath n) n]
  | .delete _ => []

def delCore (s : Store) (global : Bool) : Edit → List FsOp
  | .update _ _ => []
  | .delete n =>
    (if (s.looseOf n).isSome then [FsOp.unlink n] else []) ++ (if global then [] else [FsOp.unlink (lockPath n)])

/-- the steps that matter to readers -/
def core (c : Cfg) (s : Store) (txn : List Edit) : List FsOp :=
  let global := s.hasGlobalLock txn
  (if global then [FsOp.create (lockPath packedPath)] else []) ++
  txn.flatMap (prepCoreEdit c global) ++ txn.flatMap renameCore ++ packedCommit c s txn ++
  txn.flatMap (delCore s global)

/-! ### paths -/

theorem head_refName {n : Name} (h : isRefName n = true) : n.head? = some 114 := by
  simp only [isRefName, Bool.and_eq_true] at h
  have := h.1
  cases n with
  | nil => simp [refsPrefix] at this
  | cons b bs => simp [refsPrefix, List.isPrefixOf] at this; simp [this.1]

theorem head_lockPath {n : Name} (h : isRefName n = true) : (lockPath n).head? = some 114 := by
  have := head_refName h
  cases n with
  | nil => simp at this
  | cons b bs => simpa [lockPath] using this

theorem head_logPath (k : Name) : (logPath k).head? = some 108 := by simp [logPath, logsDir]

theorem isLogPath_logPath (k : Name) : isLogPath (logPath k) = true := by
  simp [isLogPath, logPath, logsDir, logsPrefix, List.isPrefixOf]

theorem not_isLogPath_of_head {p : Path} {b : UInt8} (h : p.head? = some b) (hb : b ≠ 108) :
    isLogPath p = false := by
  cases p with
  | nil => simp at h
  | cons x xs =>
    simp at h; subst h
    simp only [isLogPath, logsPrefix, List.isPrefixOf, Bool.and_eq_false_imp, beq_iff_eq]
    intro e; exact absurd e.symm hb

theorem not_isLogPath_refName {n : Name} (h : isRefName n = true) : isLogPath n = false :=
  not_isLogPath_of_head (head_refName h) (by decide)

theorem not_isLogPath_lockPath {n : Name} (h : isRefName n = true) : isLogPath (lockPath n) = false :=
  not_isLogPath_of_head (head_lockPath h) (by decide)

theorem not_isLogPath_packed : isLogPath packedPath = false ∧ isLogPath (lockPath packedPath) = false := by
  decide

theorem lockPath_inj {a b : Path} (h : lockPath a = lockPath b) : a = b :=
  List.append_cancel_right h

theorem refName_ne_lockPath {n : Name} (h : isRefName n = true) (p : Path) : n ≠ lockPath p := by
  intro e
  simp only [isRefName, Bool.and_eq_true, Bool.not_eq_true'] at h
  have := h.2
  rw [e] at this
  have h2 : (lockSuffix.reverse).isPrefixOf (lockSuffix.reverse ++ p.reverse) = true :=
    List.isPrefixOf_iff_prefix.mpr (List.prefix_append _ _)
  simp only [lockPath, List.reverse_append] at this
  rw [h2] at this; cases this

theorem refName_ne_packed {n : Name} (h : isRefName n = true) : n ≠ packedPath ∧ n ≠ lockPath packedPath := by
  have hh := head_refName h
  constructor <;> (intro e; rw [e] at hh; revert hh; decide)

theorem lockPath_ne_packed {n : Name} (h : isRefName n = true) :
    lockPath n ≠ packedPath ∧ lockPath n ≠ lockPath packedPath := by
  have hh := head_lockPath h
  constructor
  · intro e; rw [e] at hh; revert hh; decide
  · intro e; exact (refName_ne_packed h).1 (lockPath_inj e)

/-! ### `strip` of the generated steps is `core` -/

theorem strip_append (a b : List FsOp) : strip (a ++ b) = strip a ++ strip b := by simp [strip]

theorem strip_dirOps {ops : List FsOp} (h : ∀ op ∈ ops, op.isDirOp = true) : strip ops = [] := by
  apply List.filter_eq_nil_iff.mpr
  intro op ho; simp [h op ho]

theorem strip_mkdirAll (g : G) (d : Path) : strip (mkdirAll g d) = [] := by
  apply strip_dirOps; intro op ho
  simp only [mkdirAll, List.mem_map] at ho
  obtain ⟨p, _, rfl⟩ := ho; rfl

theorem strip_rmdirUpAux (g : G) (l : List Path) : strip (rmdirUpAux g l) = [] := by
  apply strip_dirOps
  induction l generalizing g with
  | nil => intro op ho; simp [rmdirUpAux] at ho
  | cons d up ih =>
    intro op ho
    simp only [rmdirUpAux] at ho
    split at ho
    · rcases List.mem_cons.mp ho with e | ho
      · subst e; rfl
      · exact ih _ op ho
    · cases ho

theorem strip_rmdirUp (g : G) (d b : Path) : strip (rmdirUp g d b) = [] := strip_rmdirUpAux _ _

theorem strip_keep {ops : List FsOp} (h : ∀ op ∈ ops, op.isDirOp = false ∧ isLogOp op = false) :
    strip ops = ops := by
  apply List.filter_eq_self.mpr
  intro op ho; simp [h op ho]

theorem strip_logOps {ops : List FsOp} (h : ∀ op ∈ ops, isLogOp op = true) : strip ops = [] := by
  apply List.filter_eq_nil_iff.mpr
  intro op ho; simp [h op ho]

theorem keep_lock_ops {n : Name} (h : isRefName n = true) (c : Cfg) (bs : Bytes) :
    ∀ op ∈ FsOp.create (lockPath n) :: writeOps c.chunk (lockPath n) bs,
      op.isDirOp = false ∧ isLogOp op = false := by
  intro op ho
  rcases List.mem_cons.mp ho with e | ho
  · subst e; simp [FsOp.isDirOp, isLogOp, FsOp.touches, not_isLogPath_lockPath h]
  · simp only [writeOps, List.mem_map] at ho
    obtain ⟨x, _, rfl⟩ := ho
    simp [FsOp.isDirOp, isLogOp, FsOp.touches, not_isLogPath_lockPath h]

theorem strip_prepEdit (c : Cfg) (global : Bool) (g : G) (e : Edit) (h : isRefName e.name = true) :
    strip (prepEdit c global g e) = prepCoreEdit c global e := by
  cases e with
  | delete n =>
    have h : isRefName n = true := h
    simp only [prepEdit, prepCoreEdit]
    cases global with
    | true => simp [strip]
    | false =>
      simp only [Bool.false_eq_true, if_false, strip_append, strip_mkdirAll, List.nil_append]
      apply strip_keep
      intro op ho; simp at ho; subst ho
      simp [FsOp.isDirOp, isLogOp, FsOp.touches, not_isLogPath_lockPath h]
  | update n new =>
    have h : isRefName n = true := h
    simp only [prepEdit, prepCoreEdit, strip_append, strip_mkdirAll, List.nil_append, List.append_assoc]
    rw [← strip_append]
    exact strip_keep (keep_lock_ops h c _)

theorem strip_prepEdits (c : Cfg) (global : Bool) (g : G) (es : List Edit)
    (h : ∀ e ∈ es, isRefName e.name = true) :
    strip (prepEdits c global g es) = es.flatMap (prepCoreEdit c global) := by
  induction es generalizing g with
  | nil => simp [prepEdits, strip]
  | cons e es ih =>
    simp only [prepEdits, strip_append, List.flatMap_cons]
    rw [strip_prepEdit c global g e (h e (List.mem_cons_self ..)),
      ih _ (fun x hx => h x (List.mem_cons_of_mem _ hx))]

theorem isLogOp_log (k : Name) :
    isLogOp (.create (logPath k)) = true ∧ (∀ bs, isLogOp (.append (logPath k) bs) = true) ∧
      isLogOp (.unlink (logPath k)) = true := by
  simp [isLogOp, FsOp.touches, isLogPath_logPath]

theorem reflogOps_quiet (c : Cfg) (s : Store) (g : G) (n : Name) (h : Bytes) :
    ∀ op ∈ reflogOps c s g n h, op.isDirOp = true ∨ isLogOp op = true := by
  have hmk : ∀ op ∈ mkdirAll g (parentOf (logPath n)), op.isDirOp = true ∨ isLogOp op = true := by
    intro op ho
    simp only [mkdirAll, List.mem_map] at ho
    obtain ⟨p, _, rfl⟩ := ho; exact .inl rfl
  have hcr : ∀ op ∈ [FsOp.create (logPath n)], op.isDirOp = true ∨ isLogOp op = true := by
    intro op ho; simp at ho; subst ho; exact .inr (isLogOp_log n).1
  have hap : ∀ bs, ∀ op ∈ [FsOp.append (logPath n) bs], op.isDirOp = true ∨ isLogOp op = true := by
    intro bs op ho; simp at ho; subst ho; exact .inr ((isLogOp_log n).2.1 _)
  intro op ho
  unfold reflogOps at ho
  split at ho
  · cases ho
  · split at ho
    · rcases List.mem_append.mp ho with ho | ho
      · exact hmk op ho
      · rcases List.mem_append.mp ho with ho | ho
        · split at ho
          · cases ho
          · exact hcr op ho
        · exact hap _ op ho
    · split at ho
      · exact hap _ op ho
      · cases ho

theorem strip_commitUpdate (c : Cfg) (s : Store) (g : G) (e : Edit) (h : isRefName e.name = true) :
    strip (commitUpdate c s g e) = renameCore e := by
  cases e with
  | delete n => simp [commitUpdate, renameCore, strip]
  | update n new =>
    have h : isRefName n = true := h
    have hren : strip [FsOp.rename (lockPath n) n] = [FsOp.rename (lockPath n) n] := by
      apply strip_keep; intro op ho; simp at ho; subst ho
      simp [FsOp.isDirOp, isLogOp, FsOp.touches, not_isLogPath_lockPath h, not_isLogPath_refName h]
    cases new with
    | sym t => simpa [commitUpdate, renameCore] using hren
    | id hx =>
      have : strip (reflogOps c s g n hx) = [] := by
        apply List.filter_eq_nil_iff.mpr
        intro op ho
        rcases reflogOps_quiet c s g n hx op ho with h1 | h1 <;> simp [h1]
      simp only [commitUpdate, renameCore, strip_append, this, hren, List.nil_append]

theorem strip_commitUpdates (c : Cfg) (s : Store) (g : G) (es : List Edit)
    (h : ∀ e ∈ es, isRefName e.name = true) :
    strip (commitUpdates c s g es) = es.flatMap renameCore := by
  induction es generalizing g with
  | nil => simp [commitUpdates, strip]
  | cons e es ih =>
    simp only [commitUpdates, strip_append, List.flatMap_cons]
    rw [strip_commitUpdate c s g e (h e (List.mem_cons_self ..)),
      ih _ (fun x hx => h x (List.mem_cons_of_mem _ hx))]

theorem strip_logDelete (g : G) (e : Edit) : strip (logDelete g e) = [] := by
  cases e with
  | update n new => simp [logDelete, strip]
  | delete n =>
    simp only [logDelete]
    split
    · have : strip [FsOp.unlink (logPath n)] = [] :=
        strip_logOps (by intro op ho; simp at ho; subst ho; exact (isLogOp_log n).2.2)
      rw [show (FsOp.unlink (logPath n) :: rmdirUp (g.step (.unlink (logPath n))) (parentOf (logPath n)) logsDir)
        = [FsOp.unlink (logPath n)] ++ rmdirUp (g.step (.unlink (logPath n))) (parentOf (logPath n)) logsDir from rfl,
        strip_append, this, strip_rmdirUp]
      rfl
    · simp [strip]

theorem strip_logDeletes (g : G) (es : List Edit) : strip (logDeletes g es) = [] := by
  induction es generalizing g with
  | nil => simp [logDeletes, strip]
  | cons e es ih => simp only [logDeletes, strip_append, strip_logDelete, ih, List.append_nil]

theorem strip_packedCommit (c : Cfg) (s : Store) (txn : List Edit) :
    strip (packedCommit c s txn) = packedCommit c s txn := by
  apply strip_keep
  intro op ho
  have hp := not_isLogPath_packed
  simp only [packedCommit] at ho
  split at ho
  · cases ho
  · split at ho
    · simp at ho; subst ho; simp [FsOp.isDirOp, isLogOp, FsOp.touches, hp.2]
    · simp only [List.mem_append] at ho
      rcases ho with ho | ho
      · simp only [writeOps, List.mem_map] at ho
        obtain ⟨x, _, rfl⟩ := ho
        simp [FsOp.isDirOp, isLogOp, FsOp.touches, hp.2]
      · split at ho
        · simp at ho
          rcases ho with rfl | rfl <;> simp [FsOp.isDirOp, isLogOp, FsOp.touches, hp.1, hp.2]
        · simp at ho; subst ho; simp [FsOp.isDirOp, isLogOp, FsOp.touches, hp.1, hp.2]

theorem strip_looseDelete (s : Store) (global : Bool) (g : G) (e : Edit) (h : isRefName e.name = true) :
    strip (looseDelete s global g e) = delCore s global e := by
  cases e with
  | update n new => simp [looseDelete, delCore, strip]
  | delete n =>
    have h : isRefName n = true := h
    have h1 : ∀ l : List FsOp, (∀ op ∈ l, op = .unlink n ∨ op = .unlink (lockPath n)) → strip l = l := by
      intro l hl
      apply strip_keep
      intro op ho
      rcases hl op ho with rfl | rfl
      · simp [FsOp.isDirOp, isLogOp, FsOp.touches, not_isLogPath_refName h]
      · simp [FsOp.isDirOp, isLogOp, FsOp.touches, not_isLogPath_lockPath h]
    simp only [looseDelete, delCore]
    cases global with
    | true =>
      simp only [if_true, List.append_nil]
      apply h1; intro op ho
      split at ho <;> simp at ho
      exact .inl ho
    | false =>
      simp only [Bool.false_eq_true, if_false, strip_append, strip_rmdirUp, List.append_nil]
      rw [← strip_append]
      apply h1; intro op ho
      simp only [List.mem_append] at ho
      rcases ho with ho | ho
      · split at ho <;> simp at ho
        exact .inl ho
      · simp at ho; exact .inr ho

theorem strip_looseDeletes (s : Store) (global : Bool) (g : G) (es : List Edit)
    (h : ∀ e ∈ es, isRefName e.name = true) :
    strip (looseDeletes s global g es) = es.flatMap (delCore s global) := by
  induction es generalizing g with
  | nil => simp [looseDeletes, strip]
  | cons e es ih =>
    simp only [looseDeletes, strip_append, List.flatMap_cons]
    rw [strip_looseDelete s global g e (h e (List.mem_cons_self ..)),
      ih _ (fun x hx => h x (List.mem_cons_of_mem _ hx))]

/-- without directory and reflog operations the generated steps are exactly `core` -/
theorem strip_txnSteps (c : Cfg) (s : Store) (txn : List Edit) (h : ∀ e ∈ txn, isRefName e.name = true) :
    strip (txnSteps c s txn) = core c s txn := by
  have hp0 : strip (if s.hasGlobalLock txn = true then [FsOp.create (lockPath packedPath)] else []) =
      (if s.hasGlobalLock txn = true then [FsOp.create (lockPath packedPath)] else []) := by
    apply strip_keep
    intro op ho
    split at ho
    · simp at ho; subst ho
      simp [FsOp.isDirOp, isLogOp, FsOp.touches, not_isLogPath_packed.2]
    · cases ho
  simp only [txnSteps, core, strip_append, strip_prepEdits c _ _ _ h, strip_commitUpdates c s _ _ h,
    strip_logDeletes, strip_packedCommit, strip_looseDeletes s _ _ _ h, hp0, List.append_nil]

end GixModel.C20
