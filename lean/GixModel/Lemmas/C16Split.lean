/-
C16: what `extend_with_splits_of_symbolic_refs` guarantees about the parent pointers (`Chains`).
-/
import GixModel.Lemmas.C16Chain

namespace GixModel.C16Fs
open GixModel.C17 GixModel.C16

def IsOnly (e : Edit) : Prop := e.update.change.logMode = .only

theorem splitEdit_spec (find : Name → Option Target) (eid : Nat) (e : Edit) :
    (splitEdit find eid e).1.name = e.name ∧ (splitEdit find eid e).1.parent = e.parent ∧
    (((splitEdit find eid e).2 = [] ∧ (splitEdit find eid e).1.update.change = e.update.change ∧
        (e.update.deref = true → ∀ s, find e.name ≠ some (.symbolic s))) ∨
     (∃ c s, (splitEdit find eid e).2 = [c] ∧ find e.name = some (.symbolic s) ∧ c.parent = some eid ∧
        c.name = s ∧ c.update.deref = true ∧ c.update.change = e.update.change ∧
        IsOnly (splitEdit find eid e).1)) := by
  unfold splitEdit IsOnly
  by_cases hd : e.update.deref = true
  · simp only [hd, if_true]
    cases hf : find e.update.name with
    | none =>
      refine ⟨rfl, rfl, Or.inl ⟨rfl, rfl, fun _ s hs => ?_⟩⟩
      simp only [Edit.name] at hs; rw [hf] at hs; cases hs
    | some t =>
      cases t with
      | object o =>
        refine ⟨rfl, rfl, Or.inl ⟨rfl, rfl, fun _ s hs => ?_⟩⟩
        simp only [Edit.name] at hs; rw [hf] at hs; cases hs
      | symbolic r =>
        cases hch : e.update.change with
        | delete ex log =>
          exact ⟨rfl, rfl, Or.inr ⟨_, r, rfl, hf, rfl, rfl, rfl, rfl, rfl⟩⟩
        | update log ex new =>
          exact ⟨rfl, rfl, Or.inr ⟨_, r, rfl, hf, rfl, rfl, rfl, rfl, rfl⟩⟩
  · rw [if_neg hd]
    exact ⟨rfl, rfl, Or.inl ⟨rfl, rfl, fun h => absurd h hd⟩⟩

/-- what one pass does to the edit at position `k` -/
theorem splitPass_at (find : Name → Option Target) :
    ∀ (l : List Edit) (eid k : Nat) (y : Edit), (splitPass find eid l).1[k]? = some y →
      ∃ x, l[k]? = some x ∧ y.name = x.name ∧ y.parent = x.parent ∧
        ((y.update.change = x.update.change ∧ (x.update.deref = true → ∀ s, find x.name ≠ some (.symbolic s))) ∨
         (IsOnly y ∧ ∃ c ∈ (splitPass find eid l).2, c.parent = some (eid + k) ∧
            find x.name = some (.symbolic c.name))) := by
  intro l
  induction l with
  | nil => intro eid k y h; simp [splitPass] at h
  | cons e rest ih =>
    intro eid k y h
    simp only [splitPass] at h ⊢
    cases k with
    | zero =>
      simp only [List.getElem?_cons_zero, Option.some.injEq] at h
      subst h
      obtain ⟨h1, h2, h3⟩ := splitEdit_spec find eid e
      refine ⟨e, rfl, h1, h2, ?_⟩
      rcases h3 with ⟨_, g2, g3⟩ | ⟨c, s, g1, g2, g3, g4, _, _, g7⟩
      · exact Or.inl ⟨g2, g3⟩
      · refine Or.inr ⟨g7, c, ?_, by simpa using g3, by rw [g4]; exact g2⟩
        rw [g1]; simp
    | succ k =>
      simp only [List.getElem?_cons_succ] at h ⊢
      obtain ⟨x, g1, g2, g3, g4⟩ := ih (eid + 1) k y h
      refine ⟨x, g1, g2, g3, ?_⟩
      rcases g4 with g4 | ⟨g5, c, hc, g6, g7⟩
      · exact Or.inl g4
      · refine Or.inr ⟨g5, c, List.mem_append_right _ hc, ?_, g7⟩
        rw [g6]; congr 1; omega

/-- where the new edits of one pass come from -/
theorem splitPass_child (find : Name → Option Target) :
    ∀ (l : List Edit) (eid : Nat), ∀ c ∈ (splitPass find eid l).2,
      ∃ (k : Nat) (x y : Edit), l[k]? = some x ∧ (splitPass find eid l).1[k]? = some y ∧ c.parent = some (eid + k) ∧
        IsOnly y ∧ y.name = x.name ∧ find x.name = some (.symbolic c.name) ∧ c.update.deref = true ∧
        c.update.change = x.update.change := by
  intro l
  induction l with
  | nil => intro eid c hc; simp [splitPass] at hc
  | cons e rest ih =>
    intro eid c hc
    simp only [splitPass, List.mem_append] at hc ⊢
    rcases hc with hc | hc
    · obtain ⟨h1, _, h3⟩ := splitEdit_spec find eid e
      rcases h3 with ⟨g1, _, _⟩ | ⟨c', s, g1, g2, g3, g4, g5, g6, g7⟩
      · rw [g1] at hc; cases hc
      · rw [g1] at hc
        simp only [List.mem_singleton] at hc
        subst hc
        exact ⟨0, e, _, rfl, rfl, by simpa using g3, g7, h1, by rw [g4]; exact g2, g5, g6⟩
    · obtain ⟨k, x, y, g1, g2, g3, g4⟩ := ih (eid + 1) c hc
      refine ⟨k + 1, x, y, by simpa using g1, by simpa using g2, ?_, g4⟩
      rw [g3]; congr 1; omega

/-- the invariant of the rounds: everything before `first` has been processed -/
structure LInv (find : Name → Option Target) (first : Nat) (es : List Edit) : Prop where
  l0 : first ≤ es.length
  l1 : ∀ (j : Nat) (x : Edit) (i : Nat), es[j]? = some x → x.parent = some i →
        i < first ∧ ∃ pe, es[i]? = some pe ∧ IsOnly pe ∧ find pe.name = some (.symbolic x.name)
  l2 : ∀ (i : Nat) (pe : Edit), es[i]? = some pe → IsOnly pe →
        i < first ∧ ∃ (j : Nat) (x : Edit), es[j]? = some x ∧ x.parent = some i
  l3 : ∀ (j : Nat) (x : Edit), j < first → es[j]? = some x → x.parent ≠ none →
        ∀ s, find x.name = some (.symbolic s) → IsOnly x
  l4 : ∀ (j : Nat) (x : Edit), first ≤ j → es[j]? = some x → x.parent ≠ none → x.update.deref = true

theorem round_view (find : Name → Option Target) (first : Nat) (es : List Edit) (hf : first ≤ es.length) :
    (∀ j : Nat, j < first → (es.take first ++ (splitPass find first (es.drop first)).1)[j]? = es[j]?) ∧
    (∀ (j : Nat) (y : Edit), first ≤ j → (es.take first ++ (splitPass find first (es.drop first)).1)[j]? = some y →
      ∃ x, es[j]? = some x ∧ y.name = x.name ∧ y.parent = x.parent ∧
        ((y.update.change = x.update.change ∧ (x.update.deref = true → ∀ s, find x.name ≠ some (.symbolic s))) ∨
         (IsOnly y ∧ ∃ c ∈ (splitPass find first (es.drop first)).2, c.parent = some j ∧
            find x.name = some (.symbolic c.name)))) ∧
    (es.take first ++ (splitPass find first (es.drop first)).1).length = es.length ∧
    (∀ c ∈ (splitPass find first (es.drop first)).2, ∃ (k : Nat) (x y : Edit), first ≤ k ∧ es[k]? = some x ∧
      (es.take first ++ (splitPass find first (es.drop first)).1)[k]? = some y ∧ c.parent = some k ∧ IsOnly y ∧
      y.name = x.name ∧ find x.name = some (.symbolic c.name) ∧ c.update.deref = true ∧
      c.update.change = x.update.change) := by
  have hlen : (es.take first ++ (splitPass find first (es.drop first)).1).length = es.length := by
    simp [splitPass_length]; omega
  have hge : ∀ j : Nat, first ≤ j → (es.take first ++ (splitPass find first (es.drop first)).1)[j]?
      = (splitPass find first (es.drop first)).1[j - first]? := by
    intro j hj
    rw [List.getElem?_append_right (by simp; omega)]
    simp [Nat.min_eq_left hf]
  refine ⟨?_, ?_, hlen, ?_⟩
  · intro j hj
    rw [List.getElem?_append_left (by simp; omega)]
    simp [List.getElem?_take, hj]
  · intro j y hj hy
    rw [hge j hj] at hy
    obtain ⟨x, g1, g2, g3, g4⟩ := splitPass_at find (es.drop first) first (j - first) y hy
    rw [List.getElem?_drop] at g1
    have hj2 : first + (j - first) = j := by omega
    rw [hj2] at g1 g4
    exact ⟨x, g1, g2, g3, g4⟩
  · intro c hc
    obtain ⟨k, x, y, g1, g2, g3, g4⟩ := splitPass_child find (es.drop first) first c hc
    rw [List.getElem?_drop] at g1
    refine ⟨first + k, x, y, by omega, g1, ?_, g3, g4⟩
    rw [hge (first + k) (by omega)]
    have : first + k - first = k := by omega
    rw [this]; exact g2

/-- the processed list of one round -/
theorem round_facts (find : Name → Option Target) (first : Nat) (es : List Edit) (hI : LInv find first es) :
    (∀ (j : Nat) (y : Edit) (i : Nat), (es.take first ++ (splitPass find first (es.drop first)).1)[j]? = some y →
      y.parent = some i → i < first ∧ ∃ pe, (es.take first ++ (splitPass find first (es.drop first)).1)[i]? = some pe ∧
        IsOnly pe ∧ find pe.name = some (.symbolic y.name)) ∧
    (∀ (i : Nat) (pe : Edit), (es.take first ++ (splitPass find first (es.drop first)).1)[i]? = some pe → IsOnly pe →
      (∃ (j : Nat) (y : Edit), (es.take first ++ (splitPass find first (es.drop first)).1)[j]? = some y ∧
        y.parent = some i) ∨ (∃ c ∈ (splitPass find first (es.drop first)).2, c.parent = some i)) ∧
    (∀ (j : Nat) (y : Edit), (es.take first ++ (splitPass find first (es.drop first)).1)[j]? = some y →
      y.parent ≠ none → ∀ s, find y.name = some (.symbolic s) → IsOnly y) := by
  obtain ⟨hlt, hge, hlen, _⟩ := round_view find first es hI.l0
  -- every position of the processed list comes from the same position before
  have hview : ∀ (j : Nat) (y : Edit), (es.take first ++ (splitPass find first (es.drop first)).1)[j]? = some y →
      ∃ x, es[j]? = some x ∧ y.name = x.name ∧ y.parent = x.parent := by
    intro j y hy
    by_cases hj : j < first
    · rw [hlt j hj] at hy; exact ⟨y, hy, rfl, rfl⟩
    · obtain ⟨x, g1, g2, g3, _⟩ := hge j y (by omega) hy
      exact ⟨x, g1, g2, g3⟩
  have hinv : ∀ (j : Nat) (x : Edit), es[j]? = some x →
      ∃ y, (es.take first ++ (splitPass find first (es.drop first)).1)[j]? = some y ∧ y.parent = x.parent := by
    intro j x hx
    have hjl : j < (es.take first ++ (splitPass find first (es.drop first)).1).length := by
      rw [hlen]
      rcases Nat.lt_or_ge j es.length with hh | hh
      · exact hh
      · rw [List.getElem?_eq_none hh] at hx; cases hx
    have hy := List.getElem?_eq_getElem hjl
    obtain ⟨x', g1, _, g3⟩ := hview j _ hy
    rw [hx] at g1; cases g1
    exact ⟨_, hy, g3⟩
  refine ⟨?_, ?_, ?_⟩
  · intro j y i hy hp
    obtain ⟨x, g1, g2, g3⟩ := hview j y hy
    obtain ⟨hi, pe, p1, p2, p3⟩ := hI.l1 j x i g1 (by rw [← g3]; exact hp)
    exact ⟨hi, pe, by rw [hlt i hi]; exact p1, p2, by rw [g2]; exact p3⟩
  · intro i pe hpe ho
    by_cases hi : i < first
    · rw [hlt i hi] at hpe
      obtain ⟨_, j, x, g1, g2⟩ := hI.l2 i pe hpe ho
      obtain ⟨y, h1, h2⟩ := hinv j x g1
      exact Or.inl ⟨j, y, h1, by rw [h2]; exact g2⟩
    · obtain ⟨x, g1, _, _, g4⟩ := hge i pe (by omega) hpe
      rcases g4 with ⟨g4, _⟩ | ⟨_, c, hc, g5, _⟩
      · have hox : IsOnly x := by unfold IsOnly at ho ⊢; rw [← g4]; exact ho
        exact absurd (hI.l2 i x g1 hox).1 hi
      · exact Or.inr ⟨c, hc, g5⟩
  · intro j y hy hp s hs
    by_cases hj : j < first
    · rw [hlt j hj] at hy
      exact hI.l3 j y hj hy hp s hs
    · obtain ⟨x, g1, g2, g3, g4⟩ := hge j y (by omega) hy
      rcases g4 with ⟨_, g5⟩ | ⟨g5, _⟩
      · have hd := hI.l4 j x (by omega) g1 (by rw [← g3]; exact hp)
        exact absurd (by rw [← g2]; exact hs) (g5 hd s)
      · exact g5

/-- the chain facts without the two that are proved elsewhere (well-founded parents, distinct names) -/
structure ChainsCore (find : Name → Option Target) (es : List Edit) : Prop where
  c1 : ∀ (j : Nat) (x : Edit) (i : Nat), es[j]? = some x → x.parent = some i →
        ∃ pe, es[i]? = some pe ∧ pe.update.change.logMode = .only ∧ find pe.name = some (.symbolic x.name)
  c2 : ∀ (i : Nat) (pe : Edit), es[i]? = some pe → pe.update.change.logMode = .only →
        ∃ (j : Nat) (x : Edit), es[j]? = some x ∧ x.parent = some i
  c4 : ∀ x ∈ es, x.parent ≠ none → ∀ r, find x.name = some (.symbolic r) → x.update.change.logMode = .only

theorem round_final (find : Name → Option Target) (first : Nat) (es : List Edit) (hI : LInv find first es)
    (hemp : (splitPass find first (es.drop first)).2 = []) :
    ChainsCore find (es.take first ++ (splitPass find first (es.drop first)).1) := by
  obtain ⟨f1, f2, f3⟩ := round_facts find first es hI
  refine ⟨?_, ?_, ?_⟩
  · intro j x i hx hp
    obtain ⟨_, pe, g1, g2, g3⟩ := f1 j x i hx hp
    exact ⟨pe, g1, g2, g3⟩
  · intro i pe hpe ho
    rcases f2 i pe hpe ho with h | ⟨c, hc, _⟩
    · exact h
    · rw [hemp] at hc; cases hc
  · intro x hx hp r hr
    obtain ⟨j, hj⟩ := List.getElem?_of_mem hx
    exact f3 j x hj hp r hr

theorem round_next (find : Name → Option Target) (first : Nat) (es : List Edit) (hI : LInv find first es) :
    LInv find (es.take first ++ (splitPass find first (es.drop first)).1).length
      ((es.take first ++ (splitPass find first (es.drop first)).1) ++ (splitPass find first (es.drop first)).2) := by
  obtain ⟨f1, f2, f3⟩ := round_facts find first es hI
  obtain ⟨_, _, hlen, hchild⟩ := round_view find first es hI.l0
  have hfl : first ≤ (es.take first ++ (splitPass find first (es.drop first)).1).length := by
    rw [hlen]; exact hI.l0
  have hsome_lt : ∀ {l : List Edit} {j : Nat} {y : Edit}, l[j]? = some y → j < l.length := by
    intro l j y hy
    rcases Nat.lt_or_ge j l.length with hh | hh
    · exact hh
    · rw [List.getElem?_eq_none hh] at hy; cases hy
  refine ⟨by simp, ?_, ?_, ?_, ?_⟩
  · intro j z i hz hp
    by_cases hj : j < (es.take first ++ (splitPass find first (es.drop first)).1).length
    · rw [List.getElem?_append_left hj] at hz
      obtain ⟨hi, pe, g1, g2, g3⟩ := f1 j z i hz hp
      exact ⟨by omega, pe, by rw [List.getElem?_append_left (by omega)]; exact g1, g2, g3⟩
    · rw [List.getElem?_append_right (by omega)] at hz
      obtain ⟨k, x, y, _, _, g3, g4, g5, g6, g7, _⟩ := hchild z (List.mem_of_getElem? hz)
      rw [g4] at hp
      injection hp with hp
      subst hp
      have hk := hsome_lt g3
      exact ⟨hk, y, by rw [List.getElem?_append_left hk]; exact g3, g5, by rw [g6]; exact g7⟩
  · intro i pe hpe ho
    by_cases hi : i < (es.take first ++ (splitPass find first (es.drop first)).1).length
    · refine ⟨hi, ?_⟩
      rw [List.getElem?_append_left hi] at hpe
      rcases f2 i pe hpe ho with ⟨j, y, g1, g2⟩ | ⟨c, hc, g2⟩
      · exact ⟨j, y, by rw [List.getElem?_append_left (hsome_lt g1)]; exact g1, g2⟩
      · obtain ⟨m, hm⟩ := List.getElem?_of_mem hc
        refine ⟨(es.take first ++ (splitPass find first (es.drop first)).1).length + m, c, ?_, g2⟩
        rw [List.getElem?_append_right (by omega)]
        have : (es.take first ++ (splitPass find first (es.drop first)).1).length + m
            - (es.take first ++ (splitPass find first (es.drop first)).1).length = m := by omega
        rw [this]; exact hm
    · rw [List.getElem?_append_right (by omega)] at hpe
      obtain ⟨k, x, y, g1, g2, _, _, _, _, _, _, g9⟩ := hchild pe (List.mem_of_getElem? hpe)
      have hox : IsOnly x := by unfold IsOnly at ho ⊢; rw [← g9]; exact ho
      have := (hI.l2 k x g2 hox).1
      omega
  · intro j y hj hy hp s hs
    rw [List.getElem?_append_left hj] at hy
    exact f3 j y hy hp s hs
  · intro j z hj hz _
    rw [List.getElem?_append_right hj] at hz
    obtain ⟨k, x, y, _, _, _, _, _, _, _, g8, _⟩ := hchild z (List.mem_of_getElem? hz)
    exact g8

theorem splitLoop_chains (find : Name → Option Target) :
    ∀ fuel round first es, LInv find first es →
      ∀ es', splitLoop find fuel round first es = some (.ok es') → ChainsCore find es' := by
  intro fuel
  induction fuel with
  | zero => intro _ _ es _ es' h; simp [splitLoop] at h
  | succ fuel ih =>
    intro round first es hI es' h
    simp only [splitLoop] at h
    split at h
    · rename_i hemp
      injection h with h; injection h with h; subst h
      exact round_final find first es hI (by simpa using hemp)
    · split at h
      · simp at h
      · exact ih _ _ _ (round_next find first es hI) es' h

/-- what `extend_with_splits_of_symbolic_refs` + `assure_one_name_has_one_edit` guarantee -/
theorem preProcess_chains (find : Name → Option Target) (M : RefMap)
    (hfm : ∀ n r, find n = some (.symbolic r) ↔ M n = some (.symbolic r))
    (edits : List RefEdit) (hp : PlainEdits edits)
    (es : List Edit) (h : preProcess find edits = .ok es) : Chains M es := by
  have hw := preProcess_ok_wf find edits es h
  have hn := (preProcess_ok_inv find edits hp es h).2
  have hcore : ChainsCore find es := by
    unfold preProcess at h
    split at h
    · cases h
    · cases h
    · rename_i es0 hx
      split at h
      · cases h
      · injection h with h
        subst h
        apply splitLoop_chains find 5 1 0 _ _ es0 hx
        have hroot : ∀ (j : Nat) (x : Edit), (edits.map fun u => ({ update := u } : Edit))[j]? = some x →
            x.parent = none ∧ ¬ IsOnly x := by
          intro j x hj
          have hm := List.mem_of_getElem? hj
          obtain ⟨u, hu, hue⟩ := List.mem_map.mp hm
          subst hue
          refine ⟨rfl, ?_⟩
          unfold IsOnly
          rw [hp u hu]; intro hh; cases hh
        refine ⟨Nat.zero_le _, ?_, ?_, ?_, ?_⟩
        · intro j x i hj hpar; rw [(hroot j x hj).1] at hpar; cases hpar
        · intro i pe hi ho; exact absurd ho (hroot i pe hi).2
        · intro j x hj; omega
        · intro j x _ hj hpar; exact absurd (hroot j x hj).1 hpar
  refine ⟨hw, hn, ?_, ?_, ?_⟩
  · intro j x i hj hpar
    obtain ⟨pe, g1, g2, g3⟩ := hcore.c1 j x i hj hpar
    exact ⟨pe, g1, g2, (hfm _ _).mp g3⟩
  · exact hcore.c2
  · intro x hx hpar r hr
    exact hcore.c4 x hx hpar r ((hfm _ _).mpr hr)

theorem find_symbolic_iff (S : Store) (n r : Name) :
    lookup S.loose n = some (.symbolic r) ↔ abs S n = some (.symbolic r) := by
  unfold abs Store.find
  cases hl : lookup S.loose n with
  | some t => simp
  | none =>
    simp only []
    cases S.packed with
    | none => simp
    | some b => cases lookup b n <;> simp

/-- THE FULL REFLOG STATEMENT: every transaction that goes through — any edits (not reflog-only by
themselves), dereferencing or not, chains of symbolic refs of any depth the split rounds allow,
deletions, all modes, any names below loose files — leaves exactly the reflogs of
`specLogsUFull`/`logsD`. -/
theorem reflog_full (env : Env) (SX SX' : StoreX) (t : Txn) (hS : StoreOk SX.base) (hL : NoLocks SX.base)
    (hT : PlainTxn t) (h : runX env SX t = .ok SX') (es : List Edit)
    (hp : preProcess (fun n => lookup SX.base.loose n) t.edits = .ok es) :
    SX'.logs = logsD (specLogsUFull (abs SX.base) es SX.logs es) es :=
  reflog_full_of_chains env SX SX' t hS hL hT h es hp
    (preProcess_chains (fun n => lookup SX.base.loose n) (abs SX.base) (find_symbolic_iff SX.base) t.edits hT es hp)

end GixModel.C16Fs
