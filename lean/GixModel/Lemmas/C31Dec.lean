import GixModel.Model.C31
/-
C31 — the ref-update decision of gitoxide against git's `update_local_ref`.
-/
namespace GixModel.C31
open GixModel
open GixModel.Spec.C31

/-- the part of the situations both tools handle: a destination exists in the refspec, the remote
ref has an object (no unborn HEAD), the destination is not a dangling symbolic ref, and the object
arrived (git dies otherwise, gitoxide rejects that one ref) -/
structure InDomain (s : Sit) : Prop where
  hasDst : s.hasDst = true
  remoteBorn : s.remoteUnborn = false
  localBorn : s.localUnborn = false
  newExists : s.newExists = true

/-- no annotated tag OBJECT is moved around outside `refs/tags/`: there gitoxide stores
unconditionally (its fast-forward check only knows commits), git peels the tags and applies the
fast-forward rule to the commits -/
def NoTagObjects (w : World) (s : Sit) : Prop :=
  s.dstIsTag = true ∨ s.localExists = false ∨ (w.kind s.localId ≠ .tag ∧ w.kind s.remoteId ≠ .tag)

theorem agrees_effect (m : Mode) (g : GitOutcome) (h : m.agrees g = true) : m.effect = g.effect := by
  cases m <;> cases g <;> simp [Mode.agrees] at h <;> rfl

theorem decide_agrees (w : World) (hw : w.Lawful) (s : Sit) (hd : InDomain s) (ht : NoTagObjects w s) :
    (gixDecide w s).agrees (gitDecide w s) = true := by
  obtain ⟨hasDst, remoteUnborn, remoteId, newExists, implicitTag, localExists, localId, localUnborn,
    unbornSame, checkedOut, dstIsTag, force⟩ := s
  obtain ⟨h1, h2, h3, h4⟩ := hd
  simp only at h1 h2 h3 h4
  subst h1 h2 h3 h4
  unfold NoTagObjects at ht
  simp only at ht
  cases localExists
  · -- a new ref
    simp [gixDecide, gitDecide, Mode.agrees]
  · cases checkedOut
    · by_cases hsame : localId = remoteId
      · simp [gixDecide, gitDecide, hsame, Mode.agrees]
      · cases dstIsTag
        · -- the fast-forward rule
          have hk : w.kind localId ≠ .tag ∧ w.kind remoteId ≠ .tag := by
            rcases ht with h | h | h
            · cases h
            · cases h
            · exact h
          cases hl : w.kind localId with
          | tag => exact absurd hl hk.1
          | other =>
            have := hw.other localId hl
            cases hr : w.kind remoteId <;>
              simp [gixDecide, gitDecide, hsame, ffCheck, hl, hr, this, Mode.agrees]
          | commit =>
            have hpl := hw.commit localId hl
            cases hr : w.kind remoteId with
            | tag => exact absurd hr hk.2
            | other =>
              have := hw.other remoteId hr
              simp [gixDecide, gitDecide, hsame, ffCheck, hl, hr, this, hpl, Mode.agrees]
            | commit =>
              have hpr := hw.commit remoteId hr
              cases ha : w.anc localId remoteId <;> cases force <;>
                simp [gixDecide, gitDecide, hsame, ffCheck, hl, hr, hpl, hpr, ha, Mode.agrees]
        · cases force <;> simp [gixDecide, gitDecide, hsame, Mode.agrees]
    · by_cases hsame : localId = remoteId
      · simp [gixDecide, gitDecide, hsame, Mode.agrees]
      · simp [gixDecide, gitDecide, hsame, Mode.agrees]

/-- The full statement: on everything both tools handle, the local ref ends up the same. -/
def C31_decision_full : Prop :=
  ∀ (w : World), w.Lawful → ∀ (s : Sit), InDomain s → (gixDecide w s).effect = (gitDecide w s).effect

/-- the witness: `refs/x/t` holds annotated tag 1 (of commit 3), the remote's tag object 2 peels to
commit 4 which does not descend from 3, no `+` in the refspec: git rejects, gitoxide stores -/
def witnessWorld : World :=
  { kind := fun x => if x = 1 ∨ x = 2 then .tag else .commit,
    peel := fun x => if x = 1 then some 3 else if x = 2 then some 4 else some x,
    anc := fun a b => a == b }

def witnessSit : Sit :=
  { hasDst := true, remoteUnborn := false, remoteId := 2, newExists := true, implicitTag := false,
    localExists := true, localId := 1, localUnborn := false, unbornSameTarget := false,
    checkedOut := false, dstIsTag := false, force := false }

theorem witnessWorld_lawful : witnessWorld.Lawful where
  commit := by
    intro x hx
    simp only [witnessWorld] at hx ⊢
    by_cases h1 : x = 1
    · simp [h1] at hx
    · by_cases h2 : x = 2
      · simp [h2] at hx
      · simp [h1, h2]
  other := by
    intro x hx
    simp only [witnessWorld] at hx
    split at hx <;> cases hx
  toCommit := by
    intro x c hx
    simp only [witnessWorld] at hx ⊢
    by_cases h1 : x = 1
    · simp [h1] at hx; subst hx; simp
    · by_cases h2 : x = 2
      · simp [h2] at hx; subst hx; simp
      · simp [h1, h2] at hx; subst hx; simp [h1, h2]

theorem witness_differs :
    gixDecide witnessWorld witnessSit = .forced ∧ gitDecide witnessWorld witnessSit = .rejectNonFF := by
  constructor <;> decide

theorem decision_full_false : ¬ C31_decision_full := by
  intro h
  have := h witnessWorld witnessWorld_lawful witnessSit ⟨rfl, rfl, rfl, rfl⟩
  rw [witness_differs.1, witness_differs.2] at this
  cases this

end GixModel.C31
