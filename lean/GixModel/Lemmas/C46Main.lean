import GixModel.Lemmas.C46Loop
import GixModel.Lemmas.C46Paint
/-
C46 — lemmas, part 5: the model's `rrLoop` keeps `RInv`, terminates within `rrFuel` without a
panic; `removeRedundant_spec`; `mergeBase_spec`.
-/
namespace GixModel.C46
open GixModel GixModel.CG GixModel.Spec.C46

def RState.st (s : RState) : Nat → Bool := fun x => (s.flags x).stale
def RState.rs (s : RState) : Nat → Bool := fun x => (s.flags x).result

def RState.Inv (g : Dag) (nodes ids : List Nat) (sorted : List (Nat × Key)) (s : RState) : Prop :=
  RInv g nodes ids sorted s.st s.rs s.ws s.stack s.count s.pos s.minGen

/-- number of commits not yet STALE -/
def fresh (nodes : List Nat) (st : Nat → Bool) : Nat := (nodes.filter fun x => !st x).length

def mu (nodes : List Nat) (s : RState) : Nat :=
  2 * fresh nodes s.st + s.stack.length + 2 * s.ws.length

theorem fresh_le (nodes : List Nat) (st : Nat → Bool) : fresh nodes st ≤ nodes.length :=
  List.filter_sublist.length_le

theorem fresh_mono (nodes : List Nat) (st st' : Nat → Bool) (h : ∀ x, st x = true → st' x = true) :
    fresh nodes st' ≤ fresh nodes st := by
  apply filter_length_mono
  intro x _ hx
  cases hs : st x with
  | false => rfl
  | true => rw [h x hs] at hx; cases hx

theorem fresh_lt (nodes : List Nat) (st st' : Nat → Bool) (h : ∀ x, st x = true → st' x = true)
    (p : Nat) (hp : p ∈ nodes) (hsp : st p = false) (hsp' : st' p = true) :
    fresh nodes st' + 1 ≤ fresh nodes st := by
  apply filter_length_lt _ _ _ _ p hp
  · simp [hsp]
  · simp [hsp']
  · intro x _ hx
    cases hs : st x with
    | false => rfl
    | true => rw [h x hs] at hx; cases hx

theorem firstFresh_some {fl : FlagMap} {ps : List Nat} {p : Nat} (h : firstFresh fl ps = some p) :
    p ∈ ps ∧ (fl p).stale = false := by
  induction ps with
  | nil => simp [firstFresh] at h
  | cons x xs ih =>
    unfold firstFresh at h
    by_cases hx : (fl x).stale = true
    · rw [if_pos hx] at h
      exact ⟨List.mem_cons_of_mem _ (ih h).1, (ih h).2⟩
    · rw [if_neg hx] at h
      cases h
      exact ⟨List.mem_cons_self, by simpa using hx⟩

theorem firstFresh_none {fl : FlagMap} {ps : List Nat} (h : firstFresh fl ps = none) :
    ∀ p, p ∈ ps → (fl p).stale = true := by
  induction ps with
  | nil => intro p hp; simp at hp
  | cons x xs ih =>
    unfold firstFresh at h
    by_cases hx : (fl x).stale = true
    · rw [if_pos hx] at h
      intro p hp
      cases List.mem_cons.mp hp with
      | inl h' => subst h'; exact hx
      | inr h' => exact ih h p h'
    · rw [if_neg hx] at h; cases h

theorem advance_spec (fl : FlagMap) (sorted : List (Nat × Key)) :
    ∀ (fuel pos : Nat), pos < sorted.length →
      ∃ pos', advance fl sorted fuel pos = some pos' ∧ pos ≤ pos' ∧ pos' < sorted.length ∧
        ∀ i e, pos ≤ i → i < pos' → sorted[i]? = some e → (fl e.1).stale = true := by
  intro fuel
  induction fuel with
  | zero =>
    intro pos hpos
    exact ⟨pos, rfl, Nat.le_refl _, hpos, fun i e h1 h2 => by omega⟩
  | succ fuel ih =>
    intro pos hpos
    unfold advance
    by_cases hlt : pos + 1 < sorted.length
    · rw [if_pos hlt]
      have hget : sorted[pos]? = some sorted[pos] := List.getElem?_eq_getElem hpos
      rw [hget]
      simp only
      by_cases hst : (fl sorted[pos].1).stale = true
      · rw [if_pos hst]
        obtain ⟨pos', h1, h2, h3, h4⟩ := ih (pos + 1) hlt
        refine ⟨pos', h1, by omega, h3, ?_⟩
        intro i e hi hi' hie
        by_cases hip : i = pos
        · subst hip
          rw [hget] at hie
          cases hie
          exact hst
        · exact h4 i e (by omega) hi' hie
      · rw [if_neg hst]
        exact ⟨pos, rfl, Nat.le_refl _, hpos, fun i e h1 h2 => by omega⟩
    · rw [if_neg hlt]
      exact ⟨pos, rfl, Nat.le_refl _, hpos, fun i e h1 h2 => by omega⟩

/-- with fuel `≥ length - pos` the cursor loop really stops for the reason the Rust loop stops -/
theorem advance_stops (fl : FlagMap) (sorted : List (Nat × Key)) :
    ∀ (fuel pos pos' : Nat), sorted.length ≤ fuel + pos → advance fl sorted fuel pos = some pos' →
      ¬ (pos' + 1 < sorted.length ∧ ∃ e, sorted[pos']? = some e ∧ (fl e.1).stale = true) := by
  intro fuel
  induction fuel with
  | zero =>
    intro pos pos' hf h
    simp only [advance, Option.some.injEq] at h
    subst h
    intro ⟨h1, _⟩; omega
  | succ fuel ih =>
    intro pos pos' hf h
    unfold advance at h
    by_cases hlt : pos + 1 < sorted.length
    · rw [if_pos hlt] at h
      have hget : sorted[pos]? = some sorted[pos] := List.getElem?_eq_getElem (by omega)
      rw [hget] at h
      simp only at h
      by_cases hst : (fl sorted[pos].1).stale = true
      · rw [if_pos hst] at h
        exact ih (pos + 1) pos' (by omega) h
      · rw [if_neg hst] at h
        cases h
        intro ⟨_, e, he, hes⟩
        rw [hget] at he
        cases he
        exact hst hes
    · rw [if_neg hlt] at h
      cases h
      intro ⟨h1, _⟩
      exact hlt h1

section
variable {g : Dag} {nodes ids : List Nat} {sorted : List (Nat × Key)}

theorem visitResult_spec (ctx : RCtx g nodes ids sorted) {s : RState} (hinv : s.Inv g nodes ids sorted)
    {c : Nat} (hc : s.st c = true) :
    match visitResult sorted s c with
    | .panic => False
    | .done s1 => s1.Inv g nodes ids sorted ∧ s1.count ≤ 1
    | .continue s1 => s1.Inv g nodes ids sorted ∧ s1.stack = s.stack ∧ s1.ws = s.ws ∧ s1.st = s.st := by
  unfold visitResult
  dsimp only
  by_cases hr : (s.flags c).result = true
  · rw [if_pos hr]
    -- the state after `data.remove(RESULT); count -= 1`
    have hst1 : (fun x => ((s.flags.clearResult c) x).stale) = s.st :=
      funext (fun x => clear_result_stale s.flags c x)
    have hrs1 : ∀ x, ((s.flags.clearResult c) x).result
        = (s.rs x && !decide (x = c)) := fun x => clear_result_result s.flags c x
    obtain ⟨hclear, hpos⟩ := RInv.clear ctx hinv hc hr hrs1
    have hcount : ¬ s.count = 0 := by omega
    rw [if_neg hcount]
    by_cases hle : s.count - 1 ≤ 1
    · rw [if_pos hle]
      refine ⟨?_, hle⟩
      show RInv g nodes ids sorted (fun x => ((s.flags.clearResult c) x).stale)
        (fun x => ((s.flags.clearResult c) x).result) s.ws s.stack (s.count - 1) s.pos s.minGen
      rw [hst1]
      exact hclear
    · rw [if_neg hle]
      have hpl : s.pos < sorted.length := hinv.pos_lt
      have hget : sorted[s.pos]? = some sorted[s.pos] := List.getElem?_eq_getElem hpl
      rw [hget]
      dsimp only
      by_cases hce : c = sorted[s.pos].1
      · rw [if_pos hce]
        obtain ⟨pos', h1, h2, h3, h4⟩ :=
          advance_spec (s.flags.clearResult c) sorted sorted.length s.pos
            hinv.pos_lt
        rw [h1]
        dsimp only
        have hget' : sorted[pos']? = some sorted[pos'] := List.getElem?_eq_getElem h3
        rw [hget']
        dsimp only
        refine ⟨?_, rfl, rfl, ?_⟩
        · show RInv g nodes ids sorted (fun x => ((s.flags.clearResult c) x).stale)
            (fun x => ((s.flags.clearResult c) x).result) s.ws s.stack (s.count - 1) pos' sorted[pos'].2.gen
          rw [hst1]
          apply RInv.move ctx hclear h2 hget'
          intro i e hi hi' hie
          have := h4 i e hi hi' hie
          rw [clear_result_stale] at this
          exact this
        · exact hst1
      · rw [if_neg hce]
        refine ⟨?_, rfl, rfl, hst1⟩
        show RInv g nodes ids sorted (fun x => ((s.flags.clearResult c) x).stale)
          (fun x => ((s.flags.clearResult c) x).result) s.ws s.stack (s.count - 1) s.pos s.minGen
        rw [hst1]
        exact hclear
  · rw [if_neg hr]
    exact ⟨hinv, rfl, rfl, rfl⟩

theorem explore_spec (ctx : RCtx g nodes ids sorted) {s : RState} {c : Nat} {k : Key}
    {below : List (Nat × Key)}
    (hinv : RInv g nodes ids sorted s.st s.rs s.ws ((c, k) :: below) s.count s.pos s.minGen) :
    (explore g s c k below).Inv g nodes ids sorted ∧
      mu nodes (explore g s c k below) + 1 ≤ 2 * fresh nodes s.st + (below.length + 1) + 2 * s.ws.length := by
  unfold explore
  by_cases hcut : k.gen < s.minGen
  · rw [if_pos hcut]
    refine ⟨RInv.pop hinv (Or.inl hcut), ?_⟩
    show 2 * fresh nodes s.st + below.length + 2 * s.ws.length + 1 ≤ _
    omega
  · rw [if_neg hcut]
    cases hff : firstFresh s.flags (g.parents c) with
    | none =>
      dsimp only
      refine ⟨RInv.pop hinv (Or.inr (firstFresh_none hff)), ?_⟩
      show 2 * fresh nodes s.st + below.length + 2 * s.ws.length + 1 ≤ _
      omega
    | some p =>
      dsimp only
      obtain ⟨hp, hps⟩ := firstFresh_some hff
      have hst' : ∀ x, ((s.flags.setStale p) x).stale
          = (s.st x || decide (x = p)) := fun x => set_stale_stale s.flags p x
      have hrs' : (fun x => ((s.flags.setStale p) x).result) = s.rs :=
        funext (fun x => set_stale_result s.flags p x)
      have hpush := RInv.push ctx hinv hp hst'
      have hpn : p ∈ nodes := ctx.closed c (hinv.stack_nodes _ List.mem_cons_self) p hp
      refine ⟨?_, ?_⟩
      · show RInv g nodes ids sorted (fun x => ((s.flags.setStale p) x).stale)
          (fun x => ((s.flags.setStale p) x).result) s.ws ((p, keyOf g p) :: (c, k) :: below) s.count s.pos s.minGen
        rw [hrs']
        exact hpush
      · have := fresh_lt nodes s.st (fun x => ((s.flags.setStale p) x).stale)
          (fun x hx => by rw [hst', hx]; rfl) p hpn hps (by rw [hst']; simp)
        show 2 * fresh nodes (fun x => ((s.flags.setStale p) x).stale) + (below.length + 1 + 1)
          + 2 * s.ws.length + 1 ≤ _
        omega

theorem rrLoop_spec (ctx : RCtx g nodes ids sorted) :
    ∀ (fuel : Nat) (s : RState), s.Inv g nodes ids sorted → mu nodes s < fuel →
      ∃ s', rrLoop g sorted fuel s = .ok s' ∧ RPost g ids s'.st := by
  intro fuel
  induction fuel with
  | zero => intro s _ h; omega
  | succ fuel ih =>
    intro s hinv hmu
    unfold rrLoop
    cases hstack : s.stack with
    | nil =>
      dsimp only
      cases hws : s.ws with
      | nil =>
        dsimp only
        refine ⟨s, rfl, ?_⟩
        have h := hinv
        simp only [RState.Inv] at h
        rw [hstack, hws] at h
        exact RInv.post_of_done ctx h
      | cons e rest =>
        obtain ⟨c, k⟩ := e
        dsimp only
        by_cases hcount : s.count > 1
        · rw [if_pos hcount]
          have h := hinv
          simp only [RState.Inv] at h
          rw [hstack, hws] at h
          have hst' : ∀ x, ((s.flags.setStale c) x).stale
              = (s.st x || decide (x = c)) := fun x => set_stale_stale s.flags c x
          have hrs' : (fun x => ((s.flags.setStale c) x).result) = s.rs :=
            funext (fun x => set_stale_result s.flags c x)
          have hstart := RInv.start ctx h hst'
          apply ih
          · show RInv g nodes ids sorted (fun x => ((s.flags.setStale c) x).stale)
              (fun x => ((s.flags.setStale c) x).result) rest [(c, k)] s.count s.pos s.minGen
            rw [hrs']
            exact hstart
          · have := fresh_mono nodes s.st (fun x => ((s.flags.setStale c) x).stale)
              (fun x hx => by rw [hst', hx]; rfl)
            simp only [mu, hstack, hws, List.length_cons, List.length_nil] at hmu
            show 2 * fresh nodes (fun x => ((s.flags.setStale c) x).stale) + 1 + 2 * rest.length < fuel
            omega
        · rw [if_neg hcount]
          refine ⟨_, rfl, ?_⟩
          exact RInv.post_of_count hinv (by omega)
    | cons e below =>
      obtain ⟨c, k⟩ := e
      dsimp only
      have hcst : s.st c = true := by
        have := hinv.stack_stale (c, k) (by rw [hstack]; exact List.mem_cons_self)
        exact this
      have hv := visitResult_spec ctx hinv hcst
      cases hres : visitResult sorted s c with
      | panic => rw [hres] at hv; exact hv.elim
      | done s1 =>
        rw [hres] at hv
        dsimp only
        exact ⟨s1, rfl, RInv.post_of_count hv.1 hv.2⟩
      | «continue» s1 =>
        rw [hres] at hv
        dsimp only
        obtain ⟨hinv1, hst1, hws1, hstale1⟩ := hv
        have h := hinv1
        simp only [RState.Inv] at h
        rw [hst1, hstack] at h
        obtain ⟨he1, he2⟩ := explore_spec ctx h
        apply ih _ he1
        rw [hstale1, hws1] at he2
        simp only [mu, hstack, List.length_cons] at hmu
        omega

end

/-! ### initial state -/

theorem rrInit_inv {g : Dag} {nodes : List Nat} {commits : List (Nat × Key)}
    (wsOrder : List (Nat × Key) → List (Nat × Key)) (hws : ∀ l, (wsOrder l).Perm l)
    {e0 : Nat × Key} (he0 : (sortByKey commits)[0]? = some e0) :
    (rrInit g wsOrder commits e0.2.gen).Inv g nodes (commits.map (·.1)) (sortByKey commits) := by
  have hm0 : Marked g [] FlagMap.clear [] :=
    ⟨by intro x; simp [FlagMap.clear], by intro x; simp [FlagMap.clear], by intro e he; simp at he,
      by intro e he; simp at he, by intro r hr; simp at hr⟩
  have hm := markResults_spec g commits [] FlagMap.clear [] hm0
  simp only [List.nil_append] at hm
  obtain ⟨u1, u2⟩ := unmark_spec (wsOrder (markResults g commits FlagMap.clear []).2)
    (markResults g commits FlagMap.clear []).1
  have hperm := hws (markResults g commits FlagMap.clear []).2
  have hst : ∀ x, (rrInit g wsOrder commits e0.2.gen).st x = false := by
    intro x
    simp only [rrInit, RState.st]
    rw [u2]
    cases hs : ((markResults g commits FlagMap.clear []).1 x).stale with
    | false => rfl
    | true =>
      obtain ⟨e, he, hex⟩ := (hm.stale_iff x).mp hs
      have : ∃ e, e ∈ wsOrder (markResults g commits FlagMap.clear []).2 ∧ e.1 = x :=
        ⟨e, hperm.symm.subset he, hex⟩
      simp [this]
  have hrs : ∀ x, (rrInit g wsOrder commits e0.2.gen).rs x = true ↔ x ∈ commits.map (·.1) := by
    intro x
    simp only [rrInit, RState.rs]
    rw [u1]
    exact hm.result_iff x
  have hwsmem : ∀ e, e ∈ (rrInit g wsOrder commits e0.2.gen).ws ↔ e ∈ (markResults g commits FlagMap.clear []).2 :=
    fun e => hperm.mem_iff
  refine
    { stale_sound := fun x hx => by rw [hst] at hx; cases hx
      ws_parent := fun e he => hm.ws_parent e ((hwsmem e).mp he)
      ws_key := fun e he => hm.ws_key e ((hwsmem e).mp he)
      stack_stale := fun e he => by simp [rrInit] at he
      stack_key := fun e he => by simp [rrInit] at he
      stack_nodes := fun e he => by simp [rrInit] at he
      closure := fun x hx => by rw [hst] at hx; cases hx
      starts := ?_
      result_ids := fun x hx => (hrs x).mp hx
      count_eq := ?_
      unresult_stale := ?_
      pos_lt := ?_
      minGen_eq := ⟨e0, he0, rfl⟩
      before_pos := fun i e hi => by simp [rrInit] at hi }
  · intro r hr p hp
    obtain ⟨e, he, hep⟩ := hm.parents_in r hr p hp
    exact Or.inr ⟨e, (hwsmem e).mpr he, hep⟩
  · have : (commits.map (·.1)).filter (rrInit g wsOrder commits e0.2.gen).rs = commits.map (·.1) :=
      List.filter_eq_self.mpr (fun a ha => (hrs a).mpr ha)
    rw [this]
    simp [rrInit]
  · intro r hr hf
    rw [(hrs r).mpr hr] at hf
    cases hf
  · exact (List.getElem?_eq_some_iff.mp he0).1

/-- `remove_redundant` on distinct candidates with their keys: no panic, enough fuel; it only
drops a candidate that is a proper ancestor of another candidate; the survivors are pairwise
independent. For every `walk_start` order, arbitrary commit times, monotone generations. -/
theorem removeRedundant_spec {g : Dag} {nodes : List Nat} {n : Nat} (commits : List (Nat × Key))
    (wsOrder : List (Nat × Key) → List (Nat × Key)) (hws : ∀ l, (wsOrder l).Perm l)
    (hac : Acyclic g) (hcl : Closed g nodes) (hgm : GenMono g) (hnd : nodes.Nodup) (hn : nodes.length ≤ n)
    (hids : (commits.map (·.1)).Nodup) (hin : ∀ r, r ∈ commits.map (·.1) → r ∈ nodes)
    (hkeys : ∀ e, e ∈ commits → e.2 = keyOf g e.1) :
    ∃ r, removeRedundant g wsOrder n commits = .ok r ∧
      (∀ x, x ∈ r → x ∈ commits.map (·.1)) ∧
      (∀ x, x ∈ commits.map (·.1) → x ∉ r → ∃ y, y ∈ commits.map (·.1) ∧ Reach g y x ∧ y ≠ x) ∧
      (∀ x y, x ∈ r → y ∈ r → x ≠ y → ¬ Reach g y x) := by
  unfold removeRedundant
  cases hc : commits with
  | nil =>
    refine ⟨[], by simp, ?_, ?_, ?_⟩ <;> simp
  | cons c0 cs =>
    rw [← hc]
    have hne : commits.isEmpty = false := by rw [hc]; rfl
    rw [hne]
    simp only [Bool.false_eq_true, if_false]
    have hperm := sortByKey_perm commits
    have hlen : 0 < (sortByKey commits).length := by
      rw [hperm.length_eq, hc]; simp
    have he0 : (sortByKey commits)[0]? = some (sortByKey commits)[0] := List.getElem?_eq_getElem hlen
    rw [he0]
    dsimp only
    have ctx : RCtx g nodes (commits.map (·.1)) (sortByKey commits) :=
      { acyclic := hac
        closed := hcl
        genmono := hgm
        nodes_nodup := hnd
        ids_nodup := hids
        ids_nodes := hin
        sorted_sorted := sortByKey_sorted commits
        sorted_ids := by
          intro r hr
          obtain ⟨e, he, her⟩ := List.mem_map.mp hr
          exact ⟨e, hperm.symm.subset he, her⟩
        sorted_key := fun e he => hkeys e (hperm.subset he) }
    have hinit := rrInit_inv (g := g) (nodes := nodes) wsOrder hws he0
    have hfuel : mu nodes (rrInit g wsOrder commits (sortByKey commits)[0].2.gen)
        < rrFuel n (rrInit g wsOrder commits (sortByKey commits)[0].2.gen).ws := by
      have := fresh_le nodes (rrInit g wsOrder commits (sortByKey commits)[0].2.gen).st
      simp only [mu, rrFuel]
      have hs : (rrInit g wsOrder commits (sortByKey commits)[0].2.gen).stack = [] := rfl
      rw [hs]
      simp only [List.length_nil]
      omega
    obtain ⟨s', hs', hpost⟩ := rrLoop_spec ctx _ _ hinit hfuel
    rw [hs']
    dsimp only
    refine ⟨_, rfl, ?_, ?_, ?_⟩
    · intro x hx
      obtain ⟨e, he, hex⟩ := List.mem_map.mp hx
      exact List.mem_map.mpr ⟨e, (List.mem_filter.mp he).1, hex⟩
    · intro x hx hxr
      obtain ⟨e, he, hex⟩ := List.mem_map.mp hx
      have hst : s'.st x = true := by
        cases hs : s'.st x with
        | true => rfl
        | false =>
          exfalso
          apply hxr
          apply List.mem_map.mpr
          refine ⟨e, List.mem_filter.mpr ⟨he, ?_⟩, hex⟩
          have : (s'.flags e.1).stale = false := by rw [hex]; exact hs
          simp [this]
      exact hpost.stale_sound x hst
    · intro x y hx hy hxy
      obtain ⟨ex, hex, hexx⟩ := List.mem_map.mp hx
      obtain ⟨ey, hey, heyy⟩ := List.mem_map.mp hy
      have hfx := List.mem_filter.mp hex
      have hfy := List.mem_filter.mp hey
      have hsx : s'.st x = false := by
        have := hfx.2
        simp only [Bool.not_eq_true', hexx] at this
        exact this
      have hsy : s'.st y = false := by
        have := hfy.2
        simp only [Bool.not_eq_true', heyy] at this
        exact this
      exact hpost.independent x y (List.mem_map.mpr ⟨ex, hfx.1, hexx⟩) (List.mem_map.mpr ⟨ey, hfy.1, heyy⟩)
        hsx hsy hxy

/-- every common ancestor lies below a merge base -/
theorem exists_merge_base_above {g : Dag} (hac : Acyclic g) {a : Nat} {bs : List Nat} {y : Nat}
    (hy : Common g a bs y) : ∃ z, IsMergeBase g a bs z ∧ Reach g z y := by
  obtain ⟨rank, hr⟩ := hac
  have key : ∀ m y, Common g a bs y → rank a - rank y ≤ m → ∃ z, IsMergeBase g a bs z ∧ Reach g z y := by
    intro m
    induction m with
    | zero =>
      intro y hy hm
      refine ⟨y, ⟨hy, ?_⟩, Reach.refl y⟩
      intro y' hy' hyy'
      apply Classical.byContradiction
      intro hne
      have h1 := hyy'.rank_lt hr hne
      have h2 := hy'.1.rank_le hr
      omega
    | succ m ih =>
      intro y hy hm
      by_cases hmax : ∀ y', Common g a bs y' → Reach g y' y → y' = y
      · exact ⟨y, ⟨hy, hmax⟩, Reach.refl y⟩
      · have : ∃ y', Common g a bs y' ∧ Reach g y' y ∧ y' ≠ y := by
          apply Classical.byContradiction
          intro hno
          apply hmax
          intro y' h1 h2
          apply Classical.byContradiction
          intro hne
          exact hno ⟨y', h1, h2, hne⟩
        obtain ⟨y', h1, h2, hne⟩ := this
        have h3 := h2.rank_lt hr hne
        have h4 := h1.1.rank_le hr
        obtain ⟨z, hz, hzy'⟩ := ih y' h1 (by omega)
        exact ⟨z, hz, hzy'.trans h2⟩
  exact key _ y hy (Nat.le_refl _)

theorem reach_congr {g₁ g₂ : Dag} (hp : ∀ x, g₁.parents x = g₂.parents x) {x y : Nat}
    (h : Reach g₁ x y) : Reach g₂ x y := by
  induction h with
  | refl => exact Reach.refl _
  | head hpar _ ih => exact Reach.head (hp _ ▸ hpar) ih

/-! ### two concrete histories used as non-vacuity witnesses in `Props.C46` -/

/-- criss-cross: 0 ← 1, 0 ← 2, 3 = merge(1,2), 4 = merge(2,1); all commit times equal -/
def crissCross : Dag where
  parents := fun c => match c with
    | 1 => [0] | 2 => [0] | 3 => [1, 2] | 4 => [2, 1] | _ => []
  time := fun _ => 7
  gen := fun _ => 4294967295

/-- skewed commit times: 1 is newer than everything below the tips although it is an ancestor of
4 (through the SECOND parent of 3); both are painted as candidates, only 4 is a merge base.
This is the input on which the unrepaired `remove_redundant` returned `[1, 4]`. -/
def skewed : Dag where
  parents := fun c => match c with
    | 1 => [0] | 2 => [0] | 3 => [2, 1] | 4 => [3] | 5 => [4, 1] | 6 => [4, 1] | _ => []
  time := fun c => match c with
    | 1 => 100 | 2 => 3 | 3 => 4 | 4 => 5 | 5 => 200 | 6 => 200 | _ => 0
  gen := fun _ => 4294967295

end GixModel.C46
