import GixModel.Lemmas.C39Pipeline
/-
C39 (round 2) — path parts that need normalisation: without `top`, gitoxide's `normalize` and git's
`prefix_path_gently`/`normalize_path_copy` drop empty and `.` components, resolve `..`, refuse to leave
the worktree and treat a trailing slash alike, for EVERY path part except the lone `/`; with `top` git
takes the path part verbatim, so the two agree exactly on the clean ones.
-/
namespace GixModel.Lemmas.C39
open GixModel GixModel.C38 GixModel.C39 GixModel.Spec.C39

/-- the path parts on which both sides build the same match string: with `top` git does not normalise
(gitoxide does), so the part has to be clean; without `top` everything but the lone `/` (git: outside
the repository, gitoxide: matches everything) -/
def PathPartOk (top : Bool) (path : Bytes) : Prop := if top then cleanPath path = true else path ≠ [47]

instance (top : Bool) (path : Bytes) : Decidable (PathPartOk top path) := by unfold PathPartOk; infer_instance

theorem normalize_eq (s : PSpec) :
    normalize s = if s.path.head? == some 47 then none else
      (resolveDots [] (components s.path)).map fun cs =>
        if cs.isEmpty && !(components s.path).isEmpty then { s with path := [46], nil := true }
        else { s with path := joinSlash cs } := by
  unfold normalize
  simp only
  split
  · rfl
  · generalize resolveDots [] (components s.path) = r
    cases r with
    | none => rfl
    | some cs =>
      simp only [Option.map_some]
      split <;> rfl

theorem normalizeGit_eq (p : Bytes) :
    normalizeGit p = if p.head? == some 47 then none else
      (resolveDots [] (components p)).map fun cs =>
        if p.getLast? == some 47 && !(joinSlash cs).isEmpty then joinSlash cs ++ [47] else joinSlash cs := by
  unfold normalizeGit
  split
  · rfl
  · generalize resolveDots [] (components p) = r
    cases r <;> rfl

theorem head?_strip (path : Bytes) (hne : path ≠ [47]) :
    ((stripSlash path).head? == some 47) = (path.head? == some 47) := by
  by_cases hl : path.getLast? = some 47
  · obtain ⟨h1, h2⟩ := stripSlash_of_slash path hl
    rw [h1]
    cases hd : path.dropLast with
    | nil => rw [hd] at h2; simp at h2; exact absurd h2 hne
    | cons a r => rw [h2, hd]; rfl
  · rw [stripSlash_of_not path hl]

theorem finishSpec_eq (p : PSpec) (path : Bytes) :
    finishSpec p path = { p with mustBeDir := (path.getLast? == some 47) || p.mustBeDir, path := stripSlash path } := by
  unfold finishSpec stripSlash
  by_cases hl : (path.getLast? == some 47) = true
  · simp [hl]
  · simp [hl]

/-- without `top`: both sides normalise the path part in the same way -/
theorem finish_notop (p : PSpec) (hp : Bare p) (htop : p.top = false) (path : Bytes) (hne : path ≠ [47]) :
    finishItem (itemOf p) path = (normalize (finishSpec p path)).map itemOf := by
  obtain ⟨hp1, hp2, hp3⟩ := hp
  unfold finishItem
  have hnb := itemOf_not_both p
  have hit : (itemOf p).top = false := htop
  simp only [hnb, hit, Bool.false_eq_true, if_false]
  rw [normalizeGit_eq, normalize_eq, finishSpec_eq]
  simp only [hp3, Bool.or_false]
  rw [head?_strip path hne, ← components_strip path]
  by_cases hh : (path.head? == some 47) = true
  · simp [hh]
  · simp only [hh, Bool.false_eq_true, if_false]
    cases resolveDots [] (components path) with
    | none => rfl
    | some cs =>
      simp only [Option.map_some, Option.some.injEq]
      -- the match string
      by_cases hcs : cs.isEmpty = true
      · have : cs = [] := by simpa using hcs
        subst this
        by_cases hco : (components path).isEmpty = true
        · simp [hco, itemOf, hp2, joinSlash, htop]
        · simp [hco, itemOf, joinSlash, htop]
      · simp only [hcs, Bool.false_and, Bool.false_eq_true, if_false]
        unfold itemOf
        simp only [hp2, Bool.false_or]
        by_cases hb : (joinSlash cs).isEmpty = true
        · have : joinSlash cs = [] := by simpa using hb
          simp [this, htop]
        · simp only [hb, Bool.false_eq_true, if_false, Bool.not_false, Bool.and_true]
          by_cases hl : (path.getLast? == some 47) = true
          · simp [hl, htop]
          · simp [hl, htop]

/-- both sides finish every acceptable path part alike -/
theorem finish_general (p : PSpec) (hp : Bare p) (path : Bytes) (h : PathPartOk p.top path) :
    finishItem (itemOf p) path = (normalize (finishSpec p path)).map itemOf := by
  unfold PathPartOk at h
  by_cases ht : p.top = true
  · simp only [ht, if_true] at h
    exact finish_both p hp path h
  · have ht' : p.top = false := by simpa using ht
    simp only [ht', Bool.false_eq_true, if_false] at h
    exact finish_notop p hp ht' path h

/-! ### the three shapes again, with any acceptable path part -/

theorem parse_plain2 (elem : Bytes) (hne : elem ≠ []) (hh : elem.head? ≠ some 58) (hc : elem ≠ [47]) :
    initItem elem = ((parseSpec elem).bind normalize).map itemOf := by
  have hcolon : elem ≠ [58] := by intro h; rw [h] at hh; simp at hh
  have hm : parseMagic elem = some (PSpec.default, elem) := by
    unfold parseMagic
    cases elem with
    | nil => rfl
    | cons a q =>
      have : ¬ a = 58 := by intro h; apply hh; simp [h]
      split
      · rename_i heq; injection heq with h _; exact absurd h this
      · rfl
  have hg : parseElementMagic elem = some (Item.empty, elem) := by
    unfold parseElementMagic
    cases elem with
    | nil => rfl
    | cons a q =>
      have : ¬ a = 58 := by intro h; apply hh; simp [h]
      split
      · rename_i heq; injection heq with h _; exact absurd h this
      · rename_i heq; injection heq with h _; exact absurd h this
      · rfl
  rw [initItem_eq elem hne, parseSpec_eq elem hne hcolon, hm, hg]
  simp only [Option.bind_some, Option.map_some]
  exact finish_general PSpec.default ⟨rfl, rfl, rfl⟩ elem (by unfold PathPartOk; simpa [PSpec.default] using hc)

theorem parse_short2 (rest : Bytes) (hne : rest ≠ []) (hp : rest.head? ≠ some 40)
    (hdom : ∀ t e r, parseShort rest false false = some (t, e, r) → r.head? ≠ some 40 ∧ PathPartOk t r) :
    initItem (58 :: rest) = ((parseSpec (58 :: rest)).bind normalize).map itemOf := by
  have hcolon : (58 :: rest) ≠ [58] := by intro h; injection h with _ h; exact hne h
  have hg : parseElementMagic (58 :: rest) = shortLoop Item.empty rest := by
    unfold parseElementMagic
    cases rest with
    | nil => exact absurd rfl hne
    | cons a q =>
      have : ¬ a = 40 := by intro h; apply hp; simp [h]
      split
      · rename_i heq; injection heq with _ h; injection h with h _; exact absurd h this
      · rename_i heq; injection heq with _ h; rw [h]
      · rename_i h1 h2; exact absurd rfl (h2 _)
  rw [initItem_eq _ (by simp), parseSpec_eq _ (by simp) hcolon, hg, shortLoop_eq]
  unfold parseMagic
  simp only [show Item.empty.top = false from rfl, show Item.empty.exclude = false from rfl]
  cases hps : parseShort rest false false with
  | none => rfl
  | some r =>
    obtain ⟨t, e, r'⟩ := r
    obtain ⟨h40, hc⟩ := hdom t e r' hps
    simp only [Option.map_some, Option.bind_some]
    rw [afterShort_not40 _ r' h40]
    simp only [Option.map_some, Option.bind_some]
    have hit : ({ Item.empty with top := t, exclude := e } : Item) = itemOf { PSpec.default with top := t, exclude := e } := rfl
    rw [hit]
    exact finish_general { PSpec.default with top := t, exclude := e } ⟨rfl, rfl, rfl⟩ r' hc

theorem parse_long_flags2 (ws : List Bytes) (hne : ws ≠ []) (hws : ∀ w ∈ ws, w ∈ flagWords) (path : Bytes)
    (hc : ∀ p, gixFold (some PSpec.default) ws = some p → PathPartOk p.top path) :
    initItem (58 :: 40 :: (joinComma ws ++ 41 :: path))
      = ((parseSpec (58 :: 40 :: (joinComma ws ++ 41 :: path))).bind normalize).map itemOf := by
  have hw : ∀ w ∈ ws, wordOk w := fun w h => flagWords_ok w (hws w h)
  have hcolon : (58 :: 40 :: (joinComma ws ++ 41 :: path)) ≠ [58] := by simp
  rw [initItem_eq _ (by simp), parseSpec_eq _ (by simp) hcolon]
  have hg : parseElementMagic (58 :: 40 :: (joinComma ws ++ 41 :: path))
      = (gitFold Item.empty ws).map fun it' => (it', path) := by
    unfold parseElementMagic
    simp only
    apply longLoop_join path ws hne hw
    have := length_le_joinComma ws
    simp only [List.length_append, List.length_cons]
    omega
  have hx : parseMagic (58 :: 40 :: (joinComma ws ++ 41 :: path))
      = (gixFold (some PSpec.default) ws).map fun p' => (p', path) := by
    unfold parseMagic
    have hs : parseShort (40 :: (joinComma ws ++ 41 :: path)) false false
        = some (false, false, 40 :: (joinComma ws ++ 41 :: path)) := by
      rw [parseShort.eq_def]
      have : ¬ (40 : UInt8) ∈ unimplementedChars := by decide
      simp [this]
    simp only [hs, afterShort]
    exact parseLong_join _ ws hne hw path
  rw [hg, hx]
  obtain ⟨it', hgf, hrel⟩ := rel_fold ws hws (some PSpec.default) Item.empty ⟨⟨rfl, rfl, rfl⟩, rfl, rfl⟩
  rw [hgf]
  simp only [Option.map_some, Option.bind_some]
  cases hgx : gixFold (some PSpec.default) ws with
  | none =>
    rw [hgx] at hrel
    simp only [Rel] at hrel
    simp [finishItem, hrel]
  | some p =>
    rw [hgx] at hrel
    obtain ⟨hb, _, hit⟩ := hrel
    subst hit
    simp only [Option.map_some, Option.bind_some]
    exact finish_general p hb path (hc p hgx)

end GixModel.Lemmas.C39
