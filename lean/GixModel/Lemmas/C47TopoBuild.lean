import GixModel.Lemmas.C47TopoLoop
/-
C47 — lemmas, part 9: `Builder::build()`. Registering tips and ends (`RegInv`), marking the parents
of the ends, the first in-degree computation, queueing the tips, the initial sort; and
`topoWalk_spec`, the summary of the whole iteration.
-/
namespace GixModel.C47
open GixModel GixModel.CG GixModel.Spec.C47
open GixModel.C46 (filter_length_mono filter_length_lt filter_length_flip)

section
variable {E : TopoEnv} {nodes tips ends : List Nat}

/-! ### registering tips and ends -/

theorem set_new_proj (m : StateMap) (c : Nat) (fl : WalkFlags) :
    (∀ x, (m.set c fl).has x = (m.has x || decide (x = c))) ∧
    (∀ x, (m.set c fl).fExplored x = if x = c then fl.explored else m.fExplored x) ∧
    (∀ x, (m.set c fl).fInDeg x = if x = c then fl.inDegree else m.fInDeg x) ∧
    (∀ x, (m.set c fl).fAdded x = if x = c then fl.added else m.fAdded x) ∧
    (∀ x, (m.set c fl).fU x = if x = c then fl.uninteresting else m.fU x) := by
  refine ⟨?_, ?_, ?_, ?_, ?_⟩ <;> intro x <;> by_cases hx : x = c <;>
    simp [StateMap.has, StateMap.fExplored, StateMap.fInDeg, StateMap.fU, StateMap.fAdded,
      StateMap.get_set, hx]

structure RegInv (E : TopoEnv) (nodes : List Nat) (s : TS E) (reg uset : List Nat) : Prop where
  reg_nodup : reg.Nodup
  reg_nodes : ∀ x, x ∈ reg → x ∈ nodes
  has_iff : ∀ x, s.states.has x = true ↔ x ∈ reg
  fl_expl : ∀ x, x ∈ reg → s.states.fExplored x = true
  fl_indeg : ∀ x, x ∈ reg → s.states.fInDeg x = true
  fl_added : ∀ x, s.states.fAdded x = false
  fU_iff : ∀ x, s.states.fU x = true ↔ x ∈ uset
  deg : ∀ x, s.indeg.get x = if x ∈ reg then some 1 else none
  eq_ids : ((E.qg.items s.explore).map (·.2)).Perm reg
  eq_key : ∀ e, e ∈ E.qg.items s.explore → e.1 = genTime E.g e.2
  iq_ids : ((E.qg.items s.indegQ).map (·.2)).Perm reg
  iq_key : ∀ e, e ∈ E.qg.items s.indegQ → e.1 = genTime E.g e.2
  mingen : ∀ x, x ∈ reg → s.minGen ≤ E.g.gen x
  date_empty : E.qd.items s.dateQ = []
  stack_empty : s.stack = []

theorem fProj_of_get {m : StateMap} {c : Nat} {st : WalkFlags} (h : m.get c = some st) :
    m.has c = true ∧ m.fExplored c = st.explored ∧ m.fInDeg c = st.inDegree ∧ m.fAdded c = st.added ∧
    m.fU c = st.uninteresting := by
  simp [StateMap.has, StateMap.fExplored, StateMap.fInDeg, StateMap.fAdded, StateMap.fU, h]

theorem registerAll_spec (ctx : TCtx E nodes tips ends) :
    ∀ (l : List (Nat × WalkFlags)) (s : TS E) (reg uset : List Nat), RegInv E nodes s reg uset →
      (∀ e, e ∈ l → e.1 ∈ nodes ∧ (e.2 = tipFlags ∨ e.2 = endFlags)) →
      ∃ reg' uset', RegInv E nodes (registerAll E l s) reg' uset' ∧
        (∀ x, x ∈ reg' ↔ x ∈ reg ∨ x ∈ l.map (·.1)) ∧
        (∀ x, x ∈ uset' ↔ x ∈ uset ∨ (x, endFlags) ∈ l) := by
  intro l
  induction l with
  | nil =>
    intro s reg uset h _
    exact ⟨reg, uset, h, by simp, by simp⟩
  | cons e rest ih =>
    intro s reg uset h hl
    obtain ⟨c, fl⟩ := e
    obtain ⟨hcn, hfl⟩ := hl (c, fl) List.mem_cons_self
    have hl' : ∀ e, e ∈ rest → e.1 ∈ nodes ∧ (e.2 = tipFlags ∨ e.2 = endFlags) :=
      fun e he => hl e (List.mem_cons_of_mem _ he)
    have hflags : fl.explored = true ∧ fl.inDegree = true ∧ fl.added = false ∧
        (fl.uninteresting = true ↔ fl = endFlags) := by
      cases hfl with
      | inl h' => subst h'; simp [tipFlags, endFlags]
      | inr h' => subst h'; simp [endFlags]
    unfold registerAll
    cases hget : s.states.get c with
    | some st =>
      dsimp only
      obtain ⟨g1, g2, g3, g4, g5⟩ := fProj_of_get hget
      have hcreg : c ∈ reg := (h.has_iff c).mp g1
      obtain ⟨s1, s2, s3, s4, s5⟩ := set_new_proj s.states c (st.or fl)
      have hinv : RegInv E nodes { s with states := s.states.set c (st.or fl) } reg
          (if fl.uninteresting then c :: uset else uset) :=
        { reg_nodup := h.reg_nodup
          reg_nodes := h.reg_nodes
          has_iff := by
            intro x
            show (s.states.set c (st.or fl)).has x = true ↔ _
            rw [s1, ← h.has_iff]
            by_cases hx : x = c
            · subst hx; simp [g1]
            · simp [hx]
          fl_expl := by
            intro x hx
            show (s.states.set c (st.or fl)).fExplored x = true
            rw [s2]
            by_cases hxc : x = c
            · simp [hxc, WalkFlags.or, hflags.1]
            · simp [hxc, h.fl_expl x hx]
          fl_indeg := by
            intro x hx
            show (s.states.set c (st.or fl)).fInDeg x = true
            rw [s3]
            by_cases hxc : x = c
            · simp [hxc, WalkFlags.or, hflags.2.1]
            · simp [hxc, h.fl_indeg x hx]
          fl_added := by
            intro x
            show (s.states.set c (st.or fl)).fAdded x = false
            rw [s4]
            by_cases hxc : x = c
            · have := h.fl_added c
              rw [g4] at this
              simp [hxc, WalkFlags.or, hflags.2.2.1, this]
            · simp [hxc, h.fl_added x]
          fU_iff := by
            intro x
            show (s.states.set c (st.or fl)).fU x = true ↔ _
            rw [s5]
            by_cases hxc : x = c
            · subst hxc
              have := h.fU_iff x
              rw [g5] at this
              cases hu : fl.uninteresting <;> simp [WalkFlags.or, hu, this]
            · have := h.fU_iff x
              cases hu : fl.uninteresting <;> simp [hxc, this]
          deg := h.deg
          eq_ids := h.eq_ids, eq_key := h.eq_key, iq_ids := h.iq_ids, iq_key := h.iq_key
          mingen := h.mingen, date_empty := h.date_empty, stack_empty := h.stack_empty }
      obtain ⟨reg', uset', hr, hreg, hus⟩ := ih _ reg _ hinv hl'
      refine ⟨reg', uset', hr, ?_, ?_⟩
      · intro x
        rw [hreg]
        simp only [List.map_cons, List.mem_cons]
        constructor
        · intro hx
          cases hx with
          | inl h' => exact Or.inl h'
          | inr h' => exact Or.inr (Or.inr h')
        · intro hx
          rcases hx with h' | h' | h'
          · exact Or.inl h'
          · subst h'; exact Or.inl hcreg
          · exact Or.inr h'
      · intro x
        rw [hus]
        simp only [List.mem_cons, Prod.mk.injEq]
        cases hu : fl.uninteresting with
        | true =>
          have hfe : fl = endFlags := hflags.2.2.2.mp hu
          simp only [if_true, List.mem_cons]
          constructor
          · intro hx
            rcases hx with (h' | h') | h'
            · exact Or.inr (Or.inl ⟨h', hfe.symm⟩)
            · exact Or.inl h'
            · exact Or.inr (Or.inr h')
          · intro hx
            rcases hx with h' | ⟨h', _⟩ | h'
            · exact Or.inl (Or.inr h')
            · exact Or.inl (Or.inl h')
            · exact Or.inr h'
        | false =>
          have hfe : fl ≠ endFlags := fun hfe => by
            have := hflags.2.2.2.mpr hfe
            rw [hu] at this; cases this
          simp only [Bool.false_eq_true, if_false]
          constructor
          · intro hx
            cases hx with
            | inl h' => exact Or.inl h'
            | inr h' => exact Or.inr (Or.inr h')
          · intro hx
            rcases hx with h' | ⟨_, h'⟩ | h'
            · exact Or.inl h'
            · exact absurd h'.symm hfe
            · exact Or.inr h'
    | none =>
      dsimp only
      have hcnot : c ∉ reg := by
        intro hmem
        have := (h.has_iff c).mpr hmem
        simp [StateMap.has, hget] at this
      obtain ⟨s1, s2, s3, s4, s5⟩ := set_new_proj s.states c fl
      have hinsE := ctx.qg_lawful.items_insert (genTime E.g c) c s.explore
      have hinsI := ctx.qg_lawful.items_insert (genTime E.g c) c s.indegQ
      have hinv : RegInv E nodes
          { s with states := s.states.set c fl, indeg := s.indeg.set c 1,
                   minGen := if (genTime E.g c).1 < s.minGen then (genTime E.g c).1 else s.minGen,
                   explore := E.qg.insert (genTime E.g c) c s.explore,
                   indegQ := E.qg.insert (genTime E.g c) c s.indegQ }
          (reg ++ [c]) (if fl.uninteresting then c :: uset else uset) :=
        { reg_nodup := by
            rw [List.nodup_append]
            refine ⟨h.reg_nodup, by simp, ?_⟩
            intro x hx y hy hxy
            simp only [List.mem_singleton] at hy
            subst hy; subst hxy
            exact hcnot hx
          reg_nodes := by
            intro x hx
            cases List.mem_append.mp hx with
            | inl h' => exact h.reg_nodes x h'
            | inr h' => simp only [List.mem_singleton] at h'; subst h'; exact hcn
          has_iff := by
            intro x
            show (s.states.set c fl).has x = true ↔ _
            rw [s1]
            simp only [Bool.or_eq_true, decide_eq_true_eq, List.mem_append, List.mem_singleton]
            rw [h.has_iff]
          fl_expl := by
            intro x hx
            show (s.states.set c fl).fExplored x = true
            rw [s2]
            by_cases hxc : x = c
            · simp [hxc, hflags.1]
            · simp only [hxc, if_false]
              cases List.mem_append.mp hx with
              | inl h' => exact h.fl_expl x h'
              | inr h' => exact absurd (by simpa using h') hxc
          fl_indeg := by
            intro x hx
            show (s.states.set c fl).fInDeg x = true
            rw [s3]
            by_cases hxc : x = c
            · simp [hxc, hflags.2.1]
            · simp only [hxc, if_false]
              cases List.mem_append.mp hx with
              | inl h' => exact h.fl_indeg x h'
              | inr h' => exact absurd (by simpa using h') hxc
          fl_added := by
            intro x
            show (s.states.set c fl).fAdded x = false
            rw [s4]
            by_cases hxc : x = c
            · simp [hxc, hflags.2.2.1]
            · simp [hxc, h.fl_added x]
          fU_iff := by
            intro x
            show (s.states.set c fl).fU x = true ↔ _
            rw [s5]
            have hcu : s.states.fU c = false := by simp [StateMap.fU, hget]
            by_cases hxc : x = c
            · subst hxc
              have := h.fU_iff x
              rw [hcu] at this
              cases hu : fl.uninteresting
              · simp only [if_true, Bool.false_eq_true, if_false, false_iff]
                exact fun hm => by have := this.mpr hm; cases this
              · simp
            · have := h.fU_iff x
              cases hu : fl.uninteresting <;> simp [hxc, this]
          deg := by
            intro x
            show (s.indeg.set c 1).get x = _
            rw [DegMap.get_set, h.deg]
            by_cases hxc : x = c
            · simp [hxc]
            · simp [hxc]
          eq_ids := by
            show ((E.qg.items (E.qg.insert (genTime E.g c) c s.explore)).map (·.2)).Perm _
            have := hinsE.map (·.2)
            simp only [List.map_cons] at this
            exact this.trans ((List.Perm.cons c h.eq_ids).trans (List.perm_append_singleton c reg).symm)
          eq_key := by
            intro e he
            cases List.mem_cons.mp (hinsE.subset he) with
            | inl h' => subst h'; rfl
            | inr h' => exact h.eq_key e h'
          iq_ids := by
            show ((E.qg.items (E.qg.insert (genTime E.g c) c s.indegQ)).map (·.2)).Perm _
            have := hinsI.map (·.2)
            simp only [List.map_cons] at this
            exact this.trans ((List.Perm.cons c h.iq_ids).trans (List.perm_append_singleton c reg).symm)
          iq_key := by
            intro e he
            cases List.mem_cons.mp (hinsI.subset he) with
            | inl h' => subst h'; rfl
            | inr h' => exact h.iq_key e h'
          mingen := by
            intro x hx
            show (if (genTime E.g c).1 < s.minGen then (genTime E.g c).1 else s.minGen) ≤ E.g.gen x
            cases List.mem_append.mp hx with
            | inl h' =>
              have := h.mingen x h'
              split <;> omega
            | inr h' =>
              simp only [List.mem_singleton] at h'
              subst h'
              have hgt : (genTime E.g x).1 = E.g.gen x := rfl
              by_cases hlt : (genTime E.g x).1 < s.minGen
              · rw [if_pos hlt]; omega
              · rw [if_neg hlt]; omega
          date_empty := h.date_empty
          stack_empty := h.stack_empty }
      obtain ⟨reg', uset', hr, hreg, hus⟩ := ih _ _ _ hinv hl'
      refine ⟨reg', uset', hr, ?_, ?_⟩
      · intro x
        rw [hreg]
        simp only [List.map_cons, List.mem_cons, List.mem_append, List.not_mem_nil, or_false]
        constructor
        · intro hx
          rcases hx with (h' | h') | h'
          · exact Or.inl h'
          · exact Or.inr (Or.inl h')
          · exact Or.inr (Or.inr h')
        · intro hx
          rcases hx with h' | h' | h'
          · exact Or.inl (Or.inl h')
          · exact Or.inl (Or.inr h')
          · exact Or.inr h'
      · intro x
        rw [hus]
        simp only [List.mem_cons, Prod.mk.injEq]
        cases hu : fl.uninteresting with
        | true =>
          have hfe : fl = endFlags := hflags.2.2.2.mp hu
          simp only [if_true, List.mem_cons]
          constructor
          · intro hx
            rcases hx with (h' | h') | h'
            · exact Or.inr (Or.inl ⟨h', hfe.symm⟩)
            · exact Or.inl h'
            · exact Or.inr (Or.inr h')
          · intro hx
            rcases hx with h' | ⟨h', _⟩ | h'
            · exact Or.inl (Or.inr h')
            · exact Or.inl (Or.inl h')
            · exact Or.inr h'
        | false =>
          have hfe : fl ≠ endFlags := fun hfe => by
            have := hflags.2.2.2.mpr hfe
            rw [hu] at this; cases this
          simp only [Bool.false_eq_true, if_false]
          constructor
          · intro hx
            cases hx with
            | inl h' => exact Or.inl h'
            | inr h' => exact Or.inr (Or.inr h')
          · intro hx
            rcases hx with h' | ⟨_, h'⟩ | h'
            · exact Or.inl h'
            · exact absurd h'.symm hfe
            · exact Or.inr h'

end

end GixModel.C47
