import GixModel.Lemmas.C56Stored
/-
`DecompressorOk Stored.decompressor IsStoredNE`: the stored-block inflater the Lean drivers run satisfies the
decompressor contract. The state of the machine at any cut of a valid stream is described by a `Desc`
(what is still to come of the stream and of the content); `run_spec` says what one call does from there.
-/
namespace GixModel.C56.Stored
open GixModel GixModel.C56

/-! ## single steps of `run` -/

theorem run_zlib_h0 (f : Nat) (ad : Nat × Nat) (fr : Bool) (rest : Bytes) (room c : Nat) (acc : Bytes) :
    run (f + 1) { phase := .hdr0, ad := ad, fresh := fr } (0x78 :: rest) room c acc =
    run f { phase := .hdr1 0x78, ad := ad, fresh := fr } rest room (c + 1) acc := by
  have h1 : (((0x78 : UInt8) &&& 0x0f = 8) && ((0x78 : UInt8) >>> 4 ≤ 7)) = true := by decide
  rw [run]; dsimp only; rw [if_pos h1]

theorem run_zlib_h1 (f : Nat) (ad : Nat × Nat) (fr : Bool) (rest : Bytes) (room c : Nat) (acc : Bytes) :
    run (f + 1) { phase := .hdr1 0x78, ad := ad, fresh := fr } (0x01 :: rest) room c acc =
    run f { phase := .blockHdr [], ad := ad, fresh := fr } rest room (c + 1) acc := by
  have h2 : ((((0x78 : UInt8).toNat * 256 + (0x01 : UInt8).toNat) % 31 = 0) && ((0x01 : UInt8) &&& 0x20 = 0)) = true := by decide
  rw [run]; dsimp only; rw [if_pos h2]

theorem run_data_step (f : Nat) (rem : Nat) (fin : Bool) (ad : Nat × Nat) (fr : Bool) (hrem : rem ≠ 0)
    (inp : Bytes) (room c : Nat) (acc : Bytes) :
    run (f + 1) { phase := .data rem fin, ad := ad, fresh := fr } inp room c acc =
    (if min rem (min inp.length room) = 0 then some ({ phase := .data rem fin, ad := ad, fresh := fr }, c, acc)
     else run f { phase := .data (rem - min rem (min inp.length room)) fin, ad := adler ad (inp.take (min rem (min inp.length room))) }
       (inp.drop (min rem (min inp.length room))) (room - min rem (min inp.length room))
       (c + min rem (min inp.length room)) (acc ++ inp.take (min rem (min inp.length room)))) := by
  simp [run, hrem]

theorem run_data_zero (f : Nat) (ad : Nat × Nat) (fr : Bool) (inp : Bytes) (room c : Nat) (acc : Bytes) :
    run (f + 1) { phase := .data 0 false, ad := ad, fresh := fr } inp room c acc =
    run f { phase := .blockHdr [], ad := ad, fresh := fr } inp room c acc := by
  simp [run]

/-- the block header of a non-final block, byte by byte: `j` bytes are collected, the next one arrives -/
theorem run_bh_step (f : Nat) (ad : Nat × Nat) (fr : Bool) (n : Nat) (h1 : 1 ≤ n) (h2 : n ≤ 65535) (j : Nat) (hj : j < 5)
    (rest : Bytes) (room c : Nat) (acc : Bytes) :
    run (f + 1) { phase := .blockHdr ((blockHeader false n).take j), ad := ad, fresh := fr }
      ((blockHeader false n).getD j 0 :: rest) room c acc =
    run f { phase := if j = 4 then .data n false else .blockHdr ((blockHeader false n).take (j + 1)), ad := ad, fresh := fr }
      rest room (c + 1) acc := by
  have e1 : (UInt8.ofNat n).toNat = n % 256 := by simp [UInt8.toNat_ofNat']
  have e2 : (UInt8.ofNat (n / 256)).toNat = n / 256 := by simp [UInt8.toNat_ofNat']; omega
  have e3 : (UInt8.ofNat (255 - n % 256)).toNat = 255 - n % 256 := by simp [UInt8.toNat_ofNat']; omega
  have e4 : (UInt8.ofNat (255 - n / 256)).toNat = 255 - n / 256 := by simp [UInt8.toNat_ofNat']; omega
  have hn : n % 256 + 256 * (n / 256) = n := by omega
  have hsum' : n + (255 - n % 256 + 256 * (255 - n / 256)) = 65535 := by omega
  have hj' : j = 0 ∨ j = 1 ∨ j = 2 ∨ j = 3 ∨ j = 4 := by omega
  rcases hj' with h | h | h | h | h <;> subst h <;>
    simp [blockHeader, run, e1, e2, e3, e4, hn, hsum']

/-- the same for the final (empty) block, whose fifth byte also steps over the empty data to the trailer -/
theorem run_bf_step (f : Nat) (ad : Nat × Nat) (fr : Bool) (j : Nat) (hj : j < 4)
    (rest : Bytes) (room c : Nat) (acc : Bytes) :
    run (f + 1) { phase := .blockHdr ((blockHeader true 0).take j), ad := ad, fresh := fr }
      ((blockHeader true 0).getD j 0 :: rest) room c acc =
    run f { phase := .blockHdr ((blockHeader true 0).take (j + 1)), ad := ad, fresh := fr } rest room (c + 1) acc := by
  have hj' : j = 0 ∨ j = 1 ∨ j = 2 ∨ j = 3 := by omega
  have hb : ((1 : UInt8) >>> 1 &&& 3) = 0 := by decide
  rcases hj' with h | h | h | h <;> subst h <;> simp [blockHeader, run, hb]

theorem run_bf_last (f : Nat) (ad : Nat × Nat) (fr : Bool) (rest : Bytes) (room c : Nat) (acc : Bytes) :
    run (f + 2) { phase := .blockHdr ((blockHeader true 0).take 4), ad := ad, fresh := fr }
      ((blockHeader true 0).getD 4 0 :: rest) room c acc =
    run f { phase := .trailer [], ad := ad, fresh := fr } rest room (c + 1) acc := by
  simp [blockHeader, run]

theorem run_tr_step (f : Nat) (s : DState) (A : Nat × Nat) (j : Nat) (hj : j < 3) (hp : s.phase = .trailer ((adlerBytes A).take j))
    (rest : Bytes) (room c : Nat) (acc : Bytes) :
    run (f + 1) s ((adlerBytes A).getD j 0 :: rest) room c acc =
    run f { s with phase := .trailer ((adlerBytes A).take (j + 1)) } rest room (c + 1) acc := by
  have hj' : j = 0 ∨ j = 1 ∨ j = 2 := by omega
  rcases hj' with h | h | h <;> subst h <;> (rw [run]; simp [hp, adlerBytes])

theorem run_tr_last (f : Nat) (s : DState) (hp : s.phase = .trailer ((adlerBytes s.ad).take 3))
    (room c : Nat) (acc : Bytes) :
    run (f + 2) s [(adlerBytes s.ad).getD 3 0] room c acc = some ({ s with phase := .done }, c + 1, acc) := by
  rw [run]
  simp [hp, adlerBytes, run]

/-! ## any call stays within its slices (whatever the state and the input) -/

local macro "run_term" h:ident : tactic => `(tactic|
  (simp only [Option.some.injEq, Prod.mk.injEq] at $h:ident
   obtain ⟨_, h2, h3⟩ := $h
   subst h2 h3
   exact ⟨by omega, by omega⟩))

theorem run_bounded : ∀ (fuel : Nat) (s : DState) (inp : Bytes) (room c : Nat) (acc : Bytes) (s' : DState) (c' : Nat) (acc' : Bytes),
    run fuel s inp room c acc = some (s', c', acc') → c' ≤ c + inp.length ∧ acc'.length ≤ acc.length + room := by
  intro fuel
  induction fuel with
  | zero =>
    intro s inp room c acc s' c' acc' h
    simp only [run] at h
    run_term h
  | succ fuel ih =>
    intro s inp room c acc s' c' acc' h
    unfold run at h
    split at h
    · run_term h
    · split at h
      · exact ih _ _ _ _ _ _ _ _ h
      · dsimp only at h
        split at h
        · run_term h
        · have := ih _ _ _ _ _ _ _ _ h
          simp only [List.length_append, List.length_drop, List.length_take] at this
          omega
    · split at h
      · run_term h
      · have hrec : ∀ {st : DState} {rest : Bytes} {x : UInt8}, run fuel st rest room (c + 1) acc = some (s', c', acc') →
            c' ≤ c + (x :: rest).length ∧ acc'.length ≤ acc.length + room := by
          intro st rest x h'
          have := ih _ _ _ _ _ _ _ _ h'
          simp only [List.length_cons]
          omega
        split at h
        · split at h
          · exact hrec h
          · simp at h
        · split at h
          · exact hrec h
          · simp at h
        · dsimp only at h
          split at h
          · split at h
            · simp at h
            · exact hrec h
          · split at h
            · simp at h
            · exact hrec h
        · dsimp only at h
          split at h
          · exact hrec h
          · split at h
            · exact hrec h
            · simp at h
        · run_term h

theorem decompressorBounded : ∀ (s : DState) (inp : Bytes) (cap : Nat) (fin : Bool) (r : Step DState),
    decompressor.decompress s inp cap fin = some r → r.consumed ≤ inp.length ∧ r.produced.length ≤ cap := by
  intro s inp cap fin r hr
  simp only [decompressor, decompress] at hr
  split at hr
  · simp at hr
  · rename_i s' k out hrun
    have hb := run_bounded _ _ _ _ _ _ _ _ _ hrun
    simp only [List.length_nil, Nat.zero_add] at hb
    split at hr
    · split at hr
      · have := Option.some.inj hr; subst this; exact hb
      · simp at hr
    · have := Option.some.inj hr; subst this; exact hb

/-! ## positions in a valid stream -/

/-- where the machine stands in a valid stream: `bs` are the blocks still to come in full -/
inductive Desc
  | h0 (bs : List Bytes)
  | h1 (bs : List Bytes)
  | bh (j : Nat) (b : Bytes) (bs : List Bytes)
  | bf (j : Nat)
  | dt (r : Bytes) (bs : List Bytes)
  | tr (j : Nat)

def tailOf (A : Nat × Nat) (bs : List Bytes) : Bytes := encBlocks bs ++ (blockHeader true 0 ++ adlerBytes A)

/-- what is left of the stream -/
def Desc.rem (A : Nat × Nat) : Desc → Bytes
  | .h0 bs => 0x78 :: 0x01 :: tailOf A bs
  | .h1 bs => 0x01 :: tailOf A bs
  | .bh j b bs => (blockHeader false b.length).drop j ++ (b ++ tailOf A bs)
  | .bf j => (blockHeader true 0).drop j ++ adlerBytes A
  | .dt r bs => r ++ tailOf A bs
  | .tr j => (adlerBytes A).drop j

/-- what is left of the content -/
def Desc.content : Desc → Bytes
  | .h0 bs => bs.flatten
  | .h1 bs => bs.flatten
  | .bh _ b bs => b ++ bs.flatten
  | .bf _ => []
  | .dt r bs => r ++ bs.flatten
  | .tr _ => []

def Desc.phase (A : Nat × Nat) : Desc → Phase
  | .h0 _ => .hdr0
  | .h1 _ => .hdr1 0x78
  | .bh j b _ => .blockHdr ((blockHeader false b.length).take j)
  | .bf j => .blockHdr ((blockHeader true 0).take j)
  | .dt r _ => .data r.length false
  | .tr j => .trailer ((adlerBytes A).take j)

def Desc.Ok : Desc → Prop
  | .h0 bs => ValidBlocks bs
  | .h1 bs => ValidBlocks bs
  | .bh j b bs => j < 5 ∧ 1 ≤ b.length ∧ b.length ≤ 65535 ∧ ValidBlocks bs
  | .bf j => j < 5
  | .dt r bs => 1 ≤ r.length ∧ r.length ≤ 65535 ∧ ValidBlocks bs
  | .tr j => j < 4

def Desc.isData : Desc → Bool
  | .dt _ _ => true
  | _ => false

def nextBlock : List Bytes → Desc
  | [] => .bf 0
  | b :: bs => .bh 0 b bs

theorem nextBlock_rem (A : Nat × Nat) (bs : List Bytes) : (nextBlock bs).rem A = tailOf A bs := by
  cases bs <;> simp [nextBlock, Desc.rem, tailOf, encBlocks]

theorem nextBlock_content (bs : List Bytes) : (nextBlock bs).content = bs.flatten := by
  cases bs <;> simp [nextBlock, Desc.content]

theorem nextBlock_phase (A : Nat × Nat) (bs : List Bytes) : (nextBlock bs).phase A = .blockHdr [] := by
  cases bs <;> simp [nextBlock, Desc.phase]

theorem nextBlock_ok (bs : List Bytes) (h : ValidBlocks bs) : (nextBlock bs).Ok := by
  cases bs with
  | nil => simp [nextBlock, Desc.Ok]
  | cons b bs =>
    have hb := h b (by simp)
    exact ⟨by omega, hb.1, hb.2, fun x hx => h x (by simp [hx])⟩

/-- the state `s` stands at position `x` of a stream whose content has Adler-32 state `A` -/
def Matches (A : Nat × Nat) (s : DState) (x : Desc) : Prop :=
  s.phase = x.phase A ∧ adler s.ad x.content = A ∧ x.Ok

theorem rem_ne (A : Nat × Nat) (x : Desc) (h : x.Ok) : x.rem A ≠ [] := by
  intro h0
  have := congrArg List.length h0
  cases x <;> simp only [Desc.rem, Desc.Ok, List.length_append, List.length_drop, blockHeader_length, List.length_cons,
    List.length_nil, adlerBytes] at this h <;> omega

/-- what a call does from position `x`: it either reaches the end of the stream exactly, or stops at a
position `x'` because the input is used up or (inside a block) the output slice is full -/
def Post (A : Nat × Nat) (x : Desc) (inp : Bytes) (room : Nat) (s' : DState) (k : Nat) (out : Bytes) : Prop :=
  k ≤ inp.length ∧ out.length ≤ room ∧
  ((s'.phase = .done ∧ k = (x.rem A).length ∧ out = x.content) ∨
   (∃ x', Matches A s' x' ∧ x.rem A = inp.take k ++ x'.rem A ∧ x.content = out ++ x'.content ∧
      (k = inp.length ∨ (x'.isData = true ∧ out.length = room))))

def Spec (A : Nat × Nat) (fuel : Nat) (s : DState) (x : Desc) (inp : Bytes) (room c : Nat) (acc : Bytes) : Prop :=
  ∃ s' k out, run fuel s inp room c acc = some (s', c + k, acc ++ out) ∧ Post A x inp room s' k out

theorem adv {A : Nat × Nat} {x x1 : Desc} {s s1 : DState} {F f : Nat} {inp o : Bytes} {room c k : Nat} {acc : Bytes}
    (hk : k ≤ inp.length) (ho : o.length ≤ room)
    (hstep : run F s inp room c acc = run f s1 (inp.drop k) (room - o.length) (c + k) (acc ++ o))
    (hrem : x.rem A = inp.take k ++ x1.rem A) (hcont : x.content = o ++ x1.content)
    (ih : Spec A f s1 x1 (inp.drop k) (room - o.length) (c + k) (acc ++ o)) : Spec A F s x inp room c acc := by
  obtain ⟨s', k2, out2, hrun, hk2, ho2, hcase⟩ := ih
  rw [List.length_drop] at hk2
  refine ⟨s', k + k2, o ++ out2, ?_, by omega, by rw [List.length_append]; omega, ?_⟩
  · rw [hstep, hrun, Nat.add_assoc, List.append_assoc]
  · rcases hcase with ⟨hd, hkk, hout⟩ | ⟨x', hm, hr, hc, hstop⟩
    · left
      refine ⟨hd, ?_, by rw [hcont, hout]⟩
      rw [hrem, List.length_append, List.length_take, hkk]; omega
    · right
      refine ⟨x', hm, ?_, by rw [hcont, hc, List.append_assoc], ?_⟩
      · rw [hrem, hr, List.take_add, List.append_assoc]
      · rcases hstop with h | ⟨h1, h2⟩
        · left; rw [List.length_drop] at h; omega
        · right; exact ⟨h1, by rw [List.length_append]; omega⟩

theorem spec_nil (A : Nat × Nat) (f : Nat) (s : DState) (x : Desc) (hm : Matches A s x) (room c : Nat) (acc : Bytes) :
    Spec A (f + 1) s x [] room c acc := by
  refine ⟨s, 0, [], ?_, by simp, by simp, Or.inr ⟨x, hm, by simp, by simp, Or.inl (by simp)⟩⟩
  obtain ⟨hp, _, hok⟩ := hm
  obtain ⟨ph, ad, fr⟩ := s
  simp only at hp
  subst hp
  cases x <;> simp [Desc.phase, run]
  rename_i r bs
  have := hok.1
  intro h0
  subst h0
  simp at this

/-- bytes of a list of known length, one at a time -/
theorem drop_getD (l : Bytes) (j : Nat) (h : j < l.length) : l.drop j = l.getD j 0 :: l.drop (j + 1) := by
  rw [List.drop_eq_getElem_cons h]
  simp [List.getD_eq_getElem?_getD, h]

theorem cons_prefix {y y0 : UInt8} {rest l : Bytes} (h : y :: rest <+: y0 :: l) : y = y0 ∧ rest <+: l :=
  List.cons_prefix_cons.mp h

theorem run_spec (A : Nat × Nat) : ∀ (n : Nat) (fuel : Nat) (s : DState) (x : Desc) (inp : Bytes) (room c : Nat) (acc : Bytes),
    inp.length ≤ n → Matches A s x → inp <+: x.rem A → 2 * inp.length + 4 ≤ fuel → Spec A fuel s x inp room c acc := by
  intro n
  induction n with
  | zero =>
    intro fuel s x inp room c acc hn hm _ hf
    have : inp = [] := List.eq_nil_of_length_eq_zero (by omega)
    subst this
    obtain ⟨f, rfl⟩ : ∃ f, fuel = f + 1 := ⟨fuel - 1, by omega⟩
    exact spec_nil A f s x hm room c acc
  | succ n ih =>
    intro fuel s x inp room c acc hn hm hpre hf
    cases inp with
    | nil =>
      obtain ⟨f, rfl⟩ : ∃ f, fuel = f + 1 := ⟨fuel - 1, by omega⟩
      exact spec_nil A f s x hm room c acc
    | cons y rest =>
      simp only [List.length_cons] at hn hf
      obtain ⟨f, rfl⟩ : ∃ f, fuel = f + 2 := ⟨fuel - 2, by omega⟩
      obtain ⟨hp, had, hok⟩ := hm
      obtain ⟨ph, ad, fr⟩ := s
      simp only at hp had
      subst hp
      -- a step that takes one byte and produces nothing
      have byte : ∀ (x1 : Desc) (s1 : DState) (f' : Nat), f ≤ f' →
          run (f + 2) { phase := x.phase A, ad := ad, fresh := fr } (y :: rest) room c acc = run f' s1 rest room (c + 1) acc →
          Matches A s1 x1 → x.rem A = y :: x1.rem A → x.content = x1.content →
          Spec A (f + 2) { phase := x.phase A, ad := ad, fresh := fr } x (y :: rest) room c acc := by
        intro x1 s1 f' hf' hstep hm1 hrem hcont
        have hpre1 : rest <+: x1.rem A := by rw [hrem] at hpre; exact (cons_prefix hpre).2
        exact adv (k := 1) (o := []) (x1 := x1) (s1 := s1) (f := f') (by simp) (by simp) (by simpa using hstep) (by simpa using hrem)
          (by simpa using hcont) (by simpa using ih f' s1 x1 rest room (c + 1) acc (by omega) hm1 hpre1 (by omega))
      cases x with
      | h0 bs =>
        have hy : y = 0x78 := (cons_prefix hpre).1
        subst hy
        exact byte (.h1 bs) _ (f + 1) (by omega) (run_zlib_h0 (f + 1) ad fr rest room c acc) ⟨rfl, had, hok⟩ rfl rfl
      | h1 bs =>
        have hy : y = 0x01 := (cons_prefix hpre).1
        subst hy
        exact byte (nextBlock bs) _ (f + 1) (by omega) (run_zlib_h1 (f + 1) ad fr rest room c acc)
          ⟨(nextBlock_phase A bs).symm, by rw [nextBlock_content]; exact had, nextBlock_ok bs hok⟩
          (by rw [nextBlock_rem]; rfl) (by rw [nextBlock_content]; rfl)
      | bh j b bs =>
        obtain ⟨hj, hb1, hb2, hv⟩ := hok
        have hd := drop_getD (blockHeader false b.length) j (by rw [blockHeader_length]; exact hj)
        have hy : y = (blockHeader false b.length).getD j 0 := by
          simp only [Desc.rem] at hpre; rw [hd] at hpre; exact (cons_prefix hpre).1
        subst hy
        have hstep := run_bh_step (f + 1) ad fr b.length hb1 hb2 j hj rest room c acc
        by_cases h4 : j = 4
        · subst h4
          refine byte (.dt b bs) _ (f + 1) (by omega) hstep ⟨by simp [Desc.phase], had, hb1, hb2, hv⟩ ?_ rfl
          simp only [Desc.rem]; rw [hd]
          have : (blockHeader false b.length).drop 5 = [] := List.drop_eq_nil_of_le (by rw [blockHeader_length]; omega)
          rw [this]; rfl
        · refine byte (.bh (j + 1) b bs) _ (f + 1) (by omega) hstep ⟨by simp [Desc.phase, h4], had, by omega, hb1, hb2, hv⟩ ?_ rfl
          simp only [Desc.rem]; rw [hd]; rfl
      | bf j =>
        have hj : j < 5 := hok
        have hd := drop_getD (blockHeader true 0) j (by rw [blockHeader_length]; exact hj)
        have hy : y = (blockHeader true 0).getD j 0 := by
          simp only [Desc.rem] at hpre; rw [hd] at hpre; exact (cons_prefix hpre).1
        subst hy
        by_cases h4 : j = 4
        · subst h4
          refine byte (.tr 0) _ f (by omega) (run_bf_last f ad fr rest room c acc) ⟨by simp [Desc.phase], had, by simp [Desc.Ok]⟩ ?_ rfl
          simp only [Desc.rem]; rw [hd]
          have : (blockHeader true 0).drop 5 = [] := List.drop_eq_nil_of_le (by rw [blockHeader_length]; omega)
          rw [this]; rfl
        · refine byte (.bf (j + 1)) _ (f + 1) (by omega) (run_bf_step (f + 1) ad fr j (by omega) rest room c acc)
            ⟨by simp [Desc.phase], had, by simp only [Desc.Ok]; omega⟩ ?_ rfl
          simp only [Desc.rem]; rw [hd]; rfl
      | tr j =>
        have hj : j < 4 := hok
        have hA : ad = A := by simpa [Desc.content, adler] using had
        subst hA
        have hd := drop_getD (adlerBytes ad) j (by simp [adlerBytes]; exact hj)
        have hy : y = (adlerBytes ad).getD j 0 := by
          simp only [Desc.rem] at hpre; rw [hd] at hpre; exact (cons_prefix hpre).1
        subst hy
        by_cases h3 : j = 3
        · subst h3
          have hrest : rest = [] := by
            simp only [Desc.rem] at hpre; rw [hd] at hpre
            have h2 := (cons_prefix hpre).2
            have : (adlerBytes ad).drop 4 = [] := List.drop_eq_nil_of_le (by simp [adlerBytes])
            rw [this] at h2
            exact List.prefix_nil.mp h2
          subst hrest
          refine ⟨{ phase := .done, ad := ad, fresh := fr }, 1, [], ?_, by simp, by simp, Or.inl ⟨rfl, ?_, rfl⟩⟩
          · have := run_tr_last f { phase := .trailer ((adlerBytes ad).take 3), ad := ad, fresh := fr } rfl room c acc
            simpa [Desc.phase] using this
          · simp [Desc.rem, adlerBytes]
        · have hstep := run_tr_step (f + 1) { phase := .trailer ((adlerBytes ad).take j), ad := ad, fresh := fr } ad j (by omega) rfl rest room c acc
          refine byte (.tr (j + 1)) _ (f + 1) (by omega) hstep ⟨rfl, had, by simp only [Desc.Ok]; omega⟩ ?_ rfl
          simp only [Desc.rem]; rw [hd]
      | dt r bs =>
        obtain ⟨hr1, hr2, hv⟩ := hok
        simp only [Desc.rem, Desc.content, Desc.phase] at hpre had ⊢
        have hstep := run_data_step (f + 1) r.length false ad fr (by omega) (y :: rest) room c acc
        generalize hk : min r.length (min (y :: rest).length room) = k at hstep
        have hkl : k ≤ (y :: rest).length := by omega
        have hkr : k ≤ r.length := by omega
        have hkroom : k ≤ room := by omega
        by_cases hk0 : k = 0
        · rw [if_pos hk0] at hstep
          have hroom : room = 0 := by simp only [List.length_cons] at hk; omega
          refine ⟨{ phase := .data r.length false, ad := ad, fresh := fr }, 0, [], by rw [hstep]; simp, by simp, by simp, Or.inr ⟨.dt r bs, ⟨rfl, had, hr1, hr2, hv⟩, by simp, by simp, Or.inr ⟨rfl, by simp [hroom]⟩⟩⟩
        · rw [if_neg hk0] at hstep
          have htake : (y :: rest).take k = r.take k := by
            have h1 := List.prefix_iff_eq_take.mp hpre
            rw [h1, List.take_take, Nat.min_eq_left hkl, List.take_append_of_le_length hkr]
          have hpre1 : (y :: rest).drop k <+: r.drop k ++ tailOf A bs := by
            obtain ⟨t, ht⟩ := hpre
            refine ⟨t, ?_⟩
            rw [← List.drop_append_of_le_length hkr, ← ht, List.drop_append_of_le_length hkl]
          have hlen1 : ((y :: rest).drop k).length ≤ n := by rw [List.length_drop]; simp only [List.length_cons]; omega
          have hlen2 : ((y :: rest).take k).length = k := by rw [List.length_take]; omega
          by_cases hlt : k < r.length
          · refine adv (k := k) (o := (y :: rest).take k) (x1 := .dt (r.drop k) bs) (f := f + 1) hkl (by omega) (by rw [hlen2]; exact hstep)
              (by simp only [Desc.rem]; rw [htake, ← List.append_assoc, List.take_append_drop])
              (by simp only [Desc.content]; rw [htake, ← List.append_assoc, List.take_append_drop]) ?_
            rw [hlen2]
            refine ih (f + 1) _ (.dt (r.drop k) bs) _ (room - k) (c + k) _ hlen1 ⟨by simp [Desc.phase], ?_, ?_⟩ hpre1
              (by rw [List.length_drop]; simp only [List.length_cons]; omega)
            · simp only [Desc.content]
              rw [htake, adler_append, ← List.append_assoc, List.take_append_drop]; exact had
            · exact ⟨by rw [List.length_drop]; omega, by rw [List.length_drop]; omega, hv⟩
          · have hke : k = r.length := by omega
            have hdrop : r.drop k = [] := List.drop_eq_nil_of_le (by omega)
            have htk : r.take k = r := List.take_of_length_le (by omega)
            have hz : r.length - k = 0 := by omega
            rw [hz, run_data_zero] at hstep
            refine adv (k := k) (o := (y :: rest).take k) (x1 := nextBlock bs) (f := f) hkl (by omega) (by rw [hlen2]; exact hstep)
              (by rw [nextBlock_rem, htake, htk]; rfl) (by rw [nextBlock_content, htake, htk]; rfl) ?_
            rw [hlen2]
            refine ih f _ (nextBlock bs) _ (room - k) (c + k) _ hlen1 ⟨(nextBlock_phase A bs).symm, ?_, nextBlock_ok bs hv⟩
              (by rw [nextBlock_rem]; rw [hdrop] at hpre1; simpa using hpre1)
              (by rw [List.length_drop]; simp only [List.length_cons]; omega)
            rw [nextBlock_content, htake, htk, adler_append]; exact had

/-! ## the contract -/

theorem phase_ne_done {A : Nat × Nat} {s : DState} {x : Desc} (h : Matches A s x) : s.phase ≠ .done := by
  rw [h.1]; cases x <;> simp [Desc.phase]

theorem data_content_ne {x : Desc} (h : x.isData = true) (hok : x.Ok) : x.content ≠ [] := by
  cases x <;> simp [Desc.isData] at h
  rename_i r bs
  have := hok.1
  intro h0
  have := congrArg List.length h0
  simp only [Desc.content, List.length_append, List.length_nil] at this
  omega

def DInv (s : DState) (z d : Bytes) (i o : Nat) : Prop :=
  IsStoredNE z d ∧ ∃ x, Matches (adler (1, 0) d) s x ∧ z.drop i = x.rem (adler (1, 0) d) ∧ d.drop o = x.content ∧
    i ≤ z.length ∧ o ≤ d.length

theorem run_of_inv {s : DState} {z d : Bytes} {i : Nat} {x : Desc} {inp : Bytes} (cap : Nat)
    (hm : Matches (adler (1, 0) d) s x) (hz : z.drop i = x.rem (adler (1, 0) d)) (hpre : inp <+: z.drop i) :
    ∃ s' k out, run (2 * inp.length + 8) { s with fresh := false } inp cap 0 [] = some (s', k, out) ∧
      Post (adler (1, 0) d) x inp cap s' k out := by
  have hm' : Matches (adler (1, 0) d) { s with fresh := false } x := hm
  obtain ⟨s', k, out, hrun, hpost⟩ := run_spec (adler (1, 0) d) inp.length (2 * inp.length + 8) _ x inp cap 0 []
    (Nat.le_refl _) hm' (hz ▸ hpre) (by omega)
  exact ⟨s', k, out, by simpa using hrun, hpost⟩

theorem decompress_spec {s : DState} {z d : Bytes} {i : Nat} {x : Desc} {inp : Bytes} {cap : Nat} {fin : Bool} {r : Step DState}
    (hm : Matches (adler (1, 0) d) s x) (hz : z.drop i = x.rem (adler (1, 0) d)) (hpre : inp <+: z.drop i)
    (h : decompress s inp cap fin = some r) :
    Post (adler (1, 0) d) x inp cap r.state r.consumed r.produced ∧ (r.status = .streamEnd ↔ r.state.phase = .done) ∧
      (fin = false → r.status = .bufError → r.consumed = 0 ∧ r.produced = []) := by
  obtain ⟨s', k, out, hrun, hpost⟩ := run_of_inv cap hm hz hpre
  simp only [decompress, hrun] at h
  split at h
  · rename_i hc
    simp only [Bool.and_eq_true, decide_eq_true_eq] at hc
    split at h
    · have := Option.some.inj h
      subst this
      exact ⟨hpost, by simp [hc.2], by intro hf; simp [hf] at hc⟩
    · exact absurd h (by simp)
  · have := Option.some.inj h
    subst this
    refine ⟨hpost, ?_, ?_⟩
    · dsimp only
      by_cases hd : s'.phase = .done
      · simp [hd]
      · simp only [hd, if_false]
        split <;> simp
    · intro _
      dsimp only
      by_cases hd : s'.phase = .done
      · simp [hd]
      · simp only [hd, if_false]
        split
        · rename_i hc
          simp only [Bool.and_eq_true, decide_eq_true_eq, List.isEmpty_iff] at hc
          exact fun _ => hc
        · simp

theorem storedNE_ne {z d : Bytes} (h : IsStoredNE z d) : z ≠ [] := by
  obtain ⟨_, _, _, rfl⟩ := h
  simp

theorem dinv_init {z d : Bytes} (h : IsStoredNE z d) : DInv decompressor.init z d 0 0 := by
  refine ⟨h, ?_⟩
  obtain ⟨blocks, hv, hflat, hz⟩ := h
  refine ⟨.h0 blocks, ⟨rfl, ?_, hv⟩, ?_, ?_, Nat.zero_le _, Nat.zero_le _⟩
  · simp only [Desc.content, decompressor, hflat]
  · rw [hz]; rfl
  · simp only [Desc.content, List.drop_zero, hflat]

def decompressorOk : DecompressorOk decompressor IsStoredNE where
  Inv := DInv
  stream_ne := storedNE_ne
  inv_init := dinv_init
  step := by
    intro s z d i o inp cap fin r hinv hpre h
    obtain ⟨hs, x, hm, hz, hd, hi, ho⟩ := hinv
    obtain ⟨⟨hk, hout, hcase⟩, hst, _⟩ := decompress_spec hm hz hpre h
    have hzl : (z.drop i).length = z.length - i := List.length_drop
    have hdl : (d.drop o).length = d.length - o := List.length_drop
    rcases hcase with ⟨hdone, hkk, hoo⟩ | ⟨x', hm', hr, hc, _⟩
    · refine ⟨hk, hout, by rw [hd, hoo]; exact List.prefix_refl _, fun hne => absurd (hst.mpr hdone) hne, fun _ => ?_⟩
      rw [← hz, hzl] at hkk
      rw [hoo, ← hd, hdl]
      omega
    · have hnd := phase_ne_done hm'
      have hl1 := congrArg List.length hr
      have hl2 := congrArg List.length hc
      rw [← hz, hzl, List.length_append, List.length_take, Nat.min_eq_left hk] at hl1
      rw [← hd, hdl, List.length_append] at hl2
      refine ⟨hk, hout, by rw [hd, hc]; exact List.prefix_append _ _, fun _ => ?_, fun he => absurd (hst.mp he) hnd⟩
      refine ⟨hs, x', hm', ?_, ?_, by omega, by omega⟩
      · rw [← List.drop_drop, hz, hr]
        exact List.drop_left' (by rw [List.length_take]; omega)
      · rw [← List.drop_drop, hd, hc]
        exact List.drop_left' rfl
  total := by
    intro s z d i o inp cap hinv hpre
    obtain ⟨hs, x, hm, hz, hd, hi, ho⟩ := hinv
    obtain ⟨s', k, out, hrun, _⟩ := run_of_inv cap hm hz hpre
    exact ⟨_, by simp only [decompressor, decompress, hrun]; rfl⟩
  progress := by
    intro s z d i o inp cap r hinv hpre hne hcap h hns
    obtain ⟨hs, x, hm, hz, hd, hi, ho⟩ := hinv
    obtain ⟨⟨hk, hout, hcase⟩, hst, _⟩ := decompress_spec hm hz hpre h
    rcases hcase with ⟨hdone, _, _⟩ | ⟨x', hm', hr, hc, hstop⟩
    · exact absurd (hst.mpr hdone) hns
    · rcases hstop with h1 | ⟨_, h2⟩
      · left; rw [h1]; exact List.length_pos_iff.mpr hne
      · right; intro h0; rw [h0] at h2; simp at h2; omega
  end_detect := by
    intro s z d i o inp cap r hinv hpre h hns hcons hlt
    obtain ⟨hs, x, hm, hz, hd, hi, ho⟩ := hinv
    obtain ⟨⟨hk, hout, hcase⟩, hst, _⟩ := decompress_spec hm hz hpre h
    rcases hcase with ⟨hdone, _, _⟩ | ⟨x', hm', hr, hc, hstop⟩
    · exact absurd (hst.mpr hdone) hns
    · have hl1 := congrArg List.length hr
      have hne := rem_ne (adler (1, 0) d) x' hm'.2.2
      have : 0 < (x'.rem (adler (1, 0) d)).length := List.length_pos_iff.mpr hne
      rw [← hz, List.length_drop, List.length_append, List.length_take, Nat.min_eq_left hk] at hl1
      omega
  greedy_init := by
    intro z d inp cap r hs hpre h hns
    obtain ⟨_, x, hm, hz, hd, hi, ho⟩ := dinv_init hs
    obtain ⟨⟨hk, hout, hcase⟩, hst, _⟩ := decompress_spec hm hz (by simpa using hpre) h
    rcases hcase with ⟨hdone, _, _⟩ | ⟨x', hm', hr, hc, hstop⟩
    · exact absurd (hst.mpr hdone) hns
    · rcases hstop with h1 | ⟨_, h2⟩
      · right; exact h1
      · left; exact h2
  finish_progress := by
    intro s z d i o cap r hinv hcap h hns
    obtain ⟨hs, x, hm, hz, hd, hi, ho⟩ := hinv
    obtain ⟨⟨hk, hout, hcase⟩, hst, _⟩ := decompress_spec hm hz (List.prefix_refl _) h
    rcases hcase with ⟨hdone, _, _⟩ | ⟨x', hm', hr, hc, hstop⟩
    · exact absurd (hst.mpr hdone) hns
    · rcases hstop with h1 | ⟨hdata, h2⟩
      · left
        have hne := rem_ne (adler (1, 0) d) x hm.2.2
        rw [h1, hz]; exact List.length_pos_iff.mpr hne
      · right
        intro h0
        have hcne := data_content_ne hdata hm'.2.2
        have : 0 < x'.content.length := List.length_pos_iff.mpr hcne
        have hl2 := congrArg List.length hc
        rw [← hd, List.length_drop, List.length_append, h0] at hl2
        rw [h0] at h2
        simp at h2 hl2
        omega
  buf_error := by
    intro s inp cap r h hb
    simp only [decompressor, decompress] at h
    split at h
    · exact absurd h (by simp)
    · rename_i s' k out hrun
      simp only [Bool.false_and, Bool.false_eq_true, if_false] at h
      have := Option.some.inj h
      subst this
      dsimp only at hb ⊢
      by_cases hd : s'.phase = .done
      · simp [hd] at hb
      · simp only [hd, if_false] at hb
        split at hb
        · rename_i hc
          simpa using hc
        · exact absurd hb (by simp)

end GixModel.C56.Stored
