import GixModel.Lemmas.C10a
/-
C10 — every step of the traversal preserves `Inv`.
-/
namespace GixModel.C10

variable {V Id : Type}

theorem nodup_snoc {α : Type} {l : List α} {a : α} (hn : l.Nodup) (ha : a ∉ l) : (l ++ [a]).Nodup := by
  induction l with
  | nil => simp
  | cons b rest ih =>
    have h := List.nodup_cons.mp hn
    simp only [List.cons_append]
    refine List.nodup_cons.mpr ⟨?_, ih h.2 (fun hx => ha (List.mem_cons_of_mem _ hx))⟩
    intro hb
    rcases List.mem_append.mp hb with h1 | h1
    · exact h.1 h1
    · simp only [List.mem_singleton] at h1; exact ha (h1 ▸ List.mem_cons_self)

theorem mem_snoc {α : Type} {l : List α} {a x : α} : x ∈ l ++ [a] ↔ x ∈ l ∨ x = a := by
  simp [List.mem_append]

macro "clean" : tactic => `(tactic| try dsimp only at *)

theorem settled_queued : ¬ Settled Status.queued := by intro h; rcases h with h | h <;> cases h
theorem settled_fresh : ¬ Settled Status.fresh := by intro h; rcases h with h | h <;> cases h
theorem settled_held : Settled Status.held := Or.inl rfl
theorem settled_done : Settled Status.done := Or.inr rfl

theorem step_inv {f : Forest} {c : Codec V Id} {val : Node → V} {s s' : St V Id} {ev : Ev}
    (tk : TreeOk f) (vk : ValOk f c val) (inv : Inv f c val s) (hs : step f c s ev = some s') :
    Inv f c val s' := by
  cases ev with
  | claim =>
    obtain ⟨hlt, rfl⟩ := inv_claim hs
    have hfresh : s.st (Node.root s.nextRoot) = Status.fresh := (inv.roots _).mpr (Nat.le_refl _)
    have hnq : Node.root s.nextRoot ∉ s.queue := by
      intro h; have := (inv.q _).mp h; rw [hfresh] at this; cases this
    have hkid : ∀ k, upd s.st (Node.root s.nextRoot) Status.queued (Node.kid k) = s.st (Node.kid k) :=
      fun k => upd_other _ _ _ _ (by intro h; cases h)
    refine ⟨inv.np, hlt, nodup_snoc inv.qnodup hnq, ?_, ?_, inv.uniq, ?_, ?_, inv.wval, ?_, ?_, ?_, ?_, ?_, ?_⟩
    all_goals clean
    · intro n; clean
      show n ∈ s.queue ++ [Node.root s.nextRoot] ↔ upd s.st (Node.root s.nextRoot) Status.queued n = Status.queued
      rw [mem_snoc]
      by_cases hn : n = Node.root s.nextRoot
      · subst hn; simp [upd_same]
      · rw [upd_other _ _ _ _ hn, ← inv.q n]; simp [hn]
    · intro n; clean
      show upd s.st (Node.root s.nextRoot) Status.queued n = Status.held ↔ _
      by_cases hn : n = Node.root s.nextRoot
      · subst hn
        rw [upd_same]
        constructor
        · intro h; cases h
        · intro h; have := (inv.held _).mpr h; rw [hfresh] at this; cases this
      · rw [upd_other _ _ _ _ hn]; exact inv.held n
    · intro n; clean
      show s.writes n = if Settled (upd s.st (Node.root s.nextRoot) Status.queued n) then 1 else 0
      by_cases hn : n = Node.root s.nextRoot
      · subst hn
        rw [upd_same, if_neg settled_queued, inv.wr, hfresh, if_neg settled_fresh]
      · rw [upd_other _ _ _ _ hn]; exact inv.wr n
    · intro n; clean
      show s.data n = if Settled (upd s.st (Node.root s.nextRoot) Status.queued n) then _ else none
      by_cases hn : n = Node.root s.nextRoot
      · subst hn
        rw [upd_same, if_neg settled_queued, inv.dat, hfresh, if_neg settled_fresh]
      · rw [upd_other _ _ _ _ hn]; exact inv.dat n
    · intro t w hw; clean
      obtain ⟨pre, h1, h2, h3⟩ := inv.rem t w hw
      exact ⟨pre, h1, fun k hk => by rw [hkid]; exact h2 k hk, fun k hk => by rw [hkid]; exact h3 k hk⟩
    · intro n k hk; clean
      show (upd s.st _ _ n = Status.fresh ∨ upd s.st _ _ n = Status.queued → upd s.st _ _ (Node.kid k) = Status.fresh)
        ∧ (upd s.st _ _ n = Status.done → upd s.st _ _ (Node.kid k) ≠ Status.fresh)
      rw [hkid]
      by_cases hn : n = Node.root s.nextRoot
      · subst hn
        rw [upd_same]
        exact ⟨fun _ => (inv.ch _ k hk).1 (Or.inl hfresh), fun h => by cases h⟩
      · rw [upd_other _ _ _ _ hn]; exact inv.ch n k hk
    · intro i; clean
      show upd s.st (Node.root s.nextRoot) Status.queued (Node.root i) = Status.fresh ↔ s.nextRoot + 1 ≤ i
      by_cases hi : i = s.nextRoot
      · subst hi; rw [upd_same]; constructor
        · intro h; cases h
        · intro h; omega
      · rw [upd_other _ _ _ _ (by intro h; cases h; exact hi rfl), inv.roots]; omega
    · intro j hj; clean
      have : s.st (Node.kid j) = Status.queued := by rw [← hkid]; exact hj
      exact inv.sto j this
    · intro j hj; clean
      have : s.st (Node.kid j) = Status.queued ∨ s.st (Node.kid j) = Status.held := by rw [← hkid]; exact hj
      exact inv.leaf j this
    · intro n hn; clean
      show upd s.st (Node.root s.nextRoot) Status.queued n = Status.fresh
      have hne : n ≠ Node.root s.nextRoot := by
        intro h; subst h; simp [Forest.valid] at hn; omega
      rw [upd_other _ _ _ _ hne]; exact inv.inval n hn
  | pop t q =>
    obtain ⟨hw0, n, hq, hcase⟩ := inv_pop hs
    have hnq : n ∈ s.queue := List.mem_of_getElem? hq
    have hst : s.st n = Status.queued := (inv.q n).mp hnq
    -- no worker holds `n`
    have hnh : ∀ t' w', s.workers t' = some w' → w'.node ≠ n := by
      intro t' w' hw' he; clean
      have := (inv.held n).mpr ⟨t', w', hw', he⟩
      rw [hst] at this; cases this
    -- the common part: `n` goes from queued to held by `t` with value `val n`
    have main : ∀ (stored' : List (Nat × V)) (v : V), v = val n →
        (∀ j, Node.kid j ≠ n → lookupStored stored' j = lookupStored s.stored j) →
        Inv f c val { s with queue := s.queue.eraseIdx q, stored := stored',
                             workers := upd s.workers t (some { node := n, val := v, rem := f.children n }),
                             data := upd s.data n (some (c.hash v)),
                             writes := upd s.writes n (s.writes n + 1), st := upd s.st n Status.held } := by
      intro stored' v hv hsto; clean
      have hkidne : ∀ k, k ∈ f.children n → Node.kid k ≠ n := by
        intro k hk he; clean
        cases n with
        | root i => cases he
        | kid j =>
          have hkj : k = j := by injection he
          subst hkj; exact absurd (tk.back k k hk) (Nat.lt_irrefl _)
      refine ⟨inv.np, inv.nr, ?_, ?_, ?_, ?_, ?_, ?_, ?_, ?_, ?_, ?_, ?_, ?_, ?_⟩
      all_goals clean
      · exact (List.eraseIdx_sublist _ _).nodup inv.qnodup
      · intro x; clean
        show x ∈ s.queue.eraseIdx q ↔ upd s.st n Status.held x = Status.queued
        rw [mem_eraseIdx_nodup inv.qnodup hq]
        by_cases hx : x = n
        · subst hx; rw [upd_same]; simp
        · rw [upd_other _ _ _ _ hx, ← inv.q x]; simp [hx]
      · intro x; clean
        show upd s.st n Status.held x = Status.held ↔ ∃ t' w, upd s.workers t _ t' = some w ∧ w.node = x
        by_cases hx : x = n
        · subst hx
          rw [upd_same]
          exact ⟨fun _ => ⟨t, _, upd_same _ _ _, rfl⟩, fun _ => rfl⟩
        · rw [upd_other _ _ _ _ hx, inv.held x]
          constructor
          · rintro ⟨t', w, hw, he⟩
            have : t' ≠ t := by intro h; subst h; rw [hw0] at hw; cases hw
            exact ⟨t', w, by rw [upd_other _ _ _ _ this]; exact hw, he⟩
          · rintro ⟨t', w, hw, he⟩
            by_cases ht : t' = t
            · subst ht; rw [upd_same] at hw; cases hw; exact absurd he.symm hx
            · rw [upd_other _ _ _ _ ht] at hw; exact ⟨t', w, hw, he⟩
      · intro t1 t2 w1 w2 h1 h2 he; clean
        by_cases ht1 : t1 = t
        · by_cases ht2 : t2 = t
          · rw [ht1, ht2]
          · subst ht1
            rw [upd_same] at h1; cases h1
            rw [upd_other _ _ _ _ ht2] at h2
            exact absurd he.symm (hnh t2 w2 h2)
        · by_cases ht2 : t2 = t
          · subst ht2
            rw [upd_same] at h2; cases h2
            rw [upd_other _ _ _ _ ht1] at h1
            exact absurd he (hnh t1 w1 h1)
          · rw [upd_other _ _ _ _ ht1] at h1
            rw [upd_other _ _ _ _ ht2] at h2
            exact inv.uniq t1 t2 w1 w2 h1 h2 he
      · intro x; clean
        show upd s.writes n (s.writes n + 1) x = if Settled (upd s.st n Status.held x) then 1 else 0
        by_cases hx : x = n
        · subst hx
          rw [upd_same, upd_same, if_pos settled_held, inv.wr, hst, if_neg settled_queued]
        · rw [upd_other _ _ _ _ hx, upd_other _ _ _ _ hx]; exact inv.wr x
      · intro x; clean
        show upd s.data n (some (c.hash v)) x = if Settled (upd s.st n Status.held x) then _ else none
        by_cases hx : x = n
        · subst hx
          rw [upd_same, upd_same, if_pos settled_held, hv]
        · rw [upd_other _ _ _ _ hx, upd_other _ _ _ _ hx]; exact inv.dat x
      · intro t' w hw; clean
        by_cases ht : t' = t
        · subst ht; rw [upd_same] at hw; cases hw; exact hv
        · rw [upd_other _ _ _ _ ht] at hw; exact inv.wval t' w hw
      · intro t' w hw; clean
        by_cases ht : t' = t
        · subst ht
          rw [upd_same] at hw; cases hw
          refine ⟨[], rfl, fun k hk => (by cases hk), ?_⟩
          all_goals clean
          intro k hk; clean
          show upd s.st n Status.held (Node.kid k) = Status.fresh
          rw [upd_other _ _ _ _ (hkidne k hk)]
          exact (inv.ch n k hk).1 (Or.inr hst)
        · rw [upd_other _ _ _ _ ht] at hw
          obtain ⟨pre, h1, h2, h3⟩ := inv.rem t' w hw
          refine ⟨pre, h1, ?_, ?_⟩
          all_goals clean
          · intro k hk; clean
            show upd s.st n Status.held (Node.kid k) ≠ Status.fresh
            by_cases hkn : Node.kid k = n
            · rw [hkn, upd_same]; intro h; cases h
            · rw [upd_other _ _ _ _ hkn]; exact h2 k hk
          · intro k hk; clean
            show upd s.st n Status.held (Node.kid k) = Status.fresh
            have hkn : Node.kid k ≠ n := by
              intro h; have := h3 k hk; rw [h, hst] at this; cases this
            rw [upd_other _ _ _ _ hkn]; exact h3 k hk
      · intro x k hk; clean
        show (upd s.st n Status.held x = Status.fresh ∨ upd s.st n Status.held x = Status.queued →
            upd s.st n Status.held (Node.kid k) = Status.fresh)
          ∧ (upd s.st n Status.held x = Status.done → upd s.st n Status.held (Node.kid k) ≠ Status.fresh)
        by_cases hx : x = n
        · subst hx
          rw [upd_same]
          exact ⟨fun h => (by rcases h with h | h <;> cases h), fun h => by cases h⟩
        · rw [upd_other _ _ _ _ hx]
          by_cases hkn : Node.kid k = n
          · rw [hkn, upd_same]
            constructor
            · intro h; clean
              have := (inv.ch x k hk).1 h
              rw [hkn, hst] at this; cases this
            · intro _ h; cases h
          · rw [upd_other _ _ _ _ hkn]; exact inv.ch x k hk
      · intro i; clean
        show upd s.st n Status.held (Node.root i) = Status.fresh ↔ s.nextRoot ≤ i
        by_cases hx : Node.root i = n
        · rw [hx, upd_same]
          constructor
          · intro h; cases h
          · intro h; clean
            have := (inv.roots i).mpr h
            rw [hx, hst] at this; cases this
        · rw [upd_other _ _ _ _ hx]; exact inv.roots i
      · intro j hj; clean
        have hjn : Node.kid j ≠ n := by
          intro h; rw [h] at hj
          have : upd s.st n Status.held n = Status.queued := hj
          rw [upd_same] at this; cases this
        have hj' : s.st (Node.kid j) = Status.queued := by
          have : upd s.st n Status.held (Node.kid j) = Status.queued := hj
          rwa [upd_other _ _ _ _ hjn] at this
        show lookupStored stored' j = _
        rw [hsto j hjn]; exact inv.sto j hj'
      · intro j hj; clean
        by_cases hjn : Node.kid j = n
        · exact inv.leaf j (Or.inl (hjn ▸ hst))
        · have : s.st (Node.kid j) = Status.queued ∨ s.st (Node.kid j) = Status.held := by
            have h' : upd s.st n Status.held (Node.kid j) = Status.queued
                ∨ upd s.st n Status.held (Node.kid j) = Status.held := hj
            rwa [upd_other _ _ _ _ hjn] at h'
          exact inv.leaf j this
      · intro x hx; clean
        show upd s.st n Status.held x = Status.fresh
        have hxn : x ≠ n := by
          intro h; subst h
          have := inv.inval x hx; rw [hst] at this; cases this
        rw [upd_other _ _ _ _ hxn]; exact inv.inval x hx
    rcases hcase with ⟨i, hn, rfl⟩ | ⟨j, v, hn, hv, rfl⟩ | ⟨j, hn, hv, rfl⟩
    · exact main s.stored (c.decodeRoot i) (by rw [hn]; exact (vk.root i).symm) (fun _ _ => rfl)
    · have hv' : v = val n := by
        have := inv.sto j (hn ▸ hst)
        rw [hv] at this; cases this; rw [hn]
      exact main (eraseStored s.stored j) v hv'
        (fun j' hj' => lookup_erase_ne _ _ _ (by intro h; subst h; exact hj' hn.symm))
    · -- the `.expect("we store the resolved delta buffer when done")` cannot fail
      have := inv.sto j (hn ▸ hst)
      rw [hv] at this; cases this
  | child t =>
    obtain ⟨w, k, rest, hw, hrem, hcase⟩ := inv_child hs
    obtain ⟨pre, hpre, hpre1, hpre2⟩ := inv.rem t w hw
    have hkmem : k ∈ f.children w.node := by rw [hpre, hrem]; simp
    have hkfresh : s.st (Node.kid k) = Status.fresh := hpre2 k (by rw [hrem]; exact List.mem_cons_self)
    have hval : c.applyDelta w.val k = val (Node.kid k) := by
      rw [inv.wval t w hw]; exact (vk.kid w.node k hkmem).symm
    have hheld : s.st w.node = Status.held := (inv.held w.node).mpr ⟨t, w, hw, rfl⟩
    have hknq : Node.kid k ∉ s.queue := by
      intro h; have := (inv.q _).mp h; rw [hkfresh] at this; cases this
    have hknh : ∀ t' w', s.workers t' = some w' → w'.node ≠ Node.kid k := by
      intro t' w' hw' he; clean
      have := (inv.held _).mpr ⟨t', w', hw', he⟩
      rw [hkfresh] at this; cases this
    have hwne : w.node ≠ Node.kid k := hknh t w hw
    have hnodup : (pre ++ k :: rest).Nodup := by rw [← hrem, ← hpre]; exact tk.nodup _
    have hknrest : k ∉ rest := by
      have := (List.nodup_append.mp hnodup).2.1
      exact (List.nodup_cons.mp this).1
    -- the workers after the step
    have hwk : ∀ t' w', upd s.workers t (some { w with rem := rest }) t' = some w' →
        (t' = t ∧ w' = { w with rem := rest }) ∨ (t' ≠ t ∧ s.workers t' = some w') := by
      intro t' w' h; clean
      by_cases ht : t' = t
      · subst ht; rw [upd_same] at h; cases h; exact Or.inl ⟨rfl, rfl⟩
      · rw [upd_other _ _ _ _ ht] at h; exact Or.inr ⟨ht, h⟩
    -- common facts about the status change of `kid k` from fresh to `x` (queued or done)
    have common : ∀ (x : Status), x ≠ Status.fresh → x ≠ Status.held →
        (∀ n, upd s.st (Node.kid k) x n = Status.held ↔
            ∃ t' w', upd s.workers t (some { w with rem := rest }) t' = some w' ∧ w'.node = n)
        ∧ (∀ t1 t2 w1 w2, upd s.workers t (some { w with rem := rest }) t1 = some w1 →
            upd s.workers t (some { w with rem := rest }) t2 = some w2 → w1.node = w2.node → t1 = t2)
        ∧ (∀ t' w', upd s.workers t (some { w with rem := rest }) t' = some w' → w'.val = val w'.node)
        ∧ (∀ t' w', upd s.workers t (some { w with rem := rest }) t' = some w' →
            ∃ pre', f.children w'.node = pre' ++ w'.rem
              ∧ (∀ k' ∈ pre', upd s.st (Node.kid k) x (Node.kid k') ≠ Status.fresh)
              ∧ (∀ k' ∈ w'.rem, upd s.st (Node.kid k) x (Node.kid k') = Status.fresh))
        ∧ (∀ i, upd s.st (Node.kid k) x (Node.root i) = Status.fresh ↔ s.nextRoot ≤ i)
        ∧ (∀ n, f.valid n = false → upd s.st (Node.kid k) x n = Status.fresh) := by
      intro x hxf hxh; clean
      refine ⟨?_, ?_, ?_, ?_, ?_, ?_⟩
      all_goals clean
      · intro n; clean
        by_cases hn : n = Node.kid k
        · subst hn
          rw [upd_same]
          constructor
          · intro h; exact absurd h hxh
          · rintro ⟨t', w', h', he⟩
            rcases hwk t' w' h' with ⟨_, rfl⟩ | ⟨_, h''⟩
            · exact absurd he hwne
            · exact absurd he (hknh t' w' h'')
        · rw [upd_other _ _ _ _ hn, inv.held n]
          constructor
          · rintro ⟨t', w', h', he⟩
            by_cases ht : t' = t
            · subst ht; rw [hw] at h'; cases h'
              exact ⟨t', _, upd_same _ _ _, he⟩
            · exact ⟨t', w', by rw [upd_other _ _ _ _ ht]; exact h', he⟩
          · rintro ⟨t', w', h', he⟩
            rcases hwk t' w' h' with ⟨rfl, rfl⟩ | ⟨_, h''⟩
            · exact ⟨t', w, hw, he⟩
            · exact ⟨t', w', h'', he⟩
      · intro t1 t2 w1 w2 h1 h2 he; clean
        rcases hwk t1 w1 h1 with ⟨rfl, rfl⟩ | ⟨ht1, h1'⟩
        · rcases hwk t2 w2 h2 with ⟨rfl, rfl⟩ | ⟨_, h2'⟩
          · rfl
          · exact inv.uniq t1 t2 w w2 hw h2' he
        · rcases hwk t2 w2 h2 with ⟨rfl, rfl⟩ | ⟨_, h2'⟩
          · exact inv.uniq t1 t2 w1 w h1' hw he
          · exact inv.uniq t1 t2 w1 w2 h1' h2' he
      · intro t' w' h'; clean
        rcases hwk t' w' h' with ⟨rfl, rfl⟩ | ⟨_, h''⟩
        · exact inv.wval t' w hw
        · exact inv.wval t' w' h''
      · intro t' w' h'; clean
        rcases hwk t' w' h' with ⟨rfl, rfl⟩ | ⟨ht, h''⟩
        · refine ⟨pre ++ [k], by simp [hpre, hrem], ?_, ?_⟩
          · intro k' hk'; clean
            rcases List.mem_append.mp hk' with h1 | h1
            · have : Node.kid k' ≠ Node.kid k := by
                intro h; cases h; have := hpre1 k h1; exact this hkfresh
              rw [upd_other _ _ _ _ this]; exact hpre1 k' h1
            · simp only [List.mem_singleton] at h1; subst h1; rw [upd_same]; exact hxf
          · intro k' hk'; clean
            have : Node.kid k' ≠ Node.kid k := by
              intro h; cases h; exact hknrest hk'
            rw [upd_other _ _ _ _ this]
            exact hpre2 k' (by rw [hrem]; exact List.mem_cons_of_mem _ hk')
        · obtain ⟨pre', h1, h2, h3⟩ := inv.rem t' w' h''
          refine ⟨pre', h1, ?_, ?_⟩
          all_goals clean
          · intro k' hk'; clean
            by_cases hkk : Node.kid k' = Node.kid k
            · rw [hkk, upd_same]; exact hxf
            · rw [upd_other _ _ _ _ hkk]; exact h2 k' hk'
          · intro k' hk'; clean
            have hkk : Node.kid k' ≠ Node.kid k := by
              intro h; cases h
              -- `k` would have two parents
              have hp : w'.node = w.node :=
                tk.parent w'.node w.node k (by rw [h1]; exact List.mem_append_right _ hk') hkmem
              exact ht (inv.uniq t' t w' w h'' hw hp)
            rw [upd_other _ _ _ _ hkk]; exact h3 k' hk'
      · intro i; clean
        rw [upd_other _ _ _ _ (by intro h; cases h)]; exact inv.roots i
      · intro n hn; clean
        have : n ≠ Node.kid k := by
          intro h; subst h
          have := tk.inb w.node k hkmem
          simp [Forest.valid] at hn; omega
        rw [upd_other _ _ _ _ this]; exact inv.inval n hn
    rcases hcase with ⟨hleaf, rfl⟩ | ⟨hinner, rfl⟩
    · obtain ⟨c1, c2, c3, c4, c5, c6⟩ := common Status.done (by intro h; cases h) (by intro h; cases h)
      refine ⟨inv.np, inv.nr, inv.qnodup, ?_, c1, c2, ?_, ?_, c3, c4, ?_, c5, ?_, ?_, c6⟩
      all_goals clean
      · intro n; clean
        show n ∈ s.queue ↔ upd s.st (Node.kid k) Status.done n = Status.queued
        by_cases hn : n = Node.kid k
        · subst hn; rw [upd_same]
          exact ⟨fun h => absurd h hknq, fun h => by cases h⟩
        · rw [upd_other _ _ _ _ hn]; exact inv.q n
      · intro n; clean
        show upd s.writes (Node.kid k) (s.writes (Node.kid k) + 1) n
          = if Settled (upd s.st (Node.kid k) Status.done n) then 1 else 0
        by_cases hn : n = Node.kid k
        · subst hn
          rw [upd_same, upd_same, if_pos settled_done, inv.wr, hkfresh, if_neg settled_fresh]
        · rw [upd_other _ _ _ _ hn, upd_other _ _ _ _ hn]; exact inv.wr n
      · intro n; clean
        show upd s.data (Node.kid k) (some (c.hash (c.applyDelta w.val k))) n
          = if Settled (upd s.st (Node.kid k) Status.done n) then _ else none
        by_cases hn : n = Node.kid k
        · subst hn
          rw [upd_same, upd_same, if_pos settled_done, hval]
        · rw [upd_other _ _ _ _ hn, upd_other _ _ _ _ hn]; exact inv.dat n
      · intro n k' hk'; clean
        show (upd s.st (Node.kid k) Status.done n = Status.fresh ∨ upd s.st (Node.kid k) Status.done n = Status.queued →
            upd s.st (Node.kid k) Status.done (Node.kid k') = Status.fresh)
          ∧ (upd s.st (Node.kid k) Status.done n = Status.done →
            upd s.st (Node.kid k) Status.done (Node.kid k') ≠ Status.fresh)
        by_cases hn : n = Node.kid k
        · -- a leaf has no children
          subst hn
          have : f.children (Node.kid k) = [] := by simpa using hleaf
          rw [this] at hk'; cases hk'
        · rw [upd_other _ _ _ _ hn]
          by_cases hkk : Node.kid k' = Node.kid k
          · cases hkk
            rw [upd_same]
            have hp : n = w.node := tk.parent n w.node k hk' hkmem
            subst hp
            rw [hheld]
            exact ⟨fun h => (by rcases h with h | h <;> cases h), fun h => by cases h⟩
          · rw [upd_other _ _ _ _ hkk]; exact inv.ch n k' hk'
      · intro j hj; clean
        have hjk : Node.kid j ≠ Node.kid k := by
          intro h; rw [h] at hj
          have : upd s.st (Node.kid k) Status.done (Node.kid k) = Status.queued := hj
          rw [upd_same] at this; cases this
        have : upd s.st (Node.kid k) Status.done (Node.kid j) = Status.queued := hj
        rw [upd_other _ _ _ _ hjk] at this
        exact inv.sto j this
      · intro j hj; clean
        have hjk : Node.kid j ≠ Node.kid k := by
          intro h; rw [h] at hj
          have : upd s.st (Node.kid k) Status.done (Node.kid k) = Status.queued
              ∨ upd s.st (Node.kid k) Status.done (Node.kid k) = Status.held := hj
          rw [upd_same] at this; rcases this with h | h <;> cases h
        have : upd s.st (Node.kid k) Status.done (Node.kid j) = Status.queued
            ∨ upd s.st (Node.kid k) Status.done (Node.kid j) = Status.held := hj
        rw [upd_other _ _ _ _ hjk] at this
        exact inv.leaf j this
    · obtain ⟨c1, c2, c3, c4, c5, c6⟩ := common Status.queued (by intro h; cases h) (by intro h; cases h)
      refine ⟨inv.np, inv.nr, nodup_snoc inv.qnodup hknq, ?_, c1, c2, ?_, ?_, c3, c4, ?_, c5, ?_, ?_, c6⟩
      all_goals clean
      · intro n; clean
        show n ∈ s.queue ++ [Node.kid k] ↔ upd s.st (Node.kid k) Status.queued n = Status.queued
        rw [mem_snoc]
        by_cases hn : n = Node.kid k
        · subst hn; simp [upd_same]
        · rw [upd_other _ _ _ _ hn, ← inv.q n]; simp [hn]
      · intro n; clean
        show s.writes n = if Settled (upd s.st (Node.kid k) Status.queued n) then 1 else 0
        by_cases hn : n = Node.kid k
        · subst hn
          rw [upd_same, if_neg settled_queued, inv.wr, hkfresh, if_neg settled_fresh]
        · rw [upd_other _ _ _ _ hn]; exact inv.wr n
      · intro n; clean
        show s.data n = if Settled (upd s.st (Node.kid k) Status.queued n) then _ else none
        by_cases hn : n = Node.kid k
        · subst hn
          rw [upd_same, if_neg settled_queued, inv.dat, hkfresh, if_neg settled_fresh]
        · rw [upd_other _ _ _ _ hn]; exact inv.dat n
      · intro n k' hk'; clean
        show (upd s.st (Node.kid k) Status.queued n = Status.fresh ∨ upd s.st (Node.kid k) Status.queued n = Status.queued →
            upd s.st (Node.kid k) Status.queued (Node.kid k') = Status.fresh)
          ∧ (upd s.st (Node.kid k) Status.queued n = Status.done →
            upd s.st (Node.kid k) Status.queued (Node.kid k') ≠ Status.fresh)
        have hk'k : Node.kid k' ≠ Node.kid k ∨ n = w.node := by
          by_cases hkk : Node.kid k' = Node.kid k
          · cases hkk; exact Or.inr (tk.parent n w.node k hk' hkmem)
          · exact Or.inl hkk
        by_cases hn : n = Node.kid k
        · subst hn
          rw [upd_same]
          have hkk : Node.kid k' ≠ Node.kid k := by
            intro h; cases h; exact absurd (tk.back k k hk') (Nat.lt_irrefl _)
          rw [upd_other _ _ _ _ hkk]
          exact ⟨fun _ => (inv.ch (Node.kid k) k' hk').1 (Or.inl hkfresh), fun h => by cases h⟩
        · rw [upd_other _ _ _ _ hn]
          rcases hk'k with hkk | hp
          · rw [upd_other _ _ _ _ hkk]; exact inv.ch n k' hk'
          · subst hp
            rw [hheld]
            exact ⟨fun h => (by rcases h with h | h <;> cases h), fun h => by cases h⟩
      · intro j hj; clean
        show lookupStored ((k, c.applyDelta w.val k) :: s.stored) j = _
        by_cases hjk : j = k
        · subst hjk; simp only [lookupStored, if_true]; rw [hval]
        · have hne : Node.kid j ≠ Node.kid k := by intro h; cases h; exact hjk rfl
          have : upd s.st (Node.kid k) Status.queued (Node.kid j) = Status.queued := hj
          rw [upd_other _ _ _ _ hne] at this
          simp only [lookupStored]
          rw [if_neg (fun h => hjk h.symm)]
          exact inv.sto j this
      · intro j hj; clean
        by_cases hjk : j = k
        · subst hjk; exact hinner
        · have hne : Node.kid j ≠ Node.kid k := by intro h; cases h; exact hjk rfl
          have : upd s.st (Node.kid k) Status.queued (Node.kid j) = Status.queued
              ∨ upd s.st (Node.kid k) Status.queued (Node.kid j) = Status.held := hj
          rw [upd_other _ _ _ _ hne] at this
          exact inv.leaf j this
  | done t =>
    obtain ⟨w, hw, hrem, rfl⟩ := inv_done hs
    obtain ⟨pre, hpre, hpre1, _⟩ := inv.rem t w hw
    have hheld : s.st w.node = Status.held := (inv.held w.node).mpr ⟨t, w, hw, rfl⟩
    have hwk : ∀ t' w', upd s.workers t none t' = some w' → t' ≠ t ∧ s.workers t' = some w' := by
      intro t' w' h; clean
      by_cases ht : t' = t
      · subst ht; rw [upd_same] at h; cases h
      · rw [upd_other _ _ _ _ ht] at h; exact ⟨ht, h⟩
    have hother : ∀ t' w', t' ≠ t → s.workers t' = some w' → w'.node ≠ w.node := by
      intro t' w' ht h' he; clean
      exact ht (inv.uniq t' t w' w h' hw he)
    refine ⟨inv.np, inv.nr, inv.qnodup, ?_, ?_, ?_, ?_, ?_, ?_, ?_, ?_, ?_, ?_, ?_, ?_⟩
    all_goals clean
    · intro n; clean
      show n ∈ s.queue ↔ upd s.st w.node Status.done n = Status.queued
      by_cases hn : n = w.node
      · subst hn; rw [upd_same]
        constructor
        · intro h; have := (inv.q _).mp h; rw [hheld] at this; cases this
        · intro h; cases h
      · rw [upd_other _ _ _ _ hn]; exact inv.q n
    · intro n; clean
      show upd s.st w.node Status.done n = Status.held ↔ ∃ t' w', upd s.workers t none t' = some w' ∧ w'.node = n
      by_cases hn : n = w.node
      · subst hn; rw [upd_same]
        constructor
        · intro h; cases h
        · rintro ⟨t', w', h', he⟩
          obtain ⟨ht, h''⟩ := hwk t' w' h'
          exact absurd he (hother t' w' ht h'')
      · rw [upd_other _ _ _ _ hn, inv.held n]
        constructor
        · rintro ⟨t', w', h', he⟩
          have : t' ≠ t := by intro h; subst h; rw [hw] at h'; cases h'; exact hn he.symm
          exact ⟨t', w', by rw [upd_other _ _ _ _ this]; exact h', he⟩
        · rintro ⟨t', w', h', he⟩
          exact ⟨t', w', (hwk t' w' h').2, he⟩
    · intro t1 t2 w1 w2 h1 h2 he; clean
      exact inv.uniq t1 t2 w1 w2 (hwk t1 w1 h1).2 (hwk t2 w2 h2).2 he
    · intro n; clean
      show s.writes n = if Settled (upd s.st w.node Status.done n) then 1 else 0
      by_cases hn : n = w.node
      · subst hn; rw [upd_same, if_pos settled_done, inv.wr, hheld, if_pos settled_held]
      · rw [upd_other _ _ _ _ hn]; exact inv.wr n
    · intro n; clean
      show s.data n = if Settled (upd s.st w.node Status.done n) then _ else none
      by_cases hn : n = w.node
      · subst hn; rw [upd_same, if_pos settled_done, inv.dat, hheld, if_pos settled_held]
      · rw [upd_other _ _ _ _ hn]; exact inv.dat n
    · intro t' w' h'; exact inv.wval t' w' (hwk t' w' h').2
    · intro t' w' h'; clean
      obtain ⟨ht, h''⟩ := hwk t' w' h'
      obtain ⟨pre', h1, h2, h3⟩ := inv.rem t' w' h''
      refine ⟨pre', h1, ?_, ?_⟩
      all_goals clean
      · intro k hk; clean
        show upd s.st w.node Status.done (Node.kid k) ≠ Status.fresh
        by_cases hkn : Node.kid k = w.node
        · rw [hkn, upd_same]; intro h; cases h
        · rw [upd_other _ _ _ _ hkn]; exact h2 k hk
      · intro k hk; clean
        show upd s.st w.node Status.done (Node.kid k) = Status.fresh
        have hkn : Node.kid k ≠ w.node := by
          intro h; have := h3 k hk; rw [h, hheld] at this; cases this
        rw [upd_other _ _ _ _ hkn]; exact h3 k hk
    · intro n k hk; clean
      show (upd s.st w.node Status.done n = Status.fresh ∨ upd s.st w.node Status.done n = Status.queued →
          upd s.st w.node Status.done (Node.kid k) = Status.fresh)
        ∧ (upd s.st w.node Status.done n = Status.done → upd s.st w.node Status.done (Node.kid k) ≠ Status.fresh)
      by_cases hn : n = w.node
      · subst hn
        rw [upd_same]
        refine ⟨fun h => (by rcases h with h | h <;> cases h), fun _ => ?_⟩
        all_goals clean
        have hkp : k ∈ pre := by
          have : k ∈ pre ++ w.rem := hpre ▸ hk
          rw [hrem] at this; simpa using this
        by_cases hkn : Node.kid k = w.node
        · rw [hkn, upd_same]; intro h; cases h
        · rw [upd_other _ _ _ _ hkn]; exact hpre1 k hkp
      · rw [upd_other _ _ _ _ hn]
        by_cases hkn : Node.kid k = w.node
        · rw [hkn, upd_same]
          constructor
          · intro h; clean
            have := (inv.ch n k hk).1 h
            rw [hkn, hheld] at this; cases this
          · intro _ h; cases h
        · rw [upd_other _ _ _ _ hkn]; exact inv.ch n k hk
    · intro i; clean
      show upd s.st w.node Status.done (Node.root i) = Status.fresh ↔ s.nextRoot ≤ i
      by_cases hx : Node.root i = w.node
      · rw [hx, upd_same]
        constructor
        · intro h; cases h
        · intro h; clean
          have := (inv.roots i).mpr h
          rw [hx, hheld] at this; cases this
      · rw [upd_other _ _ _ _ hx]; exact inv.roots i
    · intro j hj; clean
      have hjn : Node.kid j ≠ w.node := by
        intro h; rw [h] at hj
        have : upd s.st w.node Status.done w.node = Status.queued := hj
        rw [upd_same] at this; cases this
      have : upd s.st w.node Status.done (Node.kid j) = Status.queued := hj
      rw [upd_other _ _ _ _ hjn] at this
      exact inv.sto j this
    · intro j hj; clean
      by_cases hjn : Node.kid j = w.node
      · exact inv.leaf j (Or.inr (hjn ▸ hheld))
      · have : upd s.st w.node Status.done (Node.kid j) = Status.queued
            ∨ upd s.st w.node Status.done (Node.kid j) = Status.held := hj
        rw [upd_other _ _ _ _ hjn] at this
        exact inv.leaf j this
    · intro n hn; clean
      show upd s.st w.node Status.done n = Status.fresh
      have hxn : n ≠ w.node := by
        intro h; subst h
        have := inv.inval _ hn; rw [hheld] at this; cases this
      rw [upd_other _ _ _ _ hxn]; exact inv.inval n hn

theorem run_inv {f : Forest} {c : Codec V Id} {val : Node → V} (tk : TreeOk f) (vk : ValOk f c val)
    (sched : List Ev) {s s' : St V Id} (inv : Inv f c val s) (hr : run f c s sched = some s') :
    Inv f c val s' := by
  induction sched generalizing s with
  | nil => cases hr; exact inv
  | cons e es ih =>
    simp only [run] at hr
    split at hr
    · rename_i s1 hs1; exact ih (step_inv tk vk inv hs1) hr
    · cases hr

end GixModel.C10
