import GixModel.Lemmas.C52Rfc
/-
C52 — the cascade of `parse()`: generic pieces. A branch that is not meant for a text rejects it.
-/
namespace GixModel.C52
open GixModel GixModel.Civil

/-- one branch of the cascade -/
def branch (c : Nat) (input : Bytes) : Option (Option Time) :=
  if c = 0 then parseDate (fmtOfCode 0) input
  else if c = 1 then (parseRfc2822 input).map some
  else (parseZoned (fmtOfCode c) input).map some

theorem cascade_cons (input : Bytes) (c : Nat) (rest : List Nat) :
    cascade input (c :: rest) = match branch c input with | some x => some x | none => cascade input rest := rfl

theorem cascade_skip {input : Bytes} {c : Nat} {rest : List Nat} (h : branch c input = none) :
    cascade input (c :: rest) = cascade input rest := by
  rw [cascade_cons, h]

theorem cascade_hit {input : Bytes} {c : Nat} {rest : List Nat} {x : Option Time} (h : branch c input = some x) :
    cascade input (c :: rest) = some x := by
  rw [cascade_cons, h]

/-! ### a format's own prefix -/

theorem strftime_append (i1 i2 : List Item) (b : Broken) : strftime (i1 ++ i2) b = strftime i1 b ++ strftime i2 b := by
  simp [strftime]

theorem chainOk_tail {it : Item} {next : List Item} (h : chainOk (it :: next) = true) : chainOk next = true := by
  simp only [chainOk, Bool.and_eq_true] at h; exact h.1

/-- parsing with a prefix of the format the text was written with: succeeds and leaves the rest -/
theorem parseItems_prefix (b : Broken) (hb : BrokenOk b) (i2 : List Item) :
    ∀ (i1 : List Item) (f : Fields), chainOk (i1 ++ i2) = true →
      parseItems i1 f (strftime (i1 ++ i2) b) = some (applyAll i1 b f, strftime i2 b) := by
  intro i1
  induction i1 with
  | nil => intro f _; rfl
  | cons it next ih =>
    intro f h
    have hr := restOk_of_chain it (next ++ i2) b hb h
    rw [List.cons_append, strftime_cons]
    simp only [parseItems, parseItem_fmt it b hb f _ hr]
    rw [ih (upd it b f) (chainOk_tail h)]
    rfl

theorem parseItems_fail_first {it : Item} {rest : List Item} {f : Fields} {inp : Bytes}
    (h : parseItem it f inp = none) : parseItems (it :: rest) f inp = none := by
  simp [parseItems, h]

theorem parseItems_append (i1 i2 : List Item) : ∀ (f : Fields) (inp : Bytes),
    parseItems (i1 ++ i2) f inp = match parseItems i1 f inp with
      | none => none
      | some (f', inp') => parseItems i2 f' inp' := by
  induction i1 with
  | nil => intro f inp; rfl
  | cons it next ih =>
    intro f inp
    simp only [List.cons_append, parseItems]
    cases parseItem it f inp with
    | none => rfl
    | some p => exact ih p.1 p.2

/-! ### `%Y` and `%a` on the wrong kind of text -/

theorem parseNumber_nodigit (k : Nat) (noPad : Bool) (x : UInt8) (r : Bytes) (hx : isDigit x = false) :
    parseNumber k noPad (x :: r) = none := by
  have hx48 : (x == 48) = false := by
    cases h : (x == 48) with
    | false => rfl
    | true => have : x = 48 := by simpa using h
              subst this; simp [isDigit] at hx
  unfold parseNumber
  cases k with
  | zero => simp
  | succ k =>
    cases noPad <;> simp [List.takeWhile_cons, hx48, isDigitB, hx]

theorem parseItem_Y_nodigit (f : Fields) (x : UInt8) (r : Bytes) (hx : isDigit x = false) (h45 : x ≠ 45) (h43 : x ≠ 43) :
    parseItem .Y f (x :: r) = none := by
  have hos : optSign (x :: r) = (false, x :: r) := by
    unfold optSign
    split
    · rename_i h; exact absurd (List.cons.inj h).1 h45
    · rename_i h; exact absurd (List.cons.inj h).1 h43
    · rfl
  simp [parseItem, hos, parseNumber_nodigit 4 false x r hx]

theorem parseItem_H_nodigit (f : Fields) (x : UInt8) (r : Bytes) (hx : isDigit x = false) :
    parseItem .H f (x :: r) = none := by
  simp [parseItem, parseNumber_nodigit 2 false x r hx]

theorem forall_u8'' (p : UInt8 → Bool) (h : (List.range 256).all (fun n => p (UInt8.ofNat n)) = true) :
    ∀ c : UInt8, p c = true := by
  intro c
  have := List.all_eq_true.mp h c.toNat (by simp [List.mem_range]; exact c.toNat_lt)
  simpa using this

/-- no weekday abbreviation starts with a digit or a sign -/
theorem not_weekday_start (x : UInt8) (hx : isDigit x = true ∨ x = 45 ∨ x = 43) :
    asciiLower x ≠ 115 ∧ asciiLower x ≠ 109 ∧ asciiLower x ≠ 116 ∧ asciiLower x ≠ 119 ∧ asciiLower x ≠ 102 := by
  have := forall_u8'' (fun x => !(isDigit x || x == 45 || x == 43) ||
    (asciiLower x != 115 && asciiLower x != 109 && asciiLower x != 116 && asciiLower x != 119 && asciiLower x != 102))
    (by decide +kernel) x
  have hc : (isDigit x || x == 45 || x == 43) = true := by
    rcases hx with h | h | h
    · simp [h]
    · subst h; decide
    · subst h; decide
  simp only [hc, Bool.not_true, Bool.false_or, Bool.and_eq_true, bne_iff_ne, ne_eq] at this
  exact ⟨this.1.1.1.1, this.1.1.1.2, this.1.1.2, this.1.2, this.2⟩

theorem indexOf3_weekday_none (x a b : UInt8)
    (h : x ≠ 115 ∧ x ≠ 109 ∧ x ≠ 116 ∧ x ≠ 119 ∧ x ≠ 102) : indexOf3 weekdayNames [x, a, b] = none := by
  obtain ⟨h1, h2, h3, h4, h5⟩ := h
  have e1 : ((115 : UInt8) == x) = false := by simpa using fun h => h1 h.symm
  have e2 : ((109 : UInt8) == x) = false := by simpa using fun h => h2 h.symm
  have e3 : ((116 : UInt8) == x) = false := by simpa using fun h => h3 h.symm
  have e4 : ((119 : UInt8) == x) = false := by simpa using fun h => h4 h.symm
  have e5 : ((102 : UInt8) == x) = false := by simpa using fun h => h5 h.symm
  simp [indexOf3, weekdayNames, asciiLower, List.findIdx_cons, e1, e2, e3, e4, e5]

theorem parseItem_a_nonletter (f : Fields) (inp : Bytes) (hhead : ∀ x r, inp = x :: r → isDigit x = true ∨ x = 45 ∨ x = 43) :
    parseItem .a f inp = none := by
  cases inp with
  | nil => simp [parseItem]
  | cons x r =>
    have hx := not_weekday_start x (hhead x r rfl)
    cases r with
    | nil => simp [parseItem, lower3]
    | cons a r2 =>
      cases r2 with
      | nil => simp [parseItem, lower3]
      | cons b r3 =>
        simp [parseItem, lower3, indexOf3_weekday_none _ _ _ hx]

end GixModel.C52
