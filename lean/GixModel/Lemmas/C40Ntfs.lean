import GixModel.Lemmas.C40Hfs
/-
C40 — lemmas, part 3: NTFS. git's `is_ntfs_dotgit` / `is_ntfs_dot_generic` (list walkers in the spec)
against gitoxide's `is_dot_git_ntfs` / `is_dot_ntfs` (index based), for names without '/' and '\\'.
-/
namespace GixModel.C40
open GixModel

theorem toLower_eq (b : UInt8) : toLower b = Spec.C40.toLower b := rfl

theorem toLower_needle (n : UInt8) (h : (97 ≤ n && n ≤ 122) = true) : toLower n = n :=
  (lower_needle n h).1

theorem doneNtfs_eq (l : Bytes) : doneNtfsSlice l = Spec.C40.ntfsGenericTail l := by
  induction l with
  | nil => rfl
  | cons b l ih => simp only [doneNtfsSlice, Spec.C40.ntfsGenericTail, ih]

/-- `is_ntfs_dotgit`'s tail accepts more terminators ('/' and '\\'); without them it is gitoxide's -/
theorem doneNtfs_of_dotgitTail (l : Bytes) (h : Spec.C40.ntfsDotgitTail l = true)
    (h47 : l.contains 47 = false) (h92 : l.contains 92 = false) : doneNtfsSlice l = true := by
  induction l with
  | nil => rfl
  | cons b l ih =>
    simp only [List.contains_cons, Bool.or_eq_false_iff] at h47 h92
    have e47 : (b == 47) = false := by
      cases hb : b == 47
      · rfl
      · have : b = 47 := by simpa using hb
        subst this; simp at h47
    have e92 : (b == 92) = false := by
      cases hb : b == 92
      · rfl
      · have : b = 92 := by simpa using hb
        subst this; simp at h92
    simp only [Spec.C40.ntfsDotgitTail, e47, e92, Bool.false_or] at h
    simp only [doneNtfsSlice]
    by_cases h58 : (b == 58) = true
    · simp [h58]
    · have h58' := bfalse h58
      simp only [h58', Bool.false_eq_true, if_false] at h ⊢
      by_cases hd : (b != 46 && b != 32) = true
      · simp [hd] at h
      · have hd' := bfalse hd
        simp only [hd', Bool.false_eq_true, if_false] at h
        have : (b != 32 && b != 46) = false := by
          rw [Bool.and_comm]; exact hd'
        simp only [this, Bool.false_eq_true, if_false]
        exact ih h h47.2 h92.2

theorem eqIC_of_hasPrefix : ∀ (l needle : Bytes), needleOk needle = true → Spec.C40.hasPrefixIC l needle = true →
    needle.length ≤ l.length ∧ eqIC (l.take needle.length) needle = true := by
  intro l needle
  induction needle generalizing l with
  | nil => intro _ _; simp [eqIC]
  | cons n ns ih =>
    intro hn h
    simp only [needleOk, List.all_cons, Bool.and_eq_true] at hn
    cases l with
    | nil => simp [Spec.C40.hasPrefixIC] at h
    | cons a l =>
      simp only [Spec.C40.hasPrefixIC, Bool.and_eq_true, beq_iff_eq] at h
      obtain ⟨i1, i2⟩ := ih l (by simpa [needleOk] using hn.2) h.2
      refine ⟨by simp; omega, ?_⟩
      simp only [List.length_cons, List.take_succ_cons, eqIC, Bool.and_eq_true, beq_iff_eq]
      refine ⟨?_, i2⟩
      rw [toLower_needle n (by simp only [Bool.and_eq_true]; exact hn.1), toLower_eq]
      exact h.1

theorem getRange_zero (l : Bytes) (n : Nat) (h : n ≤ l.length) : getRange l 0 n = some (l.take n) := by
  simp [getRange, h]

theorem getFrom_le (l : Bytes) (n : Nat) (h : n ≤ l.length) : getFrom l n = some (l.drop n) := by
  simp [getFrom, h]

theorem sl46 : Spec.C40.toLower 46 = 46 := by decide
theorem sl103 : Spec.C40.toLower 103 = 103 := by decide
theorem sl105 : Spec.C40.toLower 105 = 105 := by decide
theorem sl116 : Spec.C40.toLower 116 = 116 := by decide
theorem sl126 : Spec.C40.toLower 126 = 126 := by decide
theorem sl49 : Spec.C40.toLower 49 = 49 := by decide

theorem isDotGitNtfs_of_git (c : Bytes) (h : Spec.C40.isNtfsDotgit c = true)
    (h47 : c.contains 47 = false) (h92 : c.contains 92 = false) : isDotGitNtfs c = true := by
  unfold Spec.C40.isNtfsDotgit at h
  split at h
  · rename_i g i t rest
    split at h
    · rename_i hc
      simp only [Bool.and_eq_true, beq_iff_eq] at hc
      simp only [List.contains_cons, Bool.or_eq_false_iff] at h47 h92
      have hd := doneNtfs_of_dotgitTail rest h h47.2.2.2.2 h92.2.2.2.2
      unfold isDotGitNtfs
      rw [getRange_zero _ 4 (by simp), getFrom_le _ 4 (by simp)]
      have : eqIC (List.take 4 (46 :: g :: i :: t :: rest)) [46, 103, 105, 116] = true := by
        simp only [List.take_succ_cons, List.take_zero, eqIC, toLower_eq, hc.1.1, hc.1.2, hc.2, sl46, sl103,
          sl105, sl116, beq_self_eq_true, Bool.and_self]
      simp only [this, if_true, isDoneNtfs]
      exact hd
    · cases h
  · rename_i g i t rest _
    split at h
    · rename_i hc
      simp only [Bool.and_eq_true, beq_iff_eq] at hc
      simp only [List.contains_cons, Bool.or_eq_false_iff] at h47 h92
      have hd := doneNtfs_of_dotgitTail rest h h47.2.2.2.2.2 h92.2.2.2.2.2
      unfold isDotGitNtfs
      rw [getRange_zero _ 4 (by simp), getRange_zero _ 5 (by simp), getFrom_le _ 5 (by simp)]
      have e1 : eqIC (List.take 4 (g :: i :: t :: 126 :: 49 :: rest)) [46, 103, 105, 116] = false := by
        have : (Spec.C40.toLower g == 46) = false := by rw [hc.1.1]; decide
        simp only [List.take_succ_cons, List.take_zero, eqIC, toLower_eq, sl46, this, Bool.false_and]
      have e2 : eqIC (List.take 5 (g :: i :: t :: 126 :: 49 :: rest)) [103, 105, 116, 126, 49] = true := by
        simp only [List.take_succ_cons, List.take_zero, eqIC, toLower_eq, hc.1.1, hc.1.2, hc.2, sl103,
          sl105, sl116, sl126, sl49, beq_self_eq_true, Bool.and_self]
      simp only [e1, e2, Bool.false_eq_true, if_false, if_true, isDoneNtfs]
      exact hd
    · cases h
  · cases h

theorem isDone_getFrom (l : Bytes) (n : Nat) : isDoneNtfs (getFrom l n) = doneNtfsSlice (l.drop n) := by
  unfold getFrom
  by_cases h : n ≤ l.length
  · simp [h, isDoneNtfs]
  · have : l.drop n = [] := List.drop_eq_nil_of_le (by omega)
    simp [h, isDoneNtfs, this, doneNtfsSlice]

theorem digit09 (c : UInt8) : (decide (c < 48) || decide (c > 57)) = !(decide (48 ≤ c) && decide (c ≤ 57)) := by
  revert c; apply forall_byte; decide +kernel
theorem digit19 (c : UInt8) : (decide (c < 49) || decide (c > 57)) = !(decide (49 ≤ c) && decide (c ≤ 57)) := by
  revert c; apply forall_byte; decide +kernel
theorem hibit (c : UInt8) : (c &&& 0x80 != 0) = (c &&& 0x80 == 0x80) := by
  revert c; apply forall_byte; decide +kernel

theorem drop_cons_of_getElem? {l : Bytes} {i : Nat} {c : UInt8} (h : l[i]? = some c) :
    l.drop i = c :: l.drop (i + 1) := by
  have hlt : i < l.length := (List.getElem?_eq_some_iff.1 h).1
  have := List.drop_eq_getElem_cons hlt
  rw [this]
  congr 1
  exact (List.getElem?_eq_some_iff.1 h).2

theorem drop_nil_of_getElem? {l : Bytes} {i : Nat} (h : l[i]? = none) : l.drop i = [] :=
  List.drop_eq_nil_of_le (by simpa using h)

/-- the fall-back short-name loop: git's list walker and gitoxide's index loop agree -/
theorem fallback_rel (input pfx : Bytes) (hp : ∀ x ∈ pfx, toLower x = x) :
    ∀ (fuel i : Nat) (st : Bool) (rest : Bytes),
      Spec.C40.ntfsFallback pfx fuel i st (input.drop i) = some rest →
      ∃ pos, ntfsShortLoop input pfx fuel i st = some pos ∧ rest = input.drop pos := by
  intro fuel
  induction fuel with
  | zero =>
    intro i st rest h
    simp only [Spec.C40.ntfsFallback, Option.some.injEq] at h
    exact ⟨i, rfl, h.symm⟩
  | succ fuel ih =>
    intro i st rest h
    unfold Spec.C40.ntfsFallback at h
    unfold ntfsShortLoop
    by_cases h8 : i ≥ 8
    · simp only [h8, if_true, Option.some.injEq] at h ⊢
      exact ⟨i, rfl, h.symm⟩
    simp only [h8, if_false] at h ⊢
    cases hg : input[i]? with
    | none => rw [drop_nil_of_getElem? hg] at h; simp at h
    | some c =>
      rw [drop_cons_of_getElem? hg] at h
      simp only at h ⊢
      cases st with
      | true =>
        simp only [if_true] at h ⊢
        rw [← digit09]
        by_cases hd : (decide (c < 48) || decide (c > 57)) = true
        · simp [hd] at h
        · simp only [bfalse hd, Bool.false_eq_true, if_false] at h ⊢
          exact ih _ _ _ h
      | false =>
        simp only [Bool.false_eq_true, if_false] at h ⊢
        by_cases ht : (c == 126) = true
        · simp only [ht, if_true] at h ⊢
          cases hg2 : input[i + 1]? with
          | none => rw [drop_nil_of_getElem? hg2] at h; simp at h
          | some d =>
            rw [drop_cons_of_getElem? hg2] at h
            simp only at h ⊢
            rw [← digit19]
            by_cases hd : (decide (d < 49) || decide (d > 57)) = true
            · simp [hd] at h
            · simp only [bfalse hd, Bool.false_eq_true, if_false] at h ⊢
              exact ih _ _ _ h
        · simp only [bfalse ht, Bool.false_eq_true, if_false] at h ⊢
          by_cases h6 : i ≥ 6
          · simp [h6] at h
          simp only [h6, if_false] at h
          by_cases hh : (c &&& 0x80 != 0) = true
          · simp [hh] at h
          simp only [bfalse hh, Bool.false_eq_true, if_false] at h
          by_cases hm : (some (Spec.C40.toLower c) != pfx[i]?) = true
          · simp [hm] at h
          simp only [bfalse hm, Bool.false_eq_true, if_false] at h
          have hm' : pfx[i]? = some (Spec.C40.toLower c) := by
            have := bfalse hm; simp only [bne, Bool.not_eq_false', beq_iff_eq] at this; exact this.symm
          have hmem : Spec.C40.toLower c ∈ pfx := List.mem_of_getElem? hm'
          rw [hm']
          have e1 : decide (i ≥ 6) = false := by simp [h6]
          have e2 : (c &&& 0x80 == 0x80) = false := by rw [← hibit]; exact bfalse hh
          have e3 : (toLower c == toLower (Spec.C40.toLower c)) = true := by
            rw [hp _ hmem, toLower_eq]; simp
          simp only [e1, e2, e3, Bool.false_or, Bool.not_true, Bool.false_eq_true, if_false]
          exact ih _ _ _ h

theorem hasPrefix_eq : ∀ (l needle : Bytes), needleOk needle = true →
    Spec.C40.hasPrefixIC l needle = (decide (needle.length ≤ l.length) && eqIC (l.take needle.length) needle) := by
  intro l needle
  induction needle generalizing l with
  | nil => intro _; simp [Spec.C40.hasPrefixIC, eqIC]
  | cons n ns ih =>
    intro hn
    simp only [needleOk, List.all_cons, Bool.and_eq_true] at hn
    cases l with
    | nil => simp [Spec.C40.hasPrefixIC]
    | cons a l =>
      simp only [Spec.C40.hasPrefixIC, List.length_cons, List.take_succ_cons, eqIC]
      rw [ih l (by simpa [needleOk] using hn.2),
        toLower_needle n (by simp only [Bool.and_eq_true]; exact hn.1), toLower_eq]
      have : decide (ns.length + 1 ≤ l.length + 1) = decide (ns.length ≤ l.length) := by
        by_cases h : ns.length ≤ l.length <;> simp [h]
      rw [this]
      cases (Spec.C40.toLower a == n) <;> cases decide (ns.length ≤ l.length) <;> simp

theorem gi7eba_lower : ∀ x ∈ gi7eba, toLower x = x := by decide

theorem isDotNtfs_of_git (c : Bytes) (h : Spec.C40.isNtfsDotgitmodules c = true) :
    isDotNtfs c gitmodules gi7eba = true := by
  unfold Spec.C40.isNtfsDotgitmodules Spec.C40.isNtfsDotGeneric at h
  have hnk : needleOk Spec.C40.needleGitmodules = true := by decide
  have hnk6 : needleOk (Spec.C40.needleGitmodules.take 6) = true := by decide
  unfold isDotNtfs
  by_cases hA : (c.head? == some 46 && Spec.C40.hasPrefixIC (c.drop 1) Spec.C40.needleGitmodules) = true
  · simp only [hA, if_true] at h
    simp only [Bool.and_eq_true, beq_iff_eq] at hA
    rw [hasPrefix_eq _ _ hnk] at hA
    simp only [Bool.and_eq_true, decide_eq_true_eq] at hA
    obtain ⟨hh, hl, he⟩ := hA
    have hlen : 11 ≤ c.length := by
      have : Spec.C40.needleGitmodules.length = 10 := rfl
      rw [this, List.length_drop] at hl; omega
    have hr : getRange c 1 (1 + gitmodules.length) = some ((c.drop 1).take 10) := by
      have : gitmodules.length = 10 := rfl
      simp [getRange, this, hlen]
    have he' : eqIC ((c.drop 1).take 10) gitmodules = true := he
    simp only [hh, beq_self_eq_true, if_true, hr, he', isDone_getFrom, doneNtfs_eq]
    exact h
  · have hA' := bfalse hA
    simp only [hA', Bool.false_eq_true, if_false] at h
    by_cases hh : c.head? = some 46
    · -- a leading '.' that is not ".gitmodules": neither short-name form can match
      exfalso
      cases c with
      | nil => simp at hh
      | cons x tl =>
        simp only [List.head?_cons, Option.some.injEq] at hh
        subst hh
        have hB : Spec.C40.hasPrefixIC (46 :: tl) (Spec.C40.needleGitmodules.take 6) = false := by
          simp [Spec.C40.needleGitmodules, Spec.C40.hasPrefixIC, sl46]
        simp only [hB, Bool.false_and, Bool.false_eq_true, if_false] at h
        have hF : Spec.C40.ntfsFallback [103, 105, 55, 101, 98, 97] 9 0 false (46 :: tl) = none := by
          simp [Spec.C40.ntfsFallback, sl46]
        simp [hF] at h
    · have hh' : (c.head? == some 46) = false := by
        cases hq : c.head? == some 46
        · rfl
        · exact absurd (by simpa using hq) hh
      simp only [hh', Bool.false_eq_true, if_false]
      have hg6 : getRange gitmodules 0 6 = some (Spec.C40.needleGitmodules.take 6) := by decide
      rw [hg6]
      have hB : Spec.C40.hasPrefixIC c (Spec.C40.needleGitmodules.take 6)
          = (match getRange c 0 6 with | some f6 => eqIC f6 (Spec.C40.needleGitmodules.take 6) | none => false) := by
        rw [hasPrefix_eq _ _ hnk6]
        have : (Spec.C40.needleGitmodules.take 6).length = 6 := rfl
        rw [this]
        by_cases hl : 6 ≤ c.length
        · simp [getRange, hl]
        · simp [getRange, hl]
      have hfall : ∀ rest, Spec.C40.ntfsFallback [103, 105, 55, 101, 98, 97] 9 0 false c = some rest →
          Spec.C40.ntfsGenericTail rest = true →
          (match ntfsShortLoop c gi7eba 9 0 false with
            | none => false
            | some pos => isDoneNtfs (getFrom c pos)) = true := by
        intro rest hf ht
        obtain ⟨pos, hp, hr⟩ := fallback_rel c gi7eba gi7eba_lower 9 0 false rest
          (show Spec.C40.ntfsFallback gi7eba 9 0 false (c.drop 0) = some rest from hf)
        simp only [hp, isDone_getFrom, doneNtfs_eq, ← hr]
        exact ht
      cases hq : getRange c 0 6 with
      | none =>
        rw [hq] at hB
        simp only [hB, Bool.false_and, Bool.false_eq_true, if_false] at h ⊢
        cases hf : Spec.C40.ntfsFallback [103, 105, 55, 101, 98, 97] 9 0 false c with
        | none => simp [hf] at h
        | some rest => rw [hf] at h; exact hfall rest hf h
      | some f6 =>
        rw [hq] at hB
        simp only [hB] at h
        simp only
        cases h7 : c[7]? with
        | none =>
          simp only [h7, Bool.and_false, Bool.false_eq_true, if_false] at h ⊢
          cases hf : Spec.C40.ntfsFallback [103, 105, 55, 101, 98, 97] 9 0 false c with
          | none => simp [hf] at h
          | some rest => rw [hf] at h; exact hfall rest hf h
        | some d =>
          simp only [h7] at h ⊢
          by_cases hBc : (eqIC f6 (Spec.C40.needleGitmodules.take 6) && c[6]? == some 126
              && (decide (49 ≤ d) && decide (d ≤ 52))) = true
          · rw [if_pos hBc] at h
            rw [if_pos hBc]
            rw [isDone_getFrom, doneNtfs_eq]
            exact h
          · rw [if_neg hBc] at h
            rw [if_neg hBc]
            cases hf : Spec.C40.ntfsFallback [103, 105, 55, 101, 98, 97] 9 0 false c with
            | none => simp [hf] at h
            | some rest => rw [hf] at h; exact hfall rest hf h
end GixModel.C40
