import GixModel.Lemmas.C20Dirs
/-
C20 helper lemmas, part 7: leftovers. Which reflog operations a transaction performs, and that a
file nobody unlinks or renames away stays: a reflog created for an updated ref is still there when
the transaction is complete.
-/
namespace GixModel.C20
open GixModel

/-- the reflog operations of the steps: create/append for an updated ref, unlink for a deleted one -/
def LogOpOf (txn : List Edit) (op : FsOp) : Prop :=
  (∃ n new, Edit.update n new ∈ txn ∧ (op = .create (logPath n) ∨ ∃ bs, op = .append (logPath n) bs)) ∨
  (∃ n, Edit.delete n ∈ txn ∧ op = .unlink (logPath n))

theorem mem_reflogOps_log {c : Cfg} {s : Store} {g : G} {n : Name} {h : Bytes} {op : FsOp}
    (ho : op ∈ reflogOps c s g n h) (hd : op.isDirOp = false) :
    op = .create (logPath n) ∨ ∃ bs, op = .append (logPath n) bs := by
  unfold reflogOps at ho
  split at ho
  · cases ho
  · split at ho
    · rcases List.mem_append.mp ho with ho | ho
      · obtain ⟨d, _, _, rfl⟩ := mem_mkdirAll ho; simp [FsOp.isDirOp] at hd
      · rcases List.mem_append.mp ho with ho | ho
        · split at ho
          · cases ho
          · simp at ho; exact .inl ho
        · simp at ho; exact .inr ⟨_, ho⟩
    · split at ho
      · simp at ho; exact .inr ⟨_, ho⟩
      · cases ho

theorem steps_logOps (c : Cfg) (s : Store) (txn : List Edit) (href : ∀ e ∈ txn, isRefName e.name = true)
    {op : FsOp} (ho : op ∈ txnSteps c s txn) (hl : isLogOp op = true) (hd : op.isDirOp = false) :
    LogOpOf txn op := by
  have nolog_lock : ∀ e ∈ txn, isLogPath (lockPath e.name) = false := fun e he => not_isLogPath_lockPath (href e he)
  have nolog_name : ∀ e ∈ txn, isLogPath e.name = false := fun e he => not_isLogPath_refName (href e he)
  simp only [txnSteps, List.mem_append] at ho
  rcases ho with ((((ho | ho) | ho) | ho) | ho) | ho
  · split at ho
    · simp at ho; subst ho; simp [isLogOp, FsOp.touches, not_isLogPath_packed.2] at hl
    · cases ho
  · obtain ⟨e, he, g', h'⟩ := mem_prepEdits ho
    have h1 := nolog_lock e he
    cases e with
    | delete n =>
      simp only [prepEdit] at h'
      split at h'
      · cases h'
      · rcases List.mem_append.mp h' with h' | h'
        · obtain ⟨d, _, _, rfl⟩ := mem_mkdirAll h'; simp [FsOp.isDirOp] at hd
        · simp at h'; subst h'; simp [isLogOp, FsOp.touches, Edit.name] at hl h1; rw [h1] at hl; cases hl
    | update n new =>
      simp only [prepEdit, List.mem_append] at h'
      rcases h' with (h' | h') | h'
      · obtain ⟨d, _, _, rfl⟩ := mem_mkdirAll h'; simp [FsOp.isDirOp] at hd
      · simp at h'; subst h'; simp [isLogOp, FsOp.touches, Edit.name] at hl h1; rw [h1] at hl; cases hl
      · simp only [writeOps, List.mem_map] at h'
        obtain ⟨x, _, rfl⟩ := h'
        simp [isLogOp, FsOp.touches, Edit.name] at hl h1; rw [h1] at hl; cases hl
  · obtain ⟨e, he, g', h'⟩ := mem_commitUpdates ho
    have h1 := nolog_lock e he
    cases e with
    | delete n => simp [commitUpdate] at h'
    | update n new =>
      cases new with
      | sym t =>
        simp [commitUpdate] at h'; subst h'
        simp [isLogOp, FsOp.touches, Edit.name] at hl h1; rw [h1] at hl; simp at hl
      | id hx =>
        simp only [commitUpdate, List.mem_append] at h'
        rcases h' with h' | h'
        · exact .inl ⟨n, .id hx, he, mem_reflogOps_log h' hd⟩
        · simp at h'; subst h'
          simp [isLogOp, FsOp.touches, Edit.name] at hl h1; rw [h1] at hl; simp at hl
  · obtain ⟨e, he, g', h'⟩ := mem_logDeletes ho
    cases e with
    | update n new => simp [logDelete] at h'
    | delete n =>
      simp only [logDelete] at h'
      split at h'
      · rcases List.mem_cons.mp h' with rfl | h'
        · exact .inr ⟨n, he, rfl⟩
        · obtain ⟨d, _, _, rfl⟩ := mem_rmdirUp h'; simp [FsOp.isDirOp] at hd
      · cases h'
  · have ht := packedCommit_touches c s txn op ho
    have hp := not_isLogPath_packed
    cases hts : op.touches with
    | nil => cases op <;> simp [FsOp.touches] at hts
    | cons t ts =>
      have := List.all_eq_true.mp hl t (by simp [hts])
      rcases ht t (by simp [hts]) with rfl | rfl
      · rw [hp.1] at this; cases this
      · rw [hp.2] at this; cases this
  · obtain ⟨e, he, g', h'⟩ := mem_looseDeletes ho
    have h1 := nolog_lock e he
    have h2 := nolog_name e he
    cases e with
    | update n new => simp [looseDelete] at h'
    | delete n =>
      simp only [Edit.name] at h1 h2
      have hun : ∀ o : FsOp, (o = .unlink n ∨ o = .unlink (lockPath n)) → isLogOp o = true → False := by
        intro o ho' hlo
        rcases ho' with rfl | rfl
        · simp [isLogOp, FsOp.touches] at hlo; rw [h2] at hlo; cases hlo
        · simp [isLogOp, FsOp.touches] at hlo; rw [h1] at hlo; cases hlo
      simp only [looseDelete] at h'
      split at h'
      · split at h'
        · simp at h'; exact (hun op (.inl h') hl).elim
        · cases h'
      · simp only [List.mem_append] at h'
        rcases h' with (h' | h') | h'
        · split at h'
          · simp at h'; exact (hun op (.inl h') hl).elim
          · cases h'
        · simp at h'; exact (hun op (.inr h') hl).elim
        · obtain ⟨d, _, _, rfl⟩ := mem_rmdirUp h'; simp [FsOp.isDirOp] at hd

/-- the paths an operation takes a file away from -/
def FsOp.removes : FsOp → List Path
  | .unlink p => [p]
  | .rename s _ => [s]
  | _ => []

theorem fileAt_keep (op : FsOp) (fs : Fs) (p : Path) (hr : p ∉ op.removes)
    (h : (fileAt fs p).isSome = true) : (fileAt (op.apply fs) p).isSome = true := by
  by_cases hp : p ∈ op.touches
  · obtain ⟨c0, hc0⟩ : ∃ c0, fs p = some (.file c0) := by
      cases hq : fs p with
      | none => simp [fileAt, hq] at h
      | some x => cases x with
        | dir => simp [fileAt, hq] at h
        | file c0 => exact ⟨c0, rfl⟩
    cases op with
    | create q => simp [FsOp.touches] at hp; subst hp; simp [FsOp.apply, hc0, fileAt]
    | append q bs => simp [FsOp.touches] at hp; subst hp; simp [FsOp.apply, hc0, fileAt]
    | rename a b =>
      simp [FsOp.touches, FsOp.removes] at hp hr
      have hpb : p = b := by rcases hp with e | e; exact absurd e hr; exact e
      subst hpb
      cases ha : fs a with
      | none => simp [FsOp.apply, ha, fileAt, hc0]
      | some x =>
        cases x with
        | dir => simp [FsOp.apply, ha, fileAt, hc0]
        | file c1 => simp [FsOp.apply, ha, hc0, fileAt]
    | unlink q => simp [FsOp.touches, FsOp.removes] at hp hr; exact absurd hp hr
    | mkdir q => rwa [fileAt_dirOp _ rfl]
    | rmdir q => rwa [fileAt_dirOp _ rfl]
  · have : fileAt (op.apply fs) p = fileAt fs p := by simp [fileAt, apply_frame op fs hp]
    rwa [this]

theorem fileAt_persist (ops : List FsOp) (fs : Fs) (p : Path) (hr : ∀ op ∈ ops, p ∉ op.removes)
    (h : (fileAt fs p).isSome = true) : (fileAt (applyAll ops fs) p).isSome = true := by
  induction ops generalizing fs with
  | nil => exact h
  | cons op ops ih =>
    rw [applyAll_cons]
    exact ih _ (fun o ho => hr o (List.mem_cons_of_mem _ ho)) (fileAt_keep op fs p (hr op (List.mem_cons_self ..)) h)

theorem nodup_map_inj {l : List Edit} (h : (l.map Edit.name).Nodup) {a b : Edit} (ha : a ∈ l) (hb : b ∈ l)
    (e : a.name = b.name) : a = b := by
  induction l with
  | nil => cases ha
  | cons x xs ih =>
    simp only [List.map_cons, List.nodup_cons] at h
    rcases List.mem_cons.mp ha with rfl | ha' <;> rcases List.mem_cons.mp hb with rfl | hb'
    · rfl
    · exact absurd (e ▸ List.mem_map_of_mem hb') h.1
    · exact absurd (e.symm ▸ List.mem_map_of_mem ha') h.1
    · exact ih h.2 ha' hb'

theorem logPath_inj {a b : Name} (h : logPath a = logPath b) : a = b := by
  simpa [logPath] using h

/-- the reflog of an updated ref is never taken away by the transaction -/
theorem update_log_stays (c : Cfg) (s : Store) (txn : List Edit) (h : TxnOk c s txn) {n : Name} {new : Target}
    (hu : Edit.update n new ∈ txn) : ∀ op ∈ txnSteps c s txn, logPath n ∉ op.removes := by
  intro op ho hr
  have hlp : isLogPath (logPath n) = true := isLogPath_logPath n
  rcases mem_steps_cases c s txn h.names_ref ho with h1 | h1 | h1
  · cases op <;> simp [FsOp.removes, FsOp.isDirOp] at hr h1
  · have hd : op.isDirOp = false := by cases op <;> simp [FsOp.removes] at hr <;> rfl
    rcases steps_logOps c s txn h.names_ref ho h1 hd with ⟨m, t, _, rfl | ⟨bs, rfl⟩⟩ | ⟨m, hm, rfl⟩
    · simp [FsOp.removes] at hr
    · simp [FsOp.removes] at hr
    · simp [FsOp.removes] at hr
      have e := logPath_inj hr
      subst e
      -- an update and a deletion of the same name contradict the distinctness of names
      have := nodup_map_inj h.names_nodup hu hm rfl
      cases this
  · have hsub : ∀ q ∈ op.removes, q ∈ op.touches := by
      intro q hq; cases op <;> simp_all [FsOp.removes, FsOp.touches]
    have ht := hsub _ hr
    rcases mem_core_cases c s txn h1 with rfl | hmm | ⟨e, he, hmm⟩
    · simp [FsOp.removes] at hr
    · rcases packedCommit_touches c s txn op hmm _ ht with e' | e'
      · rw [e', not_isLogPath_packed.1] at hlp; cases hlp
      · rw [e', not_isLogPath_packed.2] at hlp; cases hlp
    · rcases edit_core_touches c s _ e op hmm _ ht with e' | e'
      · rw [e', not_isLogPath_refName (h.names_ref e he)] at hlp; cases hlp
      · rw [e', not_isLogPath_lockPath (h.names_ref e he)] at hlp; cases hlp

end GixModel.C20
