import GixModel.Lemmas.C20Read
/-
C20 helper lemmas, part 6: which directories a transaction creates or removes — only proper
ancestors (at `/` boundaries) of the edited refs and of their reflogs. Hence a transaction whose
edits are free of directory/file conflicts never creates or removes a directory named like an
edited ref or a lock: `TxnOk.no_dir_clash` follows from a condition on the input alone.
-/
namespace GixModel.C20
open GixModel

theorem parentsAux_spec (rest acc : Bytes) :
    ∀ d ∈ parentsAux rest acc, ∃ k, d = acc.reverse ++ rest.take k ∧ rest[k]? = some 47 := by
  induction rest generalizing acc with
  | nil => intro d hd; simp [parentsAux] at hd
  | cons b r ih =>
    intro d hd
    simp only [parentsAux] at hd
    have tail : d ∈ parentsAux r (b :: acc) → ∃ k, d = acc.reverse ++ (b :: r).take k ∧ (b :: r)[k]? = some 47 := by
      intro h
      obtain ⟨k, hk, h47⟩ := ih (b :: acc) d h
      exact ⟨k + 1, by simp [hk], by simpa using h47⟩
    split at hd
    · rename_i hb
      rcases List.mem_cons.mp hd with rfl | hd
      · exact ⟨0, by simp, by simp [hb]⟩
      · exact tail hd
    · exact tail hd

/-- every element of `parents p` is a directory prefix of `p` -/
theorem parents_prefix {p d : Path} (h : d ∈ parents p) : (d ++ [47]) <+: p := by
  obtain ⟨k, hk, h47⟩ := parentsAux_spec p [] d h
  simp only [List.reverse_nil, List.nil_append] at hk
  have hlt : k < p.length := by
    rcases Nat.lt_or_ge k p.length with h1 | h1
    · exact h1
    · rw [List.getElem?_eq_none h1] at h47; cases h47
  have : p = p.take k ++ 47 :: p.drop (k + 1) := by
    have h1 := (List.take_append_drop k p).symm
    rw [List.drop_eq_getElem_cons hlt] at h1
    have : p[k] = 47 := by
      have := List.getElem?_eq_getElem hlt
      rw [this] at h47; exact Option.some.inj h47
    rw [this] at h1; exact h1
  rw [hk]
  exact ⟨p.drop (k + 1), by rw [List.append_assoc]; exact this.symm⟩

theorem parentOf_cases (p : Path) : parentOf p = [] ∨ parentOf p ∈ parents p := by
  unfold parentOf
  cases h : (parents p).getLast? with
  | none => left; rfl
  | some d => right; simpa using List.mem_of_getLast? h

/-- the directories `create_dir::all` may create and the upward cleanup may remove for a file at `x` -/
def dirsOf (x : Path) : List Path := parents (parentOf x) ++ [parentOf x]

theorem dirsOf_prefix {x d : Path} (h : d ∈ dirsOf x) (hne : d ≠ []) : (d ++ [47]) <+: x := by
  simp only [dirsOf, List.mem_append, List.mem_singleton] at h
  rcases h with h | rfl
  · have h1 := parents_prefix h
    rcases parentOf_cases x with he | hm
    · rw [he] at h1
      have := h1.length_le; simp at this
    · have h2 := parents_prefix hm
      exact h1.trans ((List.prefix_append _ _).trans h2)
  · rcases parentOf_cases x with he | hm
    · exact absurd he hne
    · exact parents_prefix hm

theorem mem_mkdirAll {g : G} {dir : Path} {op : FsOp} (h : op ∈ mkdirAll g dir) :
    ∃ d ∈ parents dir ++ [dir], d ≠ [] ∧ op = .mkdir d := by
  simp only [mkdirAll, List.mem_map, List.mem_filter] at h
  obtain ⟨d, ⟨hd, hp⟩, rfl⟩ := h
  refine ⟨d, hd, ?_, rfl⟩
  intro e; subst e; simp at hp

theorem mem_rmdirUpAux {g : G} {l : List Path} {op : FsOp} (h : op ∈ rmdirUpAux g l) :
    ∃ d ∈ l, op = .rmdir d := by
  induction l generalizing g with
  | nil => simp [rmdirUpAux] at h
  | cons x xs ih =>
    simp only [rmdirUpAux] at h
    split at h
    · rcases List.mem_cons.mp h with rfl | h
      · exact ⟨x, List.mem_cons_self .., rfl⟩
      · obtain ⟨d, hd, e⟩ := ih h
        exact ⟨d, List.mem_cons_of_mem _ hd, e⟩
    · cases h

theorem mem_takeWhile' {α : Type} (q : α → Bool) (l : List α) {x : α} (h : x ∈ l.takeWhile q) :
    q x = true ∧ x ∈ l := by
  induction l with
  | nil => simp at h
  | cons y ys ih =>
    simp only [List.takeWhile_cons] at h
    split at h
    · rename_i hy
      rcases List.mem_cons.mp h with rfl | h
      · exact ⟨hy, List.mem_cons_self ..⟩
      · exact ⟨(ih h).1, List.mem_cons_of_mem _ (ih h).2⟩
    · cases h

theorem mem_rmdirUp {g : G} {dir b : Path} {op : FsOp} (h : op ∈ rmdirUp g dir b) :
    ∃ d ∈ parents dir ++ [dir], d ≠ [] ∧ op = .rmdir d := by
  obtain ⟨d, hd, e⟩ := mem_rmdirUpAux h
  obtain ⟨hp, hm⟩ := mem_takeWhile' _ _ hd
  refine ⟨d, by simp only [List.mem_reverse] at hm; exact hm, ?_, e⟩
  intro e'; subst e'; simp at hp

/-- an operation of the steps that is a directory operation acts on a non-empty element of
`dirsOf` of an edited ref or of its reflog -/
def DirOf (txn : List Edit) (op : FsOp) : Prop :=
  ∃ e ∈ txn, ∃ x, (x = e.name ∨ x = logPath e.name) ∧ ∃ d ∈ dirsOf x, d ≠ [] ∧ op.touches = [d]

theorem dirOf_mk {txn : List Edit} {e : Edit} (he : e ∈ txn) {x : Path} (hx : x = e.name ∨ x = logPath e.name)
    {op : FsOp} (h : ∃ d ∈ parents (parentOf x) ++ [parentOf x], d ≠ [] ∧ (op = .mkdir d ∨ op = .rmdir d)) :
    DirOf txn op := by
  obtain ⟨d, hd, hne, ho⟩ := h
  refine ⟨e, he, x, hx, d, hd, hne, ?_⟩
  rcases ho with rfl | rfl <;> rfl

theorem mem_prepEdits {c : Cfg} {global : Bool} {g : G} {es : List Edit} {op : FsOp}
    (h : op ∈ prepEdits c global g es) : ∃ e ∈ es, ∃ g', op ∈ prepEdit c global g' e := by
  induction es generalizing g with
  | nil => simp [prepEdits] at h
  | cons e es ih =>
    simp only [prepEdits, List.mem_append] at h
    rcases h with h | h
    · exact ⟨e, List.mem_cons_self .., g, h⟩
    · obtain ⟨e', he', g', h'⟩ := ih h
      exact ⟨e', List.mem_cons_of_mem _ he', g', h'⟩

theorem mem_commitUpdates {c : Cfg} {s : Store} {g : G} {es : List Edit} {op : FsOp}
    (h : op ∈ commitUpdates c s g es) : ∃ e ∈ es, ∃ g', op ∈ commitUpdate c s g' e := by
  induction es generalizing g with
  | nil => simp [commitUpdates] at h
  | cons e es ih =>
    simp only [commitUpdates, List.mem_append] at h
    rcases h with h | h
    · exact ⟨e, List.mem_cons_self .., g, h⟩
    · obtain ⟨e', he', g', h'⟩ := ih h
      exact ⟨e', List.mem_cons_of_mem _ he', g', h'⟩

theorem mem_logDeletes {g : G} {es : List Edit} {op : FsOp}
    (h : op ∈ logDeletes g es) : ∃ e ∈ es, ∃ g', op ∈ logDelete g' e := by
  induction es generalizing g with
  | nil => simp [logDeletes] at h
  | cons e es ih =>
    simp only [logDeletes, List.mem_append] at h
    rcases h with h | h
    · exact ⟨e, List.mem_cons_self .., g, h⟩
    · obtain ⟨e', he', g', h'⟩ := ih h
      exact ⟨e', List.mem_cons_of_mem _ he', g', h'⟩

theorem mem_looseDeletes {s : Store} {global : Bool} {g : G} {es : List Edit} {op : FsOp}
    (h : op ∈ looseDeletes s global g es) : ∃ e ∈ es, ∃ g', op ∈ looseDelete s global g' e := by
  induction es generalizing g with
  | nil => simp [looseDeletes] at h
  | cons e es ih =>
    simp only [looseDeletes, List.mem_append] at h
    rcases h with h | h
    · exact ⟨e, List.mem_cons_self .., g, h⟩
    · obtain ⟨e', he', g', h'⟩ := ih h
      exact ⟨e', List.mem_cons_of_mem _ he', g', h'⟩

theorem mem_reflogOps_dir {c : Cfg} {s : Store} {g : G} {n : Name} {h : Bytes} {op : FsOp}
    (ho : op ∈ reflogOps c s g n h) (hd : op.isDirOp = true) : op ∈ mkdirAll g (parentOf (logPath n)) := by
  unfold reflogOps at ho
  split at ho
  · cases ho
  · split at ho
    · rcases List.mem_append.mp ho with ho | ho
      · exact ho
      · rcases List.mem_append.mp ho with ho | ho
        · split at ho
          · cases ho
          · simp at ho; subst ho; simp [FsOp.isDirOp] at hd
        · simp at ho; subst ho; simp [FsOp.isDirOp] at hd
    · split at ho
      · simp at ho; subst ho; simp [FsOp.isDirOp] at hd
      · cases ho

/-- every directory operation of the steps is on an ancestor directory of an edited ref or reflog -/
theorem steps_dirOps (c : Cfg) (s : Store) (txn : List Edit) {op : FsOp} (ho : op ∈ txnSteps c s txn)
    (hd : op.isDirOp = true) : DirOf txn op := by
  simp only [txnSteps, List.mem_append] at ho
  rcases ho with ((((ho | ho) | ho) | ho) | ho) | ho
  · split at ho
    · simp at ho; subst ho; simp [FsOp.isDirOp] at hd
    · cases ho
  · obtain ⟨e, he, g', h'⟩ := mem_prepEdits ho
    cases e with
    | delete n =>
      simp only [prepEdit] at h'
      split at h'
      · cases h'
      · rcases List.mem_append.mp h' with h' | h'
        · obtain ⟨d, hdm, hne, rfl⟩ := mem_mkdirAll h'
          exact dirOf_mk he (.inl rfl) ⟨d, hdm, hne, .inl rfl⟩
        · simp at h'; subst h'; simp [FsOp.isDirOp] at hd
    | update n new =>
      simp only [prepEdit, List.mem_append] at h'
      rcases h' with (h' | h') | h'
      · obtain ⟨d, hdm, hne, rfl⟩ := mem_mkdirAll h'
        exact dirOf_mk he (.inl rfl) ⟨d, hdm, hne, .inl rfl⟩
      · simp at h'; subst h'; simp [FsOp.isDirOp] at hd
      · simp only [writeOps, List.mem_map] at h'
        obtain ⟨x, _, rfl⟩ := h'; simp [FsOp.isDirOp] at hd
  · obtain ⟨e, he, g', h'⟩ := mem_commitUpdates ho
    cases e with
    | delete n => simp [commitUpdate] at h'
    | update n new =>
      cases new with
      | sym t => simp [commitUpdate] at h'; subst h'; simp [FsOp.isDirOp] at hd
      | id hx =>
        simp only [commitUpdate, List.mem_append] at h'
        rcases h' with h' | h'
        · obtain ⟨d, hdm, hne, rfl⟩ := mem_mkdirAll (mem_reflogOps_dir h' hd)
          exact dirOf_mk he (.inr rfl) ⟨d, hdm, hne, .inl rfl⟩
        · simp at h'; subst h'; simp [FsOp.isDirOp] at hd
  · obtain ⟨e, he, g', h'⟩ := mem_logDeletes ho
    cases e with
    | update n new => simp [logDelete] at h'
    | delete n =>
      simp only [logDelete] at h'
      split at h'
      · rcases List.mem_cons.mp h' with rfl | h'
        · simp [FsOp.isDirOp] at hd
        · obtain ⟨d, hdm, hne, rfl⟩ := mem_rmdirUp h'
          exact dirOf_mk he (.inr rfl) ⟨d, hdm, hne, .inr rfl⟩
      · cases h'
  · have := packedCommit_touches c s txn op ho
    simp only [packedCommit] at ho
    split at ho
    · cases ho
    · split at ho
      · simp at ho; subst ho; simp [FsOp.isDirOp] at hd
      · simp only [List.mem_append, writeOps, List.mem_map] at ho
        rcases ho with ⟨x, _, rfl⟩ | ho
        · simp [FsOp.isDirOp] at hd
        · split at ho
          · simp at ho; rcases ho with rfl | rfl <;> simp [FsOp.isDirOp] at hd
          · simp at ho; subst ho; simp [FsOp.isDirOp] at hd
  · obtain ⟨e, he, g', h'⟩ := mem_looseDeletes ho
    cases e with
    | update n new => simp [looseDelete] at h'
    | delete n =>
      simp only [looseDelete] at h'
      split at h'
      · split at h'
        · simp at h'; subst h'; simp [FsOp.isDirOp] at hd
        · cases h'
      · simp only [List.mem_append] at h'
        rcases h' with (h' | h') | h'
        · split at h'
          · simp at h'; subst h'; simp [FsOp.isDirOp] at hd
          · cases h'
        · simp at h'; subst h'; simp [FsOp.isDirOp] at hd
        · obtain ⟨d, hdm, hne, rfl⟩ := mem_rmdirUp h'
          exact dirOf_mk he (.inl rfl) ⟨d, hdm, hne, .inr rfl⟩

/-- no edited ref and no lock of one is a directory on the path to another edited ref -/
def NoDF (txn : List Edit) : Prop :=
  ∀ e ∈ txn, ∀ e' ∈ txn, ¬ (e'.name ++ [47]) <+: e.name ∧ ¬ (lockPath e'.name ++ [47]) <+: e.name

theorem head_of_prefix {d x : Path} (h : (d ++ [47]) <+: x) (hne : d ≠ []) : d.head? = x.head? := by
  obtain ⟨t, rfl⟩ := h
  cases d with
  | nil => exact absurd rfl hne
  | cons b bs => simp

/-- the hypothesis about the generated steps follows from conditions on the input -/
theorem no_dir_clash_of_noDF (c : Cfg) (s : Store) (txn : List Edit)
    (href : ∀ e ∈ txn, isRefName e.name = true) (hdf : NoDF txn) :
    ∀ op ∈ txnSteps c s txn, op.isDirOp = true → ∀ t ∈ op.touches, inW txn t = false := by
  intro op ho hd t ht
  obtain ⟨e, he, x, hx, d, hdm, hne, htouch⟩ := steps_dirOps c s txn ho hd
  rw [htouch] at ht
  simp at ht; subst ht
  have hpre := dirsOf_prefix hdm hne
  have hhead := head_of_prefix hpre hne
  simp only [inW, names, Bool.or_eq_false_iff, List.contains_eq_mem, List.mem_map, decide_eq_false_iff_not,
    beq_eq_false_iff_ne]
  rcases hx with rfl | rfl
  · rw [head_refName (href e he)] at hhead
    refine ⟨⟨⟨?_, ?_⟩, ?_⟩, ?_⟩
    · rintro ⟨e', he', rfl⟩; exact (hdf e he e' he').1 hpre
    · rintro ⟨m, ⟨e', he', rfl⟩, rfl⟩; exact (hdf e he e' he').2 hpre
    · intro e'; rw [e'] at hhead; revert hhead; decide
    · intro e'; rw [e'] at hhead; revert hhead; decide
  · rw [head_logPath] at hhead
    refine ⟨⟨⟨?_, ?_⟩, ?_⟩, ?_⟩
    · rintro ⟨e', he', rfl⟩; rw [head_refName (href e' he')] at hhead; revert hhead; decide
    · rintro ⟨m, ⟨e', he', rfl⟩, rfl⟩; rw [head_lockPath (href e' he')] at hhead; revert hhead; decide
    · intro e'; rw [e'] at hhead; revert hhead; decide
    · intro e'; rw [e'] at hhead; revert hhead; decide

end GixModel.C20
