import GixModel.Model.C07
import GixModel.Spec.C07
/-
Helper lemmas for C07: the offset varint (`leb64_encode` vs `leb64`/`leb64_from_read`), the size
varint of the entry header, the delta command encoding.
-/
namespace GixModel.C07
open GixModel

set_option linter.unusedSimpArgs false

/-- `128 ^ f`, in a form `omega` can unfold one step at a time -/
def cap : Nat → Nat
  | 0 => 1
  | f + 1 => 128 * cap f

theorem cap_pos (f : Nat) : 0 < cap f := by
  induction f with
  | zero => decide
  | succ f ih => simp only [cap]; omega

theorem u64_eq : u64 = 2 * cap 9 := by decide

/-- one decoding step of the offset varint: `value += 1; value = (value << 7) + (c & 0x7f)` -/
def lebStep (v : Nat) (b : UInt8) : Nat := (v + 1) * 128 + b.toNat % 128

/-- the value a complete byte string decodes to (first byte without the `+1` twist) -/
def lebVal : Bytes → Nat
  | [] => 0
  | b :: rest => rest.foldl lebStep (b.toNat % 128)

theorem toNat_ofNat_lt (n : Nat) (h : n < 256) : (UInt8.ofNat n).toNat = n := by
  simp [UInt8.toNat_ofNat, Nat.mod_eq_of_lt h]

/-- the encoder's inner loop, seen through the decoder's fold -/
theorem lebGo_val (f n : Nat) (a0 : UInt8) (acc : Bytes) (h : n + 2 ≤ 2 * cap f) :
    ∃ out, lebGo f n (a0 :: acc) = some out ∧
      lebVal out = acc.foldl lebStep ((n / 128) * 128 + a0.toNat % 128) ∧
      out.length ≤ (a0 :: acc).length + f ∧
      (∃ pre, out = pre ++ (a0 :: acc) ∧ ∀ b ∈ pre, b.toNat ≥ 128) := by
  induction f generalizing n a0 acc with
  | zero =>
    simp only [cap] at h
    have hn : n = 0 := by omega
    subst hn
    exact ⟨a0 :: acc, by simp [lebGo], by simp [lebVal], by simp, [], by simp, by simp⟩
  | succ f ih =>
    unfold lebGo
    by_cases h0 : n / 128 = 0
    · rw [if_pos h0]
      exact ⟨a0 :: acc, rfl, by simp [lebVal, h0], by simp, [], by simp, by simp⟩
    · rw [if_neg h0]
      simp only [cap] at h
      have hb : (UInt8.ofNat (128 + (n / 128 - 1) % 128)).toNat = 128 + (n / 128 - 1) % 128 :=
        toNat_ofNat_lt _ (by omega)
      obtain ⟨out, e1, e2, e3, pre, e4, e5⟩ := ih (n / 128 - 1) (UInt8.ofNat (128 + (n / 128 - 1) % 128)) (a0 :: acc) (by omega)
      refine ⟨out, e1, ?_, by simp only [List.length_cons] at *; omega, pre ++ [UInt8.ofNat (128 + (n / 128 - 1) % 128)], by simp [e4], ?_⟩
      · rw [e2, hb]
        simp only [List.foldl_cons, lebStep]
        congr 1
        omega
      · intro b hb'
        simp only [List.mem_append, List.mem_singleton] at hb'
        rcases hb' with hb' | hb'
        · exact e5 b hb'
        · rw [hb', hb]; omega

theorem leb64Encode_spec (n : Nat) (h : n < u64) :
    ∃ out, leb64Encode n = some out ∧ lebVal out = n ∧ out.length ≤ 10 ∧ out ≠ [] ∧
      (∃ pre, out = pre ++ [UInt8.ofNat (n % 128)] ∧ ∀ b ∈ pre, b.toNat ≥ 128) := by
  rw [u64_eq] at h
  unfold leb64Encode
  have ha : (UInt8.ofNat (n % 128)).toNat = n % 128 := toNat_ofNat_lt _ (by omega)
  -- the first step by hand (the bound is one tighter afterwards)
  unfold lebGo
  by_cases h0 : n / 128 = 0
  · rw [if_pos h0]
    refine ⟨_, rfl, ?_, by simp, by simp, [], by simp, by simp⟩
    simp only [lebVal, List.foldl_nil, ha]; omega
  · rw [if_neg h0]
    have hb : (UInt8.ofNat (128 + (n / 128 - 1) % 128)).toNat = 128 + (n / 128 - 1) % 128 :=
      toNat_ofNat_lt _ (by omega)
    have hc : cap 9 = 128 * cap 8 := rfl
    obtain ⟨out, e1, e2, e3, pre, e4, e5⟩ := lebGo_val 8 (n / 128 - 1) (UInt8.ofNat (128 + (n / 128 - 1) % 128))
      [UInt8.ofNat (n % 128)] (by omega)
    refine ⟨out, e1, ?_, by simp only [List.length_cons, List.length_nil] at e3; omega, ?_,
      pre ++ [UInt8.ofNat (128 + (n / 128 - 1) % 128)], by simp [e4], ?_⟩
    · rw [e2, hb]
      simp only [List.foldl_cons, List.foldl_nil, lebStep, ha]
      omega
    · rw [e4]; simp
    · intro b hb'
      simp only [List.mem_append, List.mem_singleton] at hb'
      rcases hb' with hb' | hb'
      · exact e5 b hb'
      · rw [hb', hb]; omega

theorem lebStep_gt (v : Nat) (b : UInt8) : v < lebStep v b := by
  unfold lebStep; omega

theorem foldl_lebStep_ge (l : Bytes) (v : Nat) : v ≤ l.foldl lebStep v := by
  induction l generalizing v with
  | nil => simp
  | cons b l ih =>
    simp only [List.foldl_cons]
    have := ih (lebStep v b)
    have := lebStep_gt v b
    omega

/-- the decoder loop over continuation bytes `mid`, a final byte `last`, and whatever follows -/
theorem lebLoop_run (mid : Bytes) (last : UInt8) (tail : Bytes) (hmid : ∀ b ∈ mid, b.toNat ≥ 128)
    (hlast : last.toNat < 128) (fuel c i v : Nat) (hc : c ≥ 128) (hfuel : fuel ≥ mid.length + 2)
    (hi : i + mid.length + 1 ≤ 10) (hv : (mid ++ [last]).foldl lebStep v < u64) :
    lebLoop fuel c i v (mid ++ last :: tail) = .ok ((mid ++ [last]).foldl lebStep v, i + mid.length + 1) := by
  induction mid generalizing fuel c i v with
  | nil =>
    obtain ⟨f, rfl⟩ : ∃ f, fuel = f + 2 := ⟨fuel - 2, by simp at hfuel; omega⟩
    simp only [List.nil_append, List.foldl_cons, List.foldl_nil] at hv ⊢
    have h1 : lebStep v last < u64 := hv
    unfold lebStep at h1
    unfold lebLoop
    rw [if_pos hc]
    simp only
    rw [if_neg (by simp at hi; omega), if_neg (by omega)]
    have hs : ((v + 1) * 128) % u64 = (v + 1) * 128 := Nat.mod_eq_of_lt (by omega)
    rw [hs, if_neg (by omega)]
    unfold lebLoop
    rw [if_neg (by omega)]
    simp [lebStep]
  | cons b mid ih =>
    obtain ⟨f, rfl⟩ : ∃ f, fuel = f + 1 := ⟨fuel - 1, by simp at hfuel; omega⟩
    have hb := hmid b (by simp)
    simp only [List.cons_append, List.foldl_cons] at hv ⊢
    have hge := foldl_lebStep_ge (mid ++ [last]) (lebStep v b)
    have h1 : lebStep v b < u64 := by omega
    unfold lebStep at h1
    unfold lebLoop
    rw [if_pos hc]
    simp only
    simp only [List.length_cons] at hi hfuel
    rw [if_neg (by omega), if_neg (by omega)]
    have hs : ((v + 1) * 128) % u64 = (v + 1) * 128 := Nat.mod_eq_of_lt (by omega)
    rw [hs, if_neg (by omega)]
    have := ih (fun x hx => hmid x (by simp [hx])) f b.toNat (i + 1) ((v + 1) * 128 + b.toNat % 128) hb
      (by omega) (by omega) hv
    rw [this]
    simp only [List.length_cons]
    congr 2
    omega

theorem lebLoopRd_run (mid : Bytes) (last : UInt8) (tail : Bytes) (hmid : ∀ b ∈ mid, b.toNat ≥ 128)
    (hlast : last.toNat < 128) (fuel c i v : Nat) (hc : c ≥ 128) (hfuel : fuel ≥ mid.length + 2)
    (hi : i + mid.length + 1 ≤ 10) (hv : (mid ++ [last]).foldl lebStep v < u64) :
    lebLoopRd fuel c i v (mid ++ last :: tail) =
      .ok ((mid ++ [last]).foldl lebStep v, i + mid.length + 1) tail := by
  induction mid generalizing fuel c i v with
  | nil =>
    obtain ⟨f, rfl⟩ : ∃ f, fuel = f + 2 := ⟨fuel - 2, by simp at hfuel; omega⟩
    simp only [List.nil_append, List.foldl_cons, List.foldl_nil] at hv ⊢
    have h1 : lebStep v last < u64 := hv
    unfold lebStep at h1
    unfold lebLoopRd
    rw [if_pos hc]
    simp only
    rw [if_neg (by simp at hi; omega), if_neg (by omega)]
    have hs : ((v + 1) * 128) % u64 = (v + 1) * 128 := Nat.mod_eq_of_lt (by omega)
    rw [hs, if_neg (by omega)]
    unfold lebLoopRd
    rw [if_neg (by omega)]
    simp [lebStep]
  | cons b mid ih =>
    obtain ⟨f, rfl⟩ : ∃ f, fuel = f + 1 := ⟨fuel - 1, by simp at hfuel; omega⟩
    have hb := hmid b (by simp)
    simp only [List.cons_append, List.foldl_cons] at hv ⊢
    have hge := foldl_lebStep_ge (mid ++ [last]) (lebStep v b)
    have h1 : lebStep v b < u64 := by omega
    unfold lebStep at h1
    unfold lebLoopRd
    rw [if_pos hc]
    simp only
    simp only [List.length_cons] at hi hfuel
    rw [if_neg (by omega), if_neg (by omega)]
    have hs : ((v + 1) * 128) % u64 = (v + 1) * 128 := Nat.mod_eq_of_lt (by omega)
    rw [hs, if_neg (by omega)]
    have := ih (fun x hx => hmid x (by simp [hx])) f b.toNat (i + 1) ((v + 1) * 128 + b.toNat % 128) hb
      (by omega) (by omega) hv
    rw [this]
    simp only [List.length_cons]
    congr 2
    omega

/-- The offset varint round trip, from memory and from a stream, with anything behind it. -/
theorem leb64_roundtrip_core (n : Nat) (h : n < u64) (tail : Bytes) :
    ∃ out, leb64Encode n = some out ∧ out.length ≤ 10 ∧ 1 ≤ out.length ∧
      leb64 (out ++ tail) = .ok (n, out.length) ∧
      leb64Rd (out ++ tail) = .ok (n, out.length) tail := by
  obtain ⟨out, e1, e2, e3, e4, pre, e5, e6⟩ := leb64Encode_spec n h
  have hlast : (UInt8.ofNat (n % 128)).toNat < 128 := by rw [toNat_ofNat_lt _ (by omega)]; omega
  refine ⟨out, e1, e3, by cases out with | nil => exact absurd rfl e4 | cons a b => simp, ?_, ?_⟩
  · subst e5
    cases pre with
    | nil =>
      simp only [List.nil_append, List.cons_append, leb64, lebVal, List.foldl_nil] at e2 ⊢
      unfold lebLoop
      rw [if_neg (by omega), e2]
      rfl
    | cons p0 pre' =>
      have hp0 := e6 p0 (by simp)
      simp only [List.cons_append, leb64, lebVal, List.length_cons, List.length_append, List.length_nil] at e2 e3 ⊢
      rw [List.append_assoc]
      simp only [List.cons_append, List.nil_append]
      rw [lebLoop_run pre' _ tail (fun x hx => e6 x (by simp [hx])) hlast _ _ 1 _ hp0
        (by first | omega | (simp; omega)) (by omega) (by rw [e2]; exact h)]
      rw [e2]
      congr 2
      omega
  · subst e5
    cases pre with
    | nil =>
      simp only [List.nil_append, List.cons_append, leb64Rd, lebVal, List.foldl_nil] at e2 ⊢
      unfold lebLoopRd
      rw [if_neg (by omega), e2]
      rfl
    | cons p0 pre' =>
      have hp0 := e6 p0 (by simp)
      simp only [List.cons_append, leb64Rd, lebVal, List.length_cons, List.length_append, List.length_nil] at e2 e3 ⊢
      rw [List.append_assoc]
      simp only [List.cons_append, List.nil_append]
      rw [lebLoopRd_run pre' _ tail (fun x hx => e6 x (by simp [hx])) hlast _ _ 1 _ hp0
        (by first | omega | (simp; omega)) (by omega) (by rw [e2]; exact h)]
      rw [e2]
      congr 2
      omega

/-! ### the size varint of the entry header -/

theorem split128 (sz p : Nat) : sz * p = (sz % 128) * p + (sz / 128) * (p * 128) := by
  have h := Nat.mod_add_div sz 128
  calc sz * p = (sz % 128 + 128 * (sz / 128)) * p := by rw [h]
    _ = (sz % 128) * p + 128 * (sz / 128) * p := by rw [Nat.add_mul]
    _ = (sz % 128) * p + (sz / 128) * (p * 128) := by
      congr 1
      rw [Nat.mul_comm 128 (sz / 128), Nat.mul_assoc, Nat.mul_comm 128 p]

theorem pow_lt_u64 (s : Nat) (h : 2 ^ s < u64) : s < 64 := by
  have : u64 = 2 ^ 64 := by decide
  rw [this] at h
  exact (Nat.pow_lt_pow_iff_right (by decide)).mp h

theorem setHigh_lt (c : Nat) (h : c < 128) : setHigh c = c + 128 := by
  unfold setHigh; rw [if_neg (by omega)]

/-- The encoder's size loop read back by the decoder's size loops (memory and stream). `p = 2^s`
is the weight of the next group; `acc` what has been accumulated so far. -/
theorem sizeLoop_parse (fuelE : Nat) : ∀ (c sz : Nat), c < 128 → sz < cap fuelE →
    ∃ b bs, sizeLoop fuelE c sz = b :: bs ∧ b.toNat = (if sz ≠ 0 then c + 128 else c) ∧
      bs.length = sizeLoopWritten fuelE sz ∧
      ∀ (fuelD i acc s p : Nat) (tail : Bytes), p = 2 ^ s → acc + sz * p < u64 →
        fuelD ≥ bs.length + 1 →
        parseLoop fuelD b.toNat i acc s (bs ++ tail) = .ok (acc + sz * p, i + bs.length) ∧
        parseLoopRd fuelD b.toNat i acc s (bs ++ tail) = .ok (acc + sz * p, i + bs.length) tail := by
  induction fuelE with
  | zero =>
    intro c sz hc hsz
    simp only [cap] at hsz
    have h0 : sz = 0 := by omega
    subst h0
    refine ⟨UInt8.ofNat c, [], rfl, by simp [toNat_ofNat_lt c (by omega)], rfl, ?_⟩
    intro fuelD i acc s p tail hp hacc hfuel
    obtain ⟨f, rfl⟩ : ∃ f, fuelD = f + 1 := ⟨fuelD - 1, by simp at hfuel; omega⟩
    constructor
    · unfold parseLoop
      rw [toNat_ofNat_lt c (by omega), if_neg (by omega)]
      simp
    · unfold parseLoopRd
      rw [toNat_ofNat_lt c (by omega), if_neg (by omega)]
      simp
  | succ f ih =>
    intro c sz hc hsz
    by_cases h0 : sz = 0
    · subst h0
      refine ⟨UInt8.ofNat c, [], by simp [sizeLoop], by simp [toNat_ofNat_lt c (by omega)],
        by simp [sizeLoopWritten], ?_⟩
      intro fuelD i acc s p tail hp hacc hfuel
      obtain ⟨fd, rfl⟩ : ∃ fd, fuelD = fd + 1 := ⟨fuelD - 1, by simp at hfuel; omega⟩
      constructor
      · unfold parseLoop
        rw [toNat_ofNat_lt c (by omega), if_neg (by omega)]
        simp
      · unfold parseLoopRd
        rw [toNat_ofNat_lt c (by omega), if_neg (by omega)]
        simp
    · have hw : sizeLoopWritten (f + 1) sz = 1 + sizeLoopWritten f (sz / 128) := by
        simp [sizeLoopWritten, h0]
      simp only [cap] at hsz
      obtain ⟨b2, bs2, e1, e2, e3, e4⟩ := ih (sz % 128) (sz / 128) (by omega) (by omega)
      have hb2 : b2.toNat % 128 = sz % 128 := by
        rw [e2]; split <;> omega
      have hhead : (UInt8.ofNat (setHigh c)).toNat = c + 128 := by
        rw [setHigh_lt c hc, toNat_ofNat_lt _ (by omega)]
      refine ⟨UInt8.ofNat (setHigh c), b2 :: bs2, by simp [sizeLoop, h0, e1], by simp [hhead, h0],
        by simp [hw, e3]; omega, ?_⟩
      intro fuelD i acc s p tail hp hacc hfuel
      simp only [List.length_cons] at hfuel
      obtain ⟨fd, rfl⟩ : ∃ fd, fuelD = fd + 1 := ⟨fuelD - 1, by omega⟩
      have hsplit := split128 sz p
      have hle : (sz % 128) * p ≤ sz * p := Nat.mul_le_mul_right p (Nat.mod_le sz 128)
      have hp7 : p * 128 = 2 ^ (s + 7) := by rw [hp, Nat.pow_add]
      have hpos : 1 * p ≤ sz * p := Nat.mul_le_mul_right p (by omega)
      have hs : s < 64 := pow_lt_u64 s (by rw [← hp]; omega)
      obtain ⟨e5, e6⟩ := e4 fd (i + 1) (acc + (sz % 128) * p) (s + 7) (p * 128) tail hp7 (by omega) (by omega)
      constructor
      · rw [hhead]
        unfold parseLoop
        rw [if_pos (by omega)]
        simp only [List.cons_append]
        rw [if_neg (by omega), hb2, ← hp, Nat.mod_eq_of_lt (by omega), if_neg (by omega), e5]
        simp only [List.length_cons]
        congr 2
        · omega
        · omega
      · rw [hhead]
        unfold parseLoopRd
        rw [if_pos (by omega)]
        simp only [List.cons_append]
        rw [if_neg (by omega), hb2, ← hp, Nat.mod_eq_of_lt (by omega), if_neg (by omega), e6]
        simp only [List.length_cons]
        congr 2
        · omega
        · omega

/-! ### the whole header -/

/-- what the proofs need of the type ids: they are git's (decidable) -/
def TypeIdsOk (t : TypeIds) : Prop :=
  t.commit = 1 ∧ t.tree = 2 ∧ t.blob = 3 ∧ t.tag = 4 ∧ t.ofsDelta = 6 ∧ t.refDelta = 7

instance (t : TypeIds) : Decidable (TypeIdsOk t) := by unfold TypeIdsOk; infer_instance

/-- a header the Rust types admit: u64 distance, 20-byte id -/
def Header.Wf : Header → Prop
  | .ofsDelta d => d < u64
  | .refDelta id => id.length = 20
  | _ => True

instance (h : Header) : Decidable h.Wf := by cases h <;> unfold Header.Wf <;> infer_instance

theorem cap10 : cap 10 = 128 * cap 9 := rfl

/-- the size part of `write_to`, decoded by both header parsers -/
theorem sizePart_roundtrip (t : TypeIds) (ht : TypeIdsOk t) (h : Header) (size : Nat) (hs : size < u64)
    (after : Bytes) :
    (sizeLoop 10 ((h.typeId t * 16) % 256 + size % 16) (size / 16)).length
        = 1 + sizeLoopWritten 10 (size / 16) ∧
    parseHeaderInfo (sizeLoop 10 ((h.typeId t * 16) % 256 + size % 16) (size / 16) ++ after)
        = .ok (h.typeId t, size, 1 + sizeLoopWritten 10 (size / 16)) ∧
    parseHeaderInfoRd (sizeLoop 10 ((h.typeId t * 16) % 256 + size % 16) (size / 16) ++ after)
        = .ok (h.typeId t, size, 1 + sizeLoopWritten 10 (size / 16)) after := by
  obtain ⟨h1, h2, h3, h4, h5, h6⟩ := ht
  have hty : h.typeId t ≤ 7 := by cases h <;> simp [Header.typeId, *]
  generalize hcdef : (h.typeId t * 16) % 256 + size % 16 = c
  have hc : c < 128 := by omega
  have hcv : c = h.typeId t * 16 + size % 16 := by omega
  have hu := u64_eq
  have hsz : size / 16 < cap 10 := by rw [cap10]; have := cap_pos 9; omega
  obtain ⟨b, bs, e1, e2, e3, e4⟩ := sizeLoop_parse 10 c (size / 16) hc hsz
  obtain ⟨e5, e6⟩ := e4 ((b :: bs ++ after).length + 1) 1 (size % 16) 4 16 after (by decide) (by omega)
    (by simp; omega)
  have hb16 : b.toNat % 16 = size % 16 := by rw [e2]; split <;> omega
  have hbty : b.toNat / 16 % 8 = h.typeId t := by rw [e2]; split <;> omega
  have hsize : size % 16 + size / 16 * 16 = size := by omega
  rw [e1]
  refine ⟨by simp [e3]; omega, ?_, ?_⟩
  · simp only [parseHeaderInfo, List.cons_append]
    rw [hb16]
    simp only [List.cons_append] at e5
    rw [e5, hbty, hsize, e3]
  · simp only [parseHeaderInfoRd, List.cons_append]
    rw [hb16]
    simp only [List.cons_append] at e6
    rw [e6, hbty, hsize, e3]

/-- `Header::write_to` succeeds on every admissible header and size; what it returns is the
number of bytes written; and both decoders return the same header, size and consumed count,
leaving exactly what followed. -/
theorem header_roundtrip_core (t : TypeIds) (ht : TypeIdsOk t) (h : Header) (hw : h.Wf) (size : Nat)
    (hs : size < u64) (after : Bytes) :
    ∃ w bytes, writeTo t h size = some (w, bytes) ∧ w = bytes.length ∧
      fromBytes t 20 (bytes ++ after) = .ok h size bytes.length ∧
      fromRead t 20 (bytes ++ after) = .ok h size bytes.length after := by
  have ht' := ht
  obtain ⟨h1, h2, h3, h4, h5, h6⟩ := ht
  cases h with
  | commit =>
    obtain ⟨a, b, c⟩ := sizePart_roundtrip t ht' .commit size hs after
    refine ⟨_, _, rfl, by rw [a], ?_, ?_⟩
    · unfold fromBytes
      rw [b, a]
      simp [Header.typeId, h1, h2, h3, h4, h5, h6]
    · unfold fromRead
      rw [c, a]
      simp [Header.typeId, h1, h2, h3, h4, h5, h6]
  | tree =>
    obtain ⟨a, b, c⟩ := sizePart_roundtrip t ht' .tree size hs after
    refine ⟨_, _, rfl, by rw [a], ?_, ?_⟩
    · unfold fromBytes
      rw [b, a]
      simp [Header.typeId, h1, h2, h3, h4, h5, h6]
    · unfold fromRead
      rw [c, a]
      simp [Header.typeId, h1, h2, h3, h4, h5, h6]
  | blob =>
    obtain ⟨a, b, c⟩ := sizePart_roundtrip t ht' .blob size hs after
    refine ⟨_, _, rfl, by rw [a], ?_, ?_⟩
    · unfold fromBytes
      rw [b, a]
      simp [Header.typeId, h1, h2, h3, h4, h5, h6]
    · unfold fromRead
      rw [c, a]
      simp [Header.typeId, h1, h2, h3, h4, h5, h6]
  | tag =>
    obtain ⟨a, b, c⟩ := sizePart_roundtrip t ht' .tag size hs after
    refine ⟨_, _, rfl, by rw [a], ?_, ?_⟩
    · unfold fromBytes
      rw [b, a]
      simp [Header.typeId, h1, h2, h3, h4, h5, h6]
    · unfold fromRead
      rw [c, a]
      simp [Header.typeId, h1, h2, h3, h4, h5, h6]
  | refDelta id =>
    have hid : id.length = 20 := hw
    obtain ⟨a, b, c⟩ := sizePart_roundtrip t ht' (.refDelta id) size hs (id ++ after)
    refine ⟨_, _, rfl, by simp [a], ?_, ?_⟩
    · rw [List.append_assoc]
      unfold fromBytes
      rw [b, ← a]
      simp [Header.typeId, h1, h2, h3, h4, h5, h6, hid, List.take_left']
    · rw [List.append_assoc]
      unfold fromRead
      rw [c, ← a]
      simp [Header.typeId, h1, h2, h3, h4, h5, h6, hid, List.take_left', List.drop_left']
  | ofsDelta d =>
    have hd : d < u64 := hw
    obtain ⟨leb, l1, l2, l3, l4, l5⟩ := leb64_roundtrip_core d hd after
    obtain ⟨a, b, c⟩ := sizePart_roundtrip t ht' (.ofsDelta d) size hs (leb ++ after)
    refine ⟨1 + sizeLoopWritten 10 (size / 16) + leb.length,
      sizeLoop 10 (Header.typeId t (.ofsDelta d) * 16 % 256 + size % 16) (size / 16) ++ leb,
      by simp only [writeTo, l1], by simp [a], ?_, ?_⟩
    · rw [List.append_assoc]
      unfold fromBytes
      rw [b, ← a]
      simp [Header.typeId, h1, h2, h3, h4, h5, h6, l4]
    · rw [List.append_assoc]
      unfold fromRead
      rw [c, ← a]
      simp [Header.typeId, h1, h2, h3, h4, h5, h6, l5]

/-! ### delta instructions -/

theorem optByte_enc (p : Bool) (b : Nat) (rest : Bytes) (hb : b < 256) (h0 : p = false → b = 0) :
    optByte p (optEnc p b ++ rest) = some (b, rest) := by
  cases p with
  | true => simp [optByte, optEnc, toNat_ofNat_lt b hb]
  | false => simp [optByte, optEnc, h0 rfl]

theorem present_false (b extra k : Nat) (h : present b extra k = false) : b = 0 := by
  unfold present at h
  simp at h
  exact h.1

theorem flag_le (p : Bool) (k : Nat) : flag p k = 0 ∨ flag p k = 2 ^ k := by
  cases p <;> simp [flag]

theorem bit_flags (p0 p1 p2 p3 p4 p5 p6 : Bool) :
    let c := 128 + flag p0 0 + flag p1 1 + flag p2 2 + flag p3 3 + flag p4 4 + flag p5 5 + flag p6 6
    c < 256 ∧ c ≥ 128 ∧ bit c 0 = p0 ∧ bit c 1 = p1 ∧ bit c 2 = p2 ∧ bit c 3 = p3 ∧ bit c 4 = p4 ∧
      bit c 5 = p5 ∧ bit c 6 = p6 := by
  cases p0 <;> cases p1 <;> cases p2 <;> cases p3 <;> cases p4 <;> cases p5 <;> cases p6 <;> decide

theorem byteAt_lt (v k : Nat) : byteAt v k < 256 := by
  unfold byteAt; exact Nat.mod_lt _ (by decide)

/-- the decoder's view of an encoded copy command -/
theorem copyArgs_enc (ofs len extra : Nat) (rest : Bytes) (h1 : 1 ≤ len) (h2 : len < 16777216)
    (h3 : ofs < 4294967296) :
    ∃ c args, encInstr (.copy ofs len extra) = UInt8.ofNat c :: args ∧ c < 256 ∧ c ≥ 128 ∧
      copyArgs c (args ++ rest) = some (ofs, len, rest) := by
  have hbf := bit_flags (present (byteAt ofs 0) extra 0) (present (byteAt ofs 1) extra 1)
    (present (byteAt ofs 2) extra 2) (present (byteAt ofs 3) extra 3) (present (byteAt (sizeField len) 0) extra 4)
    (present (byteAt (sizeField len) 1) extra 5) (present (byteAt (sizeField len) 2) extra 6)
  obtain ⟨hc1, hc2, b0, b1, b2, b3, b4, b5, b6⟩ := hbf
  refine ⟨_, _, rfl, hc1, hc2, ?_⟩
  unfold copyArgs
  simp only [b0, b1, b2, b3, b4, b5, b6, List.append_assoc]
  rw [optByte_enc _ _ _ (byteAt_lt _ _) (present_false _ _ _)]
  simp only [bind, Option.bind]
  rw [optByte_enc _ _ _ (byteAt_lt _ _) (present_false _ _ _)]
  simp only [bind, Option.bind]
  rw [optByte_enc _ _ _ (byteAt_lt _ _) (present_false _ _ _)]
  simp only [bind, Option.bind]
  rw [optByte_enc _ _ _ (byteAt_lt _ _) (present_false _ _ _)]
  simp only [bind, Option.bind]
  rw [optByte_enc _ _ _ (byteAt_lt _ _) (present_false _ _ _)]
  simp only [bind, Option.bind]
  rw [optByte_enc _ _ _ (byteAt_lt _ _) (present_false _ _ _)]
  simp only [bind, Option.bind]
  have := optByte_enc (present (byteAt (sizeField len) 2) extra 6) (byteAt (sizeField len) 2) rest (byteAt_lt _ _) (present_false _ _ _)
  rw [this]
  simp only [bind, Option.bind, Option.some.injEq, Prod.mk.injEq]
  have hofs : byteAt ofs 0 + byteAt ofs 1 * 256 + byteAt ofs 2 * 65536 + byteAt ofs 3 * 16777216 = ofs := by
    simp only [byteAt]; omega
  have hf : byteAt (sizeField len) 0 + byteAt (sizeField len) 1 * 256 + byteAt (sizeField len) 2 * 65536 = sizeField len := by
    have : sizeField len < 16777216 := by unfold sizeField; split <;> omega
    simp only [byteAt]; omega
  refine ⟨hofs, ?_, trivial⟩
  rw [hf]
  unfold sizeField
  split <;> split <;> omega

theorem sem_cons_length (base : Bytes) (i : Instr) (is : List Instr) :
    (sem base (i :: is)).length = (sem base [i]).length + (sem base is).length := by
  cases i <;> simp [sem]

/-- The interpreter on an encoded instruction list: it appends exactly what the instructions mean. -/
theorem applyGo_enc (base : Bytes) (instrs : List Instr) (hwf : ∀ i ∈ instrs, i.Wf base)
    (cap fuel : Nat) (out : Bytes) (hcap : out.length + (sem base instrs).length = cap)
    (hfuel : fuel ≥ (encInstrs instrs).length + 1) :
    applyGo base cap fuel (encInstrs instrs) out = some (out ++ sem base instrs) := by
  induction instrs generalizing fuel out with
  | nil =>
    obtain ⟨f, rfl⟩ : ∃ f, fuel = f + 1 := ⟨fuel - 1, by omega⟩
    simp only [sem, List.length_nil, Nat.add_zero] at hcap
    simp [encInstrs, applyGo, hcap, sem]
  | cons i is ih =>
    obtain ⟨f, rfl⟩ : ∃ f, fuel = f + 1 := ⟨fuel - 1, by omega⟩
    have hi := hwf i (by simp)
    have his : ∀ j ∈ is, j.Wf base := fun j hj => hwf j (by simp [hj])
    cases i with
    | insert bs =>
      obtain ⟨h1, h2⟩ := hi
      simp only [encInstrs, encInstr, List.cons_append, List.length_cons, List.length_append] at hfuel ⊢
      simp only [sem, List.length_append] at hcap
      unfold applyGo
      have hc : (UInt8.ofNat bs.length).toNat = bs.length := toNat_ofNat_lt _ (by omega)
      simp only [hc]
      rw [if_neg (by omega), if_neg (by omega), if_neg (by simp)]
      rw [List.take_left', List.drop_left', List.take_of_length_le (by omega)]
      · rw [ih his f (out ++ bs) (by simp; omega) (by omega)]
        simp [sem]
      · rfl
      · rfl
    | copy ofs len extra =>
      obtain ⟨h1, h2, h3, h4, h5⟩ := hi
      obtain ⟨c, args, e1, e2, e3, e4⟩ := copyArgs_enc ofs len extra (encInstrs is) h1 h2 h3
      simp only [encInstrs, e1, List.cons_append, List.length_cons, List.length_append] at hfuel ⊢
      simp only [sem, List.length_append] at hcap
      unfold applyGo
      have hc : (UInt8.ofNat c).toNat = c := toNat_ofNat_lt _ e2
      simp only [hc]
      rw [if_pos e3, e4]
      simp only
      rw [if_neg (by omega)]
      have hlen : ((base.drop ofs).take len).length = len := by
        rw [List.length_take, List.length_drop]; omega
      rw [List.take_of_length_le (by omega)]
      rw [ih his f (out ++ (base.drop ofs).take len) (by simp only [List.length_append]; omega) (by omega)]
      simp [sem]

theorem apply_enc (base : Bytes) (instrs : List Instr) (hwf : ∀ i ∈ instrs, i.Wf base) :
    apply base (sem base instrs).length (encInstrs instrs) = some (sem base instrs) := by
  unfold apply
  rw [applyGo_enc base instrs hwf _ _ [] (by simp) (by omega)]
  simp

/-! ### the delta's size headers -/

theorem dhsLoop_enc (f : Nat) : ∀ (n : Nat), n < cap (f + 1) →
    ∀ (i p acc cons : Nat) (tail : Bytes), p = 2 ^ i → i < 64 → acc + n * p < u64 →
      dhsLoop (encSize f n ++ tail) i acc cons = .ok (acc + n * p, cons + (encSize f n).length) ∧
      (encSize f n).length ≤ f + 1 := by
  induction f with
  | zero =>
    intro n hn i p acc cons tail hp hi hacc
    simp only [cap] at hn
    have hb : (UInt8.ofNat (n % 128)).toNat = n := by rw [toNat_ofNat_lt _ (by omega)]; omega
    have hnp : n * p < u64 := by omega
    simp only [encSize, List.cons_append, List.nil_append, dhsLoop]
    have hmod : n % 128 = n := by omega
    rw [if_neg (by omega), hb, ← hp, hmod, Nat.mod_eq_of_lt hnp, if_pos (by omega)]
    simp
  | succ f ih =>
    intro n hn i p acc cons tail hp hi hacc
    simp only [cap] at hn
    unfold encSize
    by_cases h0 : n / 128 = 0
    · rw [if_pos h0]
      have hb : (UInt8.ofNat (n % 128)).toNat = n := by rw [toNat_ofNat_lt _ (by omega)]; omega
      have hnp : n * p < u64 := by omega
      simp only [List.cons_append, List.nil_append, dhsLoop]
      have hmod : n % 128 = n := by omega
      rw [if_neg (by omega), hb, ← hp, hmod, Nat.mod_eq_of_lt hnp, if_pos (by omega)]
      simp
    · rw [if_neg h0]
      have hb : (UInt8.ofNat (n % 128 + 128)).toNat = n % 128 + 128 := toNat_ofNat_lt _ (by omega)
      have hsplit := split128 n p
      have hle : (n % 128) * p ≤ n * p := Nat.mul_le_mul_right p (Nat.mod_le n 128)
      have hp7 : p * 128 = 2 ^ (i + 7) := by rw [hp, Nat.pow_add]
      have hpos : 1 * (p * 128) ≤ (n / 128) * (p * 128) := Nat.mul_le_mul_right _ (by omega)
      have hi7 : i + 7 < 64 := pow_lt_u64 (i + 7) (by rw [← hp7]; omega)
      obtain ⟨e1, e2⟩ := ih (n / 128) (by simp only [cap]; omega) (i + 7) (p * 128) (acc + (n % 128) * p)
        (cons + 1) tail hp7 hi7 (by omega)
      simp only [List.cons_append, dhsLoop]
      rw [if_neg (by omega), hb, ← hp]
      have hm : (n % 128 + 128) % 128 = n % 128 := by omega
      rw [hm, Nat.mod_eq_of_lt (a := n % 128 * p) (b := u64) (by omega), if_neg (by omega), e1]
      simp only [List.length_cons]
      refine ⟨?_, by omega⟩
      congr 2
      · omega
      · omega

theorem decodeHeaderSize_enc (n : Nat) (h : n < u64) (tail : Bytes) :
    decodeHeaderSize (encSize 10 n ++ tail) = .ok (n, (encSize 10 n).length) := by
  have hu := u64_eq
  have hc : cap (10 + 1) = 128 * (128 * cap 9) := rfl
  have := cap_pos 9
  obtain ⟨e1, _⟩ := dhsLoop_enc 10 n (by omega) 0 1 0 0 tail (by decide) (by decide) (by omega)
  unfold decodeHeaderSize
  rw [e1]
  simp

/-- A delta as git writes it — both size headers, then the instructions — applied to its base the
way `resolve_deltas` does it yields exactly the target the instructions describe. -/
theorem applyDelta_enc (base : Bytes) (instrs : List Instr) (hwf : ∀ i ∈ instrs, i.Wf base)
    (hb : base.length < u64) (ht : (sem base instrs).length < u64) :
    applyDelta base (encDelta base instrs) = .ok (sem base instrs) := by
  unfold applyDelta encDelta
  rw [decodeHeaderSize_enc base.length hb]
  simp only
  rw [List.drop_left, decodeHeaderSize_enc _ ht]
  simp only
  rw [if_neg (by omega), List.take_length]
  have hd : List.drop ((encSize 10 base.length).length + (encSize 10 (sem base instrs).length).length)
      (encSize 10 base.length ++ (encSize 10 (sem base instrs).length ++ encInstrs instrs)) = encInstrs instrs := by
    rw [← List.append_assoc, ← List.length_append, List.drop_left]
  rw [hd, apply_enc base instrs hwf]

theorem applyDeltaThin_enc (base : Bytes) (instrs : List Instr) (hwf : ∀ i ∈ instrs, i.Wf base)
    (hb : base.length < u64) (ht : (sem base instrs).length < u64) :
    applyDeltaThin base (encDelta base instrs) = .ok (sem base instrs) := by
  unfold applyDeltaThin encDelta
  rw [decodeHeaderSize_enc base.length hb]
  simp only
  rw [List.drop_left, decodeHeaderSize_enc _ ht]
  simp only
  rw [if_neg (by omega), List.take_length]
  have hd : List.drop ((encSize 10 base.length).length + (encSize 10 (sem base instrs).length).length)
      (encSize 10 base.length ++ (encSize 10 (sem base instrs).length ++ encInstrs instrs)) = encInstrs instrs := by
    rw [← List.append_assoc, ← List.length_append, List.drop_left]
  rw [hd, apply_enc base instrs hwf]

end GixModel.C07
