import GixModel.Lemmas.C46
/-
C46 — lemmas, part 2: the `paint_down_to_common` loop keeps `PInv`, terminates within the
prescribed fuel without panicking, and its output is sound and complete (`paint_spec`).
-/
namespace GixModel.C46
open GixModel GixModel.CG GixModel.Spec.C46

theorem markBase_flags (fl : FlagMap) (c : Nat) (b : Bool) (x : Nat) :
    ((markBase fl c b) x).c1 = (fl x).c1 ∧ ((markBase fl c b) x).c2 = (fl x).c2 ∧
      ((markBase fl c b) x).stale = (fl x).stale := by
  unfold markBase FlagMap.setResult
  split
  · by_cases hx : x = c
    · subst hx; rw [FlagMap.set_same]; exact ⟨rfl, rfl, rfl⟩
    · rw [FlagMap.set_other _ _ hx]; exact ⟨rfl, rfl, rfl⟩
  · exact ⟨rfl, rfl, rfl⟩

theorem markBase_result (fl : FlagMap) (c : Nat) (b : Bool) (x : Nat) :
    ((markBase fl c b) x).result = ((fl x).result || (decide (x = c) && b)) := by
  unfold markBase FlagMap.setResult
  by_cases hx : x = c
  · subst hx
    by_cases hb : (b && !(fl x).result) = true
    · rw [if_pos hb, FlagMap.set_same]
      simp only [Bool.and_eq_true, Bool.not_eq_true'] at hb
      simp [hb.1]
    · rw [if_neg hb]
      cases b <;> cases h : (fl x).result <;> simp_all
  · split
    · rw [FlagMap.set_other _ _ hx]; simp [hx]
    · simp [hx]

theorem markBase_sub (fl : FlagMap) (c : Nat) (b : Bool) (x : Nat) : (fl x).sub ((markBase fl c b) x) := by
  obtain ⟨h1, h2, h3⟩ := markBase_flags fl c b x
  exact ⟨fun h => by rw [h1]; exact h, fun h => by rw [h2]; exact h, fun h => by rw [h3]; exact h⟩

theorem markBase_sub' (fl : FlagMap) (c : Nat) (b : Bool) (x : Nat) : ((markBase fl c b) x).sub (fl x) := by
  obtain ⟨h1, h2, h3⟩ := markBase_flags fl c b x
  exact ⟨fun h => by rw [← h1]; exact h, fun h => by rw [← h2]; exact h, fun h => by rw [← h3]; exact h⟩

theorem markBase_missing (fl : FlagMap) (c : Nat) (b : Bool) (x : Nat) :
    missing ((markBase fl c b) x) = missing (fl x) := by
  obtain ⟨h1, h2, h3⟩ := markBase_flags fl c b x
  simp [missing, h1, h2, h3]

theorem passOf_congr {f f' : Flags} (h1 : f'.c1 = f.c1) (h2 : f'.c2 = f.c2) (h3 : f'.stale = f.stale) :
    passOf f' = passOf f := by
  simp [passOf, h1, h2, h3]

section step
variable {g : Dag} {q : PQ Key} {nodes : List Nat} {a : Nat} {bs : List Nat}

theorem paintStep_inv (hq : q.Lawful) (hac : Acyclic g) (hcl : Closed g nodes) {s : PState q.Q}
    (hinv : PInv g q nodes a bs s) {k : Key} {c : Nat} {qu : q.Q}
    (hpop : q.pop s.queue = some ((k, c), qu)) : PInv g q nodes a bs (paintStep g q s k c qu) := by
  have hperm := hq.pop_some _ _ _ hpop
  have hkc : (k, c) ∈ q.items s.queue := hperm.symm.subset List.mem_cons_self
  have hk : k = keyOf g c := hinv.queue_keys _ hkc
  have hcn : c ∈ nodes := hinv.queue_nodes _ hkc
  have hsubq : ∀ e, e ∈ q.items qu → e ∈ q.items s.queue :=
    fun e he => hperm.symm.subset (List.mem_cons_of_mem _ he)
  -- abbreviations
  let f := s.flags c
  let isBase := f.c1 && f.c2 && !f.stale
  let fl1 := markBase s.flags c isBase
  let pass := passOf f
  have hs' : paintStep g q s k c qu =
      { flags := (propagate g q pass (g.parents c) fl1 qu).1,
        queue := (propagate g q pass (g.parents c) fl1 qu).2,
        out := if (isBase && !f.result) = true then s.out ++ [(c, k)] else s.out } := rfl
  rw [hs']
  obtain ⟨i1, i2, i3⟩ := propagate_items (g := g) hq pass (g.parents c) fl1 qu
  have hmono : ∀ x, (s.flags x).sub ((propagate g q pass (g.parents c) fl1 qu).1 x) :=
    fun x => Flags.sub_trans (markBase_sub _ _ _ x) (propagate_sub g q pass _ fl1 qu x)
  have hres : ∀ x, ((propagate g q pass (g.parents c) fl1 qu).1 x).result
      = ((s.flags x).result || (decide (x = c) && isBase)) := by
    intro x
    rw [propagate_result]
    exact markBase_result _ _ _ x
  have hpassc1 : pass.c1 = true → Reach g a c := fun h => hinv.c1_sound c h
  have hpassc2 : pass.c2 = true → ∃ b, b ∈ bs ∧ Reach g b c := fun h => hinv.c2_sound c h
  -- a flag of the new map is either an old one or came down from `c`
  have hnew : ∀ x, ((propagate g q pass (g.parents c) fl1 qu).1 x = fl1 x) ∨
      (x ∈ g.parents c ∧ (fl1 x).covers pass = false ∧
        (propagate g q pass (g.parents c) fl1 qu).1 x = (fl1 x).add pass) := by
    intro x
    rw [propagate_flags]
    by_cases h : x ∈ g.parents c ∧ (fl1 x).covers pass = false
    · rw [if_pos h]; exact Or.inr ⟨h.1, h.2, rfl⟩
    · rw [if_neg h]; exact Or.inl rfl
  have hfl1 := fun x => markBase_flags s.flags c isBase x
  refine
    { first_c1 := (hmono a).1 hinv.first_c1
      others_c2 := fun b hb => (hmono b).2.1 (hinv.others_c2 b hb)
      c1_sound := ?_
      c2_sound := ?_
      stale_sound := ?_
      settled := ?_
      queue_keys := ?_
      queue_nodes := ?_
      out_iff := ?_
      result_base := ?_
      out_nodup := ?_
      out_keys := ?_ }
  all_goals try dsimp only
  · -- c1_sound
    intro x hx
    cases hnew x with
    | inl h => rw [h, (hfl1 x).1] at hx; exact hinv.c1_sound x hx
    | inr h =>
      rw [h.2.2] at hx
      simp only [Flags.add, Bool.or_eq_true] at hx
      cases hx with
      | inl h' => rw [(hfl1 x).1] at h'; exact hinv.c1_sound x h'
      | inr h' => exact (hpassc1 h').tail h.1
  · -- c2_sound
    intro x hx
    cases hnew x with
    | inl h => rw [h, (hfl1 x).2.1] at hx; exact hinv.c2_sound x hx
    | inr h =>
      rw [h.2.2] at hx
      simp only [Flags.add, Bool.or_eq_true] at hx
      cases hx with
      | inl h' => rw [(hfl1 x).2.1] at h'; exact hinv.c2_sound x h'
      | inr h' =>
        obtain ⟨b, hb, hr⟩ := hpassc2 h'
        exact ⟨b, hb, hr.tail h.1⟩
  · -- stale_sound
    intro x hx
    cases hnew x with
    | inl h => rw [h, (hfl1 x).2.2] at hx; exact hinv.stale_sound x hx
    | inr h =>
      rw [h.2.2] at hx
      simp only [Flags.add, Bool.or_eq_true] at hx
      cases hx with
      | inl h' => rw [(hfl1 x).2.2] at h'; exact hinv.stale_sound x h'
      | inr h' =>
        have h'' : f.stale = true ∨ (f.c1 = true ∧ f.c2 = true) := by
          have : (f.stale || (f.c1 && f.c2)) = true := h'
          simpa using this
        cases h'' with
        | inl hst =>
          obtain ⟨y, hy, hyc, _⟩ := hinv.stale_sound c hst
          exact ⟨y, hy, hyc.tail h.1, rank_ne_parent hac h.1 hyc⟩
        | inr hb =>
          exact ⟨c, ⟨hinv.c1_sound c hb.1, hinv.c2_sound c hb.2⟩, Reach.single h.1,
            rank_ne_parent hac h.1 (Reach.refl c)⟩
  · -- settled
    intro x
    -- a commit whose flags changed was queued
    have hchanged : (propagate g q pass (g.parents c) fl1 qu).1 x ≠ fl1 x →
        ∃ k', (k', x) ∈ q.items (propagate g q pass (g.parents c) fl1 qu).2 := by
      intro hne
      cases hnew x with
      | inl h => exact absurd h hne
      | inr h => exact ⟨keyOf g x, i3 x h.1 h.2.1⟩
    by_cases hch : (propagate g q pass (g.parents c) fl1 qu).1 x = fl1 x
    · by_cases hxc : x = c
      · -- the popped commit: its (unchanged) flags were just handed down
        subst hxc
        right
        have hp : passOf ((propagate g q pass (g.parents x) fl1 qu).1 x) = pass := by
          rw [hch]
          exact passOf_congr (hfl1 x).1 (hfl1 x).2.1 (hfl1 x).2.2
        refine ⟨?_, ?_⟩
        · intro p hp'
          rw [hp]
          exact propagate_covers g q pass _ fl1 qu p hp'
        · intro h1 h2 h3
          rw [hres]
          rw [hch] at h1 h2 h3
          rw [(hfl1 x).1] at h1
          rw [(hfl1 x).2.1] at h2
          rw [(hfl1 x).2.2] at h3
          have : isBase = true := by
            show (f.c1 && f.c2 && !f.stale) = true
            simp [f, h1, h2, h3]
          simp [this]
      · cases hinv.settled x with
        | inl hin =>
          obtain ⟨k', hk'⟩ := hin
          have : (k', x) ∈ (k, c) :: q.items qu := hperm.subset hk'
          cases List.mem_cons.mp this with
          | inl h => exact absurd (congrArg Prod.snd h) hxc
          | inr h => exact Or.inl ⟨k', i1 _ h⟩
        | inr hset =>
          right
          have hxflags : (propagate g q pass (g.parents c) fl1 qu).1 x = s.flags x ∨ True := Or.inr trivial
          have hp : passOf ((propagate g q pass (g.parents c) fl1 qu).1 x) = passOf (s.flags x) := by
            rw [hch]
            exact passOf_congr (hfl1 x).1 (hfl1 x).2.1 (hfl1 x).2.2
          refine ⟨?_, ?_⟩
          · intro p hp'
            rw [hp]
            exact Flags.covers_mono (hmono p) (hset.1 p hp')
          · intro h1 h2 h3
            rw [hch] at h1 h2 h3
            rw [(hfl1 x).1] at h1
            rw [(hfl1 x).2.1] at h2
            rw [(hfl1 x).2.2] at h3
            rw [hres]
            simp [hset.2 h1 h2 h3]
    · exact Or.inl (hchanged hch)
  · -- queue_keys
    intro e he
    cases i2 e he with
    | inl h => exact hinv.queue_keys e (hsubq e h)
    | inr h => exact h.1
  · -- queue_nodes
    intro e he
    cases i2 e he with
    | inl h => exact hinv.queue_nodes e (hsubq e h)
    | inr h => exact hcl c hcn _ h.2
  · -- out_iff
    intro x
    rw [hres]
    by_cases hb : (isBase && !f.result) = true
    · simp only [outIds, if_pos hb, List.map_append, List.map_cons, List.map_nil, List.mem_append,
        List.mem_singleton]
      have hb' : isBase = true ∧ f.result = false := by simpa using hb
      have := hinv.out_iff x
      simp only [outIds] at this
      rw [this]
      by_cases hxc : x = c
      · subst hxc; simp [hb'.1]
      · simp [hxc]
    · simp only [outIds, if_neg hb]
      have := hinv.out_iff x
      simp only [outIds] at this
      rw [this]
      by_cases hxc : x = c
      · subst hxc
        have : isBase = false ∨ f.result = true := by
          cases h1 : isBase <;> cases h2 : f.result <;> simp_all
        cases this with
        | inl h => simp [h]
        | inr h =>
          have hf : (s.flags x).result = true := h
          simp [hf]
      · simp [hxc]
  · -- result_base
    intro x hx
    rw [hres] at hx
    simp only [Bool.or_eq_true, Bool.and_eq_true, decide_eq_true_eq] at hx
    cases hx with
    | inl h =>
      have := hinv.result_base x h
      exact ⟨(hmono x).1 this.1, (hmono x).2.1 this.2⟩
    | inr h =>
      obtain ⟨hxc, hb⟩ := h
      subst hxc
      have hb' : (f.c1 = true ∧ f.c2 = true) ∧ f.stale = false := by
        have : (f.c1 && f.c2 && !f.stale) = true := hb
        simpa using this
      exact ⟨(hmono x).1 hb'.1.1, (hmono x).2.1 hb'.1.2⟩
  · -- out_nodup
    by_cases hb : (isBase && !f.result) = true
    · simp only [outIds, if_pos hb, List.map_append, List.map_cons, List.map_nil]
      have hb' : isBase = true ∧ f.result = false := by simpa using hb
      have hnot : c ∉ s.out.map (·.1) := by
        intro hmem
        have := (hinv.out_iff c).mp hmem
        have hf : f.result = true := this
        rw [hb'.2] at hf
        cases hf
      have hnd := hinv.out_nodup
      simp only [outIds] at hnd
      rw [List.nodup_append]
      refine ⟨hnd, by simp, ?_⟩
      intro x hx y hy
      simp only [List.mem_singleton] at hy
      subst hy
      intro hxy
      subst hxy
      exact hnot hx
    · simp only [outIds, if_neg hb]
      exact hinv.out_nodup
  · -- out_keys
    intro e he
    by_cases hb : (isBase && !f.result) = true
    · rw [if_pos hb] at he
      cases List.mem_append.mp he with
      | inl h => exact hinv.out_keys e h
      | inr h =>
        simp only [List.mem_singleton] at h
        subst h
        exact hk
    · rw [if_neg hb] at he
      exact hinv.out_keys e he

theorem paintStep_measure (hq : q.Lawful) (hnd : nodes.Nodup) (hcl : Closed g nodes) {s : PState q.Q}
    (hinv : PInv g q nodes a bs s) {k : Key} {c : Nat} {qu : q.Q}
    (hpop : q.pop s.queue = some ((k, c), qu)) :
    phi q nodes (paintStep g q s k c qu) + 1 ≤ phi q nodes s := by
  have hperm := hq.pop_some _ _ _ hpop
  have hkc : (k, c) ∈ q.items s.queue := hperm.symm.subset List.mem_cons_self
  have hcn : c ∈ nodes := hinv.queue_nodes _ hkc
  have hlen := hperm.length_eq
  simp only [List.length_cons] at hlen
  have h1 := propagate_measure (g := g) hq (passOf (s.flags c)) nodes hnd (g.parents c)
    (markBase s.flags c ((s.flags c).c1 && (s.flags c).c2 && !(s.flags c).stale)) qu
    (fun p hp => hcl c hcn p hp)
  have h2 : deficit nodes (markBase s.flags c ((s.flags c).c1 && (s.flags c).c2 && !(s.flags c).stale))
      = deficit nodes s.flags := deficit_congr _ _ _ (fun x _ => markBase_missing _ _ _ x)
  simp only [phi, paintStep]
  omega

end step

/-! ### initial state -/

theorem paintOthers_spec {g : Dag} {q : PQ Key} (hq : q.Lawful) :
    ∀ (os : List Nat) (fl : FlagMap) (qu : q.Q),
      (∀ x, ((paintOthers g q os fl qu).1 x).c1 = (fl x).c1 ∧
            ((paintOthers g q os fl qu).1 x).stale = (fl x).stale ∧
            ((paintOthers g q os fl qu).1 x).result = (fl x).result ∧
            ((paintOthers g q os fl qu).1 x).c2 = ((fl x).c2 || decide (x ∈ os))) ∧
      (∀ e, e ∈ q.items (paintOthers g q os fl qu).2 ↔
            e ∈ q.items qu ∨ (e.2 ∈ os ∧ e.1 = keyOf g e.2)) ∧
      (q.items (paintOthers g q os fl qu).2).length = (q.items qu).length + os.length := by
  intro os
  induction os with
  | nil => intro fl qu; simp [paintOthers]
  | cons o os ih =>
    intro fl qu
    unfold paintOthers
    obtain ⟨h1, h2, h3⟩ := ih (fl.set o { fl o with c2 := true }) (q.insert (keyOf g o) o qu)
    have hins := hq.items_insert (keyOf g o) o qu
    refine ⟨?_, ?_, ?_⟩
    · intro x
      obtain ⟨a1, a2, a3, a4⟩ := h1 x
      by_cases hx : x = o
      · subst hx
        rw [FlagMap.set_same] at a1 a2 a3 a4
        refine ⟨a1, a2, a3, ?_⟩
        rw [a4]; simp
      · rw [FlagMap.set_other _ _ hx] at a1 a2 a3 a4
        refine ⟨a1, a2, a3, ?_⟩
        rw [a4]; simp [hx]
    · intro e
      rw [h2]
      constructor
      · intro h
        cases h with
        | inl h =>
          cases List.mem_cons.mp (hins.subset h) with
          | inl h' => subst h'; exact Or.inr ⟨List.mem_cons_self, rfl⟩
          | inr h' => exact Or.inl h'
        | inr h => exact Or.inr ⟨List.mem_cons_of_mem _ h.1, h.2⟩
      · intro h
        cases h with
        | inl h => exact Or.inl (hins.symm.subset (List.mem_cons_of_mem _ h))
        | inr h =>
          cases List.mem_cons.mp h.1 with
          | inl h' =>
            left
            apply hins.symm.subset
            have : e = (keyOf g o, o) := by
              rcases e with ⟨ek, ev⟩
              simp only at h' h
              subst h'
              rw [h.2]
            rw [this]; exact List.mem_cons_self
          | inr h' => exact Or.inr ⟨h', h.2⟩
    · rw [h3, hins.length_eq]
      simp only [List.length_cons]
      omega

theorem paintInit_inv {g : Dag} {q : PQ Key} (hq : q.Lawful) {nodes : List Nat} {a : Nat} {bs : List Nat}
    (ha : a ∈ nodes) (hbs : ∀ b, b ∈ bs → b ∈ nodes) : PInv g q nodes a bs (paintInit g q a bs) := by
  have hins := hq.items_insert (keyOf g a) a q.empty
  rw [hq.items_empty] at hins
  obtain ⟨h1, h2, _⟩ := paintOthers_spec (g := g) hq bs (FlagMap.clear.set a { c1 := true })
    (q.insert (keyOf g a) a q.empty)
  have hfl : ∀ x, ((paintInit g q a bs).flags x).c1 = decide (x = a) ∧
      ((paintInit g q a bs).flags x).stale = false ∧ ((paintInit g q a bs).flags x).result = false ∧
      ((paintInit g q a bs).flags x).c2 = decide (x ∈ bs) := by
    intro x
    obtain ⟨a1, a2, a3, a4⟩ := h1 x
    simp only [paintInit]
    by_cases hx : x = a
    · subst hx
      rw [FlagMap.set_same] at a1 a2 a3 a4
      refine ⟨by rw [a1]; simp, a2, a3, by rw [a4]; simp⟩
    · rw [FlagMap.set_other _ _ hx] at a1 a2 a3 a4
      refine ⟨by rw [a1]; simp [FlagMap.clear, hx], by rw [a2]; rfl, by rw [a3]; rfl,
        by rw [a4]; simp [FlagMap.clear]⟩
  have hqi : ∀ e, e ∈ q.items (paintInit g q a bs).queue ↔
      e = (keyOf g a, a) ∨ (e.2 ∈ bs ∧ e.1 = keyOf g e.2) := by
    intro e
    simp only [paintInit]
    rw [h2]
    constructor
    · intro h
      cases h with
      | inl h => exact Or.inl (by simpa using hins.subset h)
      | inr h => exact Or.inr h
    · intro h
      cases h with
      | inl h => exact Or.inl (hins.symm.subset (by simp [h]))
      | inr h => exact Or.inr h
  refine
    { first_c1 := by rw [(hfl a).1]; simp
      others_c2 := fun b hb => by rw [(hfl b).2.2.2]; simp [hb]
      c1_sound := ?_
      c2_sound := ?_
      stale_sound := ?_
      settled := ?_
      queue_keys := ?_
      queue_nodes := ?_
      out_iff := ?_
      result_base := ?_
      out_nodup := by simp [outIds, paintInit]
      out_keys := by intro e he; simp [paintInit] at he }
  · intro x hx
    rw [(hfl x).1] at hx
    have : x = a := by simpa using hx
    subst this; exact Reach.refl _
  · intro x hx
    rw [(hfl x).2.2.2] at hx
    have : x ∈ bs := by simpa using hx
    exact ⟨x, this, Reach.refl _⟩
  · intro x hx
    rw [(hfl x).2.1] at hx; cases hx
  · intro x
    by_cases hxa : x = a
    · subst hxa
      exact Or.inl ⟨keyOf g x, (hqi _).mpr (Or.inl rfl)⟩
    · by_cases hxb : x ∈ bs
      · exact Or.inl ⟨keyOf g x, (hqi _).mpr (Or.inr ⟨hxb, rfl⟩)⟩
      · right
        have h1' : ((paintInit g q a bs).flags x).c1 = false := by rw [(hfl x).1]; simp [hxa]
        have h2' : ((paintInit g q a bs).flags x).c2 = false := by rw [(hfl x).2.2.2]; simp [hxb]
        have h3' := (hfl x).2.1
        refine ⟨?_, ?_⟩
        · intro p _
          have : passOf ((paintInit g q a bs).flags x) = ⟨false, false, false⟩ := by
            simp [passOf, h1', h2', h3']
          rw [this]
          simp [Flags.covers]
        · intro h; rw [h1'] at h; cases h
  · intro e he
    cases (hqi e).mp he with
    | inl h => rw [h]
    | inr h => exact h.2
  · intro e he
    cases (hqi e).mp he with
    | inl h => rw [h]; exact ha
    | inr h => exact hbs _ h.1
  · intro x
    rw [(hfl x).2.2.1]
    simp [outIds, paintInit]
  · intro x hx
    rw [(hfl x).2.2.1] at hx; cases hx

theorem paintInit_phi {g : Dag} {q : PQ Key} (hq : q.Lawful) (nodes : List Nat) (a : Nat) (bs : List Nat) :
    phi q nodes (paintInit g q a bs) ≤ 3 * nodes.length + bs.length + 1 := by
  have hins := (hq.items_insert (keyOf g a) a q.empty).length_eq
  rw [hq.items_empty] at hins
  obtain ⟨_, _, h3⟩ := paintOthers_spec (g := g) hq bs (FlagMap.clear.set a { c1 := true })
    (q.insert (keyOf g a) a q.empty)
  have := deficit_le nodes (paintInit g q a bs).flags
  simp only [phi, paintInit] at this ⊢
  rw [h3, hins]
  simp only [List.length_cons, List.length_nil]
  omega

/-! ### the loop -/

theorem paintLoop_spec {g : Dag} {q : PQ Key} {nodes : List Nat} {a : Nat} {bs : List Nat}
    (hq : q.Lawful) (hac : Acyclic g) (hcl : Closed g nodes) (hnd : nodes.Nodup) :
    ∀ (fuel : Nat) (s : PState q.Q), PInv g q nodes a bs s → phi q nodes s < fuel →
      ∃ s', paintLoop g q fuel s = .ok s' ∧ PInv g q nodes a bs s' ∧
        ∀ e, e ∈ q.items s'.queue → (s'.flags e.2).stale = true := by
  intro fuel
  induction fuel with
  | zero => intro s _ h; omega
  | succ fuel ih =>
    intro s hinv hphi
    unfold paintLoop
    by_cases hany : ((q.items s.queue).any fun e => !(s.flags e.2).stale) = true
    · rw [if_pos hany]
      cases hpop : q.pop s.queue with
      | none =>
        have := hq.pop_none _ hpop
        rw [this] at hany
        simp at hany
      | some r =>
        obtain ⟨⟨k, c⟩, qu⟩ := r
        simp only
        have hm := paintStep_measure (g := g) (a := a) (bs := bs) hq hnd hcl hinv hpop
        exact ih _ (paintStep_inv hq hac hcl hinv hpop) (by omega)
    · rw [if_neg hany]
      refine ⟨s, rfl, hinv, ?_⟩
      intro e he
      have : ¬ ∃ x, x ∈ q.items s.queue ∧ (!(s.flags x.2).stale) = true := by
        intro h
        exact hany (List.any_eq_true.mpr h)
      cases hst : (s.flags e.2).stale with
      | true => rfl
      | false => exact absurd ⟨e, he, by simp [hst]⟩ this

/-- What `paint_down_to_common` delivers, for every queue discipline, arbitrary commit times and
generation numbers: it neither panics nor runs out of the prescribed fuel; its output are distinct
common ancestors with their queue keys; every merge base (maximal common ancestor) is among them. -/
theorem paint_spec {g : Dag} {q : PQ Key} {nodes : List Nat} {a : Nat} {bs : List Nat} {n : Nat}
    (hq : q.Lawful) (hac : Acyclic g) (hcl : Closed g nodes) (hnd : nodes.Nodup)
    (ha : a ∈ nodes) (hbs : ∀ b, b ∈ bs → b ∈ nodes) (hn : nodes.length ≤ n) :
    ∃ s, paint g q n a bs = .ok s ∧
      (∀ x, x ∈ outIds s → Common g a bs x) ∧
      (∀ x, IsMergeBase g a bs x → x ∈ outIds s) ∧
      (outIds s).Nodup ∧ (∀ e, e ∈ s.out → e.2 = keyOf g e.1) := by
  have hphi := paintInit_phi (g := g) hq nodes a bs
  obtain ⟨s, hs, hinv, hstale⟩ := paintLoop_spec (a := a) (bs := bs) hq hac hcl hnd (paintFuel n bs)
    (paintInit g q a bs) (paintInit_inv hq ha hbs) (by simp only [paintFuel]; omega)
  refine ⟨s, hs, ?_, ?_, hinv.out_nodup, hinv.out_keys⟩
  · intro x hx
    have hr := (hinv.out_iff x).mp hx
    have := hinv.result_base x hr
    exact ⟨hinv.c1_sound x this.1, hinv.c2_sound x this.2⟩
  · intro x hx
    obtain ⟨⟨hxa, b, hb, hxb⟩, hmax⟩ := hx
    -- nothing between the tips and `x` is STALE
    have hfresh : ∀ y, Reach g y x → (s.flags y).stale = false := by
      intro y hyx
      cases hst : (s.flags y).stale with
      | false => rfl
      | true =>
        exfalso
        obtain ⟨z, hz, hzy, hne⟩ := hinv.stale_sound y hst
        have hzx : z = x := hmax z hz (hzy.trans hyx)
        subst hzx
        exact hne (Reach.antisymm hac hzy hyx)
    have hsettled : ∀ y, Reach g y x → Settled g s.flags y := by
      intro y hyx
      cases hinv.settled y with
      | inl h =>
        obtain ⟨k, hk⟩ := h
        have := hstale _ hk
        simp only at this
        rw [hfresh y hyx] at this
        cases this
      | inr h => exact h
    -- COMMIT1 flows down from `a`, COMMIT2 from `b`
    have hc1 : ∀ {y}, Reach g a y → Reach g y x → (s.flags y).c1 = true := by
      intro y hay
      refine Reach.induction_tail (motive := fun y => Reach g y x → (s.flags y).c1 = true)
        (fun _ => hinv.first_c1) ?_ hay
      intro y p _ ih hp hpx
      have hyx : Reach g y x := Reach.head hp hpx
      have hc := (hsettled y hyx).1 p hp
      exact Flags.covers_c1 hc (by simp [passOf, ih hyx])
    have hc2 : ∀ {y}, Reach g b y → Reach g y x → (s.flags y).c2 = true := by
      intro y hby
      refine Reach.induction_tail (motive := fun y => Reach g y x → (s.flags y).c2 = true)
        (fun _ => hinv.others_c2 b hb) ?_ hby
      intro y p _ ih hp hpx
      have hyx : Reach g y x := Reach.head hp hpx
      have hc := (hsettled y hyx).1 p hp
      exact Flags.covers_c2 hc (by simp [passOf, ih hyx])
    have hx1 := hc1 hxa (Reach.refl x)
    have hx2 := hc2 hxb (Reach.refl x)
    have hres := (hsettled x (Reach.refl x)).2 hx1 hx2 (hfresh x (Reach.refl x))
    exact (hinv.out_iff x).mpr hres

end GixModel.C46
