import GixModel.Spec.C48
/-
C48 — the tokenizer on printed navigation suffixes (`~n ^n ^{…}`), with the all-accepting delegate.
-/
namespace GixModel.C48
open GixModel GixModel.Spec.C48

/-! ### bookkeeping -/

def St.pushAll (s : St) (cs : List Call) : St := cs.foldl St.push s

@[simp] theorem callK_allYes (s : St) (c : Call) (k : St → Res) : callK allYes s c k = k (s.push c) := by
  simp [callK, allYes]

@[simp] theorem pushAll_nil (s : St) : s.pushAll [] = s := rfl

@[simp] theorem pushAll_cons (s : St) (c : Call) (cs : List Call) :
    s.pushAll (c :: cs) = (s.push c).pushAll cs := rfl

theorem pushAll_append (s : St) (a b : List Call) : s.pushAll (a ++ b) = (s.pushAll a).pushAll b := by
  simp [St.pushAll, List.foldl_append]

theorem pushAll_calls (cs : List Call) : ∀ s : St, (s.pushAll cs).calls = cs.reverse ++ s.calls := by
  induction cs with
  | nil => intro s; rfl
  | cons c cs ih =>
    intro s
    rw [pushAll_cons, ih]
    simp [St.push]

theorem pushAll_done (cs : List Call) : ∀ s : St, (s.pushAll cs).done = s.done := by
  induction cs with
  | nil => intro s; rfl
  | cons c cs ih => intro s; rw [pushAll_cons, ih]; rfl

/-! ### decimal numbers -/

theorem digit_ofNat : ∀ d : Nat, d < 10 →
    isDigit (UInt8.ofNat (48 + d)) = true ∧ (UInt8.ofNat (48 + d)).toNat - 48 = d := by
  decide +kernel

theorem digitsFuel_spec : ∀ (fuel n : Nat), n < 10 ^ (fuel + 1) →
    digitsFuel 10 (fuel + 1) n ≠ [] ∧ (digitsFuel 10 (fuel + 1) n).all isDigit = true
      ∧ decVal (digitsFuel 10 (fuel + 1) n) = n := by
  intro fuel
  induction fuel with
  | zero =>
    intro n hn
    have hn' : n < 10 := by simpa using hn
    have := digit_ofNat n hn'
    simp only [digitsFuel, hn', if_true]
    refine ⟨List.cons_ne_nil _ _, ?_, ?_⟩
    · simp only [List.all_cons, List.all_nil, this.1, Bool.and_true]
    · simp only [decVal, List.foldl_cons, List.foldl_nil, this.2]; omega
  | succ fuel ih =>
    intro n hn
    rw [digitsFuel]
    by_cases h10 : n < 10
    · have := digit_ofNat n h10
      simp only [h10, if_true]
      refine ⟨List.cons_ne_nil _ _, ?_, ?_⟩
      · simp only [List.all_cons, List.all_nil, this.1, Bool.and_true]
      · simp only [decVal, List.foldl_cons, List.foldl_nil, this.2]; omega
    · simp only [h10, if_false]
      have hdiv : n / 10 < 10 ^ (fuel + 1) := by
        rw [Nat.div_lt_iff_lt_mul (by omega)]
        rw [Nat.pow_succ] at hn; exact hn
      obtain ⟨h1, h2, h3⟩ := ih (n / 10) hdiv
      have hd := digit_ofNat (n % 10) (Nat.mod_lt _ (by omega))
      refine ⟨by simp, ?_, ?_⟩
      · rw [List.all_append, h2]; simp only [List.all_cons, List.all_nil, hd.1, Bool.and_true]
      · unfold decVal at h3 ⊢
        rw [List.foldl_append, h3]
        simp only [List.foldl_cons, List.foldl_nil, hd.2]
        omega

theorem natDec_spec (n : Nat) :
    natDec n ≠ [] ∧ (natDec n).all isDigit = true ∧ decVal (natDec n) = n := by
  unfold natDec
  apply digitsFuel_spec
  have h1 : n < 2 ^ (n.log2 + 1) := Nat.lt_log2_self
  have h2 : 2 ^ (n.log2 + 1) ≤ 10 ^ (n.log2 + 1) := Nat.pow_le_pow_left (by omega) _
  omega

theorem isDigit_range (d : UInt8) (h : isDigit d = true) : 48 ≤ d.toNat ∧ d.toNat ≤ 57 := by
  simp only [isDigit, Bool.and_eq_true, decide_eq_true_eq, UInt8.le_iff_toNat_le] at h
  have h48 : (48 : UInt8).toNat = 48 := rfl
  have h57 : (57 : UInt8).toNat = 57 := rfl
  omega

theorem isDigit_ne (d : UInt8) (h : isDigit d = true) (c : UInt8) (hc : c.toNat < 48 ∨ 57 < c.toNat) :
    d ≠ c := by
  intro heq
  subst heq
  have := isDigit_range d h
  omega

/-- `natDec n = d :: ds` with all the facts the parsers need -/
theorem natDec_cons (n : Nat) : ∃ d ds, natDec n = d :: ds ∧ isDigit d = true ∧
    (d :: ds).all isDigit = true ∧ decVal (d :: ds) = n := by
  obtain ⟨h1, h2, h3⟩ := natDec_spec n
  cases h : natDec n with
  | nil => exact absurd h h1
  | cons d ds =>
    rw [h] at h2 h3
    refine ⟨d, ds, rfl, ?_, h2, h3⟩
    simp only [List.all_cons, Bool.and_eq_true] at h2
    exact h2.1

theorem takeWhile_prefix {p : UInt8 → Bool} (l r : Bytes) (hl : l.all p = true)
    (hr : ∀ b, r.head? = some b → p b = false) : (l ++ r).takeWhile p = l := by
  induction l with
  | nil =>
    cases r with
    | nil => rfl
    | cons b r => simp [List.takeWhile_cons, hr b rfl]
  | cons a l ih =>
    simp only [List.all_cons, Bool.and_eq_true] at hl
    simp [List.takeWhile_cons, hl.1, ih hl.2]

/-! ### what may follow a navigation step -/

/-- the rest of the input after a navigation step: empty, or starting with `^ ~ : .` -/
def okNext (t : Bytes) : Bool :=
  match t with
  | [] => true
  | b :: _ => b == 94 || b == 126 || b == 58 || b == 46

theorem okNext_cases {t : Bytes} (h : okNext t = true) :
    t = [] ∨ ∃ b r, t = b :: r ∧ (b = 94 ∨ b = 126 ∨ b = 58 ∨ b = 46) := by
  cases t with
  | nil => exact Or.inl rfl
  | cons b r =>
    right
    refine ⟨b, r, rfl, ?_⟩
    simpa [okNext, or_assoc] using h

theorem okNext_not_digit {t : Bytes} (h : okNext t = true) :
    ∀ b, t.head? = some b → isDigit b = false ∧ (isDigit b || b == 45) = false := by
  intro b hb
  rcases okNext_cases h with rfl | ⟨c, r, rfl, hc⟩
  · simp at hb
  · simp only [List.head?_cons, Option.some.injEq] at hb
    subst hb
    rcases hc with rfl | rfl | rfl | rfl <;> decide

theorem tryParseUsize_none {t : Bytes} (h : okNext t = true) : tryParseUsize t = .none := by
  rcases okNext_cases h with rfl | ⟨c, r, rfl, hc⟩
  · rfl
  · rcases hc with rfl | rfl | rfl | rfl <;> simp [tryParseUsize, isDigit] <;> decide

theorem tryParseIsize_none {t : Bytes} (h : okNext t = true) : tryParseIsize t = .none := by
  rcases okNext_cases h with rfl | ⟨c, r, rfl, hc⟩
  · rfl
  · rcases hc with rfl | rfl | rfl | rfl <;> simp [tryParseIsize, isDigit] <;> decide

theorem parens_notBrace {t : Bytes} (h : okNext t = true) : parens t = .notBrace := by
  rcases okNext_cases h with rfl | ⟨c, r, rfl, hc⟩
  · rfl
  · rcases hc with rfl | rfl | rfl | rfl <;> rfl

theorem stripPlus_cons {d : UInt8} (ds : Bytes) (h : d ≠ 43) : stripPlus (d :: ds) = d :: ds := by
  unfold stripPlus
  split
  · rename_i r heq
    simp only [List.cons.injEq] at heq
    exact absurd heq.1 h
  · rfl

theorem parseUsize_digits (d : UInt8) (ds : Bytes) (hd : isDigit d = true)
    (hall : (d :: ds).all isDigit = true) (hlt : decVal (d :: ds) < 2 ^ 64) :
    parseUsize (d :: ds) = some (decVal (d :: ds)) := by
  have h43 : d ≠ 43 := isDigit_ne d hd 43 (Or.inl (by decide))
  unfold parseUsize
  rw [stripPlus_cons ds h43]
  have : allDigits (d :: ds) = true := by simp [allDigits, hall]
  rw [this]
  simp [hlt]

theorem tryParseU_digits (d : UInt8) (ds : Bytes) (hd : isDigit d = true)
    (hall : (d :: ds).all isDigit = true) (hlt : decVal (d :: ds) < 2 ^ 64) :
    tryParseU (d :: ds) = .some (decVal (d :: ds)) := by
  have h45 : (d == 45) = false := by
    simpa using isDigit_ne d hd 45 (Or.inl (by decide))
  unfold tryParseU
  rw [parseUsize_digits d ds hd hall hlt]
  simp only
  split
  · simp [h45]
  · rfl

theorem tryParseUsize_dec (n : Nat) (hn : n < 2 ^ 64) (r : Bytes) (hr : okNext r = true) :
    tryParseUsize (natDec n ++ r) = .some (n, (natDec n).length) := by
  obtain ⟨d, ds, hnd, hd, hall, hval⟩ := natDec_cons n
  have h43 : d ≠ 43 := isDigit_ne d hd 43 (Or.inl (by decide))
  have h45 : d ≠ 45 := isDigit_ne d hd 45 (Or.inl (by decide))
  have htw : (natDec n ++ r).takeWhile isDigit = natDec n :=
    takeWhile_prefix _ _ (by rw [hnd]; exact hall) (fun b hb => (okNext_not_digit hr b hb).1)
  have hhead : ((natDec n ++ r).head? == some 45 || (natDec n ++ r).head? == some 43) = false := by
    simp [hnd, h45, h43]
  unfold tryParseUsize
  rw [hhead, htw, hnd]
  have hp := tryParseU_digits d ds hd hall (by rw [hval]; exact hn)
  simp only [Bool.false_eq_true, if_false, List.isEmpty_cons, hp, hval]

theorem parseIsize_digits (d : UInt8) (ds : Bytes) (hd : isDigit d = true)
    (hall : (d :: ds).all isDigit = true) (hlt : decVal (d :: ds) < 2 ^ 63) :
    parseIsize (d :: ds) = some (decVal (d :: ds) : Int) := by
  have h43 : d ≠ 43 := isDigit_ne d hd 43 (Or.inl (by decide))
  have h45 : d ≠ 45 := isDigit_ne d hd 45 (Or.inl (by decide))
  unfold parseIsize
  split
  · rename_i r heq
    simp only [List.cons.injEq] at heq
    exact absurd heq.1 h45
  · rename_i r heq
    simp only [List.cons.injEq] at heq
    exact absurd heq.1 h43
  · simp only [allDigits, hall, List.isEmpty_cons, Bool.not_false, Bool.and_self, Bool.true_and,
      decide_eq_true_eq, hlt, if_true]

theorem tryParseI_digits (d : UInt8) (ds : Bytes) (hd : isDigit d = true)
    (hall : (d :: ds).all isDigit = true) (hlt : decVal (d :: ds) < 2 ^ 63) :
    tryParseI (d :: ds) = .some (decVal (d :: ds) : Int) := by
  have h45 : (d == 45) = false := by
    simpa using isDigit_ne d hd 45 (Or.inl (by decide))
  unfold tryParseI
  rw [parseIsize_digits d ds hd hall hlt]
  simp only
  split
  · simp [h45]
  · rfl

theorem tryParseIsize_dec (n : Nat) (hn : n < 2 ^ 63) (r : Bytes) (hr : okNext r = true) :
    tryParseIsize (natDec n ++ r) = .some ((n : Int), false, (natDec n).length) := by
  obtain ⟨d, ds, hnd, hd, hall, hval⟩ := natDec_cons n
  have h43 : d ≠ 43 := isDigit_ne d hd 43 (Or.inl (by decide))
  have h45 : d ≠ 45 := isDigit_ne d hd 45 (Or.inl (by decide))
  have hall' : (natDec n).all (fun b => isDigit b || b == 45) = true := by
    rw [hnd]
    rw [List.all_eq_true] at hall ⊢
    intro b hb
    simp [hall b hb]
  have htw : (natDec n ++ r).takeWhile (fun b => isDigit b || b == 45) = natDec n :=
    takeWhile_prefix _ _ hall' (fun b hb => (okNext_not_digit hr b hb).2)
  have hh43 : ((natDec n ++ r).head? == some 43) = false := by simp [hnd, h43]
  have hh45 : ((natDec n ++ r).head? == some 45) = false := by simp [hnd, h45]
  unfold tryParseIsize
  rw [hh43, hh45, htw, hnd]
  have hp := tryParseI_digits d ds hd hall (by rw [hval]; exact hn)
  simp only [Bool.false_eq_true, if_false, List.isEmpty_cons, hp, hval, Bool.and_false]

/-- `^-n` -/
theorem tryParseIsize_neg (n : Nat) (hn1 : 1 ≤ n) (hn : n < 2 ^ 63) :
    tryParseIsize (45 :: natDec n) = .some (-(n : Int), true, (natDec n).length + 1) := by
  obtain ⟨d, ds, hnd, hd, hall, hval⟩ := natDec_cons n
  have hall' : (45 :: natDec n).all (fun b => isDigit b || b == 45) = true := by
    rw [hnd]
    rw [List.all_eq_true] at hall ⊢
    intro b hb
    simp only [List.mem_cons] at hb
    rcases hb with rfl | hb
    · decide
    · simp [hall b (by simpa using hb)]
  have htw : (45 :: natDec n).takeWhile (fun b => isDigit b || b == 45) = 45 :: natDec n := by
    have := takeWhile_prefix (p := fun b => isDigit b || b == 45) (45 :: natDec n) [] hall' (by simp)
    simpa using this
  have hpI : parseIsize (45 :: d :: ds) = some (-(n : Int)) := by
    unfold parseIsize
    have : allDigits (d :: ds) = true := by simp [allDigits, hall]
    simp only [this, Bool.true_and, hval, decide_eq_true_eq]
    have : n ≤ 2 ^ 63 := by omega
    simp [this]
  have hp : tryParseI (45 :: d :: ds) = .some (-(n : Int)) := by
    unfold tryParseI
    rw [hpI]
    have hne : (-(n : Int) == 0) = false := by
      simp only [beq_eq_false_iff_ne, ne_eq]; omega
    simp [hne]
  unfold tryParseIsize
  rw [htw, hnd]
  simp [hp]

/-! ### `parens` on unescaped content -/

theorem parensGo_plain : ∀ (w : Bytes) (acc r : Bytes), plain w = true →
    parensGo 1 false acc (w ++ 125 :: r) = some (acc.reverse ++ w, r) := by
  intro w
  induction w with
  | nil =>
    intro acc r _
    simp [parensGo]
  | cons b w ih =>
    intro acc r hp
    simp only [plain, List.all_cons, Bool.and_eq_true, Bool.not_eq_eq_eq_not, Bool.not_true,
      Bool.or_eq_false_iff, beq_eq_false_iff_ne, ne_eq] at hp
    obtain ⟨⟨⟨h1, h2⟩, h3⟩, hw⟩ := hp
    have e1 : (b == 123) = false := by simpa using h1
    have e2 : (b == 125) = false := by simpa using h2
    have e3 : (b == 92) = false := by simpa using h3
    simp only [List.cons_append, parensGo, e1, e2, e3, Bool.false_eq_true, if_false]
    rw [ih (b :: acc) r (by simpa [plain] using hw)]
    simp

theorem parens_plain (w r : Bytes) (hw : plain w = true) :
    parens (123 :: (w ++ 125 :: r)) = .found w r := by
  unfold parens
  simp only
  rw [parensGo_plain w [] r hw]
  simp

/-! ### one navigation step -/

theorem okNext_cons94 (r : Bytes) : okNext (94 :: r) = true := rfl
theorem okNext_cons126 (r : Bytes) : okNext (126 :: r) = true := rfl

theorem Nav.print_okNext (n : Nav) (r : Bytes) : okNext (n.print ++ r) = true := by
  cases n <;> rfl

theorem okNext_printNavs (ns : List Nav) (t : Bytes) (ht : okNext t = true) :
    okNext (printNavs ns ++ t) = true := by
  cases ns with
  | nil => simpa [printNavs] using ht
  | cons n ns =>
    simp only [printNavs, List.flatMap_cons, List.append_assoc]
    exact Nav.print_okNext n _

theorem drop_natDec (n : Nat) (r : Bytes) : (natDec n ++ r).drop (natDec n).length = r := by
  simp

theorem kindWord_plain (k : OKind) : plain (kindWord k) = true := by cases k <;> rfl

theorem peelTarget_kindWord (k : OKind) : peelTarget (kindWord k) = some (.peelKind k) := by
  cases k <;> rfl

theorem kindWord_not_slash (k : OKind) : ∀ re, kindWord k ≠ 47 :: re := by
  intro re; cases k <;> simp [kindWord]

theorem parseRegexPrefix_print (re : Bytes) (neg : Bool) (h : RegexOk re) :
    parseRegexPrefix (printRegex re neg) = .ok (re, neg) := by
  obtain ⟨hne, _, hhead⟩ := h
  cases neg with
  | true => simp [printRegex, parseRegexPrefix]
  | false =>
    simp only [printRegex, Bool.false_eq_true, if_false]
    unfold parseRegexPrefix
    split
    · rename_i r; simp at hhead
    · rename_i r; simp at hhead
    · rename_i r; simp at hhead
    · rfl

theorem printRegex_plain (re : Bytes) (neg : Bool) (h : RegexOk re) : plain (printRegex re neg) = true := by
  obtain ⟨_, hp, _⟩ := h
  cases neg with
  | true => simpa [printRegex, plain] using hp
  | false => simpa [printRegex] using hp

theorem navigate_step (n : Nav) (hwf : n.Wf) (r : Bytes) (hr : okNext r = true) (fuel : Nat)
    (s : St) (k : St → Bytes → Res) :
    navigate allYes (fuel + 1) s (n.print ++ r) k = navigate allYes fuel (s.push n.call) r k := by
  cases n with
  | parent m =>
    obtain ⟨h1, h2⟩ := hwf
    have hm0 : ((m : Int) == 0) = false := by
      simp only [beq_eq_false_iff_ne, ne_eq]; omega
    have hmneg : ¬ ((m : Int) < 0) := by omega
    simp only [Nav.print, List.cons_append, navigate, Nav.call]
    rw [tryParseIsize_dec m h2 r hr]
    simp [hm0, hmneg, drop_natDec]
  | parent1 =>
    simp only [Nav.print, List.cons_append, List.nil_append, navigate, Nav.call]
    rw [tryParseIsize_none hr, parens_notBrace hr]
    rcases okNext_cases hr with rfl | ⟨c, r', rfl, hc⟩
    · simp
    · rcases hc with rfl | rfl | rfl | rfl <;> simp
  | ancestor m =>
    obtain ⟨h1, h2⟩ := hwf
    have hm0 : (m != 0) = true := by
      simp only [bne_iff_ne, ne_eq]; omega
    simp only [Nav.print, List.cons_append, navigate, Nav.call]
    rw [tryParseUsize_dec m h2 r hr]
    simp [hm0, drop_natDec]
  | ancestor1 =>
    simp only [Nav.print, List.cons_append, List.nil_append, navigate, Nav.call]
    rw [tryParseUsize_none hr]
    simp
  | commit0 =>
    have h0 := tryParseIsize_dec 0 (by decide) r hr
    have hd : natDec 0 = [48] := by decide
    rw [hd] at h0
    simp only [Nav.print, List.cons_append, List.nil_append, navigate, Nav.call]
    simp only [List.cons_append, List.nil_append] at h0
    rw [h0]
    simp
  | peel kd =>
    have hI : tryParseIsize (123 :: (kindWord kd ++ 125 :: r)) = .none := by
      simp [tryParseIsize, isDigit]
    simp only [Nav.print, List.cons_append, List.nil_append, List.append_assoc, navigate, Nav.call]
    rw [hI, parens_plain _ _ (kindWord_plain kd)]
    cases kd <;> simp [kindWord, peelTarget]
  | peelObject =>
    have hI : tryParseIsize (123 :: ([111, 98, 106, 101, 99, 116] ++ 125 :: r)) = .none := by
      simp [tryParseIsize, isDigit]
    have hp := parens_plain [111, 98, 106, 101, 99, 116] r (by decide)
    simp only [List.cons_append, List.nil_append] at hI hp
    simp only [Nav.print, List.cons_append, List.nil_append, navigate, Nav.call]
    rw [hI, hp]
    simp [peelTarget]
  | peelTags =>
    have hI : tryParseIsize (123 :: 125 :: r) = .none := by
      simp [tryParseIsize, isDigit]
    have hp := parens_plain [] r (by decide)
    simp only [List.nil_append] at hp
    simp only [Nav.print, List.cons_append, List.nil_append, navigate, Nav.call]
    rw [hI, hp]
    simp [peelTarget]
  | search re neg =>
    have hI : tryParseIsize (123 :: 47 :: (printRegex re neg ++ 125 :: r)) = .none := by
      simp [tryParseIsize, isDigit]
    have hpl : plain (47 :: printRegex re neg) = true := by
      have := printRegex_plain re neg hwf
      simpa [plain] using this
    have hp := parens_plain (47 :: printRegex re neg) r hpl
    simp only [List.cons_append] at hp
    simp only [Nav.print, List.cons_append, List.nil_append, List.append_assoc, navigate, Nav.call]
    rw [hI, hp]
    simp only
    rw [parseRegexPrefix_print re neg hwf]
    have hne : re.isEmpty = false := by
      cases re with
      | nil => exact absurd rfl hwf.1
      | cons _ _ => rfl
    simp [hne]

theorem navigate_navs : ∀ (ns : List Nav), (∀ n ∈ ns, n.Wf) → ∀ (t : Bytes), okNext t = true →
    ∀ (fuel : Nat) (s : St) (k : St → Bytes → Res), (printNavs ns ++ t).length < fuel →
    navigate allYes fuel s (printNavs ns ++ t) k =
      navigate allYes (fuel - ns.length) (s.pushAll (ns.map Nav.call)) t k := by
  intro ns
  induction ns with
  | nil => intro _ t _ fuel s k _; simp [printNavs]
  | cons n ns ih =>
    intro hwf t ht fuel s k hlen
    cases fuel with
    | zero => omega
    | succ fuel =>
      have hn : n.Wf := hwf n (by simp)
      have hns : ∀ m ∈ ns, m.Wf := fun m hm => hwf m (by simp [hm])
      have hpr : printNavs (n :: ns) ++ t = n.print ++ (printNavs ns ++ t) := by
        simp [printNavs]
      rw [hpr, navigate_step n hn _ (okNext_printNavs ns t ht)]
      have hnlen : 1 ≤ n.print.length := by cases n <;> simp [Nav.print]
      rw [hpr] at hlen
      simp only [List.length_append, List.length_cons] at hlen
      rw [ih hns t ht fuel _ k (by simp only [List.length_append]; omega)]
      simp only [List.map_cons, pushAll_cons, List.length_cons]
      congr 1
      omega

/-! ### what ends a revision -/

theorem navigate_nil (fuel : Nat) (s : St) (k : St → Bytes → Res) :
    navigate allYes (fuel + 1) s [] k = k s [] := by
  simp [navigate]

theorem navigate_dot (fuel : Nat) (s : St) (r : Bytes) (k : St → Bytes → Res) :
    navigate allYes (fuel + 1) s (46 :: r) k = k s (46 :: r) := by
  simp [navigate]

theorem navigate_path (fuel : Nat) (s : St) (p : Bytes) (k : St → Bytes → Res) :
    navigate allYes (fuel + 1) s (58 :: p) k = k (s.push (.peelPath p)) [] := by
  simp [navigate]

theorem navigate_parents (fuel : Nat) (s : St) (r : Bytes) (k : St → Bytes → Res) :
    navigate allYes (fuel + 1) s (94 :: 64 :: r) k = k (s.push (.kind .includeParents)).markDone r := by
  have hI : tryParseIsize (64 :: r) = .none := by
    simp [tryParseIsize, isDigit]
  simp only [navigate]
  rw [hI]
  simp [parens]

theorem navigate_exclParents (fuel : Nat) (s : St) (r : Bytes) (k : St → Bytes → Res) :
    navigate allYes (fuel + 1) s (94 :: 33 :: r) k = k (s.push (.kind .excludeParents)).markDone r := by
  have hI : tryParseIsize (33 :: r) = .none := by
    simp [tryParseIsize, isDigit]
  simp only [navigate]
  rw [hI]
  simp [parens]

end GixModel.C48
