import GixModel.Lemmas.C47Simple
/-
C47 — lemmas, part 1b: the `Simple` iterator without the `Coherent` restriction, and the ORDER of
the time-sorted walks.

* `simple_spec_general`: every configuration, including a cut-off sorting combined with
  `Parents::First` (there the cut-off only filters the tips: a tip older than the cut-off is marked
  seen and never returned, everything else is walked regardless of its time) — exactly-once with
  respect to the acceptance predicate `SimpleCfg.accept`.
* `dateLoop_order`: in the time-sorted modes with a max-first queue, whenever a commit is returned
  every commit that was already discovered and is returned later has a key that is not greater.
-/
namespace GixModel.C47
open GixModel GixModel.CG GixModel.Spec.C47

/-- which commits a walk accepts, for EVERY configuration: in the topology modes the predicate —
except that with a cut-off sorting a TIP older than the cut-off was dropped by `sorting()` (and stays
marked seen); in the time-sorted modes the predicate and the cut-off -/
def SimpleCfg.accept (cfg : SimpleCfg) (g : Dag) (tips : List Nat) (x : Nat) : Bool :=
  if cfg.byTopology then
    cfg.pred x && (match cfg.sorting.cutoffTime with
      | some s => !(tips.contains x && decide (g.time x < s))
      | none => true)
  else okDate g cfg.pred cfg.sorting.cutoffTime x

theorem accept_eq_ok_of_coherent (cfg : SimpleCfg) (hco : cfg.Coherent) (g : Dag) (tips : List Nat) :
    cfg.accept g tips = cfg.ok g := by
  funext x
  unfold SimpleCfg.accept SimpleCfg.ok
  by_cases hb : cfg.byTopology = true
  · rw [if_pos hb, if_pos hb]
    cases hs : cfg.sorting.cutoffTime with
    | none => simp
    | some s =>
      -- coherent + cut-off: not first-parent, so `byTopology` means BreadthFirst, which has no cut-off
      exfalso
      rcases cfg with ⟨pred, sorting, fpar⟩
      cases sorting with
      | breadthFirst => simp [Sorting.cutoffTime] at hs
      | byTime o => simp [Sorting.cutoffTime] at hs
      | cutoff o sec =>
        cases fpar with
        | true => have := hco rfl; simp [Sorting.cutoffTime] at this
        | false => simp [SimpleCfg.byTopology] at hb
  · rw [if_neg hb, if_neg hb]

theorem Pushed.congr_ok {seen seen' : NatSet} {ps : List Nat} {ok ok' : Nat → Bool} {added : List Nat}
    (h : Pushed seen seen' ps ok added) (hc : ∀ x, seen.mem x = false → ok' x = ok x) :
    Pushed seen seen' ps ok' added where
  seen_eq := h.seen_eq
  nodup := h.nodup
  sound := fun x hx => by
    obtain ⟨a1, a2, a3⟩ := h.sound x hx
    exact ⟨a1, a2, by rw [hc x a2]; exact a3⟩
  complete := fun p hp hs hok => h.complete p hp hs (by rw [← hc p hs]; exact hok)

/-- the topology loop for an acceptance predicate that differs from the code's predicate only on
commits that are already marked seen -/
theorem bfsLoop_spec {g : Dag} {q : PQ Int} (cfg : SimpleCfg) (hb : cfg.byTopology = true)
    (ok : Nat → Bool) {tips nodes : List Nat} (hcl : Closed g nodes) :
    ∀ (fuel : Nat) (s : SState q.Q),
      SInv g cfg.firstParent ok tips nodes s.seen s.next s.out →
      (∀ x, s.seen.mem x = false → ok x = cfg.pred x) →
      nodes.length - s.out.length < fuel →
      ∃ out, simpleLoop g q cfg fuel s = .ok out ∧ out.Nodup ∧
        ∀ x, x ∈ out ↔ Walkable g cfg.firstParent ok tips x := by
  intro fuel
  induction fuel with
  | zero => intro s _ _ h; omega
  | succ fuel ih =>
    intro s hinv hex hfuel
    unfold simpleLoop
    rw [if_pos hb]
    cases hnext : s.next with
    | nil =>
      dsimp only
      rw [hnext] at hinv
      exact ⟨s.out, rfl, hinv.done⟩
    | cons c rest =>
      dsimp only
      rw [hnext] at hinv
      obtain ⟨added, h1, h2⟩ := pushParentsBfs_spec cfg.pred (stepParents g cfg.firstParent c) s.seen rest
      have h2' : Pushed s.seen (pushParentsBfs cfg.pred (stepParents g cfg.firstParent c) s.seen rest).1
          (edges g cfg.firstParent c) ok added := h2.congr_ok hex
      have hstep := hinv.step hcl h2'
      have hlen := hinv.length_le
      apply ih
      · show SInv g cfg.firstParent ok tips nodes _ (pushParentsBfs cfg.pred _ s.seen rest).2 (s.out ++ [c])
        rw [h1]; exact hstep
      · intro x hx
        apply hex
        have hx' : (pushParentsBfs cfg.pred (stepParents g cfg.firstParent c) s.seen rest).1.mem x = false := hx
        rw [h2.seen_eq] at hx'
        simp only [Bool.or_eq_false_iff] at hx'
        exact hx'.1
      · simp only [List.length_cons, List.length_append, List.length_nil] at hlen ⊢
        omega

/-- Every configuration of the `Simple` iterator: it ends regularly and returns exactly the
commits walkable with respect to `SimpleCfg.accept`, each once. -/
theorem simple_spec_general {g : Dag} {q : PQ Int} (hq : q.Lawful) (cfg : SimpleCfg)
    {tips nodes : List Nat} (hcl : Closed g nodes) (htips : ∀ t, t ∈ tips → t ∈ nodes)
    {n : Nat} (hn : nodes.length ≤ n) :
    ∃ out, simpleWalk g q cfg n tips = .ok out ∧ out.Nodup ∧
      ∀ x, x ∈ out ↔ Walkable g cfg.firstParent (cfg.accept g tips) tips x := by
  by_cases hco : cfg.Coherent
  · rw [accept_eq_ok_of_coherent cfg hco]
    exact simple_spec hq cfg hco hcl htips hn
  · -- `Parents::First` together with a cut-off sorting
    rcases cfg with ⟨pred, sorting, fpar⟩
    cases fpar with
    | false => exact absurd (fun h => by cases h) hco
    | true =>
      cases sorting with
      | breadthFirst => exact absurd (fun _ => rfl) hco
      | byTime o => exact absurd (fun _ => rfl) hco
      | cutoff o sec =>
        have hb : (SimpleCfg.mk pred (.cutoff o sec) true).byTopology = true := by simp [SimpleCfg.byTopology]
        obtain ⟨added, h1, h2⟩ := pushParentsBfs_spec pred tips NatSet.empty []
        rw [← simpleTips_eq] at h1 h2
        simp only [List.nil_append] at h1
        have hd := drainToQueue_spec (g := g) hq o (some sec) added q.empty
        simp only [hq.items_empty, List.map_nil, List.nil_append] at hd
        have hacc : ∀ x, (SimpleCfg.mk pred (.cutoff o sec) true).accept g tips x
            = (pred x && !(tips.contains x && decide (g.time x < sec))) := by
          intro x; simp [SimpleCfg.accept, hb, Sorting.cutoffTime]
        have hseen : ∀ x, (simpleTips pred tips NatSet.empty []).1.mem x = true ↔ x ∈ tips := by
          intro x; rw [h2.seen_eq]; simp [NatSet.empty]
        unfold simpleWalk
        have hinit : simpleInit g q (SimpleCfg.mk pred (.cutoff o sec) true) tips =
            { next := [] ++ (q.items (drainToQueue g q o (some sec) added q.empty)).map (·.2),
              queue := q.empty, seen := (simpleTips pred tips NatSet.empty []).1, out := [] } := by
          simp [simpleInit, h1]
        rw [hinit]
        apply bfsLoop_spec (SimpleCfg.mk pred (.cutoff o sec) true) hb _ hcl
        · show SInv g true _ tips nodes _ ([] ++ (q.items (drainToQueue g q o (some sec) added q.empty)).map (·.2)) []
          rw [List.nil_append]
          apply SInv.init (okcut := fun x => !(tips.contains x && decide (g.time x < sec))) h2 hacc _ htips
          refine hd.trans ?_
          have : added.filter (fun c => decide (g.time c ≥ sec))
              = added.filter (fun x => !(tips.contains x && decide (g.time x < sec))) := by
            apply List.filter_congr
            intro x hx
            have hxt : x ∈ tips := (h2.sound x hx).1
            have : tips.contains x = true := by simpa using hxt
            simp only [this, Bool.true_and]
            by_cases hlt : g.time x < sec
            · have : ¬ g.time x ≥ sec := by omega
              simp [hlt, this]
            · have : g.time x ≥ sec := by omega
              simp [hlt, this]
          rw [this]
        · intro x hx
          rw [hacc]
          have hxt : x ∉ tips := fun hmem => by
            have := (hseen x).mpr hmem
            have hx' : (simpleTips pred tips NatSet.empty []).1.mem x = false := hx
            rw [this] at hx'; cases hx'
          have hc : tips.contains x = false := by simpa using hxt
          rw [hc]; simp
        · simp only [List.length_nil]; omega

/-! ### the order of the time-sorted walks -/

/-- `x` was discovered by the time the commits `l` had been returned: it is a tip or a parent of
one of them -/
def Discovered (g : Dag) (tips l : List Nat) (x : Nat) : Prop := x ∈ tips ∨ ∃ y, y ∈ l ∧ x ∈ g.parents y

/-- The order of a max-first walk: every returned commit was discovered before it was returned,
and when a commit is returned no commit that is already discovered (and returned later) has a
greater key. -/
def GreedyOrder (g : Dag) (key : Nat → Int) (tips out : List Nat) : Prop :=
  ∀ l₁ c l₂, out = l₁ ++ c :: l₂ →
    Discovered g tips l₁ c ∧ ∀ x, x ∈ l₂ → Discovered g tips l₁ x → key x ≤ key c

def leInt' (a b : Int) : Bool := decide (a ≤ b)

theorem pushParentsDate_keys {g : Dag} {q : PQ Int} (hq : q.Lawful) (pred : Nat → Bool) (oldest : Bool)
    (cut : Option Int) :
    ∀ (ps : List Nat) (seen : NatSet) (qu : q.Q) (e : Int × Nat),
      e ∈ q.items (pushParentsDate g q pred oldest cut ps seen qu).2 →
      e ∈ q.items qu ∨ e.1 = timeKey oldest (g.time e.2) := by
  intro ps
  induction ps with
  | nil => intro seen qu e he; exact Or.inl he
  | cons p ps ih =>
    intro seen qu e he
    unfold pushParentsDate at he
    have hins : ∀ seen', e ∈ q.items (pushParentsDate g q pred oldest cut ps seen'
        (q.insert (timeKey oldest (g.time p)) p qu)).2 → e ∈ q.items qu ∨ e.1 = timeKey oldest (g.time e.2) := by
      intro seen' he'
      cases ih _ _ e he' with
      | inl h =>
        cases List.mem_cons.mp ((hq.items_insert _ _ _).subset h) with
        | inl h' => subst h'; exact Or.inr rfl
        | inr h' => exact Or.inl h'
      | inr h => exact Or.inr h
    split at he
    · exact ih _ _ e he
    · split at he
      · cases cut with
        | none => exact hins _ he
        | some s =>
          dsimp only at he
          split at he
          · exact ih _ _ e he
          · exact hins _ he
      · exact ih _ _ e he

theorem drainToQueue_keys {g : Dag} {q : PQ Int} (hq : q.Lawful) (oldest : Bool) (cut : Option Int) :
    ∀ (cs : List Nat) (qu : q.Q) (e : Int × Nat), e ∈ q.items (drainToQueue g q oldest cut cs qu) →
      e ∈ q.items qu ∨ e.1 = timeKey oldest (g.time e.2) := by
  intro cs
  induction cs with
  | nil => intro qu e he; exact Or.inl he
  | cons c cs ih =>
    intro qu e he
    unfold drainToQueue at he
    have hins : e ∈ q.items (drainToQueue g q oldest cut cs (q.insert (timeKey oldest (g.time c)) c qu)) →
        e ∈ q.items qu ∨ e.1 = timeKey oldest (g.time e.2) := by
      intro he'
      cases ih _ e he' with
      | inl h =>
        cases List.mem_cons.mp ((hq.items_insert _ _ _).subset h) with
        | inl h' => subst h'; exact Or.inr rfl
        | inr h' => exact Or.inl h'
      | inr h => exact Or.inr h
    cases cut with
    | none => exact hins he
    | some s =>
      dsimp only at he
      split at he
      · exact hins he
      · exact ih _ e he

/-- invariant of the time-sorted loop for the order -/
structure OInv (g : Dag) (q : PQ Int) (oldest : Bool) (tips : List Nat) (s : SState q.Q) : Prop where
  order : ∀ l₁ c l₂, s.out = l₁ ++ c :: l₂ →
    Discovered g tips l₁ c ∧ ∀ x, x ∈ l₂ ++ (q.items s.queue).map (·.2) → Discovered g tips l₁ x →
      timeKey oldest (g.time x) ≤ timeKey oldest (g.time c)
  front : ∀ x, x ∈ (q.items s.queue).map (·.2) → Discovered g tips s.out x
  seen : ∀ x, Discovered g tips s.out x → s.seen.mem x = true
  keys : ∀ e, e ∈ q.items s.queue → e.1 = timeKey oldest (g.time e.2)

theorem dateLoop_order {g : Dag} {q : PQ Int} (hq : q.Lawful) (hmax : q.MaxFirst leInt') (cfg : SimpleCfg)
    (hb : cfg.byTopology = false) {tips : List Nat} :
    ∀ (fuel : Nat) (s : SState q.Q) (out : List Nat), OInv g q cfg.sorting.oldest tips s →
      simpleLoop g q cfg fuel s = .ok out →
      GreedyOrder g (fun x => timeKey cfg.sorting.oldest (g.time x)) tips out := by
  intro fuel
  induction fuel with
  | zero => intro s out _ h; simp [simpleLoop] at h
  | succ fuel ih =>
    intro s out hinv hres
    unfold simpleLoop at hres
    rw [hb] at hres
    simp only [Bool.false_eq_true, if_false] at hres
    cases hpop : q.pop s.queue with
    | none =>
      rw [hpop] at hres
      simp only [Res.ok.injEq] at hres
      subst hres
      intro l₁ c l₂ hl
      obtain ⟨h1, h2⟩ := hinv.order l₁ c l₂ hl
      exact ⟨h1, fun x hx hd => h2 x (List.mem_append_left _ hx) hd⟩
    | some r =>
      obtain ⟨⟨k, c⟩, qu⟩ := r
      rw [hpop] at hres
      dsimp only at hres
      have hperm := hq.pop_some _ _ _ hpop
      have hkc : (k, c) ∈ q.items s.queue := hperm.symm.subset List.mem_cons_self
      have hk : k = timeKey cfg.sorting.oldest (g.time c) := hinv.keys _ hkc
      obtain ⟨added, hp1, hp2⟩ := pushParentsDate_spec (g := g) hq cfg.pred cfg.sorting.oldest
        cfg.sorting.cutoffTime (g.parents c) s.seen qu
      refine ih _ out ?_ hres
      have hFmem : ∀ x, x ∈ (q.items (pushParentsDate g q cfg.pred cfg.sorting.oldest cfg.sorting.cutoffTime
          (g.parents c) s.seen qu).2).map (·.2) → x ∈ (q.items qu).map (·.2) ∨ x ∈ added := by
        intro x hx
        exact List.mem_append.mp (hp1.subset hx)
      have hquF : ∀ x, x ∈ (q.items qu).map (·.2) → x ∈ (q.items s.queue).map (·.2) := by
        intro x hx
        obtain ⟨e, he, hex⟩ := List.mem_map.mp hx
        exact List.mem_map.mpr ⟨e, hperm.symm.subset (List.mem_cons_of_mem _ he), hex⟩
      have hcF : c ∈ (q.items s.queue).map (·.2) := List.mem_map.mpr ⟨(k, c), hkc, rfl⟩
      have hunseen : ∀ x, x ∈ added → ∀ l, (∀ y, y ∈ l → y ∈ s.out) → ¬ Discovered g tips l x := by
        intro x hx l hl hd
        have hs := (hp2.sound x hx).2.1
        have : Discovered g tips s.out x := by
          cases hd with
          | inl h => exact Or.inl h
          | inr h => obtain ⟨y, hy, hxy⟩ := h; exact Or.inr ⟨y, hl y hy, hxy⟩
        rw [hinv.seen x this] at hs
        cases hs
      refine ⟨?_, ?_, ?_, ?_⟩
      · intro l₁ c0 l₂ hl
        have hl' : s.out ++ [c] = l₁ ++ c0 :: l₂ := hl
        -- split `s.out ++ [c]` at `c0`
        have hsplit : (∃ l₂', l₂ = l₂' ++ [c] ∧ s.out = l₁ ++ c0 :: l₂') ∨ (l₂ = [] ∧ l₁ = s.out ∧ c0 = c) := by
          cases List.eq_nil_or_concat l₂ with
          | inl hnil =>
            subst hnil
            right
            have h1 := List.append_inj' (show s.out ++ [c] = l₁ ++ [c0] from hl') rfl
            exact ⟨rfl, h1.1.symm, by simpa using h1.2.symm⟩
          | inr hc =>
            obtain ⟨l₂', y, hy⟩ := hc
            rw [List.concat_eq_append] at hy
            subst hy
            left
            have : s.out ++ [c] = (l₁ ++ c0 :: l₂') ++ [y] := by rw [hl']; simp
            have h1 := List.append_inj' this rfl
            have hy : y = c := by simpa using h1.2.symm
            subst hy
            exact ⟨l₂', rfl, h1.1⟩
        cases hsplit with
        | inl h' =>
          obtain ⟨l₂', h1, h2⟩ := h'
          obtain ⟨o1, o2⟩ := hinv.order l₁ c0 l₂' h2
          refine ⟨o1, ?_⟩
          intro x hx hd
          have hl1 : ∀ y, y ∈ l₁ → y ∈ s.out := fun y hy => by rw [h2]; exact List.mem_append_left _ hy
          cases List.mem_append.mp hx with
          | inl hx' =>
            rw [h1] at hx'
            cases List.mem_append.mp hx' with
            | inl h'' => exact o2 x (List.mem_append_left _ h'') hd
            | inr h'' =>
              simp only [List.mem_singleton] at h''
              subst h''
              exact o2 x (List.mem_append_right _ hcF) hd
          | inr hx' =>
            cases hFmem x hx' with
            | inl h'' => exact o2 x (List.mem_append_right _ (hquF x h'')) hd
            | inr h'' => exact absurd hd (hunseen x h'' l₁ hl1)
        | inr h' =>
          obtain ⟨h1, h2, h3⟩ := h'
          subst h3; subst h1
          rw [h2]
          refine ⟨hinv.front c0 hcF, ?_⟩
          intro x hx hd
          simp only [List.nil_append] at hx
          cases hFmem x hx with
          | inl h'' =>
            obtain ⟨e, he, hex⟩ := List.mem_map.mp h''
            have hes : e ∈ q.items s.queue := hperm.symm.subset (List.mem_cons_of_mem _ he)
            have hle := hmax _ _ _ hpop e hes
            simp only [leInt', decide_eq_true_eq] at hle
            rw [hinv.keys e hes, hk, hex] at hle
            exact hle
          | inr h'' => exact absurd hd (hunseen x h'' s.out (fun _ h => h))
      · intro x hx
        cases hFmem x hx with
        | inl h'' =>
          cases hinv.front x (hquF x h'') with
          | inl h => exact Or.inl h
          | inr h => obtain ⟨y, hy, hxy⟩ := h; exact Or.inr ⟨y, List.mem_append_left _ hy, hxy⟩
        | inr h'' => exact Or.inr ⟨c, by simp, (hp2.sound x h'').1⟩
      · intro x hd
        show (pushParentsDate g q cfg.pred cfg.sorting.oldest cfg.sorting.cutoffTime (g.parents c) s.seen qu).1.mem x = true
        rw [hp2.seen_eq]
        cases hd with
        | inl h => rw [hinv.seen x (Or.inl h)]; rfl
        | inr h =>
          obtain ⟨y, hy, hxy⟩ := h
          cases List.mem_append.mp hy with
          | inl h' => rw [hinv.seen x (Or.inr ⟨y, h', hxy⟩)]; rfl
          | inr h' =>
            simp only [List.mem_singleton] at h'
            subst h'
            simp [hxy]
      · intro e he
        cases pushParentsDate_keys hq cfg.pred cfg.sorting.oldest cfg.sorting.cutoffTime _ _ _ e he with
        | inl h => exact hinv.keys e (hperm.symm.subset (List.mem_cons_of_mem _ h))
        | inr h => exact h

/-- The time-sorted `Simple` walks with a max-first queue return the commits in greedy order. -/
theorem simple_greedy_order {g : Dag} {q : PQ Int} (hq : q.Lawful) (hmax : q.MaxFirst leInt') (cfg : SimpleCfg)
    (hb : cfg.byTopology = false) {tips : List Nat} {n : Nat} {out : List Nat}
    (h : simpleWalk g q cfg n tips = .ok out) :
    GreedyOrder g (fun x => timeKey cfg.sorting.oldest (g.time x)) tips out := by
  unfold simpleWalk at h
  refine dateLoop_order hq hmax cfg hb _ _ out ?_ h
  obtain ⟨added, h1, h2⟩ := pushParentsBfs_spec cfg.pred tips NatSet.empty []
  rw [← simpleTips_eq] at h1 h2
  simp only [List.nil_append] at h1
  rcases cfg with ⟨pred, sorting, fpar⟩
  have hfp : fpar = false := by
    cases fpar with
    | false => rfl
    | true => simp [SimpleCfg.byTopology] at hb
  subst hfp
  have hseen : ∀ x, x ∈ tips → (simpleTips pred tips NatSet.empty []).1.mem x = true := by
    intro x hx; rw [h2.seen_eq]; simp [hx]
  have hmk : ∀ (o : Bool) (cut : Option Int),
      OInv g q o tips { next := [], queue := drainToQueue g q o cut added q.empty,
                        seen := (simpleTips pred tips NatSet.empty []).1, out := [] } := by
    intro o cut
    have hd := drainToQueue_spec (g := g) hq o cut added q.empty
    simp only [hq.items_empty, List.map_nil, List.nil_append] at hd
    refine ⟨?_, ?_, ?_, ?_⟩
    · intro l₁ c l₂ hl
      have := congrArg List.length hl
      simp at this
    · intro x hx
      have := (List.mem_filter.mp (hd.subset hx)).1
      exact Or.inl (h2.sound x this).1
    · intro x hd'
      cases hd' with
      | inl h' => exact hseen x h'
      | inr h' => obtain ⟨y, hy, _⟩ := h'; simp at hy
    · intro e he
      cases drainToQueue_keys hq o cut added q.empty e he with
      | inl h' => rw [hq.items_empty] at h'; simp at h'
      | inr h' => exact h'
  cases sorting with
  | breadthFirst => simp [SimpleCfg.byTopology] at hb
  | byTime o =>
    have : simpleInit g q (SimpleCfg.mk pred (.byTime o) false) tips =
        { next := [], queue := drainToQueue g q o none added q.empty,
          seen := (simpleTips pred tips NatSet.empty []).1, out := [] } := by
      simp [simpleInit, h1]
    rw [this]
    exact hmk o none
  | cutoff o sec =>
    have : simpleInit g q (SimpleCfg.mk pred (.cutoff o sec) false) tips =
        { next := [], queue := drainToQueue g q o (some sec) added q.empty,
          seen := (simpleTips pred tips NatSet.empty []).1, out := [] } := by
      simp [simpleInit, h1]
    rw [this]
    exact hmk o (some sec)

theorem pairwise_of_splits {R : Nat → Nat → Prop} : ∀ (l : List Nat),
    (∀ l₁ c l₂, l = l₁ ++ c :: l₂ → ∀ x, x ∈ l₂ → R c x) → l.Pairwise R := by
  intro l
  induction l with
  | nil => intro _; exact List.Pairwise.nil
  | cons a t ih =>
    intro h
    apply List.pairwise_cons.mpr
    refine ⟨fun x hx => h [] a t rfl x hx, ih ?_⟩
    intro l₁ c l₂ hl x hx
    exact h (a :: l₁) c l₂ (by rw [hl]; rfl) x hx

/-- Newest-first on a history without clock skew (no parent newer than its child): the returned
commit times never increase — the order of `git rev-list` up to the order of equal times. -/
theorem simple_newest_sorted {g : Dag} {q : PQ Int} (hq : q.Lawful) (hmax : q.MaxFirst leInt') (cfg : SimpleCfg)
    (hb : cfg.byTopology = false) (hnew : cfg.sorting.oldest = false)
    (hskew : ∀ c p, p ∈ g.parents c → g.time p ≤ g.time c)
    {tips : List Nat} {n : Nat} {out : List Nat} (h : simpleWalk g q cfg n tips = .ok out) :
    out.Pairwise (fun a b => g.time b ≤ g.time a) := by
  have hgr := simple_greedy_order hq hmax cfg hb h
  rw [hnew] at hgr
  simp only [timeKey, Bool.false_eq_true, if_false] at hgr
  apply pairwise_of_splits
  intro l₁ c l₂ hl
  -- by induction on the position of `x` behind `c`
  have key : ∀ (k : Nat) (m₁ : List Nat) (x : Nat) (m₂ : List Nat), m₁.length = k → l₂ = m₁ ++ x :: m₂ →
      g.time x ≤ g.time c := by
    intro k
    induction k using Nat.strongRecOn with
    | _ k ih =>
      intro m₁ x m₂ hk hm
      have hout : out = (l₁ ++ c :: m₁) ++ x :: m₂ := by rw [hl, hm]; simp
      obtain ⟨hdx, _⟩ := hgr _ x m₂ hout
      have hdirect : Discovered g tips l₁ x → g.time x ≤ g.time c :=
        fun hd => (hgr l₁ c l₂ hl).2 x (by rw [hm]; simp) hd
      cases hdx with
      | inl ht => exact hdirect (Or.inl ht)
      | inr hy =>
        obtain ⟨y, hy, hxy⟩ := hy
        cases List.mem_append.mp hy with
        | inl h' => exact hdirect (Or.inr ⟨y, h', hxy⟩)
        | inr h' =>
          cases List.mem_cons.mp h' with
          | inl h'' => subst h''; exact hskew _ _ hxy
          | inr h'' =>
            obtain ⟨a, b, hab⟩ := List.append_of_mem h''
            have hya := ih a.length (by rw [← hk, hab]; simp) a y (b ++ x :: m₂) rfl (by rw [hm, hab]; simp)
            have := hskew _ _ hxy
            omega
  intro x hx
  obtain ⟨m₁, m₂, hm⟩ := List.append_of_mem hx
  exact key m₁.length m₁ x m₂ rfl hm

end GixModel.C47
