/-
C16: facts about the pre-processed edits (`pre_process`) and about the packed-refs edits derived
from them.
-/
import GixModel.Lemmas.C16Commit
import GixModel.Spec.C16

namespace GixModel.C17
open GixModel.C16

/-! ### pre_process only looks at symbolic values -/

def SameSymbolic (f g : Name → Option Target) : Prop :=
  ∀ n r, f n = some (.symbolic r) ↔ g n = some (.symbolic r)

theorem splitEdit_congr (f g : Name → Option Target) (h : SameSymbolic f g) (eid : Nat) (e : Edit) :
    splitEdit f eid e = splitEdit g eid e := by
  unfold splitEdit
  split
  · cases hf : f e.update.name with
    | none =>
      cases hg : g e.update.name with
      | none => rfl
      | some t =>
        cases t with
        | object o => rfl
        | symbolic r => rw [(h _ r).mpr hg] at hf; cases hf
    | some t =>
      cases t with
      | object o =>
        cases hg : g e.update.name with
        | none => rfl
        | some t' =>
          cases t' with
          | object o' => rfl
          | symbolic r => rw [(h _ r).mpr hg] at hf; cases hf
      | symbolic r => rw [(h _ r).mp hf]
  · rfl

theorem splitPass_congr (f g : Name → Option Target) (h : SameSymbolic f g) (eid : Nat) (l : List Edit) :
    splitPass f eid l = splitPass g eid l := by
  induction l generalizing eid with
  | nil => rfl
  | cons e rest ih => simp [splitPass, splitEdit_congr f g h, ih]

theorem splitLoop_congr (f g : Name → Option Target) (h : SameSymbolic f g) :
    ∀ fuel round first es, splitLoop f fuel round first es = splitLoop g fuel round first es := by
  intro fuel
  induction fuel with
  | zero => intros; rfl
  | succ fuel ih =>
    intro round first es
    simp only [splitLoop, splitPass_congr f g h, ih]

theorem preProcess_congr (f g : Name → Option Target) (h : SameSymbolic f g) (edits : List RefEdit) :
    preProcess f edits = preProcess g edits := by
  unfold preProcess extendWithSplits
  rw [splitLoop_congr f g h]

/-! ### facts about the output of pre_process -/

theorem hasDup_false_nodup (l : List Name) (h : hasDup l = false) : l.Nodup := by
  induction l with
  | nil => simp
  | cons n rest ih =>
    simp only [hasDup, Bool.or_eq_false_iff] at h
    simp only [List.nodup_cons]
    exact ⟨by simpa using h.1, ih h.2⟩

/-- edits keep `lock = false`; a reflog-only edit is a symbolic ref that was split (and is not
dereferenced again) -/
def PreInv (find : Name → Option Target) (e : Edit) : Prop :=
  e.lock = false ∧
  (e.update.change.logMode = .only → e.update.deref = false ∧ ∃ r, find e.update.name = some (.symbolic r))

theorem splitEdit_inv (find : Name → Option Target) (eid : Nat) (e : Edit) (h : PreInv find e) :
    PreInv find (splitEdit find eid e).1 ∧ ∀ c ∈ (splitEdit find eid e).2, PreInv find c := by
  unfold splitEdit
  by_cases hd : e.update.deref = true
  · simp only [hd, if_true]
    have hmode : e.update.change.logMode ≠ .only := by
      intro hm
      have := (h.2 hm).1
      rw [hd] at this; cases this
    cases hf : find e.update.name with
    | none =>
      refine ⟨⟨h.1, fun hm => absurd hm hmode⟩, fun c hc => by cases hc⟩
    | some t =>
      cases t with
      | object o => exact ⟨⟨h.1, fun hm => absurd hm hmode⟩, fun c hc => by cases hc⟩
      | symbolic r =>
        cases hch : e.update.change with
        | delete exp log =>
          have hlog : log ≠ .only := by
            intro hl; apply hmode; rw [hch]; simpa [Change.logMode] using hl
          refine ⟨⟨h.1, fun _ => ⟨rfl, r, hf⟩⟩, fun c hc => ?_⟩
          simp at hc; subst hc
          exact ⟨rfl, fun hm => absurd (by simpa [Change.logMode] using hm) hlog⟩
        | update log exp new =>
          have hlog : log ≠ .only := by
            intro hl; apply hmode; rw [hch]; simpa [Change.logMode] using hl
          refine ⟨⟨h.1, fun _ => ⟨rfl, r, hf⟩⟩, fun c hc => ?_⟩
          simp at hc; subst hc
          exact ⟨rfl, fun hm => absurd (by simpa [Change.logMode] using hm) hlog⟩
  · simp only [hd, Bool.false_eq_true, if_false]
    exact ⟨h, fun c hc => by cases hc⟩

theorem splitPass_inv (find : Name → Option Target) (eid : Nat) (l : List Edit) (h : ∀ e ∈ l, PreInv find e) :
    (∀ e ∈ (splitPass find eid l).1, PreInv find e) ∧ (∀ e ∈ (splitPass find eid l).2, PreInv find e) := by
  induction l generalizing eid with
  | nil => simp [splitPass]
  | cons e rest ih =>
    obtain ⟨h1, h2⟩ := splitEdit_inv find eid e (h e (List.mem_cons_self ..))
    obtain ⟨i1, i2⟩ := ih (eid + 1) (fun e' he' => h e' (List.mem_cons_of_mem _ he'))
    simp only [splitPass]
    constructor
    · intro x hx
      cases hx with
      | head => exact h1
      | tail _ hx => exact i1 x hx
    · intro x hx
      rcases List.mem_append.mp hx with hx | hx
      · exact h2 x hx
      · exact i2 x hx

theorem splitLoop_inv (find : Name → Option Target) :
    ∀ fuel round first es, (∀ e ∈ es, PreInv find e) →
      ∀ es', splitLoop find fuel round first es = some (.ok es') → ∀ e ∈ es', PreInv find e := by
  intro fuel
  induction fuel with
  | zero => intro _ _ es _ es' h; simp [splitLoop] at h
  | succ fuel ih =>
    intro round first es hinv es' h
    obtain ⟨p1, p2⟩ := splitPass_inv find first (es.drop first) (fun e he => hinv e (List.mem_of_mem_drop he))
    have hes' : ∀ e ∈ es.take first ++ (splitPass find first (es.drop first)).1, PreInv find e := by
      intro e he
      rcases List.mem_append.mp he with he | he
      · exact hinv e (List.mem_of_mem_take he)
      · exact p1 e he
    simp only [splitLoop] at h
    split at h
    · injection h with h; injection h with h; subst h; exact hes'
    · split at h
      · simp at h
      · apply ih _ _ _ _ es' h
        intro e he
        rcases List.mem_append.mp he with he | he
        · exact hes' e he
        · exact p2 e he

/-- user edits that are not reflog-only -/
def PlainEdits (edits : List RefEdit) : Prop := ∀ u ∈ edits, u.change.logMode = .andReference

theorem preProcess_ok_inv (find : Name → Option Target) (edits : List RefEdit) (hp : PlainEdits edits)
    (es : List Edit) (h : preProcess find edits = .ok es) :
    (∀ e ∈ es, PreInv find e) ∧ (es.map Edit.name).Nodup := by
  unfold preProcess at h
  split at h
  · cases h
  · cases h
  · rename_i es0 hx
    split at h
    · cases h
    · rename_i hdup
      injection h with h
      subst h
      refine ⟨?_, hasDup_false_nodup _ (by simpa using hdup)⟩
      apply splitLoop_inv find 5 1 0 _ _ es0 hx
      intro e he
      simp only [List.mem_map] at he
      obtain ⟨u, hu, hue⟩ := he
      subst hue
      exact ⟨rfl, fun hm => by rw [hp u hu] at hm; cases hm⟩

/-! ### the packed-refs edits derived from the edits -/

/-- the packed-refs edit derived from one edit -/
def pe1 (mode : Mode) (e : Edit) : Option (Option Oid) :=
  if e.update.change.logMode = .only then none
  else if !packable e.name then none
  else match e.update.change with
    | .update _ _ (.object o) => if mode ≠ .deletionsOnly then some (some o) else none
    | .update _ _ (.symbolic _) => none
    | .delete _ _ => some none

theorem packedEditsOf_cons (mode : Mode) (e : Edit) (rest : List Edit) :
    (packedEditsOf mode (e :: rest)).1 =
      (match pe1 mode e with | some v => [(e.name, v)] | none => []) ++ (packedEditsOf mode rest).1 := by
  unfold pe1
  simp only [packedEditsOf]
  split
  · simp
  · split
    · simp
    · cases hch : e.update.change with
      | delete exp log => simp
      | update log exp new =>
        cases new with
        | symbolic r => simp
        | object o =>
          by_cases hm : mode = .deletionsOnly <;> simp [hm]

theorem packedEditsOf_keys (mode : Mode) (es : List Edit) :
    ∀ kv ∈ (packedEditsOf mode es).1, ∃ e ∈ es, e.name = kv.1 ∧ pe1 mode e = some kv.2 := by
  induction es with
  | nil => intro kv h; simp [packedEditsOf] at h
  | cons e rest ih =>
    intro kv h
    rw [packedEditsOf_cons] at h
    rcases List.mem_append.mp h with h | h
    · cases hp : pe1 mode e with
      | none => rw [hp] at h; cases h
      | some v =>
        rw [hp] at h
        simp at h
        subst h
        exact ⟨e, List.mem_cons_self .., rfl, hp⟩
    · obtain ⟨e', he', h1, h2⟩ := ih kv h
      exact ⟨e', List.mem_cons_of_mem _ he', h1, h2⟩

theorem packedEditsOf_nodup (mode : Mode) (es : List Edit) (hn : (es.map Edit.name).Nodup) :
    ((packedEditsOf mode es).1.map (·.1)).Nodup := by
  induction es with
  | nil => simp [packedEditsOf]
  | cons e rest ih =>
    simp only [List.map_cons, List.nodup_cons] at hn
    rw [packedEditsOf_cons]
    cases hp : pe1 mode e with
    | none => simpa using ih hn.2
    | some v =>
      simp only [List.cons_append, List.nil_append, List.map_cons, List.nodup_cons]
      refine ⟨?_, ih hn.2⟩
      intro hmem
      obtain ⟨kv, hkv, hk⟩ := List.mem_map.mp hmem
      obtain ⟨e', he', hn', _⟩ := packedEditsOf_keys mode rest kv hkv
      exact hn.1 (by rw [← hk, ← hn']; exact List.mem_map_of_mem he')

theorem packedEditsOf_lookup_other (mode : Mode) (es : List Edit) (m : Name) (h : ∀ e ∈ es, e.name ≠ m) :
    lookup (packedEditsOf mode es).1 m = none := by
  cases hl : lookup (packedEditsOf mode es).1 m with
  | none => rfl
  | some v =>
    obtain ⟨e, he, hn, _⟩ := packedEditsOf_keys mode es (m, v) (mem_of_lookup_eq_some _ m v hl)
    exact absurd hn (h e he)

theorem packedEditsOf_lookup_at (mode : Mode) (es : List Edit) (hn : (es.map Edit.name).Nodup)
    (e : Edit) (he : e ∈ es) : lookup (packedEditsOf mode es).1 e.name = pe1 mode e := by
  induction es with
  | nil => cases he
  | cons x rest ih =>
    simp only [List.map_cons, List.nodup_cons] at hn
    rw [packedEditsOf_cons]
    cases he with
    | head =>
      have hrest : lookup (packedEditsOf mode rest).1 e.name = none :=
        packedEditsOf_lookup_other mode rest e.name (fun e' he' heq => hn.1 (by rw [← heq]; exact List.mem_map_of_mem he'))
      cases hp : pe1 mode e with
      | none => simpa using hrest
      | some v => simp [lookup]
    | tail _ he' =>
      have hx : x.name ≠ e.name := fun heq => hn.1 (by rw [heq]; exact List.mem_map_of_mem he')
      cases hp : pe1 mode x with
      | none => simpa using ih hn.2 he'
      | some v => simp [lookup, hx, ih hn.2 he']

/-- `needs_packed_refs_lookups` and `num_updates` in terms of the single edits -/
theorem packedEditsOf_none (mode : Mode) (es : List Edit)
    (h1 : (packedEditsOf mode es).1 = []) (h2 : (packedEditsOf mode es).2.1 = false) :
    ∀ e ∈ es, e.update.change.logMode = .only ∨ packable e.name = false := by
  induction es with
  | nil => intro e he; cases he
  | cons x rest ih =>
    simp only [packedEditsOf] at h1 h2
    by_cases hlog : x.update.change.logMode = .only
    · simp only [hlog, if_true] at h1 h2
      intro e he
      cases he with
      | head => exact Or.inl hlog
      | tail _ he' => exact ih h1 h2 e he'
    · simp only [hlog, if_false] at h1 h2
      by_cases hp : packable x.name = true
      · simp only [hp, Bool.not_true, Bool.false_eq_true, if_false] at h1 h2
        cases hch : x.update.change with
        | delete exp log => rw [hch] at h1; simp at h1
        | update log exp new =>
          rw [hch] at h1 h2
          cases new with
          | symbolic r => simp at h2
          | object o =>
            by_cases hm : mode = .deletionsOnly
            · simp [hm] at h2
            · simp [hm] at h1
      · have hp' : packable x.name = false := by simpa using hp
        simp only [hp', Bool.not_false, if_true] at h1 h2
        intro e he
        cases he with
        | head => exact Or.inr hp'
        | tail _ he' => exact ih h1 h2 e he'

theorem packedEditsOf_count (mode : Mode) (es : List Edit) :
    (packedEditsOf mode es).2.2 = ((packedEditsOf mode es).1.filter (fun kv => kv.2.isSome)).length := by
  induction es with
  | nil => simp [packedEditsOf]
  | cons e rest ih =>
    simp only [packedEditsOf]
    split
    · exact ih
    · split
      · exact ih
      · cases hch : e.update.change with
        | delete exp log => simp [ih]
        | update log exp new =>
          cases new with
          | symbolic r => simp [ih]
          | object o =>
            by_cases hm : mode = .deletionsOnly
            · subst hm; simpa using ih
            · simp [hm, ih]

theorem packedEditsOf_count_pos (mode : Mode) (es : List Edit) (h : (packedEditsOf mode es).2.2 > 0) :
    ∃ kv ∈ (packedEditsOf mode es).1, ∃ o, kv.2 = some o := by
  rw [packedEditsOf_count] at h
  obtain ⟨kv, hkv⟩ := List.exists_mem_of_length_pos h
  obtain ⟨h1, h2⟩ := List.mem_filter.mp hkv
  exact ⟨kv, h1, Option.isSome_iff_exists.mp h2⟩

theorem packedEditsOf_count_zero (mode : Mode) (es : List Edit) (h : (packedEditsOf mode es).2.2 = 0) :
    ∀ kv ∈ (packedEditsOf mode es).1, kv.2 = none := by
  rw [packedEditsOf_count] at h
  intro kv hkv
  cases hv : kv.2 with
  | none => rfl
  | some o =>
    have : kv ∈ (packedEditsOf mode es).1.filter (fun kv => kv.2.isSome) :=
      List.mem_filter.mpr ⟨hkv, by simp [hv]⟩
    rw [List.eq_nil_of_length_eq_zero h] at this
    cases this

/-! ### filtering deletions of names the buffer does not have -/

theorem filterPackedEdits_mem (buffer : Option (List (Name × Oid))) (edits : List (Name × Option Oid))
    (kv : Name × Option Oid) :
    kv ∈ filterPackedEdits buffer edits ↔ kv ∈ edits ∧
      (match kv.2, buffer with | none, some b => (lookup b kv.1).isSome | _, _ => true) = true := by
  unfold filterPackedEdits
  rw [List.mem_filter]
  exact Iff.rfl

theorem filter_nodup_keys {α : Type} (l : List (Name × α)) (p : Name × α → Bool) (hn : (l.map (·.1)).Nodup) :
    ((l.filter p).map (·.1)).Nodup :=
  List.Nodup.sublist (List.Sublist.map _ List.filter_sublist) hn

theorem lookup_filter {α : Type} (l : List (Name × α)) (p : Name × α → Bool) (hn : (l.map (·.1)).Nodup) (m : Name) :
    lookup (l.filter p) m = match lookup l m with
      | some v => if p (m, v) then some v else none
      | none => none := by
  have hn' := filter_nodup_keys l p hn
  cases hl : lookup l m with
  | none =>
    cases hf : lookup (l.filter p) m with
    | none => rfl
    | some v =>
      have := mem_of_lookup_eq_some _ m v hf
      rw [lookup_eq_some_of_mem l hn m v ((List.mem_filter.mp this).1)] at hl
      cases hl
  | some v =>
    have hmem := mem_of_lookup_eq_some _ m v hl
    by_cases hp : p (m, v) = true
    · simp only [hp, if_true]
      exact lookup_eq_some_of_mem _ hn' m v (List.mem_filter.mpr ⟨hmem, hp⟩)
    · simp only [hp, Bool.false_eq_true, if_false]
      cases hf : lookup (l.filter p) m with
      | none => rfl
      | some v' =>
        have hm' := mem_of_lookup_eq_some _ m v' hf
        have hv : v' = v := by
          have := lookup_eq_some_of_mem l hn m v' ((List.mem_filter.mp hm').1)
          rw [hl] at this; injection this with this; exact this.symm
        subst hv
        exact absurd (List.mem_filter.mp hm').2 hp

/-! ### the abstract effects, name by name -/

/-- what an edit does to the value of its own name -/
inductive Act where
  | set (t : Target)
  | del
  | nop

def Edit.act (e : Edit) : Act :=
  match e.update.change with
  | .update .andReference _ new => .set new
  | .delete _ .andReference => .del
  | _ => .nop

theorem effect_apply (M : RefMap) (e : Edit) (m : Name) :
    effect M e m = if e.name = m then (match e.act with | .set t => some t | .del => none | .nop => M m) else M m := by
  unfold effect Edit.act
  cases e.update.change with
  | update log exp new =>
    cases log with
    | andReference =>
      simp only [RefMap.set]
      by_cases h : m = e.name
      · simp [h]
      · have : ¬ e.name = m := fun h' => h h'.symm
        simp [h, this]
    | only => simp
  | delete exp log =>
    cases log with
    | andReference =>
      simp only [RefMap.set]
      by_cases h : m = e.name
      · simp [h]
      · have : ¬ e.name = m := fun h' => h h'.symm
        simp [h, this]
    | only => simp

theorem applyEffects_other (M : RefMap) (es : List Edit) (m : Name) (h : ∀ e ∈ es, e.name ≠ m) :
    applyEffects M es m = M m := by
  induction es generalizing M with
  | nil => rfl
  | cons e es ih =>
    simp only [applyEffects]
    rw [ih _ (fun e' he' => h e' (List.mem_cons_of_mem _ he')), effect_apply]
    simp [h e (List.mem_cons_self ..)]

theorem applyEffects_at (M : RefMap) (es : List Edit) (hn : (es.map Edit.name).Nodup) (e : Edit) (he : e ∈ es) :
    applyEffects M es e.name = match e.act with | .set t => some t | .del => none | .nop => M e.name := by
  induction es generalizing M with
  | nil => cases he
  | cons x es ih =>
    simp only [List.map_cons, List.nodup_cons] at hn
    simp only [applyEffects]
    cases he with
    | head =>
      rw [applyEffects_other _ es e.name (fun e' he' heq => hn.1 (by rw [← heq]; exact List.mem_map_of_mem he')), effect_apply]
      simp
    | tail _ he' =>
      have hx : x.name ≠ e.name := fun heq => hn.1 (by rw [heq]; exact List.mem_map_of_mem he')
      rw [ih _ hn.2 he', effect_apply]
      simp [hx]

/-! ### the pass over the edits and the first failing expectation -/

theorem prepSeq_congr (cx : Ctx) (f g : Name → Option Target) (es : List Edit) (h : ∀ e ∈ es, f e.name = g e.name) :
    prepSeq cx f es = prepSeq cx g es := by
  induction es with
  | nil => rfl
  | cons e es ih =>
    simp only [prepSeq, h e (List.mem_cons_self ..), ih (fun e' he' => h e' (List.mem_cons_of_mem _ he'))]

theorem checkEdit_eq (M : RefMap) (e : Edit) : checkEdit M e = checkC (M e.name) e := by
  unfold checkEdit checkC; rfl

theorem prepSeq_firstFailure (cx : Ctx) (M : RefMap) (es : List Edit) :
    match prepSeq cx M es with
    | .error x => firstFailure M es = some x.2
    | .ok r => firstFailure M es = none ∧ r = es.map (fun e => applied cx (M e.name) e) := by
  induction es with
  | nil => simp [prepSeq, firstFailure]
  | cons e es ih =>
    simp only [prepSeq, firstFailure, checkEdit_eq]
    cases hc : checkC (M e.name) e with
    | some ce => simp
    | none =>
      simp only []
      cases hp : prepSeq cx M es with
      | error x => rw [hp] at ih; simpa using ih
      | ok r => rw [hp] at ih; simp [ih.1, ih.2]

end GixModel.C17
