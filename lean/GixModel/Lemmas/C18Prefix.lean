import GixModel.Lemmas.C18Walk
/-
C18 helper lemmas, part 3: prefixed iteration. The packed prefix scan on a sorted file is a filter;
the merge commutes with filtering both streams by a predicate on names; the files below a
sub-directory are exactly the files of the whole walk whose name starts with the directory's path.
-/
namespace GixModel.C18
open GixModel

theorem startsWith_iff {pre n : Bytes} : startsWith pre n = true ↔ pre <+: n := by
  simp [startsWith, List.isPrefixOf_iff_prefix]

/-- a name below the prefix (in byte order) cannot start with it -/
theorem not_startsWith_of_lt {pre n : Bytes} (h : cmpB n pre = .lt) : startsWith pre n = false := by
  cases hs : startsWith pre n with
  | false => rfl
  | true =>
    obtain ⟨e, rfl⟩ := startsWith_iff.mp hs
    by_cases he : e = []
    · subst he; simp at h; exact absurd h cmpB_irrefl
    · exact absurd (cmpB_prefix_lt pre he) (cmpB_asymm h)

/-- names starting with `pre` form an interval: between `pre` and a name with that prefix every
name has the prefix -/
theorem startsWith_convex {pre x y : Bytes} (h1 : cmpB x pre ≠ .lt) (h2 : cmpB x y = .lt)
    (hy : startsWith pre y = true) : startsWith pre x = true := by
  cases hs : startsWith pre x with
  | true => rfl
  | false =>
    have hnp : ¬ pre <+: x := fun h => by simp [startsWith_iff.mpr h] at hs
    have hlt : cmpB pre x = .lt := by
      rcases cmpB_total pre x with h | h | h
      · exact h
      · exact absurd (h ▸ List.prefix_refl _) hnp
      · exact absurd h h1
    obtain ⟨e, rfl⟩ := startsWith_iff.mp hy
    have := cmpB_lt_append_both e [] hlt hnp
    rw [List.append_nil] at this
    exact absurd this (cmpB_asymm h2)

theorem takeWhile_eq_filter_of_ge {pre : Bytes} {p : List Item} (hp : SortedN p)
    (hge : ∀ x ∈ p, cmpB x.1 pre ≠ .lt) :
    p.takeWhile (fun x => startsWith pre x.1) = p.filter (fun x => startsWith pre x.1) := by
  induction p with
  | nil => rfl
  | cons x xs ih =>
    have ih' := ih hp.tail (fun y hy => hge y (List.mem_cons_of_mem _ hy))
    by_cases hx : startsWith pre x.1 = true
    · simp [List.takeWhile, List.filter, hx, ih']
    · simp only [List.takeWhile, List.filter, hx]
      symm
      apply List.filter_eq_nil_iff.mpr
      intro y hy hsy
      exact hx (startsWith_convex (hge x (List.mem_cons_self ..)) (hp.head_lt y hy) hsy)

/-- on a sorted packed-refs file the prefix scan yields exactly the records with the prefix -/
theorem packedPrefixed_eq_filter {p : List Item} (hp : SortedN p) (pre : Bytes) :
    packedPrefixed p pre = p.filter (fun x => startsWith pre x.1) := by
  induction p with
  | nil => rfl
  | cons x xs ih =>
    unfold packedPrefixed at ih ⊢
    by_cases hx : cmpB x.1 pre = .lt
    · simp only [List.dropWhile, hx, decide_true, List.filter, not_startsWith_of_lt hx]
      exact ih hp.tail
    · simp only [List.dropWhile, hx, decide_false]
      apply takeWhile_eq_filter_of_ge hp
      intro y hy
      rcases List.mem_cons.mp hy with e | hy
      · subst e; exact hx
      · intro hlt
        exact hx (cmpB_trans (hp.head_lt y hy) hlt)

/-- the merge commutes with filtering both streams by a predicate on names -/
theorem merge_filter {l p : List Item} (hl : SortedN l) (hp : SortedN p) (q : Name → Bool) :
    merge (l.filter fun x => q x.1) (p.filter fun x => q x.1) = (merge l p).filter fun x => q x.1 := by
  apply sorted_ext (merge_sorted (hl.filter _) (hp.filter _)) ((merge_sorted hl hp).filter _)
  intro x
  rw [mem_merge (hl.filter _) (hp.filter _)]
  simp only [List.mem_filter]
  rw [mem_merge hl hp]
  constructor
  · rintro (⟨h, hq⟩ | ⟨⟨h, hq⟩, hn⟩)
    · exact ⟨.inl h, hq⟩
    · refine ⟨.inr ⟨h, ?_⟩, hq⟩
      intro y hy e
      exact hn y ⟨hy, by rw [e]; exact hq⟩ e
  · rintro ⟨h | ⟨h, hn⟩, hq⟩
    · exact .inl ⟨h, hq⟩
    · exact .inr ⟨⟨h, hq⟩, fun y hy => hn y hy.1⟩

/-! ### sub-directories -/

theorem findEntry_mem_names {c : Bytes} {f : Forest} {r : Target ⊕ Forest}
    (h : findEntry c f = some r) : c ∈ names f := by
  induction f with
  | nil => cases h
  | file m u rest ih =>
    simp only [findEntry] at h
    split at h
    · rename_i e; subst e; exact List.mem_cons_self ..
    · exact List.mem_cons_of_mem _ (ih h)
  | dir m s rest _ ih =>
    simp only [findEntry] at h
    split at h
    · rename_i e; subst e; exact List.mem_cons_self ..
    · exact List.mem_cons_of_mem _ (ih h)

theorem WF.findEntry {c : Bytes} {f sub : Forest} (hf : WF f) (h : findEntry c f = some (.inr sub)) :
    WF sub := by
  induction f with
  | nil => cases h
  | file m u rest ih =>
    simp only [C18.findEntry] at h
    split at h
    · cases h
    · exact ih hf.2.2 h
  | dir m s rest _ ih =>
    simp only [C18.findEntry] at h
    split at h
    · cases h; exact hf.2.2.1
    · exact ih hf.2.2.2 h

theorem WF.lookup {path : List Bytes} {f sub : Forest} (hf : WF f) (h : lookup f path = some (.inr sub)) :
    WF sub := by
  induction path generalizing f with
  | nil => simp [C18.lookup] at h; subst h; exact hf
  | cons c cs ih =>
    simp only [C18.lookup] at h
    split at h
    · rename_i s hs; exact ih (hf.findEntry hs) h
    · split at h <;> cases h
    · cases h

theorem walk_startsWith {pre : Bytes} {f : Forest} {x : Item} (hx : x ∈ walk pre f) : pre <+: x.1 := by
  obtain ⟨k, _, ext, e⟩ := walk_prefix hx
  rw [e, List.append_assoc]; exact List.prefix_append _ _

/-- `c/` can only be a prefix of `m/…` for slash-free `c`, `m` if `c = m` -/
theorem slash_prefix_eq {c m e : Bytes} (hc : (47 : UInt8) ∉ c) (hm : (47 : UInt8) ∉ m)
    (h : (c ++ [47]) <+: (m ++ 47 :: e)) : c = m := by
  induction c generalizing m with
  | nil =>
    cases m with
    | nil => rfl
    | cons y ys =>
      have : (47 : UInt8) = y := by simpa [List.cons_prefix_cons] using (List.cons_prefix_cons.mp h).1
      exact absurd (this ▸ List.mem_cons_self ..) hm
  | cons x xs ih =>
    have hc' : (47 : UInt8) ∉ xs := fun h => hc (List.mem_cons_of_mem _ h)
    cases m with
    | nil =>
      have : x = 47 := by simpa using (List.cons_prefix_cons.mp h).1
      exact absurd (this ▸ List.mem_cons_self ..) hc
    | cons y ys =>
      have hm' : (47 : UInt8) ∉ ys := fun h => hm (List.mem_cons_of_mem _ h)
      have h' := List.cons_prefix_cons.mp h
      rw [h'.1, ih hc' hm' h'.2]

theorem slash_not_prefix_file {c m : Bytes} (hm : (47 : UInt8) ∉ m) : ¬ (c ++ [47]) <+: m := by
  rintro ⟨e, rfl⟩
  exact hm (by simp)

/-- one level: the files of the walk below directory `c` -/
theorem mem_walk_under {f : Forest} (hf : WF f) (pre c : Bytes) (hc : (47 : UInt8) ∉ c) (x : Item) :
    (x ∈ walk pre f ∧ (pre ++ c ++ [47]) <+: x.1) ↔
      ∃ sub, findEntry c f = some (.inr sub) ∧ x ∈ walk (pre ++ c ++ [47]) sub := by
  induction f with
  | nil => simp [walk, findEntry]
  | file m u rest ih =>
    have hmc : m ≠ c ∨ ∀ s, findEntry c rest ≠ some (.inr s) := by
      by_cases e : m = c
      · right; intro s hs; exact hf.2.1 (e ▸ findEntry_mem_names hs)
      · exact .inl e
    constructor
    · rintro ⟨hx, hp⟩
      rcases List.mem_cons.mp hx with e | hx
      · subst e
        rw [List.append_assoc] at hp
        exact absurd ((List.prefix_append_right_inj pre).mp hp) (slash_not_prefix_file hf.1)
      · obtain ⟨s, hs, hxs⟩ := (ih hf.2.2).mp ⟨hx, hp⟩
        have hne : m ≠ c := by
          rcases hmc with h | h
          · exact h
          · exact absurd hs (h s)
        exact ⟨s, by simp [findEntry, hne, hs], hxs⟩
    · rintro ⟨s, hs, hxs⟩
      simp only [findEntry] at hs
      split at hs
      · cases hs
      · obtain ⟨h1, h2⟩ := (ih hf.2.2).mpr ⟨s, hs, hxs⟩
        exact ⟨List.mem_cons_of_mem _ h1, h2⟩
  | dir m s rest _ ih =>
    constructor
    · rintro ⟨hx, hp⟩
      rcases List.mem_append.mp hx with hx | hx
      · have hpm := walk_startsWith hx
        obtain ⟨e, he⟩ := hpm
        have : (c ++ [47]) <+: (m ++ 47 :: e) := by
          have e1 : pre ++ c ++ [47] = pre ++ (c ++ [47]) := by simp
          have e2 : x.1 = pre ++ (m ++ 47 :: e) := by rw [← he]; simp
          rw [e1, e2] at hp
          exact (List.prefix_append_right_inj pre).mp hp
        have hcm : c = m := slash_prefix_eq hc hf.1 this
        subst hcm
        exact ⟨s, by simp [findEntry], hx⟩
      · obtain ⟨s', hs', hxs⟩ := (ih hf.2.2.2).mp ⟨hx, hp⟩
        have hne : m ≠ c := fun e => hf.2.1 (e ▸ findEntry_mem_names hs')
        exact ⟨s', by simp [findEntry, hne, hs'], hxs⟩
    · rintro ⟨s', hs', hxs⟩
      simp only [findEntry] at hs'
      split at hs'
      · rename_i e
        cases hs'; subst e
        exact ⟨List.mem_append.mpr (.inl hxs), walk_startsWith hxs⟩
      · obtain ⟨h1, h2⟩ := (ih hf.2.2.2).mpr ⟨s', hs', hxs⟩
        exact ⟨List.mem_append.mpr (.inr h1), h2⟩

theorem dirPrefix_cons (c : Bytes) (cs : List Bytes) : dirPrefix (c :: cs) = c ++ [47] ++ dirPrefix cs := by
  simp [dirPrefix]

/-- any depth: the files of the walk below directory `path` -/
theorem mem_walk_path {f : Forest} (hf : WF f) (pre : Bytes) (path : List Bytes)
    (hpath : ∀ c ∈ path, (47 : UInt8) ∉ c) (x : Item) :
    (x ∈ walk pre f ∧ (pre ++ dirPrefix path) <+: x.1) ↔
      ∃ sub, lookup f path = some (.inr sub) ∧ x ∈ walk (pre ++ dirPrefix path) sub := by
  induction path generalizing f pre with
  | nil =>
    simp only [dirPrefix, List.append_nil, lookup]
    constructor
    · rintro ⟨h, _⟩; exact ⟨f, rfl, h⟩
    · rintro ⟨s, hs, h⟩; cases hs; exact ⟨h, walk_startsWith h⟩
  | cons c cs ih =>
    have hc := hpath c (List.mem_cons_self ..)
    have hcs : ∀ d ∈ cs, (47 : UInt8) ∉ d := fun d hd => hpath d (List.mem_cons_of_mem _ hd)
    rw [dirPrefix_cons]
    have eassoc : pre ++ (c ++ [47] ++ dirPrefix cs) = (pre ++ c ++ [47]) ++ dirPrefix cs := by simp
    rw [eassoc]
    constructor
    · rintro ⟨hx, hp⟩
      have hp1 : (pre ++ c ++ [47]) <+: x.1 := List.IsPrefix.trans (List.prefix_append _ _) hp
      obtain ⟨s1, hs1, hx1⟩ := (mem_walk_under hf pre c hc x).mp ⟨hx, hp1⟩
      obtain ⟨s, hs, hxs⟩ := (ih (hf.findEntry hs1) (pre ++ c ++ [47]) hcs).mp ⟨hx1, hp⟩
      exact ⟨s, by simp [lookup, hs1, hs], hxs⟩
    · rintro ⟨s, hs, hxs⟩
      simp only [lookup] at hs
      split at hs
      · rename_i s1 hs1
        obtain ⟨hx1, hp⟩ := (ih (hf.findEntry hs1) (pre ++ c ++ [47]) hcs).mpr ⟨s, hs, hxs⟩
        obtain ⟨hx, _⟩ := (mem_walk_under hf pre c hc x).mpr ⟨s1, hs1, hx1⟩
        exact ⟨hx, hp⟩
      · split at hs <;> cases hs
      · cases hs

/-! ### the loose stream -/

theorem looseItems_sorted {valid : Name → Bool} {g : Forest} (hg : WF g) (path : List Bytes)
    (np : Option Bytes) : SortedN (looseItems cmpRepaired valid g path np) := by
  unfold looseItems
  split
  · rename_i sub hs
    exact ((walk_sortF_sorted (hg.lookup hs) _).filter _).filter _
  · exact List.Pairwise.nil

/-- members of the loose stream over directory `path`, in terms of the walk of the whole git dir -/
theorem mem_looseItems {valid : Name → Bool} {g : Forest} (hg : WF g) (path : List Bytes)
    (hpath : ∀ c ∈ path, (47 : UInt8) ∉ c) (np : Option Bytes) (x : Item) :
    x ∈ looseItems cmpRepaired valid g path np ↔
      x ∈ walk [] g ∧ dirPrefix path <+: x.1 ∧ (∀ e, np = some e → e <+: x.1) ∧ valid x.1 = true := by
  have key := mem_walk_path hg [] path hpath x
  simp only [List.nil_append] at key
  unfold looseItems
  split
  · rename_i sub hs
    simp only [List.mem_filter, mem_walk_sortF]
    constructor
    · rintro ⟨⟨hx, hnp⟩, hv⟩
      obtain ⟨h1, h2⟩ := key.mpr ⟨sub, hs, hx⟩
      refine ⟨h1, h2, ?_, hv⟩
      intro e he; subst he
      exact startsWith_iff.mp hnp
    · rintro ⟨h1, h2, h3, hv⟩
      obtain ⟨s, hs', hx⟩ := key.mp ⟨h1, h2⟩
      rw [hs] at hs'; cases hs'
      refine ⟨⟨hx, ?_⟩, hv⟩
      cases np with
      | none => rfl
      | some e => exact startsWith_iff.mpr (h3 e rfl)
  · rename_i hnot
    constructor
    · intro h; cases h
    · rintro ⟨h1, h2, _, _⟩
      obtain ⟨s, hs', _⟩ := key.mp ⟨h1, h2⟩
      exact absurd hs' (hnot s)

/-- the loose stream of a prefixed iteration is the loose stream of the full iteration, filtered:
`e` is the effective prefix, which starts with the walked directory's path and with `refs/` -/
theorem looseItems_eq_filter {valid : Name → Bool} {g : Forest} (hg : WF g) (path : List Bytes)
    (hpath : ∀ c ∈ path, (47 : UInt8) ∉ c) (np : Option Bytes) (e : Bytes)
    (hnp : ∀ e', np = some e' → e' = e) (hnone : np = none → e = dirPrefix path)
    (he : dirPrefix path <+: e) (hrefs : dirPrefix [refsC] <+: e) :
    looseItems cmpRepaired valid g path np =
      (looseItems cmpRepaired valid g [refsC] none).filter fun x => startsWith e x.1 := by
  apply sorted_ext (looseItems_sorted hg _ _) ((looseItems_sorted hg _ _).filter _)
  intro x
  have hr : ∀ c ∈ [refsC], (47 : UInt8) ∉ c := by
    intro c hc; simp at hc; subst hc; decide
  rw [mem_looseItems hg path hpath, List.mem_filter, mem_looseItems hg [refsC] hr, startsWith_iff]
  constructor
  · rintro ⟨h1, h2, h3, hv⟩
    have hex : e <+: x.1 := by
      cases np with
      | none => rw [hnone rfl]; exact h2
      | some e' => rw [← hnp e' rfl]; exact h3 e' rfl
    exact ⟨⟨h1, hrefs.trans hex, by simp, hv⟩, hex⟩
  · rintro ⟨⟨h1, _, _, hv⟩, hex⟩
    refine ⟨h1, he.trans hex, ?_, hv⟩
    intro e' he'; rw [hnp e' he']; exact hex

/-- a file found by path lookup is a file of the walk -/
theorem lookup_mem_walk {g : Forest} {path : List Bytes} {t : Target} (pre : Bytes)
    (h : lookup g path = some (.inl t)) : ∃ x ∈ walk pre g, x.2 = t := by
  induction path generalizing g pre with
  | nil => simp [lookup] at h
  | cons c cs ih =>
    induction g with
    | nil => simp [lookup, findEntry] at h
    | file m u rest ihg =>
      simp only [lookup, findEntry] at h
      by_cases e : m = c
      · simp only [e, if_true] at h
        split at h
        · cases h; exact ⟨_, List.mem_cons_self .., rfl⟩
        · cases h
      · simp only [e, if_false] at h
        have : lookup rest (c :: cs) = some (.inl t) := by simpa [lookup] using h
        obtain ⟨x, hx, e'⟩ := ihg this
        exact ⟨x, List.mem_cons_of_mem _ hx, e'⟩
    | dir m s rest _ ihg =>
      simp only [lookup, findEntry] at h
      by_cases e : m = c
      · simp only [e, if_true] at h
        obtain ⟨x, hx, e'⟩ := ih (pre ++ m ++ [47]) h
        exact ⟨x, List.mem_append.mpr (.inl hx), e'⟩
      · simp only [e, if_false] at h
        have : lookup rest (c :: cs) = some (.inl t) := by simpa [lookup] using h
        obtain ⟨x, hx, e'⟩ := ihg this
        exact ⟨x, List.mem_append.mpr (.inr hx), e'⟩

end GixModel.C18
