import GixModel.Lemmas.C47TopoBasic
import GixModel.Lemmas.C46Redundant
/-
C47 — lemmas, part 3: the context of a topo walk, the ghost notions (reachable / hidden commits),
and the parent loops of the explore step and of the in-degree step.
-/
namespace GixModel.C47
open GixModel GixModel.CG GixModel.Spec.C47
open GixModel.C46 (filter_length_mono filter_length_lt filter_length_flip)

/-- the graph of the links the walk follows -/
def TopoEnv.eg (E : TopoEnv) : Dag := { E.g with parents := fun c => walkParents E c }

theorem walkParents_sub (E : TopoEnv) {c p : Nat} (h : p ∈ walkParents E c) : p ∈ E.g.parents c := by
  unfold walkParents at h
  split at h
  · exact List.mem_of_mem_take h
  · exact h

theorem walkParents_eq_edges (E : TopoEnv) (c : Nat) :
    walkParents E c = edges E.g E.cfg.firstParent c := rfl

/-- reachable from a tip or an end over the walked links -/
def Rch (E : TopoEnv) (tips ends : List Nat) (x : Nat) : Prop :=
  ∃ s, s ∈ tips ++ ends ∧ Reach E.eg s x

/-- reachable from an end (over all parent links): what `git rev-list ^end` hides -/
def Hid (E : TopoEnv) (ends : List Nat) (x : Nat) : Prop := ∃ e, e ∈ ends ∧ Reach E.g e x

/-- What a walk with ends needs of the walked links: a hidden reachable commit that is not an end
has a hidden reachable child over the links the walk follows. It always holds when all parents are
walked and when there are no ends (`hidWalk_of_fp_ends`). For a `Parents::First` walk with ends it
is exactly the condition under which the walk hides what git hides; where it fails the walk
returns commits `git rev-list --first-parent tips ^ends` does not print (the known finding). -/
def HidWalk (E : TopoEnv) (tips ends : List Nat) : Prop :=
  ∀ x, Hid E ends x → Rch E tips ends x → x ∉ ends →
    ∃ c, Hid E ends c ∧ Rch E tips ends c ∧ x ∈ walkParents E c

/-- everything the theorems assume about the repository, the queues and the request -/
structure TCtx (E : TopoEnv) (nodes tips ends : List Nat) : Prop where
  acyclic : Acyclic E.g
  closed : Closed E.g nodes
  nodup : nodes.Nodup
  genmono : GenMono E.g
  parents_nodup : ∀ c, (E.g.parents c).Nodup
  tips_nodes : ∀ t, t ∈ tips → t ∈ nodes
  ends_nodes : ∀ e, e ∈ ends → e ∈ nodes
  qg_lawful : E.qg.Lawful
  /-- the generation queue hands out an entry of maximal generation -/
  qg_max : ∀ s e s', E.qg.pop s = some (e, s') → ∀ x, x ∈ E.qg.items s → x.1.1 ≤ e.1.1
  qd_lawful : E.qd.Lawful
  /-- see `HidWalk`: automatic unless this is a first-parent walk with ends -/
  hid_walk : HidWalk E tips ends

section ctx
variable {E : TopoEnv} {nodes tips ends : List Nat}

theorem TCtx.walk_nodup (ctx : TCtx E nodes tips ends) (c : Nat) : (walkParents E c).Nodup := by
  unfold walkParents
  split
  · exact (ctx.parents_nodup c).sublist (List.take_sublist _ _)
  · exact ctx.parents_nodup c

theorem walk_all_of_fp_ends (hfe : E.cfg.firstParent = true → ends = []) (hne : ends ≠ []) (c : Nat) :
    walkParents E c = E.g.parents c := by
  unfold walkParents
  cases hf : E.cfg.firstParent with
  | true => exact absurd (hfe hf) hne
  | false => simp

theorem eg_reach_g (E : TopoEnv) {x y : Nat} (h : Reach E.eg x y) : Reach E.g x y := by
  induction h with
  | refl => exact Reach.refl _
  | head hp _ ih => exact Reach.head (walkParents_sub E hp) ih

theorem g_reach_eg_of_fp_ends (hfe : E.cfg.firstParent = true → ends = []) (hne : ends ≠ []) {x y : Nat}
    (h : Reach E.g x y) : Reach E.eg x y := by
  induction h with
  | refl => exact Reach.refl _
  | head hp _ ih =>
    refine Reach.head ?_ ih
    show _ ∈ walkParents E _
    rw [walk_all_of_fp_ends hfe hne]; exact hp

theorem TCtx.eg_acyclic (ctx : TCtx E nodes tips ends) : Acyclic E.eg := by
  obtain ⟨rank, hr⟩ := ctx.acyclic
  exact ⟨rank, fun c p hp => hr c p (walkParents_sub E hp)⟩

theorem TCtx.eg_closed (ctx : TCtx E nodes tips ends) : Closed E.eg nodes :=
  fun c hc p hp => ctx.closed c hc p (walkParents_sub E hp)

theorem TCtx.rch_nodes (ctx : TCtx E nodes tips ends) {x : Nat} (h : Rch E tips ends x) : x ∈ nodes := by
  obtain ⟨s, hs, hr⟩ := h
  apply hr.mem_closed ctx.eg_closed
  cases List.mem_append.mp hs with
  | inl h' => exact ctx.tips_nodes s h'
  | inr h' => exact ctx.ends_nodes s h'

theorem Rch.step {x p : Nat} (h : Rch E tips ends x) (hp : p ∈ walkParents E x) : Rch E tips ends p := by
  obtain ⟨s, hs, hr⟩ := h
  exact ⟨s, hs, hr.tail hp⟩

theorem Hid.parent {x p : Nat} (h : Hid E ends x) (hp : p ∈ E.g.parents x) : Hid E ends p := by
  obtain ⟨e, he, hr⟩ := h
  exact ⟨e, he, hr.tail hp⟩

theorem Hid.step {x p : Nat} (h : Hid E ends x) (hp : p ∈ walkParents E x) : Hid E ends p :=
  h.parent (walkParents_sub E hp)

theorem TCtx.gen_le_walk (ctx : TCtx E nodes tips ends) {c p : Nat} (hp : p ∈ walkParents E c) :
    E.g.gen p ≤ E.g.gen c := ctx.genmono c p (walkParents_sub E hp)

theorem reach_tail_cases {g : Dag} {a b : Nat} (h : Reach g a b) :
    a = b ∨ ∃ c, Reach g a c ∧ b ∈ g.parents c := by
  induction h with
  | refl => exact Or.inl rfl
  | head hp hpb ih =>
    right
    cases ih with
    | inl h' => subst h'; exact ⟨_, Reach.refl _, hp⟩
    | inr h' =>
      obtain ⟨c, hc1, hc2⟩ := h'
      exact ⟨c, Reach.head hp hc1, hc2⟩

/-- all parents walked, or no ends: a hidden commit that is not an end has a hidden, reachable
child over the walked links -/
theorem hidWalk_of_fp_ends (hfe : E.cfg.firstParent = true → ends = []) : HidWalk E tips ends := by
  intro x h _ hx
  obtain ⟨e, he, hr⟩ := h
  have hne : ends ≠ [] := by intro h'; rw [h'] at he; simp at he
  cases reach_tail_cases hr with
  | inl h' => subst h'; exact absurd he hx
  | inr h' =>
    obtain ⟨c, hc1, hc2⟩ := h'
    refine ⟨c, ⟨e, he, hc1⟩, ⟨e, List.mem_append_right _ he, g_reach_eg_of_fp_ends hfe hne hc1⟩, ?_⟩
    rw [walk_all_of_fp_ends hfe hne]; exact hc2

end ctx

/-! ### the parent loop of `explore_walk_step` -/

/-- number of commits not yet `Explored` -/
def unexplored (nodes : List Nat) (m : StateMap) : Nat := (nodes.filter fun x => !m.fExplored x).length

theorem set_explored_proj (m : StateMap) (p : Nat) (st : WalkFlags) (h : m.get p = some st) :
    (∀ x, (m.set p { st with explored := true }).has x = m.has x) ∧
    (∀ x, (m.set p { st with explored := true }).fU x = m.fU x) ∧
    (∀ x, (m.set p { st with explored := true }).fInDeg x = m.fInDeg x) ∧
    (∀ x, (m.set p { st with explored := true }).fAdded x = m.fAdded x) ∧
    (∀ x, (m.set p { st with explored := true }).fExplored x = (m.fExplored x || decide (x = p))) := by
  refine ⟨?_, ?_, ?_, ?_, ?_⟩ <;> intro x <;> by_cases hx : x = p
  all_goals
    first
    | (subst hx
       simp [StateMap.has, StateMap.fExplored, StateMap.fInDeg, StateMap.fU, StateMap.fAdded,
         StateMap.get_set, h])
    | simp [StateMap.has, StateMap.fExplored, StateMap.fInDeg, StateMap.fU, StateMap.fAdded,
        StateMap.get_set, hx]

structure Explored (E : TopoEnv) (nodes ps : List Nat) (m m' : StateMap) (qu qu' : E.qg.Q) : Prop where
  has : ∀ x, m'.has x = m.has x
  fU : ∀ x, m'.fU x = m.fU x
  fInDeg : ∀ x, m'.fInDeg x = m.fInDeg x
  fAdded : ∀ x, m'.fAdded x = m.fAdded x
  fExplored : ∀ x, m'.fExplored x = (m.fExplored x || decide (x ∈ ps))
  q_old : ∀ e, e ∈ E.qg.items qu → e ∈ E.qg.items qu'
  q_new : ∀ e, e ∈ E.qg.items qu' → e ∈ E.qg.items qu ∨ (e.1 = genTime E.g e.2 ∧ e.2 ∈ ps)
  q_in : ∀ p, p ∈ ps → m.fExplored p = false → (genTime E.g p, p) ∈ E.qg.items qu'
  phi : (E.qg.items qu').length + unexplored nodes m' ≤ (E.qg.items qu).length + unexplored nodes m

theorem exploreParents_spec {E : TopoEnv} (hq : E.qg.Lawful) (nodes : List Nat) :
    ∀ (ps : List Nat) (m : StateMap) (qu : E.qg.Q), (∀ p, p ∈ ps → m.has p = true) → (∀ p, p ∈ ps → p ∈ nodes) →
      ∃ m' qu', exploreParents E ps m qu = some (m', qu') ∧ Explored E nodes ps m m' qu qu' := by
  intro ps
  induction ps with
  | nil =>
    intro m qu _ _
    refine ⟨m, qu, rfl, ⟨fun _ => rfl, fun _ => rfl, fun _ => rfl, fun _ => rfl, by intro x; simp,
      fun e h => h, fun e h => Or.inl h, by intro p hp; simp at hp, Nat.le_refl _⟩⟩
  | cons p ps ih =>
    intro m qu hhas hnodes
    unfold exploreParents
    have hp := hhas p List.mem_cons_self
    cases hget : m.get p with
    | none => simp [StateMap.has, hget] at hp
    | some st =>
      dsimp only
      have hE : m.fExplored p = st.explored := by simp [StateMap.fExplored, hget]
      by_cases hex : st.explored = true
      · rw [if_pos hex]
        obtain ⟨m', qu', h1, h2⟩ := ih m qu (fun q hq' => hhas q (List.mem_cons_of_mem _ hq'))
          (fun q hq' => hnodes q (List.mem_cons_of_mem _ hq'))
        refine ⟨m', qu', h1, ⟨h2.has, h2.fU, h2.fInDeg, h2.fAdded, ?_, h2.q_old, ?_, ?_, h2.phi⟩⟩
        · intro x
          rw [h2.fExplored]
          by_cases hx : x = p
          · subst hx; simp [hE, hex]
          · simp [hx]
        · intro e he
          cases h2.q_new e he with
          | inl h => exact Or.inl h
          | inr h => exact Or.inr ⟨h.1, List.mem_cons_of_mem _ h.2⟩
        · intro q hq' hqe
          cases List.mem_cons.mp hq' with
          | inl h => subst h; rw [hE, hex] at hqe; cases hqe
          | inr h => exact h2.q_in q h hqe
      · rw [if_neg hex]
        have hEf : m.fExplored p = false := by rw [hE]; simpa using hex
        obtain ⟨s1, s2, s3, s4, s5⟩ := set_explored_proj m p st hget
        obtain ⟨m', qu', h1, h2⟩ := ih (m.set p { st with explored := true }) (E.qg.insert (genTime E.g p) p qu)
          (fun q hq' => by rw [s1]; exact hhas q (List.mem_cons_of_mem _ hq'))
          (fun q hq' => hnodes q (List.mem_cons_of_mem _ hq'))
        have hins := hq.items_insert (genTime E.g p) p qu
        refine ⟨m', qu', h1, ⟨?_, ?_, ?_, ?_, ?_, ?_, ?_, ?_, ?_⟩⟩
        · intro x; rw [h2.has, s1]
        · intro x; rw [h2.fU, s2]
        · intro x; rw [h2.fInDeg, s3]
        · intro x; rw [h2.fAdded, s4]
        · intro x
          rw [h2.fExplored, s5]
          by_cases hx : x = p <;> simp [hx]
        · intro e he
          exact h2.q_old e (hins.symm.subset (List.mem_cons_of_mem _ he))
        · intro e he
          cases h2.q_new e he with
          | inl h =>
            cases List.mem_cons.mp (hins.subset h) with
            | inl h' => subst h'; exact Or.inr ⟨rfl, List.mem_cons_self⟩
            | inr h' => exact Or.inl h'
          | inr h => exact Or.inr ⟨h.1, List.mem_cons_of_mem _ h.2⟩
        · intro q hq' hqe
          by_cases hqp : q = p
          · subst hqp
            exact h2.q_old _ (hins.symm.subset List.mem_cons_self)
          · cases List.mem_cons.mp hq' with
            | inl h => exact absurd h hqp
            | inr h =>
              apply h2.q_in q h
              rw [s5]; simp [hqe, hqp]
        · have hlen := hins.length_eq
          simp only [List.length_cons] at hlen
          have hlt : unexplored nodes (m.set p { st with explored := true }) + 1 ≤ unexplored nodes m := by
            apply filter_length_lt _ _ _ _ p (hnodes p List.mem_cons_self)
            · simp [hEf]
            · rw [s5]; simp
            · intro x _ hx
              rw [s5] at hx
              cases hm : m.fExplored x with
              | false => rfl
              | true => simp [hm] at hx
          have := h2.phi
          omega

/-! ### the parent loop of `indegree_walk_step` -/

def unflagged (nodes : List Nat) (m : StateMap) : Nat := (nodes.filter fun x => !m.fInDeg x).length

theorem set_indeg_proj (m : StateMap) (p : Nat) (st : WalkFlags) (h : m.get p = some st) :
    (∀ x, (m.set p { st with inDegree := true }).has x = m.has x) ∧
    (∀ x, (m.set p { st with inDegree := true }).fU x = m.fU x) ∧
    (∀ x, (m.set p { st with inDegree := true }).fExplored x = m.fExplored x) ∧
    (∀ x, (m.set p { st with inDegree := true }).fAdded x = m.fAdded x) ∧
    (∀ x, (m.set p { st with inDegree := true }).fInDeg x = (m.fInDeg x || decide (x = p))) := by
  refine ⟨?_, ?_, ?_, ?_, ?_⟩ <;> intro x <;> by_cases hx : x = p
  all_goals
    first
    | (subst hx
       simp [StateMap.has, StateMap.fExplored, StateMap.fInDeg, StateMap.fU, StateMap.fAdded,
         StateMap.get_set, h])
    | simp [StateMap.has, StateMap.fExplored, StateMap.fInDeg, StateMap.fU, StateMap.fAdded,
        StateMap.get_set, hx]

structure Counted1 (E : TopoEnv) (nodes ps : List Nat) (d d' : DegMap) (m m' : StateMap) (qu qu' : E.qg.Q) : Prop where
  has : ∀ x, m'.has x = m.has x
  fU : ∀ x, m'.fU x = m.fU x
  fExplored : ∀ x, m'.fExplored x = m.fExplored x
  fAdded : ∀ x, m'.fAdded x = m.fAdded x
  fInDeg : ∀ x, m'.fInDeg x = (m.fInDeg x || decide (x ∈ ps))
  deg : ∀ x, d'.get x = if x ∈ ps then some (bump (d.get x)) else d.get x
  q_old : ∀ e, e ∈ E.qg.items qu → e ∈ E.qg.items qu'
  q_new : ∀ e, e ∈ E.qg.items qu' → e ∈ E.qg.items qu ∨ (e.1 = genTime E.g e.2 ∧ e.2 ∈ ps ∧ m.fInDeg e.2 = false)
  q_in : ∀ p, p ∈ ps → m.fInDeg p = false → (genTime E.g p, p) ∈ E.qg.items qu'
  q_nodup : ((E.qg.items qu).map (·.2)).Nodup → (∀ e, e ∈ E.qg.items qu → m.fInDeg e.2 = true) →
      ((E.qg.items qu').map (·.2)).Nodup
  psi : (E.qg.items qu').length + unflagged nodes m' ≤ (E.qg.items qu).length + unflagged nodes m

theorem indegreeParents_spec {E : TopoEnv} (hq : E.qg.Lawful) (nodes : List Nat) :
    ∀ (ps : List Nat) (d : DegMap) (m : StateMap) (qu : E.qg.Q), ps.Nodup →
      (∀ p, p ∈ ps → m.has p = true) → (∀ p, p ∈ ps → p ∈ nodes) →
      ∃ d' m' qu', indegreeParents E ps d m qu = some (d', m', qu') ∧ Counted1 E nodes ps d d' m m' qu qu' := by
  intro ps
  induction ps with
  | nil =>
    intro d m qu _ _ _
    refine ⟨d, m, qu, rfl, ⟨fun _ => rfl, fun _ => rfl, fun _ => rfl, fun _ => rfl, by intro x; simp,
      by intro x; simp, fun e h => h, fun e h => Or.inl h, by intro p hp; simp at hp, fun h _ => h, Nat.le_refl _⟩⟩
  | cons p ps ih =>
    intro d m qu hnd hhas hnodes
    have hnd' := List.nodup_cons.mp hnd
    unfold indegreeParents
    have hp := hhas p List.mem_cons_self
    -- the bumped in-degree map
    have hd1 : ∀ x, (d.set p (bump (d.get p))).get x = if x = p then some (bump (d.get p)) else d.get x :=
      fun x => DegMap.get_set _ _ _ _
    generalize d.set p (bump (d.get p)) = d1 at hd1
    dsimp only
    cases hget : m.get p with
    | none => simp [StateMap.has, hget] at hp
    | some st =>
      dsimp only
      have hF : m.fInDeg p = st.inDegree := by simp [StateMap.fInDeg, hget]
      have hdeg : ∀ (d' : DegMap), (∀ x, d'.get x = if x ∈ ps then some (bump (d1.get x)) else d1.get x) →
          ∀ x, d'.get x = if x ∈ p :: ps then some (bump (d.get x)) else d.get x := by
        intro d' h x
        rw [h, hd1]
        by_cases hx : x = p
        · subst hx
          simp [hnd'.1]
        · simp [hx]
      by_cases hin : st.inDegree = true
      · rw [if_pos hin]
        obtain ⟨d', m', qu', h1, h2⟩ := ih d1 m qu hnd'.2 (fun q hq' => hhas q (List.mem_cons_of_mem _ hq'))
          (fun q hq' => hnodes q (List.mem_cons_of_mem _ hq'))
        refine ⟨d', m', qu', h1, ⟨h2.has, h2.fU, h2.fExplored, h2.fAdded, ?_, hdeg d' h2.deg, h2.q_old, ?_, ?_,
          h2.q_nodup, h2.psi⟩⟩
        · intro x
          rw [h2.fInDeg]
          by_cases hx : x = p
          · subst hx; simp [hF, hin]
          · simp [hx]
        · intro e he
          cases h2.q_new e he with
          | inl h => exact Or.inl h
          | inr h => exact Or.inr ⟨h.1, List.mem_cons_of_mem _ h.2.1, h.2.2⟩
        · intro q hq' hqf
          cases List.mem_cons.mp hq' with
          | inl h => subst h; rw [hF, hin] at hqf; cases hqf
          | inr h => exact h2.q_in q h hqf
      · rw [if_neg hin]
        have hFf : m.fInDeg p = false := by rw [hF]; simpa using hin
        obtain ⟨s1, s2, s3, s4, s5⟩ := set_indeg_proj m p st hget
        obtain ⟨d', m', qu', h1, h2⟩ := ih d1 (m.set p { st with inDegree := true })
          (E.qg.insert (genTime E.g p) p qu) hnd'.2
          (fun q hq' => by rw [s1]; exact hhas q (List.mem_cons_of_mem _ hq'))
          (fun q hq' => hnodes q (List.mem_cons_of_mem _ hq'))
        have hins := hq.items_insert (genTime E.g p) p qu
        refine ⟨d', m', qu', h1, ⟨?_, ?_, ?_, ?_, ?_, hdeg d' h2.deg, ?_, ?_, ?_, ?_, ?_⟩⟩
        · intro x; rw [h2.has, s1]
        · intro x; rw [h2.fU, s2]
        · intro x; rw [h2.fExplored, s3]
        · intro x; rw [h2.fAdded, s4]
        · intro x
          rw [h2.fInDeg, s5]
          by_cases hx : x = p <;> simp [hx]
        · intro e he
          exact h2.q_old e (hins.symm.subset (List.mem_cons_of_mem _ he))
        · intro e he
          cases h2.q_new e he with
          | inl h =>
            cases List.mem_cons.mp (hins.subset h) with
            | inl h' => subst h'; exact Or.inr ⟨rfl, List.mem_cons_self, hFf⟩
            | inr h' => exact Or.inl h'
          | inr h =>
            obtain ⟨a1, a2, a3⟩ := h
            rw [s5] at a3
            simp only [Bool.or_eq_false_iff] at a3
            exact Or.inr ⟨a1, List.mem_cons_of_mem _ a2, a3.1⟩
        · intro q hq' hqf
          by_cases hqp : q = p
          · subst hqp
            exact h2.q_old _ (hins.symm.subset List.mem_cons_self)
          · cases List.mem_cons.mp hq' with
            | inl h => exact absurd h hqp
            | inr h =>
              apply h2.q_in q h
              rw [s5]; simp [hqf, hqp]
        · intro hnq hfl
          apply h2.q_nodup
          · have hperm := hins.map (·.2)
            rw [hperm.nodup_iff]
            simp only [List.map_cons]
            apply List.nodup_cons.mpr
            refine ⟨?_, hnq⟩
            intro hmem
            obtain ⟨e, he, hep⟩ := List.mem_map.mp hmem
            have := hfl e he
            rw [hep, hFf] at this
            cases this
          · intro e he
            rw [s5]
            cases List.mem_cons.mp (hins.subset he) with
            | inl h' => subst h'; simp
            | inr h' => simp [hfl e h']
        · have hlen := hins.length_eq
          simp only [List.length_cons] at hlen
          have hlt : unflagged nodes (m.set p { st with inDegree := true }) + 1 ≤ unflagged nodes m := by
            apply filter_length_lt _ _ _ _ p (hnodes p List.mem_cons_self)
            · simp [hFf]
            · rw [s5]; simp
            · intro x _ hx
              rw [s5] at hx
              cases hm : m.fInDeg x with
              | false => rfl
              | true => simp [hm] at hx
          have := h2.psi
          omega

end GixModel.C47
