import GixModel.Lemmas.C12Lb
/-
C12 (liveness) — every step of the retry-loop model keeps the invariant (repaired code).
-/
namespace GixModel.C12.Live

theorem quiet_noLoad {s : S} (inv : Inv s) (ix : Nat) (hq : quiet s ix = true) : NoLoad s ix := by
  intro h pr k hp
  rcases Nat.lt_or_ge h s.nH with hl | hge
  · unfold quiet at hq
    rw [List.all_eq_true] at hq
    have := hq h (List.mem_range.mpr hl)
    rw [hp] at this
    simp [announced] at this
  · rw [inv.g.freshH h hge] at hp; cases hp

theorem uninit_exh {s : S} (inv : Inv s) (p : Nat) (hu : (s.objs p).init = false) : Exh s p := by
  have he := inv.g.uninit p hu
  refine ⟨by rw [he]; rfl, ?_⟩
  intro h pr k hp
  have := (inv.h h).loadK p pr k hp
  rw [he] at this
  exact absurd this (Nat.not_lt_zero _)

/-- moves of one handle between program counters outside the critical section, nothing else changing -/
theorem Inv.move {s : S} (inv : Inv s) (h : Nat) (pc' : Pc)
    (hold : ∀ p pr k, (s.hs h).pc ≠ Pc.lnLoad p pr k) (hidle : (s.hs h).pc ≠ Pc.idle)
    (hnl : ∀ p pr k, pc' ≠ Pc.lnLoad p pr k)
    (o1 : ∀ ix, pcIx pc' = some ix → ix < s.nObjs)
    (o2 : ∀ ix p k, pc' ≠ Pc.lnLate ix p k)
    (o3 : ∀ ix p, pcPrev pc' = some (ix, p) → p ≤ (s.objs ix).loaded)
    (o4 : ∀ ix, (s.hs h).pc ≠ Pc.collRead ix)
    (o5 : ∀ ix, pc' ≠ Pc.collRead ix)
    (o6 : postScan pc' = true → ∀ f ∈ (s.hs h).snap, holds s f (s.hs h).obj = false)
    (o7 : ∀ ix p, pc' = Pc.lnWait ix p → (s.objs ix).claimed = (s.objs ix).files.length)
    (o8 : ∀ ix p, pc' = Pc.lnEnd ix p → p = (s.objs ix).loaded → Exh s ix)
    (o9 : ∀ ix, pc' = Pc.cons ix → Exh s ix)
    (o10 : ∀ ix, pc' = Pc.recheck ix → Exh s ix ∧ (∀ f ∈ (s.hs h).alive, f ∈ (s.objs ix).files)
      ∧ (s.pub = ix ∨ (s.hs h).mPtr ≠ s.pub))
    (o11 : pc' = Pc.notFound → (s.hs h).alive = []) :
    Inv (s.setH h { s.hs h with pc := pc' }) :=
  inv.handleOnly h _ (inv.lt_of_pc h hidle) hold hnl
    ((inv.h h).withPc pc' hnl o1 o2 o3 o4 o5 o6 o7 o8 o9 o10 o11)


def objNew (disk kept : List Nat) : IdxObj :=
  { files := disk, claimed := 0, loaded := (disk.filter fun f => kept.contains f).length, init := true, done := [] }

def stCons (s : S) (kept : List Nat) : S :=
  { (s.setObj s.nObjs (objNew s.disk kept)) with pub := s.nObjs, nObjs := s.nObjs + 1, loadedFiles := kept }

def objLoad (o : IdxObj) (k : Nat) : IdxObj := { o with loaded := o.loaded + 1, done := k :: o.done }

def stLoad (s : S) (ix k : Nat) (lf : List Nat) : S := { (s.setObj ix (objLoad (s.objs ix) k)) with loadedFiles := lf }

/-- shared data progressed to `s1` (handles untouched), then handle `h` moves on, not into a critical section -/
theorem hinv_all_via {s s1 : S} {h : Nat} {x' : H} (hhs : s1.hs = s.hs)
    (hall : ∀ h', HInv s1 (s.hs h')) (hnl : ∀ p pr k, x'.pc ≠ Pc.lnLoad p pr k)
    (hx : HInv (s1.setH h x') x') : ∀ h', HInv (s1.setH h x') ((s1.setH h x').hs h') := by
  intro h'
  show HInv _ (setAt s1.hs h x' h')
  by_cases hh : h' = h
  · subst hh; rw [setAt_same]; exact hx
  · rw [setAt_other _ _ _ _ hh, hhs]
    exact (hall h').transfer rfl rfl rfl rfl rfl rfl (fun ix hn => hn.setH hnl)

theorem step_inv_claim {s s' : S} {h : Nat} (inv : Inv s) (hs : step s (Ev.claim h) = some s') : Inv s' := by
  have hcfg := inv.g.cfg
  have ha : s.cfg.announceFirst = true := by rw [hcfg]; rfl
  simp only [step] at hs
  split at hs
  · rename_i ix prev hpc
    have hx := inv.h h
    have hold : ∀ p pr k, (s.hs h).pc ≠ Pc.lnLoad p pr k := fun p pr k hp => by rw [hpc] at hp; cases hp
    have hidle : (s.hs h).pc ≠ Pc.idle := by rw [hpc]; intro hp; cases hp
    have o4 : ∀ ix, (s.hs h).pc ≠ Pc.collRead ix := fun ix hp => by rw [hpc] at hp; cases hp
    have o6 : ∀ f ∈ (s.hs h).snap, holds s f (s.hs h).obj = false := hx.scanFail (by rw [hpc]; rfl)
    have hixlt : ix < s.nObjs := hx.ixLt ix (by rw [hpc]; rfl)
    split at hs
    · rename_i hlt
      cases hs
      have hne0 : (s.objs ix).files.length ≠ 0 := by omega
      have hobjs : ∀ p, p ≠ ix → setAt s.objs ix { s.objs ix with claimed := (s.objs ix).claimed + 1 } p = s.objs p :=
        fun p hp => setAt_other _ _ _ _ hp
      have hhlt : h < s.nH := inv.lt_of_pc h hidle
      refine ⟨⟨hcfg, inv.g.diskLt, ?_, inv.g.pubLt, ?_, ?_, ?_, ?_, ?_, ?_, ?_⟩, ?_⟩
      · intro p f hf
        by_cases hp : p = ix
        · subst hp
          have hf' : f ∈ (setAt s.objs p { s.objs p with claimed := (s.objs p).claimed + 1 } p).files := hf
          rw [setAt_same] at hf'
          exact inv.g.filesLt p f hf'
        · have hf' : f ∈ (setAt s.objs ix { s.objs ix with claimed := (s.objs ix).claimed + 1 } p).files := hf
          rw [hobjs p hp] at hf'
          exact inv.g.filesLt p f hf'
      · intro p hp
        have hp' : s.nObjs ≤ p := hp
        show setAt s.objs ix _ p = _
        rw [hobjs p (by omega)]; exact inv.g.beyond p hp'
      · intro p
        show (setAt s.objs ix _ p).claimed ≤ (setAt s.objs ix _ p).files.length
        by_cases hp : p = ix
        · subst hp; rw [setAt_same]; exact hlt
        · rw [hobjs p hp]; exact inv.g.claimedLe p
      · intro p k hk
        have hk' : k < (setAt s.objs ix { s.objs ix with claimed := (s.objs ix).claimed + 1 } p).claimed := hk
        show k ∈ (setAt s.objs ix _ p).done ∨ ∃ h' pr, (setAt s.hs h _ h').pc = Pc.lnLoad p pr k
        have hother : ∀ h' pr, (s.hs h').pc = Pc.lnLoad p pr k →
            ∃ h'' pr', (setAt s.hs h { s.hs h with pc := Pc.lnLoad ix prev (s.objs ix).claimed } h'').pc = Pc.lnLoad p pr' k := by
          intro h' pr hp
          have : h' ≠ h := by intro he; subst he; exact hold p pr k hp
          exact ⟨h', pr, by rw [setAt_other _ _ _ _ this]; exact hp⟩
        by_cases hp : p = ix
        · subst hp
          rw [setAt_same] at hk' ⊢
          have hk'' : k < (s.objs p).claimed + 1 := hk'
          by_cases hkc : k = (s.objs p).claimed
          · right; exact ⟨h, prev, by rw [setAt_same, hkc]⟩
          · rcases inv.g.pos p k (by omega) with hd | ⟨h', pr, hp⟩
            · exact Or.inl hd
            · exact Or.inr (hother h' pr hp)
        · rw [hobjs p hp] at hk' ⊢
          rcases inv.g.pos p k hk' with hd | ⟨h', pr, hp⟩
          · exact Or.inl hd
          · exact Or.inr (hother h' pr hp)
      · intro p k hk f hfk hfd
        have hk' : k ∈ (setAt s.objs ix { s.objs ix with claimed := (s.objs ix).claimed + 1 } p).done := hk
        have hfk' : (setAt s.objs ix { s.objs ix with claimed := (s.objs ix).claimed + 1 } p).files[k]? = some f := hfk
        by_cases hp : p = ix
        · subst hp; rw [setAt_same] at hk' hfk'
          exact inv.g.loadedOk p k hk' f hfk' hfd
        · rw [hobjs p hp] at hk' hfk'
          exact inv.g.loadedOk p k hk' f hfk' hfd
      · intro h' hge
        have hge' : s.nH ≤ h' := hge
        show setAt s.hs h _ h' = _
        rw [setAt_other _ _ _ _ (by omega)]; exact inv.g.freshH h' hge'
      · show setAt s.objs ix _ 0 = _
        by_cases h0 : ix = 0
        · subst h0; rw [inv.g.obj0] at hne0; exact absurd rfl hne0
        · rw [hobjs 0 (fun e => h0 e.symm)]; exact inv.g.obj0
      · intro p hu
        have hu' : (setAt s.objs ix { s.objs ix with claimed := (s.objs ix).claimed + 1 } p).init = false := hu
        show setAt s.objs ix _ p = _
        by_cases hp : p = ix
        · subst hp; rw [setAt_same] at hu'
          have := inv.g.uninit p hu'
          rw [this] at hne0; exact absurd rfl hne0
        · rw [hobjs p hp] at hu' ⊢; exact inv.g.uninit p hu'
      · intro h'
        show HInv _ (setAt s.hs h _ h')
        have hprog : ∀ y, HInv s y → HInv ((s.setObj ix { s.objs ix with claimed := (s.objs ix).claimed + 1 }).setH h
            { s.hs h with pc := Pc.lnLoad ix prev (s.objs ix).claimed }) y := by
          intro y hy
          refine hy.transferObjs (Nat.le_refl _) rfl rfl (Or.inl rfl) rfl ?_ ?_ ?_ ?_ ?_ ?_
          · intro p _
            show (setAt s.objs ix _ p).files = _
            by_cases hp : p = ix
            · subst hp; rw [setAt_same]
            · rw [hobjs p hp]
          · intro p _
            show _ ≤ (setAt s.objs ix _ p).claimed
            by_cases hp : p = ix
            · subst hp; rw [setAt_same]; exact Nat.le_succ _
            · rw [hobjs p hp]; exact Nat.le_refl _
          · intro p _
            show _ ≤ (setAt s.objs ix _ p).loaded
            by_cases hp : p = ix
            · subst hp; rw [setAt_same]; exact Nat.le_refl _
            · rw [hobjs p hp]; exact Nat.le_refl _
          · intro p _ _
            show (setAt s.objs ix _ p).done = _
            by_cases hp : p = ix
            · subst hp; rw [setAt_same]
            · rw [hobjs p hp]
          · intro p _ hc
            show (setAt s.objs ix _ p).claimed = _
            by_cases hp : p = ix
            · subst hp; omega
            · rw [hobjs p hp]
          · intro p _ he h'' pr k
            show (setAt s.hs h _ h'').pc ≠ _
            by_cases hh : h'' = h
            · subst hh; rw [setAt_same]
              intro hp; cases hp
              have := he.1; omega
            · rw [setAt_other _ _ _ _ hh]; exact he.2 h'' pr k
        by_cases hh : h' = h
        · subst hh; rw [setAt_same]
          have hy := hprog _ hx
          refine ⟨?_, hy.mLt, hy.snapLt, ?_, ?_, hy.mLe, ?_, ?_, ?_, ?_, ?_, ?_, ?_, ?_, hy.aliveOk, ?_⟩
          · intro ix' hp; cases hp; exact hixlt
          · intro _ _ _ hp; cases hp
          · intro ix' p k hp; cases hp
            show (s.objs ix).claimed < (setAt s.objs ix _ ix).claimed
            rw [setAt_same]; exact Nat.lt_succ_self _
          · intro ix' p hp; cases hp
            exact hy.prevLe ix prev (by rw [hpc]; rfl)
          · intro _ hm; exact hy.snapOk o4 hm
          · intro ix' hp; cases hp
          · intro _; exact hy.scanFail (by rw [hpc]; rfl)
          · intro _ _ hp; cases hp
          · intro _ _ hp; cases hp
          · intro _ hp; cases hp
          · intro _ hp; cases hp
          · intro hp; cases hp
        · rw [setAt_other _ _ _ _ hh]; exact hprog _ (inv.h h')
    · rename_i hnlt
      cases hs
      refine inv.move h (Pc.lnWait ix prev) hold hidle (fun _ _ _ hp => by cases hp) ?_
        (fun _ _ _ hp => by cases hp) ?_ o4 (fun _ hp => by cases hp)
        (fun _ => o6) ?_ (fun _ _ hp => by cases hp) (fun _ hp => by cases hp)
        (fun _ hp => by cases hp) (fun hp => by cases hp)
      · intro ix' hp; cases hp; exact hixlt
      · intro ix' p hp; cases hp; exact hx.prevLe ix prev (by rw [hpc]; rfl)
      · intro ix' p hp; cases hp
        have := inv.g.claimedLe ix; omega
  · cases hs


theorem step_inv_load {s s' : S} {h : Nat} (inv : Inv s) (hs : step s (Ev.load h) = some s') : Inv s' := by
  have hcfg := inv.g.cfg
  simp only [step] at hs
  split at hs
  · rename_i ix prev k hpc
    have hx := inv.h h
    have hidle : (s.hs h).pc ≠ Pc.idle := by rw [hpc]; intro hp; cases hp
    have o4 : ∀ ix, (s.hs h).pc ≠ Pc.collRead ix := fun ix hp => by rw [hpc] at hp; cases hp
    have hixlt : ix < s.nObjs := hx.ixLt ix (by rw [hpc]; rfl)
    have hkc : k < (s.objs ix).claimed := hx.loadK ix prev k hpc
    have hhlt : h < s.nH := inv.lt_of_pc h hidle
    cases hs
    generalize hlf : (if ((s.loadedFiles.contains ((s.objs ix).files.getD k 0) || s.disk.contains ((s.objs ix).files.getD k 0)) &&
          !s.loadedFiles.contains ((s.objs ix).files.getD k 0)) = true then (s.objs ix).files.getD k 0 :: s.loadedFiles
        else s.loadedFiles) = lf
    generalize hpc' : (if (s.loadedFiles.contains ((s.objs ix).files.getD k 0) || s.disk.contains ((s.objs ix).files.getD k 0)) = true
        then Pc.lnEnd ix prev else Pc.lnInner ix prev) = pc'
    have hpcc : pc' = Pc.lnEnd ix prev ∨ pc' = Pc.lnInner ix prev := by
      rw [← hpc']; split
      · exact Or.inl rfl
      · exact Or.inr rfl
    have hnl : ∀ p pr k, pc' ≠ Pc.lnLoad p pr k := by
      intro p pr k' hp; rcases hpcc with h' | h' <;> rw [h'] at hp <;> cases hp
    have hsub : ∀ f, f ∈ s.loadedFiles → f ∈ lf := by
      intro f hf; rw [← hlf]; split
      · exact List.mem_cons_of_mem _ hf
      · exact hf
    have hnewf : ∀ f, (s.objs ix).files[k]? = some f → f ∈ s.disk → f ∈ lf := by
      intro f hfk hfd
      have hg : (s.objs ix).files.getD k 0 = f := by simp [List.getD, hfk]
      rw [← hlf, hg]
      have hd : s.disk.contains f = true := by simpa using hfd
      by_cases hal : s.loadedFiles.contains f = true
      · have hm : f ∈ s.loadedFiles := by simpa using hal
        split
        · exact List.mem_cons_of_mem _ hm
        · exact hm
      · have hal' : s.loadedFiles.contains f = false := by simpa using hal
        rw [hal', hd]; simp
    have hobjs : ∀ (n : IdxObj) p, p ≠ ix → setAt s.objs ix n p = s.objs p :=
      fun n p hp => setAt_other _ _ _ _ hp
    have hne0 : (s.objs ix).claimed ≠ 0 := by omega
    refine ⟨⟨hcfg, inv.g.diskLt, ?_, inv.g.pubLt, ?_, ?_, ?_, ?_, ?_, ?_, ?_⟩, ?_⟩
    · intro p f hf
      have hf' : f ∈ (setAt s.objs ix { s.objs ix with loaded := (s.objs ix).loaded + 1, done := k :: (s.objs ix).done } p).files := hf
      by_cases hp : p = ix
      · subst hp; rw [setAt_same] at hf'; exact inv.g.filesLt p f hf'
      · rw [hobjs _ p hp] at hf'; exact inv.g.filesLt p f hf'
    · intro p hp
      have hp' : s.nObjs ≤ p := hp
      show setAt s.objs ix _ p = _
      rw [hobjs _ p (by omega)]; exact inv.g.beyond p hp'
    · intro p
      show (setAt s.objs ix _ p).claimed ≤ (setAt s.objs ix _ p).files.length
      by_cases hp : p = ix
      · subst hp; rw [setAt_same]; exact inv.g.claimedLe p
      · rw [hobjs _ p hp]; exact inv.g.claimedLe p
    · intro p k' hk
      have hk' : k' < (setAt s.objs ix { s.objs ix with loaded := (s.objs ix).loaded + 1, done := k :: (s.objs ix).done } p).claimed := hk
      show k' ∈ (setAt s.objs ix _ p).done ∨ ∃ h' pr, (setAt s.hs h _ h').pc = Pc.lnLoad p pr k'
      by_cases hp : p = ix
      · subst hp
        rw [setAt_same] at hk' ⊢
        rcases inv.g.pos p k' hk' with hd | ⟨h', pr, hp⟩
        · exact Or.inl (List.mem_cons_of_mem _ hd)
        · by_cases hh : h' = h
          · subst hh; rw [hpc] at hp; cases hp; exact Or.inl List.mem_cons_self
          · exact Or.inr ⟨h', pr, by rw [setAt_other _ _ _ _ hh]; exact hp⟩
      · rw [hobjs _ p hp] at hk' ⊢
        rcases inv.g.pos p k' hk' with hd | ⟨h', pr, hp'⟩
        · exact Or.inl hd
        · by_cases hh : h' = h
          · subst hh; rw [hpc] at hp'; cases hp'; exact absurd rfl hp
          · exact Or.inr ⟨h', pr, by rw [setAt_other _ _ _ _ hh]; exact hp'⟩
    · intro p k' hk f hfk hfd
      have hk' : k' ∈ (setAt s.objs ix { s.objs ix with loaded := (s.objs ix).loaded + 1, done := k :: (s.objs ix).done } p).done := hk
      have hfk' : (setAt s.objs ix { s.objs ix with loaded := (s.objs ix).loaded + 1, done := k :: (s.objs ix).done } p).files[k']? = some f := hfk
      show f ∈ lf
      by_cases hp : p = ix
      · subst hp; rw [setAt_same] at hk' hfk'
        rcases List.mem_cons.mp hk' with he | hd
        · subst he; exact hnewf f hfk' hfd
        · exact hsub f (inv.g.loadedOk p k' hd f hfk' hfd)
      · rw [hobjs _ p hp] at hk' hfk'
        exact hsub f (inv.g.loadedOk p k' hk' f hfk' hfd)
    · intro h' hge
      have hge' : s.nH ≤ h' := hge
      show setAt s.hs h _ h' = _
      rw [setAt_other _ _ _ _ (by omega)]; exact inv.g.freshH h' hge'
    · show setAt s.objs ix _ 0 = _
      by_cases h0 : ix = 0
      · subst h0; rw [inv.g.obj0] at hne0; exact absurd rfl hne0
      · rw [hobjs _ 0 (fun e => h0 e.symm)]; exact inv.g.obj0
    · intro p hu
      have hu' : (setAt s.objs ix { s.objs ix with loaded := (s.objs ix).loaded + 1, done := k :: (s.objs ix).done } p).init = false := hu
      show setAt s.objs ix _ p = _
      by_cases hp : p = ix
      · subst hp; rw [setAt_same] at hu'
        have := inv.g.uninit p hu'
        rw [this] at hne0; exact absurd rfl hne0
      · rw [hobjs _ p hp] at hu' ⊢; exact inv.g.uninit p hu'
    · have hprog : ∀ y, HInv s y → HInv (stLoad s ix k lf) y := by
        intro y hy
        refine hy.transferObjs (Nat.le_refl _) rfl rfl (Or.inl rfl) rfl ?_ ?_ ?_ ?_ ?_ ?_
        · intro p _
          show (setAt s.objs ix _ p).files = _
          by_cases hp : p = ix
          · subst hp; rw [setAt_same]; rfl
          · rw [hobjs _ p hp]
        · intro p _
          show _ ≤ (setAt s.objs ix _ p).claimed
          by_cases hp : p = ix
          · subst hp; rw [setAt_same]; exact Nat.le_refl _
          · rw [hobjs _ p hp]; exact Nat.le_refl _
        · intro p _
          show _ ≤ (setAt s.objs ix _ p).loaded
          by_cases hp : p = ix
          · subst hp; rw [setAt_same]; exact Nat.le_succ _
          · rw [hobjs _ p hp]; exact Nat.le_refl _
        · intro p _
          show (setAt s.objs ix _ p).loaded = _ → (setAt s.objs ix _ p).done = _
          by_cases hp : p = ix
          · subst hp; rw [setAt_same]; intro hc
            have hc' : (s.objs p).loaded + 1 = (s.objs p).loaded := hc
            omega
          · rw [hobjs _ p hp]; intro _; rfl
        · intro p _ _
          show (setAt s.objs ix _ p).claimed = _
          by_cases hp : p = ix
          · subst hp; rw [setAt_same]; rfl
          · rw [hobjs _ p hp]
        · intro p _ he; exact he.2
      apply hinv_all_via (s := s) (s1 := stLoad s ix k lf) rfl (fun h' => hprog _ (inv.h h')) hnl
      have hy := hprog _ hx
      refine hy.withPc pc' hnl ?_ ?_ ?_ o4 ?_ ?_ ?_ ?_ ?_ ?_ ?_
      · intro ix' hp; rcases hpcc with h' | h' <;> rw [h'] at hp <;> cases hp <;> exact hixlt
      · intro ix' p k' hp; rcases hpcc with h' | h' <;> rw [h'] at hp <;> cases hp
      · intro ix' p hp
        have := hy.prevLe ix prev (by rw [hpc]; rfl)
        rcases hpcc with h' | h' <;> rw [h'] at hp <;> cases hp <;> exact this
      · intro ix' hp; rcases hpcc with h' | h' <;> rw [h'] at hp <;> cases hp
      · intro _; exact hy.scanFail (by rw [hpc]; rfl)
      · intro ix' p hp; rcases hpcc with h' | h' <;> rw [h'] at hp <;> cases hp
      · intro ix' p hp he
        exfalso
        have hle := hx.prevLe ix prev (by rw [hpc]; rfl)
        rcases hpcc with h' | h' <;> rw [h'] at hp <;> cases hp
        have he' : prev = (setAt s.objs ix { s.objs ix with loaded := (s.objs ix).loaded + 1, done := k :: (s.objs ix).done } ix).loaded := he
        rw [setAt_same] at he'
        have he'' : prev = (s.objs ix).loaded + 1 := he'
        omega
      · intro ix' hp; rcases hpcc with h' | h' <;> rw [h'] at hp <;> cases hp
      · intro ix' hp; rcases hpcc with h' | h' <;> rw [h'] at hp <;> cases hp
      · intro hp; rcases hpcc with h' | h' <;> rw [h'] at hp <;> cases hp
  · cases hs

theorem step_inv_cons {s s' : S} {h : Nat} (inv : Inv s) (hs : step s (Ev.cons h) = some s') : Inv s' := by
  have hcfg := inv.g.cfg
  have hr : s.cfg.recheckMarker = true := by rw [hcfg]; rfl
  simp only [step] at hs
  split at hs
  · rename_i ix hpc
    have hx := inv.h h
    have hold : ∀ p pr k, (s.hs h).pc ≠ Pc.lnLoad p pr k := fun p pr k hp => by rw [hpc] at hp; cases hp
    have hidle : (s.hs h).pc ≠ Pc.idle := by rw [hpc]; intro hp; cases hp
    have o4 : ∀ ix, (s.hs h).pc ≠ Pc.collRead ix := fun ix hp => by rw [hpc] at hp; cases hp
    have hixlt : ix < s.nObjs := hx.ixLt ix (by rw [hpc]; rfl)
    have hhlt : h < s.nH := inv.lt_of_pc h hidle
    split at hs
    · cases hs
      exact inv.move h Pc.collLoad hold hidle (fun _ _ _ hp => by cases hp) (fun _ hp => by cases hp)
        (fun _ _ _ hp => by cases hp) (fun _ _ hp => by cases hp) o4 (fun _ hp => by cases hp)
        (fun hp => by cases hp) (fun _ _ hp => by cases hp) (fun _ _ hp => by cases hp) (fun _ hp => by cases hp)
        (fun _ hp => by cases hp) (fun hp => by cases hp)
    · rename_i hpub
      have hpub' : s.pub = ix := by simpa using hpub
      split at hs
      · rename_i hsame
        try simp only [hr, if_true] at hs
        cases hs
        have hsame' : (s.objs ix).init = true ∧ (s.objs ix).files = s.disk := by simpa using hsame
        refine inv.move h (Pc.recheck ix) hold hidle (fun _ _ _ hp => by cases hp) ?_
          (fun _ _ _ hp => by cases hp) (fun _ _ hp => by cases hp) o4 (fun _ hp => by cases hp)
          (fun _ => hx.scanFail (by rw [hpc]; rfl)) (fun _ _ hp => by cases hp) (fun _ _ hp => by cases hp) (fun _ hp => by cases hp)
          ?_ (fun hp => by cases hp)
        · intro ix' hp; cases hp; exact hixlt
        · intro ix' hp; cases hp
          refine ⟨hx.consExh ix hpc, ?_, Or.inl hpub'⟩
          intro f hf
          rw [hsame'.2]; exact (hx.aliveOk f hf).1
      · cases hs
        generalize hkept : (s.loadedFiles.filter fun f => s.disk.contains f) = kept
        have hn0 : s.nObjs ≠ 0 := by have := inv.g.pubLt; omega
        have hobjs : ∀ (n : IdxObj) p, p ≠ s.nObjs → setAt s.objs s.nObjs n p = s.objs p :=
          fun n p hp => setAt_other _ _ _ _ hp
        refine ⟨⟨hcfg, inv.g.diskLt, ?_, ?_, ?_, ?_, ?_, ?_, ?_, ?_, ?_⟩, ?_⟩
        · intro p f hf
          have hf' : f ∈ (setAt s.objs s.nObjs (objNew s.disk kept) p).files := hf
          by_cases hp : p = s.nObjs
          · subst hp; rw [setAt_same] at hf'; exact inv.g.diskLt f hf'
          · rw [hobjs _ p hp] at hf'; exact inv.g.filesLt p f hf'
        · show s.nObjs < s.nObjs + 1; exact Nat.lt_succ_self _
        · intro p hp
          have hp' : s.nObjs + 1 ≤ p := hp
          show setAt s.objs s.nObjs _ p = _
          rw [hobjs _ p (by omega)]; exact inv.g.beyond p (by omega)
        · intro p
          show (setAt s.objs s.nObjs _ p).claimed ≤ (setAt s.objs s.nObjs _ p).files.length
          by_cases hp : p = s.nObjs
          · subst hp; rw [setAt_same]; exact Nat.zero_le _
          · rw [hobjs _ p hp]; exact inv.g.claimedLe p
        · intro p k hk
          have hk' : k < (setAt s.objs s.nObjs (objNew s.disk kept) p).claimed := hk
          show k ∈ (setAt s.objs s.nObjs _ p).done ∨ ∃ h' pr, (setAt s.hs h _ h').pc = Pc.lnLoad p pr k
          by_cases hp : p = s.nObjs
          · subst hp; rw [setAt_same] at hk'; exact absurd hk' (Nat.not_lt_zero _)
          · rw [hobjs _ p hp] at hk' ⊢
            rcases inv.g.pos p k hk' with hd | ⟨h', pr, hp'⟩
            · exact Or.inl hd
            · have : h' ≠ h := by intro he; subst he; exact hold p pr k hp'
              exact Or.inr ⟨h', pr, by rw [setAt_other _ _ _ _ this]; exact hp'⟩
        · intro p k hk f hfk hfd
          have hk' : k ∈ (setAt s.objs s.nObjs (objNew s.disk kept) p).done := hk
          have hfk' : (setAt s.objs s.nObjs (objNew s.disk kept) p).files[k]? = some f := hfk
          show f ∈ kept
          by_cases hp : p = s.nObjs
          · subst hp; rw [setAt_same] at hk'; cases hk'
          · rw [hobjs _ p hp] at hk' hfk'
            rw [← hkept]
            have hfd' : f ∈ s.disk := hfd
            exact List.mem_filter.mpr ⟨inv.g.loadedOk p k hk' f hfk' hfd', by simpa using hfd'⟩
        · intro h' hge
          have hge' : s.nH ≤ h' := hge
          show setAt s.hs h _ h' = _
          rw [setAt_other _ _ _ _ (by omega)]; exact inv.g.freshH h' hge'
        · show setAt s.objs s.nObjs _ 0 = _
          rw [hobjs _ 0 (fun e => hn0 e.symm)]; exact inv.g.obj0
        · intro p hu
          have hu' : (setAt s.objs s.nObjs (objNew s.disk kept) p).init = false := hu
          show setAt s.objs s.nObjs _ p = _
          by_cases hp : p = s.nObjs
          · subst hp; rw [setAt_same] at hu'; cases hu'
          · rw [hobjs _ p hp] at hu' ⊢; exact inv.g.uninit p hu'
        · have hprog : ∀ y, HInv s y → HInv (stCons s kept) y := by
            intro y hy
            refine hy.transferObjs (Nat.le_succ _) rfl rfl (Or.inr (Nat.le_refl _)) rfl ?_ ?_ ?_ ?_ ?_ ?_
            · intro p hp
              show (setAt s.objs s.nObjs _ p).files = _
              rw [hobjs _ p (by omega)]
            · intro p hp
              show _ ≤ (setAt s.objs s.nObjs _ p).claimed
              rw [hobjs _ p (by omega)]; exact Nat.le_refl _
            · intro p hp
              show _ ≤ (setAt s.objs s.nObjs _ p).loaded
              rw [hobjs _ p (by omega)]; exact Nat.le_refl _
            · intro p hp _
              show (setAt s.objs s.nObjs _ p).done = _
              rw [hobjs _ p (by omega)]
            · intro p hp _
              show (setAt s.objs s.nObjs _ p).claimed = _
              rw [hobjs _ p (by omega)]
            · intro p _ he; exact he.2
          have hnl : ∀ p pr k, ({ s.hs h with pc := Pc.collLoad } : H).pc ≠ Pc.lnLoad p pr k := fun _ _ _ hp => by cases hp
          apply hinv_all_via (s := s) (s1 := stCons s kept) rfl (fun h' => hprog _ (inv.h h')) hnl
          exact (hprog _ hx).withPc Pc.collLoad (fun _ _ _ hp => by cases hp) (fun _ hp => by cases hp)
            (fun _ _ _ hp => by cases hp) (fun _ _ hp => by cases hp) o4 (fun _ hp => by cases hp)
            (fun hp => by cases hp) (fun _ _ hp => by cases hp) (fun _ _ hp => by cases hp) (fun _ hp => by cases hp)
            (fun _ hp => by cases hp) (fun hp => by cases hp)
  · cases hs

theorem step_inv {s s' : S} {ev : Ev} (inv : Inv s) (hs : step s ev = some s') : Inv s' := by
  have hcfg := inv.g.cfg
  cases ev with
  | envAdd objs =>
    simp only [step] at hs; cases hs
    have hholds : ∀ f o, f < s.nextFile →
        holds { s with disk := s.disk ++ [s.nextFile], fileObjs := setAt s.fileObjs s.nextFile objs, nextFile := s.nextFile + 1 } f o
          = holds s f o := by
      intro f o hf
      simp only [holds]
      rw [setAt_other _ _ _ _ (by omega)]
    refine ⟨⟨hcfg, ?_, ?_, inv.g.pubLt, inv.g.beyond, inv.g.claimedLe, inv.g.pos, ?_, inv.g.freshH, inv.g.obj0, inv.g.uninit⟩, ?_⟩
    · intro f hf
      rcases List.mem_append.mp hf with h | h
      · have := inv.g.diskLt f h; show f < s.nextFile + 1; omega
      · simp at h; show f < s.nextFile + 1; omega
    · intro p f hf; have := inv.g.filesLt p f hf; show f < s.nextFile + 1; omega
    · intro p k hk f hfk hfd
      have hlt := inv.g.filesLt p f (List.mem_of_getElem? hfk)
      rcases List.mem_append.mp hfd with h | h
      · exact inv.g.loadedOk p k hk f hfk h
      · simp at h; omega
    · intro h
      have hx := inv.h h
      refine ⟨hx.ixLt, hx.mLt, ?_, hx.noLate, hx.loadK, hx.mLe, hx.prevLe, ?_, hx.readPtr, ?_, hx.waitAll, ?_, ?_, ?_, ?_, hx.nf⟩
      · intro f hf; have := hx.snapLt f hf; show f < s.nextFile + 1; omega
      · intro hnc hm k hk f hfk hfd
        have hlt := inv.g.filesLt _ f (List.mem_of_getElem? hfk)
        rcases List.mem_append.mp hfd with h' | h'
        · exact hx.snapOk hnc hm k hk f hfk h'
        · simp at h'; omega
      · intro hp f hf; rw [hholds f _ (hx.snapLt f hf)]; exact hx.scanFail hp f hf
      · intro ix p hp he; exact hx.endExh ix p hp he
      · intro ix hp; exact hx.consExh ix hp
      · intro ix hp; exact hx.reExh ix hp
      · intro f hf
        obtain ⟨a, b⟩ := hx.aliveOk f hf
        exact ⟨List.mem_append_left _ a, by rw [hholds f _ (inv.g.diskLt f a)]; exact b⟩
  | envRemove f0 =>
    simp only [step] at hs
    split at hs
    · cases hs
      have hsub : ∀ f, f ∈ s.disk.filter (· != f0) → f ∈ s.disk := fun f hf => (List.mem_filter.mp hf).1
      refine ⟨⟨hcfg, fun f hf => inv.g.diskLt f (hsub f hf), inv.g.filesLt, inv.g.pubLt, inv.g.beyond, inv.g.claimedLe, ?_,
        fun p k hk f hfk hfd => inv.g.loadedOk p k hk f hfk (hsub f hfd), ?_, inv.g.obj0, inv.g.uninit⟩, ?_⟩
      · intro p k hk
        rcases inv.g.pos p k hk with hd | ⟨h', pr, hp⟩
        · exact Or.inl hd
        · exact Or.inr ⟨h', pr, hp⟩
      · intro h hge
        show ({ s.hs h with alive := _ } : H) = H.fresh
        rw [inv.g.freshH h hge]; rfl
      · intro h
        have hx := inv.h h
        refine ⟨hx.ixLt, hx.mLt, hx.snapLt, hx.noLate, hx.loadK, hx.mLe, hx.prevLe, ?_, hx.readPtr, hx.scanFail, hx.waitAll, ?_, ?_, ?_, ?_, ?_⟩
        · intro hnc hm k hk f hfk hfd; exact hx.snapOk hnc hm k hk f hfk (hsub f hfd)
        · intro ix p hp he
          have a := hx.endExh ix p hp he
          exact ⟨a.1, fun h' pr k hp' => a.2 h' pr k hp'⟩
        · intro ix hp
          have a := hx.consExh ix hp
          exact ⟨a.1, fun h' pr k hp' => a.2 h' pr k hp'⟩
        · intro ix hp
          obtain ⟨a, b, c⟩ := hx.reExh ix hp
          exact ⟨⟨a.1, fun h' pr k hp' => a.2 h' pr k hp'⟩, fun f hf => b f (List.mem_filter.mp hf).1, c⟩
        · intro f hf
          obtain ⟨hf1, hf2⟩ := List.mem_filter.mp hf
          obtain ⟨a, b⟩ := hx.aliveOk f hf1
          exact ⟨List.mem_filter.mpr ⟨a, hf2⟩, b⟩
        · intro hp
          show (s.hs h).alive.filter (· != f0) = []
          rw [hx.nf hp]; rfl
    · cases hs
  | newHandle =>
    simp only [step] at hs; cases hs
    refine ⟨⟨hcfg, inv.g.diskLt, inv.g.filesLt, inv.g.pubLt, inv.g.beyond, inv.g.claimedLe, inv.g.pos, inv.g.loadedOk,
      fun h hge => inv.g.freshH h (by have : s.nH + 1 ≤ h := hge; omega), inv.g.obj0, inv.g.uninit⟩, ?_⟩
    intro h
    exact (inv.h h).transfer rfl rfl rfl rfl rfl rfl (fun ix hn => hn)
  | start h o =>
    simp only [step] at hs
    split at hs
    · rename_i hc
      cases hs
      have hx := inv.h h
      have hpc : ∀ p pr k, (s.hs h).pc ≠ Pc.lnLoad p pr k := by
        intro p pr k hp; rcases hc.2 with h' | h' | h' <;> rw [h'] at hp <;> cases hp
      have hncr : ∀ ix, (s.hs h).pc ≠ Pc.collRead ix := by
        intro ix hp; rcases hc.2 with h' | h' | h' <;> rw [h'] at hp <;> cases hp
      apply inv.handleOnly h _ hc.1 hpc (fun p pr k hp => by cases hp)
      have hnl : ∀ p pr k, Pc.scan ≠ Pc.lnLoad p pr k := fun p pr k hp => by cases hp
      refine ⟨?_, hx.mLt, hx.snapLt, ?_, ?_, hx.mLe, ?_, ?_, ?_, ?_, ?_, ?_, ?_, ?_, ?_, ?_⟩
      · intro ix hp; cases hp
      · intro ix p k hp; cases hp
      · intro ix p k hp; cases hp
      · intro ix p hp; cases hp
      · intro _ hm; exact hx.snapOk hncr hm
      · intro ix hp; cases hp
      · intro hp; cases hp
      · intro ix p hp; cases hp
      · intro ix p hp; cases hp
      · intro ix hp; cases hp
      · intro ix hp; cases hp
      · intro f hf
        obtain ⟨a, b⟩ := List.mem_filter.mp hf
        exact ⟨a, b⟩
      · intro hp; cases hp
    · cases hs
  | scan h =>
    simp only [step] at hs
    split at hs
    · rename_i hpc
      have hold : ∀ p pr k, (s.hs h).pc ≠ Pc.lnLoad p pr k := fun p pr k hp => by rw [hpc] at hp; cases hp
      have hidle : (s.hs h).pc ≠ Pc.idle := by rw [hpc]; intro hp; cases hp
      have o4 : ∀ ix, (s.hs h).pc ≠ Pc.collRead ix := fun ix hp => by rw [hpc] at hp; cases hp
      split at hs
      · cases hs
        exact inv.move h Pc.found hold hidle (fun _ _ _ hp => by cases hp) (fun _ hp => by cases hp)
          (fun _ _ _ hp => by cases hp) (fun _ _ hp => by cases hp) o4 (fun _ hp => by cases hp)
          (fun hp => by cases hp) (fun _ _ hp => by cases hp) (fun _ _ hp => by cases hp) (fun _ hp => by cases hp)
          (fun _ hp => by cases hp) (fun hp => by cases hp)
      · rename_i hany
        cases hs
        refine inv.move h Pc.loi hold hidle (fun _ _ _ hp => by cases hp) (fun _ hp => by cases hp)
          (fun _ _ _ hp => by cases hp) (fun _ _ hp => by cases hp) o4 (fun _ hp => by cases hp)
          ?_ (fun _ _ hp => by cases hp) (fun _ _ hp => by cases hp) (fun _ hp => by cases hp)
          (fun _ hp => by cases hp) (fun hp => by cases hp)
        intro _ f hf
        cases hh : holds s f (s.hs h).obj with
        | false => rfl
        | true => exact absurd (List.any_eq_true.mpr ⟨f, hf, hh⟩) hany
    · cases hs
  | loi h =>
    simp only [step] at hs
    split at hs
    · rename_i hpc
      have hx := inv.h h
      have hold : ∀ p pr k, (s.hs h).pc ≠ Pc.lnLoad p pr k := fun p pr k hp => by rw [hpc] at hp; cases hp
      have hidle : (s.hs h).pc ≠ Pc.idle := by rw [hpc]; intro hp; cases hp
      have o4 : ∀ ix, (s.hs h).pc ≠ Pc.collRead ix := fun ix hp => by rw [hpc] at hp; cases hp
      have o6 : ∀ f ∈ (s.hs h).snap, holds s f (s.hs h).obj = false := hx.scanFail (by rw [hpc]; rfl)
      split at hs
      · rename_i hinit
        cases hs
        refine inv.move h (Pc.cons s.pub) hold hidle (fun _ _ _ hp => by cases hp) ?_
          (fun _ _ _ hp => by cases hp) (fun _ _ hp => by cases hp) o4 (fun _ hp => by cases hp)
          (fun _ => o6) (fun _ _ hp => by cases hp) (fun _ _ hp => by cases hp) ?_
          (fun _ hp => by cases hp) (fun hp => by cases hp)
        · intro ix hp; cases hp; exact inv.g.pubLt
        · intro ix hp; cases hp
          exact uninit_exh inv s.pub (by simpa using hinit)
      · split at hs
        · cases hs
          exact inv.move h Pc.collLoad hold hidle (fun _ _ _ hp => by cases hp) (fun _ hp => by cases hp)
            (fun _ _ _ hp => by cases hp) (fun _ _ hp => by cases hp) o4 (fun _ hp => by cases hp)
            (fun hp => by cases hp) (fun _ _ hp => by cases hp) (fun _ _ hp => by cases hp) (fun _ hp => by cases hp)
            (fun _ hp => by cases hp) (fun hp => by cases hp)
        · cases hs
          refine inv.move h (Pc.lnStart s.pub) hold hidle (fun _ _ _ hp => by cases hp) ?_
            (fun _ _ _ hp => by cases hp) (fun _ _ hp => by cases hp) o4 (fun _ hp => by cases hp)
            (fun _ => o6) (fun _ _ hp => by cases hp) (fun _ _ hp => by cases hp) (fun _ hp => by cases hp)
            (fun _ hp => by cases hp) (fun hp => by cases hp)
          intro ix hp; cases hp; exact inv.g.pubLt
    · cases hs
  | lnStart h =>
    simp only [step] at hs
    split at hs
    · rename_i ix hpc
      cases hs
      have hx := inv.h h
      have hold : ∀ p pr k, (s.hs h).pc ≠ Pc.lnLoad p pr k := fun p pr k hp => by rw [hpc] at hp; cases hp
      have hidle : (s.hs h).pc ≠ Pc.idle := by rw [hpc]; intro hp; cases hp
      have o4 : ∀ ix, (s.hs h).pc ≠ Pc.collRead ix := fun ix hp => by rw [hpc] at hp; cases hp
      have o6 : ∀ f ∈ (s.hs h).snap, holds s f (s.hs h).obj = false := hx.scanFail (by rw [hpc]; rfl)
      refine inv.move h (Pc.lnInner ix (s.objs ix).loaded) hold hidle (fun _ _ _ hp => by cases hp) ?_
        (fun _ _ _ hp => by cases hp) ?_ o4 (fun _ hp => by cases hp)
        (fun _ => o6) (fun _ _ hp => by cases hp) (fun _ _ hp => by cases hp) (fun _ hp => by cases hp)
        (fun _ hp => by cases hp) (fun hp => by cases hp)
      · intro ix' hp; cases hp; exact hx.ixLt ix (by rw [hpc]; rfl)
      · intro ix' p hp; cases hp; exact Nat.le_refl _
    · cases hs
  | announce h =>
    simp only [step] at hs
    split at hs
    · rename_i ix prev hpc
      cases hs
      have hx := inv.h h
      have hold : ∀ p pr k, (s.hs h).pc ≠ Pc.lnLoad p pr k := fun p pr k hp => by rw [hpc] at hp; cases hp
      have hidle : (s.hs h).pc ≠ Pc.idle := by rw [hpc]; intro hp; cases hp
      have o4 : ∀ ix, (s.hs h).pc ≠ Pc.collRead ix := fun ix hp => by rw [hpc] at hp; cases hp
      have o6 : ∀ f ∈ (s.hs h).snap, holds s f (s.hs h).obj = false := hx.scanFail (by rw [hpc]; rfl)
      refine inv.move h (Pc.lnClaim ix prev) hold hidle (fun _ _ _ hp => by cases hp) ?_
        (fun _ _ _ hp => by cases hp) ?_ o4 (fun _ hp => by cases hp)
        (fun _ => o6) (fun _ _ hp => by cases hp) (fun _ _ hp => by cases hp) (fun _ hp => by cases hp)
        (fun _ hp => by cases hp) (fun hp => by cases hp)
      · intro ix' hp; cases hp; exact hx.ixLt ix (by rw [hpc]; rfl)
      · intro ix' p hp; cases hp; exact hx.prevLe ix prev (by rw [hpc]; rfl)
    · rename_i ix prev k hpc
      exact absurd hpc ((inv.h h).noLate ix prev k)
    · cases hs
  | wait h =>
    simp only [step] at hs
    split at hs
    · rename_i ix prev hpc
      split at hs
      · rename_i hq
        cases hs
        have hx := inv.h h
        have hold : ∀ p pr k, (s.hs h).pc ≠ Pc.lnLoad p pr k := fun p pr k hp => by rw [hpc] at hp; cases hp
        have hidle : (s.hs h).pc ≠ Pc.idle := by rw [hpc]; intro hp; cases hp
        have o4 : ∀ ix, (s.hs h).pc ≠ Pc.collRead ix := fun ix hp => by rw [hpc] at hp; cases hp
        have o6 : ∀ f ∈ (s.hs h).snap, holds s f (s.hs h).obj = false := hx.scanFail (by rw [hpc]; rfl)
        refine inv.move h (Pc.lnEnd ix prev) hold hidle (fun _ _ _ hp => by cases hp) ?_
          (fun _ _ _ hp => by cases hp) ?_ o4 (fun _ hp => by cases hp)
          (fun _ => o6) (fun _ _ hp => by cases hp) ?_ (fun _ hp => by cases hp)
          (fun _ hp => by cases hp) (fun hp => by cases hp)
        · intro ix' hp; cases hp; exact hx.ixLt ix (by rw [hpc]; rfl)
        · intro ix' p hp; cases hp; exact hx.prevLe ix prev (by rw [hpc]; rfl)
        · intro ix' p hp _; cases hp
          exact ⟨hx.waitAll ix prev hpc, quiet_noLoad inv ix hq⟩
      · cases hs
    · cases hs
  | lnEnd h =>
    simp only [step] at hs
    split at hs
    · rename_i ix prev hpc
      have hx := inv.h h
      have hold : ∀ p pr k, (s.hs h).pc ≠ Pc.lnLoad p pr k := fun p pr k hp => by rw [hpc] at hp; cases hp
      have hidle : (s.hs h).pc ≠ Pc.idle := by rw [hpc]; intro hp; cases hp
      have o4 : ∀ ix, (s.hs h).pc ≠ Pc.collRead ix := fun ix hp => by rw [hpc] at hp; cases hp
      have o6 : ∀ f ∈ (s.hs h).snap, holds s f (s.hs h).obj = false := hx.scanFail (by rw [hpc]; rfl)
      split at hs
      · cases hs
        exact inv.move h Pc.collLoad hold hidle (fun _ _ _ hp => by cases hp) (fun _ hp => by cases hp)
          (fun _ _ _ hp => by cases hp) (fun _ _ hp => by cases hp) o4 (fun _ hp => by cases hp)
          (fun hp => by cases hp) (fun _ _ hp => by cases hp) (fun _ _ hp => by cases hp) (fun _ hp => by cases hp)
          (fun _ hp => by cases hp) (fun hp => by cases hp)
      · rename_i hprev
        split at hs
        · cases hs
          refine inv.move h (Pc.lnStart s.pub) hold hidle (fun _ _ _ hp => by cases hp) ?_
            (fun _ _ _ hp => by cases hp) (fun _ _ hp => by cases hp) o4 (fun _ hp => by cases hp)
            (fun _ => o6) (fun _ _ hp => by cases hp) (fun _ _ hp => by cases hp) (fun _ hp => by cases hp)
            (fun _ hp => by cases hp) (fun hp => by cases hp)
          intro ix' hp; cases hp; exact inv.g.pubLt
        · cases hs
          refine inv.move h (Pc.cons ix) hold hidle (fun _ _ _ hp => by cases hp) ?_
            (fun _ _ _ hp => by cases hp) (fun _ _ hp => by cases hp) o4 (fun _ hp => by cases hp)
            (fun _ => o6) (fun _ _ hp => by cases hp) (fun _ _ hp => by cases hp) ?_
            (fun _ hp => by cases hp) (fun hp => by cases hp)
          · intro ix' hp; cases hp; exact hx.ixLt ix (by rw [hpc]; rfl)
          · intro ix' hp; cases hp
            exact hx.endExh ix prev hpc (by simpa using hprev)
    · cases hs
  | recheck h =>
    simp only [step] at hs
    split at hs
    · rename_i ix hpc
      have hx := inv.h h
      have hold : ∀ p pr k, (s.hs h).pc ≠ Pc.lnLoad p pr k := fun p pr k hp => by rw [hpc] at hp; cases hp
      have hidle : (s.hs h).pc ≠ Pc.idle := by rw [hpc]; intro hp; cases hp
      have o4 : ∀ ix, (s.hs h).pc ≠ Pc.collRead ix := fun ix hp => by rw [hpc] at hp; cases hp
      split at hs
      · cases hs
        exact inv.move h Pc.collLoad hold hidle (fun _ _ _ hp => by cases hp) (fun _ hp => by cases hp)
          (fun _ _ _ hp => by cases hp) (fun _ _ hp => by cases hp) o4 (fun _ hp => by cases hp)
          (fun hp => by cases hp) (fun _ _ hp => by cases hp) (fun _ _ hp => by cases hp) (fun _ hp => by cases hp)
          (fun _ hp => by cases hp) (fun hp => by cases hp)
      · rename_i hm
        cases hs
        refine inv.move h Pc.notFound hold hidle (fun _ _ _ hp => by cases hp) (fun _ hp => by cases hp)
          (fun _ _ _ hp => by cases hp) (fun _ _ hp => by cases hp) o4 (fun _ hp => by cases hp)
          (fun hp => by cases hp) (fun _ _ hp => by cases hp) (fun _ _ hp => by cases hp) (fun _ hp => by cases hp)
          (fun _ hp => by cases hp) ?_
        -- the heart of it: the marker is current, every index of the current slot map was loaded, the directory
        -- listed exactly those — so a file that held the object all the time is in the snapshot that was searched
        intro _
        have hm' : (s.hs h).mPtr = s.pub ∧ (s.hs h).mLoaded = (s.objs s.pub).loaded := by
          simp only [Bool.or_eq_true, bne_iff_ne, ne_eq, not_or, Decidable.not_not] at hm
          exact hm
        obtain ⟨hexh, halive, hpub⟩ := hx.reExh ix hpc
        have hpi : s.pub = ix := by
          rcases hpub with h1 | h1
          · exact h1
          · exact absurd hm'.1 h1
        cases hal : (s.hs h).alive with
        | nil => rfl
        | cons F rest =>
          exfalso
          have hF : F ∈ (s.hs h).alive := by rw [hal]; exact List.mem_cons_self
          obtain ⟨hFd, hFh⟩ := hx.aliveOk F hF
          obtain ⟨k, hk⟩ := List.getElem?_of_mem (halive F hF)
          have hklt : k < (s.objs ix).claimed := by
            rw [hexh.1]; exact (List.getElem?_eq_some_iff.mp hk).1
          have hdone : k ∈ (s.objs ix).done := by
            rcases inv.g.pos ix k hklt with hd | ⟨h', pr, hp⟩
            · exact hd
            · exact absurd hp (hexh.2 h' pr k)
          have hmp : (s.hs h).mPtr = ix := by rw [hm'.1, hpi]
          have hsn := hx.snapOk o4 (by rw [hm'.2, hmp, hpi]) k (by rw [hmp]; exact hdone) F (by rw [hmp]; exact hk) hFd
          have := hx.scanFail (by rw [hpc]; rfl) F hsn
          rw [hFh] at this; cases this
    · cases hs
  | collLoad h =>
    simp only [step] at hs
    split at hs
    · rename_i hpc
      cases hs
      have hold : ∀ p pr k, (s.hs h).pc ≠ Pc.lnLoad p pr k := fun p pr k hp => by rw [hpc] at hp; cases hp
      have hidle : (s.hs h).pc ≠ Pc.idle := by rw [hpc]; intro hp; cases hp
      have o4 : ∀ ix, (s.hs h).pc ≠ Pc.collRead ix := fun ix hp => by rw [hpc] at hp; cases hp
      refine inv.move h (Pc.collWait s.pub) hold hidle (fun _ _ _ hp => by cases hp) ?_
        (fun _ _ _ hp => by cases hp) (fun _ _ hp => by cases hp) o4 (fun _ hp => by cases hp)
        (fun hp => by cases hp) (fun _ _ hp => by cases hp) (fun _ _ hp => by cases hp) (fun _ hp => by cases hp)
        (fun _ hp => by cases hp) (fun hp => by cases hp)
      intro ix hp; cases hp; exact inv.g.pubLt
    · cases hs
  | collMarker h =>
    simp only [step] at hs
    split at hs
    · rename_i ix hpc
      split at hs
      · cases hs
        have hx := inv.h h
        have hold : ∀ p pr k, (s.hs h).pc ≠ Pc.lnLoad p pr k := fun p pr k hp => by rw [hpc] at hp; cases hp
        have hidle : (s.hs h).pc ≠ Pc.idle := by rw [hpc]; intro hp; cases hp
        have hixlt : ix < s.nObjs := hx.ixLt ix (by rw [hpc]; rfl)
        apply inv.handleOnly h _ (inv.lt_of_pc h hidle) hold (fun p pr k hp => by cases hp)
        refine ⟨?_, hixlt, hx.snapLt, ?_, ?_, Nat.le_refl _, ?_, ?_, ?_, ?_, ?_, ?_, ?_, ?_, hx.aliveOk, ?_⟩
        · intro ix' hp; cases hp; exact hixlt
        · intro _ _ _ hp; cases hp
        · intro _ _ _ hp; cases hp
        · intro _ _ hp; cases hp
        · intro hnc; exact absurd rfl (hnc ix)
        · intro ix' hp; cases hp; rfl
        · intro hp; cases hp
        · intro _ _ hp; cases hp
        · intro _ _ hp; cases hp
        · intro _ hp; cases hp
        · intro _ hp; cases hp
        · intro hp; cases hp
      · cases hs
    · cases hs
  | collRead h =>
    simp only [step] at hs
    split at hs
    · rename_i ix hpc
      cases hs
      have hx := inv.h h
      have hold : ∀ p pr k, (s.hs h).pc ≠ Pc.lnLoad p pr k := fun p pr k hp => by rw [hpc] at hp; cases hp
      have hidle : (s.hs h).pc ≠ Pc.idle := by rw [hpc]; intro hp; cases hp
      have hmp : (s.hs h).mPtr = ix := hx.readPtr ix hpc
      apply inv.handleOnly h _ (inv.lt_of_pc h hidle) hold (fun p pr k hp => by cases hp)
      refine ⟨?_, hx.mLt, ?_, ?_, ?_, hx.mLe, ?_, ?_, ?_, ?_, ?_, ?_, ?_, ?_, hx.aliveOk, ?_⟩
      · intro ix' hp; cases hp
      · intro f hf
        exact inv.g.filesLt ix f (List.mem_filter.mp hf).1
      · intro _ _ _ hp; cases hp
      · intro _ _ _ hp; cases hp
      · intro _ _ hp; cases hp
      · intro _ _ k hk f hfk hfd
        show f ∈ (s.objs ix).files.filter fun f => s.loadedFiles.contains f
        have hk' : k ∈ (s.objs ix).done := by rw [← hmp]; exact hk
        have hfk' : (s.objs ix).files[k]? = some f := by rw [← hmp]; exact hfk
        exact List.mem_filter.mpr ⟨List.mem_of_getElem? hfk', by
          simpa using inv.g.loadedOk ix k hk' f hfk' hfd⟩
      · intro _ hp; cases hp
      · intro hp; cases hp
      · intro _ _ hp; cases hp
      · intro _ _ hp; cases hp
      · intro _ hp; cases hp
      · intro _ hp; cases hp
      · intro hp; cases hp
    · cases hs
  | claim h => exact step_inv_claim inv hs
  | load h => exact step_inv_load inv hs
  | cons h => exact step_inv_cons inv hs

end GixModel.C12.Live
