import GixModel.Lemmas.C39Parse
/-
C39 — putting the pieces together: from the pathspec strings to the selected paths on both sides.
-/
namespace GixModel.Lemmas.C39
open GixModel GixModel.C38 GixModel.C39 GixModel.Spec.C39

/-! ### normalised paths never end in a slash -/

theorem splitSlash_no_slash (acc q : Bytes) (hacc : ∀ b ∈ acc, b ≠ 47) :
    ∀ c ∈ splitSlashAux acc q, ∀ b ∈ c, b ≠ 47 := by
  induction q generalizing acc with
  | nil =>
    intro c hc b hb
    simp only [splitSlashAux, List.mem_singleton] at hc
    subst hc
    exact hacc b (List.mem_reverse.mp hb)
  | cons x q ih =>
    intro c hc
    rw [splitSlashAux.eq_def] at hc
    simp only at hc
    by_cases hx : (x == 47) = true
    · simp only [hx, if_true, List.mem_cons] at hc
      rcases hc with rfl | hc
      · intro b hb; exact hacc b (List.mem_reverse.mp hb)
      · exact ih [] (by simp) c hc
    · simp only [hx] at hc
      have hx' : x ≠ 47 := by simpa using hx
      exact ih (x :: acc) (by intro b hb; rcases List.mem_cons.mp hb with rfl | h; exact hx'; exact hacc b h) c hc

theorem resolveDots_sub : ∀ (cs acc out : List Bytes), resolveDots acc cs = some out → ∀ c ∈ out, c ∈ acc ∨ c ∈ cs := by
  intro cs
  induction cs with
  | nil =>
    intro acc out h c hc
    simp only [resolveDots, Option.some.injEq] at h
    subst h
    exact Or.inl (List.mem_reverse.mp hc)
  | cons x cs ih =>
    intro acc out h c hc
    rw [resolveDots.eq_def] at h
    simp only at h
    by_cases h1 : (x == [46, 46]) = true
    · simp only [h1, if_true] at h
      cases acc with
      | nil => simp at h
      | cons a acc' =>
        simp only at h
        rcases ih acc' out h c hc with h' | h'
        · exact Or.inl (List.mem_cons_of_mem _ h')
        · exact Or.inr (List.mem_cons_of_mem _ h')
    · simp only [h1, Bool.false_eq_true, if_false] at h
      by_cases h2 : (x == [46]) = true
      · simp only [h2, if_true] at h
        rcases ih acc out h c hc with h' | h'
        · exact Or.inl h'
        · exact Or.inr (List.mem_cons_of_mem _ h')
      · simp only [h2, Bool.false_eq_true, if_false] at h
        rcases ih (x :: acc) out h c hc with h' | h'
        · rcases List.mem_cons.mp h' with rfl | h''
          · exact Or.inr (by simp)
          · exact Or.inl h''
        · exact Or.inr (List.mem_cons_of_mem _ h')

theorem joinSlash_getLast (cs : List Bytes) (h : ∀ c ∈ cs, c ≠ [] ∧ ∀ b ∈ c, b ≠ 47) :
    (joinSlash cs).getLast? ≠ some 47 := by
  induction cs with
  | nil => simp [joinSlash]
  | cons c cs ih =>
    cases cs with
    | nil =>
      simp only [joinSlash]
      obtain ⟨hne, hb⟩ := h c (by simp)
      intro hl
      have := List.mem_of_getLast? hl
      exact hb 47 this rfl
    | cons c2 more =>
      simp only [joinSlash]
      have ih' := ih (fun x hx => h x (by simp [hx]))
      have hne : joinSlash (c2 :: more) ≠ [] := by
        have := (h c2 (by simp)).1
        cases more with
        | nil => simpa [joinSlash] using this
        | cons _ _ =>
          simp only [joinSlash]
          cases c2 with
          | nil => exact absurd rfl this
          | cons _ _ => simp
      rw [List.append_assoc, List.getLast?_append]
      cases hg : (([47] : Bytes) ++ joinSlash (c2 :: more)).getLast? with
      | none => simp at hg
      | some x =>
        simp only [Option.some_or]
        rw [List.getLast?_append] at hg
        cases hg2 : (joinSlash (c2 :: more)).getLast? with
        | none => exact absurd (List.getLast?_eq_none_iff.mp hg2) hne
        | some y =>
          rw [hg2] at hg ih'
          simp only [Option.some_or, Option.some.injEq] at hg
          subst hg
          exact ih'

/-- `Pattern::normalize` never leaves a trailing slash -/
theorem normalize_specOk (s n : PSpec) (h : normalize s = some n) : SpecOk n := by
  unfold normalize at h
  split at h
  · simp at h
  · cases hr : resolveDots [] (components s.path) with
    | none => simp [hr] at h
    | some cs =>
      simp only [hr] at h
      split at h
      · simp only [Option.some.injEq] at h; subst h; unfold SpecOk; simp
      · simp only [Option.some.injEq] at h; subst h
        unfold SpecOk
        apply joinSlash_getLast
        intro c hc
        rcases resolveDots_sub _ [] cs hr c hc with h' | h'
        · simp at h'
        · unfold components at h'
          obtain ⟨hm, hne⟩ := List.mem_filter.mp h'
          refine ⟨by intro hce; simp [hce] at hne, ?_⟩
          exact splitSlash_no_slash [] s.path (by simp) c hm

/-! ### the two pipelines -/

/-- what gitoxide selects, from the pathspec strings (`none` = an error) -/
def gixSelect (env : C39.Env) (elems names : List Bytes) : Option (List Bool) :=
  ((allSome (elems.map parseSpec)).bind fromSpecs).map fun s => names.map fun n => select env s n false

/-- the parsers agree on `elem`: git's item is the one of gitoxide's normalised spec (or both refuse) -/
def ParseAgrees (elem : Bytes) : Prop := initItem elem = ((parseSpec elem).bind normalize).map itemOf

theorem allSome_map_some {α : Type} (l : List α) : allSome (l.map some) = some l := by
  induction l with
  | nil => rfl
  | cons a l ih => simp [allSome, ih]

theorem allSome_none_of_mem {α : Type} (l : List (Option α)) (h : none ∈ l) : allSome l = none := by
  induction l with
  | nil => simp at h
  | cons x l ih =>
    cases x with
    | none => rfl
    | some a =>
      have : none ∈ l := by simpa using h
      simp [allSome, ih this]

theorem allSome_eq_none_iff {α : Type} (l : List (Option α)) : allSome l = none ↔ none ∈ l := by
  constructor
  · intro h
    induction l with
    | nil => simp [allSome] at h
    | cons x l ih =>
      cases x with
      | none => simp
      | some a =>
        simp only [allSome] at h
        cases hl : allSome l with
        | none => simp [ih hl]
        | some r => simp [hl] at h
  · exact allSome_none_of_mem l

/-- both pipelines, pattern by pattern: either both refuse, or git's items are those of gitoxide's
normalised specs -/
theorem allSome_cons {α : Type} (x : Option α) (l : List (Option α)) :
    allSome (x :: l) = x.bind fun a => (allSome l).map (a :: ·) := by
  cases x <;> rfl

theorem pipelines (elems : List Bytes) (hp : ∀ e ∈ elems, ParseAgrees e) :
    allSome (elems.map initItem)
      = ((allSome (elems.map parseSpec)).bind fun ps => allSome (ps.map normalize)).map fun ns => ns.map itemOf := by
  induction elems with
  | nil => rfl
  | cons e es ih =>
    have he := hp e (by simp)
    have ih' := ih (fun x hx => hp x (by simp [hx]))
    unfold ParseAgrees at he
    simp only [List.map_cons]
    rw [allSome_cons, allSome_cons, he, ih']
    cases hps : parseSpec e with
    | none => rfl
    | some p =>
      simp only [Option.bind_some]
      cases hes : allSome (es.map parseSpec) with
      | none =>
        simp only [Option.map_none, Option.bind_none]
        cases normalize p <;> rfl
      | some ps =>
        simp only [Option.map_some, Option.bind_some, List.map_cons]
        rw [allSome_cons]
        cases hn : normalize p with
        | none => rfl
        | some n =>
          simp only [Option.map_some, Option.bind_some]
          cases allSome (ps.map normalize) with
          | none => rfl
          | some ns => rfl

/-- **from strings to selected paths** -/
theorem select_pipeline (env : C39.Env) (hpre : WmPrefix env.wm) (hsl : WmSlash env.wm) (elems names : List Bytes)
    (hp : ∀ e ∈ elems, ParseAgrees e) (hn : ∀ n ∈ names, NameOk n) :
    gixSelect env elems names = gitSelect env elems names := by
  unfold gixSelect gitSelect parsePathspec
  rw [pipelines elems hp]
  cases hps : allSome (elems.map parseSpec) with
  | none => rfl
  | some ps =>
    simp only [Option.bind_some]
    rw [fromSpecs_eq]
    cases hns : allSome (ps.map normalize) with
    | none => rfl
    | some ns =>
      simp only [Option.map_some, Option.some.injEq]
      -- every normalised spec is fine
      have hok : ∀ s ∈ ns, SpecOk s := by
        intro s hs
        have hmap := allSome_some _ _ hns
        have : some s ∈ ps.map normalize := by rw [hmap]; exact List.mem_map.mpr ⟨s, hs, rfl⟩
        obtain ⟨p, _, hpn⟩ := List.mem_map.mp this
        exact normalize_specOk p s hpn
      have hwf : WellFormed (searchOf ns) := by
        have : fromSpecs ps = some (searchOf ns) := by rw [fromSpecs_eq, hns]; rfl
        exact fromSpecs_wellFormed ps _ this
      apply List.map_congr_left
      intro n hnm
      have hno := hn n hnm
      rw [shortcut_sound env hpre (searchOf ns) hwf n hno.1 false]
      have := select_items env hsl ns hok n hno
      unfold withImplicit at this
      exact this

end GixModel.Lemmas.C39
