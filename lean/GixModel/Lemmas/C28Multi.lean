import GixModel.Lemmas.C28Body
/-
C28, `MultiValueMut` (`raw_values_mut_by(..)?` then `set_all` / `set_at` / `delete` / `delete_all`) on
well-formed bodies: the scan finds exactly the items with the key, in order; `set_at` rewrites the
item with that rank, `set_all` every item with the key, `delete` / `delete_all` drop them — nothing
else in the body changes.
-/
namespace GixModel.C28
open GixModel GixModel.C26 GixModel.C27

theorem eqIgnoreCase_self (a : Bytes) : eqIgnoreCase a a = true := (eqIgnoreCase_iff a a).mpr rfl

/-- the spans of the key on an item sequence that starts at event offset `o` -/
def spansOf (key : Bytes) : List Item → Nat → List (Nat × Nat)
  | [], _ => []
  | .misc _ :: r, o => spansOf key r (o + 1)
  | .kv k mid vals :: r, o =>
    (if eqIgnoreCase k key then [(o, 1 + mid.length + vals.length)] else []) ++
      spansOf key r (o + (1 + mid.length + vals.length))

/-- the number of items with the key -/
def countKey (key : Bytes) (is : List Item) : Nat := (is.filter (·.matches key)).length

theorem mvSpansGo_start (key : Bytes) : ∀ (l : List (Nat × Event)) (s s' : Nat),
    mvSpansGo key l false s = mvSpansGo key l false s' := by
  intro l
  induction l with
  | nil => intro s s'; rfl
  | cons x l ih =>
    intro s s'
    obtain ⟨i, e⟩ := x
    cases e <;> simp only [mvSpansGo, Bool.false_eq_true, ↓reduceIte]
    all_goals first
      | exact ih s s'
      | (split
         · rfl
         · exact ih s s')

theorem mvSpansGo_mid (key : Bytes) : ∀ (m : List Event) (o : Nat) (rest : List (Nat × Event)) (e : Bool) (st : Nat),
    m.all isMid = true → mvSpansGo key (idxFrom o m ++ rest) e st = mvSpansGo key rest e st := by
  intro m
  induction m with
  | nil => intro o rest e st _; simp [idxFrom_nil]
  | cons x m ih =>
    intro o rest e st h
    simp only [List.all_cons, Bool.and_eq_true] at h
    obtain ⟨h1, h2⟩ := h
    rw [idxFrom_cons, List.cons_append]
    cases x <;> simp [isMid, evIsWs] at h1
    all_goals
      simp only [mvSpansGo]
      exact ih (o + 1) rest e st h2

theorem mvSpansGo_cont (key : Bytes) : ∀ (r : List Event) (o : Nat) (rest : List (Nat × Event)) (e : Bool) (st : Nat),
    contOk r = true → (e = true → st ≤ o) →
    mvSpansGo key (idxFrom o r ++ rest) e st =
      (if e then [(st, o + r.length - st)] else []) ++ mvSpansGo key rest false st := by
  intro r
  fun_induction contOk r
  · intro o rest e st _ hle
    rw [idxFrom_cons, idxFrom_nil]
    cases e
    · simp [mvSpansGo]
    · have := hle rfl
      simp only [List.nil_append, mvSpansGo, ↓reduceIte, List.length_cons, List.length_nil, List.cons_append]
      congr 2; omega
  · rename_i c r' ih
    intro o rest e st h hle
    rw [idxFrom_cons, List.cons_append]
    simp only [mvSpansGo]
    rw [ih (o + 1) rest e st h (fun he => by have := hle he; omega)]
    simp only [List.length_cons]
    rw [show o + 1 + r'.length = o + (r'.length + 1) by omega]
  · rename_i c r' ih
    intro o rest e st h hle
    rw [idxFrom_cons, List.cons_append]
    simp only [mvSpansGo]
    rw [ih (o + 1) rest e st h (fun he => by have := hle he; omega)]
    simp only [List.length_cons]
    rw [show o + 1 + r'.length = o + (r'.length + 1) by omega]
  · intro o rest e st h; simp at h

theorem mvSpansGo_vals (key : Bytes) (vals : List Event) (o : Nat) (rest : List (Nat × Event)) (e : Bool) (st : Nat)
    (h : valsOk vals = true) (hle : e = true → st ≤ o) :
    mvSpansGo key (idxFrom o vals ++ rest) e st =
      (if e then [(st, o + vals.length - st)] else []) ++ mvSpansGo key rest false st := by
  unfold valsOk at h
  split at h
  · rw [idxFrom_cons, idxFrom_nil]
    cases e
    · simp [mvSpansGo]
    · have := hle rfl
      simp only [List.nil_append, mvSpansGo, ↓reduceIte, List.length_cons, List.length_nil, List.cons_append]
      congr 2; omega
  · rename_i a r
    rw [idxFrom_cons, List.cons_append]
    simp only [mvSpansGo]
    rw [mvSpansGo_cont key r (o + 1) rest e st h (fun he => by have := hle he; omega)]
    simp only [List.length_cons]
    rw [show o + 1 + r.length = o + (r.length + 1) by omega]
  · simp at h

/-- the scan of `raw_values_mut_filter_inner` on a well-formed body -/
theorem mvSpansGo_items (key : Bytes) : ∀ (is : List Item) (o st : Nat), (∀ i ∈ is, i.ok = true) →
    mvSpansGo key (idxFrom o (flatten is)) false st = spansOf key is o := by
  intro is
  induction is with
  | nil => intro o st _; simp [flatten, idxFrom_nil, mvSpansGo, spansOf]
  | cons it is ih =>
    intro o st hok
    have hit := hok it (by simp)
    have hrest : ∀ i ∈ is, i.ok = true := fun i hi => hok i (by simp [hi])
    cases it with
    | misc e =>
      have hfl : flatten (Item.misc e :: is) = e :: flatten is := by simp [flatten, Item.events]
      rw [hfl, idxFrom_cons]
      simp only [spansOf]
      rw [← ih (o + 1) st hrest]
      cases e <;> simp [Item.ok, evIsWs, evIsNewline, isComment] at hit <;> simp [mvSpansGo]
    | kv k mid vals =>
      have hfl : flatten (Item.kv k mid vals :: is) = .name k :: (mid ++ (vals ++ flatten is)) := by
        simp [flatten, Item.events]
      simp only [Item.ok, Bool.and_eq_true] at hit
      obtain ⟨⟨hm, hv⟩, _⟩ := hit
      rw [hfl, idxFrom_cons, idxFrom_append, idxFrom_append]
      simp only [mvSpansGo, spansOf]
      by_cases hk : eqIgnoreCase k key = true
      · simp only [hk, ↓reduceIte]
        rw [mvSpansGo_mid key mid _ _ _ _ hm, mvSpansGo_vals key vals _ _ _ _ hv (fun _ => by omega)]
        simp only [↓reduceIte, List.cons_append, List.nil_append]
        rw [mvSpansGo_start key _ o st, ih _ st hrest]
        congr 2
        · congr 1; omega
        · omega
      · simp only [hk, Bool.false_eq_true, ↓reduceIte, List.nil_append]
        rw [mvSpansGo_mid key mid _ _ _ _ hm, mvSpansGo_vals key vals _ _ _ _ hv (fun he => by simp at he)]
        simp only [Bool.false_eq_true, ↓reduceIte, List.nil_append]
        rw [ih _ st hrest]
        congr 1; omega

theorem mvSpans_items (key : Bytes) (is : List Item) (hok : ∀ i ∈ is, i.ok = true) :
    mvSpans key (flatten is) = spansOf key is 0 := by
  unfold mvSpans
  rw [indexed_eq_idxFrom]
  exact mvSpansGo_items key is 0 0 hok

theorem spansOf_length (key : Bytes) : ∀ (is : List Item) (o : Nat), (spansOf key is o).length = countKey key is := by
  intro is
  induction is with
  | nil => intro o; rfl
  | cons it is ih =>
    intro o
    cases it with
    | misc e => simp [spansOf, countKey, Item.matches, ih (o + 1)]
    | kv k mid vals =>
      simp only [spansOf, countKey, List.length_append, ih]
      by_cases hk : eqIgnoreCase k key = true
      · simp [hk, Item.matches, List.filter_cons, countKey]; omega
      · simp [hk, Item.matches, List.filter_cons, countKey]

/-- the `j`-th span is the item with the key that has `j` items with the key before it -/
theorem spansOf_get (key : Bytes) : ∀ (is : List Item) (o j st len : Nat), (spansOf key is o)[j]? = some (st, len) →
    ∃ pre k mid vals post, is = pre ++ .kv k mid vals :: post ∧ eqIgnoreCase k key = true ∧
      countKey key pre = j ∧ st = o + (flatten pre).length ∧ len = 1 + mid.length + vals.length := by
  intro is
  induction is with
  | nil => intro o j st len h; simp [spansOf] at h
  | cons it is ih =>
    intro o j st len h
    cases it with
    | misc e =>
      simp only [spansOf] at h
      obtain ⟨pre, k, mid, vals, post, h1, h2, h3, h4, h5⟩ := ih (o + 1) j st len h
      refine ⟨.misc e :: pre, k, mid, vals, post, by simp [h1], h2, ?_, ?_, h5⟩
      · simpa [countKey, Item.matches, List.filter_cons] using h3
      · simp [flatten, Item.events] at h4 ⊢; omega
    | kv k0 mid0 vals0 =>
      simp only [spansOf] at h
      by_cases hk : eqIgnoreCase k0 key = true
      · simp only [hk, ↓reduceIte, List.cons_append, List.nil_append] at h
        cases j with
        | zero =>
          simp only [List.getElem?_cons_zero, Option.some.injEq, Prod.mk.injEq] at h
          exact ⟨[], k0, mid0, vals0, is, rfl, hk, rfl, by simp [flatten, h.1.symm], h.2.symm⟩
        | succ j =>
          simp only [List.getElem?_cons_succ] at h
          obtain ⟨pre, k, mid, vals, post, h1, h2, h3, h4, h5⟩ := ih _ j st len h
          refine ⟨.kv k0 mid0 vals0 :: pre, k, mid, vals, post, by simp [h1], h2, ?_, ?_, h5⟩
          · simp [countKey, Item.matches, List.filter_cons, hk]; exact h3
          · simp [flatten, Item.events] at h4 ⊢; omega
      · simp only [hk, Bool.false_eq_true, ↓reduceIte, List.nil_append] at h
        obtain ⟨pre, k, mid, vals, post, h1, h2, h3, h4, h5⟩ := ih _ j st len h
        refine ⟨.kv k0 mid0 vals0 :: pre, k, mid, vals, post, by simp [h1], h2, ?_, ?_, h5⟩
        · simp [countKey, Item.matches, List.filter_cons, hk]; exact h3
        · simp [flatten, Item.events] at h4 ⊢; omega

theorem flatten_split (pre : List Item) (k : Bytes) (mid vals : List Event) (post : List Item) :
    flatten (pre ++ .kv k mid vals :: post) = flatten pre ++ ((.name k :: (mid ++ vals)) ++ flatten post) := by
  simp [flatten, Item.events]

/-- `set_value_inner` on the span of one item: the item becomes `key <separators> <escaped value>` -/
theorem valueMutSet_at (w : Ws) (key value : Bytes) (pre : List Item) (k : Bytes) (mid vals : List Event) (post : List Item) :
    valueMutSet w (flatten (pre ++ .kv k mid vals :: post)) key value (flatten pre).length (1 + mid.length + vals.length) =
      flatten (pre ++ .kv key w.seps.reverse [.value (escapeValue value)] :: post) := by
  unfold valueMutSet
  simp only
  have hl : (flatten pre).length + (1 + mid.length + vals.length) =
      (flatten pre).length + (Event.name k :: (mid ++ vals)).length := by simp; omega
  rw [flatten_split, List.take_left, hl, ← List.drop_drop, List.drop_left, List.drop_left, List.take_left, List.drop_left]
  simp [flatten, Item.events]

/-- `delete` of the span of one item: the item goes, nothing else -/
theorem delete_at (pre : List Item) (k : Bytes) (mid vals : List Event) (post : List Item) :
    (flatten (pre ++ .kv k mid vals :: post)).take (flatten pre).length ++
      (flatten (pre ++ .kv k mid vals :: post)).drop ((flatten pre).length + (1 + mid.length + vals.length)) =
    flatten (pre ++ post) := by
  have hl : (flatten pre).length + (1 + mid.length + vals.length) =
      (flatten pre).length + (Event.name k :: (mid ++ vals)).length := by simp; omega
  rw [flatten_split, List.take_left, hl, ← List.drop_drop, List.drop_left, List.drop_left]
  simp [flatten]

/-- what `set_value_inner` writes for an item -/
def IsRewrite (key value : Bytes) (it : Item) : Prop :=
  ∃ mid', it = .kv key mid' [.value (escapeValue value)] ∧ mid'.all isMid = true ∧ mid'.any (· == Event.sep) = true

theorem IsRewrite.ok {key value : Bytes} {it : Item} (h : IsRewrite key value it) : it.ok = true := by
  obtain ⟨mid', rfl, h1, h2⟩ := h
  simp [Item.ok, h1, h2, valsOk]

theorem IsRewrite.matches {key value : Bytes} {it : Item} (h : IsRewrite key value it) : it.matches key = true := by
  obtain ⟨mid', rfl, _, _⟩ := h
  simp [Item.matches, eqIgnoreCase_self]

/-- `set_at`: the item of rank `j` among those with the key is rewritten -/
theorem mvSetNth_items (key value : Bytes) (is : List Item) (hok : ∀ i ∈ is, i.ok = true) (j : Nat)
    (hj : j < countKey key is) :
    ∃ pre k mid vals post it', is = pre ++ .kv k mid vals :: post ∧ eqIgnoreCase k key = true ∧ countKey key pre = j ∧
      IsRewrite key value it' ∧ mvSetNth (flatten is) key value j = flatten (pre ++ it' :: post) := by
  unfold mvSetNth
  rw [mvSpans_items key is hok]
  have hlen := spansOf_length key is 0
  have : j < (spansOf key is 0).length := by omega
  obtain ⟨⟨st, len⟩, hget⟩ : ∃ x, (spansOf key is 0)[j]? = some x := ⟨_, List.getElem?_eq_getElem this⟩
  rw [hget]
  obtain ⟨pre, k, mid, vals, post, h1, h2, h3, h4, h5⟩ := spansOf_get key is 0 j st len hget
  subst h1
  simp only [Nat.zero_add] at h4
  subst h4 h5
  refine ⟨pre, k, mid, vals, post, .kv key (Ws.fromBody (flatten (pre ++ Item.kv k mid vals :: post))).seps.reverse
    [.value (escapeValue value)], rfl, h2, h3, ⟨_, rfl, ?_, ?_⟩, ?_⟩
  · have := (seps_mid (Ws.fromBody (flatten (pre ++ Item.kv k mid vals :: post)))).1
    simpa [List.all_reverse] using this
  · have := (seps_mid (Ws.fromBody (flatten (pre ++ Item.kv k mid vals :: post)))).2
    simpa [List.any_reverse] using this
  · exact valueMutSet_at _ key value pre k mid vals post

/-- `delete`: the item of rank `j` among those with the key is dropped -/
theorem mvDeleteNth_items (key : Bytes) (is : List Item) (hok : ∀ i ∈ is, i.ok = true) (j : Nat)
    (hj : j < countKey key is) :
    ∃ pre k mid vals post, is = pre ++ .kv k mid vals :: post ∧ eqIgnoreCase k key = true ∧ countKey key pre = j ∧
      mvDeleteNth (flatten is) key j = flatten (pre ++ post) := by
  unfold mvDeleteNth
  rw [mvSpans_items key is hok]
  have hlen := spansOf_length key is 0
  have : j < (spansOf key is 0).length := by omega
  obtain ⟨⟨st, len⟩, hget⟩ : ∃ x, (spansOf key is 0)[j]? = some x := ⟨_, List.getElem?_eq_getElem this⟩
  rw [hget]
  obtain ⟨pre, k, mid, vals, post, h1, h2, h3, h4, h5⟩ := spansOf_get key is 0 j st len hget
  subst h1
  simp only [Nat.zero_add] at h4
  subst h4 h5
  exact ⟨pre, k, mid, vals, post, rfl, h2, h3, delete_at pre k mid vals post⟩

/-! ### `set_all` -/

/-- `Upd j a b`: `b` is `a` with its first `j` items with the key rewritten, everything else equal -/
inductive Upd (key value : Bytes) : Nat → List Item → List Item → Prop
  | done (l : List Item) : Upd key value 0 l l
  | keep (it : Item) (j : Nat) (a b : List Item) (h : it.matches key = false) :
      Upd key value j a b → Upd key value j (it :: a) (it :: b)
  | hit (it it' : Item) (j : Nat) (a b : List Item) (h : it.matches key = true) (h' : IsRewrite key value it') :
      Upd key value j a b → Upd key value (j + 1) (it :: a) (it' :: b)

theorem Upd.count {key value : Bytes} {j : Nat} {a b : List Item} (h : Upd key value j a b) :
    countKey key b = countKey key a ∧ j ≤ countKey key a := by
  induction h with
  | done l => exact ⟨rfl, Nat.zero_le _⟩
  | keep it j a b hm _ ih => simp [countKey, List.filter_cons, hm] at ih ⊢; exact ih
  | hit it it' j a b hm h' _ ih =>
    simp [countKey, List.filter_cons, hm, h'.matches] at ih ⊢; exact ih

theorem Upd.ok {key value : Bytes} {j : Nat} {a b : List Item} (h : Upd key value j a b)
    (hok : ∀ i ∈ a, i.ok = true) : ∀ i ∈ b, i.ok = true := by
  induction h with
  | done l => exact hok
  | keep it j a b hm _ ih =>
    intro i hi
    simp only [List.mem_cons] at hi
    rcases hi with rfl | hi
    · exact hok _ (by simp)
    · exact ih (fun i hi => hok i (by simp [hi])) i hi
  | hit it it' j a b hm h' _ ih =>
    intro i hi
    simp only [List.mem_cons] at hi
    rcases hi with rfl | hi
    · exact h'.ok
    · exact ih (fun i hi => hok i (by simp [hi])) i hi

/-- rewriting the item of rank `j` of `b` extends the update by one -/
theorem Upd.step {key value : Bytes} {j : Nat} {a b : List Item} (h : Upd key value j a b) :
    ∀ (pre : List Item) (x x' : Item) (post : List Item), b = pre ++ x :: post → x.matches key = true →
      countKey key pre = j → IsRewrite key value x' → Upd key value (j + 1) a (pre ++ x' :: post) := by
  induction h with
  | done l =>
    intro pre
    induction pre generalizing l with
    | nil =>
      intro x x' post hb hx _ hx'
      subst hb
      exact .hit x x' 0 post post hx hx' (.done post)
    | cons p pre ihp =>
      intro x x' post hb hx hc hx'
      subst hb
      have hp : p.matches key = false := by
        cases hpm : p.matches key
        · rfl
        · simp [countKey, List.filter_cons, hpm] at hc
      have hc' : countKey key pre = 0 := by simpa [countKey, List.filter_cons, hp] using hc
      exact .keep p _ _ _ hp (ihp _ x x' post rfl hx hc' hx')
  | keep it j a b hm _ ih =>
    intro pre x x' post hb hx hc hx'
    cases pre with
    | nil =>
      simp only [List.nil_append, List.cons.injEq] at hb
      rw [← hb.1, hm] at hx; simp at hx
    | cons p pre =>
      simp only [List.cons_append, List.cons.injEq] at hb
      obtain ⟨rfl, hb⟩ := hb
      have hc' : countKey key pre = j := by simpa [countKey, List.filter_cons, hm] using hc
      exact .keep _ _ _ _ hm (ih pre x x' post hb hx hc' hx')
  | hit it it' j a b hm h' _ ih =>
    intro pre x x' post hb hx hc hx'
    cases pre with
    | nil => simp [countKey] at hc
    | cons p pre =>
      simp only [List.cons_append, List.cons.injEq] at hb
      obtain ⟨rfl, hb⟩ := hb
      have hc' : countKey key pre = j := by
        simp [countKey, List.filter_cons, h'.matches] at hc; exact hc
      exact .hit _ _ _ _ _ hm h' (ih pre x x' post hb hx hc' hx')

/-- `set_all` processes the ranks `j, j+1, …` one after the other -/
theorem mvSetAllBody_upd (key value : Bytes) : ∀ (n j : Nat) (a b : List Item), (∀ i ∈ a, i.ok = true) →
    Upd key value j a b → j + n ≤ countKey key a →
    ∃ b', Upd key value (j + n) a b' ∧ mvSetAllBody key value n j (flatten b) = flatten b' := by
  intro n
  induction n with
  | zero => intro j a b _ h _; exact ⟨b, h, rfl⟩
  | succ n ih =>
    intro j a b hok h hle
    have hokb := h.ok hok
    have hcnt := h.count
    obtain ⟨pre, k, mid, vals, post, it', hb, hk, hc, hit', hset⟩ :=
      mvSetNth_items key value b hokb j (by omega)
    have h1 := h.step pre (.kv k mid vals) it' post hb (by simpa [Item.matches] using hk) hc hit'
    obtain ⟨b', hb', hfl⟩ := ih (j + 1) a _ hok h1 (by omega)
    refine ⟨b', by rw [show j + (n + 1) = j + 1 + n by omega]; exact hb', ?_⟩
    simp only [mvSetAllBody]
    rw [hset, hfl]

/-- every item with the key rewritten, everything else equal -/
def AllRewritten (key value : Bytes) : List Item → List Item → Prop
  | [], [] => True
  | it :: a, it' :: b => (if it.matches key then IsRewrite key value it' else it' = it) ∧ AllRewritten key value a b
  | _, _ => False

theorem Upd.all {key value : Bytes} {j : Nat} {a b : List Item} (h : Upd key value j a b)
    (hj : j = countKey key a) : AllRewritten key value a b := by
  induction h with
  | done l =>
    induction l with
    | nil => exact True.intro
    | cons it l ihl =>
      have hm : it.matches key = false := by
        cases hpm : it.matches key
        · rfl
        · simp [countKey, List.filter_cons, hpm] at hj
      refine ⟨by simp [hm], ihl ?_⟩
      simpa [countKey, List.filter_cons, hm] using hj
  | keep it j a b hm _ ih =>
    refine ⟨by simp [hm], ih ?_⟩
    simpa [countKey, List.filter_cons, hm] using hj
  | hit it it' j a b hm h' _ ih =>
    refine ⟨by simp [hm]; exact h', ih ?_⟩
    simp [countKey, List.filter_cons, hm] at hj
    exact hj

/-- `set_all` on a well-formed body -/
theorem mvSetAll_items (key value : Bytes) (is : List Item) (hok : ∀ i ∈ is, i.ok = true) :
    ∃ is', AllRewritten key value is is' ∧ (∀ i ∈ is', i.ok = true) ∧
      mvSetAllBody key value (mvSpans key (flatten is)).length 0 (flatten is) = flatten is' := by
  rw [mvSpans_items key is hok, spansOf_length]
  obtain ⟨b', hb', hfl⟩ := mvSetAllBody_upd key value (countKey key is) 0 is is hok (.done is) (by omega)
  simp only [Nat.zero_add] at hb'
  exact ⟨b', hb'.all rfl, hb'.ok hok, hfl⟩

/-! ### `delete_all` -/

theorem filter_split_last (key : Bytes) (pre : List Item) (x : Item) (post : List Item) (hx : x.matches key = true)
    (hc : countKey key pre + 1 = countKey key (pre ++ x :: post)) :
    (pre ++ x :: post).filter (fun i => !i.matches key) = (pre ++ post).filter (fun i => !i.matches key) ∧
    ∀ i ∈ post, i.matches key = false := by
  have hpost : countKey key post = 0 := by
    simp [countKey, List.filter_append, List.filter_cons, hx] at hc
    simpa [countKey] using hc
  constructor
  · simp [List.filter_append, List.filter_cons, hx]
  · intro i hi
    cases hm : i.matches key
    · rfl
    · have : i ∈ post.filter (·.matches key) := List.mem_filter.mpr ⟨hi, hm⟩
      simp only [countKey, List.length_eq_zero_iff] at hpost
      rw [hpost] at this; simp at this

/-- `delete_all` on a well-formed body: exactly the items with the key go -/
theorem mvDeleteAllBody_items (key : Bytes) : ∀ (n : Nat) (is : List Item), (∀ i ∈ is, i.ok = true) →
    n = countKey key is →
    mvDeleteAllBody key n (flatten is) = flatten (is.filter fun i => !i.matches key) := by
  intro n
  induction n with
  | zero =>
    intro is _ h0
    simp only [mvDeleteAllBody]
    congr 1
    symm
    rw [List.filter_eq_self]
    intro i hi
    cases hm : i.matches key
    · rfl
    · have : i ∈ is.filter (·.matches key) := List.mem_filter.mpr ⟨hi, hm⟩
      have h0' : is.filter (·.matches key) = [] := by
        simpa [countKey, List.length_eq_zero_iff] using h0.symm
      rw [h0'] at this; simp at this
  | succ n ih =>
    intro is hok hn
    obtain ⟨pre, k, mid, vals, post, his, hk, hc, hdel⟩ := mvDeleteNth_items key is hok n (by omega)
    simp only [mvDeleteAllBody]
    rw [hdel]
    have hx : (Item.kv k mid vals).matches key = true := by simpa [Item.matches] using hk
    have hsplit := filter_split_last key pre (.kv k mid vals) post hx (by rw [← his]; omega)
    have hcount : n = countKey key (pre ++ post) := by
      have hp0 : countKey key post = 0 := by
        simp only [countKey, List.length_eq_zero_iff, List.filter_eq_nil_iff]
        intro i hi; simp [hsplit.2 i hi]
      simp only [countKey, List.filter_append, List.length_append] at hp0 ⊢
      simp only [countKey] at hc
      omega
    rw [ih (pre ++ post) (fun i hi => hok i (by
      subst his
      simp only [List.mem_append, List.mem_cons] at hi ⊢
      rcases hi with hi | hi
      · exact Or.inl hi
      · exact Or.inr (Or.inr hi))) hcount]
    rw [his, hsplit.1]

theorem mvDeleteAll_items (key : Bytes) (is : List Item) (hok : ∀ i ∈ is, i.ok = true) :
    mvDeleteAllBody key (mvSpans key (flatten is)).length (flatten is) = flatten (is.filter fun i => !i.matches key) := by
  rw [mvSpans_items key is hok, spansOf_length]
  exact mvDeleteAllBody_items key _ is hok rfl

/-! ### what the view says after `set_all` / `delete_all` -/

/-- the entry of an item with the key after `set_value_inner` (other entries are left alone) -/
def rewriteEntry (h : Header) (key value : Bytes) (e : Entry) : Entry :=
  if eqIgnoreCase e.key key then { sect := h.name, sub := h.sub, key := key, value := escapeValue value } else e

theorem AllRewritten.entries (h : Header) (key value : Bytes) : ∀ (a b : List Item), AllRewritten key value a b →
    b.filterMap (itemEntry h) = (a.filterMap (itemEntry h)).map (rewriteEntry h key value) := by
  intro a
  induction a with
  | nil => intro b hab; cases b with | nil => rfl | cons _ _ => simp [AllRewritten] at hab
  | cons it a ih =>
    intro b hab
    cases b with
    | nil => simp [AllRewritten] at hab
    | cons it' b =>
      simp only [AllRewritten] at hab
      obtain ⟨h1, h2⟩ := hab
      have := ih b h2
      cases it with
      | misc e =>
        simp only [Item.matches, Bool.false_eq_true, ↓reduceIte] at h1
        subst h1
        simpa [List.filterMap_cons, itemEntry] using this
      | kv k mid vals =>
        simp only [Item.matches] at h1
        by_cases hk : eqIgnoreCase k key = true
        · simp only [hk, ↓reduceIte] at h1
          obtain ⟨mid', rfl, _, _⟩ := h1
          simp [List.filterMap_cons, itemEntry, this, rewriteEntry, hk, valText]
        · simp only [hk, Bool.false_eq_true, ↓reduceIte] at h1
          subst h1
          simp [List.filterMap_cons, itemEntry, this, rewriteEntry, hk]

theorem AllRewritten.comments (key value : Bytes) : ∀ (a b : List Item), AllRewritten key value a b →
    b.flatMap itemComments = a.flatMap itemComments := by
  intro a
  induction a with
  | nil => intro b hab; cases b with | nil => rfl | cons _ _ => simp [AllRewritten] at hab
  | cons it a ih =>
    intro b hab
    cases b with
    | nil => simp [AllRewritten] at hab
    | cons it' b =>
      simp only [AllRewritten] at hab
      obtain ⟨h1, h2⟩ := hab
      have := ih b h2
      cases it with
      | misc e =>
        simp only [Item.matches, Bool.false_eq_true, ↓reduceIte] at h1
        subst h1
        simp [List.flatMap_cons, this]
      | kv k mid vals =>
        simp only [Item.matches] at h1
        by_cases hk : eqIgnoreCase k key = true
        · simp only [hk, ↓reduceIte] at h1
          obtain ⟨mid', rfl, _, _⟩ := h1
          simp [List.flatMap_cons, itemComments, this]
        · simp only [hk, Bool.false_eq_true, ↓reduceIte] at h1
          subst h1
          simp [List.flatMap_cons, this]

theorem comments_flatten' (is : List Item) (hok : ∀ i ∈ is, i.ok = true) :
    commentsOf (flatten is) = is.flatMap itemComments := comments_flatten is hok

/-- `set_all` on a well-formed body, as the view sees it -/
theorem mvSetAll_view (h : Header) (key value : Bytes) (body : List Event) (hb : WFb body) :
    WFb (mvSetAllBody key value (mvSpans key body).length 0 body) ∧
    commentsOf (mvSetAllBody key value (mvSpans key body).length 0 body) = commentsOf body ∧
    bodyEntries h (mvSetAllBody key value (mvSpans key body).length 0 body) none [] =
      (bodyEntries h body none []).map (rewriteEntry h key value) := by
  obtain ⟨is, hok, rfl⟩ := hb
  obtain ⟨is', hall, hok', hfl⟩ := mvSetAll_items key value is hok
  rw [hfl]
  refine ⟨⟨is', hok', rfl⟩, ?_, ?_⟩
  · rw [comments_flatten' _ hok', comments_flatten' _ hok, hall.comments]
  · rw [entries_items h _ hok', entries_items h _ hok, hall.entries h]

theorem filterMap_filter_entries (h : Header) (key : Bytes) : ∀ (is : List Item),
    (is.filter fun i => !i.matches key).filterMap (itemEntry h) =
      (is.filterMap (itemEntry h)).filter (fun e => !eqIgnoreCase e.key key) := by
  intro is
  induction is with
  | nil => rfl
  | cons it is ih =>
    cases it with
    | misc e =>
      have hm : (Item.misc e).matches key = false := rfl
      simp only [List.filter_cons, hm, Bool.not_false, ↓reduceIte, List.filterMap_cons, itemEntry]
      exact ih
    | kv k mid vals =>
      by_cases hk : eqIgnoreCase k key = true
      · have hm : (Item.kv k mid vals).matches key = true := hk
        simp only [List.filter_cons, hm, Bool.not_true, Bool.false_eq_true, ↓reduceIte, List.filterMap_cons, itemEntry, hk]
        exact ih
      · have hm : (Item.kv k mid vals).matches key = false := by simpa [Item.matches] using hk
        simp only [Bool.not_eq_true] at hk
        simp only [List.filter_cons, hm, Bool.not_false, ↓reduceIte, List.filterMap_cons, itemEntry, hk]
        rw [ih]

theorem flatMap_comments_filter (key : Bytes) : ∀ (is : List Item),
    (is.filter fun i => !i.matches key).flatMap itemComments = is.flatMap itemComments := by
  intro is
  induction is with
  | nil => rfl
  | cons it is ih =>
    cases it with
    | misc e =>
      have hm : (Item.misc e).matches key = false := rfl
      simp only [List.filter_cons, hm, Bool.not_false, ↓reduceIte, List.flatMap_cons, ih]
    | kv k mid vals =>
      by_cases hk : eqIgnoreCase k key = true
      · have hm : (Item.kv k mid vals).matches key = true := hk
        simp only [List.filter_cons, hm, Bool.not_true, Bool.false_eq_true, ↓reduceIte, List.flatMap_cons, itemComments,
          List.nil_append]
        exact ih
      · have hm : (Item.kv k mid vals).matches key = false := by simpa [Item.matches] using hk
        simp only [List.filter_cons, hm, Bool.not_false, ↓reduceIte, List.flatMap_cons, ih]

/-- `delete_all` on a well-formed body, as the view sees it -/
theorem mvDeleteAll_view (h : Header) (key : Bytes) (body : List Event) (hb : WFb body) :
    WFb (mvDeleteAllBody key (mvSpans key body).length body) ∧
    commentsOf (mvDeleteAllBody key (mvSpans key body).length body) = commentsOf body ∧
    bodyEntries h (mvDeleteAllBody key (mvSpans key body).length body) none [] =
      (bodyEntries h body none []).filter (fun e => !eqIgnoreCase e.key key) := by
  obtain ⟨is, hok, rfl⟩ := hb
  rw [mvDeleteAll_items key is hok]
  have hok' : ∀ i ∈ is.filter (fun i => !i.matches key), i.ok = true :=
    fun i hi => hok i (List.mem_filter.mp hi).1
  refine ⟨⟨_, hok', rfl⟩, ?_, ?_⟩
  · rw [comments_flatten' _ hok', comments_flatten' _ hok, flatMap_comments_filter]
  · rw [entries_items h _ hok', entries_items h _ hok, filterMap_filter_entries]

/-! ### the file around the edited bodies -/

theorem foldl_modifySec (g : Sec → Sec) : ∀ (ids : List Nat) (f : FileS), ids.Nodup →
    (ids.foldl (fun acc i => modifySec acc i g) f).front = f.front ∧
    (ids.foldl (fun acc i => modifySec acc i g) f).reg = f.reg ∧
    ∀ i, (ids.foldl (fun acc i => modifySec acc i g) f).sections[i]? =
      if i ∈ ids then (f.sections[i]?).map g else f.sections[i]? := by
  intro ids
  induction ids with
  | nil => intro f _; simp
  | cons i0 ids ih =>
    intro f hn
    simp only [List.nodup_cons] at hn
    obtain ⟨hni, hn⟩ := hn
    simp only [List.foldl_cons]
    obtain ⟨h1, h2, h3⟩ := ih (modifySec f i0 g) hn
    refine ⟨by rw [h1]; rfl, by rw [h2]; rfl, ?_⟩
    intro i
    rw [h3 i]
    simp only [modifySec_sections, List.getElem?_modify, List.mem_cons]
    by_cases hi : i = i0
    · subst hi
      simp [hni]
    · have : ¬ i0 = i := fun h => hi h.symm
      simp [hi, this]

theorem idsBy_nodup {f : FileS} {name : Bytes} {sub : Option Bytes} {ids : List Nat}
    (h : idsBy f name sub = .ok ids) : ids.Nodup ∧ ∀ i ∈ ids, ∃ s, f.sections[i]? = some s ∧
      s.regName = lowerName name ∧ s.regSub = sub := by
  unfold idsBy at h
  simp only at h
  split at h
  · simp at h
  · split at h
    · simp at h
    · simp only [Except.ok.injEq] at h
      subst h
      refine ⟨List.Nodup.sublist List.filter_sublist List.nodup_range, ?_⟩
      intro i hi
      simp only [List.mem_filter] at hi
      obtain ⟨_, hi⟩ := hi
      split at hi
      · rename_i s hs
        simp only [Bool.and_eq_true, beq_iff_eq] at hi
        exact ⟨s, hs, hi.1, hi.2⟩
      · simp at hi

end GixModel.C28
