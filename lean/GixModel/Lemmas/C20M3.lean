import GixModel.Lemmas.C20M2
/-
C20 helper lemmas, part 11 (all packed-refs modes): hypotheses on the input, the steps restricted to
one edited ref, the pairs (ref file, packed-refs) after every prefix, and what the rewritten
packed-refs says about every name.
-/
namespace GixModel.C20
open GixModel

/-- hypotheses on the input alone (the same as `Props.C20.TxnInput`) -/
structure TxnIn (c : Cfg) (s : Store) (txn : List Edit) : Prop where
  names_nodup : (names txn).Nodup
  names_ref : ∀ e ∈ txn, isRefName e.name = true
  no_df : NoDF txn
  loose_ref : ∀ x ∈ s.loose, isRefName x.1 = true
  chunk_ok : ∀ bs, (c.chunk bs).flatten = bs
  no_locks : ∀ e ∈ txn, s.toFs (lockPath e.name) = none
  no_packed_lock : s.toFs (lockPath packedPath) = none
  not_dir : ∀ e ∈ txn, s.toFs e.name ≠ some .dir

theorem TxnIn.ctx {c : Cfg} {s : Store} {txn : List Edit} (h : TxnIn c s txn) {e : Edit} (he : e ∈ txn) :
    RefCtx s e.name :=
  ⟨h.names_ref e he, h.no_locks e he, h.not_dir e he, h.loose_ref, h.no_packed_lock⟩

def coreOfM (m : Mode) (c : Cfg) (s : Store) (txn : List Edit) (e : Edit) : List FsOp :=
  let global := s.hasGlobalLockM m txn
  pk0 global ++ prepCoreEditM m c global e ++ renameCoreM m e ++ packedCommitM m c s txn ++ delCoreM m s global e

theorem filter_coreM (m : Mode) (c : Cfg) (s : Store) (txn : List Edit) (h : TxnIn c s txn) (e : Edit)
    (he : e ∈ txn) : (coreM m c s txn).filter (touchesAny (Qn e.name)) = coreOfM m c s txn e := by
  have hn := h.names_ref e he
  have hq := Qn_self e.name
  have nonempty : ∀ op : FsOp, op.touches ≠ [] := by intro op; cases op <;> simp [FsOp.touches]
  have pass : ∀ l : List FsOp, (∀ op ∈ l, ∀ t ∈ op.touches, t = e.name ∨ t = lockPath e.name) →
      l.filter (touchesAny (Qn e.name)) = l := by
    intro l hl
    apply filter_all
    intro op ho
    cases hts : op.touches with
    | nil => exact absurd hts (nonempty op)
    | cons t ts =>
      apply List.any_eq_true.mpr
      refine ⟨t, by simp [hts], ?_⟩
      rcases hl op ho t (by simp [hts]) with rfl | rfl
      · exact hq.1
      · exact hq.2.1
  have block : ∀ (f : Edit → List FsOp),
      (∀ e', ∀ op ∈ f e', ∀ t ∈ op.touches, t = e'.name ∨ t = lockPath e'.name) →
      (txn.flatMap f).filter (touchesAny (Qn e.name)) = f e := by
    intro f hf
    rw [filter_flatMap_unique _ f txn e h.names_nodup he]
    · exact pass _ (hf e)
    · intro e' he' hne
      apply filter_none
      intro op ho
      apply List.any_eq_false.mpr
      intro t ht
      have ho' := Qn_other hn (h.names_ref e' he') hne
      rcases hf e' op ho t ht with rfl | rfl
      · simp [ho'.1]
      · simp [ho'.2]
  have hpk : (packedCommitM m c s txn).filter (touchesAny (Qn e.name)) = packedCommitM m c s txn := by
    apply filter_all
    intro op ho
    cases hts : op.touches with
    | nil => exact absurd hts (nonempty op)
    | cons t ts =>
      apply List.any_eq_true.mpr
      refine ⟨t, by simp [hts], ?_⟩
      rcases packedCommitM_touches m c s txn op ho t (by simp [hts]) with rfl | rfl
      · exact hq.2.2.1
      · exact hq.2.2.2
  have hp0 : (pk0 (s.hasGlobalLockM m txn)).filter (touchesAny (Qn e.name)) = pk0 (s.hasGlobalLockM m txn) := by
    apply filter_all
    intro op ho
    simp only [pk0] at ho
    split at ho
    · simp at ho; subst ho; simp [touchesAny, FsOp.touches, hq.2.2.2]
    · cases ho
  have e1 := edit_core_touchesM m c s (s.hasGlobalLockM m txn)
  simp only [coreM, coreOfM, List.filter_append]
  rw [hp0, hpk,
    block (prepCoreEditM m c (s.hasGlobalLockM m txn)) (fun e' op ho => e1 e' op (by simp [ho])),
    block (renameCoreM m) (fun e' op ho => e1 e' op (by simp [ho])),
    block (delCoreM m s (s.hasGlobalLockM m txn)) (fun e' op ho => e1 e' op (by simp [ho]))]

theorem steps_filterM (m : Mode) (c : Cfg) (s : Store) (txn : List Edit) (h : TxnIn c s txn) (e : Edit)
    (he : e ∈ txn) : (txnStepsM m c s txn).filter (touchesAny (Qn e.name)) = coreOfM m c s txn e := by
  have hn := h.names_ref e he
  rw [← filter_coreM m c s txn h e he, ← strip_txnStepsM m c s txn h.names_ref]
  simp only [strip, List.filter_filter]
  apply List.filter_congr
  intro op ho
  by_cases ht : touchesAny (Qn e.name) op = true
  · obtain ⟨t, htm, htq⟩ := List.any_eq_true.mp ht
    have h1 : op.isDirOp = false := by
      cases hd : op.isDirOp with
      | false => rfl
      | true =>
        have := no_dir_clashM m c s txn h.names_ref h.no_df op ho hd t htm
        rw [Qn_subset_inW he htq] at this; cases this
    have h2 : isLogOp op = false := by
      cases hl : isLogOp op with
      | false => rfl
      | true =>
        have := List.all_eq_true.mp hl t htm
        rw [Qn_not_log hn htq] at this; cases this
    simp [ht, h1, h2]
  · simp [ht]

theorem steps_closedM (m : Mode) (c : Cfg) (s : Store) (txn : List Edit) (h : TxnIn c s txn) (e : Edit)
    (he : e ∈ txn) :
    ∀ op ∈ txnStepsM m c s txn, touchesAny (Qn e.name) op = true → closedIn (Qn e.name) op = true := by
  intro op ho ht
  have hq := Qn_self e.name
  have hmem : op ∈ coreOfM m c s txn e := by
    rw [← steps_filterM m c s txn h e he]
    exact List.mem_filter.mpr ⟨ho, ht⟩
  simp only [coreOfM, List.mem_append] at hmem
  apply List.all_eq_true.mpr
  intro t htm
  have edit := edit_core_touchesM m c s (s.hasGlobalLockM m txn) e
  rcases hmem with (((hm | hm) | hm) | hm) | hm
  · simp only [pk0] at hm
    split at hm
    · simp at hm; subst hm; simp [FsOp.touches] at htm; subst htm; exact hq.2.2.2
    · cases hm
  · rcases edit op (by simp [hm]) t htm with rfl | rfl
    · exact hq.1
    · exact hq.2.1
  · rcases edit op (by simp [hm]) t htm with rfl | rfl
    · exact hq.1
    · exact hq.2.1
  · rcases packedCommitM_touches m c s txn op hm t htm with rfl | rfl
    · exact hq.2.2.1
    · exact hq.2.2.2
  · rcases edit op (by simp [hm]) t htm with rfl | rfl
    · exact hq.1
    · exact hq.2.1

/-- the pairs (file of the ref, packed-refs) a reader may find, in mode `m` -/
def AllowedM (m : Mode) (s : Store) (txn : List Edit) (e : Edit) (a b : Option Bytes) : Prop :=
  match e with
  | .update n (.sym t) => PairA m s txn n (renderRef (.sym t)) a b
  | .update n (.id h) => if m = .r then PairB m s txn n a b else PairA m s txn n h a b
  | .delete n => PairB m s txn n a b

def finalNM (m : Mode) : Edit → Option Bytes
  | .update _ (.sym t) => some (renderRef (.sym t))
  | .update _ (.id h) => if m = .r then none else some h
  | .delete _ => none

theorem global_of_obj {m : Mode} {s : Store} {txn : List Edit} {n : Name} {h : Bytes} (hm : m = .r)
    (he : Edit.update n (.id h) ∈ txn) : s.hasGlobalLockM m txn = true := by
  subst hm
  simp only [Store.hasGlobalLockM, Bool.or_eq_true, List.any_eq_true]
  exact .inl ⟨_, he, rfl⟩

theorem run_editM (m : Mode) (c : Cfg) (s : Store) (txn : List Edit) (h : TxnIn c s txn) (e : Edit) (he : e ∈ txn) :
    AllPrefixes (fun f => AllowedM m s txn e (fileAt f e.name) (fileAt f packedPath)) (coreOfM m c s txn e) s.toFs ∧
      fileAt (applyAll (coreOfM m c s txn e) s.toFs) e.name = finalNM m e ∧
      fileAt (applyAll (coreOfM m c s txn e) s.toFs) packedPath = newPackedFileM m s txn := by
  have x := h.ctx he
  cases e with
  | delete n =>
    have hB := run_shapeB m c s txn h.chunk_ok n x (!s.hasGlobalLockM m txn)
    have hcore : coreOfM m c s txn (.delete n) =
        pk0 (s.hasGlobalLockM m txn) ++ (if (!s.hasGlobalLockM m txn) = true then [FsOp.create (lockPath n)] else []) ++
          (packedCommitM m c s txn ++ ((if (s.looseOf n).isSome then [FsOp.unlink n] else []) ++
            (if (!s.hasGlobalLockM m txn) = true then [FsOp.unlink (lockPath n)] else []))) := by
      cases hg : s.hasGlobalLockM m txn <;>
        simp [coreOfM, prepCoreEditM, renameCoreM, delCoreM, prepCoreEdit, renameCore, delCore, hg, List.append_assoc]
    rw [hcore]
    exact hB
  | update n new =>
    cases new with
    | sym t =>
      have hA := run_shapeA m c s txn h.chunk_ok n x (renderRef (.sym t))
      have hcore : coreOfM m c s txn (.update n (.sym t)) =
          pk0 (s.hasGlobalLockM m txn) ++ (FsOp.create (lockPath n) :: writeOps c.chunk (lockPath n) (renderRef (.sym t))) ++
            ([FsOp.rename (lockPath n) n] ++ packedCommitM m c s txn) := by
        simp [coreOfM, prepCoreEditM, renameCoreM, delCoreM, prepCoreEdit, renameCore, delCore, List.append_assoc]
      rw [hcore]
      exact hA
    | id hx =>
      by_cases hm : m = .r
      · subst hm
        have hg : s.hasGlobalLockM .r txn = true := global_of_obj (s := s) rfl he
        have hB := run_shapeB .r c s txn h.chunk_ok n x false
        have hcore : coreOfM .r c s txn (.update n (.id hx)) =
            pk0 (s.hasGlobalLockM .r txn) ++ (if false = true then [FsOp.create (lockPath n)] else []) ++
              (packedCommitM .r c s txn ++ ((if (s.looseOf n).isSome then [FsOp.unlink n] else []) ++
                (if false = true then [FsOp.unlink (lockPath n)] else []))) := by
          simp only [coreOfM, prepCoreEditM, renameCoreM, delCoreM, hg]
          simp [List.append_assoc]
        rw [hcore]
        simp only [AllowedM, finalNM, if_true, Edit.name]
        exact hB
      · have hA := run_shapeA m c s txn h.chunk_ok n x hx
        have hcore : coreOfM m c s txn (.update n (.id hx)) =
            pk0 (s.hasGlobalLockM m txn) ++ (FsOp.create (lockPath n) :: writeOps c.chunk (lockPath n) hx) ++
              ([FsOp.rename (lockPath n) n] ++ packedCommitM m c s txn) := by
          simp [coreOfM, prepCoreEditM, renameCoreM, delCoreM, prepCoreEdit, renameCore, delCore, hm, renderRef,
            List.append_assoc]
        rw [hcore]
        simp only [AllowedM, finalNM, hm, if_false, Edit.name]
        exact hA

theorem prefix_allowedM (m : Mode) (c : Cfg) (s : Store) (txn : List Edit) (h : TxnIn c s txn) (e : Edit)
    (he : e ∈ txn) (k : Nat) :
    AllowedM m s txn e (fileAt (applyAll ((txnStepsM m c s txn).take k) s.toFs) e.name)
      (fileAt (applyAll ((txnStepsM m c s txn).take k) s.toFs) packedPath) := by
  obtain ⟨j, hj⟩ := take_restrict (Qn e.name) (txnStepsM m c s txn) (steps_closedM m c s txn h e he) s.toFs k
  rw [steps_filterM m c s txn h e he] at hj
  have hq := Qn_self e.name
  rw [fileAt_congr (hj _ hq.1), fileAt_congr (hj _ hq.2.2.1)]
  exact (run_editM m c s txn h e he).1 j

theorem full_runM (m : Mode) (c : Cfg) (s : Store) (txn : List Edit) (h : TxnIn c s txn) (e : Edit) (he : e ∈ txn) :
    fileAt (applyAll (txnStepsM m c s txn) s.toFs) e.name = finalNM m e ∧
      fileAt (applyAll (txnStepsM m c s txn) s.toFs) packedPath = newPackedFileM m s txn := by
  have hq := Qn_self e.name
  have hr := applyAll_restrict (Qn e.name) (txnStepsM m c s txn) (steps_closedM m c s txn h e he) s.toFs s.toFs
    (fun _ _ => rfl)
  rw [steps_filterM m c s txn h e he] at hr
  rw [fileAt_congr (hr _ hq.1), fileAt_congr (hr _ hq.2.2.1)]
  exact (run_editM m c s txn h e he).2

end GixModel.C20
