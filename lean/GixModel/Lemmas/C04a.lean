import GixModel.Lemmas.C03
import GixModel.Model.C04
/-
C04 helper lemmas, part a: association lists, `joinPath` injectivity, and one tree (an entry list)
seen as a finite map name ↦ entry: what the double binary search finds, and that removing /
overwriting / inserting at the index it returns keeps the tree canonical (`TreeOk`).
-/
namespace GixModel.C04
open GixModel GixModel.Tree

/-! ### association lists -/

section assoc
variable {κ β : Type} [DecidableEq κ]

theorem aget_aset_self (k : κ) (v : β) (l : Assoc κ β) : aget k (aset k v l) = some v := by
  induction l with
  | nil => simp [aset, aget]
  | cons kv r ih =>
    obtain ⟨k', v'⟩ := kv
    by_cases h : k' = k
    · simp [aset, aget, h]
    · simp [aset, aget, h, ih]

theorem aget_aset_ne {k k' : κ} (v : β) (l : Assoc κ β) (h : k' ≠ k) :
    aget k' (aset k v l) = aget k' l := by
  induction l with
  | nil => simp [aset, aget, Ne.symm h]
  | cons kv r ih =>
    obtain ⟨k'', v''⟩ := kv
    by_cases h1 : k'' = k
    · subst h1
      simp [aset, aget, Ne.symm h]
    · by_cases h2 : k'' = k'
      · subst h2; simp [aset, aget, h]
      · simp [aset, aget, h1, h2, ih]

theorem aget_aerase_self (k : κ) (l : Assoc κ β) : aget k (aerase k l) = none := by
  induction l with
  | nil => rfl
  | cons kv r ih =>
    obtain ⟨k', v'⟩ := kv
    by_cases h : k' = k
    · simp [aerase, h, ih]
    · simp [aerase, aget, h, ih]

theorem aget_aerase_ne {k k' : κ} (l : Assoc κ β) (h : k' ≠ k) :
    aget k' (aerase k l) = aget k' l := by
  induction l with
  | nil => rfl
  | cons kv r ih =>
    obtain ⟨k'', v''⟩ := kv
    by_cases h1 : k'' = k
    · subst h1
      simp [aerase, aget, Ne.symm h, ih]
    · by_cases h2 : k'' = k'
      · subst h2; simp [aerase, aget, h]
      · simp [aerase, aget, h1, h2, ih]

theorem aget_filter_key (f : κ → Bool) (k : κ) (l : Assoc κ β) :
    aget k (l.filter (fun kv => f kv.1)) = if f k then aget k l else none := by
  induction l with
  | nil => simp [aget]
  | cons kv r ih =>
    obtain ⟨k', v'⟩ := kv
    by_cases hf : f k'
    · by_cases h : k' = k
      · subst h; simp [List.filter, hf, aget]
      · simp [List.filter, hf, aget, h, ih]
    · by_cases h : k' = k
      · subst h; simp [List.filter, hf, ih]
      · simp [List.filter, hf, aget, h, ih]

theorem aerase_length_le (k : κ) (l : Assoc κ β) : (aerase k l).length ≤ l.length := by
  induction l with
  | nil => simp [aerase]
  | cons kv r ih =>
    obtain ⟨k', v'⟩ := kv
    by_cases h : k' = k
    · simp [aerase, h]; omega
    · simp [aerase, h]; omega

theorem aerase_length_lt {k : κ} {l : Assoc κ β} {v : β} (h : aget k l = some v) :
    (aerase k l).length < l.length := by
  induction l with
  | nil => simp [aget] at h
  | cons kv r ih =>
    obtain ⟨k', v'⟩ := kv
    by_cases h1 : k' = k
    · have := aerase_length_le k r
      simp [aerase, h1]; omega
    · simp only [aget, h1, if_false] at h
      have := ih h
      simp [aerase, h1]; omega

end assoc

/-! ### one tree as a map from names to entries -/

def ValidName (n : Bytes) : Prop := n ≠ [] ∧ SlashFree n

instance (n : Bytes) : Decidable (ValidName n) := by unfold ValidName; infer_instance

def findName (t : List Entry) (n : Bytes) : Option Entry := t.find? (fun e => e.name == n)

/-- a canonical in-memory tree: strictly sorted, valid names, and no name twice (not even once as
file and once as directory) -/
structure TreeOk (t : List Entry) : Prop where
  sorted : Sorted t
  names : ∀ e ∈ t, ValidName e.name
  uniq : (t.map (·.name)).Nodup
  /-- directory entries have mode 040000 and never point at the empty tree (git writes no others) -/
  good : ∀ e ∈ t, e.isTree = true → e.oid ≠ emptyTreeId ∧ e.mode = 0o040000

/-- what a new entry has to satisfy for that -/
def GoodEntry (e : Entry) : Prop := e.isTree = true → e.oid ≠ emptyTreeId ∧ e.mode = 0o040000

theorem TreeOk.namesOk {t : List Entry} (h : TreeOk t) : NamesOk t := fun e he => (h.names e he).2

theorem treeOk_nil : TreeOk [] := ⟨by simp [Sorted], by simp, by simp, by simp⟩

theorem uniq_name_eq {t : List Entry} (hu : (t.map (·.name)).Nodup) {x y : Entry}
    (hx : x ∈ t) (hy : y ∈ t) (h : x.name = y.name) : x = y := by
  induction t with
  | nil => cases hx
  | cons a r ih =>
    simp only [List.map_cons, List.nodup_cons, List.mem_map, not_exists, not_and] at hu
    rcases List.mem_cons.1 hx with rfl | hx'
    · rcases List.mem_cons.1 hy with rfl | hy'
      · rfl
      · exact absurd h.symm (hu.1 y hy')
    · rcases List.mem_cons.1 hy with rfl | hy'
      · exact absurd h (hu.1 x hx')
      · exact ih hu.2 hx' hy'

theorem findName_eq_some_iff {t : List Entry} (hu : (t.map (·.name)).Nodup) {m : Bytes} {x : Entry} :
    findName t m = some x ↔ x ∈ t ∧ x.name = m := by
  unfold findName
  constructor
  · intro h
    have h2 := List.find?_some h
    exact ⟨List.mem_of_find?_eq_some h, by simpa using h2⟩
  · rintro ⟨hx, hn⟩
    cases hf : t.find? (fun e => e.name == m) with
    | none =>
      have := List.find?_eq_none.1 hf x hx
      simp [hn] at this
    | some y =>
      have hy := List.mem_of_find?_eq_some hf
      have hyn : y.name = m := by simpa using List.find?_some hf
      rw [uniq_name_eq hu hy hx (hyn.trans hn.symm)]

theorem findName_eq_none_iff {t : List Entry} {m : Bytes} :
    findName t m = none ↔ ∀ x ∈ t, x.name ≠ m := by
  unfold findName
  rw [List.find?_eq_none]
  constructor
  · intro h x hx; simpa using h x hx
  · intro h x hx; simpa using h x hx

/-- two trees with unique names and the same members define the same map -/
theorem findName_congr {t t' : List Entry} (hu : (t.map (·.name)).Nodup)
    (hu' : (t'.map (·.name)).Nodup) (hm : ∀ x, x ∈ t' ↔ x ∈ t) (m : Bytes) :
    findName t' m = findName t m := by
  apply Option.ext
  intro x
  rw [findName_eq_some_iff hu, findName_eq_some_iff hu', hm]

theorem entryCmp_congr {a a' b b' : Entry} (h1 : a.name = a'.name) (h2 : a.isTree = a'.isTree)
    (h3 : b.name = b'.name) (h4 : b.isTree = b'.isTree) : entryCmp a b = entryCmp a' b' := by
  simp only [entryCmp, h1, h2, h3, h4]

/-! ### the splice lemma: `L ++ y :: R` is canonical -/

theorem treeOk_splice {L R : List Entry} {y : Entry} (hLR : TreeOk (L ++ R))
    (hy : ValidName y.name) (hyg : GoodEntry y) (hfresh : ∀ x ∈ L ++ R, x.name ≠ y.name)
    (hL : ∀ a ∈ L, entryCmp a y = .lt) (hR : ∀ b ∈ R, entryCmp y b = .lt) :
    TreeOk (L ++ y :: R) := by
  have hs := List.pairwise_append.1 hLR.sorted
  refine ⟨?_, ?_, ?_, ?_⟩
  · refine List.pairwise_append.2 ⟨hs.1, List.pairwise_cons.2 ⟨hR, hs.2.1⟩, ?_⟩
    intro a ha b hb
    rcases List.mem_cons.1 hb with rfl | hb'
    · exact hL a ha
    · exact hs.2.2 a ha b hb'
  · intro e he
    rcases List.mem_append.1 he with h | h
    · exact hLR.names e (List.mem_append_left _ h)
    · rcases List.mem_cons.1 h with rfl | h'
      · exact hy
      · exact hLR.names e (List.mem_append_right _ h')
  · have hu := hLR.uniq
    simp only [List.map_append, List.map_cons] at hu ⊢
    have hu' := List.nodup_append.1 hu
    refine List.nodup_append.2 ⟨hu'.1, List.nodup_cons.2 ⟨?_, hu'.2.1⟩, ?_⟩
    · intro hmem
      obtain ⟨x, hx, hxn⟩ := List.mem_map.1 hmem
      exact hfresh x (List.mem_append_right _ hx) hxn
    · intro a ha b hb
      rcases List.mem_cons.1 hb with rfl | hb'
      · obtain ⟨x, hx, hxn⟩ := List.mem_map.1 ha
        intro heq
        exact hfresh x (List.mem_append_left _ hx) (hxn.trans heq)
      · exact hu'.2.2 a ha b hb'
  · intro e he hd
    rcases List.mem_append.1 he with h | h
    · exact hLR.good e (List.mem_append_left _ h) hd
    · rcases List.mem_cons.1 h with rfl | h'
      · exact hyg hd
      · exact hLR.good e (List.mem_append_right _ h') hd

theorem treeOk_unsplice {L R : List Entry} {x : Entry} (h : TreeOk (L ++ x :: R)) :
    TreeOk (L ++ R) ∧ (∀ a ∈ L, entryCmp a x = .lt) ∧ (∀ b ∈ R, entryCmp x b = .lt) ∧
    (∀ z ∈ L ++ R, z.name ≠ x.name) := by
  have hs := List.pairwise_append.1 h.sorted
  have hsx := List.pairwise_cons.1 hs.2.1
  have hu := h.uniq
  simp only [List.map_append, List.map_cons] at hu
  have hu' := List.nodup_append.1 hu
  have hux := List.nodup_cons.1 hu'.2.1
  refine ⟨⟨?_, ?_, ?_, ?_⟩, ?_, hsx.1, ?_⟩
  · refine List.pairwise_append.2 ⟨hs.1, hsx.2, ?_⟩
    intro a ha b hb
    exact hs.2.2 a ha b (List.mem_cons_of_mem _ hb)
  · intro e he
    rcases List.mem_append.1 he with h' | h'
    · exact h.names e (List.mem_append_left _ h')
    · exact h.names e (List.mem_append_right _ (List.mem_cons_of_mem _ h'))
  · simp only [List.map_append]
    refine List.nodup_append.2 ⟨hu'.1, hux.2, ?_⟩
    intro a ha b hb
    exact hu'.2.2 a ha b (List.mem_cons_of_mem _ hb)
  · intro e he hd
    rcases List.mem_append.1 he with h' | h'
    · exact h.good e (List.mem_append_left _ h') hd
    · exact h.good e (List.mem_append_right _ (List.mem_cons_of_mem _ h')) hd
  · intro a ha
    exact hs.2.2 a ha x (List.mem_cons_self)
  · intro z hz
    rcases List.mem_append.1 hz with h' | h'
    · intro heq
      exact hu'.2.2 z.name (List.mem_map.2 ⟨z, h', rfl⟩) x.name (List.mem_cons_self) heq
    · intro heq
      exact hux.1 (List.mem_map.2 ⟨z, h', heq⟩)

/-- membership in a spliced list -/
theorem mem_splice {L R : List Entry} {y z : Entry} : z ∈ L ++ y :: R ↔ z = y ∨ z ∈ L ++ R := by
  simp only [List.mem_append, List.mem_cons]
  constructor
  · rintro (h | h | h)
    · exact Or.inr (Or.inl h)
    · exact Or.inl h
    · exact Or.inr (Or.inr h)
  · rintro (h | h | h)
    · exact Or.inr (Or.inl h)
    · exact Or.inl h
    · exact Or.inr (Or.inr h)

/-! ### the map after a splice -/

theorem findName_splice {L R : List Entry} {y : Entry} (h : TreeOk (L ++ y :: R)) (m : Bytes) :
    findName (L ++ y :: R) m = if m = y.name then some y else findName (L ++ R) m := by
  obtain ⟨hLR, _, _, hfresh⟩ := treeOk_unsplice h
  by_cases hm : m = y.name
  · simp only [hm, if_true]
    exact (findName_eq_some_iff h.uniq).2 ⟨mem_splice.2 (Or.inl rfl), rfl⟩
  · simp only [hm, if_false]
    apply Option.ext
    intro x
    rw [findName_eq_some_iff h.uniq, findName_eq_some_iff hLR.uniq, mem_splice]
    constructor
    · rintro ⟨h1 | h1, h2⟩
      · subst h1; exact absurd h2.symm hm
      · exact ⟨h1, h2⟩
    · rintro ⟨h1, h2⟩; exact ⟨Or.inr h1, h2⟩

theorem findName_unsplice {L R : List Entry} {x : Entry} (h : TreeOk (L ++ x :: R)) (m : Bytes) :
    findName (L ++ R) m = if m = x.name then none else findName (L ++ x :: R) m := by
  obtain ⟨hLR, _, _, hfresh⟩ := treeOk_unsplice h
  by_cases hm : m = x.name
  · simp only [hm, if_true]
    exact findName_eq_none_iff.2 hfresh
  · simp only [hm, if_false]
    rw [findName_splice h m]; simp [hm]

/-! ### what the double binary search answers on a canonical tree -/

theorem probe_mono {t : List Entry} (ht : TreeOk t) {n : Bytes} (hn : ValidName n) (d : Bool) :
    Mono (fun e => cmpEntryWithName e n d) t :=
  mono_of_sorted ht.namesOk ht.sorted n d hn.2

theorem probe_eq {t : List Entry} (ht : TreeOk t) {n : Bytes} (hn : ValidName n) {d : Bool}
    {e : Entry} (he : e ∈ t) : cmpEntryWithName e n d = .eq ↔ e.name = n ∧ e.isTree = d :=
  probe_eq_iff (ht.namesOk e he) hn.2

/-- the partition an `Err(i)` of `binary_search_by` stands for, in terms of `take`/`drop` -/
def PartAt (t : List Entry) (n : Bytes) (d : Bool) (i : Nat) : Prop :=
  i ≤ t.length ∧ (∀ a ∈ t.take i, cmpNames a.name a.isTree n d = .lt) ∧
    (∀ b ∈ t.drop i, cmpNames b.name b.isTree n d = .gt)

theorem bs_cases {t : List Entry} (ht : TreeOk t) {n : Bytes} (hn : ValidName n) (d : Bool) :
    (∃ i, binarySearchBy t (fun e => cmpEntryWithName e n d) = .found i ∧
      ∃ h : i < t.length, t[i].name = n ∧ t[i].isTree = d) ∨
    (∃ i, binarySearchBy t (fun e => cmpEntryWithName e n d) = .insertAt i ∧ PartAt t n d i) := by
  have hs := binarySearchBy_spec t _ (probe_mono ht hn d)
  cases hb : binarySearchBy t (fun e => cmpEntryWithName e n d) with
  | oob => rw [hb] at hs; exact absurd hs id
  | found i =>
    rw [hb] at hs
    obtain ⟨hi, heq⟩ := hs
    exact Or.inl ⟨i, rfl, hi, (probe_eq ht hn (List.getElem_mem hi)).1 heq⟩
  | insertAt i =>
    rw [hb] at hs
    obtain ⟨hle, hlt, hgt⟩ := hs
    refine Or.inr ⟨i, rfl, hle, ?_, ?_⟩
    · intro a ha
      obtain ⟨j, hj, rfl⟩ := List.mem_take_iff_getElem.1 ha
      have hj' : j < t.length := by omega
      exact hlt j hj' (by omega)
    · intro b hb'
      obtain ⟨j, hj, rfl⟩ := List.mem_drop_iff_getElem.1 hb'
      exact hgt (i + j) (by omega) (by omega)

theorem partAt_no_match {t : List Entry} {n : Bytes} {d : Bool} {i : Nat} (hp : PartAt t n d i)
    {e : Entry} (he : e ∈ t) : cmpNames e.name e.isTree n d ≠ .eq := by
  rw [← List.take_append_drop i t] at he
  rcases List.mem_append.1 he with h | h
  · rw [hp.2.1 e h]; simp
  · rw [hp.2.2 e h]; simp

theorem searchName_found {t : List Entry} (ht : TreeOk t) {n : Bytes} (hn : ValidName n)
    {e : Entry} (he : findName t n = some e) (mb : Bool) :
    ∃ i, searchName t n mb = .found i ∧ ∃ h : i < t.length, t[i] = e := by
  obtain ⟨hmem, hname⟩ := (findName_eq_some_iff ht.uniq).1 he
  unfold searchName
  rcases bs_cases ht hn false with ⟨i, hb, hi, hni, _⟩ | ⟨fi, hb, hpf⟩
  · rw [hb]
    exact ⟨i, rfl, hi, uniq_name_eq ht.uniq (List.getElem_mem hi) hmem (hni.trans hname.symm)⟩
  · rw [hb]
    simp only
    rcases bs_cases ht hn true with ⟨i, hb2, hi, hni, _⟩ | ⟨di, hb2, hpd⟩
    · rw [hb2]
      exact ⟨i, rfl, hi, uniq_name_eq ht.uniq (List.getElem_mem hi) hmem (hni.trans hname.symm)⟩
    · exfalso
      cases hd : e.isTree with
      | false =>
        exact partAt_no_match hpf hmem ((probe_eq ht hn hmem).2 ⟨hname, hd⟩)
      | true =>
        exact partAt_no_match hpd hmem ((probe_eq ht hn hmem).2 ⟨hname, hd⟩)

theorem searchName_absent {t : List Entry} (ht : TreeOk t) {n : Bytes} (hn : ValidName n)
    (hno : findName t n = none) (mb : Bool) :
    ∃ i, searchName t n mb = .insertAt i ∧ PartAt t n mb i := by
  have hno' := findName_eq_none_iff.1 hno
  unfold searchName
  rcases bs_cases ht hn false with ⟨i, _, hi, hni, _⟩ | ⟨fi, hb, hpf⟩
  · exact absurd hni (hno' _ (List.getElem_mem hi))
  · rw [hb]
    simp only
    rcases bs_cases ht hn true with ⟨i, _, hi, hni, _⟩ | ⟨di, hb2, hpd⟩
    · exact absurd hni (hno' _ (List.getElem_mem hi))
    · rw [hb2]
      cases mb with
      | false => exact ⟨fi, rfl, hpf⟩
      | true => exact ⟨di, rfl, hpd⟩

/-- inserting a fresh entry at the index the search returned keeps the tree canonical -/
theorem treeOk_insertAt {t : List Entry} (ht : TreeOk t) {n : Bytes} (hn : ValidName n)
    (hno : findName t n = none) {mb : Bool} {i : Nat} (hp : PartAt t n mb i) (e : Entry)
    (hen : e.name = n) (het : e.isTree = mb) (heg : GoodEntry e) : TreeOk (insertAt t i e) := by
  unfold insertAt
  have hno' := findName_eq_none_iff.1 hno
  refine treeOk_splice (by rw [List.take_append_drop]; exact ht) (hen ▸ hn) heg ?_ ?_ ?_
  · intro x hx
    rw [List.take_append_drop] at hx
    rw [hen]; exact hno' x hx
  · intro a ha
    have := hp.2.1 a ha
    simpa only [entryCmp, hen, het] using this
  · intro b hb
    have := hp.2.2 b hb
    rw [← entryCmp_swap]
    have h2 : entryCmp b e = .gt := by simpa only [entryCmp, hen, het] using this
    rw [h2]; rfl

theorem findName_insertAt {t : List Entry} (ht : TreeOk t) {n : Bytes} (hn : ValidName n)
    (hno : findName t n = none) {mb : Bool} {i : Nat} (hp : PartAt t n mb i) (e : Entry)
    (hen : e.name = n) (het : e.isTree = mb) (heg : GoodEntry e) (m : Bytes) :
    findName (insertAt t i e) m = if m = n then some e else findName t m := by
  have hok := treeOk_insertAt ht hn hno hp e hen het heg
  unfold insertAt at hok ⊢
  rw [findName_splice hok m, List.take_append_drop, hen]

/-- split a tree at an index -/
theorem split_at {t : List Entry} {i : Nat} (hi : i < t.length) :
    t = t.take i ++ t[i] :: t.drop (i + 1) := by
  rw [← List.drop_eq_getElem_cons hi, List.take_append_drop]

theorem treeOk_eraseIdx {t : List Entry} (ht : TreeOk t) {i : Nat} (hi : i < t.length) :
    TreeOk (t.eraseIdx i) := by
  rw [List.eraseIdx_eq_take_drop_succ]
  have := split_at hi
  rw [this] at ht
  exact (treeOk_unsplice ht).1

theorem findName_eraseIdx {t : List Entry} (ht : TreeOk t) {i : Nat} (hi : i < t.length)
    (m : Bytes) : findName (t.eraseIdx i) m = if m = t[i].name then none else findName t m := by
  rw [List.eraseIdx_eq_take_drop_succ]
  have hsplit := split_at hi
  have ht' := ht
  rw [hsplit] at ht'
  rw [findName_unsplice ht' m, ← hsplit]

/-- overwrite the entry at `i` keeping its name and kind: no re-sort needed -/
theorem treeOk_set_same {t : List Entry} (ht : TreeOk t) {i : Nat} (hi : i < t.length) (e : Entry)
    (hen : e.name = t[i].name) (het : e.isTree = t[i].isTree) (heg : GoodEntry e) :
    TreeOk (t.set i e) := by
  rw [List.set_eq_take_append_cons_drop, if_pos hi]
  have hsplit := split_at hi
  have ht' := ht
  rw [hsplit] at ht'
  obtain ⟨hLR, hL, hR, hfresh⟩ := treeOk_unsplice ht'
  refine treeOk_splice hLR (hen ▸ ht.names _ (List.getElem_mem hi)) heg ?_ ?_ ?_
  · intro x hx; rw [hen]; exact hfresh x hx
  · intro a ha; rw [entryCmp_congr rfl rfl hen het]; exact hL a ha
  · intro b hb; rw [entryCmp_congr hen het rfl rfl]; exact hR b hb

/-- overwrite the entry at `i` keeping its name, then `sort()`: canonical whatever the kinds -/
theorem treeOk_set_sort {t : List Entry} (ht : TreeOk t) {i : Nat} (hi : i < t.length) (e : Entry)
    (hen : e.name = t[i].name) (heg : GoodEntry e) : TreeOk (sortEntries (t.set i e)) := by
  have hsplit := split_at hi
  have ht' := ht
  rw [hsplit] at ht'
  obtain ⟨hLR, _, _, hfresh⟩ := treeOk_unsplice ht'
  have hset : t.set i e = t.take i ++ e :: t.drop (i + 1) := by
    rw [List.set_eq_take_append_cons_drop, if_pos hi]
  have hvalid : ValidName e.name := hen ▸ ht.names _ (List.getElem_mem hi)
  have hnames : ∀ x ∈ t.set i e, ValidName x.name := by
    intro x hx
    rw [hset] at hx
    rcases mem_splice.1 hx with rfl | h
    · exact hvalid
    · exact hLR.names x h
  have huniq : ((t.set i e).map (·.name)).Nodup := by
    rw [hset]
    have hu := hLR.uniq
    simp only [List.map_append, List.map_cons] at hu ⊢
    have hu' := List.nodup_append.1 hu
    refine List.nodup_append.2 ⟨hu'.1, List.nodup_cons.2 ⟨?_, hu'.2.1⟩, ?_⟩
    · intro hmem
      obtain ⟨x, hx, hxn⟩ := List.mem_map.1 hmem
      exact hfresh x (List.mem_append_right _ hx) (hxn.trans hen)
    · intro a ha b hb
      rcases List.mem_cons.1 hb with rfl | hb'
      · obtain ⟨x, hx, hxn⟩ := List.mem_map.1 ha
        intro heq
        exact hfresh x (List.mem_append_left _ hx) ((hxn.trans heq).trans hen)
      · exact hu'.2.2 a ha b hb'
  have hperm := sortEntries_perm (t.set i e)
  have hkeys : ((t.set i e).map Entry.key).Nodup := by
    -- different names give different keys (names are slash-free)
    refine List.pairwise_map.2 ?_
    have hp := List.pairwise_map.1 huniq
    refine (List.Pairwise.and_mem.1 hp).imp ?_
    rintro a b ⟨ha, hb, hne⟩ hk
    exact hne (key_inj (hnames a ha).2 (hnames b hb).2 hk).1
  refine ⟨sortEntries_sorted _ (fun x hx => (hnames x hx).2) hkeys, ?_, ?_, ?_⟩
  · intro x hx; exact hnames x (hperm.subset hx)
  · exact (hperm.map (·.name)).nodup_iff.2 huniq
  · intro x hx hd
    have hx' := hperm.subset hx
    rw [hset] at hx'
    rcases mem_splice.1 hx' with rfl | h
    · exact heg hd
    · exact hLR.good x h hd

theorem mem_set_iff {t : List Entry} (ht : TreeOk t) {i : Nat} (hi : i < t.length) (e x : Entry) :
    x ∈ t.set i e ↔ x = e ∨ (x ∈ t ∧ x.name ≠ t[i].name) := by
  have hsplit := split_at hi
  have ht' := ht
  rw [hsplit] at ht'
  obtain ⟨hLR, _, _, hfresh⟩ := treeOk_unsplice ht'
  rw [List.set_eq_take_append_cons_drop, if_pos hi, mem_splice]
  constructor
  · rintro (h | h)
    · exact Or.inl h
    · refine Or.inr ⟨?_, hfresh x h⟩
      rw [hsplit]; exact mem_splice.2 (Or.inr h)
  · rintro (h | ⟨h1, h2⟩)
    · exact Or.inl h
    · rw [hsplit] at h1
      rcases mem_splice.1 h1 with rfl | h
      · exact absurd rfl h2
      · exact Or.inr h

/-- the map after overwriting the entry named `t[i].name` (with or without the re-sort) -/
theorem findName_set {t t' : List Entry} (ht : TreeOk t) {i : Nat} (hi : i < t.length) (e : Entry)
    (hen : e.name = t[i].name) (ht' : TreeOk t') (hmem : ∀ x, x ∈ t' ↔ x ∈ t.set i e) (m : Bytes) :
    findName t' m = if m = t[i].name then some e else findName t m := by
  by_cases hm : m = t[i].name
  · simp only [hm, if_true]
    exact (findName_eq_some_iff ht'.uniq).2 ⟨(hmem e).2 ((mem_set_iff ht hi e e).2 (Or.inl rfl)), hen⟩
  · simp only [hm, if_false]
    apply Option.ext
    intro x
    rw [findName_eq_some_iff ht'.uniq, findName_eq_some_iff ht.uniq, hmem, mem_set_iff ht hi]
    constructor
    · rintro ⟨h1 | ⟨h1, _⟩, h2⟩
      · subst h1; exact absurd (h2.symm.trans hen) hm
      · exact ⟨h1, h2⟩
    · rintro ⟨h1, h2⟩
      exact ⟨Or.inr ⟨h1, fun h => hm (h2.symm.trans h)⟩, h2⟩

end GixModel.C04
