import GixModel.Lemmas.C48Print
/-
C48 — `tokenize` on printed specs (all delegate calls accepted): the pieces of `tokenize_print`.
-/
namespace GixModel.C48
open GixModel GixModel.Spec.C48

theorem tokenize_not_caret (D : Delegate) (dateOk : Bytes → Bool) (input : Bytes)
    (h : input.head? ≠ some 94) : tokenize D dateOk input = parseStart D dateOk {} input none := by
  unfold tokenize
  split
  · simp at h
  · rfl

theorem tokenize_caret (dateOk : Bytes → Bool) (rest : Bytes) :
    tokenize allYes dateOk (94 :: rest) =
      parseStart allYes dateOk (({} : St).push (.kind .excludeReachable)) rest (some .excludeReachable) := by
  simp [tokenize]

/-- the result of a run that ends with `done()` and `Ok(())` -/
theorem finish_markDone (s : St) : s.markDone.finish .ok = ⟨s.calls.reverse ++ [.done], .ok⟩ := by
  simp [St.finish, St.markDone]

theorem ne_append_self {p t : Bytes} (hp : p ≠ []) : (t != p ++ t) = true := by
  simp only [bne_iff_ne, ne_eq]
  intro h
  have := congrArg List.length h
  simp only [List.length_append] at this
  cases p with
  | nil => exact hp rfl
  | cons _ _ => simp only [List.length_cons] at this; omega

theorem nil_ne_cons (b : UInt8) (r : Bytes) : (([] : Bytes) != b :: r) = true := by
  simp

/-! ### empty revisions (a missing side of a range) -/

theorem revision_nil (dateOk : Bytes → Bool) (s : St) (k : St → Bytes → Res) :
    revision allYes dateOk s [] k = k s [] := by
  rw [revision_main _ _ _ _ _ (by simp)]
  have : scan true (some 0) [] [] = ([], [], some 0) := rfl
  rw [this]
  unfold revisionMain
  simp only [List.isEmpty_nil, List.head?_nil, Bool.and_false, Bool.false_and, Bool.false_eq_true, if_false]
  rw [nameChain_empty s (some 0) (by decide)]
  simp only [Bool.not_true, Bool.and_false]
  rw [afterName_plain _ _ _ _ _ _ _ (by simp) (Or.inl rfl)]
  simp [navigate]

theorem revision_dots (dateOk : Bytes → Bool) (s : St) (r : Bytes) (k : St → Bytes → Res) :
    revision allYes dateOk s (46 :: 46 :: r) k = k s (46 :: 46 :: r) := by
  rw [revision_main _ _ _ _ _ (by simp)]
  rw [scan_end true (some 0) [] _ (Or.inr (Or.inr (Or.inl ⟨r, rfl⟩)))]
  unfold revisionMain
  have h1 : ((46 : UInt8) == 64) = false := by decide
  simp only [List.reverse_nil, List.isEmpty_nil, List.head?_cons, Bool.true_and]
  have : (some (46 : UInt8) == some 64) = false := by decide
  simp only [this, Bool.false_and, Bool.false_eq_true, if_false]
  rw [nameChain_empty s (some 0) (by decide)]
  simp only
  rw [afterName_plain _ _ _ _ _ _ _ (by simp) (Or.inr (by simp))]
  simp [navigate]

/-! ### after the first revision -/

theorem after_closed (D : Delegate) (dateOk : Bytes → Bool) (input : Bytes) (prev : Option SKind) (s : St)
    (hd : s.done = false) :
    parseAfterFirst D dateOk input prev s [] = ⟨s.calls.reverse ++ [.done], .ok⟩ := by
  unfold parseAfterFirst
  simp [hd, tryRange, finishParse, finish_markDone]

theorem after_done (D : Delegate) (dateOk : Bytes → Bool) (input : Bytes) (prev : Option SKind) (s : St)
    (hd : s.done = true) :
    parseAfterFirst D dateOk input prev s [] = ⟨s.calls.reverse, .ok⟩ := by
  unfold parseAfterFirst
  simp [hd, St.finish]

theorem optRev_none : optRev none = [] := rfl
theorem optRev_some (r : Rev) : optRev (some r) = r.print := rfl
theorem optRevCalls_none : optRevCalls none = [.findRef HEAD] := rfl
theorem optRevCalls_some (r : Rev) : optRevCalls (some r) = r.calls := rfl

/-- the right-hand side of a range -/
theorem parseSecond_print (dateOk : Bytes → Bool) (kind : SKind) (b : Option Rev) (hb : OptWf dateOk b)
    (s : St) (hd : s.done = false) :
    parseSecond allYes dateOk kind (optRev b) s =
      ⟨s.calls.reverse ++ [.kind kind] ++ optRevCalls b ++ [.done], .ok⟩ := by
  unfold parseSecond
  simp only [callK_allYes]
  cases b with
  | none =>
    rw [optRev_none, optRevCalls_none, revision_nil]
    simp only [bne_self_eq_false, Bool.false_eq_true, if_false, callK_allYes]
    simp [finishParse, finish_markDone, St.push]
  | some r =>
    obtain ⟨c, rest, hp, _⟩ := Rev.print_head dateOk r hb
    rw [optRev_some, optRevCalls_some, revision_closed dateOk r hb]
    simp only [hp, nil_ne_cons, if_true]
    simp [finishParse, finish_markDone, pushAll_calls, St.push]

theorem tryRange_two (r : Bytes) (h : r.head? ≠ some 46) : tryRange (46 :: 46 :: r) = some (r, .rangeBetween) := by
  unfold tryRange
  split
  · rename_i r' heq
    simp only [List.cons.injEq, true_and] at heq
    rw [heq] at h
    simp at h
  · rename_i r' heq
    simp only [List.cons.injEq, true_and] at heq
    rw [heq]
  · rename_i h1 h2; exact absurd rfl (h2 r)

theorem tryRange_three (r : Bytes) : tryRange (46 :: 46 :: 46 :: r) = some (r, .reachableToMergeBase) := rfl

/-- `a<tl>` where `tl = <dots><b>` starts with `..` and is recognised by `try_range` as `kind` -/
theorem range_print (dateOk : Bytes → Bool) (kind : SKind) (a b : Option Rev) (tl rr : Bytes)
    (hrr : tl = 46 :: 46 :: rr)
    (htry : tryRange tl = some (optRev b, kind))
    (ha : OptWf dateOk a) (hopen : OptOpen a) (hb : OptWf dateOk b) :
    tokenize allYes dateOk (optRev a ++ tl) =
      ⟨optRevCalls a ++ [.kind kind] ++ optRevCalls b ++ [.done], .ok⟩ := by
  cases a with
  | none =>
    rw [optRev_none, optRevCalls_none, List.nil_append]
    rw [tokenize_not_caret _ _ _ (by rw [hrr]; simp)]
    unfold parseStart
    have hrev : ∀ k, revision allYes dateOk {} tl k = k {} tl := by
      intro k; rw [hrr]; exact revision_dots _ _ _ _
    rw [hrev]
    unfold parseAfterFirst
    rw [htry]
    simp only [bne_self_eq_false, Bool.false_eq_true, if_false, callK_allYes]
    have hd : (({} : St).push (.findRef HEAD)).done = false := rfl
    rw [parseSecond_print dateOk kind b hb _ hd]
    simp [St.push]
  | some r =>
    cases r with
    | searchAll re neg => exact absurd hopen (by simp [OptOpen, Rev.Open])
    | index st p => exact absurd hopen (by simp [OptOpen, Rev.Open])
    | nav an ns p =>
      cases p with
      | some p => exact absurd hopen (by simp [OptOpen, Rev.Open])
      | none =>
        obtain ⟨han, hns⟩ := ha
        obtain ⟨c, rest, hp, h94⟩ := Rev.print_head dateOk (.nav an ns none) ⟨han, hns⟩
        have hne : (Rev.nav an ns none).print ≠ [] := by rw [hp]; simp
        rw [optRev_some, optRevCalls_some]
        rw [tokenize_not_caret _ _ _ (by rw [hp]; simpa using h94)]
        unfold parseStart
        have hpr : (Rev.nav an ns none).print = an.print ++ printNavs ns := by
          simp [Rev.print, printPath]
        have hrev : ∀ k, revision allYes dateOk {} ((Rev.nav an ns none).print ++ tl) k
            = k (({} : St).pushAll (an.calls ++ ns.map Nav.call)) tl := by
          intro k
          obtain ⟨F, hF⟩ := revision_open dateOk an ns han hns (46 :: 46 :: rr) (.range rr) {} k
          rw [hrr, hpr, hF, navigate_dot]
        rw [hrev]
        unfold parseAfterFirst
        have hd : (({} : St).pushAll (an.calls ++ ns.map Nav.call)).done = false := by
          rw [pushAll_done]
        rw [hd, htry]
        have hneq := ne_append_self (t := tl) hne
        simp only [Bool.false_eq_true, if_false, hneq, if_true]
        rw [parseSecond_print dateOk kind b hb _ hd, pushAll_calls]
        simp [Rev.calls, pathCalls]

/-! ### `r^@`, `r^!`, `r^-n` -/

theorem open_rev_cases {r : Rev} (h : r.Open) : ∃ a ns, r = .nav a ns none := by
  cases r with
  | nav a ns p =>
    cases p with
    | none => exact ⟨a, ns, rfl⟩
    | some p => exact absurd h (by simp [Rev.Open])
  | searchAll _ _ => exact absurd h (by simp [Rev.Open])
  | index _ _ => exact absurd h (by simp [Rev.Open])

/-- an open revision followed by an end marker, inside `tokenize` -/
theorem tokenize_open (dateOk : Bytes → Bool) (a : Anchor) (ns : List Nav) (ha : a.Wf dateOk)
    (hns : ∀ n ∈ ns, n.Wf) (t : Bytes) (ht : EndOk t) :
    ∃ F, tokenize allYes dateOk ((Rev.nav a ns none).print ++ t) =
      navigate allYes (F + 1) (({} : St).pushAll (a.calls ++ ns.map Nav.call)) t
        (parseAfterFirst allYes dateOk ((Rev.nav a ns none).print ++ t) none) := by
  obtain ⟨c, rest, hp, h94⟩ := Rev.print_head dateOk (.nav a ns none) ⟨ha, hns⟩
  have hpr : (Rev.nav a ns none).print = a.print ++ printNavs ns := by simp [Rev.print, printPath]
  obtain ⟨F, hF⟩ := revision_open dateOk a ns ha hns t ht {}
    (parseAfterFirst allYes dateOk ((Rev.nav a ns none).print ++ t) none)
  refine ⟨F, ?_⟩
  rw [tokenize_not_caret _ _ _ (by rw [hp]; simpa using h94)]
  unfold parseStart
  rw [← hF, hpr]

theorem parents_print (dateOk : Bytes → Bool) (a : Anchor) (ns : List Nav) (ha : a.Wf dateOk)
    (hns : ∀ n ∈ ns, n.Wf) :
    tokenize allYes dateOk ((Rev.nav a ns none).print ++ [94, 64]) =
      ⟨(Rev.nav a ns none).calls ++ [.kind .includeParents, .done], .ok⟩ := by
  obtain ⟨F, hF⟩ := tokenize_open dateOk a ns ha hns [94, 64] (.parents [])
  rw [hF, navigate_parents, after_done _ _ _ _ _ rfl]
  simp [St.markDone, St.push, pushAll_calls, Rev.calls, pathCalls]

theorem exclParents_print (dateOk : Bytes → Bool) (a : Anchor) (ns : List Nav) (ha : a.Wf dateOk)
    (hns : ∀ n ∈ ns, n.Wf) :
    tokenize allYes dateOk ((Rev.nav a ns none).print ++ [94, 33]) =
      ⟨(Rev.nav a ns none).calls ++ [.kind .excludeParents, .done], .ok⟩ := by
  obtain ⟨F, hF⟩ := tokenize_open dateOk a ns ha hns [94, 33] (.exclParents [])
  rw [hF, navigate_exclParents, after_done _ _ _ _ _ rfl]
  simp [St.markDone, St.push, pushAll_calls, Rev.calls, pathCalls]

/-- what the `InterceptRev` wrapper remembers after the anchor and the navigation of a
remembered revision -/
theorem remembered_state (a : Anchor) (ns : List Nav) (p : Option Bytes)
    (hrem : (Rev.nav a ns p).Remembered) :
    let s := ({} : St).pushAll (a.calls ++ ns.map Nav.call)
    (∃ h hint, s.lastPrefix = some (h, hint) ∧ (Rev.nav a ns p).anchorAgain = [.prefix h hint]) ∨
    (s.lastPrefix = none ∧ ∃ n, s.lastRef = some n ∧ (Rev.nav a ns p).anchorAgain = [.findRef n]) := by
  intro s
  have hs : s = (({} : St).pushAll a.calls).pushAll (ns.map Nav.call) := pushAll_append _ _ _
  obtain ⟨h1, h2⟩ := pushAll_lastPrefix_navs ns (({} : St).pushAll a.calls)
  rw [← hs] at h1 h2
  cases a with
  | ref n => right; exact ⟨by rw [h1]; rfl, n, by rw [h2]; rfl, rfl⟩
  | hex h => left; exact ⟨h.map lower, .none, by rw [h1]; rfl, rfl⟩
  | describe r g h => left; exact ⟨h.map lower, .anchor r g, by rw [h1]; rfl, rfl⟩
  | head => right; exact ⟨by rw [h1]; rfl, HEAD, by rw [h2]; rfl, rfl⟩
  | reflog _ _ => cases ns <;> exact absurd hrem (by simp [Rev.Remembered])
  | nthCheckedOut _ => cases ns <;> exact absurd hrem (by simp [Rev.Remembered])
  | sibling _ _ => cases ns <;> exact absurd hrem (by simp [Rev.Remembered])
  | date _ _ => cases ns <;> exact absurd hrem (by simp [Rev.Remembered])

theorem parentRange_print (dateOk : Bytes → Bool) (a : Anchor) (ns : List Nav) (ha : a.Wf dateOk)
    (hns : ∀ n ∈ ns, n.Wf) (hrem : (Rev.nav a ns none).Remembered) (n : Nat) (h1 : 1 ≤ n) (h2 : n < 2 ^ 63) :
    tokenize allYes dateOk ((Rev.nav a ns none).print ++ [94, 45] ++ natDec n) =
      ⟨(Rev.nav a ns none).calls ++ [.parent n, .kind .rangeBetween] ++ (Rev.nav a ns none).anchorAgain
        ++ [.done], .ok⟩ := by
  have happ : (Rev.nav a ns none).print ++ [94, 45] ++ natDec n
      = (Rev.nav a ns none).print ++ (94 :: 45 :: natDec n) := by simp
  obtain ⟨F, hF⟩ := tokenize_open dateOk a ns ha hns (94 :: 45 :: natDec n) (.parentRange _)
  rw [happ, hF]
  have hI := tryParseIsize_neg n h1 h2
  have hnn : (-(n : Int) == -(2 ^ 63 : Int)) = false := by
    simp only [beq_eq_false_iff_ne, ne_eq]; omega
  have hpos : ¬ (0 < -(n : Int)) := by omega
  have hdrop : (45 :: natDec n).drop ((natDec n).length + 1) = [] := by simp
  simp only [navigate, hI]
  simp only [beq_self_eq_true, if_true, hnn, Bool.false_eq_true, if_false, hpos, callK_allYes,
    Int.natAbs_neg, Int.natAbs_natCast, hdrop]
  have hst := remembered_state a ns none hrem
  simp only at hst
  have hpush : ∀ s : St, ((s.push (.parent n)).push (.kind .rangeBetween)).lastPrefix = s.lastPrefix ∧
      ((s.push (.parent n)).push (.kind .rangeBetween)).lastRef = s.lastRef := fun s => ⟨rfl, rfl⟩
  rcases hst with ⟨h, hint, hlp, hagain⟩ | ⟨hlp, m, hlr, hagain⟩
  · rw [(hpush _).1, hlp]
    simp only [callK_allYes]
    rw [after_done _ _ _ _ _ rfl, hagain]
    simp [St.markDone, St.push, pushAll_calls, Rev.calls, pathCalls]
  · rw [(hpush _).1, hlp]
    simp only
    rw [(hpush _).2, hlr]
    simp only [callK_allYes]
    rw [after_done _ _ _ _ _ rfl, hagain]
    simp [St.markDone, St.push, pushAll_calls, Rev.calls, pathCalls]

/-! ### single and excluded revisions -/

theorem single_print (dateOk : Bytes → Bool) (r : Rev) (hwf : r.Wf dateOk) :
    tokenize allYes dateOk r.print = ⟨r.calls ++ [.done], .ok⟩ := by
  obtain ⟨c, rest, hp, h94⟩ := Rev.print_head dateOk r hwf
  rw [tokenize_not_caret _ _ _ (by rw [hp]; simpa using h94)]
  unfold parseStart
  rw [revision_closed dateOk r hwf, after_closed _ _ _ _ _ (by rw [pushAll_done]), pushAll_calls]
  simp

theorem exclude_print (dateOk : Bytes → Bool) (r : Rev) (hwf : r.Wf dateOk) :
    tokenize allYes dateOk (94 :: r.print) = ⟨.kind .excludeReachable :: r.calls ++ [.done], .ok⟩ := by
  rw [tokenize_caret]
  unfold parseStart
  rw [revision_closed dateOk r hwf, after_closed _ _ _ _ _ (by rw [pushAll_done]; rfl), pushAll_calls]
  simp [St.push]

end GixModel.C48
