import GixModel.Spec.C48Denote
/-
C48 (round 2) — the delegate model interprets the calls of a spec as the denotational semantics says.
-/
namespace GixModel.C48R
open GixModel GixModel.C48 GixModel.Spec.C48D
open GixModel.Spec.C48 (Nav Anchor Rev Ast nameCalls pathCalls optRevCalls)

/-- the candidates of a slot once references have been followed -/
def sval (x : Slot) : Option (List Nat) := x.follow.objs

def DState.other (s : DState) : Slot := if s.second then s.s0 else s.s1

/-- what the rest of a run depends on -/
structure View where
  cur : Option (List Nat)
  oth : Option (List Nat)
  second : Bool
  kind : Option SKind
  bug : Bool
  deriving DecidableEq

def view (s : DState) : View :=
  ⟨sval s.cur, sval s.other, s.second, s.kind, s.bug⟩

theorem runCalls_append (R : Repo) (fuel : Nat) : ∀ (a b : List Call) (s : DState),
    runCalls R fuel s (a ++ b) = (runCalls R fuel s a).bind fun s' => runCalls R fuel s' b := by
  intro a
  induction a with
  | nil => intro b s; rfl
  | cons c cs ih =>
    intro b s
    simp only [List.cons_append, runCalls]
    split
    · exact ih b _
    · rfl

theorem follow_follow (x : Slot) : x.follow.follow = x.follow := by
  unfold Slot.follow
  cases hr : x.ref <;> cases ho : x.objs <;> simp [hr, ho]

theorem follow_objs_some (x : Slot) (l : List Nat) (h : x.objs = some l) : x.follow = x := by
  unfold Slot.follow
  cases hr : x.ref <;> simp [h]

theorem sval_follow (x : Slot) : sval x.follow = sval x := by
  unfold sval; rw [follow_follow]

theorem follow_default : ({} : Slot).follow = {} := rfl

theorem sval_lastPrefix (x : Slot) (b : Bool) : sval { x with lastPrefix := b } = sval x := by
  unfold sval Slot.follow
  cases hr : x.ref <;> cases ho : x.objs <;> simp [hr, ho]

@[simp] theorem sval_mk (r : Option Ref) (l : List Nat) (b : Bool) : sval ⟨r, some l, b⟩ = some l := by
  unfold sval Slot.follow
  cases r <;> rfl

theorem mapSet_single (op : Nat → Option Nat) (x : Nat) :
    mapSet op [x] = (op x).map fun y => [y] := by
  unfold mapSet
  cases h : op x <;> simp [h, List.eraseDups, List.eraseDupsBy, List.eraseDupsBy.loop]

/-- a navigation step on a state whose current slot holds exactly `x` -/
theorem navStep_single (R : Repo) (fuel : Nat) (s : DState) (c : Call) (x : Nat)
    (hcur : (view s).cur = some [x]) :
    (navStep R fuel s c).2 = (navOne R fuel c x).isSome ∧
    ∀ y, navOne R fuel c x = some y →
      view (navStep R fuel s c).1 = { view s with cur := some [y] } := by
  unfold view at hcur ⊢
  simp only at hcur
  unfold navStep unset DState.follow
  cases hsec : s.second
  · simp only [DState.cur, DState.setCur, DState.other, hsec, Bool.false_eq_true, if_false] at hcur ⊢
    have h1 : ({ s.s0 with lastPrefix := false } : Slot).follow.objs = some [x] := by
      have := sval_lastPrefix s.s0 false
      unfold sval at this hcur
      rw [this]; exact hcur
    simp only [h1, mapSet_single]
    cases hn : navOne R fuel c x with
    | none => simp
    | some y =>
      simp only [Option.map_some, Option.isSome_some, true_and]
      intro y' hy
      cases hy
      simp [sval_follow]
  · simp only [DState.cur, DState.setCur, DState.other, hsec, if_true] at hcur ⊢
    have h1 : ({ s.s1 with lastPrefix := false } : Slot).follow.objs = some [x] := by
      have := sval_lastPrefix s.s1 false
      unfold sval at this hcur
      rw [this]; exact hcur
    simp only [h1, mapSet_single]
    cases hn : navOne R fuel c x with
    | none => simp
    | some y =>
      simp only [Option.map_some, Option.isSome_some, true_and]
      intro y' hy
      cases hy
      simp [sval_follow]

theorem navStep_other (R : Repo) (fuel : Nat) (s : DState) (c : Call) (h : s.other = {}) :
    (navStep R fuel s c).1.other = {} := by
  unfold navStep unset DState.follow
  cases hsec : s.second
  · simp only [DState.other, hsec, Bool.false_eq_true, if_false] at h
    simp only [DState.cur, DState.setCur, hsec, Bool.false_eq_true, if_false, h, follow_default]
    split
    · simp [DState.other]
    · split <;> simp [DState.other]
  · simp only [DState.other, hsec, if_true] at h
    simp only [DState.cur, DState.setCur, hsec, if_true, h, follow_default]
    split
    · simp [DState.other]
    · split <;> simp [DState.other]

theorem navOne_call (R : Repo) (fuel : Nat) (n : Nav) (x : Nat) :
    navOne R fuel n.call x = denoteNav R fuel n x := by
  cases n <;> simp only [Nav.call, navOne, denoteNav]
  -- search
  unfold toCommit
  cases peelTags R fuel x with
  | none => rfl
  | some y => simp only [Option.bind_some]; split <;> rfl

theorem cur_objs_of_view (s : DState) (x : Nat) (h : (view s).cur = some [x]) :
    ((unset s).follow).cur.objs = some [x] := by
  unfold view at h
  simp only at h
  unfold unset DState.follow
  cases hsec : s.second
  · simp only [DState.cur, DState.setCur, hsec, Bool.false_eq_true, if_false] at h ⊢
    have := sval_lastPrefix s.s0 false
    unfold sval at this h
    rw [this]; exact h
  · simp only [DState.cur, DState.setCur, hsec, if_true] at h ⊢
    have := sval_lastPrefix s.s1 false
    unfold sval at this h
    rw [this]; exact h

theorem step_nav (R : Repo) (fuel : Nat) (s : DState) (n : Nav) (x : Nat)
    (h : (view s).cur = some [x]) : step R fuel s n.call = navStep R fuel s n.call := by
  cases n <;> simp only [Nav.call, step]
  -- search: there is a revision, so the search starts from it
  rw [cur_objs_of_view s x h]

theorem navs_run (R : Repo) (fuel : Nat) : ∀ (ns : List Nav) (s : DState) (x : Nat),
    (view s).cur = some [x] →
    (runCalls R fuel s (ns.map Nav.call)).map view =
      (denoteNavs R fuel ns x).map (fun y => { view s with cur := some [y] }) ∧
    (s.other = {} → ∀ s', runCalls R fuel s (ns.map Nav.call) = some s' → s'.other = {}) := by
  intro ns
  induction ns with
  | nil =>
    intro s x h
    refine ⟨?_, ?_⟩
    · simp only [List.map_nil, runCalls, denoteNavs, Option.map_some]
      rw [← h]
    · intro ho s' hs; simp only [List.map_nil, runCalls, Option.some.injEq] at hs; rw [← hs]; exact ho
  | cons n ns ih =>
    intro s x h
    simp only [List.map_cons, runCalls, denoteNavs]
    rw [step_nav R fuel s n x h]
    obtain ⟨hacc, hview⟩ := navStep_single R fuel s n.call x h
    rw [navOne_call] at hacc hview
    cases hd : denoteNav R fuel n x with
    | none =>
      rw [hd] at hacc
      simp only [Option.isSome_none] at hacc
      simp [hacc]
    | some y =>
      rw [hd] at hacc
      simp only [Option.isSome_some] at hacc
      have hv := hview y hd
      simp only [hacc, if_true, Option.bind_some]
      have hcur' : (view (navStep R fuel s n.call).1).cur = some [y] := by rw [hv]
      obtain ⟨ih1, ih2⟩ := ih (navStep R fuel s n.call).1 y hcur'
      refine ⟨?_, ?_⟩
      · rw [ih1, hv]
      · intro ho s' hs
        exact ih2 (navStep_other R fuel s n.call ho) s' hs

/-! ### slot bookkeeping -/

@[simp] theorem cur_setCur (s : DState) (x : Slot) : (s.setCur x).cur = x := by
  unfold DState.setCur DState.cur; cases s.second <;> simp

@[simp] theorem other_setCur (s : DState) (x : Slot) : (s.setCur x).other = s.other := by
  unfold DState.setCur DState.other; cases h : s.second <;> simp [h]

@[simp] theorem second_setCur (s : DState) (x : Slot) : (s.setCur x).second = s.second := by
  unfold DState.setCur; cases s.second <;> rfl

@[simp] theorem kind_setCur (s : DState) (x : Slot) : (s.setCur x).kind = s.kind := by
  unfold DState.setCur; cases s.second <;> rfl

@[simp] theorem bug_setCur (s : DState) (x : Slot) : (s.setCur x).bug = s.bug := by
  unfold DState.setCur; cases s.second <;> rfl

@[simp] theorem hasErr_setCur (s : DState) (x : Slot) : (s.setCur x).hasErr = s.hasErr := by
  unfold DState.setCur; cases s.second <;> rfl

@[simp] theorem setCur_setCur (s : DState) (a b : Slot) : (s.setCur a).setCur b = s.setCur b := by
  obtain ⟨x, y, sec, k, e, g⟩ := s
  cases sec <;> rfl

theorem setCur_cur (s : DState) : s.setCur s.cur = s := by
  obtain ⟨a, b, sec, k, e, g⟩ := s
  cases sec <;> rfl

theorem view_setCur (s : DState) (x : Slot) : view (s.setCur x) = { view s with cur := sval x } := by
  simp [view]

theorem unset_fresh (s : DState) (hc : s.cur = {}) : unset s = s := by
  unfold unset
  rw [hc]
  have : ({ ({} : Slot) with lastPrefix := false } : Slot) = {} := rfl
  rw [this, ← hc, setCur_cur]

@[simp] theorem sval_ref (r : Ref) (b : Bool) : sval ⟨some r, none, b⟩ = some [r.target] := rfl

theorem view_cur_fresh (s : DState) (hc : s.cur = {}) : (view s).cur = none := by
  simp [view, hc, sval, Slot.follow]

/-- a reference looked up into a fresh slot -/
theorem findRef_fresh (R : Repo) (fuel : Nat) (s : DState) (hc : s.cur = {}) (name : Bytes) :
    step R fuel s (.findRef name) =
      match R.findRef name with
      | some r => (s.setCur { ref := some r }, true)
      | none => ({ s with hasErr := true }, false) := by
  simp only [step, unset_fresh s hc, hc]
  cases R.findRef name <;> simp

/-- what the anchor lemma delivers: the view after the calls, and that the other slot is untouched -/
def AnchorOk (R : Repo) (fuel : Nat) (s : DState) (calls : List Call) (d : Option Nat) : Prop :=
  (runCalls R fuel s calls).map view = d.map (fun x => { view s with cur := some [x] }) ∧
  ∀ s', runCalls R fuel s calls = some s' → s'.other = s.other

theorem anchorOk_one (R : Repo) (fuel : Nat) (s : DState) (c : Call) (d : Option Nat)
    (h : match d with
      | some x => ∃ slot, step R fuel s c = (s.setCur slot, true) ∧ sval slot = some [x]
      | none => (step R fuel s c).2 = false) :
    AnchorOk R fuel s [c] d := by
  unfold AnchorOk
  cases d with
  | none =>
    simp only at h
    simp [runCalls, h]
  | some x =>
    obtain ⟨slot, hstep, hval⟩ := h
    simp [runCalls, hstep, view_setCur, hval]

theorem anchor_run (R : Repo) (fuel : Nat) (a : Anchor) (hclean : anchorClean R a) (s : DState)
    (hc : s.cur = {}) : AnchorOk R fuel s a.calls (denoteAnchor R fuel a) := by
  cases a with
  | ref n =>
    apply anchorOk_one
    rw [findRef_fresh R fuel s hc]
    simp only [denoteAnchor]
    cases R.findRef n with
    | none => simp
    | some r => exact ⟨_, rfl, rfl⟩
  | head =>
    apply anchorOk_one
    rw [findRef_fresh R fuel s hc]
    simp only [denoteAnchor]
    cases R.findRef HEAD with
    | none => simp
    | some r => exact ⟨_, rfl, rfl⟩
  | hex h =>
    obtain ⟨x, hx⟩ := hclean
    apply anchorOk_one
    simp only [step, hc, hx, denoteAnchor, List.length_map, cur_setCur, setCur_setCur]
    by_cases h40 : (h.length == 40) = true
    · simp only [h40, if_true]
      exact ⟨_, rfl, rfl⟩
    · simp only [h40, Bool.false_eq_true, if_false]
      cases R.findRef (h.map lower) with
      | none => exact ⟨_, rfl, rfl⟩
      | some r => exact ⟨_, rfl, rfl⟩
  | describe r g h =>
    obtain ⟨⟨x, hx⟩, hor⟩ := hclean
    apply anchorOk_one
    simp only [step, hc, hx, denoteAnchor, List.length_map, cur_setCur, setCur_setCur, unique]
    by_cases h40 : (h.length == 40) = true
    · simp only [h40, if_true]
      exact ⟨_, rfl, rfl⟩
    · have hnone : R.findRef (h.map lower) = none := by
        rcases hor with h' | h'
        · simp [h'] at h40
        · exact h'
      simp only [h40, Bool.false_eq_true, if_false, hnone]
      exact ⟨_, rfl, rfl⟩
  | date n d => exact absurd hclean (by simp [anchorClean])
  | reflog n k =>
    cases n with
    | none =>
      apply anchorOk_one
      simp only [step, unset_fresh s hc, hc, denoteAnchor, baseRef, headBranch, headReferent]
      cases hb : R.headRef.bind R.lookupFull with
      | none => simp
      | some r =>
        simp only [Option.bind_some, Option.isNone_none, if_true, cur_setCur, setCur_setCur]
        cases hl : R.reflog r.name with
        | none => simp
        | some log =>
          simp only [Option.bind_some]
          cases hk : log[k]? with
          | none => simp
          | some oid => exact ⟨_, rfl, rfl⟩
    | some nm =>
      simp only [Anchor.calls, Spec.C48.nameCalls, List.cons_append, List.nil_append, denoteAnchor, baseRef]
      unfold AnchorOk
      simp only [runCalls]
      rw [findRef_fresh R fuel s hc]
      cases hf : R.findRef nm with
      | none => simp
      | some r =>
        simp only [if_true, Option.bind_some]
        have hun : unset (s.setCur { ref := some r }) = s.setCur { ref := some r } := by
          unfold unset; simp
        simp only [step, hun, cur_setCur, setCur_setCur, Option.isNone_some, Bool.false_eq_true, if_false]
        cases hl : R.reflog r.name with
        | none => simp
        | some log =>
          simp only [Option.bind_some]
          cases hk : log[k]? with
          | none => simp
          | some oid => simp [view_setCur, insertObj]
  | nthCheckedOut k =>
    apply anchorOk_one
    simp only [step, unset_fresh s hc, hc, denoteAnchor]
    cases hk : R.checkouts[k - 1]? with
    | none => simp
    | some c =>
      obtain ⟨name, prev⟩ := c
      simp only [Option.bind_some, cur_setCur, setCur_setCur]
      cases hf : R.findRef name with
      | none => exact ⟨_, rfl, rfl⟩
      | some r => exact ⟨_, rfl, rfl⟩
  | sibling n push =>
    cases n with
    | none =>
      apply anchorOk_one
      simp only [step, unset_fresh s hc, hc, denoteAnchor, headBranch, headReferent]
      cases hb : R.headRef.bind R.lookupFull with
      | none => simp
      | some b =>
        simp only [Option.bind_some, Option.isNone_none, if_true, cur_setCur, setCur_setCur]
        cases ht : (R.tracking b.name push).bind R.lookupFull with
        | none => simp
        | some t => exact ⟨_, rfl, rfl⟩
    | some nm =>
      simp only [Anchor.calls, Spec.C48.nameCalls, List.cons_append, List.nil_append, denoteAnchor]
      unfold AnchorOk
      simp only [runCalls]
      rw [findRef_fresh R fuel s hc]
      cases hf : R.findRef nm with
      | none => simp
      | some r =>
        simp only [if_true, Option.map_some, Option.bind_some]
        have hun : unset (s.setCur { ref := some r }) = s.setCur { ref := some r } := by
          unfold unset; simp
        simp only [step, hun, cur_setCur, setCur_setCur, headBranch, headReferent]
        by_cases hh : (r.name == HEAD) = true
        · simp only [hh, if_true]
          cases hb : R.headRef.bind R.lookupFull with
          | none =>
            simp only [Option.getD_none, Option.isNone_some, Bool.false_eq_true, if_false]
            cases ht : (R.tracking r.name push).bind R.lookupFull with
            | none => simp
            | some t => simp [view_setCur]
          | some b =>
            simp only [Option.getD_some, Option.isNone_some, Bool.false_eq_true, if_false]
            cases ht : (R.tracking b.name push).bind R.lookupFull with
            | none => simp
            | some t => simp [view_setCur]
        · simp only [hh, Bool.false_eq_true, if_false, Option.isNone_some]
          cases ht : (R.tracking r.name push).bind R.lookupFull with
          | none => simp
          | some t => simp [view_setCur]

/-! ### a whole revision -/

/-- the calls leave exactly `d` in the current slot (or are refused if `d` is `none`), and a fresh
other slot stays fresh -/
def RevOk (R : Repo) (fuel : Nat) (s : DState) (calls : List Call) (d : Option Nat) : Prop :=
  (runCalls R fuel s calls).map view = d.map (fun x => { view s with cur := some [x] }) ∧
  (s.other = {} → ∀ s', runCalls R fuel s calls = some s' → s'.other = {})

theorem path_run (R : Repo) (fuel : Nat) (p : Option Bytes) (s : DState) (x : Nat)
    (h : (view s).cur = some [x]) : RevOk R fuel s (pathCalls p) (denotePath R fuel p x) := by
  cases p with
  | none =>
    refine ⟨?_, ?_⟩
    · simp only [pathCalls, runCalls, denotePath, Option.map_some]; rw [← h]
    · intro ho s' hs; simp only [pathCalls, runCalls, Option.some.injEq] at hs; rw [← hs]; exact ho
  | some p =>
    have hstep : step R fuel s (.peelPath p) = navStep R fuel s (.peelPath p) := by simp only [step]
    obtain ⟨hacc, hview⟩ := navStep_single R fuel s (.peelPath p) x h
    have hnav : navOne R fuel (.peelPath p) x = denotePath R fuel (some p) x := rfl
    rw [hnav] at hacc hview
    simp only [pathCalls, RevOk, runCalls, hstep]
    cases hd : denotePath R fuel (some p) x with
    | none =>
      rw [hd] at hacc
      simp only [Option.isSome_none] at hacc
      simp [hacc]
    | some y =>
      rw [hd] at hacc
      simp only [Option.isSome_some] at hacc
      simp only [hacc, if_true, Option.map_some]
      refine ⟨by rw [hview y hd], ?_⟩
      intro ho s' hs
      simp only [Option.some.injEq] at hs
      rw [← hs]
      exact navStep_other R fuel s _ ho

theorem view_follow (s : DState) : view s.follow = view s := by
  unfold view DState.follow DState.cur DState.other
  cases s.second <;> simp [sval_follow]

theorem other_follow (s : DState) (h : s.other = {}) : s.follow.other = {} := by
  unfold DState.follow DState.other at *
  cases hs : s.second <;> simp [hs] at h ⊢ <;> rw [h] <;> rfl

theorem cur_follow_fresh (s : DState) (h : s.cur = {}) : s.follow.cur = {} := by
  unfold DState.follow DState.cur at *
  cases hs : s.second <;> simp [hs] at h ⊢ <;> rw [h] <;> rfl

theorem rev_run (R : Repo) (fuel : Nat) (r : Rev) (hclean : revClean R r) (s : DState) (hc : s.cur = {}) :
    RevOk R fuel s r.calls (denoteRev R fuel r) := by
  cases r with
  | searchAll re neg =>
    have hcf := cur_follow_fresh s hc
    simp only [Rev.calls, RevOk, runCalls, step, unset_fresh s hc, hcf, denoteRev]
    cases hsr : R.search none re neg with
    | none => simp
    | some x =>
      simp only [if_true, Option.map_some]
      refine ⟨by simp [view_setCur, view_follow], ?_⟩
      intro ho s' hs
      simp only [Option.some.injEq] at hs
      rw [← hs, other_setCur]
      exact other_follow s ho
  | index st p =>
    have hcalls : (Rev.index st p).calls = [.index p (st.getD 0)] := by cases st <;> rfl
    rw [hcalls]
    simp only [RevOk, runCalls, step, unset_fresh s hc, hc, denoteRev]
    cases hi : R.index p (st.getD 0) with
    | none => simp
    | some x =>
      simp only [if_true, Option.map_some]
      refine ⟨by simp [view_setCur, insertObj], ?_⟩
      intro ho s' hs
      simp only [Option.some.injEq] at hs
      rw [← hs, other_setCur]; exact ho
  | nav a ns p =>
    obtain ⟨ha1, ha2⟩ := anchor_run R fuel a hclean s hc
    simp only [Rev.calls, List.append_assoc, RevOk, runCalls_append, denoteRev]
    cases hra : runCalls R fuel s a.calls with
    | none =>
      rw [hra] at ha1
      cases hda : denoteAnchor R fuel a with
      | none => simp
      | some x => rw [hda] at ha1; simp at ha1
    | some s1 =>
      rw [hra] at ha1
      cases hda : denoteAnchor R fuel a with
      | none => rw [hda] at ha1; simp at ha1
      | some x =>
        rw [hda] at ha1
        simp only [Option.map_some, Option.some.injEq] at ha1
        have hcur1 : (view s1).cur = some [x] := by rw [ha1]
        have hoth1 : s1.other = s.other := ha2 s1 hra
        obtain ⟨hn1, hn2⟩ := navs_run R fuel ns s1 x hcur1
        simp only [Option.bind_some]
        cases hrn : runCalls R fuel s1 (ns.map Nav.call) with
        | none =>
          rw [hrn] at hn1
          cases hdn : denoteNavs R fuel ns x with
          | none => simp
          | some y => rw [hdn] at hn1; simp at hn1
        | some s2 =>
          rw [hrn] at hn1
          cases hdn : denoteNavs R fuel ns x with
          | none => rw [hdn] at hn1; simp at hn1
          | some y =>
            rw [hdn] at hn1
            simp only [Option.map_some, Option.some.injEq] at hn1
            have hcur2 : (view s2).cur = some [y] := by rw [hn1]
            obtain ⟨hp1, hp2⟩ := path_run R fuel p s2 y hcur2
            simp only [Option.bind_some]
            refine ⟨?_, ?_⟩
            · rw [hp1, hn1, ha1]
            · intro ho s' hs
              exact hp2 (hn2 (by rw [hoth1]; exact ho) s2 hrn) s' hs

/-! ### `kind`, `done` and the result -/

/-- the committish hint never changes a slot that holds at most one candidate: only the
`lastPrefix` flag of the current slot and the error flag move -/
theorem hint_single (R : Repo) (fuel : Nat) (s : DState)
    (h : s.cur.objs = none ∨ ∃ x, s.cur.objs = some [x]) :
    ∃ e b, s.hintCommittish R fuel = { (s.setCur { s.cur with lastPrefix := b }) with hasErr := e } := by
  obtain ⟨s0, s1, sec, kind, he, bug⟩ := s
  cases sec
  · simp only [DState.cur, Bool.false_eq_true, if_false] at h
    obtain ⟨r, o, lp⟩ := s0
    simp only at h
    cases lp
    · exact ⟨he, false, by simp [DState.hintCommittish, DState.cur, DState.setCur]⟩
    · rcases h with h | ⟨x, h⟩
      · subst h
        exact ⟨he, false, by simp [DState.hintCommittish, DState.cur, DState.setCur]⟩
      · subst h
        by_cases hg : (peelTo R .commit fuel x).isSome = true
        · exact ⟨he, false, by simp [DState.hintCommittish, DState.cur, DState.setCur, hg]⟩
        · exact ⟨true, false, by simp [DState.hintCommittish, DState.cur, DState.setCur, hg]⟩
  · simp only [DState.cur, if_true] at h
    obtain ⟨r, o, lp⟩ := s1
    simp only at h
    cases lp
    · exact ⟨he, false, by simp [DState.hintCommittish, DState.cur, DState.setCur]⟩
    · rcases h with h | ⟨x, h⟩
      · subst h
        exact ⟨he, false, by simp [DState.hintCommittish, DState.cur, DState.setCur]⟩
      · subst h
        by_cases hg : (peelTo R .commit fuel x).isSome = true
        · exact ⟨he, false, by simp [DState.hintCommittish, DState.cur, DState.setCur, hg]⟩
        · exact ⟨true, false, by simp [DState.hintCommittish, DState.cur, DState.setCur, hg]⟩

/-- `slotId` on the followed candidates -/
def idOf (o : Option (List Nat)) : Except Unit (Option Nat) :=
  match o with
  | none => .ok none
  | some [a] => .ok (some a)
  | some _ => .error ()

/-- `finish` in terms of the view -/
def finishV (v : View) : Outcome :=
  if v.bug then .panic
  else match idOf (if v.second then v.oth else v.cur), idOf (if v.second then v.cur else v.oth) with
    | .ok a, .ok b =>
      (match v.kind.getD .includeReachable, a, b with
        | .includeReachable, some a, _ => .ok (.include_ a)
        | .excludeReachable, some a, _ => .ok (.exclude a)
        | .rangeBetween, some a, some b => .ok (.range a b)
        | .reachableToMergeBase, some a, some b => .ok (.merge a b)
        | .includeParents, some a, _ => .ok (.includeParents a)
        | .excludeParents, some a, _ => .ok (.excludeParents a)
        | _, _, _ => .err)
    | _, _ => .err

theorem slotId_eq (x : Slot) : slotId x = idOf x.objs := by
  unfold slotId idOf; rfl

def Single (o : Option (List Nat)) : Prop := o = none ∨ ∃ x, o = some [x]

theorem cur_follow_objs (s : DState) : s.follow.cur.objs = (view s).cur := by
  unfold view DState.follow DState.cur sval
  cases s.second <;> rfl

theorem done_finish (R : Repo) (fuel : Nat) (s : DState) (h : Single (view s).cur) :
    (step R fuel s .done).2 = true ∧ finish (step R fuel s .done).1 = finishV (view s) := by
  refine ⟨rfl, ?_⟩
  simp only [step]
  have hs : s.follow.cur.objs = none ∨ ∃ x, s.follow.cur.objs = some [x] := by
    rw [cur_follow_objs]; exact h
  obtain ⟨e, b, hh⟩ := hint_single R fuel s.follow hs
  have key : ∀ t : DState, (t = s.follow ∨ t = s.follow.hintCommittish R fuel) → finish t = finishV (view s) := by
    intro t ht
    have ht' : t.bug = s.bug ∧ t.kind = s.kind ∧ t.second = s.second ∧ t.s0.objs = sval s.s0 ∧ t.s1.objs = sval s.s1 := by
      rcases ht with rfl | rfl
      · exact ⟨rfl, rfl, rfl, rfl, rfl⟩
      · rw [hh]
        refine ⟨by simp [DState.follow], by simp [DState.follow], by simp [DState.follow], ?_, ?_⟩
        · simp only [DState.setCur, DState.cur, DState.follow, sval]
          by_cases hsec : s.second = true <;> simp [hsec]
        · simp only [DState.setCur, DState.cur, DState.follow, sval]
          by_cases hsec : s.second = true <;> simp [hsec]
    obtain ⟨h1, h2, h3, h4, h5⟩ := ht'
    unfold finish finishV view
    simp only [slotId_eq, h1, h2, h4, h5, DState.cur, DState.other]
    cases s.second <;> rfl
  split
  · exact key _ (Or.inr rfl)
  · exact key _ (Or.inl rfl)

theorem objs_single_of_view (s : DState) (h : Single (view s).cur) :
    s.cur.objs = none ∨ ∃ x, s.cur.objs = some [x] := by
  cases ho : s.cur.objs with
  | none => exact Or.inl rfl
  | some l =>
    right
    have : (view s).cur = some l := by
      unfold view sval
      simp only
      rw [follow_objs_some _ l ho, ho]
    rcases h with h | ⟨x, h⟩
    · rw [this] at h; cases h
    · rw [this] at h; exact ⟨x, h⟩

theorem hint_noop (R : Repo) (fuel : Nat) (s : DState) (h : s.cur.lastPrefix = false) :
    s.hintCommittish R fuel = s := by
  unfold DState.hintCommittish
  simp [h]

/-- `kind(k)` on the first side: sets the kind, moves flags only, and opens the second side for ranges -/
theorem kind_first (R : Repo) (fuel : Nat) (s : DState) (k : SKind) (hsec : s.second = false)
    (h : Single (view s).cur) :
    ∃ e b, step R fuel s (.kind k) =
      ({ s with kind := some k, hasErr := e, s0 := { s.s0 with lastPrefix := b },
                second := (k == .rangeBetween || k == .reachableToMergeBase) }, true) := by
  have hs : ({ s with kind := some k } : DState).cur.objs = none ∨
      ∃ x, ({ s with kind := some k } : DState).cur.objs = some [x] := objs_single_of_view s h
  obtain ⟨e, b, hh⟩ := hint_single R fuel { s with kind := some k } hs
  obtain ⟨s0, s1, sec, kind, he, bug⟩ := s
  simp only at hsec
  subst hsec
  simp only [DState.setCur, DState.cur, Bool.false_eq_true, if_false] at hh
  simp only [step]
  by_cases hi : kindImpliesCommittish (some k) = true
  · simp only [hi, if_true]
    refine ⟨e, b, ?_⟩
    rw [hh]
    cases hk : (k == SKind.rangeBetween || k == SKind.reachableToMergeBase) <;> simp
  · simp only [hi, Bool.false_eq_true, if_false]
    refine ⟨he, s0.lastPrefix, ?_⟩
    cases hk : (k == SKind.rangeBetween || k == SKind.reachableToMergeBase) <;> simp

/-! ### assembly: whole specs -/

def fin (o : Option DState) : Outcome :=
  match o with
  | some s => finish s
  | none => .err

theorem resolveCalls_fin (R : Repo) (fuel : Nat) (c : List Call) :
    resolveCalls R fuel c = fin (runCalls R fuel {} c) := rfl

theorem run_done (R : Repo) (fuel : Nat) (s : DState) (h : Single (view s).cur) :
    fin (runCalls R fuel s [.done]) = finishV (view s) := by
  obtain ⟨h1, h2⟩ := done_finish R fuel s h
  simp only [runCalls, h1, if_true, fin]
  exact h2

theorem revOk_elim {R : Repo} {fuel : Nat} {s : DState} {calls : List Call} {d : Option Nat}
    (h : RevOk R fuel s calls d) :
    (runCalls R fuel s calls = none ∧ d = none) ∨
    ∃ s' x, runCalls R fuel s calls = some s' ∧ d = some x ∧
      view s' = { view s with cur := some [x] } ∧ (s.other = {} → s'.other = {}) := by
  obtain ⟨h1, h2⟩ := h
  cases hr : runCalls R fuel s calls with
  | none =>
    left
    rw [hr] at h1
    cases d with
    | none => exact ⟨rfl, rfl⟩
    | some x => simp at h1
  | some s' =>
    right
    rw [hr] at h1
    cases d with
    | none => simp at h1
    | some x =>
      simp only [Option.map_some, Option.some.injEq] at h1
      exact ⟨s', x, rfl, rfl, h1, fun ho => h2 ho s' hr⟩

theorem anchorOk_revOk {R : Repo} {fuel : Nat} {s : DState} {calls : List Call} {d : Option Nat}
    (h : AnchorOk R fuel s calls d) : RevOk R fuel s calls d :=
  ⟨h.1, fun ho s' hs => (h.2 s' hs).trans ho⟩

theorem opt_run (R : Repo) (fuel : Nat) (o : Option Rev) (hclean : OptClean R o) (s : DState)
    (hc : s.cur = {}) : RevOk R fuel s (optRevCalls o) (denoteOpt R fuel o) := by
  cases o with
  | some r => exact rev_run R fuel r hclean s hc
  | none =>
    have h := anchorOk_revOk (anchor_run R fuel .head trivial s hc)
    simpa [Anchor.calls, denoteAnchor, optRevCalls, denoteOpt] using h

def rangeish (k : SKind) : Bool := k == .rangeBetween || k == .reachableToMergeBase

theorem kind_range (R : Repo) (fuel : Nat) (s : DState) (k : SKind) (hsec : s.second = false)
    (hk : rangeish k = true) (h : Single (view s).cur) :
    ∃ t, step R fuel s (.kind k) = (t, true) ∧ t.cur = s.s1 ∧
      view t = ⟨sval s.s1, sval s.s0, true, some k, s.bug⟩ := by
  obtain ⟨e, b, hh⟩ := kind_first R fuel s k hsec h
  unfold rangeish at hk
  refine ⟨_, hh, ?_, ?_⟩
  · simp [DState.cur, hk]
  · simp [view, DState.cur, DState.other, hk, sval_lastPrefix]

theorem kind_plain (R : Repo) (fuel : Nat) (s : DState) (k : SKind) (hsec : s.second = false)
    (hk : rangeish k = false) (h : Single (view s).cur) :
    ∃ t, step R fuel s (.kind k) = (t, true) ∧ view t = { view s with kind := some k } := by
  obtain ⟨e, b, hh⟩ := kind_first R fuel s k hsec h
  unfold rangeish at hk
  refine ⟨_, hh, ?_⟩
  simp [view, DState.cur, DState.other, hk, hsec, sval_lastPrefix]

theorem view_init : view ({} : DState) = ⟨none, none, false, none, false⟩ := rfl

def rangeOut (k : SKind) (da db : Option Nat) : Outcome :=
  match da, db with
  | some x, some y => finishV ⟨some [y], some [x], true, some k, false⟩
  | _, _ => .err

/-- the shape shared by `a..b`, `a...b` and `r^-n` -/
theorem range_run (R : Repo) (fuel : Nat) (k : SKind) (hk : rangeish k = true) (A B : List Call)
    (da db : Option Nat) (hA : RevOk R fuel {} A da)
    (hB : ∀ s : DState, s.cur = {} → RevOk R fuel s B db) :
    fin (runCalls R fuel {} (A ++ [.kind k] ++ B ++ [.done])) = rangeOut k da db := by
  have e : A ++ [.kind k] ++ B ++ [.done] = A ++ (.kind k :: (B ++ [.done])) := by simp
  rw [e, runCalls_append]
  rcases revOk_elim hA with ⟨hr, hd⟩ | ⟨s1, x, hr, hd, hv, ho⟩
  · rw [hr, hd]
    cases db <;> rfl
  · rw [hr, hd]
    simp only [Option.bind_some, runCalls]
    rw [view_init] at hv
    have hsec : s1.second = false := by
      have := congrArg View.second hv
      simpa [view] using this
    have hbug : s1.bug = false := by
      have := congrArg View.bug hv
      simpa [view] using this
    have hs0 : sval s1.s0 = some [x] := by
      have := congrArg View.cur hv
      simpa [view, DState.cur, hsec] using this
    have hs1 : s1.s1 = {} := by
      have := ho rfl
      simpa [DState.other, hsec] using this
    have hsingle : Single (view s1).cur := by rw [hv]; exact Or.inr ⟨x, rfl⟩
    obtain ⟨t, ht, htc, htv⟩ := kind_range R fuel s1 k hsec hk hsingle
    rw [ht]
    simp only [if_true]
    rw [runCalls_append]
    rcases revOk_elim (hB t (htc.trans hs1)) with ⟨hr2, hd2⟩ | ⟨s2, y, hr2, hd2, hv2, _⟩
    · rw [hr2, hd2]; rfl
    · rw [hr2, hd2]
      simp only [Option.bind_some]
      have hsingle2 : Single (view s2).cur := by rw [hv2]; exact Or.inr ⟨y, rfl⟩
      rw [run_done R fuel s2 hsingle2, hv2, htv, hs0, hbug]
      rfl

theorem commitish_of {R : Repo} {fuel : Nat} {d : Option Nat} (h : Commitish R fuel d) :
    d.bind (commitish R fuel) = d := by
  cases d with
  | none => rfl
  | some v =>
    have := h v rfl
    simp only [Option.bind_some, commitish]
    cases hc : toCommit R fuel v with
    | none => rw [hc] at this; cases this
    | some c => rfl

theorem anchorAgain_remembered (a : Anchor) (ns : List Nav) (p : Option Bytes)
    (h : (Rev.nav a ns p).Remembered) : (Rev.nav a ns p).anchorAgain = a.calls ∧ ns = [] := by
  cases a <;> cases ns <;> simp [Rev.Remembered] at h <;> exact ⟨rfl, rfl⟩

/-- interpreting the calls a well-formed spec means with the delegate model gives what
gitrevisions(7) says the spec names -/
theorem resolveCalls_eq_denote (R : Repo) (fuel : Nat) (dateOk : Bytes → Bool) (ast : Ast)
    (hwf : ast.Wf dateOk) (hclean : astClean R fuel ast) :
    resolveCalls R fuel ast.calls = toOutcome (denote R fuel ast) := by
  rw [resolveCalls_fin]
  cases ast with
  | single r =>
    simp only [Ast.calls, runCalls_append, denote]
    rcases revOk_elim (rev_run R fuel r hclean {} rfl) with ⟨hr, hd⟩ | ⟨s1, x, hr, hd, hv, _⟩
    · rw [hr, hd]; rfl
    · rw [hr, hd]
      simp only [Option.bind_some]
      have hsingle : Single (view s1).cur := by rw [hv]; exact Or.inr ⟨x, rfl⟩
      rw [run_done R fuel s1 hsingle, hv]
      rfl
  | exclude r =>
    have e : (Ast.exclude r).calls = .kind .excludeReachable :: (r.calls ++ [.done]) := rfl
    have hstep : step R fuel {} (.kind .excludeReachable) = ({ kind := some .excludeReachable }, true) := rfl
    rw [e]
    have e2 : runCalls R fuel {} (.kind .excludeReachable :: (r.calls ++ [.done])) =
        runCalls R fuel { kind := some .excludeReachable } (r.calls ++ [.done]) := by
      simp only [runCalls, hstep, if_true]
    rw [e2]
    simp only [runCalls_append, denote]
    rcases revOk_elim (rev_run R fuel r hclean { kind := some .excludeReachable } rfl)
      with ⟨hr, hd⟩ | ⟨s1, x, hr, hd, hv, _⟩
    · rw [hr, hd]; rfl
    · rw [hr, hd]
      simp only [Option.bind_some]
      have hsingle : Single (view s1).cur := by rw [hv]; exact Or.inr ⟨x, rfl⟩
      rw [run_done R fuel s1 hsingle, hv]
      rfl
  | range a b =>
    obtain ⟨ca, cb, ha, hb⟩ := hclean
    simp only [Ast.calls, denote]
    rw [range_run R fuel .rangeBetween rfl _ _ _ _ (opt_run R fuel a ca {} rfl)
      (fun s hc => opt_run R fuel b cb s hc), commitish_of ha, commitish_of hb]
    cases denoteOpt R fuel a <;> cases denoteOpt R fuel b <;> rfl
  | merge a b =>
    obtain ⟨ca, cb, ha, hb⟩ := hclean
    simp only [Ast.calls, denote]
    rw [range_run R fuel .reachableToMergeBase rfl _ _ _ _ (opt_run R fuel a ca {} rfl)
      (fun s hc => opt_run R fuel b cb s hc), commitish_of ha, commitish_of hb]
    cases denoteOpt R fuel a <;> cases denoteOpt R fuel b <;> rfl
  | parents r =>
    obtain ⟨cr, hr'⟩ := hclean
    have e : (Ast.parents r).calls = r.calls ++ (.kind .includeParents :: [.done]) := rfl
    rw [e, runCalls_append]
    simp only [denote]
    rw [commitish_of hr']
    rcases revOk_elim (rev_run R fuel r cr {} rfl) with ⟨hr, hd⟩ | ⟨s1, x, hr, hd, hv, _⟩
    · rw [hr, hd]; rfl
    · rw [hr, hd]
      simp only [Option.bind_some, runCalls]
      rw [view_init] at hv
      have hsec : s1.second = false := by
        have := congrArg View.second hv
        simpa [view] using this
      have hsingle : Single (view s1).cur := by rw [hv]; exact Or.inr ⟨x, rfl⟩
      obtain ⟨t, ht, htv⟩ := kind_plain R fuel s1 .includeParents hsec rfl hsingle
      rw [ht]
      simp only [if_true]
      have hsingle2 : Single (view t).cur := by rw [htv, hv]; exact Or.inr ⟨x, rfl⟩
      have := run_done R fuel t hsingle2
      simp only [runCalls] at this
      rw [this, htv, hv]
      rfl
  | excludeParents r =>
    obtain ⟨cr, hr'⟩ := hclean
    have e : (Ast.excludeParents r).calls = r.calls ++ (.kind .excludeParents :: [.done]) := rfl
    rw [e, runCalls_append]
    simp only [denote]
    rw [commitish_of hr']
    rcases revOk_elim (rev_run R fuel r cr {} rfl) with ⟨hr, hd⟩ | ⟨s1, x, hr, hd, hv, _⟩
    · rw [hr, hd]; rfl
    · rw [hr, hd]
      simp only [Option.bind_some, runCalls]
      rw [view_init] at hv
      have hsec : s1.second = false := by
        have := congrArg View.second hv
        simpa [view] using this
      have hsingle : Single (view s1).cur := by rw [hv]; exact Or.inr ⟨x, rfl⟩
      obtain ⟨t, ht, htv⟩ := kind_plain R fuel s1 .excludeParents hsec rfl hsingle
      rw [ht]
      simp only [if_true]
      have hsingle2 : Single (view t).cur := by rw [htv, hv]; exact Or.inr ⟨x, rfl⟩
      have := run_done R fuel t hsingle2
      simp only [runCalls] at this
      rw [this, htv, hv]
      rfl
  | parentRange r n =>
    obtain ⟨_, hopen, hrem, _, _⟩ := hwf
    cases r with
    | searchAll re neg => exact absurd hrem (by simp [Rev.Remembered])
    | index st p => exact absurd hrem (by simp [Rev.Remembered])
    | nav a ns p =>
      obtain ⟨hag, hns⟩ := anchorAgain_remembered a ns p hrem
      subst hns
      cases p with
      | some p => exact absurd hopen (by simp [Rev.Open])
      | none =>
        have hA := rev_run R fuel (.nav a [.parent n] none) hclean {} rfl
        have e : (Ast.parentRange (.nav a [] none) n).calls =
            (Rev.nav a [.parent n] none).calls ++ [.kind .rangeBetween] ++ a.calls ++ [.done] := by
          simp [Ast.calls, Rev.calls, pathCalls, hag, Nav.call]
        rw [e, range_run R fuel .rangeBetween rfl _ _ _ _ hA
          (fun s hc => anchorOk_revOk (anchor_run R fuel a hclean s hc))]
        simp only [denote, denoteRev, denoteNavs, denotePath, denoteNav]
        cases denoteAnchor R fuel a with
        | none => rfl
        | some x =>
          simp only [Option.bind_some, denotePath]
          generalize ((toCommit R fuel x).bind fun y => (R.parents y)[n - 1]?) = q
          cases q <;> rfl

end GixModel.C48R
