import GixModel.Lemmas.C53Trim
/-
C53 — `strchr`-style splitting (`splitAt1`, `findByte`) and blank padding.
-/
namespace GixModel.C53
open GixModel
open GixModel.Spec.C53 (splitAt1 isSpace dropEndWhile)

theorem splitAt1_some {c : UInt8} : ∀ {l pre after : Bytes}, splitAt1 c l = some (pre, after) →
    l = pre ++ c :: after ∧ c ∉ pre := by
  intro l
  induction l with
  | nil => intro pre after h; simp [splitAt1] at h
  | cons b r ih =>
    intro pre after h
    simp only [splitAt1] at h
    by_cases hb : (b == c) = true
    · simp only [hb, if_true, Option.some.injEq, Prod.mk.injEq] at h
      obtain ⟨rfl, rfl⟩ := h
      have : b = c := by simpa using hb
      subst this
      simp
    · simp only [hb, Bool.false_eq_true, if_false] at h
      cases hr : splitAt1 c r with
      | none => rw [hr] at h; cases h
      | some pa =>
        obtain ⟨p, a⟩ := pa
        rw [hr] at h
        simp only [Option.some.injEq, Prod.mk.injEq] at h
        obtain ⟨rfl, rfl⟩ := h
        obtain ⟨h1, h2⟩ := ih hr
        refine ⟨by rw [h1]; rfl, ?_⟩
        intro hm
        rcases List.mem_cons.mp hm with h3 | h3
        · exact hb (by simp [h3])
        · exact h2 h3

theorem splitAt1_none {c : UInt8} : ∀ {l : Bytes}, splitAt1 c l = none → c ∉ l := by
  intro l
  induction l with
  | nil => intro _; simp
  | cons b r ih =>
    intro h
    simp only [splitAt1] at h
    by_cases hb : (b == c) = true
    · simp [hb] at h
    · simp only [hb, Bool.false_eq_true, if_false] at h
      cases hr : splitAt1 c r with
      | none =>
        intro hm
        rcases List.mem_cons.mp hm with h3 | h3
        · exact hb (by simp [h3])
        · exact ih hr h3
      | some pa => rw [hr] at h; cases h

theorem splitAt1_of_notin {c : UInt8} : ∀ {l : Bytes}, c ∉ l → splitAt1 c l = none := by
  intro l h
  cases hs : splitAt1 c l with
  | none => rfl
  | some pa =>
    obtain ⟨p, a⟩ := pa
    have := (splitAt1_some hs).1
    exact absurd (by rw [this]; simp) h

theorem splitAt1_prepend {c : UInt8} : ∀ (w x : Bytes), c ∉ w →
    splitAt1 c (w ++ x) = (splitAt1 c x).map (fun pa => (w ++ pa.1, pa.2)) := by
  intro w
  induction w with
  | nil =>
    intro x _
    cases hs : splitAt1 c x with
    | none => simp [hs]
    | some pa => simp [hs]
  | cons b r ih =>
    intro x h
    have hb : (b == c) = false := by
      cases hbc : (b == c) with
      | false => rfl
      | true => exact absurd (by simp [show b = c by simpa using hbc]) h
    have hr : c ∉ r := fun hm => h (List.mem_cons_of_mem _ hm)
    simp only [List.cons_append, splitAt1, hb, Bool.false_eq_true, if_false, ih x hr]
    cases splitAt1 c x <;> simp

theorem splitAt1_append_some {c : UInt8} {x p a : Bytes} (w : Bytes) (h : splitAt1 c x = some (p, a)) :
    splitAt1 c (x ++ w) = some (p, a ++ w) := by
  obtain ⟨h1, h2⟩ := splitAt1_some h
  rw [h1, List.append_assoc, List.cons_append, splitAt1_prepend p _ h2]
  simp [splitAt1]

theorem splitAt1_append_none {c : UInt8} {x : Bytes} (w : Bytes) (h : splitAt1 c x = none) (hw : c ∉ w) :
    splitAt1 c (x ++ w) = none := by
  apply splitAt1_of_notin
  intro hm
  rcases List.mem_append.mp hm with h1 | h1
  · exact splitAt1_none h h1
  · exact hw h1

theorem findByte_split (c : UInt8) : ∀ (l : Bytes),
    match findByte c l with
    | none => splitAt1 c l = none
    | some i => splitAt1 c l = some (l.take i, l.drop (i + 1)) := by
  intro l
  induction l with
  | nil => simp [findByte, splitAt1]
  | cons b r ih =>
    simp only [findByte, splitAt1]
    by_cases hb : (b == c) = true
    · simp [hb]
    · simp only [hb, Bool.false_eq_true, if_false]
      cases hf : findByte c r with
      | none => rw [hf] at ih; simp [ih]
      | some i => rw [hf] at ih; simp [ih]

/-! ### blank strings -/

def isBlank (bs : Bytes) : Bool := bs.all isSpace

theorem mem_takeWhile_imp (p : UInt8 → Bool) (l : Bytes) : ∀ x ∈ l.takeWhile p, p x = true := by
  induction l with
  | nil => simp
  | cons a l ih =>
    intro x hx
    simp only [List.takeWhile_cons] at hx
    split at hx
    · simp at hx; rcases hx with rfl | hx
      · assumption
      · exact ih x hx
    · simp at hx

theorem blank_notin {w : Bytes} (c : UInt8) (hc : isSpace c = false) (hw : isBlank w = true) : c ∉ w := by
  intro hm
  have := List.all_eq_true.mp hw c hm
  rw [hc] at this; cases this

theorem dropWhile_blank_append (w x : Bytes) (hw : isBlank w = true) :
    (w ++ x).dropWhile isSpace = x.dropWhile isSpace := by
  induction w with
  | nil => rfl
  | cons b r ih =>
    simp only [isBlank, List.all_cons, Bool.and_eq_true] at hw
    simp only [List.cons_append, List.dropWhile_cons, hw.1, if_true]
    exact ih hw.2

theorem gitTrim_blank_append (w x : Bytes) (hw : isBlank w = true) : gitTrim (w ++ x) = gitTrim x := by
  unfold gitTrim
  rw [dropWhile_blank_append w x hw]

theorem gitTrim_of_blank (w : Bytes) (hw : isBlank w = true) : gitTrim w = [] := by
  have := dropWhile_blank_append w [] hw
  simp only [List.append_nil, List.dropWhile_nil] at this
  unfold gitTrim dropEndWhile
  rw [this]; rfl

theorem dropEndWhile_decomp (d : Bytes) : ∃ w, isBlank w = true ∧ d = dropEndWhile isSpace d ++ w := by
  refine ⟨(d.reverse.takeWhile isSpace).reverse, ?_, ?_⟩
  · unfold isBlank
    rw [List.all_eq_true]
    intro x hx
    rw [List.mem_reverse] at hx
    exact mem_takeWhile_imp _ _ x hx
  · unfold dropEndWhile
    rw [← List.reverse_append, List.takeWhile_append_dropWhile, List.reverse_reverse]

/-- every line is blank padding around its git-trimmed core -/
theorem gitTrim_decomp (l : Bytes) : ∃ w1 w2, isBlank w1 = true ∧ isBlank w2 = true ∧ l = w1 ++ gitTrim l ++ w2 := by
  obtain ⟨w2, hw2, hd⟩ := dropEndWhile_decomp (l.dropWhile isSpace)
  refine ⟨l.takeWhile isSpace, w2, ?_, hw2, ?_⟩
  · unfold isBlank
    rw [List.all_eq_true]
    intro x hx
    exact mem_takeWhile_imp _ _ x hx
  · unfold gitTrim
    rw [List.append_assoc, ← hd, List.takeWhile_append_dropWhile]

theorem noExotic_gitTrim (l : Bytes) (h : noExotic l = true) : noExotic (gitTrim l) = true := by
  obtain ⟨w1, w2, _, _, hl⟩ := gitTrim_decomp l
  rw [hl, List.append_assoc] at h
  exact noExotic_prefix _ _ (noExotic_suffix _ _ h)

end GixModel.C53
