import GixModel.Lemmas.C38Coll
/-
C38 — paths: the directories whose `.gitattributes` gitoxide's stack pushes for a path are the
origins git's `prepare_attr_stack` builds frames for, and making the path relative to such a
directory gives the same name on both sides.
-/
namespace GixModel.Lemmas.C38
open GixModel GixModel.C38 GixModel.Spec.C38

/-- a normalised repository-relative path: non-empty, no leading or trailing slash -/
def PathOk (p : Bytes) : Prop := p ≠ [] ∧ p.head? ≠ some 47 ∧ p.getLast? ≠ some 47

instance (p : Bytes) : Decidable (PathOk p) := by unfold PathOk; infer_instance

abbrev sp := slashPositionsAux

theorem sp_ge (i : Nat) (l : Bytes) : ∀ j ∈ sp i l, i ≤ j := by
  induction l generalizing i with
  | nil => intro j hj; simp [sp, slashPositionsAux] at hj
  | cons b l ih =>
    intro j hj
    unfold sp slashPositionsAux at hj
    split at hj
    · rcases List.mem_cons.mp hj with rfl | h
      · exact Nat.le_refl _
      · have := ih (i + 1) j h; omega
    · have := ih (i + 1) j hj; omega

/-- a listed position holds a slash -/
theorem sp_get (i : Nat) (l : Bytes) : ∀ j ∈ sp i l, l[j - i]? = some 47 := by
  induction l generalizing i with
  | nil => intro j hj; simp [sp, slashPositionsAux] at hj
  | cons b l ih =>
    intro j hj
    unfold sp slashPositionsAux at hj
    by_cases hb : (b == 47) = true
    · simp only [hb, if_true] at hj
      rcases List.mem_cons.mp hj with rfl | h
      · have : b = 47 := by simpa using hb
        simp [this]
      · have hge := sp_ge (i + 1) l j h
        have := ih (i + 1) j h
        have hji : j - i = (j - (i + 1)) + 1 := by omega
        rw [hji, List.getElem?_cons_succ]; exact this
    · simp only [hb] at hj
      have hge := sp_ge (i + 1) l j hj
      have := ih (i + 1) j hj
      have hji : j - i = (j - (i + 1)) + 1 := by omega
      rw [hji, List.getElem?_cons_succ]; exact this

theorem sp_lt (l : Bytes) (j : Nat) (h : j ∈ sp 0 l) : j < l.length := by
  have := sp_get 0 l j h
  simp only [Nat.sub_zero] at this
  by_cases hl : j < l.length
  · exact hl
  · rw [List.getElem?_eq_none (by omega)] at this; simp at this

theorem ancestorsAux_eq (acc rest : Bytes) :
    ancestorsAux acc rest = (sp acc.length rest).map fun i => (acc.reverse ++ rest).take i := by
  induction rest generalizing acc with
  | nil => simp [ancestorsAux, sp, slashPositionsAux]
  | cons b rest ih =>
    unfold ancestorsAux sp slashPositionsAux
    have hrw : (b :: acc).reverse ++ rest = acc.reverse ++ b :: rest := by simp
    by_cases hb : (b == 47) = true
    · simp only [hb, if_true, List.map_cons]
      rw [ih (b :: acc), hrw]
      congr 1
      · exact (List.take_left' (by simp)).symm
    · simp only [hb]
      rw [ih (b :: acc), hrw]
      rfl

theorem ancestors_eq (p : Bytes) : ancestors p = (sp 0 p).map fun i => p.take i := by
  unfold ancestors
  rw [ancestorsAux_eq]
  simp

/-- the last slash that is followed by another character, for a path without trailing slash
(plus, possibly, the slash `git check-attr` wants after a directory) -/
theorem lastSlashAux_eq (r sfx : Bytes) (hs : sfx = [] ∨ sfx = [47]) (hr : r.getLast? ≠ some 47) :
    ∀ (i : Nat) (acc : Option Nat), lastSlashAux i (r ++ sfx) acc = ((sp i r).getLast?).or acc := by
  induction r with
  | nil =>
    intro i acc
    rcases hs with rfl | rfl
    · simp [lastSlashAux, sp, slashPositionsAux]
    · simp [lastSlashAux, sp, slashPositionsAux]
  | cons b r ih =>
    intro i acc
    by_cases hrn : r = []
    · subst hrn
      have hb : ¬ b = 47 := by
        intro h; apply hr; simp [h]
      have hb' : (b == 47) = false := by simpa using hb
      rcases hs with rfl | rfl
      · simp [lastSlashAux, sp, slashPositionsAux, hb']
      · simp [lastSlashAux, sp, slashPositionsAux, hb']
    · have hr' : r.getLast? ≠ some 47 := by
        cases r with
        | nil => exact absurd rfl hrn
        | cons c r => rw [List.getLast?_cons_cons] at hr; exact hr
      have hne : (r ++ sfx).isEmpty = false := by
        cases r with
        | nil => exact absurd rfl hrn
        | cons c r => rfl
      rw [List.cons_append]
      unfold lastSlashAux sp slashPositionsAux
      rw [ih hr', hne]
      by_cases hb : (b == 47) = true
      · simp only [hb, Bool.not_false, Bool.and_true, if_true]
        rw [List.getLast?_cons]
        cases (sp (i + 1) r).getLast? <;> simp [sp]
      · simp only [hb, Bool.false_and]
        rfl

theorem sp_last (i : Nat) (l : Bytes) (k : Nat) (h : (sp i l).getLast? = some k) :
    sp i l = sp i (l.take (k - i)) ++ [k] := by
  induction l generalizing i with
  | nil => simp [sp, slashPositionsAux] at h
  | cons b l ih =>
    unfold sp slashPositionsAux at h
    by_cases hb : (b == 47) = true
    · simp only [hb, if_true] at h
      by_cases hnil : sp (i + 1) l = []
      · have hnil' : slashPositionsAux (i + 1) l = [] := hnil
        rw [hnil'] at h
        simp only [List.getLast?_singleton, Option.some.injEq] at h
        subst h
        simp [sp, slashPositionsAux, hb, hnil']
      · have hl : (sp (i + 1) l).getLast? = some k := by
          rw [List.getLast?_cons] at h
          cases hg : (sp (i + 1) l).getLast? with
          | none => exact absurd (List.getLast?_eq_none_iff.mp hg) hnil
          | some x =>
            have hg' : (slashPositionsAux (i + 1) l).getLast? = some x := hg
            rw [hg'] at h
            simpa using h
        have hge := sp_ge (i + 1) l k (List.mem_of_getLast? hl)
        have := ih (i + 1) hl
        have hk : k - i = (k - (i + 1)) + 1 := by omega
        rw [hk, List.take_succ_cons]
        show slashPositionsAux i (b :: l) = slashPositionsAux i (b :: List.take (k - (i + 1)) l) ++ [k]
        unfold slashPositionsAux
        simp only [hb, if_true, List.cons_append]
        exact congrArg _ this
    · simp only [hb] at h
      have hl : (sp (i + 1) l).getLast? = some k := h
      have hge := sp_ge (i + 1) l k (List.mem_of_getLast? hl)
      have := ih (i + 1) hl
      have hk : k - i = (k - (i + 1)) + 1 := by omega
      rw [hk, List.take_succ_cons]
      show slashPositionsAux i (b :: l) = slashPositionsAux i (b :: List.take (k - (i + 1)) l) ++ [k]
      unfold slashPositionsAux
      simp only [hb]
      exact this

theorem sp_zero_not_mem (p : Bytes) (hp : p.head? ≠ some 47) : 0 ∉ sp 0 p := by
  intro h
  have := sp_get 0 p 0 h
  cases p with
  | nil => simp at this
  | cons b p => simp at this; simp [this] at hp

/-- `prepare_attr_stack` reads the directories gitoxide's stack pushes -/
theorem gitOrigins_eq (p : Bytes) (isDir : Bool) (hp : PathOk p) : gitOrigins (gitPath p isDir) = ancestors p := by
  obtain ⟨_, hhead, hlast⟩ := hp
  have hg : ∃ sfx, gitPath p isDir = p ++ sfx ∧ (sfx = [] ∨ sfx = [47]) := by
    unfold gitPath
    cases isDir
    · exact ⟨[], by simp, Or.inl rfl⟩
    · exact ⟨[47], by simp, Or.inr rfl⟩
  obtain ⟨sfx, hgp, hsfx⟩ := hg
  rw [ancestors_eq]
  unfold gitOrigins dirLen
  rw [hgp, lastSlashAux_eq p sfx hsfx hlast 0 none]
  cases hl : (sp 0 p).getLast? with
  | none =>
    have : sp 0 p = [] := List.getLast?_eq_none_iff.mp hl
    simp [this]
  | some k =>
    have hmem : k ∈ sp 0 p := List.mem_of_getLast? hl
    have hk0 : k ≠ 0 := fun h => sp_zero_not_mem p hhead (h ▸ hmem)
    have hklt := sp_lt p k hmem
    have hdec := sp_last 0 p k hl
    simp only [Nat.sub_zero] at hdec
    have htk : (p ++ sfx).take k = p.take k := List.take_append_of_le_length (by omega)
    simp only [Option.or_none, Option.getD_some]
    have : (k == 0) = false := by simpa using hk0
    simp only [this, Bool.false_eq_true, if_false]
    rw [hdec, htk, List.map_append, List.map_cons, List.map_nil]
    congr 1
    apply List.map_congr_left
    intro i hi
    have hilt := sp_lt (p.take k) i hi
    rw [List.length_take] at hilt
    exact List.take_append_of_le_length (by omega)

/-- what `path_matches` sees of a path handed to `git check-attr` -/
theorem gitPath_split (p : Bytes) (isDir : Bool) (hp : PathOk p) :
    ((gitPath p isDir).getLast? == some 47) = isDir ∧
    (if (gitPath p isDir).getLast? == some 47 then (gitPath p isDir).dropLast else gitPath p isDir) = p := by
  unfold gitPath
  cases isDir
  · have : (p.getLast? == some 47) = false := by
      have := hp.2.2
      cases h : p.getLast? with
      | none => rfl
      | some x =>
        rw [h] at this
        have hx : ¬ x = 47 := fun hx => this (by rw [hx])
        simpa using hx
    simp [this]
  · simp [List.getLast?_concat, List.dropLast_concat]

theorem eqIgnoreCase_refl (a : Bytes) : eqIgnoreCase a a = true := by
  induction a with
  | nil => rfl
  | cons x a ih => simp [eqIgnoreCase, ih]

/-- a directory `d` pushed for `p`: `p` is `d/…` -/
theorem ancestor_split (p d : Bytes) (hp : PathOk p) (hd : d ∈ ancestors p) :
    ∃ rest, p = d ++ 47 :: rest ∧ d ≠ [] := by
  rw [ancestors_eq] at hd
  obtain ⟨i, hi, rfl⟩ := List.mem_map.mp hd
  have hlt := sp_lt p i hi
  have hget := sp_get 0 p i hi
  simp only [Nat.sub_zero] at hget
  have hi0 : i ≠ 0 := fun h => sp_zero_not_mem p hp.2.1 (h ▸ hi)
  refine ⟨p.drop (i + 1), ?_, ?_⟩
  · have h1 := List.take_append_drop i p
    rw [List.drop_eq_getElem_cons hlt] at h1
    rw [List.getElem?_eq_getElem hlt] at hget
    simp only [Option.some.injEq] at hget
    rw [hget] at h1
    exact h1.symm
  · intro h
    have := congrArg List.length h
    rw [List.length_take, List.length_nil] at this
    omega

theorem stripBase_ancestor (d rest : Bytes) (icase : Bool) :
    stripBase (d ++ [47]) (d ++ 47 :: rest) icase = some rest := by
  unfold stripBase
  have hlen : (d ++ [47]).length = d.length + 1 := by simp
  have hdrop : (d ++ 47 :: rest).drop (d ++ [47]).length = rest := by
    have : d ++ 47 :: rest = (d ++ [47]) ++ rest := by simp
    rw [this]; exact List.drop_left' rfl
  cases icase
  · have hpre : (d ++ [47]).isPrefixOf (d ++ 47 :: rest) = true := by
      rw [List.isPrefixOf_iff_prefix]
      have : d ++ 47 :: rest = (d ++ [47]) ++ rest := by simp
      rw [this]; exact List.prefix_append _ _
    simp [hpre, hdrop]
  · have htake : (d ++ 47 :: rest).take (d ++ [47]).length = d ++ [47] := by
      have : d ++ 47 :: rest = (d ++ [47]) ++ rest := by simp
      rw [this]; exact List.take_left' rfl
    have hle : (d ++ [47]).length ≤ (d ++ 47 :: rest).length := by simp
    simp only [if_true, htake, eqIgnoreCase_refl, Bool.and_true, hdrop]
    simp [hle]

/-- `path_matches` with the directory flag and the slash-free path name made explicit -/
def pathMatchesCore (env : Env) (p : Pat) (origin : Option Bytes) (isdir : Bool) (pathname : Bytes) (icase : Bool) : Bool :=
  let base := origin.getD []
  let baselen := base.length
  if pathname.length < baselen + 1 then false
  else if baselen != 0 && pathname[baselen]? != some 47 then false
  else if !fspathEq (pathname.take baselen) base icase then false
  else
    let name := if baselen != 0 then pathname.drop (baselen + 1) else pathname
    env.pm p name isdir icase

theorem pathMatches_def (env : Env) (p : Pat) (origin : Option Bytes) (g : Bytes) (icase : Bool) :
    pathMatches env p origin g icase =
      pathMatchesCore env p origin (g.getLast? == some 47) (if g.getLast? == some 47 then g.dropLast else g) icase := rfl

theorem pathMatches_ancestor (env : Env) (pat : Pat) (d rest : Bytes) (isDir icase : Bool)
    (hp : PathOk (d ++ 47 :: rest)) (hd : d ≠ []) :
    pathMatches env pat (some d) (gitPath (d ++ 47 :: rest) isDir) icase = env.pm pat rest isDir icase := by
  obtain ⟨h1, h2⟩ := gitPath_split (d ++ 47 :: rest) isDir hp
  rw [pathMatches_def, h2, h1]
  unfold pathMatchesCore
  simp only [Option.getD_some]
  have hlen : ¬ (d ++ 47 :: rest).length < d.length + 1 := by simp
  have hget : (d ++ 47 :: rest)[d.length]? = some 47 := by simp
  have htake : (d ++ 47 :: rest).take d.length = d := List.take_left' rfl
  have hdrop : (d ++ 47 :: rest).drop (d.length + 1) = rest := by
    have : d ++ 47 :: rest = (d ++ [47]) ++ rest := by simp
    rw [this]; exact List.drop_left' (by simp)
  have hd0 : (d.length != 0) = true := by
    cases d with
    | nil => exact absurd rfl hd
    | cons x d => simp
  have hfs : fspathEq d d icase = true := by
    unfold fspathEq; cases icase <;> simp [eqIgnoreCase_refl]
  simp only [hlen, if_false, hget, hd0, htake, hfs, hdrop]
  simp

theorem pathMatches_root (env : Env) (pat : Pat) (origin : Option Bytes) (ho : origin.getD [] = [])
    (p : Bytes) (isDir icase : Bool) (hp : PathOk p) :
    pathMatches env pat origin (gitPath p isDir) icase = env.pm pat p isDir icase := by
  obtain ⟨h1, h2⟩ := gitPath_split p isDir hp
  rw [pathMatches_def, h2, h1]
  unfold pathMatchesCore
  simp only [ho]
  have hlen : ¬ p.length < 1 := by
    have := hp.1
    cases p with
    | nil => exact absurd rfl this
    | cons x p => simp
  have hfs : fspathEq [] [] icase = true := by unfold fspathEq; cases icase <;> simp [eqIgnoreCase]
  simp [hlen, hfs]

end GixModel.Lemmas.C38
