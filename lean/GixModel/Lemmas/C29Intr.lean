import GixModel.Lemmas.C29
/-
C29, round 3: side-band demultiplexing with a progress handler that answers `Interrupt`.
-/
namespace GixModel.C29
open GixModel

set_option linter.unusedSimpArgs false

/-- with nothing pending, only progress messages before message `m`, and the handler interrupting
exactly at `m`: `fill_buf` delivers them all (including `m`) to the handler and fails with
"interrupted by user"; the reader is left right behind `m` -/
theorem fillBuf_interrupt (c : Consts) (hc : ConstsOk c) (s : SB) (pre post : List Msg) (m : Msg) (rest : Bytes)
    (h : SBInv c s (pre ++ m :: post) rest) (hnd : ∀ x ∈ pre, x.isData = false) (hm : m.isData = false)
    (hge : s.pos ≥ s.cap) (hk : s.interruptAt = some (s.log.length + (progressOf pre).length)) :
    ∃ s1, fillBuf c s = (.err .interrupted, s1) ∧
      s1.log = s.log ++ progressOf pre ++ progressOf [m] ∧
      s1.r.src.flatten = wireAll c (post.map Msg.line) ++ (wire c .flush ++ rest) := by
  have hc' := hc
  obtain ⟨hu, hmin, h65, hml, _⟩ := hc
  have hflat : s.r.src.flatten = wireAll c (pre.map Msg.line) ++
      (wire c m.line ++ (wireAll c (post.map Msg.line) ++ (wire c .flush ++ rest))) := by
    rw [h.flat]; simp [wireAll]
  have hfuel := fillFuel_ge c hc' s.r pre _ (fun x hx => (h.plain x (by simp [hx])).1) hflat
  obtain ⟨r', e1, e2, e3, e4, e5⟩ := fillLoop_progress c hc' pre _ s.r hnd
    (fun x hx => h.plain x (by simp [hx])) h.ready hflat ((fillFuel s.r - pre.length - 2) + 1 + 1) s.log
    s.interruptAt (by intro k hk'; rw [hk] at hk'; cases hk'; exact Nat.le_refl _)
  have hpm := h.plain m (by simp)
  obtain ⟨h1, h2, h3, h4, h5, h6, h7, h8, _⟩ :=
    readLine_wire c hc' r' m.line hpm.1 _ e2.notDone e2.noPeek e2.chunks e3
  rw [e4, e5, lineOutcome_plain c _ _ _ hpm] at h1 h2 h3
  simp only at h1 h2 h3
  have hlen : (s.log ++ progressOf pre).length = s.log.length + (progressOf pre).length := by simp
  have hloop : fillLoop c s.interruptAt (fillFuel s.r) s.r true s.log =
      (.err .interrupted, (readLine c r').2, s.log ++ progressOf pre ++ progressOf [m]) := by
    rw [hfuel, e1]
    conv => lhs; unfold fillLoop
    rcases hrl : readLine c r' with ⟨x, r1⟩
    rw [hrl] at h1
    simp only at h1
    subst h1
    cases m with
    | data d => simp [Msg.isData] at hm
    | progress t =>
      simp only [if_true, Msg.line, Msg.band, Msg.payload, decodeBand, Line.asSlice]
      simp only [show ((2 : UInt8) = 1) = False by decide, show ((2 : UInt8) = 2) = True by decide,
        if_false, if_true, show ((2 : Nat) = 1) = False by decide, show ((2 : Nat) == 3) = false by decide]
      rw [if_pos (by rw [hk, hlen])]
      simp [progressOf]
    | error t =>
      simp only [if_true, Msg.line, Msg.band, Msg.payload, decodeBand, Line.asSlice]
      simp only [show ((3 : UInt8) = 1) = False by decide, show ((3 : UInt8) = 2) = False by decide,
        show ((3 : UInt8) = 3) = True by decide,
        if_false, if_true, show ((3 : Nat) = 1) = False by decide, show ((3 : Nat) == 3) = true by decide]
      rw [if_pos (by rw [hk, hlen])]
      simp [progressOf]
  refine ⟨⟨(readLine c r').2, s.handler, s.pos, s.cap, s.log ++ progressOf pre ++ progressOf [m], s.interruptAt⟩,
    ?_, rfl, h4⟩
  unfold fillBuf
  rw [if_pos hge, h.handler, hloop]

/-- what a sequence of `read` calls delivers when the handler interrupts at message `m` -/
structure DrainIntr (s : SB) (before : List Msg) (m : Msg) (acc : Bytes) (ns : List Nat)
    (out : Bytes × DrainEnd × SB) : Prop where
  ends : out.2.1 = .err .interrupted ∨ out.2.1 = .sizes
  dataPrefix : ∃ suf, acc ++ pendingOf s ++ dataOf before = out.1 ++ suf
  atInterrupt : out.2.1 = .err .interrupted →
    out.1 = acc ++ pendingOf s ++ dataOf before ∧
    out.2.2.log = s.log ++ progressOf before ++ progressOf [m]
  progressMade : out.2.1 = .sizes → acc.length + ns.length ≤ out.1.length

theorem drain_intr_spec (c : Consts) (hc : ConstsOk c) (ns : List Nat) (hpos : ∀ n ∈ ns, 0 < n) (s : SB)
    (before after : List Msg) (m : Msg) (rest acc : Bytes) (h : SBInv c s (before ++ m :: after) rest)
    (hm : m.isData = false) (hk : s.interruptAt = some (s.log.length + (progressOf before).length)) :
    DrainIntr s before m acc ns (drain c s ns acc) := by
  induction ns generalizing s before acc with
  | nil =>
    unfold drain
    exact ⟨Or.inr rfl, ⟨pendingOf s ++ dataOf before, by simp⟩, (by intro h; cases h), (by intro _; simp)⟩
  | cons n ns ih =>
    have hn : 0 < n := hpos n (by simp)
    have hpos' : ∀ k ∈ ns, 0 < k := fun k hk => hpos k (by simp [hk])
    unfold drain
    by_cases hlt : s.pos < s.cap
    · have hfill := fillBuf_pending c s _ rest h hlt
      obtain ⟨s2, e1, e2, e3, e4, e4i⟩ := sbRead_of_fill c s s (pendingOf s) n _ rest hfill h hlt rfl
      have hne := pendingOf_ne_nil c s _ rest h hlt
      rw [e1]
      simp only [take_ne_nil _ n hne hn, Bool.false_eq_true, if_false]
      have := ih hpos' s2 before (acc ++ (pendingOf s).take n) e2 (by rw [e4i, e4]; exact hk)
      have hcat : acc ++ List.take n (pendingOf s) ++ pendingOf s2 ++ dataOf before =
          acc ++ pendingOf s ++ dataOf before := by
        rw [e3]; simp [List.append_assoc]
      obtain ⟨a, b, d, pm⟩ := this
      rw [hcat] at b d
      rw [e4] at d
      refine ⟨a, b, d, ?_⟩
      intro hs
      have := pm hs
      have hl : 1 ≤ ((pendingOf s).take n).length := by
        have := take_ne_nil _ n hne hn
        cases hq : (pendingOf s).take n with
        | nil => rw [hq] at this; simp at this
        | cons x y => simp
      simp only [List.length_append, List.length_cons] at *
      omega
    · have hge : s.pos ≥ s.cap := by omega
      have hpend : pendingOf s = [] := by unfold pendingOf; rw [if_pos hge]
      rcases split_first_data before with hnd | ⟨pre, d, post, hrem, hnd⟩
      · -- only progress messages before `m`: the handler is called for them and for `m`, then interrupts
        obtain ⟨s1, e1, e2, _⟩ := fillBuf_interrupt c hc s before after m rest h hnd hm hge hk
        have hsb : sbRead c s n = (.err .interrupted, s1) := by
          unfold sbRead; rw [e1]
        rw [hsb]
        simp only
        refine ⟨Or.inl rfl, ⟨[], by simp [hpend, dataOf_nodata before hnd]⟩, ?_, (by intro hs; cases hs)⟩
        intro _
        exact ⟨by simp [hpend, dataOf_nodata before hnd], e2⟩
      · subst hrem
        have hassoc : (pre ++ Msg.data d :: post) ++ m :: after = pre ++ Msg.data d :: (post ++ m :: after) := by
          simp
        rw [hassoc] at h
        have hprog0 : progressOf (pre ++ Msg.data d :: post) = progressOf pre ++ progressOf post := by
          rw [progressOf_append]; rfl
        obtain ⟨s1, e1, e2, e3, e4, e5, e5i⟩ := fillBuf_data c hc s pre (post ++ m :: after) d rest h hnd hge
          (by intro k hk'; rw [hk] at hk'; cases hk'; rw [hprog0]; simp only [List.length_append]; omega)
        obtain ⟨s2, f1, f2, f3, f4, f4i⟩ := sbRead_of_fill c s s1 d n _ rest e1 e2 e3 e4
        have hdne : d ≠ [] := (h.valid (Msg.data d) (by simp)).1
        rw [f1]
        simp only [take_ne_nil _ n hdne hn, Bool.false_eq_true, if_false]
        have := ih hpos' s2 post (acc ++ d.take n) f2
          (by rw [f4i, e5i, hk, f4, e5, hprog0]; simp only [List.length_append]; congr 1; omega)
        have hdata : dataOf (pre ++ Msg.data d :: post) = d ++ dataOf post := by
          rw [dataOf_append, dataOf_nodata pre hnd]; rfl
        have hcat : acc ++ List.take n d ++ pendingOf s2 ++ dataOf post =
            acc ++ pendingOf s ++ dataOf (pre ++ Msg.data d :: post) := by
          rw [f3, hpend, hdata]; simp [List.append_assoc]
        have hlog : s2.log ++ progressOf post ++ progressOf [m] =
            s.log ++ progressOf (pre ++ Msg.data d :: post) ++ progressOf [m] := by
          rw [f4, e5, hprog0]; simp [List.append_assoc]
        obtain ⟨a, b, dd, pm⟩ := this
        rw [hcat] at b dd
        rw [hlog] at dd
        refine ⟨a, b, dd, ?_⟩
        intro hs
        have := pm hs
        have hl : 1 ≤ (d.take n).length := by
          have := take_ne_nil _ n hdne hn
          cases hq : d.take n with
          | nil => rw [hq] at this; simp at this
          | cons x y => simp
        simp only [List.length_append, List.length_cons] at *
        omega

end GixModel.C29
