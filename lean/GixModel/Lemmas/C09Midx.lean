import GixModel.Lemmas.C09Build
/-
C09 helper lemmas, part 8: the multi-pack index writer (`midxBuild`): collect, sort, dedup give
strictly ascending ids covering exactly the ids of all packs; the offsets chunk(s) give back the
offset of every kept entry; no panic below 2^31 entries.
-/
namespace GixModel.C09
open GixModel

def idLe (a b : MEntry) : Prop := cmpBytes a.id b.id ≠ .gt
def idLt (a b : MEntry) : Prop := cmpBytes a.id b.id = .lt

theorem idLe_trans {a b c : MEntry} (h1 : idLe a b) (h2 : idLe b c) : idLe a c := by
  unfold idLe at *
  rw [cmpBytes_eq_cmpL] at *
  exact leL_trans h1 h2

theorem idLt_of_lt_of_le {a b c : MEntry} (h1 : idLt a b) (h2 : idLe b c) : idLt a c := by
  unfold idLt idLe at *
  rw [cmpBytes_eq_cmpL] at *
  exact cmpL_lt_of_lt_of_le h1 h2

theorem idLt_trans {a b c : MEntry} (h1 : idLt a b) (h2 : idLt b c) : idLt a c :=
  idLt_of_lt_of_le h1 (by unfold idLt at h2; unfold idLe; rw [h2]; decide)

theorem mcmp_gt_idLe {e x : MEntry} (h : mcmp e x = .gt) : idLe x e := by
  unfold mcmp at h
  unfold idLe
  cases hc : cmpBytes e.id x.id with
  | lt => rw [hc] at h; cases h
  | eq =>
    rw [cmpBytes_eq_iff] at hc
    rw [hc, (cmpBytes_eq_iff _ _).mpr rfl]; decide
  | gt =>
    rw [cmpBytes_eq_cmpL] at hc ⊢
    rw [cmpL_swap_gt] at hc
    rw [hc]; decide

theorem mcmp_ngt_idLe {e x : MEntry} (h : mcmp e x ≠ .gt) : idLe e x := by
  unfold mcmp at h
  unfold idLe
  intro hc
  rw [hc] at h
  exact h rfl

theorem mem_minsert {e y : MEntry} {l : List MEntry} : y ∈ minsert e l ↔ y = e ∨ y ∈ l := by
  induction l with
  | nil => simp [minsert]
  | cons x xs ih =>
    simp only [minsert]
    by_cases h : mcmp e x = .gt
    · simp only [h, if_true, List.mem_cons, ih]
      constructor
      · rintro (h1 | h1 | h1) <;> simp [h1]
      · rintro (h1 | h1 | h1) <;> simp [h1]
    · simp [h]

theorem minsert_length (e : MEntry) (l : List MEntry) : (minsert e l).length = l.length + 1 := by
  induction l with
  | nil => simp [minsert]
  | cons x xs ih =>
    simp only [minsert]
    by_cases h : mcmp e x = .gt
    · simp [h, ih]
    · simp [h]

theorem mem_msort {y : MEntry} {l : List MEntry} : y ∈ msort l ↔ y ∈ l := by
  induction l with
  | nil => simp [msort]
  | cons x xs ih =>
    have : msort (x :: xs) = minsert x (msort xs) := rfl
    rw [this, mem_minsert, ih]; simp

theorem msort_length (l : List MEntry) : (msort l).length = l.length := by
  induction l with
  | nil => simp [msort]
  | cons x xs ih =>
    have : msort (x :: xs) = minsert x (msort xs) := rfl
    rw [this, minsert_length, ih]; simp

theorem minsert_sorted (e : MEntry) (l : List MEntry) (h : l.Pairwise idLe) : (minsert e l).Pairwise idLe := by
  induction l with
  | nil => simp [minsert]
  | cons x xs ih =>
    have h' := List.pairwise_cons.mp h
    simp only [minsert]
    by_cases hgt : mcmp e x = .gt
    · simp only [hgt, if_true]
      refine List.pairwise_cons.mpr ⟨?_, ih h'.2⟩
      intro y hy
      rcases mem_minsert.mp hy with rfl | hy
      · exact mcmp_gt_idLe hgt
      · exact h'.1 y hy
    · simp only [hgt, if_false]
      refine List.pairwise_cons.mpr ⟨?_, h⟩
      intro y hy
      rcases List.mem_cons.mp hy with rfl | hy
      · exact mcmp_ngt_idLe hgt
      · exact idLe_trans (mcmp_ngt_idLe hgt) (h'.1 y hy)

theorem msort_sorted (l : List MEntry) : (msort l).Pairwise idLe := by
  induction l with
  | nil => simp [msort]
  | cons x xs ih => exact minsert_sorted x _ ih

/-- dedup of an id-sorted list: head stays, the rest is strictly above it, every dropped entry's
id is still there -/
theorem mdedupAux_spec : ∀ (rest : List MEntry) (x : MEntry), (x :: rest).Pairwise idLe →
    ∃ tail, mdedupAux x rest = x :: tail ∧ (∀ y ∈ tail, y ∈ rest ∧ idLt x y) ∧
      (x :: tail).Pairwise idLt ∧ (∀ y ∈ rest, ∃ z ∈ x :: tail, z.id = y.id) ∧
      tail.length ≤ rest.length := by
  intro rest
  induction rest with
  | nil => intro x _; exact ⟨[], rfl, by simp, by simp, by simp, by simp⟩
  | cons y r ih =>
    intro x hs
    have hs' := List.pairwise_cons.mp hs
    have hs'' := List.pairwise_cons.mp hs'.2
    by_cases hid : x.id = y.id
    · have hxr : (x :: r).Pairwise idLe :=
        List.pairwise_cons.mpr ⟨fun z hz => hs'.1 z (by simp [hz]), hs''.2⟩
      obtain ⟨tail, h1, h2, h3, h4, h5⟩ := ih x hxr
      refine ⟨tail, by simp [mdedupAux, hid, h1], ?_, h3, ?_, by simp; omega⟩
      · intro z hz; exact ⟨by simp [(h2 z hz).1], (h2 z hz).2⟩
      · intro z hz
        rcases List.mem_cons.mp hz with rfl | hz
        · exact ⟨x, by simp, hid⟩
        · exact h4 z hz
    · obtain ⟨tail', h1, h2, h3, h4, h5⟩ := ih y hs'.2
      have hxy : idLt x y := by
        have hle := hs'.1 y (by simp)
        unfold idLe at hle; unfold idLt
        cases hc : cmpBytes x.id y.id with
        | lt => rfl
        | eq => exact absurd ((cmpBytes_eq_iff _ _).mp hc) hid
        | gt => exact absurd hc hle
      refine ⟨y :: tail', by simp [mdedupAux, hid, h1], ?_, ?_, ?_, by simp; omega⟩
      · intro z hz
        rcases List.mem_cons.mp hz with rfl | hz
        · exact ⟨by simp, hxy⟩
        · exact ⟨by simp [(h2 z hz).1], idLt_trans hxy (h2 z hz).2⟩
      · refine List.pairwise_cons.mpr ⟨?_, h3⟩
        intro z hz
        rcases List.mem_cons.mp hz with rfl | hz
        · exact hxy
        · exact idLt_trans hxy (h2 z hz).2
      · intro z hz
        rcases List.mem_cons.mp hz with rfl | hz
        · exact ⟨z, by simp, rfl⟩
        · obtain ⟨w, hw, hwid⟩ := h4 z hz
          exact ⟨w, by simp [List.mem_cons.mp hw] <;> (rcases List.mem_cons.mp hw with h | h <;> simp [h]), hwid⟩

theorem mdedup_spec (l : List MEntry) (hs : l.Pairwise idLe) :
    (mdedup l).Pairwise idLt ∧ (∀ y ∈ mdedup l, y ∈ l) ∧ (∀ y ∈ l, ∃ z ∈ mdedup l, z.id = y.id) ∧
      (mdedup l).length ≤ l.length := by
  cases l with
  | nil => simp [mdedup]
  | cons x rest =>
    obtain ⟨tail, h1, h2, h3, h4, h5⟩ := mdedupAux_spec rest x hs
    simp only [mdedup, h1]
    refine ⟨h3, ?_, ?_, by simp; omega⟩
    · intro y hy
      rcases List.mem_cons.mp hy with rfl | hy
      · simp
      · simp [(h2 y hy).1]
    · intro y hy
      rcases List.mem_cons.mp hy with rfl | hy
      · exact ⟨y, by simp, rfl⟩
      · exact h4 y hy

/-- what `collect` gathers: every (id, offset) of every pack, tagged with the pack's position -/
theorem mem_collect {e : MEntry} : ∀ (packs : List PackIn) (k : Nat),
    e ∈ collect k packs ↔ ∃ j p, packs[j]? = some p ∧ e.pack = k + j ∧ e.mtime = p.mtime ∧ (e.id, e.offset) ∈ p.entries := by
  intro packs
  induction packs with
  | nil => intro k; simp [collect]
  | cons p ps ih =>
    intro k
    simp only [collect, List.mem_append, List.mem_map, ih (k + 1)]
    constructor
    · rintro (⟨a, ha, rfl⟩ | ⟨j, q, hq, h1, h2, h3⟩)
      · exact ⟨0, p, rfl, rfl, rfl, ha⟩
      · exact ⟨j + 1, q, by simpa using hq, by omega, h2, h3⟩
    · rintro ⟨j, q, hq, h1, h2, h3⟩
      cases j with
      | zero =>
        simp at hq; subst hq
        left
        refine ⟨(e.id, e.offset), h3, ?_⟩
        cases e; simp at h1 h2 ⊢; exact ⟨h1.symm, h2.symm⟩
      | succ j =>
        right
        exact ⟨j, q, by simpa using hq, by omega, h2, h3⟩

theorem collect_length : ∀ (packs : List PackIn) (k : Nat),
    (collect k packs).length = (packs.map (·.entries.length)).sum := by
  intro packs
  induction packs with
  | nil => intro k; rfl
  | cons p ps ih => intro k; simp [collect, ih (k + 1)]

/-- the offset half of `pack_id_and_pack_offset_at_index` -/
def midxDecode (o32 : List Nat) (large : Option (List Nat)) (i : Nat) : Option Nat := do
  let v ← o32[i]?
  if v &&& HIGH_BIT = HIGH_BIT then
    match large with
    | some l => l[v ^^^ HIGH_BIT]?
    | none => some v
  else some v

theorem midxDecode_cons_succ (v : Nat) (o32 : List Nat) (large : Option (List Nat)) (i : Nat) :
    midxDecode (v :: o32) large (i + 1) = midxDecode o32 large i := by
  simp [midxDecode]

theorem midxDecode_zero_small (o32 : List Nat) (large : Option (List Nat)) {v : Nat} (hv : v < 2147483648) :
    midxDecode (v :: o32) large 0 = some v := by
  show (some v).bind (fun v => if v &&& HIGH_BIT = HIGH_BIT then
      (match large with | some l => l[v ^^^ HIGH_BIT]? | none => some v) else some v) = _
  rw [Option.bind_some, if_neg (and_high_of_lt hv)]

theorem midxDecode_zero_large (o32 l : List Nat) {k : Nat} (hk : k < 2147483648) :
    midxDecode ((k + 2147483648) :: o32) (some l) 0 = l[k]? := by
  have hand : (k + 2147483648) &&& HIGH_BIT = HIGH_BIT := and_high_of_ge (by omega) (by omega)
  show (some (k + 2147483648)).bind (fun v => if v &&& HIGH_BIT = HIGH_BIT then
      (match (some l : Option (List Nat)) with | some l => l[v ^^^ HIGH_BIT]? | none => some v) else some v) = _
  rw [Option.bind_some, if_pos hand]
  show l[(k + 2147483648) ^^^ HIGH_BIT]? = _
  rw [xor_high hk]

theorem midxDecode_zero_nolarge (o32 : List Nat) (v : Nat) :
    midxDecode (v :: o32) none 0 = some v := by
  show (some v).bind (fun v => if v &&& HIGH_BIT = HIGH_BIT then
      (match (none : Option (List Nat)) with | some l => l[v ^^^ HIGH_BIT]? | none => some v) else some v) = _
  rw [Option.bind_some]
  by_cases h : v &&& HIGH_BIT = HIGH_BIT
  · rw [if_pos h]
  · rw [if_neg h]

def largeOf (es : List MEntry) : List Nat := (es.filter (fun e => e.offset > LARGE_OFFSET_THRESHOLD)).map (·.offset)

/-- with the LOFF chunk: every offset comes back -/
theorem midxOffsets_large_spec :
    ∀ (es : List MEntry) (pre : List Nat), pre.length + es.length < 2147483648 →
      ∃ o32, midxOffsets true es pre.length = some o32 ∧ o32.length = es.length ∧
        ∀ (tail : List Nat) (i : Nat) (hi : i < es.length),
          midxDecode o32 (some (pre ++ largeOf es ++ tail)) i = some es[i].offset := by
  intro es
  induction es with
  | nil => intro pre _; exact ⟨[], rfl, rfl, by intro _ i hi; simp at hi⟩
  | cons e rest ih =>
    intro pre hlen
    simp only [List.length_cons] at hlen
    by_cases ho : e.offset > LARGE_OFFSET_THRESHOLD
    · have hmod : (pre.length + 1) % U32 = (pre ++ [e.offset]).length := by
        simp only [List.length_append, List.length_singleton]
        exact Nat.mod_eq_of_lt (by simp only [U32]; omega)
      obtain ⟨o32, h1, h2, h3⟩ := ih (pre ++ [e.offset]) (by simp; omega)
      refine ⟨(pre.length ||| HIGH_BIT) :: o32, ?_, by simp [h2], ?_⟩
      · simp only [midxOffsets, ho, if_true, hmod, h1, Option.map_some]
      · intro tail i hi
        have hlarge : largeOf (e :: rest) = e.offset :: largeOf rest := by
          simp [largeOf, List.filter_cons, ho]
        cases i with
        | zero =>
          rw [or_high (by omega), midxDecode_zero_large _ _ (by omega), hlarge]
          simp
        | succ j =>
          rw [midxDecode_cons_succ, hlarge]
          have := h3 tail j (by simpa using hi)
          simpa using this
    · have hT : LARGE_OFFSET_THRESHOLD = 2147483647 := rfl
      have hmod : e.offset % U32 = e.offset := Nat.mod_eq_of_lt (by simp only [U32]; omega)
      obtain ⟨o32, h1, h2, h3⟩ := ih pre (by omega)
      refine ⟨e.offset % U32 :: o32, ?_, by simp [h2], ?_⟩
      · simp only [midxOffsets, ho, if_true, if_false, h1, Option.map_some]
      · intro tail i hi
        have hlarge : largeOf (e :: rest) = largeOf rest := by
          simp [largeOf, List.filter_cons, ho]
        cases i with
        | zero => rw [hmod, midxDecode_zero_small _ _ (by omega)]; simp
        | succ j =>
          rw [midxDecode_cons_succ, hlarge]
          exact h3 tail j (by simpa using hi)

/-- without the LOFF chunk (all offsets fit u32): the u32 is the offset, high bit or not -/
theorem midxOffsets_small_spec :
    ∀ (es : List MEntry) (nl : Nat), (∀ e ∈ es, e.offset < U32) →
      ∃ o32, midxOffsets false es nl = some o32 ∧ o32.length = es.length ∧
        ∀ (i : Nat) (hi : i < es.length), midxDecode o32 none i = some es[i].offset := by
  intro es
  induction es with
  | nil => intro nl _; exact ⟨[], rfl, rfl, by intro i hi; simp at hi⟩
  | cons e rest ih =>
    intro nl hall
    obtain ⟨o32, h1, h2, h3⟩ := ih nl (fun x hx => hall x (by simp [hx]))
    have he := hall e (by simp)
    refine ⟨e.offset :: o32, ?_, by simp [h2], ?_⟩
    · simp only [midxOffsets, Bool.false_eq_true, if_false, he, if_true, h1, Option.map_some]
    · intro i hi
      cases i with
      | zero => rw [midxDecode_zero_nolarge]; simp
      | succ j => rw [midxDecode_cons_succ]; exact h3 j (by simpa using hi)

/-- the entry list the multi-pack index holds -/
def midxEntries (packs : List PackIn) : List MEntry := mdedup (msort (collect 0 packs))

theorem numLargeOffsets_none {es : List MEntry} (h : numLargeOffsets es = none) : ∀ e ∈ es, e.offset < U32 := by
  intro e he
  unfold numLargeOffsets at h
  by_cases hany : es.any (fun e => e.offset > 4294967295) = true
  · simp [hany] at h
  · simp only [Bool.not_eq_true, List.any_eq_false, decide_eq_true_eq] at hany
    have := hany e he
    simp only [U32]; omega

theorem midxBuild_spec (packs : List PackIn)
    (h20 : ∀ p ∈ packs, ∀ e ∈ p.entries, e.1.length = 20)
    (hsmall : (collect 0 packs).length < 2147483648) :
    ∃ x, midxBuild packs = some x ∧ x.ids = (midxEntries packs).map (·.id) ∧
      TableOk x.fan x.oidAt x.ids ∧ x.numObjects = some x.ids.length ∧
      ∀ i (h : i < (midxEntries packs).length),
        x.packAndOffsetAt i = some ((midxEntries packs)[i].pack, (midxEntries packs)[i].offset) := by
  have hsorted := msort_sorted (collect 0 packs)
  obtain ⟨hstrict, hsub, hcover, hlen⟩ := mdedup_spec _ hsorted
  have hlen' : (midxEntries packs).length < 2147483648 := by
    have := msort_length (collect 0 packs)
    unfold midxEntries; omega
  have hs20 : ∀ x ∈ (midxEntries packs).map (·.id), x.length = 20 := by
    intro x hx
    obtain ⟨e, he, rfl⟩ := List.mem_map.mp hx
    have hmem := mem_msort.mp (hsub e he)
    obtain ⟨j, p, hp, _, _, hin⟩ := (mem_collect packs 0).mp hmem
    exact h20 p (List.mem_of_getElem? hp) _ hin
  have hsortedIds : SortedIds ((midxEntries packs).map (·.id)) := by
    unfold SortedIds; rw [List.pairwise_map]; exact hstrict
  have hfb := firstBytes_eq hs20
  have hfan := fanout_spec _ (sortedFb_of_sorted hsortedIds hs20)
  -- the two shapes of the offsets chunk
  cases hnl : numLargeOffsets (midxEntries packs) with
  | none =>
    obtain ⟨o32, ho1, ho2, ho3⟩ := midxOffsets_small_spec (midxEntries packs) 0 (numLargeOffsets_none hnl)
    refine ⟨{ fan := (List.range 256).map (fun b => countLe b (((midxEntries packs).map (·.id)).map hd)),
              ids := (midxEntries packs).map (·.id), packIds := (midxEntries packs).map (·.pack),
              ofs32 := o32, large := none }, ?_, rfl, ?_, ?_, ?_⟩
    · have e : mdedup (msort (collect 0 packs)) = midxEntries packs := rfl
      simp only [midxBuild, e, hfb, hfan, hnl, Option.isSome_none, ho1, Option.bind_eq_bind, Option.bind_some]
    · exact {
        sorted := hsortedIds
        len20 := hs20
        fanOk := rfl
        small := by simp only [List.length_map]; exact hlen'
        get := by intro i h; simp [Midx.oidAt, List.getElem?_eq_getElem h] }
    · simp only [Midx.numObjects]
      rw [List.getElem?_map, List.getElem?_range (by omega)]
      simp only [Option.map_some]
      congr 1
      rw [countLe_all (by intro y _; have := y.toNat_lt; omega)]
      simp
    · intro i h
      have hd := ho3 i h
      have hv : o32[i]? = some o32[i] := List.getElem?_eq_getElem (by omega)
      simp only [Midx.packAndOffsetAt, List.getElem?_map, List.getElem?_eq_getElem h, Option.map_some,
        Option.bind_eq_bind, Option.bind_some]
      simp only [midxDecode, Option.bind_eq_bind] at hd
      cases hv' : o32[i]? with
      | none => rw [hv'] at hd; simp at hd
      | some v =>
        rw [hv'] at hd
        simp only [Option.bind_some] at hd ⊢
        by_cases hb : v &&& HIGH_BIT = HIGH_BIT
        · simp only [hb, if_true] at hd ⊢
          injection hd with hd; rw [hd]
        · simp only [hb, if_false] at hd ⊢
          injection hd with hd; rw [hd]
  | some cnt =>
    obtain ⟨o32, ho1, ho2, ho3⟩ := midxOffsets_large_spec (midxEntries packs) [] (by simpa using hlen')
    refine ⟨{ fan := (List.range 256).map (fun b => countLe b (((midxEntries packs).map (·.id)).map hd)),
              ids := (midxEntries packs).map (·.id), packIds := (midxEntries packs).map (·.pack),
              ofs32 := o32, large := some (largeOf (midxEntries packs)) }, ?_, rfl, ?_, ?_, ?_⟩
    · have e : mdedup (msort (collect 0 packs)) = midxEntries packs := rfl
      simp only [List.length_nil] at ho1
      simp only [midxBuild, e, hfb, hfan, hnl, Option.isSome_some, ho1, Option.bind_eq_bind, Option.bind_some,
        largeOf]
    · exact {
        sorted := hsortedIds
        len20 := hs20
        fanOk := rfl
        small := by simp only [List.length_map]; exact hlen'
        get := by intro i h; simp [Midx.oidAt, List.getElem?_eq_getElem h] }
    · simp only [Midx.numObjects]
      rw [List.getElem?_map, List.getElem?_range (by omega)]
      simp only [Option.map_some]
      congr 1
      rw [countLe_all (by intro y _; have := y.toNat_lt; omega)]
      simp
    · intro i h
      have hd := ho3 [] i h
      simp only [List.nil_append, List.append_nil] at hd
      simp only [Midx.packAndOffsetAt, List.getElem?_map, List.getElem?_eq_getElem h, Option.map_some,
        Option.bind_eq_bind, Option.bind_some]
      simp only [midxDecode, Option.bind_eq_bind] at hd
      cases hv' : o32[i]? with
      | none => rw [hv'] at hd; simp at hd
      | some v =>
        rw [hv'] at hd
        simp only [Option.bind_some] at hd ⊢
        by_cases hb : v &&& HIGH_BIT = HIGH_BIT
        · simp only [hb, if_true] at hd ⊢
          rw [hd]; rfl
        · simp only [hb, if_false] at hd ⊢
          injection hd with hd; rw [hd]

/-- membership in the multi-pack index' id list = membership in some pack -/
theorem mem_midx_ids (packs : List PackIn) (id : Bytes) :
    id ∈ (midxEntries packs).map (·.id) ↔ ∃ p ∈ packs, ∃ e ∈ p.entries, e.1 = id := by
  have hsorted := msort_sorted (collect 0 packs)
  obtain ⟨_, hsub, hcover, _⟩ := mdedup_spec _ hsorted
  constructor
  · intro h
    obtain ⟨e, he, rfl⟩ := List.mem_map.mp h
    obtain ⟨j, p, hp, _, _, hin⟩ := (mem_collect packs 0).mp (mem_msort.mp (hsub e he))
    exact ⟨p, List.mem_of_getElem? hp, _, hin, rfl⟩
  · rintro ⟨p, hp, e, he, rfl⟩
    obtain ⟨j, hj, hget⟩ := List.getElem_of_mem hp
    have hmem : (⟨e.1, 0 + j, e.2, p.mtime⟩ : MEntry) ∈ collect 0 packs :=
      (mem_collect packs 0).mpr ⟨j, p, by rw [List.getElem?_eq_getElem hj, hget], rfl, rfl, he⟩
    obtain ⟨z, hz, hzid⟩ := hcover _ (mem_msort.mpr hmem)
    exact List.mem_map.mpr ⟨z, hz, hzid⟩

/-- every kept entry really is an entry of the pack it names -/
theorem midx_entry_origin (packs : List PackIn) (e : MEntry) (he : e ∈ midxEntries packs) :
    ∃ p, packs[e.pack]? = some p ∧ (e.id, e.offset) ∈ p.entries := by
  have hsorted := msort_sorted (collect 0 packs)
  obtain ⟨_, hsub, _, _⟩ := mdedup_spec _ hsorted
  obtain ⟨j, p, hp, hk, _, hin⟩ := (mem_collect packs 0).mp (mem_msort.mp (hsub e he))
  exact ⟨p, by rw [hk]; simpa using hp, hin⟩

end GixModel.C09
