import GixModel.Lemmas.C04b
/-
C04 helper lemmas, part c: the last loop iteration (a leaf is written or an entry removed, cached
sub-trees below it are forgotten), and the induction over the path for `upsert`, `remove` and
`cursor_at`.
-/
namespace GixModel.C04
open GixModel GixModel.Tree
open GixModel.Spec.C04 (Leaf FS)

/-- the cache is prefix-closed -/
theorem cached_prefix {ed : Ed} (hinv : Inv ed) :
    ∀ (len : Nat) (S K : Path) (t : List Entry), S.length = len →
      aget (K ++ S) ed.trees = some t → (aget K ed.trees).isSome = true := by
  intro len
  induction len with
  | zero =>
    intro S K t hl h
    have : S = [] := List.length_eq_zero_iff.1 hl
    subst this
    simp at h; simp [h]
  | succ len ih =>
    intro S K t hl h
    have hne : S ≠ [] := by intro h0; subst h0; simp at hl
    have hsplit := List.dropLast_concat_getLast hne
    rw [← hsplit, ← List.append_assoc] at h
    obtain ⟨tp, _, h1, _, _⟩ := hinv.linked _ _ _ h
    exact ih S.dropLast K tp (by simp [hl]) h1

theorem nothing_below {ed : Ed} (hinv : Inv ed) {P : Path} {t : List Entry}
    (hP : aget P ed.trees = some t) {n : Bytes}
    (hnodir : ∀ e, findName t n = some e → e.isTree = false) {K : Path} (hK : (P ++ [n]) <+: K) :
    aget K ed.trees = none := by
  cases h : aget K ed.trees with
  | none => rfl
  | some tk =>
    obtain ⟨S, rfl⟩ := hK
    have := cached_prefix hinv S.length S (P ++ [n]) tk rfl h
    cases h2 : aget (P ++ [n]) ed.trees with
    | none => simp [h2] at this
    | some tn =>
      obtain ⟨tp, e, h3, h4, h5⟩ := hinv.linked P n tn h2
      rw [hP] at h3
      simp only [Option.some.injEq] at h3
      subst h3
      rw [hnodir e h4] at h5; cases h5

/-- Replace the tree at `P` by `t'` in which `n` is not a directory (a leaf, or absent) and drop
every cached tree at or below `P ++ [n]`: the invariant survives. -/
theorem inv_leaf_update {ed : Ed} (hinv : Inv ed) {P : Path} {t : List Entry}
    (hP : aget P ed.trees = some t) {n : Bytes} {t' : List Entry} (ht' : TreeOk t')
    (hn_ok : ∀ e, findName t' n = some e → e.isTree = true →
      noFind e.oid = true ∨ (aget e.oid ed.store).isSome = true)
    (hother : ∀ m, m ≠ n → findName t' m = findName t m) (trees' : Assoc Path (List Entry))
    (hget : ∀ K, aget K trees' =
      if (P ++ [n]) <+: K then none else if K = P then some t' else aget K ed.trees) (pb : Path) :
    Inv { ed with pathBuf := pb, trees := trees' } := by
  have hPn : ¬ (P ++ [n]) <+: P := not_prefix_append_singleton P n
  have hgetP : aget P trees' = some t' := by rw [hget]; simp [hPn]
  -- a key below which something is still cached is not below `P ++ [n]`
  have hparent : ∀ K m, ¬ (P ++ [n]) <+: (K ++ [m]) → ¬ (P ++ [n]) <+: K :=
    fun K m h1 h2 => h1 (h2.trans (List.prefix_append K [m]))
  refine ⟨?_, ?_, ?_, ?_, hinv.store⟩
  · show (aget [] trees').isSome = true
    rw [hget]
    have h0 : ¬ (P ++ [n]) <+: [] := by
      intro h; have := List.IsPrefix.length_le h; simp at this
    by_cases hp : ([] : Path) = P
    · subst hp; rw [if_neg h0]; simp
    · simp only [h0, if_false, hp]; exact hinv.root
  · intro K tk hK
    change aget K trees' = some tk at hK
    rw [hget] at hK
    by_cases h1 : (P ++ [n]) <+: K
    · simp [h1] at hK
    · by_cases h2 : K = P
      · subst h2
        rw [if_neg h1, if_pos rfl] at hK
        simp only [Option.some.injEq] at hK; subst hK; exact ht'
      · simp only [h1, h2, if_false] at hK; exact hinv.trees K tk hK
  · intro K m tk hK
    change aget (K ++ [m]) trees' = some tk at hK
    rw [hget] at hK
    by_cases h1 : (P ++ [n]) <+: (K ++ [m])
    · simp [h1] at hK
    · have h1' := hparent K m h1
      have hne : K ++ [m] ≠ P ++ [n] := fun h => h1 (h ▸ List.prefix_refl _)
      by_cases h2 : K ++ [m] = P
      · -- the tree at `P` itself
        obtain ⟨tp, e, h3, h4, h5⟩ := hinv.linked K m t (h2 ▸ hP)
        refine ⟨tp, e, ?_, h4, h5⟩
        show aget K trees' = some tp
        rw [hget]
        have hKP : K ≠ P := by
          intro h; rw [h] at h2; exact (ne_append_singleton P m) h2.symm
        simp only [h1', if_false, hKP]; exact h3
      · simp only [h1, h2, if_false] at hK
        obtain ⟨tp, e, h3, h4, h5⟩ := hinv.linked K m tk hK
        by_cases hKP : K = P
        · subst hKP
          rw [hP] at h3
          simp only [Option.some.injEq] at h3
          subst h3
          have hmn : m ≠ n := fun h => hne (by rw [h])
          exact ⟨t', e, hgetP, (hother m hmn).trans h4, h5⟩
        · refine ⟨tp, e, ?_, h4, h5⟩
          show aget K trees' = some tp
          rw [hget]; simp only [h1', if_false, hKP]; exact h3
  · intro K tk hK e he hd
    change aget K trees' = some tk at hK
    rw [hget] at hK
    by_cases h1 : (P ++ [n]) <+: K
    · simp [h1] at hK
    · -- the child key of a directory entry of a surviving tree, if it is below `P ++ [n]`, is `P ++ [n]`
      have hchild : (P ++ [n]) <+: (K ++ [e.name]) → K = P ∧ e.name = n := by
        intro h
        obtain ⟨S, hS⟩ := h
        have hlen : K.length ≤ P.length := by
          by_cases hl : K.length ≤ P.length
          · exact hl
          · exfalso
            apply h1
            -- `K` is longer than `P`, so it already extends `P ++ [n]`
            have h3 : (P ++ [n]) <+: K ++ [e.name] := ⟨S, hS⟩
            have h4 : K <+: K ++ [e.name] := List.prefix_append _ _
            exact List.prefix_of_prefix_length_le h3 h4 (by simp; omega)
        have hS0 : S = [] := by
          have := congrArg List.length hS
          simp at this
          apply List.length_eq_zero_iff.1; omega
        subst hS0
        simp only [List.append_nil] at hS
        have := append_singleton_inj hS
        exact ⟨this.1.symm, this.2.symm⟩
      have hres : ∀ (tk0 : List Entry), aget K ed.trees = some tk0 → e ∈ tk0 →
          ¬ (P ++ [n]) <+: (K ++ [e.name]) → K ++ [e.name] ≠ P →
          (resolve { ed with pathBuf := pb, trees := trees' } (K ++ [e.name]) e.oid).isSome = true := by
        intro tk0 h0 hmem hnb hnp
        have := hinv.closed K tk0 h0 e hmem hd
        have hk : aget (K ++ [e.name]) trees' = aget (K ++ [e.name]) ed.trees := by
          rw [hget]; simp only [hnb, if_false, hnp]
        unfold resolve at this ⊢
        simp only [hk]
        exact this
      have hresP : K ++ [e.name] = P →
          (resolve { ed with pathBuf := pb, trees := trees' } (K ++ [e.name]) e.oid).isSome = true := by
        intro h
        apply resolve_isSome_of_cached (t := t')
        show aget (K ++ [e.name]) trees' = some t'
        rw [h]; exact hgetP
      by_cases h2 : K = P
      · subst h2
        rw [if_neg h1, if_pos rfl] at hK
        simp only [Option.some.injEq] at hK
        subst hK
        have hfe0 : findName t' e.name = some e := (findName_eq_some_iff ht'.uniq).2 ⟨he, rfl⟩
        by_cases hen : e.name = n
        · -- the entry `n` itself is a directory whose tree is not cached but can be found
          have hst := hn_ok e (hen ▸ hfe0) hd
          have hnone : aget (K ++ [e.name]) trees' = none := by
            rw [hget, hen]; simp
          show (resolve ⟨trees', ed.store, pb⟩ (K ++ [e.name]) e.oid).isSome = true
          simp only [resolve, hnone]
          by_cases hnf : noFind e.oid = true
          · simp [hnf]
          · rcases hst with h | h
            · exact absurd h hnf
            · simpa [hnf] using h
        have hfe : findName t' e.name = some e := hfe0
        rw [hother _ hen] at hfe
        have hmem := ((findName_eq_some_iff (hinv.trees _ _ hP).uniq).1 hfe).1
        by_cases hkp : K ++ [e.name] = K
        · exact hresP hkp
        · exact hres t hP hmem (fun h => hen (hchild h).2) hkp
      · simp only [h1, h2, if_false] at hK
        by_cases hkp : K ++ [e.name] = P
        · exact hresP hkp
        · exact hres tk hK he (fun h => h2 (hchild h).1) hkp

end GixModel.C04
