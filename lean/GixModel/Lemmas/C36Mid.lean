import GixModel.Lemmas.C36Lead

/-! C36, path mode, tier 4: a `**/` boundary in the middle of the pattern with no star and no bracket
in front of it (`a/**/b`, `src/**/*.rs`). The boundary arm at any index, and the walk over the prefix. -/
namespace GixModel.C36
open GixModel GixModel.Spec.C36

theorem dw_bd_ds {f : Flags} {n : Nat} {prev : Option UInt8} {r t y : Bytes}
    (hp : f.pathname = true) (hpo : prevOk prev = true) (hx : r.dropWhile (· == 42) = 47 :: y) :
    dowild f (n + 1) prev (42 :: 42 :: r) t =
      if dowild f n none y t == .matched then .matched
      else Spec.C36.starLoop f (fun tx => dowild f n none (47 :: y) tx) (47 :: y) true (t.length + 1)
        (Spec.C36.fold f (hd t)) t := by
  have h42 : Spec.C36.fold f 42 = 42 := by unfold Spec.C36.fold Spec.C36.isUpper; simp
  unfold prevOk at hpo
  conv => lhs; unfold dowild
  simp only [hd_cons, List.tail_cons, h42, hp, dropWhile42_cons42, hx, hpo]
  simp [hd]

theorem go_bd_ds {m : Mode} {fuel d : Nat} {pattern text : Bytes} {i ti : Nat} {tc : UInt8} {r tr y : Bytes}
    (hp : m.noMatchSlash = true) (hlead : leadOf pattern i = some true) (hx : r.dropWhile (· == 42) = 47 :: y) :
    go m (fuel + 1) d pattern text ⟨i, 42 :: 42 :: r⟩ ⟨ti, tc :: tr⟩ =
      if recCall m fuel d pattern text (i + 2 + (r.length - (y.length + 1)) + 1) ti == .matched then .matched
      else C36.starLoop m (fun k => recCall m fuel d pattern text (i + 2 + (r.length - (y.length + 1))) k)
        47 true (tr.length + 1) ti (lc m tc) ⟨ti + 1, tr⟩ := by
  have hl47 : lc m 47 = 47 := (lc_special m 47).2.2.2.2.1.mpr rfl
  conv => lhs; unfold go
  simp only [Iter.next, STAR, BACKSLASH, SLASH, lc42, hp, Iter.skipStars, skipStarsAux_eq, List.dropWhile_cons, hx]
  unfold leadOf at hlead
  by_cases hi : i = 0
  · subst hi
    simp [hl47, recCall]
    split <;> rename_i h <;> split at h <;> (try split at h) <;> (try split at h) <;> simp_all <;> congr 1
  · simp only [hi, if_false] at hlead
    have hi' : (i == 0) = false := by simpa using hi
    cases hpi : pattern[i - 1]? with
    | none => simp [hpi] at hlead
    | some b =>
      simp [hpi] at hlead
      simp [hi', hpi, hlead, hl47, recCall]
      split <;> rename_i h <;> split at h <;> (try split at h) <;> (try split at h) <;> simp_all <;> congr 1

theorem go_bd_ds_nil {m : Mode} {fuel d : Nat} {pattern text : Bytes} {i ti : Nat} {r y : Bytes}
    (hp : m.noMatchSlash = true) (hlead : leadOf pattern i = some true) (hx : r.dropWhile (· == 42) = 47 :: y) :
    go m (fuel + 1) d pattern text ⟨i, 42 :: 42 :: r⟩ ⟨ti, []⟩ =
      if recCall m fuel d pattern text (i + 2 + (r.length - (y.length + 1)) + 1) text.length == .matched then .matched
      else C36.starLoop m (fun k => recCall m fuel d pattern text (i + 2 + (r.length - (y.length + 1))) k)
        47 true 1 text.length 0 ⟨ti, []⟩ := by
  have hl47 : lc m 47 = 47 := (lc_special m 47).2.2.2.2.1.mpr rfl
  conv => lhs; unfold go
  simp only [Iter.next, STAR, BACKSLASH, SLASH, lc42, hp, Iter.skipStars, skipStarsAux_eq, List.dropWhile_cons, hx]
  unfold leadOf at hlead
  by_cases hi : i = 0
  · subst hi
    simp [hl47, recCall]
    split <;> rename_i h <;> split at h <;> (try split at h) <;> (try split at h) <;> simp_all <;> congr 1
  · simp only [hi, if_false] at hlead
    have hi' : (i == 0) = false := by simpa using hi
    cases hpi : pattern[i - 1]? with
    | none => simp [hpi] at hlead
    | some b =>
      simp [hpi] at hlead
      simp [hi', hpi, hlead, hl47, recCall]
      split <;> rename_i h <;> split at h <;> (try split at h) <;> (try split at h) <;> simp_all <;> congr 1


/-- A `**/` boundary run at index `i` (start of the pattern or behind a `/`) in front of a rest `y`
that has no further boundary, reached with no star above it. -/
theorem go_rel_bd (m : Mode) (hpm : m.noMatchSlash = true) (n d : Nat) (p text r y ts : Bytes) (i ti : Nat)
    (prev : Option UInt8)
    (hinv : p.drop i = 42 :: 42 :: r) (htinv : text.drop ti = ts) (hx : r.dropWhile (· == 42) = 47 :: y)
    (hok : PatOk m p) (htext : ∀ c ∈ text, c ≠ 0) (hy : okDSaux (some 47) y = true)
    (hprev : prev = if i = 0 then none else p[i - 1]?) (hpo : prevOk prev = true)
    (hfuel : y.length + 1 ≤ n) (hdepth : count42 y + 1 ≤ d) :
    RelAA (go m (n + 1) d p text ⟨i, 42 :: 42 :: r⟩ ⟨ti, ts⟩) (dowild (flagsOf m) (n + 1) prev (42 :: 42 :: r) ts) := by
  have hpf : (flagsOf m).pathname = true := by simpa using hpm
  have hl47 : lc m 47 = 47 := (lc_special m 47).2.2.2.2.1.mpr rfl
  have hdne : d ≠ 0 := by omega
  have hilt : i < p.length := lt_of_drop_cons hinv
  have hlead : leadOf p i = some true := by
    unfold leadOf
    by_cases hi : i = 0
    · simp [hi]
    · simp only [hi, if_false] at hprev ⊢
      have : i - 1 < p.length := by omega
      rw [List.getElem?_eq_getElem this] at hprev ⊢
      rw [hprev] at hpo
      simpa [prevOk] using hpo
  -- where the slash sits
  obtain ⟨kx, hkx⟩ := dropWhile_is_drop (· == 42) r
  rw [hx] at hkx
  have hkxl : kx = r.length - (y.length + 1) := by
    have := congrArg List.length hkx
    simp at this; omega
  have hkxle : kx + (y.length + 1) = r.length := by
    have := congrArg List.length hkx
    simp at this; omega
  have hplen : p.length = i + (2 + r.length) := by
    have := congrArg List.length hinv
    simp at this; omega
  have hinvX : p.drop (i + 2 + (r.length - (y.length + 1))) = 47 :: y := by
    rw [← hkxl, Nat.add_assoc, ← List.drop_drop, hinv, hkx, Nat.add_comm]; rfl
  have hinvY : p.drop (i + 2 + (r.length - (y.length + 1)) + 1) = y := drop_succ_of_drop hinvX
  have hXlen : i + 2 + (r.length - (y.length + 1)) + 1 ≤ p.length := by omega
  have hXok : PatOk m (47 :: y) := by rw [← hinvX]; exact patOk_drop hok _
  have hYok : PatOk m y := by rw [← hinvY]; exact patOk_drop hok _
  have hXds : okDSaux none (47 :: y) = true := by
    unfold okDSaux; exact hy
  have hYds : okDSaux none y = true := by rw [okDSaux_prev_congr (p1 := none) (p2 := some 47) rfl]; exact hy
  have hc0 : (47 : UInt8) ≠ 0 := by decide
  have hc42 : (47 : UInt8) ≠ 42 := by decide
  have hrecX : ∀ k, k ≤ text.length →
      RelAA (recCall m n d p text (i + 2 + (r.length - (y.length + 1))) k)
        (dowild (flagsOf m) n none (47 :: y) (text.drop k)) := by
    intro k hk
    unfold recCall sliceFrom
    have : i + 2 + (r.length - (y.length + 1)) ≤ p.length := by omega
    simp only [this, hk, if_true]
    have hd' : (d == 0) = false := by simpa using hdne
    simp only [hd', Bool.false_eq_true, if_false, Iter.ofSlice, hinvX]
    exact go_rel_p m hpm n (d - 1) (47 :: y) (text.drop k) hXok
      (fun c hc => htext c (List.mem_of_mem_drop hc)) (47 :: y) (text.drop k) 0 0 none
      (by simp) (by simp) (by simpa using hfuel)
      (by have : count42 (47 :: y) = count42 y := by simp [count42]
          omega) (fun _ => rfl) hXds
  have hrecY : ∀ k, k ≤ text.length →
      RelAA (recCall m n d p text (i + 2 + (r.length - (y.length + 1)) + 1) k)
        (dowild (flagsOf m) n none y (text.drop k)) := by
    intro k hk
    unfold recCall sliceFrom
    simp only [hXlen, hk, if_true]
    have hd' : (d == 0) = false := by simpa using hdne
    simp only [hd', Bool.false_eq_true, if_false, Iter.ofSlice, hinvY]
    exact go_rel_p m hpm n (d - 1) y (text.drop k) hYok
      (fun c hc => htext c (List.mem_of_mem_drop hc)) y (text.drop k) 0 0 none
      (by simp) (by simp) (by omega) (by omega) (fun _ => rfl) hYds
  have hrecBeyond : ∀ k, text.length < k →
      recCall m n d p text (i + 2 + (r.length - (y.length + 1))) k ≠ .matched := by
    intro k hk
    unfold recCall sliceFrom
    have : ¬ k ≤ text.length := by omega
    simp [this]
  have hXend : recCall m n d p text (i + 2 + (r.length - (y.length + 1))) text.length ≠ .matched := by
    have hR := hrecX text.length (Nat.le_refl _)
    simp only [List.drop_length] at hR
    obtain ⟨n', e⟩ : ∃ n', n = n' + 1 := ⟨n - 1, by omega⟩
    subst e
    rw [dw_abort hc0 hc42] at hR
    exact hR.ne_matched (by simp)
  have htnn : ∀ c ∈ ts, c ≠ 0 := fun c hc => htext c (List.mem_of_mem_drop (htinv ▸ hc))
  rw [dw_bd_ds hpf hpo hx]
  cases ts with
  | nil =>
    rw [go_bd_ds_nil hpm hlead hx]
    have hR := hrecY text.length (Nat.le_refl _)
    simp only [List.drop_length] at hR ⊢
    by_cases hm : dowild (flagsOf m) n none y [] = .matched
    · rw [hm] at hR
      have : recCall m n d p text (i + 2 + (r.length - (y.length + 1)) + 1) text.length = .matched := by
        rcases hR with h | ⟨h, _⟩
        · simpa [ofWm] using h
        · cases h
      left
      simp [hm, this, ofWm]
    · have hne := hR.ne_matched hm
      have hf0 : Spec.C36.fold (flagsOf m) 0 = 0 := by rw [fold_eq_lc]; exact (lc_special m 0).2.2.2.2.2.1.mpr rfl
      simp only [hd, List.headD_nil, hf0, sl_zero]
      right
      have hg : isGlobCharacter 47 = false := by decide
      rw [starLoop_end m _ _ _ _ hg (by decide)]
      simp [hm, hne]
  | cons tc tr =>
    rw [go_bd_ds hpm hlead hx]
    have hti := lt_of_drop_cons htinv
    have hlen : text.length - ti = tr.length + 1 := by
      have := congrArg List.length htinv
      simpa using this
    have hR := hrecY ti (Nat.le_of_lt hti)
    rw [htinv] at hR
    by_cases hm : dowild (flagsOf m) n none y (tc :: tr) = .matched
    · rw [hm] at hR
      have : recCall m n d p text (i + 2 + (r.length - (y.length + 1)) + 1) ti = .matched := by
        rcases hR with h | ⟨h, _⟩
        · simpa [ofWm] using h
        · cases h
      left
      simp [hm, this, ofWm]
    · have hne := hR.ne_matched hm
      have := starLoop_relAA m (fun k => recCall m n d p text (i + 2 + (r.length - (y.length + 1))) k)
        (fun tx => dowild (flagsOf m) n none (47 :: y) tx) (47 :: y) true
        (by simp [hd]) (by simp)
        (tc :: tr) htnn (by simp) ti (tr.length + 1) ((tc :: tr).length + 1)
        (Spec.C36.fold (flagsOf m) (hd (tc :: tr)))
        (by simp) (by simp) (Or.inr rfl)
        (by
          intro j hj
          have := hrecX (ti + j) (by simp at hj; omega)
          rwa [drop_add_eq htinv j] at this)
        (by
          intro k' hk'
          by_cases hk : k' ≤ text.length
          · have hke : k' = text.length := by simp at hk'; omega
            rw [hke]; exact hXend
          · exact hrecBeyond k' (by omega))
        (by
          intro j hj' i'
          have := dowild_abort_sound_p m n none (47 :: y) ((tc :: tr).drop j) hXds hXok.noNul
            (fun c hc => htnn c (List.mem_of_mem_drop hc)) hj' i'
          rwa [List.drop_drop] at this)
      simpa [hd, hl47, hm, hne] using this


/-- the look-behind byte after walking over `l` -/
def endPrev (prev : Option UInt8) : Bytes → Option UInt8
  | [] => prev
  | c :: r => endPrev (some c) r

/-- Tier 4: a prefix `L` without star and without `[` (literals, `?`, escapes), then a `**/` boundary
run, then a rest without further boundary. -/
theorem go_rel_mid (m : Mode) (hpm : m.noMatchSlash = true) (r y : Bytes)
    (hx : r.dropWhile (· == 42) = 47 :: y) (hy : okDSaux (some 47) y = true) :
    ∀ (fuel d : Nat) (pattern text : Bytes), PatOk m pattern → (∀ c ∈ text, c ≠ 0) →
      ∀ (L ts : Bytes) (i ti : Nat) (prev : Option UInt8),
        pattern.drop i = L ++ 42 :: 42 :: r → text.drop ti = ts → (∀ c ∈ L, c ≠ 42 ∧ c ≠ 91) →
        prevOk (endPrev prev L) = true →
        (L ++ 42 :: 42 :: r).length ≤ fuel → count42 y + 1 ≤ d →
        (prev = if i = 0 then none else pattern[i - 1]?) →
        RelAA (go m fuel d pattern text ⟨i, L ++ 42 :: 42 :: r⟩ ⟨ti, ts⟩)
          (dowild (flagsOf m) fuel prev (L ++ 42 :: 42 :: r) ts) := by
  intro fuel
  induction fuel with
  | zero => intros; left; simp [go, dowild, ofWm]
  | succ n ih =>
    intro d pattern text hok htext L ts i ti prev hinv htinv hL hend hfuel hdepth hprev
    have htnn : ∀ c ∈ ts, c ≠ 0 := fun c hc => htext c (List.mem_of_mem_drop (htinv ▸ hc))
    have hylen : y.length + 1 ≤ r.length := by
      have := congrArg List.length hx
      simp at this
      have h2 := dropWhile_length_le (· == 42) r
      omega
    cases L with
    | nil =>
      simp only [List.nil_append] at hinv hfuel ⊢
      exact go_rel_bd m hpm n d pattern text r y ts i ti prev hinv htinv hx hok htext hy hprev
        (by simpa [endPrev] using hend) (by simp at hfuel; omega) hdepth
    | cons c L' =>
      simp only [List.cons_append] at hinv hfuel ⊢
      have hmem : ∀ x ∈ c :: (L' ++ 42 :: 42 :: r), x ∈ pattern := fun x hx => List.mem_of_mem_drop (hinv ▸ hx)
      have hc0 : c ≠ 0 := hok.noNul c (hmem c (by simp))
      have hc42 : c ≠ 42 := (hL c (by simp)).1
      have h91 : c ≠ 91 := (hL c (by simp)).2
      have hr := drop_succ_of_drop hinv
      have hrl : (L' ++ 42 :: 42 :: r).length ≤ n := by simp at hfuel ⊢; omega
      have hL' : ∀ c ∈ L', c ≠ 42 ∧ c ≠ 91 := fun x hx => hL x (by simp [hx])
      obtain ⟨s42, s92, s63, s91, s47, s0, s93⟩ := lc_special m c
      cases ts with
      | nil =>
        left
        rw [go_abort (by rw [Ne, s42]; exact hc42), dw_abort hc0 hc42]
        rfl
      | cons tc tr =>
        have htc : tc ≠ 0 := htnn tc (by simp)
        have htr := drop_succ_of_drop htinv
        have htc' : lc m tc ≠ 0 := fun h => htc ((lc_special m tc).2.2.2.2.2.1.mp h)
        by_cases h92 : c = 92
        · subst h92
          cases L' with
          | nil => simp [endPrev, prevOk] at hend
          | cons e L'' =>
            simp only [List.cons_append] at hinv hr hrl ⊢
            rw [go_esc (by rw [s92]), dw_esc hc0 htc (by rw [fold_eq_lc, s92])]
            have hle : lc m e = e := by
              cases hic : m.ignoreCase with
              | false => simp [lc, hic]
              | true =>
                have := escSafe_drop pattern (hok.icase hic).2 i
                rw [hinv] at this
                simp [escSafe] at this
                exact lc_of_not_upper m e (by simpa using this.1)
            simp only [hd, List.headD_cons, List.tail_cons, fold_eq_lc, hle]
            have hr2 := drop_succ_of_drop hr
            have := ih d pattern text hok htext L'' tr (i + 2) (ti + 1) (some e) hr2 htr
              (fun x hx => hL' x (by simp [hx])) (by simpa [endPrev] using hend)
              (by simp at hrl ⊢; omega) hdepth
              (by have := getElem?_of_drop hr; simp [this])
            exact relAA_if (by constructor <;> (intro h; exact fun x => h x.symm)) this
        · by_cases h63 : c = 63
          · subst h63
            rw [go_qm (by rw [s63]), dw_qm hc0 htc (by rw [fold_eq_lc, s63])]
            have := ih d pattern text hok htext L' tr (i + 1) (ti + 1) (some 63) hr htr hL'
              (by simpa [endPrev] using hend) hrl hdepth
              (by have := getElem?_of_drop hinv; simp [this])
            simp only [fold_eq_lc, flagsOf_pathname]
            exact relAA_if (by simp) this
          · rw [go_lit (by rw [Ne, s42]; exact hc42) (by rw [Ne, s92]; exact h92)
                (by rw [Ne, s63]; exact h63) (by rw [Ne, s91]; exact h91),
              dw_lit hc0 htc (by rw [fold_eq_lc, Ne, s42]; exact hc42) (by rw [fold_eq_lc, Ne, s92]; exact h92)
                (by rw [fold_eq_lc, Ne, s63]; exact h63) (by rw [fold_eq_lc, Ne, s91]; exact h91)]
            have := ih d pattern text hok htext L' tr (i + 1) (ti + 1) (some c) hr htr hL'
              (by simpa [endPrev] using hend) hrl hdepth
              (by have := getElem?_of_drop hinv; simp [this])
            simp only [fold_eq_lc]
            exact relAA_if (by constructor <;> (intro h; exact fun x => h x.symm)) this


/-- the pattern predicate of tier 4, computable: walk over bytes that are neither `*` nor `[`; at the
first star the look-behind must be the start or `/`, a second star must follow, behind the run a plain
`/`, and the rest has no further boundary run -/
def midAux (prev : Option UInt8) : Bytes → Bool
  | 42 :: rest =>
    prevOk prev &&
      (match rest with
       | 42 :: r =>
         (match r.dropWhile (· == 42) with
          | 47 :: y => okDSaux (some 47) y
          | _ => false)
       | _ => false)
  | c :: rest => c != 91 && midAux (some c) rest
  | [] => false

theorem midAux_decomp : ∀ (p : Bytes) (prev : Option UInt8), midAux prev p = true →
    ∃ L r y, p = L ++ 42 :: 42 :: r ∧ (∀ c ∈ L, c ≠ 42 ∧ c ≠ 91) ∧ prevOk (endPrev prev L) = true ∧
      r.dropWhile (· == 42) = 47 :: y ∧ okDSaux (some 47) y = true := by
  intro p
  induction p with
  | nil => intro prev h; simp [midAux] at h
  | cons c rest ih =>
    intro prev h
    unfold midAux at h
    split at h
    · rename_i rest' heq
      simp only [Bool.and_eq_true] at h
      obtain ⟨hpo, h⟩ := h
      split at h
      · rename_i r
        split at h
        · rename_i y hx
          refine ⟨[], r, y, ?_, by simp, by simpa [endPrev] using hpo, hx, h⟩
          simp at heq
          simp [heq.1, heq.2]
        · cases h
      · cases h
    · rename_i c' rest' hne heq
      simp at heq
      obtain ⟨e1, e2⟩ := heq
      subst e1 e2
      simp only [Bool.and_eq_true, bne_iff_ne, ne_eq] at h
      obtain ⟨L, r, y, hp, hL, hend, hx, hy⟩ := ih (some c) h.2
      refine ⟨c :: L, r, y, by simp [hp], ?_, by simpa [endPrev] using hend, hx, hy⟩
      intro x hx'
      simp at hx'
      rcases hx' with e | hx'
      · subst e
        refine ⟨?_, h.1⟩
        intro e; subst e
        first | exact hne rfl rfl | exact hne rfl | (apply hne <;> rfl)
      · exact hL x hx'
    · cases h

end GixModel.C36
