import GixModel.Lemmas.C52Casc4
/-
C52 — UNIX and RAW through the cascade: every strftime branch and the RFC 2822 parser reject a decimal
text (`-?digits`, optionally followed by ` +hhmm`).
-/
namespace GixModel.C52
open GixModel GixModel.Civil

theorem rfcWeekday_dash (rest : Bytes) : rfcWeekday (45 :: rest) = none := by
  unfold rfcWeekday
  simp only [isDigitB, show isDigit 45 = false by decide, Bool.false_eq_true, if_false]
  split
  · rfl
  · cases rest with
    | nil => simp [lower3]
    | cons a r1 =>
      cases r1 with
      | nil => simp [lower3]
      | cons b r2 =>
        have := indexOf3_weekday_none (asciiLower 45) (asciiLower a) (asciiLower b) (by decide)
        simp only [lower3, this]

theorem indexOf3_month_sign (x a b : UInt8) (hx : x = 43 ∨ x = 45) : indexOf3 monthNames [asciiLower x, a, b] = none := by
  rcases hx with rfl | rfl <;>
    simp [indexOf3, monthNames, asciiLower, List.findIdx_cons]

theorem rfcMonth_sign (sg a b : UInt8) (r : Bytes) (hs : sg = 43 ∨ sg = 45) : rfcMonth (sg :: a :: b :: r) = none := by
  simp only [rfcMonth, lower3, indexOf3_month_sign sg (asciiLower a) (asciiLower b) hs]

/-- what may follow the digits of a decimal text -/
def RawTail (T : Bytes) : Prop := T = [] ∨ ∃ sg a b r, T = 32 :: sg :: a :: b :: r ∧ (sg = 43 ∨ sg = 45)

theorem needWs_rawTail {T : Bytes} (hT : RawTail T) :
    needWs T = none ∨ ∃ sg a b r, needWs T = some (sg :: a :: b :: r) ∧ (sg = 43 ∨ sg = 45) := by
  rcases hT with rfl | ⟨sg, a, b, r, rfl, hs⟩
  · left; rfl
  · right
    refine ⟨sg, a, b, r, ?_, hs⟩
    have : isWs2822 sg = false := by rcases hs with rfl | rfl <;> decide
    simp [needWs, show isWs2822 32 = true by decide, skipWs, List.dropWhile_cons, this]

/-- day and month of the RFC 2822 parser on a decimal text: never both -/
theorem rfc_day_month_decimal (U T : Bytes) (hU : U.all isDigit = true) (hne : U ≠ []) (hT : RawTail T) :
    (match rfcDay (U ++ T) with
     | none => (none : Option Time)
     | some (day, inp) =>
       match rfcMonth inp with
       | none => none
       | some (mi, inp) => some ⟨(day + mi : Nat), 0, inp.isEmpty⟩) = none := by
  -- the shape of the result of rfcDay: none, or it stopped at the blank of T
  have key : rfcDay (U ++ T) = none ∨ ∃ day sg a b r, rfcDay (U ++ T) = some (day, sg :: a :: b :: r) ∧ (sg = 43 ∨ sg = 45) := by
    cases U with
    | nil => exact absurd rfl hne
    | cons d1 U' =>
      simp only [List.all_cons, Bool.and_eq_true] at hU
      obtain ⟨hd1, hU'⟩ := hU
      have h32 : isDigit 32 = false := by decide
      cases U' with
      | nil =>
        -- one digit
        rcases hT with rfl | ⟨sg, a, b, r, rfl, hs⟩
        · left
          unfold rfcDay
          simp only [List.cons_append, List.nil_append, Bool.false_eq_true, if_false, List.all_cons, isDigitB, hd1, List.all_nil,
            Bool.and_self, Bool.not_true, needWs]
          split <;> rfl
        · have hws : isWs2822 sg = false := by rcases hs with rfl | rfl <;> decide
          unfold rfcDay
          simp only [List.cons_append, List.nil_append, isDigitB, h32, Bool.false_eq_true, if_false, List.all_cons, hd1,
            List.all_nil, Bool.and_self, Bool.not_true, needWs, show isWs2822 32 = true by decide, if_true, skipWs,
            List.dropWhile_cons, hws]
          split
          · left; rfl
          · right; exact ⟨_, sg, a, b, r, rfl, hs⟩
      | cons d2 U'' =>
        simp only [List.all_cons, Bool.and_eq_true] at hU'
        obtain ⟨hd2, hU''⟩ := hU'
        cases U'' with
        | nil =>
          rcases hT with rfl | ⟨sg, a, b, r, rfl, hs⟩
          · left
            unfold rfcDay
            simp only [List.cons_append, List.nil_append, isDigitB, hd2, if_true, List.headD_cons, List.all_cons, hd1,
              List.all_nil, Bool.and_self, Bool.not_true, Bool.false_eq_true, if_false, List.drop_succ_cons, List.drop_zero,
              needWs]
            split <;> rfl
          · have hws : isWs2822 sg = false := by rcases hs with rfl | rfl <;> decide
            unfold rfcDay
            simp only [List.cons_append, List.nil_append, isDigitB, hd2, if_true, List.headD_cons, List.all_cons, hd1,
              List.all_nil, Bool.and_self, Bool.not_true, Bool.false_eq_true, if_false, List.drop_succ_cons, List.drop_zero,
              needWs, show isWs2822 32 = true by decide, skipWs, List.dropWhile_cons, hws]
            split
            · left; rfl
            · right; exact ⟨_, sg, a, b, r, rfl, hs⟩
        | cons d3 U3 =>
          simp only [List.all_cons, Bool.and_eq_true] at hU''
          left
          unfold rfcDay
          simp only [List.cons_append, isDigitB, hd2, if_true, List.headD_cons, List.all_cons, hd1, List.all_nil,
            Bool.and_self, Bool.not_true, Bool.false_eq_true, if_false, List.drop_succ_cons, List.drop_zero, needWs,
            digit_not_ws2822 hU''.1]
          split <;> rfl
  rcases key with h | ⟨day, sg, a, b, r, h, hs⟩
  · rw [h]
  · rw [h]; simp only [rfcMonth_sign sg a b r hs]

theorem rfc_rejects_decimal (neg : Bool) (U T : Bytes) (hU : U.all isDigit = true) (hne : U ≠ []) (hT : RawTail T) :
    parseRfc2822 ((if neg then [45] else []) ++ (U ++ T)) = none := by
  cases neg
  · simp only [Bool.false_eq_true, if_false, List.nil_append]
    cases hUU : U with
    | nil => exact absurd hUU hne
    | cons d1 U' =>
      have hd1 : isDigit d1 = true := by rw [hUU] at hU; simp only [List.all_cons, Bool.and_eq_true] at hU; exact hU.1
      have hws := digit_not_ws2822 hd1
      have hkey := rfc_day_month_decimal U T hU hne hT
      rw [hUU] at hkey
      unfold parseRfc2822
      simp only [List.cons_append, List.isEmpty_cons, Bool.false_eq_true, if_false, skipWs, List.dropWhile_cons, hws]
      have hwd : rfcWeekday (d1 :: (U' ++ T)) = some (d1 :: (U' ++ T)) := by simp [rfcWeekday, isDigitB, hd1]
      rw [hwd]
      simp only [List.cons_append] at hkey ⊢
      cases hday : rfcDay (d1 :: (U' ++ T)) with
      | none => rfl
      | some p =>
        obtain ⟨day, inp⟩ := p
        rw [hday] at hkey
        simp only at hkey ⊢
        cases hmon : rfcMonth inp with
        | none => rfl
        | some q => rw [hmon] at hkey; cases hkey
  · simp only [if_true, List.cons_append, List.nil_append]
    unfold parseRfc2822
    simp only [List.isEmpty_cons, Bool.false_eq_true, if_false, skipWs, List.dropWhile_cons, show isWs2822 45 = false by decide,
      rfcWeekday_dash]

/-- a format that starts with `%a` rejects a decimal text -/
theorem a_rejects_decimal (rest : List Item) (neg : Bool) (U T : Bytes) (hU : U.all isDigit = true) (hne : U ≠ []) :
    parseItems (.a :: rest) {} ((if neg then [45] else []) ++ (U ++ T)) = none := by
  apply parseItems_fail_first
  apply parseItem_a_nonletter
  intro x r hx
  cases neg
  · simp only [Bool.false_eq_true, if_false, List.nil_append] at hx
    cases hUU : U with
    | nil => exact absurd hUU hne
    | cons d1 U' =>
      rw [hUU] at hx hU
      simp only [List.cons_append, List.cons.injEq] at hx
      simp only [List.all_cons, Bool.and_eq_true] at hU
      left; rw [← hx.1]; exact hU.1
  · simp only [if_true, List.cons_append, List.nil_append, List.cons.injEq] at hx
    right; left; exact hx.1.symm

/-- all six branches reject a decimal text -/
theorem cascade_decimal_none (neg : Bool) (U T : Bytes) (hU : U.all isDigit = true) (hne : U ≠ []) (hT : RawTail T) :
    cascade ((if neg then [45] else []) ++ (U ++ T)) [0, 1, 2, 3, 4, 5] = none := by
  obtain ⟨p0, p2, p3, p4, p5, _⟩ := formats_parsed
  have hT' : T = [] ∨ ∃ r, T = 32 :: r := by
    rcases hT with h | ⟨sg, a, b, r, h, _⟩
    · left; exact h
    · right; exact ⟨_, h⟩
  have hY : ∀ rest, parseItems (.Y :: .lit 45 :: rest) {} ((if neg then [45] else []) ++ (U ++ T)) = none :=
    fun rest => Ydash_rejects_decimal rest neg U T hU hne hT'
  have hA : ∀ rest, parseItems (.a :: rest) {} ((if neg then [45] else []) ++ (U ++ T)) = none :=
    fun rest => a_rejects_decimal rest neg U T hU hne
  rw [cascade_skip (by rw [branch0]; unfold parseDate; rw [p0]; simp only [strptime, shortItems, hY]),
    cascade_skip (by rw [branch1, rfc_rejects_decimal neg U T hU hne hT]; rfl),
    cascade_skip (by rw [branch2]; unfold parseZoned; rw [p2]; simp only [strptime, shortItems, isoTail, List.cons_append, hY]; rfl),
    cascade_skip (by rw [branch3]; unfold parseZoned; rw [p3]; simp only [strptime, shortItems, strictTail, List.cons_append, hY]; rfl),
    cascade_skip (by rw [branch4]; unfold parseZoned; rw [p4]; simp only [strptime, wdMonth, gitoxideTail, List.cons_append, hA]; rfl),
    cascade_skip (by rw [branch5]; unfold parseZoned; rw [p5]; simp only [strptime, wdMonth, defaultTail, List.cons_append, hA]; rfl)]
  rfl

end GixModel.C52

namespace GixModel.C52
open GixModel GixModel.Civil

theorem ne_magic_no_colon {text : Bytes} (h : ∀ x ∈ text, x ≠ 58) : (text == magicInput) = false := by
  cases hb : (text == magicInput) with
  | false => rfl
  | true =>
    have : text = magicInput := by simpa using hb
    have hm : (58 : UInt8) ∈ magicInput := by decide
    rw [← this] at hm
    exact absurd rfl (h 58 hm)

theorem intDec_shape (s : Int) :
    intDec s = (if decide (s < 0) then [45] else []) ++ (natDec s.natAbs ++ []) := by
  unfold intDec
  by_cases h : s < 0 <;> simp [h]

theorem optSign_decimal (neg : Bool) (U T : Bytes) (hU : U.all isDigit = true) (hne : U ≠ []) :
    optSign ((if neg then [45] else []) ++ (U ++ T)) = (neg, U ++ T) := by
  cases neg
  · simp only [Bool.false_eq_true, if_false, List.nil_append]
    cases hUU : U with
    | nil => exact absurd hUU hne
    | cons y ys =>
      have hy : isDigit y = true := by rw [hUU] at hU; simp only [List.all_cons, Bool.and_eq_true] at hU; exact hU.1
      obtain ⟨h45, h43, _⟩ := digit_not_sign hy
      unfold optSign
      simp only [List.cons_append]
      split
      · rename_i h; exact absurd (List.cons.inj h).1 h45
      · rename_i h; exact absurd (List.cons.inj h).1 h43
      · rfl
  · rfl

/-- `Format::Unix` through the whole cascade, for ALL i64 seconds -/
theorem unix_through_cascade (t : Time) (hlo : i64Lo ≤ t.seconds) (hhi : t.seconds ≤ i64Hi) :
    ∃ text, format .unix t = .ok text ∧ parse text = .ok ⟨t.seconds, 0, false⟩ := by
  refine ⟨intDec t.seconds, rfl, ?_⟩
  obtain ⟨hne, hall, _⟩ := natDec_spec' t.seconds.natAbs
  have hcasc : cascade (intDec t.seconds) [0, 1, 2, 3, 4, 5] = none := by
    rw [intDec_shape]
    exact cascade_decimal_none _ _ [] hall hne (Or.inl rfl)
  have hm : (intDec t.seconds == magicInput) = false := by
    apply ne_magic_no_colon
    intro x hx
    rcases intDec_mem' t.seconds x hx with rfl | hd
    · decide
    · intro h58; subst h58; revert hd; decide
  unfold parse
  rw [hm, order_eq, hcasc]
  simp only [Bool.false_eq_true, if_false, parseIntIn_intDec _ _ _ hlo hhi]
where
  intDec_mem' (s : Int) : ∀ x ∈ intDec s, x = 45 ∨ isDigit x = true := by
    intro x hx
    have hall := (natDec_spec' s.natAbs).2.1
    rw [List.all_eq_true] at hall
    unfold intDec at hx
    split at hx
    · rcases List.mem_cons.mp hx with rfl | hx
      · left; rfl
      · right; exact hall x hx
    · right; exact hall x hx

/-- `Format::Raw` through the whole cascade, for ALL i64 seconds -/
theorem raw_through_cascade (t : Time) (hlo : i64Lo ≤ t.seconds) (hhi : t.seconds ≤ i64Hi) (hmin : t.offset % 60 = 0)
    (hsg : (t.minus = true → t.offset ≤ 0) ∧ (t.minus = false → 0 ≤ t.offset)) (text : Bytes)
    (hf : format .raw t = .ok text) : parse text = .ok t := by
  unfold format at hf
  simp only at hf
  cases hw : t.write with
  | none => rw [hw] at hf; cases hf
  | some bs =>
    rw [hw] at hf
    simp only [Outcome.ok.injEq] at hf
    subst hf
    have hraw := parseRaw_write t hlo hhi bs hw
    -- the shape of the text
    have hw' := hw
    unfold GixModel.C01.Time.write at hw'
    simp only at hw'
    by_cases hh : t.offset.natAbs / 3600 > 99
    · simp [hh] at hw'
    · simp only [hh, if_false, Option.some.injEq] at hw'
      have hH : t.offset.natAbs / 3600 < 100 := by omega
      have hM : (t.offset.natAbs - t.offset.natAbs / 3600 * 3600) / 60 < 100 := by omega
      have e1 : GixModel.C01.twoDigits (t.offset.natAbs / 3600) = pad2 (t.offset.natAbs / 3600) := rfl
      have e2 : GixModel.C01.twoDigits ((t.offset.natAbs - t.offset.natAbs / 3600 * 3600) / 60) =
          pad2 ((t.offset.natAbs - t.offset.natAbs / 3600 * 3600) / 60) := rfl
      rw [e1, e2, pad2_eq _ hH, pad2_eq _ hM, intDec_shape] at hw'
      obtain ⟨hne, hall, _⟩ := natDec_spec' t.seconds.natAbs
      generalize hsgb : (if t.minus = true then (45 : UInt8) else 43) = sg at hw'
      have hsgv : sg = 43 ∨ sg = 45 := by rw [← hsgb]; split <;> simp
      have hshape : bs = (if decide (t.seconds < 0) then [45] else []) ++ (natDec t.seconds.natAbs ++
          (32 :: sg :: dig (t.offset.natAbs / 3600 / 10) :: dig (t.offset.natAbs / 3600 % 10) ::
            [dig ((t.offset.natAbs - t.offset.natAbs / 3600 * 3600) / 60 / 10),
             dig ((t.offset.natAbs - t.offset.natAbs / 3600 * 3600) / 60 % 10)])) := by
        rw [← hw']; simp [List.append_assoc]
      have hT : RawTail (32 :: sg :: dig (t.offset.natAbs / 3600 / 10) :: dig (t.offset.natAbs / 3600 % 10) ::
            [dig ((t.offset.natAbs - t.offset.natAbs / 3600 * 3600) / 60 / 10),
             dig ((t.offset.natAbs - t.offset.natAbs / 3600 * 3600) / 60 % 10)]) :=
        Or.inr ⟨sg, _, _, _, rfl, hsgv⟩
      have hcasc : cascade bs [0, 1, 2, 3, 4, 5] = none := by
        rw [hshape]; exact cascade_decimal_none _ _ _ hall hne hT
      have hint : parseIntIn i64Lo i64Hi bs = none := by
        rw [hshape]
        unfold parseIntIn
        rw [optSign_decimal _ _ _ hall hne]
        simp only
        have : (natDec t.seconds.natAbs ++
          (32 :: sg :: dig (t.offset.natAbs / 3600 / 10) :: dig (t.offset.natAbs / 3600 % 10) ::
            [dig ((t.offset.natAbs - t.offset.natAbs / 3600 * 3600) / 60 / 10),
             dig ((t.offset.natAbs - t.offset.natAbs / 3600 * 3600) / 60 % 10)])).all isDigitB = false := by
          rw [List.all_append]
          simp [isDigitB, show isDigit 32 = false by decide]
        rw [this]
        simp
      have hm : (bs == magicInput) = false := by
        apply ne_magic_no_colon
        intro x hx
        rw [hshape] at hx
        have d1 := dig_facts (t.offset.natAbs / 3600 / 10) (by omega)
        have d2 := dig_facts (t.offset.natAbs / 3600 % 10) (by omega)
        have d3 := dig_facts ((t.offset.natAbs - t.offset.natAbs / 3600 * 3600) / 60 / 10) (by omega)
        have d4 := dig_facts ((t.offset.natAbs - t.offset.natAbs / 3600 * 3600) / 60 % 10) (by omega)
        have hdig : ∀ y, isDigit y = true → y ≠ 58 := by
          intro y hy h58; subst h58; revert hy; decide
        simp only [List.mem_append, List.mem_cons, List.mem_nil_iff, or_false] at hx
        rcases hx with hx | hx | hx
        · split at hx
          · simp only [List.mem_cons, List.mem_nil_iff, or_false] at hx; subst hx; decide
          · simp at hx
        · exact hdig x (List.all_eq_true.mp hall x hx)
        · rcases hx with rfl | rfl | rfl | rfl | rfl | rfl
          · decide
          · rcases hsgv with rfl | rfl <;> decide
          · exact hdig _ d1.1
          · exact hdig _ d2.1
          · exact hdig _ d3.1
          · exact hdig _ d4.1
      unfold parse
      rw [hm, order_eq, hcasc]
      simp only [Bool.false_eq_true, if_false, hint, hraw]
      cases t with
      | mk s o mi =>
        simp only at hmin hsg ⊢
        congr 2
        cases mi
        · have := hsg.2 rfl; simp only [Bool.false_eq_true, if_false]; omega
        · have := hsg.1 rfl; simp only [if_true]; omega

end GixModel.C52
