/-
C16: no lock leak with foreign locks present — whatever lock files other parties hold, a
transaction releases every lock it took and touches no other, on every outcome.
-/
import GixModel.Lemmas.C16Git

namespace GixModel.C17
open GixModel.C16

/-! ### lock_ref_and_apply_change for any set of lock files -/

theorem lockAndApply_general (cx : Ctx) (S : Store) (e : Edit) :
    lockAndApply cx S e =
      if (!cx.hasGlobalLock && decide (e.name ∈ S.locks)) = true then .error .lock
      else match checkC (readExisting S cx.buffer e.name) e with
        | some ce => .error (.check ce)
        | none =>
          if (cx.hasGlobalLock && wantLock cx (readExisting S cx.buffer e.name) e && decide (e.name ∈ S.locks)) = true
          then .error .lock
          else .ok ({ S with locks := if wantLock cx (readExisting S cx.buffer e.name) e then e.name :: S.locks else S.locks },
                    applied cx (readExisting S cx.buffer e.name) e) := by
  by_cases hin : e.name ∈ S.locks
  · -- the lock file exists
    have hacq : acquire S e.name = none := by simp [acquire, hin]
    unfold lockAndApply checkC applied wantLock
    cases hch : e.update.change with
    | delete expected log =>
      simp only []
      cases hg : cx.hasGlobalLock
      · simp [hacq, hin]
      · simp only [if_true, Bool.not_true, Bool.false_and, Bool.false_eq_true, if_false, Bool.true_and]
        cases checkDelete expected (readExisting S cx.buffer e.name) <;> simp
    | update log expected new =>
      simp only []
      rcases Bool.eq_false_or_eq_true ((effectiveness (readExisting S cx.buffer e.name) new).1 && !(cx.directToPacked && packable e.name) ||
        (effectiveness (readExisting S cx.buffer e.name) new).2) with hc | hc
      · cases hg : cx.hasGlobalLock
        · simp [hacq, hin]
        · simp only [if_true, hc, Bool.not_true, Bool.false_and, Bool.false_eq_true, if_false, Bool.true_and, hin, decide_true, hacq]
          cases checkUpdate expected (readExisting S cx.buffer e.name) new <;> simp
      · cases hg : cx.hasGlobalLock
        · simp [hacq, hin]
        · simp only [if_true, hc, Bool.not_true, Bool.false_and, Bool.false_eq_true, if_false, Bool.true_and]
          cases checkUpdate expected (readExisting S cx.buffer e.name) new <;> simp
  · rw [lockAndApply_fresh cx S e hin]
    simp only [hin, decide_false, Bool.and_false, Bool.false_eq_true, if_false]
    cases checkC (readExisting S cx.buffer e.name) e <;> rfl

/-- dropping the edits' locks removes exactly the lock files the edits own, whatever else is
there -/
theorem releaseAll_rev' (base : Store) (L : List Name) :
    ∀ (es : List Edit), (es.map Edit.name).Nodup →
      releaseAll { base with locks := lockedRev es ++ L } es = { base with locks := L } := by
  intro es
  induction es with
  | nil => intro _; simp [releaseAll, lockedRev]
  | cons e es ih =>
    intro hn
    simp only [List.map_cons, List.nodup_cons] at hn
    simp only [releaseAll]
    cases hlk : e.lock with
    | false =>
      have : lockedRev (e :: es) = lockedRev es := by simp [lockedRev, List.filter_cons, hlk]
      simp only [Bool.false_eq_true, if_false, this]
      exact ih hn.2
    | true =>
      have h1 : lockedRev (e :: es) = lockedRev es ++ [e.name] := by
        simp [lockedRev, List.filter_cons, hlk]
      have hnot : e.name ∉ lockedRev es := by
        intro hmem
        simp only [lockedRev, List.mem_reverse, List.mem_map, List.mem_filter] at hmem
        obtain ⟨e', ⟨he', _⟩, hname⟩ := hmem
        exact hn.1 (by rw [← hname]; exact List.mem_map_of_mem he')
      have h2 : (lockedRev (e :: es) ++ L).erase e.name = lockedRev es ++ L := by
        rw [h1, List.append_assoc, List.erase_append_right _ hnot]
        simp
      simp only [if_true, release, h2]
      exact ih hn.2

/-- the loop of `prepare_inner` with ANY lock files `L` around: on success exactly the flagged
edits own a lock (none of which was in `L`), on every failure everything taken is given back -/
theorem prepLoop_leak (cx : Ctx) (unlockPacked : Store → Store) (base : Store) (L : List Name) :
    ∀ (rest done : List Edit),
      WfParents (done ++ rest) →
      (∀ e ∈ rest, e.lock = false) →
      ((done ++ rest).map Edit.name).Nodup →
      (∀ e ∈ done, e.lock = true → e.name ∉ L) →
      match prepLoop .fixed cx unlockPacked rest.length done.length { base with locks := lockedRev done ++ L } (done ++ rest) with
      | .ok es' S' => S' = { base with locks := lockedRev es' ++ L } ∧
          es'.map Edit.name = (done ++ rest).map Edit.name ∧ (∀ e ∈ es', e.lock = true → e.name ∉ L)
      | .err _ S' => S' = unlockPacked { base with locks := L }
      | .panic S' => S' = unlockPacked { base with locks := L }
      | .hang => False := by
  intro rest
  induction rest with
  | nil =>
    intro done _ _ _ hown
    simp only [List.length_nil, prepLoop, List.append_nil]
    exact ⟨trivial, trivial, hown⟩
  | cons e rest ih =>
    intro done hw hlk hn hown
    have hget : (done ++ e :: rest)[done.length]? = some e := by
      rw [List.getElem?_append_right (Nat.le_refl _)]; simp
    have hnotown : e.name ∉ lockedRev done := by
      intro hmem
      simp only [lockedRev, List.mem_reverse, List.mem_map, List.mem_filter] at hmem
      obtain ⟨e', ⟨he', _⟩, hname⟩ := hmem
      rw [List.map_append, List.map_cons] at hn
      have := (List.nodup_append.mp hn).2.2
      exact this e'.name (List.mem_map_of_mem he') e.name (List.mem_cons_self ..) hname
    have hlr : lockedRev (done ++ e :: rest) = lockedRev done := by
      rw [lockedRev_append, lockedRev_unlocked (e :: rest) hlk]; simp
    have hrel : releaseAll { base with locks := lockedRev done ++ L } (done ++ e :: rest) = { base with locks := L } := by
      have := releaseAll_rev' base L (done ++ e :: rest) hn
      rw [hlr] at this; exact this
    -- the walk that names the failing ref returns
    have hwalk : ∃ n, walk (done ++ e :: rest) (done ++ e :: rest).length e.parent e.name = some (.name n) :=
      walk_some _ hw done.length (by simp) _ (by simp) e.parent e.name
        (fun p hp => hw done.length e p hget hp)
    have hgen := lockAndApply_general cx { base with locks := lockedRev done ++ L } e
    have hre : ∀ n, readExisting { base with locks := lockedRev done ++ L } cx.buffer n = readExisting base cx.buffer n :=
      fun _ => rfl
    simp only [hre] at hgen
    simp only [List.length_cons, prepLoop, hget]
    obtain ⟨wn, hwn⟩ := hwalk
    by_cases h1 : (!cx.hasGlobalLock && decide (e.name ∈ ({ base with locks := lockedRev done ++ L } : Store).locks)) = true
    · simp only [h1, if_true] at hgen
      rw [hgen]
      simp only [walkBy, hwn, hrel]
    · simp only [h1, Bool.false_eq_true, if_false] at hgen
      cases hck : checkC (readExisting base cx.buffer e.name) e with
      | some ce =>
        simp only [hck] at hgen
        rw [hgen]
        simp only [hrel]
        cases errOfCheck e.name ce <;> rfl
      | none =>
        simp only [hck] at hgen
        by_cases h2 : (cx.hasGlobalLock && wantLock cx (readExisting base cx.buffer e.name) e &&
            decide (e.name ∈ ({ base with locks := lockedRev done ++ L } : Store).locks)) = true
        · simp only [h2, if_true] at hgen
          rw [hgen]
          simp only [walkBy, hwn, hrel]
        · simp only [h2, Bool.false_eq_true, if_false] at hgen
          rw [hgen]
          simp only []
          have hset : (done ++ e :: rest).set done.length (applied cx (readExisting base cx.buffer e.name) e)
              = done ++ applied cx (readExisting base cx.buffer e.name) e :: rest := by
            rw [List.set_append_right _ _ (Nat.le_refl _)]; simp
          rw [hset]
          -- if the edit took a lock, that lock file was not there before
          have hfreshL : wantLock cx (readExisting base cx.buffer e.name) e = true → e.name ∉ L := by
            intro hwl hmem
            have hin : e.name ∈ ({ base with locks := lockedRev done ++ L } : Store).locks :=
              List.mem_append_right _ hmem
            cases hg : cx.hasGlobalLock
            · simp [hg, hin] at h1
            · simp [hg, hwl, hin] at h2
          generalize he1 : applied cx (readExisting base cx.buffer e.name) e = e1
          have he1n : e1.name = e.name := by rw [← he1]; exact applied_name ..
          have he1p : e1.parent = e.parent := by rw [← he1]; exact applied_parent ..
          have he1l : e1.lock = wantLock cx (readExisting base cx.buffer e.name) e := by rw [← he1]; exact applied_lock ..
          have hcore1 : ∀ i : Nat, ((done ++ e1 :: rest)[i]?).map Edit.parent = ((done ++ e :: rest)[i]?).map Edit.parent := by
            intro i
            by_cases hi : i < done.length
            · simp [List.getElem?_append_left hi]
            · have hi' : done.length ≤ i := Nat.le_of_not_lt hi
              rw [List.getElem?_append_right hi', List.getElem?_append_right hi']
              cases hk : i - done.length with
              | zero => simp [he1p]
              | succ k => simp
          have hw1 : WfParents (done ++ e1 :: rest) := wf_of_parent_eq _ _ hcore1 hw
          have hn1 : ((done ++ e1 :: rest).map Edit.name) = ((done ++ e :: rest).map Edit.name) := by
            simp [he1n]
          have hstore : ({ base with locks := if wantLock cx (readExisting base cx.buffer e.name) e = true then e.name :: (lockedRev done ++ L) else lockedRev done ++ L } : Store)
              = { base with locks := lockedRev (done ++ [e1]) ++ L } := by
            rw [lockedRev_append]
            cases hwl : wantLock cx (readExisting base cx.buffer e.name) e
            · simp [lockedRev, List.filter_cons, he1l, hwl]
            · simp [lockedRev, List.filter_cons, he1l, hwl, he1n]
          have hcont : ∀ es2 : List Edit, es2.map Edit.core = (done ++ e1 :: rest).map Edit.core →
              (∀ i, done.length ≤ i → es2[i]? = (done ++ e1 :: rest)[i]?) →
              match prepLoop .fixed cx unlockPacked rest.length (done.length + 1)
                  { base with locks := if wantLock cx (readExisting base cx.buffer e.name) e = true then e.name :: (lockedRev done ++ L) else lockedRev done ++ L } es2 with
              | .ok es' S' => S' = { base with locks := lockedRev es' ++ L } ∧
                  es'.map Edit.name = (done ++ e :: rest).map Edit.name ∧ (∀ x ∈ es', x.lock = true → x.name ∉ L)
              | .err _ S' => S' = unlockPacked { base with locks := L }
              | .panic S' => S' = unlockPacked { base with locks := L }
              | .hang => False := by
            intro es2 hc2 hu2
            obtain ⟨done2, hes2, hd2, hlen2⟩ := decompose done rest es2 e1 hc2 hu2
            have hc2' : (done2 ++ [e1] ++ rest).map Edit.core = (done ++ e1 :: rest).map Edit.core := by
              simp [hd2]
            have hown2 : ∀ x ∈ done2 ++ [e1], x.lock = true → x.name ∉ L := by
              intro x hx hxl
              rcases List.mem_append.mp hx with hx | hx
              · -- same core as an edit of `done`
                have : x.core ∈ done.map Edit.core := by rw [← hd2]; exact List.mem_map_of_mem hx
                obtain ⟨y, hy, hyx⟩ := List.mem_map.mp this
                have hyl : y.lock = true := by
                  have : y.core.lock = x.core.lock := by rw [hyx]
                  simpa [core_lock, hxl] using this
                have hyn : y.name = x.name := by
                  have : y.core.name = x.core.name := by rw [hyx]
                  simpa [core_name] using this
                rw [← hyn]; exact hown y hy hyl
              · simp only [List.mem_singleton] at hx
                subst hx
                rw [he1n]; exact hfreshL (by rw [← he1l]; exact hxl)
            have hih := ih (done2 ++ [e1])
              (wf_of_parent_eq _ _ (parents_congr _ _ hc2') hw1)
              (fun x hx => hlk x (List.mem_cons_of_mem _ hx))
              (by rw [names_congr _ _ hc2', hn1]; exact hn)
              hown2
            rw [hstore, hes2]
            have hlr2 : lockedRev (done2 ++ [e1]) = lockedRev (done ++ [e1]) := lockedRev_congr _ _ (by simp [hd2])
            have hlen2' : (done2 ++ [e1]).length = done.length + 1 := by simp [hlen2]
            have happ : done2 ++ e1 :: rest = (done2 ++ [e1]) ++ rest := by simp
            rw [happ, ← hlen2', ← hlr2]
            have hnames : ((done2 ++ [e1]) ++ rest).map Edit.name = (done ++ e :: rest).map Edit.name := by
              rw [names_congr _ _ hc2', hn1]
            cases hpl : prepLoop .fixed cx unlockPacked rest.length (done2 ++ [e1]).length
                { base with locks := lockedRev (done2 ++ [e1]) ++ L } ((done2 ++ [e1]) ++ rest) with
            | ok es' S' =>
              rw [hpl] at hih
              exact ⟨hih.1, by rw [hih.2.1, hnames], hih.2.2⟩
            | err er S' => rw [hpl] at hih; exact hih
            | panic S' => rw [hpl] at hih; exact hih
            | hang => rw [hpl] at hih; exact hih
          cases hprev : prevOid e1.update.change with
          | none => exact hcont (done ++ e1 :: rest) rfl (fun _ _ => rfl)
          | some oid =>
            cases hpar : e1.parent with
            | none => exact hcont (done ++ e1 :: rest) rfl (fun _ _ => rfl)
            | some p =>
              have hgete1 : (done ++ e1 :: rest)[done.length]? = some e1 := by
                rw [List.getElem?_append_right (Nat.le_refl _)]; simp
              have hpl : p < done.length := hw1 done.length e1 p hgete1 hpar
              obtain ⟨es2, hs1, _, _⟩ := setLeaf_some oid done.length (done ++ e1 :: rest) hw1 (by simp)
                (done ++ e1 :: rest).length (by simp) (some p) (fun q hq => by cases hq; exact hpl)
              simp only [hs1]
              have hc2 := setLeaf_core oid _ _ _ _ hs1
              have hu2 := setLeaf_untouched oid done.length (done ++ e1 :: rest) hw1 _ _ es2
                (fun q hq => by cases hq; exact hpl) hs1
              exact hcont es2 hc2 hu2

/-! ### pre_process produces edits without locks -/

theorem splitEdit_lock (find : Name → Option Target) (eid : Nat) (e : Edit) (h : e.lock = false) :
    (splitEdit find eid e).1.lock = false ∧ ∀ c ∈ (splitEdit find eid e).2, c.lock = false := by
  unfold splitEdit
  split
  · split
    · split <;> exact ⟨h, fun c hc => by simp at hc; subst hc; rfl⟩
    · exact ⟨h, fun c hc => by cases hc⟩
  · exact ⟨h, fun c hc => by cases hc⟩

theorem splitPass_lock (find : Name → Option Target) (eid : Nat) (l : List Edit) (h : ∀ e ∈ l, e.lock = false) :
    (∀ e ∈ (splitPass find eid l).1, e.lock = false) ∧ (∀ e ∈ (splitPass find eid l).2, e.lock = false) := by
  induction l generalizing eid with
  | nil => simp [splitPass]
  | cons e rest ih =>
    obtain ⟨h1, h2⟩ := splitEdit_lock find eid e (h e (List.mem_cons_self ..))
    obtain ⟨i1, i2⟩ := ih (eid + 1) (fun e' he' => h e' (List.mem_cons_of_mem _ he'))
    simp only [splitPass]
    constructor
    · intro x hx
      cases hx with
      | head => exact h1
      | tail _ hx => exact i1 x hx
    · intro x hx
      rcases List.mem_append.mp hx with hx | hx
      · exact h2 x hx
      · exact i2 x hx

theorem splitLoop_lock (find : Name → Option Target) :
    ∀ fuel round first es, (∀ e ∈ es, e.lock = false) →
      ∀ es', splitLoop find fuel round first es = some (.ok es') → ∀ e ∈ es', e.lock = false := by
  intro fuel
  induction fuel with
  | zero => intro _ _ es _ es' h; simp [splitLoop] at h
  | succ fuel ih =>
    intro round first es hinv es' h
    obtain ⟨p1, p2⟩ := splitPass_lock find first (es.drop first) (fun e he => hinv e (List.mem_of_mem_drop he))
    have hes' : ∀ e ∈ es.take first ++ (splitPass find first (es.drop first)).1, e.lock = false := by
      intro e he
      rcases List.mem_append.mp he with he | he
      · exact hinv e (List.mem_of_mem_take he)
      · exact p1 e he
    simp only [splitLoop] at h
    split at h
    · injection h with h; injection h with h; subst h; exact hes'
    · split at h
      · simp at h
      · apply ih _ _ _ _ es' h
        intro e he
        rcases List.mem_append.mp he with he | he
        · exact hes' e he
        · exact p2 e he

theorem preProcess_ok_lock (find : Name → Option Target) (edits : List RefEdit) (es : List Edit)
    (h : preProcess find edits = .ok es) : ∀ e ∈ es, e.lock = false := by
  unfold preProcess at h
  split at h
  · cases h
  · cases h
  · rename_i es0 hx
    split at h
    · cases h
    · injection h with h
      subst h
      apply splitLoop_lock find 5 1 0 _ _ es0 hx
      intro e he
      simp only [List.mem_map] at he
      obtain ⟨u, _, hue⟩ := he
      subst hue
      rfl

/-! ### commit with foreign lock files around -/

def StepOk2 (step : Store → Edit → Store × Edit) : Prop :=
  ∀ S e, (step S e).2.name = e.name ∧
    (((step S e).1.locks = S.locks ∧ (step S e).2.lock = e.lock) ∨
     (e.lock = true ∧ (step S e).1.locks = S.locks.erase e.name ∧ (step S e).2.lock = false) ∨
     (e.lock = false ∧ (step S e).1.locks = S.locks ∧ (step S e).2.lock = false))

theorem updateStep_ok2 (dl : Bool) : StepOk2 (commitUpdateStep dl) := by
  intro S e
  unfold commitUpdateStep
  cases e.update.change with
  | delete exp log => exact ⟨rfl, Or.inl ⟨rfl, rfl⟩⟩
  | update log exp new =>
    simp only []
    split
    · exact ⟨rfl, Or.inl ⟨rfl, rfl⟩⟩
    · split
      · cases hl : e.lock
        · exact ⟨rfl, Or.inr (Or.inr ⟨rfl, rfl, rfl⟩)⟩
        · exact ⟨rfl, Or.inr (Or.inl ⟨rfl, rfl, rfl⟩)⟩
      · cases hl : e.lock
        · exact ⟨rfl, Or.inr (Or.inr ⟨rfl, rfl, rfl⟩)⟩
        · exact ⟨rfl, Or.inr (Or.inl ⟨rfl, rfl, rfl⟩)⟩

theorem deleteStep_ok2 (dl : Bool) : StepOk2 (commitDeleteStep dl) := by
  intro S e
  unfold commitDeleteStep
  split
  · cases hl : e.lock
    · exact ⟨rfl, Or.inr (Or.inr ⟨rfl, rfl, rfl⟩)⟩
    · exact ⟨rfl, Or.inr (Or.inl ⟨rfl, rfl, rfl⟩)⟩
  · exact ⟨rfl, Or.inl ⟨rfl, rfl⟩⟩

/-- the lock files are: the ones the flagged edits own (`xs`, each once), then the foreign ones -/
def OwnInv (L : List Name) (S : Store) (E : List Edit) : Prop :=
  ∃ xs, S.locks = xs ++ L ∧ xs.Nodup ∧ (∀ m, m ∈ xs ↔ Own E m)

theorem own_swap (pre rest : List Edit) (e e' : Edit) (hname : e'.name = e.name) (hlock : e'.lock = e.lock) (m : Name) :
    Own (pre ++ e :: rest) m ↔ Own (pre ++ e' :: rest) m := by
  constructor
  · rintro ⟨x, hx, hl, hn⟩
    rcases List.mem_append.mp hx with hx | hx
    · exact ⟨x, List.mem_append_left _ hx, hl, hn⟩
    · cases hx with
      | head => exact ⟨e', List.mem_append_right _ (List.mem_cons_self ..), by rw [hlock]; exact hl, by rw [hname]; exact hn⟩
      | tail _ hx => exact ⟨x, List.mem_append_right _ (List.mem_cons_of_mem _ hx), hl, hn⟩
  · rintro ⟨x, hx, hl, hn⟩
    rcases List.mem_append.mp hx with hx | hx
    · exact ⟨x, List.mem_append_left _ hx, hl, hn⟩
    · cases hx with
      | head => exact ⟨e, List.mem_append_right _ (List.mem_cons_self ..), by rw [← hlock]; exact hl, by rw [← hname]; exact hn⟩
      | tail _ hx => exact ⟨x, List.mem_append_right _ (List.mem_cons_of_mem _ hx), hl, hn⟩

/-- an unflagged edit owns nothing: it can be replaced by another unflagged edit -/
theorem own_unflagged (pre rest : List Edit) (e e' : Edit) (h : e.lock = false) (h' : e'.lock = false) (m : Name) :
    Own (pre ++ e :: rest) m ↔ Own (pre ++ e' :: rest) m := by
  constructor
  · rintro ⟨x, hx, hl, hn⟩
    rcases List.mem_append.mp hx with hx | hx
    · exact ⟨x, List.mem_append_left _ hx, hl, hn⟩
    · cases hx with
      | head => rw [h] at hl; cases hl
      | tail _ hx => exact ⟨x, List.mem_append_right _ (List.mem_cons_of_mem _ hx), hl, hn⟩
  · rintro ⟨x, hx, hl, hn⟩
    rcases List.mem_append.mp hx with hx | hx
    · exact ⟨x, List.mem_append_left _ hx, hl, hn⟩
    · cases hx with
      | head => rw [h'] at hl; cases hl
      | tail _ hx => exact ⟨x, List.mem_append_right _ (List.mem_cons_of_mem _ hx), hl, hn⟩

theorem foldSteps_own (step : Store → Edit → Store × Edit) (hs : StepOk2 step) (L : List Name) :
    ∀ (E : List Edit) (S : Store) (pre : List Edit), ((pre ++ E).map Edit.name).Nodup → OwnInv L S (pre ++ E) →
      OwnInv L (foldSteps step S E).1 (pre ++ (foldSteps step S E).2) ∧
      (pre ++ (foldSteps step S E).2).map Edit.name = (pre ++ E).map Edit.name := by
  intro E
  induction E with
  | nil => intro S pre _ h; exact ⟨h, rfl⟩
  | cons e E ih =>
    intro S pre hn hinv
    obtain ⟨hname, hcase⟩ := hs S e
    obtain ⟨xs, hxs, hnd, hown⟩ := hinv
    have key : OwnInv L (step S e).1 ((pre ++ [(step S e).2]) ++ E) := by
      rcases hcase with ⟨h1, h2⟩ | ⟨h0, h1, h2⟩ | ⟨h0, h1, h2⟩
      · refine ⟨xs, by rw [h1]; exact hxs, hnd, fun m => ?_⟩
        rw [hown m]
        simpa using own_swap pre E e (step S e).2 hname h2 m
      · -- the lock file of `e` goes away
        have hmem : e.name ∈ xs := (hown e.name).mpr ⟨e, by simp, h0, rfl⟩
        refine ⟨xs.erase e.name, by rw [h1, hxs, List.erase_append_left _ hmem], hnd.erase _, fun m => ?_⟩
        rw [List.Nodup.mem_erase_iff hnd, hown m]
        constructor
        · rintro ⟨hne, x, hx, hl, hnm⟩
          rcases List.mem_append.mp hx with hx | hx
          · exact ⟨x, by simp [hx], hl, hnm⟩
          · cases hx with
            | head => exact absurd hnm (Ne.symm hne)
            | tail _ hx =>
              have hx' : x ∈ E := hx
              exact ⟨x, by simp [hx'], hl, hnm⟩
        · rintro ⟨x, hx, hl, hnm⟩
          simp only [List.append_assoc, List.cons_append, List.nil_append] at hx
          rcases List.mem_append.mp hx with hx | hx
          · refine ⟨?_, x, List.mem_append_left _ hx, hl, hnm⟩
            intro heq
            rw [List.map_append, List.map_cons] at hn
            have := (List.nodup_append.mp hn).2.2 x.name (List.mem_map_of_mem hx) e.name (List.mem_cons_self ..)
            exact this (by rw [hnm, heq])
          · cases hx with
            | head => rw [h2] at hl; cases hl
            | tail _ hx =>
              refine ⟨?_, x, List.mem_append_right _ (List.mem_cons_of_mem _ hx), hl, hnm⟩
              intro heq
              rw [List.map_append, List.map_cons, List.nodup_append] at hn
              have := (List.nodup_cons.mp hn.2.1).1
              exact this (by rw [← heq, ← hnm]; exact List.mem_map_of_mem hx)
      · refine ⟨xs, by rw [h1]; exact hxs, hnd, fun m => ?_⟩
        rw [hown m]
        simpa using own_unflagged pre E e (step S e).2 h0 h2 m
    have hn' : (((pre ++ [(step S e).2]) ++ E).map Edit.name).Nodup := by
      simpa [hname] using hn
    obtain ⟨i1, i2⟩ := ih (step S e).1 (pre ++ [(step S e).2]) hn' key
    simp only [foldSteps]
    constructor
    · simpa using i1
    · simpa [hname] using i2

theorem releaseAll_own (L : List Name) :
    ∀ (E : List Edit) (S : Store), (E.map Edit.name).Nodup → OwnInv L S E → (releaseAll S E).locks = L := by
  intro E
  induction E with
  | nil =>
    intro S _ ⟨xs, hxs, _, hown⟩
    have : xs = [] := by
      apply List.eq_nil_iff_forall_not_mem.mpr
      intro m hm
      obtain ⟨x, hx, _, _⟩ := (hown m).mp hm
      cases hx
    simp [releaseAll, hxs, this]
  | cons e E ih =>
    intro S hn ⟨xs, hxs, hnd, hown⟩
    simp only [List.map_cons, List.nodup_cons] at hn
    simp only [releaseAll]
    cases hl : e.lock with
    | false =>
      simp only [Bool.false_eq_true, if_false]
      apply ih S hn.2
      refine ⟨xs, hxs, hnd, fun m => ?_⟩
      rw [hown m]
      constructor
      · rintro ⟨x, hx, hxl, hnm⟩
        cases hx with
        | head => rw [hl] at hxl; cases hxl
        | tail _ hx => exact ⟨x, hx, hxl, hnm⟩
      · rintro ⟨x, hx, hxl, hnm⟩
        exact ⟨x, List.mem_cons_of_mem _ hx, hxl, hnm⟩
    | true =>
      simp only [if_true]
      have hmem : e.name ∈ xs := (hown e.name).mpr ⟨e, List.mem_cons_self .., hl, rfl⟩
      apply ih (release S e.name) hn.2
      refine ⟨xs.erase e.name, by simp [release, hxs, List.erase_append_left _ hmem], hnd.erase _, fun m => ?_⟩
      rw [List.Nodup.mem_erase_iff hnd, hown m]
      constructor
      · rintro ⟨hne, x, hx, hxl, hnm⟩
        cases hx with
        | head => exact absurd hnm (Ne.symm hne)
        | tail _ hx => exact ⟨x, hx, hxl, hnm⟩
      · rintro ⟨x, hx, hxl, hnm⟩
        refine ⟨?_, x, List.mem_cons_of_mem _ hx, hxl, hnm⟩
        intro heq
        exact hn.1 (by rw [← heq, ← hnm]; exact List.mem_map_of_mem hx)

theorem ownInv_of_lockedRev (base : Store) (L : List Name) (es' : List Edit) (hn : (es'.map Edit.name).Nodup) :
    OwnInv L { base with locks := lockedRev es' ++ L } (es'.map Edit.core) := by
  refine ⟨lockedRev es', rfl, lockedRev_nodup es' hn, fun m => ⟨lockedRev_own es' m, ?_⟩⟩
  rintro ⟨x, hx, hl, hnm⟩
  obtain ⟨y, hy, hyx⟩ := List.mem_map.mp hx
  simp only [lockedRev, List.mem_reverse, List.mem_map, List.mem_filter]
  refine ⟨y, ⟨hy, ?_⟩, ?_⟩
  · rw [← hyx] at hl; simpa [core_lock] using hl
  · rw [← hyx] at hnm; simpa [core_name] using hnm

theorem core_names (es : List Edit) : (es.map Edit.core).map Edit.name = es.map Edit.name := by
  simp [List.map_map, Function.comp_def, core_name]

/-- the three loops of commit release exactly the transaction's own locks -/
theorem commit_loops_locks (dl : Bool) (L : List Name) (S1 S2 : Store) (E : List Edit)
    (hn : (E.map Edit.name).Nodup) (hinv : OwnInv L S1 E)
    (h2 : S2.locks = (commitUpdates dl S1 E).1.locks) :
    (releaseAll (commitDeletes dl S2 (commitUpdates dl S1 E).2).1 (commitDeletes dl S2 (commitUpdates dl S1 E).2).2).locks = L := by
  obtain ⟨u1, u2⟩ := foldSteps_own (commitUpdateStep dl) (updateStep_ok2 dl) L E S1 [] (by simpa using hn) (by simpa using hinv)
  rw [← commitUpdates_eq_fold] at u1 u2
  simp only [List.nil_append] at u1 u2
  have hn2 : (((commitUpdates dl S1 E).2).map Edit.name).Nodup := by rw [u2]; exact hn
  have hinv2 : OwnInv L S2 (commitUpdates dl S1 E).2 := by
    obtain ⟨xs, h1, h3, h4⟩ := u1
    exact ⟨xs, by rw [h2]; exact h1, h3, h4⟩
  obtain ⟨d1, d2⟩ := foldSteps_own (commitDeleteStep dl) (deleteStep_ok2 dl) L _ S2 [] (by simpa using hn2) (by simpa using hinv2)
  rw [← commitDeletes_eq_fold] at d1 d2
  simp only [List.nil_append] at d1 d2
  exact releaseAll_own L _ _ (by rw [d2]; exact hn2) d1

theorem prepareWith_locked_eq (env : Env) (S : Store) (t : Txn) (es : List Edit)
    (hp : preProcess (fun n => lookup S.loose n) t.edits = .ok es) (hpl1 : S.packedLock = true) :
    prepareWith .fixed env S t =
      if (!(packedEditsOf t.mode es).1.isEmpty || (packedEditsOf t.mode es).2.1) = true then .err .packedLock S
      else
        liftPrep none t.mode
          (prepLoop .fixed
            { buffer := none, hasGlobalLock := false, directToPacked := decide (t.mode = .updatesRemoveLoose) }
            id es.length 0 S es) := by
  unfold prepareWith
  rw [hp]
  simp only [hpl1, Bool.or_true, Bool.true_and, Bool.and_true, if_true]
  by_cases hc : (!(packedEditsOf t.mode es).1.isEmpty || (packedEditsOf t.mode es).2.1) = true
  · simp [hc]
  · simp only [hc, Bool.false_eq_true, if_false, Bool.false_and]
    unfold liftPrep
    split <;> simp_all

/-- Whatever lock files other parties hold (any `S.locks`, any `S.packedLock`): a transaction
that succeeds leaves exactly those lock files, a transaction that fails leaves the store exactly
as it was. -/
theorem no_lock_leak_any (env : Env) (S : Store) (t : Txn) (hS : StoreOk S) :
    match run env S t with
    | .ok _ S' => S'.locks = S.locks ∧ S'.packedLock = S.packedLock
    | .err _ S' => S' = S
    | .panic S' => S' = S
    | .hang => False := by
  cases hp : preProcess (fun n => lookup S.loose n) t.edits with
  | outOfFuel => exact absurd (preProcess_ne_outOfFuel _ _ _ hp) (by simp)
  | cycle =>
    have : run env S t = .err .preprocess S := by unfold run runWith prepareWith; rw [hp]
    rw [this]
  | duplicate =>
    have : run env S t = .err .preprocess S := by unfold run runWith prepareWith; rw [hp]
    rw [this]
  | ok es =>
    have hw := preProcess_ok_wf _ _ _ hp
    have hn : (es.map Edit.name).Nodup := by
      unfold preProcess at hp
      split at hp
      · cases hp
      · cases hp
      · split at hp
        · cases hp
        · rename_i hdup
          injection hp with hp
          subst hp
          exact hasDup_false_nodup _ (by simpa using hdup)
    have hlk : ∀ e ∈ es, e.lock = false := preProcess_ok_lock _ _ es hp
    have hS0 : ({ S with locks := lockedRev ([] : List Edit) ++ S.locks } : Store) = S := by
      cases S; simp [lockedRev]
    -- the part without a packed-refs transaction
    have hnotx : match (match liftPrep none t.mode (prepLoop .fixed
          { buffer := none, hasGlobalLock := false, directToPacked := decide (t.mode = .updatesRemoveLoose) }
          id es.length 0 S es) with
        | .ok p S1 => commit S1 p
        | .err e S1 => .err e S1
        | .panic S1 => .panic S1
        | .hang => .hang) with
      | .ok _ S' => S'.locks = S.locks ∧ S'.packedLock = S.packedLock
      | .err _ S' => S' = S
      | .panic S' => S' = S
      | .hang => False := by
      have hleak := prepLoop_leak
        { buffer := none, hasGlobalLock := false, directToPacked := decide (t.mode = .updatesRemoveLoose) }
        id S S.locks es [] (by simpa using hw) hlk (by simpa using hn) (by intro e he; cases he)
      simp only [List.nil_append, List.length_nil, hS0] at hleak
      cases hpl : prepLoop .fixed
          { buffer := none, hasGlobalLock := false, directToPacked := decide (t.mode = .updatesRemoveLoose) }
          id es.length 0 S es with
      | ok es' S1 =>
        rw [hpl] at hleak
        obtain ⟨hS1, hnames, _⟩ := hleak
        simp only [liftPrep]
        subst hS1
        unfold commit
        simp only []
        have hnE : ((es'.map Edit.core).map Edit.name).Nodup := by rw [core_names, hnames]; exact hn
        refine ⟨commit_loops_locks _ S.locks _ _ _ hnE (ownInv_of_lockedRev S S.locks es' (by rw [hnames]; exact hn)) rfl, ?_⟩
        rw [(final_frame _ _ _).2, (commitUpdates_frame _ _ _).2.1]
      | err e S1 => rw [hpl] at hleak; simp only [liftPrep]; rw [hleak]; cases S; rfl
      | panic S1 => rw [hpl] at hleak; simp only [liftPrep]; rw [hleak]; cases S; rfl
      | hang => rw [hpl] at hleak; exact hleak
    unfold run runWith
    cases hpl0 : S.packedLock with
    | true =>
      rw [prepareWith_locked_eq env S t es hp hpl0]
      by_cases hc : (!(packedEditsOf t.mode es).1.isEmpty || (packedEditsOf t.mode es).2.1) = true
      · simp only [hc, if_true]
      · simp only [hc, Bool.false_eq_true, if_false]
        rw [hpl0] at hnotx; exact hnotx
    | false =>
      rw [prepareWith_ok_eq env S t es hp hpl0]
      by_cases hwith : withTxB t.mode S es = true
      · simp only [hwith, if_true]
        by_cases hk : objectsKnown env t.mode es = true
        · simp only [hk, if_true]
          have hb0 : ({ ({ S with packedLock := true } : Store) with locks := lockedRev ([] : List Edit) ++ S.locks } : Store)
              = { S with packedLock := true } := by cases S; simp [lockedRev]
          have hleak := prepLoop_leak
            { buffer := S.packed, hasGlobalLock := true, directToPacked := decide (t.mode = .updatesRemoveLoose) }
            (fun S' => { S' with packedLock := false }) { S with packedLock := true } S.locks es []
            (by simpa using hw) hlk (by simpa using hn) (by intro e he; cases he)
          simp only [List.nil_append, List.length_nil, hb0] at hleak
          have hunl : ({ ({ ({ S with packedLock := true } : Store) with locks := S.locks } : Store) with packedLock := false } : Store) = S := by
            cases S; simp_all
          cases hpl : prepLoop .fixed
              { buffer := S.packed, hasGlobalLock := true, directToPacked := decide (t.mode = .updatesRemoveLoose) }
              (fun S' => { S' with packedLock := false }) es.length 0 { S with packedLock := true } es with
          | ok es' S1 =>
            rw [hpl] at hleak
            obtain ⟨hS1, hnames, _⟩ := hleak
            simp only [liftPrep]
            subst hS1
            have hnE : ((es'.map Edit.core).map Edit.name).Nodup := by rw [core_names, hnames]; exact hn
            have hne : S.packed = none → (packedEditsOf t.mode es).2.2 > 0 := by
              intro hpk
              unfold withTxB at hwith
              simp only [hpk, Option.isSome_none, Bool.or_false, Bool.and_eq_true, decide_eq_true_eq] at hwith
              exact hwith.2.2
            have hframe := commitUpdates_frame (decide (t.mode = .updatesRemoveLoose))
              { ({ S with packedLock := true } : Store) with locks := lockedRev es' ++ S.locks } (es'.map Edit.core)
            obtain ⟨S2, hc, _, hS2k, hS2p, _⟩ := commitPacked_spec
              (commitUpdates (decide (t.mode = .updatesRemoveLoose))
                { ({ S with packedLock := true } : Store) with locks := lockedRev es' ++ S.locks } (es'.map Edit.core)).1
              { buffer := S.packed, edits := filterPackedEdits S.packed (packedEditsOf t.mode es).1 }
              (by rw [hframe.1])
              (by intro b hb; rw [hframe.1] at hb; exact hS.sorted b hb)
              (filter_nodup_keys _ _ (packedEditsOf_nodup t.mode es hn))
              (by
                intro hpk
                rw [hframe.1] at hpk
                right
                obtain ⟨kv, hkv, o, ho⟩ := packedEditsOf_count_pos t.mode es (hne hpk)
                exact ⟨kv, (filterPackedEdits_mem _ _ kv).mpr ⟨hkv, by rw [ho]⟩, o, ho⟩)
            unfold commit
            simp only [hc]
            refine ⟨commit_loops_locks _ S.locks _ S2 _ hnE
              (ownInv_of_lockedRev { S with packedLock := true } S.locks es' (by rw [hnames]; exact hn)) hS2k, ?_⟩
            rw [(final_frame _ _ _).2, hS2p]
          | err e S1 => rw [hpl] at hleak; simp only [liftPrep]; rw [hleak]; exact hunl
          | panic S1 => rw [hpl] at hleak; simp only [liftPrep]; rw [hleak]; exact hunl
          | hang => rw [hpl] at hleak; exact hleak
        · have hk' : objectsKnown env t.mode es = false := by simpa using hk
          simp [hk']
      · have hwith' : withTxB t.mode S es = false := by simpa using hwith
        simp only [hwith', Bool.false_eq_true, if_false]
        rw [hpl0] at hnotx
        exact hnotx

end GixModel.C17
