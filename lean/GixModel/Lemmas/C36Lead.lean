import GixModel.Lemmas.C36Path2

/-! C36, path mode, tier 3: a leading `**/` (round 3). The arm of the leading run of stars on both
sides, and the relation between gitoxide and git for `**/y` where `y` has no further `**/` boundary. -/
namespace GixModel.C36
open GixModel GixModel.Spec.C36

/-- git: a leading `**/` first tries to match nothing at all, then is a star that crosses slashes -/
theorem dw_lead_ds {f : Flags} {n : Nat} {r t y : Bytes}
    (hp : f.pathname = true) (hx : r.dropWhile (· == 42) = 47 :: y) :
    dowild f (n + 1) none (42 :: 42 :: r) t =
      if dowild f n none y t == .matched then .matched
      else Spec.C36.starLoop f (fun tx => dowild f n none (47 :: y) tx) (47 :: y) true (t.length + 1)
        (Spec.C36.fold f (hd t)) t := by
  have h42 : Spec.C36.fold f 42 = 42 := by unfold Spec.C36.fold Spec.C36.isUpper; simp
  have e1 : (hd ((42 : UInt8) :: 42 :: r) == 0) = false := rfl
  have e2 : (hd ((42 : UInt8) :: r) == 42) = true := rfl
  conv => lhs; unfold dowild
  simp only [e1, hd_cons, List.tail_cons, h42, hp, dropWhile42_cons42, hx, e2,
    Bool.false_eq_true, if_false, if_true]
  simp [hd]

/-- gitoxide: the same arm at the start of the pattern, text left -/
theorem go_lead_ds {m : Mode} {fuel d : Nat} {pattern text : Bytes} {ti : Nat} {tc : UInt8} {r tr y : Bytes}
    (hp : m.noMatchSlash = true) (hx : r.dropWhile (· == 42) = 47 :: y) :
    go m (fuel + 1) d pattern text ⟨0, 42 :: 42 :: r⟩ ⟨ti, tc :: tr⟩ =
      if recCall m fuel d pattern text (2 + (r.length - (y.length + 1)) + 1) ti == .matched then .matched
      else C36.starLoop m (fun k => recCall m fuel d pattern text (2 + (r.length - (y.length + 1))) k)
        47 true (tr.length + 1) ti (lc m tc) ⟨ti + 1, tr⟩ := by
  have hl47 : lc m 47 = 47 := (lc_special m 47).2.2.2.2.1.mpr rfl
  conv => lhs; unfold go
  simp only [Iter.next, STAR, BACKSLASH, SLASH, lc42, hp, Iter.skipStars, skipStarsAux_eq, List.dropWhile_cons, hx]
  simp [hl47, recCall]
  split <;> rename_i h <;> split at h <;> (try split at h) <;> (try split at h) <;> simp_all <;> congr 1


/-- gitoxide: the same arm, text exhausted -/
theorem go_lead_ds_nil {m : Mode} {fuel d : Nat} {pattern text : Bytes} {ti : Nat} {r y : Bytes}
    (hp : m.noMatchSlash = true) (hx : r.dropWhile (· == 42) = 47 :: y) :
    go m (fuel + 1) d pattern text ⟨0, 42 :: 42 :: r⟩ ⟨ti, []⟩ =
      if recCall m fuel d pattern text (2 + (r.length - (y.length + 1)) + 1) text.length == .matched then .matched
      else C36.starLoop m (fun k => recCall m fuel d pattern text (2 + (r.length - (y.length + 1))) k)
        47 true 1 text.length 0 ⟨ti, []⟩ := by
  have hl47 : lc m 47 = 47 := (lc_special m 47).2.2.2.2.1.mpr rfl
  conv => lhs; unfold go
  simp only [Iter.next, STAR, BACKSLASH, SLASH, lc42, hp, Iter.skipStars, skipStarsAux_eq, List.dropWhile_cons, hx]
  simp [hl47, recCall]
  split <;> rename_i h <;> split at h <;> (try split at h) <;> (try split at h) <;> simp_all <;> congr 1

/-- the look-behind byte matters only through "start of pattern or `/`" -/
theorem okDSaux_prev_congr {p1 p2 : Option UInt8} (h : prevOk p1 = prevOk p2) (l : Bytes) :
    okDSaux p1 l = okDSaux p2 l := by
  unfold okDSaux
  split
  · rw [h]
  · rfl
  · rfl

/-- A leading `**/` (the run of stars at the very start of the pattern, `/` behind it) in front of a
rest `y` that has no further `**/` boundary: gitoxide first tries `y` on the whole text, then lets the
stars cross slashes, exactly like git. -/
theorem go_rel_lead (m : Mode) (hpm : m.noMatchSlash = true) (n d : Nat) (p text r y : Bytes)
    (hp : p = 42 :: 42 :: r) (hx : r.dropWhile (· == 42) = 47 :: y)
    (hok : PatOk m p) (htext : ∀ c ∈ text, c ≠ 0) (hy : okDSaux (some 47) y = true)
    (hfuel : y.length + 1 ≤ n) (hdepth : count42 y + 1 ≤ d) :
    RelAA (go m (n + 1) d p text ⟨0, p⟩ ⟨0, text⟩) (dowild (flagsOf m) (n + 1) none p text) := by
  have hpf : (flagsOf m).pathname = true := by simpa using hpm
  have hl47 : lc m 47 = 47 := (lc_special m 47).2.2.2.2.1.mpr rfl
  have hdne : d ≠ 0 := by omega
  -- where the slash sits
  obtain ⟨kx, hkx⟩ := dropWhile_is_drop (· == 42) r
  rw [hx] at hkx
  have hkxl : kx = r.length - (y.length + 1) := by
    have := congrArg List.length hkx
    simp at this; omega
  have hkxle : kx + (y.length + 1) = r.length := by
    have := congrArg List.length hkx
    simp at this; omega
  have hinvX : p.drop (2 + (r.length - (y.length + 1))) = 47 :: y := by
    rw [← hkxl, hp, hkx, Nat.add_comm]; rfl
  have hinvY : p.drop (2 + (r.length - (y.length + 1)) + 1) = y := drop_succ_of_drop hinvX
  have hXlen : 2 + (r.length - (y.length + 1)) + 1 ≤ p.length := by rw [hp]; simp; omega
  have hXok : PatOk m (47 :: y) := by rw [← hinvX]; exact patOk_drop hok _
  have hYok : PatOk m y := by rw [← hinvY]; exact patOk_drop hok _
  have hXds : okDSaux none (47 :: y) = true := by
    unfold okDSaux; exact hy
  have hYds : okDSaux none y = true := by rw [okDSaux_prev_congr (p1 := none) (p2 := some 47) rfl]; exact hy
  have hc0 : (47 : UInt8) ≠ 0 := by decide
  have hc42 : (47 : UInt8) ≠ 42 := by decide
  have hrecX : ∀ k, k ≤ text.length →
      RelAA (recCall m n d p text (2 + (r.length - (y.length + 1))) k)
        (dowild (flagsOf m) n none (47 :: y) (text.drop k)) := by
    intro k hk
    unfold recCall sliceFrom
    have : 2 + (r.length - (y.length + 1)) ≤ p.length := by omega
    simp only [this, hk, if_true]
    have hd' : (d == 0) = false := by simpa using hdne
    simp only [hd', Bool.false_eq_true, if_false, Iter.ofSlice, hinvX]
    exact go_rel_p m hpm n (d - 1) (47 :: y) (text.drop k) hXok
      (fun c hc => htext c (List.mem_of_mem_drop hc)) (47 :: y) (text.drop k) 0 0 none
      (by simp) (by simp) (by simpa using hfuel)
      (by have : count42 (47 :: y) = count42 y := by simp [count42]
          omega) (fun _ => rfl) hXds
  have hrecY : ∀ k, k ≤ text.length →
      RelAA (recCall m n d p text (2 + (r.length - (y.length + 1)) + 1) k)
        (dowild (flagsOf m) n none y (text.drop k)) := by
    intro k hk
    unfold recCall sliceFrom
    simp only [hXlen, hk, if_true]
    have hd' : (d == 0) = false := by simpa using hdne
    simp only [hd', Bool.false_eq_true, if_false, Iter.ofSlice, hinvY]
    exact go_rel_p m hpm n (d - 1) y (text.drop k) hYok
      (fun c hc => htext c (List.mem_of_mem_drop hc)) y (text.drop k) 0 0 none
      (by simp) (by simp) (by omega) (by omega) (fun _ => rfl) hYds
  have hrecBeyond : ∀ k, text.length < k → recCall m n d p text (2 + (r.length - (y.length + 1))) k ≠ .matched := by
    intro k hk
    unfold recCall sliceFrom
    have : ¬ k ≤ text.length := by omega
    simp [this]
  have hXend : recCall m n d p text (2 + (r.length - (y.length + 1))) text.length ≠ .matched := by
    have hR := hrecX text.length (Nat.le_refl _)
    simp only [List.drop_length] at hR
    obtain ⟨n', e⟩ : ∃ n', n = n' + 1 := ⟨n - 1, by omega⟩
    subst e
    rw [dw_abort hc0 hc42] at hR
    exact hR.ne_matched (by simp)
  subst hp
  rw [dw_lead_ds hpf hx]
  cases text with
  | nil =>
    rw [go_lead_ds_nil hpm hx]
    have hR := hrecY 0 (by simp)
    simp only [List.drop_zero, List.length_nil] at hR ⊢
    by_cases hm : dowild (flagsOf m) n none y [] = .matched
    · rw [hm] at hR
      have : recCall m n d (42 :: 42 :: r) [] (2 + (r.length - (y.length + 1)) + 1) 0 = .matched := by
        rcases hR with h | ⟨h, _⟩
        · simpa [ofWm] using h
        · cases h
      left
      simp [hm, this, ofWm]
    · have hne := hR.ne_matched hm
      have hf0 : Spec.C36.fold (flagsOf m) 0 = 0 := by rw [fold_eq_lc]; exact (lc_special m 0).2.2.2.2.2.1.mpr rfl
      simp only [hd, List.headD_nil, hf0, sl_zero]
      right
      have hg : isGlobCharacter 47 = false := by decide
      rw [starLoop_end m _ _ _ _ hg (by decide)]
      simp [hm, hne]
  | cons tc tr =>
    rw [go_lead_ds hpm hx]
    have htnn : ∀ c ∈ tc :: tr, c ≠ 0 := htext
    have hR := hrecY 0 (by simp)
    simp only [List.drop_zero] at hR
    by_cases hm : dowild (flagsOf m) n none y (tc :: tr) = .matched
    · rw [hm] at hR
      have : recCall m n d (42 :: 42 :: r) (tc :: tr) (2 + (r.length - (y.length + 1)) + 1) 0 = .matched := by
        rcases hR with h | ⟨h, _⟩
        · simpa [ofWm] using h
        · cases h
      left
      simp [hm, this, ofWm]
    · have hne := hR.ne_matched hm
      have := starLoop_relAA m (fun k => recCall m n d (42 :: 42 :: r) (tc :: tr) (2 + (r.length - (y.length + 1))) k)
        (fun tx => dowild (flagsOf m) n none (47 :: y) tx) (47 :: y) true
        (by simp [hd]) (by simp)
        (tc :: tr) htnn (by simp) 0 (tr.length + 1) ((tc :: tr).length + 1)
        (Spec.C36.fold (flagsOf m) (hd (tc :: tr)))
        (by simp) (by simp) (Or.inr rfl)
        (by
          intro j hj
          have := hrecX (0 + j) (by simp at hj ⊢; omega)
          simpa using this)
        (by
          intro k' hk'
          by_cases hk : k' ≤ (tc :: tr).length
          · have hke : k' = (tc :: tr).length := by simp at hk' hk ⊢; omega
            rw [hke]; exact hXend
          · exact hrecBeyond k' (by omega))
        (by
          intro j hj' i'
          have := dowild_abort_sound_p m n none (47 :: y) ((tc :: tr).drop j) hXds hXok.noNul
            (fun c hc => htnn c (List.mem_of_mem_drop hc)) hj' i'
          rwa [List.drop_drop] at this)
      simpa [hd, hl47, hm, hne] using this

end GixModel.C36
