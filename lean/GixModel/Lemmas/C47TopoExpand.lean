import GixModel.Lemmas.C47TopoQueue
/-
C47 — lemmas, part 7: `expand_topo_walk`. How the invariant `NInv` moves when a parent of the
commit being emitted is skipped (uninteresting), when `min_gen` is lowered, when its in-degree is
decremented and when it is put onto the topo queue; `expandParents_spec`.
-/
namespace GixModel.C47
open GixModel GixModel.CG GixModel.Spec.C47

section
variable {E : TopoEnv} {nodes tips ends : List Nat}

/-- the whole invariant at a point where no in-degree computation is under way -/
structure WInv (E : TopoEnv) (nodes tips ends : List Nat) (s : TS E) (outp cur pend : List Nat) : Prop where
  ex : ExInv E nodes ends s
  n : NInv E nodes tips ends s outp cur pend
  depth : Depth E s

/-- a hidden parent is skipped -/
theorem NInv.drop_hidden {s : TS E} {outp ps pend : List Nat} {p : Nat}
    (h : NInv E nodes tips ends s outp (p :: ps) pend) (hh : Hid E ends p) :
    NInv E nodes tips ends s outp ps pend := by
  have hnd := List.nodup_cons.mp h.cur_nodup
  have hmem : ∀ q, q ≠ p → (q ∈ p :: ps ↔ q ∈ ps) := by
    intro q hq; simp [hq]
  exact
    { iq_key := h.iq_key, iq_flag := h.iq_flag, iq_nodup := h.iq_nodup, in_expl := h.in_expl
      in_deg := h.in_deg, in_rch := h.in_rch, starts_in := h.starts_in, cnt_done := h.cnt_done
      psi_le := h.psi_le
      deg_ok := by
        intro q hq
        have hold := h.deg_ok q hq
        simp only [DegOk] at hold ⊢
        by_cases hqp : q = p
        · subst hqp
          cases hget : s.indeg.get q with
          | none => rw [hget] at hold; exact absurd List.mem_cons_self hold.2
          | some d =>
            rw [hget] at hold
            dsimp only
            refine ⟨fun hn => absurd hh hn, fun _ => ?_⟩
            have := hold.2 hh
            simp only [List.mem_cons, true_or, if_true] at this
            simp only [hnd.1, if_false]
            omega
        · have hiff := hmem q hqp
          cases hget : s.indeg.get q with
          | none =>
            rw [hget] at hold
            exact ⟨hold.1, fun hq' => hold.2 (hiff.mpr hq')⟩
          | some d =>
            rw [hget] at hold
            dsimp only at hold ⊢
            have : (if q ∈ p :: ps then (1 : Int) else 0) = if q ∈ ps then 1 else 0 := by
              by_cases hq' : q ∈ ps
              · simp [hq']
              · simp [hq', hqp]
            rw [this] at hold
            exact hold
      cur_fresh := fun q hq => h.cur_fresh q (List.mem_cons_of_mem _ hq)
      cur_nodup := hnd.2
      tq_inv := h.tq_inv, tq_nodup := h.tq_nodup, out_nodup := h.out_nodup, out_inv := h.out_inv
      out_order := h.out_order
      mingen := by
        intro c hc q hq hnq
        cases h.mingen c hc q hq hnq with
        | inl h' =>
          cases List.mem_cons.mp h' with
          | inl h'' => subst h''; exact absurd hh hnq
          | inr h'' => exact Or.inl h''
        | inr h' => exact Or.inr h'
      live := by
        intro x a1 a2 a3 a4 a5
        apply h.live x a1 a2 a3 _ a5
        intro hx
        cases List.mem_cons.mp hx with
        | inl h' => subst h'; exact a2 hh
        | inr h' => exact a4 h' }

/-- `min_gen` is lowered before the in-degrees are completed down to it -/
theorem NInv.lower {s : TS E} {outp cur pend : List Nat} (h : NInv E nodes tips ends s outp cur pend)
    (g : Nat) (hg : g ≤ s.minGen) : NInv E nodes tips ends { s with minGen := g } outp cur pend :=
  { iq_key := h.iq_key, iq_flag := h.iq_flag, iq_nodup := h.iq_nodup, in_expl := h.in_expl
    in_deg := h.in_deg, in_rch := h.in_rch, starts_in := h.starts_in, cnt_done := h.cnt_done
    psi_le := h.psi_le, deg_ok := h.deg_ok, cur_fresh := h.cur_fresh, cur_nodup := h.cur_nodup
    tq_inv := h.tq_inv, tq_nodup := h.tq_nodup, out_nodup := h.out_nodup, out_inv := h.out_inv
    out_order := h.out_order
    mingen := by
      intro c hc q hq hnq
      cases h.mingen c hc q hq hnq with
      | inl h' => exact Or.inl h'
      | inr h' => exact Or.inr (Nat.le_trans hg h')
    live := h.live }

/-- the in-degree of the parent at the head of `cur` is decremented; it may now have to be queued
(it is parked in `pend` until the caller has decided) -/
theorem NInv.decrement {s : TS E} {outp ps pend : List Nat} {p : Nat} {d : Int}
    (h : NInv E nodes tips ends s outp (p :: ps) pend) (hget : s.indeg.get p = some d)
    (hmin : ¬ Hid E ends p → s.minGen ≤ E.g.gen p) :
    NInv E nodes tips ends { s with indeg := s.indeg.set p (d - 1) } outp ps (p :: pend) := by
  have hnd := List.nodup_cons.mp h.cur_nodup
  have hpo : p ∉ outp := h.cur_fresh p List.mem_cons_self
  have hget' : ∀ q, q ≠ p → (s.indeg.set p (d - 1)).get q = s.indeg.get q := by
    intro q hq; simp [DegMap.get_set, hq]
  have hgetp : (s.indeg.set p (d - 1)).get p = some (d - 1) := by simp [DegMap.get_set]
  have hcB : countedB E { s with indeg := s.indeg.set p (d - 1) } = countedB E s := rfl
  have hcnt : ∀ q, cnt E nodes { s with indeg := s.indeg.set p (d - 1) } outp q = cnt E nodes s outp q :=
    fun _ => rfl
  have hptq : p ∉ tqIds E s := by
    intro hmem
    obtain ⟨_, a2, _, a4, _, _⟩ := h.tq_inv p hmem
    have hold := h.deg_ok p hpo
    simp only [DegOk, a4] at hold
    have := hold.1 a2
    simp only [List.mem_cons, true_or, if_true] at this
    omega
  exact
    { iq_key := h.iq_key, iq_flag := h.iq_flag, iq_nodup := h.iq_nodup, in_expl := h.in_expl
      in_deg := by
        intro x hx
        show ((s.indeg.set p (d - 1)).get x).isSome = true
        by_cases hxp : x = p
        · subst hxp; rw [hgetp]; rfl
        · rw [hget' x hxp]; exact h.in_deg x hx
      in_rch := h.in_rch, starts_in := h.starts_in, cnt_done := h.cnt_done
      psi_le := h.psi_le
      deg_ok := by
        intro q hq
        have hold := h.deg_ok q hq
        simp only [DegOk] at hold ⊢
        show match (s.indeg.set p (d - 1)).get q with
          | some d' => _
          | none => _
        rw [hcnt q]
        by_cases hqp : q = p
        · subst hqp
          rw [hgetp]
          rw [hget] at hold
          dsimp only at hold ⊢
          simp only [List.mem_cons, true_or, if_true] at hold
          simp only [hnd.1, if_false]
          exact ⟨fun hn => by have := hold.1 hn; omega, fun hn => by have := hold.2 hn; omega⟩
        · rw [hget' q hqp]
          have : (if q ∈ p :: ps then (1 : Int) else 0) = if q ∈ ps then 1 else 0 := by
            by_cases hq' : q ∈ ps
            · simp [hq']
            · simp [hq', hqp]
          cases hgq : s.indeg.get q with
          | none =>
            rw [hgq] at hold
            exact ⟨hold.1, fun hq' => hold.2 (List.mem_cons_of_mem _ hq')⟩
          | some dq =>
            rw [hgq] at hold
            dsimp only at hold ⊢
            rw [this] at hold
            exact hold
      cur_fresh := fun q hq => h.cur_fresh q (List.mem_cons_of_mem _ hq)
      cur_nodup := hnd.2
      tq_inv := by
        intro x hx
        obtain ⟨a1, a2, a3, a4, a5, a6⟩ := h.tq_inv x hx
        refine ⟨a1, a2, a3, ?_, a5, a6⟩
        have hxp : x ≠ p := fun hxp => hptq (hxp ▸ hx)
        show (s.indeg.set p (d - 1)).get x = some 1
        rw [hget' x hxp]; exact a4
      tq_nodup := h.tq_nodup, out_nodup := h.out_nodup, out_inv := h.out_inv
      out_order := h.out_order
      mingen := by
        intro c hc q hq hnq
        cases h.mingen c hc q hq hnq with
        | inl h' =>
          cases List.mem_cons.mp h' with
          | inl h'' => subst h''; exact Or.inr (hmin hnq)
          | inr h'' => exact Or.inl h''
        | inr h' => exact Or.inr h'
      live := by
        intro x a1 a2 a3 a4 a5
        by_cases hxp : x = p
        · subst hxp; exact Or.inr List.mem_cons_self
        · have a5' : (s.indeg.set p (d - 1)).get x = some 1 := a5
          rw [hget' x hxp] at a5'
          have hx : x ∉ p :: ps := by
            intro hx
            cases List.mem_cons.mp hx with
            | inl h' => exact hxp h'
            | inr h' => exact a4 h'
          cases h.live x a1 a2 a3 hx a5' with
          | inl h' => exact Or.inl h'
          | inr h' => exact Or.inr (List.mem_cons_of_mem _ h') }

/-- a parked commit that does not have to be queued -/
theorem NInv.pend_drop {s : TS E} {outp cur pend : List Nat} {t : Nat}
    (h : NInv E nodes tips ends s outp cur (t :: pend))
    (hd : s.indeg.get t = some 1 → Hid E ends t ∨ t ∈ tqIds E s ∨ t ∈ outp ∨ t ∈ cur ∨ t ∈ pend) :
    NInv E nodes tips ends s outp cur pend :=
  { iq_key := h.iq_key, iq_flag := h.iq_flag, iq_nodup := h.iq_nodup, in_expl := h.in_expl
    in_deg := h.in_deg, in_rch := h.in_rch, starts_in := h.starts_in, cnt_done := h.cnt_done
    psi_le := h.psi_le, deg_ok := h.deg_ok, cur_fresh := h.cur_fresh, cur_nodup := h.cur_nodup
    tq_inv := h.tq_inv, tq_nodup := h.tq_nodup, out_nodup := h.out_nodup, out_inv := h.out_inv
    out_order := h.out_order, mingen := h.mingen
    live := by
      intro x a1 a2 a3 a4 a5
      cases h.live x a1 a2 a3 a4 a5 with
      | inl h' => exact Or.inl h'
      | inr h' =>
        cases List.mem_cons.mp h' with
        | inl h'' =>
          subst h''
          rcases hd a5 with h1 | h1 | h1 | h1 | h1
          · exact absurd h1 a2
          · exact Or.inl h1
          · exact absurd h1 a3
          · exact absurd h1 a4
          · exact Or.inr h1
        | inr h'' => exact Or.inr h'' }

/-- a parked commit is put onto the topo queue -/
theorem NInv.push (ctx : TCtx E nodes tips ends) {s : TS E} {outp cur pend : List Nat} {p : Nat}
    (h : NInv E nodes tips ends s outp cur (p :: pend)) (t : Int)
    (hr : Rch E tips ends p) (hh : ¬ Hid E ends p) (hpo : p ∉ outp) (hdeg : s.indeg.get p = some 1)
    (hk : KidsCounted E tips ends s p) (hc : countedB E s p = true) (hptq : p ∉ tqIds E s) :
    NInv E nodes tips ends (tqPush E s t p) outp cur pend := by
  obtain ⟨f1, f2, f3, f4, f5⟩ := tqPush_frame (E := E) s t p
  have hperm := tqIds_push ctx s t p
  have hcB : countedB E (tqPush E s t p) = countedB E s :=
    countedB_congr (fun x => by rw [f2]) f4
  have hcnt : ∀ q, cnt E nodes (tqPush E s t p) outp q = cnt E nodes s outp q := cnt_congr hcB outp
  have hkids : ∀ x, KidsCounted E tips ends (tqPush E s t p) x ↔ KidsCounted E tips ends s x := by
    intro x; simp only [KidsCounted, hcB]
  have hmem : ∀ x, x ∈ tqIds E (tqPush E s t p) ↔ x = p ∨ x ∈ tqIds E s := by
    intro x; rw [hperm.mem_iff]; simp
  exact
    { iq_key := by rw [f4]; exact h.iq_key
      iq_flag := by rw [f4, f2]; exact h.iq_flag
      iq_nodup := by simp only [iqIds, f4]; exact h.iq_nodup
      in_expl := by rw [f2]; exact h.in_expl
      in_deg := by rw [f2, f1]; exact h.in_deg
      in_rch := by rw [f2]; exact h.in_rch
      starts_in := by rw [f2]; exact h.starts_in
      cnt_done := by rw [hcB, f2]; exact h.cnt_done
      psi_le := by rw [f4, f2]; exact h.psi_le
      deg_ok := by
        intro q hq
        have := h.deg_ok q hq
        simp only [DegOk, f1, hcnt] at this ⊢
        exact this
      cur_fresh := h.cur_fresh
      cur_nodup := h.cur_nodup
      tq_inv := by
        intro x hx
        rw [f1, hcB]
        cases (hmem x).mp hx with
        | inl h' => subst h'; exact ⟨hr, hh, hpo, hdeg, (hkids x).mpr hk, hc⟩
        | inr h' =>
          obtain ⟨a1, a2, a3, a4, a5, a6⟩ := h.tq_inv x h'
          exact ⟨a1, a2, a3, a4, (hkids x).mpr a5, a6⟩
      tq_nodup := by
        rw [hperm.nodup_iff]
        exact List.nodup_cons.mpr ⟨hptq, h.tq_nodup⟩
      out_nodup := h.out_nodup
      out_inv := by
        intro x hx
        obtain ⟨a1, a2, a3, a4⟩ := h.out_inv x hx
        exact ⟨a1, a2, (hkids x).mpr a3, by rw [hcB]; exact a4⟩
      out_order := h.out_order
      mingen := by rw [f5]; exact h.mingen
      live := by
        intro x a1 a2 a3 a4 a5
        rw [f1] at a5
        rw [hmem]
        cases h.live x a1 a2 a3 a4 a5 with
        | inl h' => exact Or.inl (Or.inr h')
        | inr h' =>
          cases List.mem_cons.mp h' with
          | inl h'' => exact Or.inl (Or.inl h'')
          | inr h'' => exact Or.inr h'' }

theorem ExInv.of_states_eq {s s' : TS E} (h : ExInv E nodes ends s) (h1 : s'.states = s.states)
    (h2 : s'.explore = s.explore) : ExInv E nodes ends s' := by
  refine ⟨?_, ?_, ?_, ?_, ?_, ?_, ?_, ?_⟩
  · rw [h1]; exact h.st_nodes
  · rw [h1]; exact h.st_u
  · rw [h1]; exact h.st_ends
  · rw [h1]; exact h.st_added
  · rw [h2]; exact h.eq_key
  · rw [h1, h2]; exact h.eq_expl
  · rw [h1, h2]; exact h.ex_done
  · rw [h1, h2]; exact h.phi_le

/-- `expand_topo_walk`: the loop over the parents of the commit being emitted. -/
theorem expandParents_spec (ctx : TCtx E nodes tips ends) (nfuel : Nat) (hn : nodes.length < nfuel)
    {outp : List Nat} :
    ∀ (ps : List Nat) (s : TS E), WInv E nodes tips ends s outp ps [] →
      (∀ p, p ∈ ps → s.states.has p = true ∧ Rch E tips ends p) →
      ∃ s', expandParents E nfuel ps s = .ok s' ∧ WInv E nodes tips ends s' outp [] [] := by
  intro ps
  induction ps with
  | nil => intro s h _; exact ⟨s, rfl, h⟩
  | cons p ps ih =>
    intro s h hps
    unfold expandParents
    obtain ⟨hph, hpr⟩ := hps p List.mem_cons_self
    have hps' : ∀ q, q ∈ ps → s.states.has q = true ∧ Rch E tips ends q :=
      fun q hq => hps q (List.mem_cons_of_mem _ hq)
    cases hget : s.states.get p with
    | none => simp [StateMap.has, hget] at hph
    | some pst =>
      dsimp only
      have hU : s.states.fU p = pst.uninteresting := by simp [StateMap.fU, hget]
      by_cases hu : pst.uninteresting = true
      · rw [if_pos hu]
        have hh : Hid E ends p := h.ex.st_u p (by rw [hU]; exact hu)
        exact ih s ⟨h.ex, h.n.drop_hidden hh, h.depth⟩ hps'
      · rw [if_neg hu]
        have hUf : s.states.fU p = false := by rw [hU]; simpa using hu
        have hpe : p ∉ ends := fun hpe => by
          have := h.ex.st_ends p hpe
          rw [hUf] at this; cases this
        have hpo : p ∉ outp := h.n.cur_fresh p List.mem_cons_self
        -- lowering `min_gen`
        have hlow : ∃ s1, (if E.g.gen p < s.minGen then
              computeIndegrees E nfuel (E.g.gen p) nfuel { s with minGen := E.g.gen p }
            else Res.ok s) = .ok s1 ∧ WInv E nodes tips ends s1 outp (p :: ps) [] ∧
            s1.minGen ≤ E.g.gen p ∧ (∀ x, s.states.has x = true → s1.states.has x = true) := by
          by_cases hlt : E.g.gen p < s.minGen
          · rw [if_pos hlt]
            have hex0 : ExInv E nodes ends { s with minGen := E.g.gen p } :=
              h.ex.of_states_eq rfl rfl
            have hn0 := h.n.lower (E.g.gen p) (Nat.le_of_lt hlt)
            obtain ⟨s1, hs1, a1, a2, a3, a4, _, _, _, a8⟩ :=
              computeIndegrees_spec ctx nfuel (E.g.gen p) hn nfuel { s with minGen := E.g.gen p } hex0 hn0 (by
                have := h.n.psi_le
                show (E.qg.items s.indegQ).length + unflagged nodes s.states < nfuel
                omega)
            refine ⟨s1, hs1, ⟨a1, a2, ?_⟩, ?_, a8⟩
            · intro e he
              rw [a4]
              exact a3 e he
            · rw [a4]; exact Nat.le_refl _
          · rw [if_neg hlt]
            exact ⟨s, rfl, h, by omega, fun _ hx => hx⟩
        obtain ⟨s1, hs1, hw1, hmin1, hhas1⟩ := hlow
        rw [hs1]
        dsimp only
        have hdeg := hw1.n.deg_ok p hpo
        cases hgd : s1.indeg.get p with
        | none =>
          simp only [DegOk, hgd] at hdeg
          exact absurd List.mem_cons_self hdeg.2
        | some d =>
          dsimp only
          simp only [DegOk, hgd] at hdeg
          have hdec := hw1.n.decrement hgd (fun _ => hmin1)
          have hex2 : ExInv E nodes ends { s1 with indeg := s1.indeg.set p (d - 1) } :=
            hw1.ex.of_states_eq rfl rfl
          have hdepth2 : Depth E { s1 with indeg := s1.indeg.set p (d - 1) } := hw1.depth
          have hps2 : ∀ q, q ∈ ps →
              ({ s1 with indeg := s1.indeg.set p (d - 1) } : TS E).states.has q = true ∧ Rch E tips ends q :=
            fun q hq => ⟨hhas1 q (hps' q hq).1, (hps' q hq).2⟩
          have hgetp : ({ s1 with indeg := s1.indeg.set p (d - 1) } : TS E).indeg.get p = some (d - 1) := by
            simp [DegMap.get_set]
          -- everything reachable at or above the generation of `p` is counted
          have hcounted : ∀ x, Rch E tips ends x → E.g.gen p ≤ E.g.gen x → countedB E s1 x = true :=
            fun x hx hg => counted_of_depth ctx hw1.n hw1.depth hx (by omega)
          by_cases hone : d - 1 = 1
          · rw [if_pos hone]
            -- `p` is visible: a hidden commit has a counted hidden child that is never emitted
            have hnh : ¬ Hid E ends p := by
              intro hh
              obtain ⟨c', hc1, hc2, hc3⟩ := ctx.hid_walk p hh hpr hpe
              have hc'c := hcounted c' hc2 (ctx.gen_le_walk hc3)
              have hc'o : c' ∉ outp := fun hmem => (hw1.n.out_inv c' hmem).2.1 hc1
              have := cnt_pos (nodes := nodes) (s := s1) (ctx.rch_nodes hc2) hc'c hc3 hc'o
              have h2 := hdeg.2 hh
              simp only [List.mem_cons, true_or, if_true] at h2
              omega
            have hkids : KidsCounted E tips ends { s1 with indeg := s1.indeg.set p (d - 1) } p :=
              fun c' hc' hp' => hcounted c' hc' (ctx.gen_le_walk hp')
            have hcp : countedB E { s1 with indeg := s1.indeg.set p (d - 1) } p = true :=
              hcounted p hpr (Nat.le_refl _)
            have hptq : p ∉ tqIds E { s1 with indeg := s1.indeg.set p (d - 1) } := by
              intro hmem
              obtain ⟨_, a2, _, a4, _, _⟩ := hw1.n.tq_inv p hmem
              rw [hgd] at a4
              have := hdeg.1 a2
              simp only [List.mem_cons, true_or, if_true] at this
              simp only [Option.some.injEq] at a4
              omega
            have hpush := hdec.push ctx (E.g.time p) hpr hnh hpo (by rw [hgetp, hone]) hkids hcp hptq
            obtain ⟨f1, f2, f3, f4, f5⟩ := tqPush_frame (E := E) { s1 with indeg := s1.indeg.set p (d - 1) }
              (E.g.time p) p
            apply ih
            · refine ⟨hex2.of_states_eq f2 f3, hpush, ?_⟩
              intro e he
              rw [f4] at he
              rw [f5]
              exact hdepth2 e he
            · intro q hq
              rw [f2]
              exact hps2 q hq
          · rw [if_neg hone]
            have hdrop := hdec.pend_drop (fun h1 => by
              rw [hgetp] at h1
              simp only [Option.some.injEq] at h1
              exact absurd h1 hone)
            exact ih _ ⟨hex2, hdrop, hdepth2⟩ hps2

end

end GixModel.C47
