import GixModel.Lemmas.C25
import GixModel.Lemmas.C24File
/-
C25 — the written file read back by `from_bytes` (C24's file-level theorem applied to the fact that
the written file is git's encoding).
-/
namespace GixModel.C25
open GixModel GixModel.C24 GixModel.Spec.C24

/-- the cache tree that gets written -/
def writtenTree (s : State) (o : Options) : Option Tree := if o.treeCache then s.tree else none

theorem gitExtensionsOf_eq (s : State) (o : Options) :
    gitExtensionsOf s o = gitExts (writtenTree s o) none s.isSparse := by
  unfold gitExtensionsOf gitExts writtenTree
  cases s.tree <;> cases o.treeCache <;> simp

theorem requiredVersion_23 (es : List Entry) : requiredVersion es = 2 ∨ requiredVersion es = 3 ∨ requiredVersion es = 4 := by
  unfold requiredVersion; split <;> simp

def trailerOf (sha1 : Bytes → Bytes) (s : State) (o : Options) : Bytes :=
  if o.skipHash then List.replicate hashLen 0 else sha1 (writeState sha1 s o).2

theorem writeFile_readback (sha1 : Bytes → Bytes) (hsha : ∀ x, (sha1 x).length = 20) (s : State) (o : Options)
    (threads : Nat) (ht : 1 ≤ threads)
    (hok : ∀ e ∈ kept s.entries, EntryOk e) (hfit : PathsFit (kept s.entries))
    (hsize : (writeFile sha1 s o).2.length < 4294967296)
    (hno : wantsEoie s o = false → eoieDecode sha1 (writeFile sha1 s o).2 = none) :
    fromBytes sha1 threads (writeFile sha1 s o).2 =
      .ok (requiredVersion s.entries) ((kept s.entries).map persisted)
        (isSparseEntries ((kept s.entries).map persisted) || s.isSparse)
        (expectedExts (writtenTree s o) none s.isSparse false (wantsEoie s o))
        (if isNull (trailerOf sha1 s o) then none else some (trailerOf sha1 s o)) := by
  have hid : ∀ e ∈ kept s.entries, e.id.length = hashLen := fun e he => (hok e he).id_len
  have hfile := write_file_eq_git_aux sha1 s o hid
  rw [show (if o.skipHash then List.replicate hashLen 0 else sha1 (writeState sha1 s o).2) = trailerOf sha1 s o from rfl]
    at hfile
  rw [hfile, gitExtensionsOf_eq] at hsize hno ⊢
  have hwf : ∀ b ∈ [(kept s.entries).map persisted], AllWf b := by
    intro b hb x hx
    simp only [List.mem_cons, List.not_mem_nil, or_false] at hb
    subst hb
    obtain ⟨e, he, rfl⟩ := List.mem_map.mp hx
    exact persisted_wf e (hok e he)
  have hfit' : ∀ b ∈ [(kept s.entries).map persisted], PathsFit b := by
    intro b hb x hx
    simp only [List.mem_cons, List.not_mem_nil, or_false] at hb
    subst hb
    obtain ⟨e, he, rfl⟩ := List.mem_map.mp hx
    exact hfit e he
  have htr : (trailerOf sha1 s o).length = hashLen := by
    unfold trailerOf; split
    · simp
    · exact hsha _
  -- the number of entries is bounded by the file size
  have hn : ([(kept s.entries).map persisted].map List.length).sum < 4294967296 := by
    have hlen : ∀ (es : List Entry), es.length ≤ (es.flatMap gitEncodeEntryV23).length := by
      intro es
      induction es with
      | nil => simp
      | cons e es ih =>
        simp only [List.flatMap_cons, List.length_cons, List.length_append]
        have : 1 ≤ (gitEncodeEntryV23 e).length := by
          unfold gitEncodeEntryV23
          simp only [List.length_append, List.length_replicate]
          have := alignPadding_pos (fixedSize e) e.path.length
          omega
        omega
    have h1 := hlen ((kept s.entries).map persisted)
    have h2 : ((kept s.entries).map persisted |>.flatMap gitEncodeEntryV23).length ≤
        (gitEncodeIndex sha1 (requiredVersion s.entries) [(kept s.entries).map persisted] false
          (gitExts (writtenTree s o) none s.isSparse) (wantsEoie s o) (trailerOf sha1 s o)).length := by
      unfold gitEncodeIndex
      simp only [requiredVersion_ne4, gitEncodeBlocks, Bool.false_eq_true, if_false, List.append_nil,
        List.length_append]
      omega
    simp only [List.map_cons, List.map_nil, List.sum_cons, List.sum_nil, Nat.add_zero]
    omega
  have := file_roundtrip' sha1 hsha _ threads ht _ false (wantsEoie s o) s.isSparse (writtenTree s o) none _
    (requiredVersion_23 _) hwf hfit' htr hn hsize hno
  simpa only [List.flatten_cons, List.flatten_nil, List.append_nil] using this

end GixModel.C25
