import GixModel.Model.C09
/-
C09 helper lemmas, part 4: the 31-bit / 64-bit offset split of the writers is undone by the
readers, for every offset (no bound on the offsets at this level; the byte layer needs `< 2^64`).
-/
namespace GixModel.C09
open GixModel

theorem and_high_iff (x : Nat) : (x &&& HIGH_BIT = HIGH_BIT) ↔ x.testBit 31 = true := by
  have e : HIGH_BIT = 2 ^ 31 := by decide
  rw [e]
  constructor
  · intro h
    have := congrArg (fun y => y.testBit 31) h
    simp only [Nat.testBit_and, Nat.testBit_two_pow_self, Bool.and_true] at this
    exact this
  · intro h
    apply Nat.eq_of_testBit_eq
    intro i
    rw [Nat.testBit_and, Nat.testBit_two_pow]
    by_cases hi : 31 = i
    · subst hi; simp [h]
    · simp [hi]

theorem testBit31_of_ge {x : Nat} (h1 : 2147483648 ≤ x) (h2 : x < 4294967296) : x.testBit 31 = true := by
  rw [Nat.testBit_eq_decide_div_mod_eq]
  simp; omega

theorem testBit31_of_lt {x : Nat} (h : x < 2147483648) : x.testBit 31 = false :=
  Nat.testBit_lt_two_pow (by simpa using h)

theorem and_high_of_lt {x : Nat} (h : x < 2147483648) : ¬ (x &&& HIGH_BIT = HIGH_BIT) := by
  rw [and_high_iff, testBit31_of_lt h]; simp

theorem and_high_of_ge {x : Nat} (h1 : 2147483648 ≤ x) (h2 : x < 4294967296) : x &&& HIGH_BIT = HIGH_BIT := by
  rw [and_high_iff]; exact testBit31_of_ge h1 h2

theorem or_high {x : Nat} (h : x < 2147483648) : x ||| HIGH_BIT = x + 2147483648 := by
  have e : HIGH_BIT = 2 ^ 31 := by decide
  rw [e]
  have := Nat.two_pow_add_eq_or_of_lt (i := 31) (b := x) (by simpa using h) 1
  simp only [Nat.mul_one] at this
  rw [Nat.or_comm, ← this]; omega

theorem xor_high {y : Nat} (hy : y < 2147483648) : (y + 2147483648) ^^^ HIGH_BIT = y := by
  have e : HIGH_BIT = 2 ^ 31 := by decide
  have e2 : (2147483648 : Nat) = 2 ^ 31 := by decide
  have hy' : y < 2 ^ 31 := by omega
  rw [e, e2, Nat.add_comm]
  apply Nat.eq_of_testBit_eq
  intro i
  rw [Nat.testBit_xor]
  by_cases hi : i = 31
  · subst hi
    rw [Nat.testBit_two_pow_add_eq, Nat.testBit_two_pow_self, Nat.testBit_lt_two_pow hy']
    simp
  · rw [Nat.testBit_two_pow_of_ne (by omega)]
    simp only [Bool.bne_false]
    by_cases h31 : i < 31
    · rw [Nat.testBit_two_pow_add_gt h31]
    · have hi2 : 31 < i := by omega
      have h1 : (2 ^ 31 + y) < 2 ^ i := by
        have : 2 ^ 32 ≤ 2 ^ i := Nat.pow_le_pow_right (by omega) (by omega)
        omega
      have h2 : y < 2 ^ i := by omega
      rw [Nat.testBit_lt_two_pow h1, Nat.testBit_lt_two_pow h2]

/-- number of offsets that need the 64-bit table -/
def countLarge (offs : List Nat) : Nat := (offs.filter (fun o => o > LARGE_OFFSET_THRESHOLD)).length

theorem decodeOffset_cons_succ (v : Nat) (o32 o64 : List Nat) (i : Nat) :
    decodeOffset (v :: o32) o64 (i + 1) = decodeOffset o32 o64 i := by
  simp [decodeOffset]

theorem decodeOffset_zero_large (o32 o64 : List Nat) {k : Nat} (hk : k < 2147483648) :
    decodeOffset ((k + 2147483648) :: o32) o64 0 = o64[k]? := by
  have hand : (k + 2147483648) &&& HIGH_BIT = HIGH_BIT := and_high_of_ge (by omega) (by omega)
  show (some (k + 2147483648)).bind (fun v => if v &&& HIGH_BIT = HIGH_BIT then o64[v ^^^ HIGH_BIT]? else some v) = _
  rw [Option.bind_some, if_pos hand, xor_high hk]

theorem decodeOffset_zero_small (o32 o64 : List Nat) {v : Nat} (hv : v < 2147483648) :
    decodeOffset (v :: o32) o64 0 = some v := by
  show (some v).bind (fun v => if v &&& HIGH_BIT = HIGH_BIT then o64[v ^^^ HIGH_BIT]? else some v) = _
  rw [Option.bind_some, if_neg (and_high_of_lt hv)]

/-- The writer's offset loop never panics while fewer than 2^31-1 large offsets exist, it keeps what
is already in the 64-bit table, and `pack_offset_from_offset_v2` gives every offset back. -/
theorem encodeOffsets_spec :
    ∀ (offs acc : List Nat), acc.length + countLarge offs ≤ LARGE_OFFSET_THRESHOLD →
      ∃ o32 suffix, encodeOffsets offs acc = some (o32, acc ++ suffix) ∧ o32.length = offs.length ∧
        suffix = offs.filter (fun o => o > LARGE_OFFSET_THRESHOLD) ∧ (∀ v ∈ o32, v < 4294967296) ∧
        ∀ (tail : List Nat) (i : Nat) (hi : i < offs.length),
          decodeOffset o32 (acc ++ suffix ++ tail) i = some offs[i] := by
  intro offs
  induction offs with
  | nil => intro acc _; exact ⟨[], [], by simp [encodeOffsets], rfl, rfl, by simp, by intro _ i hi; simp at hi⟩
  | cons o rest ih =>
    intro acc hlen
    by_cases ho : o > LARGE_OFFSET_THRESHOLD
    · have hcl : countLarge (o :: rest) = countLarge rest + 1 := by simp [countLarge, List.filter_cons, ho]
      have hacc : acc.length < LARGE_OFFSET_THRESHOLD := by omega
      obtain ⟨o32, suffix, h1, h2, h3, hb, h4⟩ := ih (acc ++ [o]) (by simp; omega)
      have hT : LARGE_OFFSET_THRESHOLD = 2147483647 := rfl
      have hmod : acc.length % U32 = acc.length := Nat.mod_eq_of_lt (by simp only [U32]; omega)
      have hv' : acc.length % U32 ||| HIGH_BIT = acc.length + 2147483648 := by rw [hmod]; exact or_high (by omega)
      refine ⟨(acc.length % U32 ||| HIGH_BIT) :: o32, o :: suffix, ?_, by simp [h2], ?_, ?_, ?_⟩
      · simp only [encodeOffsets, ho, hacc, if_true, h1, Option.map_some]
        simp
      · simp [List.filter_cons, ho, h3]
      · intro v hv
        rcases List.mem_cons.mp hv with rfl | hv
        · rw [hv']; omega
        · exact hb v hv
      · intro tail i hi
        cases i with
        | zero =>
          have hv : acc.length % U32 ||| HIGH_BIT = acc.length + 2147483648 := by rw [hmod]; exact or_high (by omega)
          rw [hv, decodeOffset_zero_large _ _ (by omega)]
          simp
        | succ j =>
          rw [decodeOffset_cons_succ]
          have := h4 tail j (by simpa using hi)
          simpa using this
    · have hcl : countLarge (o :: rest) = countLarge rest := by simp [countLarge, List.filter_cons, ho]
      obtain ⟨o32, suffix, h1, h2, h3, hb, h4⟩ := ih acc (by omega)
      have hT : LARGE_OFFSET_THRESHOLD = 2147483647 := rfl
      have hmod : o % U32 = o := Nat.mod_eq_of_lt (by simp only [U32]; omega)
      refine ⟨o % U32 :: o32, suffix, ?_, by simp [h2], ?_, ?_, ?_⟩
      · simp only [encodeOffsets, ho, if_false, h1, Option.map_some]
      · simp [List.filter_cons, ho, h3]
      · intro v hv
        rcases List.mem_cons.mp hv with rfl | hv
        · rw [hmod]; omega
        · exact hb v hv
      · intro tail i hi
        cases i with
        | zero =>
          rw [hmod, decodeOffset_zero_small _ _ (by omega)]
          simp
        | succ j =>
          rw [decodeOffset_cons_succ]
          exact h4 tail j (by simpa using hi)

end GixModel.C09
