import GixModel.Lemmas.C52Casc3
/-
C52 — SHORT, UNIX and RAW through the cascade.
-/
namespace GixModel.C52
open GixModel GixModel.Civil

theorem parse_of_cascade_err {text : Bytes} (hm : (text == magicInput) = false)
    (hc : cascade text [0, 1, 2, 3, 4, 5] = some none) : parse text = .err := by
  unfold parse
  rw [hm, order_eq, hc]
  rfl

/-- SHORT: the local day, read back as its midnight UTC (an error if that lies outside jiff's range) -/
theorem short_through_cascade (t : Time) (hr : InRange t) :
    ∃ text, format (.custom Extracted.dateFmtShort) t = .ok text ∧
      parse text = (if (t.seconds + t.offset) / 86400 * 86400 < tsMin ∨ (t.seconds + t.offset) / 86400 * 86400 > tsMax then .err
                    else .ok ⟨(t.seconds + t.offset) / 86400 * 86400, 0, false⟩) := by
  have hb := brokenOk_breakDown t hr
  obtain ⟨p0, _, _, _, _, _, _, _, _, c0⟩ := formats_parsed
  refine ⟨_, format_ok _ _ p0 t hr, ?_⟩
  have hdc := (days_civil_days ((t.seconds + t.offset) / 86400)).2
  have hyear : (breakDown t.seconds t.offset).year = (civilFromDays ((t.seconds + t.offset) / 86400)).1 := rfl
  have hmonth : (breakDown t.seconds t.offset).month = (civilFromDays ((t.seconds + t.offset) / 86400)).2.1 := rfl
  have hday : (breakDown t.seconds t.offset).day = (civilFromDays ((t.seconds + t.offset) / 86400)).2.2 := rfl
  generalize hbd : breakDown t.seconds t.offset = b at *
  have hlen : (strftime shortItems b).length ≠ 19 := by
    have := short_text_length b hb []; omega
  have hpd : parseDate Extracted.dateFmtShort (strftime shortItems b) =
      some (if (t.seconds + t.offset) / 86400 * 86400 < tsMin ∨ (t.seconds + t.offset) / 86400 * 86400 > tsMax then none
            else some ⟨(t.seconds + t.offset) / 86400 * 86400, 0, false⟩) := by
    unfold parseDate
    rw [p0]
    simp only
    have hs : strptime shortItems (strftime shortItems b) = some (applyAll shortItems b {}) := by
      unfold strptime; rw [parseItems_strftime b hb shortItems {} c0]
    rw [hs]
    have hf : applyAll shortItems b {} = { year := some b.year, month := some b.month, day := some b.day } := rfl
    rw [hf]
    simp only
    have hv : validYear b.year = true := by unfold validYear; have := hb.year; simp; omega
    have hdd : ¬ (b.day > daysInMonth b.year b.month) := by have := hb.date.2.2.2; omega
    simp only [hv, Bool.not_true, Bool.false_or, decide_eq_true_eq, hdd, if_false]
    rw [hyear, hmonth, hday, hdc]
    split <;> rfl
  by_cases hout : (t.seconds + t.offset) / 86400 * 86400 < tsMin ∨ (t.seconds + t.offset) / 86400 * 86400 > tsMax
  · rw [if_pos hout] at hpd ⊢
    exact parse_of_cascade_err (ne_magic_of_length hlen) (cascade_hit (by rw [branch0]; exact hpd))
  · rw [if_neg hout] at hpd ⊢
    exact parse_of_cascade (ne_magic_of_length hlen) (cascade_hit (by rw [branch0]; exact hpd))

/-! ### decimal texts (UNIX, RAW) -/

/-- what `parse_number` leaves is the input without a prefix of digits -/
theorem parseNumber_rest (k : Nat) (np : Bool) (inp : Bytes) (n : Nat) (rest : Bytes)
    (h : parseNumber k np inp = some (n, rest)) :
    ∃ j, rest = inp.drop j ∧ ∀ x ∈ inp.take j, isDigit x = true := by
  unfold parseNumber at h
  simp only at h
  generalize hzs : ((inp.take (if np = true then 0 else k)).takeWhile (· == 48)) = zs at h
  generalize hds : ((inp.drop zs.length).take (k - zs.length)).takeWhile isDigitB = ds at h
  by_cases hz : zs.length + ds.length = 0
  · rw [if_pos hz] at h; cases h
  · rw [if_neg hz] at h
    simp only [Option.some.injEq, Prod.mk.injEq] at h
    obtain ⟨_, hrest⟩ := h
    refine ⟨zs.length + ds.length, ?_, ?_⟩
    · rw [← hrest, List.drop_drop]
    · intro x hx
      -- zs is a prefix of inp, ds a prefix of the rest
      have hzpre : zs <+: inp := by
        rw [← hzs]
        exact (List.takeWhile_prefix _).trans (List.take_prefix _ _)
      have hdpre : ds <+: inp.drop zs.length := by
        rw [← hds]
        exact (List.takeWhile_prefix _).trans (List.take_prefix _ _)
      obtain ⟨u, hu⟩ := hzpre
      obtain ⟨v, hv⟩ := hdpre
      have hinp : inp = zs ++ (ds ++ v) := by
        rw [← hu] at hv ⊢
        rw [List.drop_left] at hv
        rw [← hv]
      rw [hinp, ← List.append_assoc, List.take_left' (by simp)] at hx
      rcases List.mem_append.mp hx with hz | hd
      · have := mem_takeWhile_p (· == 48) _ x (by rw [hzs]; exact hz)
        have : x = 48 := by simpa using this
        subst this; decide
      · exact mem_takeWhile_p isDigitB _ x (by rw [hds]; exact hd)

/-- a run of digits followed by nothing or by a blank: no prefix of digits leaves a `-` in front -/
theorem digits_then_blank_no_dash (U T : Bytes) (hU : U.all isDigit = true) (hT : T = [] ∨ ∃ r, T = 32 :: r) (j : Nat)
    (hj : ∀ x ∈ (U ++ T).take j, isDigit x = true) : ∀ r, (U ++ T).drop j ≠ 45 :: r := by
  intro r hr
  have h45 : isDigit 45 = false := by decide
  by_cases hjl : j < U.length
  · -- the head of the rest is a digit of U
    have : (U ++ T).drop j = U.drop j ++ T := by rw [List.drop_append_of_le_length (by omega)]
    rw [this] at hr
    cases hd : U.drop j with
    | nil => have := congrArg List.length hd; rw [List.length_drop] at this; simp at this; omega
    | cons y ys =>
      rw [hd] at hr
      have hy : y ∈ U := List.mem_of_mem_drop (by rw [hd]; simp)
      have := List.all_eq_true.mp hU y hy
      simp only [List.cons_append, List.cons.injEq] at hr
      rw [hr.1] at this; rw [h45] at this; cases this
  · have hge : U.length ≤ j := by omega
    rcases hT with rfl | ⟨r', rfl⟩
    · rw [List.append_nil, List.drop_of_length_le hge] at hr; cases hr
    · by_cases hje : j = U.length
      · subst hje
        rw [List.drop_left] at hr
        simp at hr
      · -- the prefix of length j contains the blank
        have : (32 : UInt8) ∈ (U ++ 32 :: r').take j := by
          have : (U ++ 32 :: r').take j = U ++ (32 :: r').take (j - U.length) := by
            rw [List.take_append, List.take_of_length_le hge]
          rw [this]
          apply List.mem_append_right
          cases hjj : j - U.length with
          | zero => omega
          | succ m => simp
        have := hj 32 this
        revert this; decide

theorem parseItem_lit_fail (f : Fields) (c : UInt8) (inp : Bytes) (hc : isWs c = false) (h : ∀ r, inp ≠ c :: r) :
    parseItem (.lit c) f inp = none := by
  cases inp with
  | nil => simp [parseItem, hc]
  | cons x r =>
    have : (x == c) = false := by
      cases hx : (x == c) with
      | false => rfl
      | true => have : x = c := by simpa using hx
                subst this; exact absurd rfl (h r)
    simp [parseItem, hc, this]

/-- a format that starts `%Y-` rejects a decimal text -/
theorem Ydash_rejects_decimal (rest : List Item) (neg : Bool) (U T : Bytes) (hU : U.all isDigit = true) (hne : U ≠ [])
    (hT : T = [] ∨ ∃ r, T = 32 :: r) :
    parseItems (.Y :: .lit 45 :: rest) {} ((if neg then [45] else []) ++ (U ++ T)) = none := by
  have hos : optSign ((if neg then [45] else []) ++ (U ++ T)) = (neg, U ++ T) := by
    cases neg
    · simp only [Bool.false_eq_true, if_false, List.nil_append]
      cases hUU : U with
      | nil => exact absurd hUU hne
      | cons y ys =>
        have hy : isDigit y = true := by rw [hUU] at hU; simp only [List.all_cons, Bool.and_eq_true] at hU; exact hU.1
        obtain ⟨h45, h43, _⟩ := digit_not_sign hy
        unfold optSign
        simp only [List.cons_append]
        split
        · rename_i h; exact absurd (List.cons.inj h).1 h45
        · rename_i h; exact absurd (List.cons.inj h).1 h43
        · rfl
    · rfl
  have hnonempty : ((if neg then [45] else []) ++ (U ++ T)).isEmpty = false := by
    cases neg
    · cases hUU : U with
      | nil => exact absurd hUU hne
      | cons _ _ => rfl
    · rfl
  simp only [parseItems]
  cases hY : parseItem .Y {} ((if neg then [45] else []) ++ (U ++ T)) with
  | none => rfl
  | some p =>
    obtain ⟨f', inp'⟩ := p
    simp only
    have : ∃ n, parseNumber 4 false (U ++ T) = some (n, inp') := by
      simp only [parseItem, hnonempty, Bool.false_eq_true, if_false, hos] at hY
      cases hp : parseNumber 4 false (U ++ T) with
      | none => rw [hp] at hY; cases hY
      | some q =>
        rw [hp] at hY
        simp only [Option.some.injEq, Prod.mk.injEq] at hY
        exact ⟨q.1, by rw [← hY.2]⟩
    obtain ⟨n, hn⟩ := this
    obtain ⟨j, hj1, hj2⟩ := parseNumber_rest 4 false _ n inp' hn
    have hnd := digits_then_blank_no_dash U T hU hT j hj2
    rw [← hj1] at hnd
    rw [parseItem_lit_fail f' 45 inp' (by decide) hnd]

end GixModel.C52
