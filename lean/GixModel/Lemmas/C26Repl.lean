import GixModel.Lemmas.C26Insert
/-
C26 — stability of the section parser under REPLACEMENT of the text that follows, when that text
starts with `[` (the next section header): the value scanner, key/value pairs, the body loop and
whole sections give the same events whatever comes after the bracket. This is what an insertion
further down the file needs of the sections before it.
-/
namespace GixModel.C26
open GixModel

/-- number of trailing `is_ascii_whitespace` bytes -/
def tw (acc : Bytes) : Nat := acc.length - (trimEnd acc).length

theorem dropWhile_append_len (p : UInt8 → Bool) : ∀ (a b : Bytes), (b.dropWhile p).length ≤ ((a ++ b).dropWhile p).length := by
  intro a
  induction a with
  | nil => intro b; simp
  | cons x a ih =>
    intro b
    simp only [List.cons_append, List.dropWhile_cons]
    split
    · exact ih b
    · have := (List.dropWhile_suffix p (l := b)).length_le
      simp; omega

theorem trimEnd_len_append (acc l : Bytes) : (trimEnd acc).length ≤ (trimEnd (acc ++ l)).length := by
  simp only [trimEnd, List.length_reverse, List.reverse_append]
  exact dropWhile_append_len isAsciiWs l.reverse acc.reverse

theorem tw_append (acc l : Bytes) : tw (acc ++ l) ≤ tw acc + l.length := by
  have := trimEnd_len_append acc l
  have h1 := trimEnd_length_le acc
  have h2 := trimEnd_length_le (acc ++ l)
  simp only [tw, List.length_append] at *
  omega

theorem tw_snoc_nonws (acc : Bytes) (c : UInt8) (h : isAsciiWs c = false) : tw (acc ++ [c]) = 0 := by
  simp [tw, trimEnd, List.reverse_append, List.dropWhile_cons, h]

theorem valueFinish_len {acc rest : Bytes} {inQ part eof : Bool} {em out : List Event} {r : Bytes}
    (h : valueFinish acc rest inQ part eof em = some (out, r)) : r.length ≤ rest.length + tw acc := by
  unfold valueFinish at h
  split at h
  · simp at h
  · split at h
    · simp only [Option.some.injEq, Prod.mk.injEq] at h; rw [← h.2]; omega
    · simp only [Option.some.injEq, Prod.mk.injEq] at h
      rw [← h.2]
      simp [tw]; omega

/-- the scanner never hands back more than the trailing whitespace it started with plus its input -/
theorem valueScan_len : ∀ (i acc : Bytes) (inQ part : Bool) (em out : List Event) (r : Bytes),
    valueScan i acc inQ part em = some (out, r) → r.length ≤ i.length + tw acc := by
  intro i acc inQ part em
  fun_induction valueScan i acc inQ part em <;> intro out r h
  all_goals first
    | (have := valueFinish_len h; simp at this ⊢; omega)
    | (simp at h; done)
    | skip
  · rename_i c acc0 _ _ _ _ _ _
    have := valueFinish_len h
    have h2 := tw_append acc0 [c]
    simp at this h2 ⊢; omega
  all_goals rename_i ih
  all_goals have h1 := ih out r h
  · have : tw ([] : Bytes) = 0 := rfl
    simp at h1 ⊢; omega
  · have : tw ([] : Bytes) = 0 := rfl
    simp at h1 ⊢; omega
  · rename_i c d r0 acc0 _ _ _ _ _ _ _ _ _
    have h2 := tw_append acc0 [c, d]
    simp at h1 h2 ⊢; omega
  · rename_i c d r0 acc0 _ _ _ _ _ _
    have h2 := tw_append acc0 [c]
    simp at h1 h2 ⊢; omega

theorem valueScan_cons2 (c d : UInt8) (r acc : Bytes) (inQ part : Bool) (em : List Event) :
    valueScan (c :: d :: r) acc inQ part em =
      (if c == 10 then valueFinish acc (c :: d :: r) inQ part false em
       else if (c == 59 || c == 35) && !inQ then valueFinish acc (c :: d :: r) inQ part false em
       else if c == 92 then
         (if d == 10 then valueScan r [] inQ true (em ++ [.notDone acc, .newline [10]])
          else if d == 13 then
            (match r with
             | 10 :: r3 => valueScan r3 [] inQ true (em ++ [.notDone acc, .newline [13, 10]])
             | _ => none)
          else if isEscapable d then valueScan r (acc ++ [c, d]) inQ part em
          else none)
       else valueScan (d :: r) (acc ++ [c]) (if c == 34 then !inQ else inQ) part em) := by
  conv => lhs; rw [valueScan.eq_def]
  rfl

theorem valueScan_one (c : UInt8) (acc : Bytes) (inQ part : Bool) (em : List Event) :
    valueScan [c] acc inQ part em =
      (if c == 10 then valueFinish acc [c] inQ part false em
       else if (c == 59 || c == 35) && !inQ then valueFinish acc [c] inQ part false em
       else if c == 92 then none
       else valueFinish (acc ++ [c]) [] (if c == 34 then !inQ else inQ) part true em) := by
  conv => lhs; rw [valueScan.eq_def]

/-- `valueFinish` at a stop byte: the rest is the handed-back whitespace and the untouched input -/
theorem valueFinish_false {acc rest : Bytes} {inQ part : Bool} {em out : List Event} {r : Bytes}
    (h : valueFinish acc rest inQ part false em = some (out, r)) :
    r = acc.drop (trimEnd acc).length ++ rest ∧
      ∀ rest', valueFinish acc rest' inQ part false em = some (out, acc.drop (trimEnd acc).length ++ rest') := by
  unfold valueFinish at h ⊢
  split at h
  · simp at h
  · rename_i hq
    simp only [Bool.false_and, Bool.false_eq_true, ↓reduceIte, Option.some.injEq, Prod.mk.injEq] at h
    obtain ⟨rfl, rfl⟩ := h
    refine ⟨rfl, ?_⟩
    intro rest'
    simp [hq]

theorem append_bracket_cancel {B r c1 : Bytes} (h : r = B ++ 91 :: c1) : c1.length < r.length := by
  rw [h]; simp; omega

/-- the value scanner before a `[`: if what it hands back still contains the bracket, it stopped
before it, and does the same whatever follows the bracket -/
theorem valueScan_repl (c1 : Bytes) : ∀ (n : Nat) (X : Bytes), X.length ≤ n →
    ∀ (acc : Bytes) (inQ part : Bool) (em out : List Event) (r : Bytes),
    valueScan (X ++ 91 :: c1) acc inQ part em = some (out, r) → c1.length < r.length →
    ∃ B, r = B ++ 91 :: c1 ∧ ∀ c1', valueScan (X ++ 91 :: c1') acc inQ part em = some (out, B ++ 91 :: c1') := by
  intro n
  induction n with
  | zero =>
    intro X hX acc inQ part em out r h hlen
    have : X = [] := List.eq_nil_of_length_eq_zero (by omega)
    subst this
    exfalso
    simp only [List.nil_append] at h
    have e10 : ((91 : UInt8) == 10) = false := by decide
    have e59 : ((91 : UInt8) == 59 || (91 : UInt8) == 35) = false := by decide
    have e92 : ((91 : UInt8) == 92) = false := by decide
    have e34 : ((91 : UInt8) == 34) = false := by decide
    cases c1 with
    | nil =>
      rw [valueScan_one] at h
      simp only [e10, e59, e92, e34, Bool.false_and, Bool.false_eq_true, ↓reduceIte] at h
      have := valueFinish_len h
      rw [tw_snoc_nonws acc 91 (by decide)] at this
      simp only [List.length_nil] at this hlen
      omega
    | cons d c2 =>
      rw [valueScan_cons2] at h
      simp only [e10, e59, e92, e34, Bool.false_and, Bool.false_eq_true, ↓reduceIte] at h
      have := valueScan_len _ _ _ _ _ _ _ h
      rw [tw_snoc_nonws acc 91 (by decide)] at this
      simp only [List.length_cons] at this hlen
      omega
  | succ n ih =>
    intro X hX acc inQ part em out r h hlen
    match X, hX with
    | [], hX => exact ih [] (by simp) acc inQ part em out r h hlen
    | [x], hX =>
      simp only [List.cons_append, List.nil_append] at h ⊢
      rw [valueScan_cons2] at h
      by_cases h10 : (x == 10) = true
      · simp only [h10, ↓reduceIte] at h
        obtain ⟨hr, hall⟩ := valueFinish_false h
        refine ⟨acc.drop (trimEnd acc).length ++ [x], by simp [hr], ?_⟩
        intro c1'
        rw [valueScan_cons2]
        simp only [h10, ↓reduceIte]
        rw [hall]; simp
      · simp only [h10, Bool.false_eq_true, ↓reduceIte] at h
        by_cases hcm : ((x == 59 || x == 35) && !inQ) = true
        · simp only [hcm, ↓reduceIte] at h
          obtain ⟨hr, hall⟩ := valueFinish_false h
          refine ⟨acc.drop (trimEnd acc).length ++ [x], by simp [hr], ?_⟩
          intro c1'
          rw [valueScan_cons2]
          simp only [h10, hcm, Bool.false_eq_true, ↓reduceIte]
          rw [hall]; simp
        · simp only [hcm, Bool.false_eq_true, ↓reduceIte] at h
          by_cases h92 : (x == 92) = true
          · simp [h92, isEscapable] at h
          · simp only [h92, Bool.false_eq_true, ↓reduceIte] at h
            obtain ⟨B, hB, hall⟩ := ih [] (by simp) _ _ _ _ _ _ h hlen
            refine ⟨B, hB, ?_⟩
            intro c1'
            rw [valueScan_cons2]
            simp only [h10, hcm, h92, Bool.false_eq_true, ↓reduceIte]
            exact hall c1'
    | x :: y :: X2, hX =>
      simp only [List.cons_append] at h ⊢
      rw [valueScan_cons2] at h
      have hX2 : X2.length ≤ n := by simp at hX; omega
      have hyX2 : (y :: X2).length ≤ n := by simp at hX ⊢; omega
      by_cases h10 : (x == 10) = true
      · simp only [h10, ↓reduceIte] at h
        obtain ⟨hr, hall⟩ := valueFinish_false h
        refine ⟨acc.drop (trimEnd acc).length ++ x :: y :: X2, by simp [hr], ?_⟩
        intro c1'
        rw [valueScan_cons2]
        simp only [h10, ↓reduceIte]
        rw [hall]; simp
      · simp only [h10, Bool.false_eq_true, ↓reduceIte] at h
        by_cases hcm : ((x == 59 || x == 35) && !inQ) = true
        · simp only [hcm, ↓reduceIte] at h
          obtain ⟨hr, hall⟩ := valueFinish_false h
          refine ⟨acc.drop (trimEnd acc).length ++ x :: y :: X2, by simp [hr], ?_⟩
          intro c1'
          rw [valueScan_cons2]
          simp only [h10, hcm, Bool.false_eq_true, ↓reduceIte]
          rw [hall]; simp
        · simp only [hcm, Bool.false_eq_true, ↓reduceIte] at h
          by_cases h92 : (x == 92) = true
          · simp only [h92, ↓reduceIte] at h
            by_cases hy10 : (y == 10) = true
            · simp only [hy10, ↓reduceIte] at h
              obtain ⟨B, hB, hall⟩ := ih X2 hX2 _ _ _ _ _ _ h hlen
              refine ⟨B, hB, ?_⟩
              intro c1'
              rw [valueScan_cons2]
              simp only [h10, hcm, h92, hy10, Bool.false_eq_true, ↓reduceIte]
              exact hall c1'
            · simp only [hy10, Bool.false_eq_true, ↓reduceIte] at h
              by_cases hy13 : (y == 13) = true
              · simp only [hy13, ↓reduceIte] at h
                cases X2 with
                | nil => simp at h
                | cons z X3 =>
                  by_cases hz : z = 10
                  · subst hz
                    simp only [List.cons_append] at h
                    have hX3 : X3.length ≤ n := by simp at hX2; omega
                    obtain ⟨B, hB, hall⟩ := ih X3 hX3 _ _ _ _ _ _ h hlen
                    refine ⟨B, hB, ?_⟩
                    intro c1'
                    rw [valueScan_cons2]
                    simp only [h10, hcm, h92, hy10, hy13, Bool.false_eq_true, ↓reduceIte, List.cons_append]
                    exact hall c1'
                  · exfalso
                    simp only [List.cons_append] at h
                    split at h
                    · rename_i heq; simp at heq; exact hz heq.1
                    · simp at h
              · simp only [hy13, Bool.false_eq_true, ↓reduceIte] at h
                by_cases hesc : isEscapable y = true
                · simp only [hesc, ↓reduceIte] at h
                  obtain ⟨B, hB, hall⟩ := ih X2 hX2 _ _ _ _ _ _ h hlen
                  refine ⟨B, hB, ?_⟩
                  intro c1'
                  rw [valueScan_cons2]
                  simp only [h10, hcm, h92, hy10, hy13, hesc, Bool.false_eq_true, ↓reduceIte]
                  exact hall c1'
                · simp [hesc] at h
          · simp only [h92, Bool.false_eq_true, ↓reduceIte] at h
            obtain ⟨B, hB, hall⟩ := ih (y :: X2) hyX2 _ _ _ _ _ _ h hlen
            refine ⟨B, hB, ?_⟩
            intro c1'
            rw [valueScan_cons2]
            simp only [h10, hcm, h92, Bool.false_eq_true, ↓reduceIte]
            exact hall c1'

/-! ### the other tokens before a `[` -/

theorem dropWhile_len_le (p : UInt8 → Bool) (l : Bytes) : (l.dropWhile p).length ≤ l.length :=
  (List.dropWhile_suffix p (l := l)).length_le

/-- `take_while` before a `[`: it stops at or before the bracket (always, when the bracket fails
the predicate; otherwise when the rest is long enough to contain it) -/
theorem spanP_rp (p : UInt8 → Bool) (c1 : Bytes) : ∀ (X w r : Bytes), spanP p (X ++ 91 :: c1) = (w, r) →
    (p 91 = false ∨ c1.length < r.length) →
    ∃ B, r = B ++ 91 :: c1 ∧ X = w ++ B ∧ ∀ c1', spanP p (X ++ 91 :: c1') = (w, B ++ 91 :: c1') := by
  intro X
  induction X with
  | nil =>
    intro w r h hc
    simp only [List.nil_append] at h ⊢
    by_cases hp : p 91 = true
    · exfalso
      rcases hc with hc | hc
      · rw [hp] at hc; simp at hc
      · simp only [spanP, List.takeWhile_cons, hp, ↓reduceIte, List.dropWhile_cons, Prod.mk.injEq] at h
        rw [← h.2] at hc
        have := dropWhile_len_le p c1
        omega
    · have hp' : p 91 = false := by simpa using hp
      simp only [spanP, List.takeWhile_cons, hp', Bool.false_eq_true, ↓reduceIte, List.dropWhile_cons, Prod.mk.injEq] at h
      obtain ⟨rfl, rfl⟩ := h
      exact ⟨[], rfl, rfl, fun c1' => by simp [spanP, List.takeWhile_cons, List.dropWhile_cons, hp']⟩
  | cons x X ih =>
    intro w r h hc
    by_cases hx : p x = true
    · simp only [List.cons_append, spanP, List.takeWhile_cons, hx, ↓reduceIte, List.dropWhile_cons, Prod.mk.injEq] at h
      obtain ⟨rfl, h2⟩ := h
      obtain ⟨B, hB, hXB, hall⟩ := ih (List.takeWhile p (X ++ 91 :: c1)) r (by simp [spanP, h2]) hc
      refine ⟨B, hB, by simp only [List.cons_append]; rw [← hXB], ?_⟩
      intro c1'
      have := hall c1'
      simp only [spanP, Prod.mk.injEq] at this
      simp [spanP, List.takeWhile_cons, List.dropWhile_cons, hx, this.1, this.2]
    · simp only [List.cons_append, spanP, List.takeWhile_cons, hx, Bool.false_eq_true, ↓reduceIte, List.dropWhile_cons,
        Prod.mk.injEq] at h
      obtain ⟨rfl, rfl⟩ := h
      exact ⟨x :: X, rfl, rfl, fun c1' => by simp [spanP, List.takeWhile_cons, List.dropWhile_cons, hx]⟩

theorem optSpaces_rp (c1 : Bytes) (X : Bytes) (a1 : List Event) (r : Bytes) (h : optSpaces (X ++ 91 :: c1) = (a1, r)) :
    ∃ B, r = B ++ 91 :: c1 ∧ ∀ c1', optSpaces (X ++ 91 :: c1') = (a1, B ++ 91 :: c1') := by
  unfold optSpaces takeSpaces1 at h
  simp only at h
  generalize hsp : spanP isSpace (X ++ 91 :: c1) = q at h
  obtain ⟨w, r0⟩ := q
  obtain ⟨B, hB, hXB, hall⟩ := spanP_rp isSpace c1 X w r0 hsp (Or.inl (by decide))
  simp only at h
  by_cases he : w.isEmpty = true
  · simp only [he, ↓reduceIte, Prod.mk.injEq] at h
    obtain ⟨rfl, rfl⟩ := h
    have hw : w = [] := by simpa using he
    subst hw
    simp only [List.nil_append] at hXB
    subst hXB
    refine ⟨X, rfl, ?_⟩
    intro c1'
    unfold optSpaces takeSpaces1
    simp only [hall c1', List.isEmpty_nil, ↓reduceIte]
  · simp only [he, Bool.false_eq_true, ↓reduceIte, Prod.mk.injEq] at h
    obtain ⟨rfl, rfl⟩ := h
    refine ⟨B, hB, ?_⟩
    intro c1'
    unfold optSpaces takeSpaces1
    simp only [hall c1', he, Bool.false_eq_true, ↓reduceIte]

theorem configName_rp (c1 : Bytes) (X : Bytes) :
    (configName (X ++ 91 :: c1) = none ∧ ∀ c1', configName (X ++ 91 :: c1') = none) ∨
    (∃ n B, configName (X ++ 91 :: c1) = some (n, B ++ 91 :: c1) ∧ ∀ c1', configName (X ++ 91 :: c1') = some (n, B ++ 91 :: c1')) := by
  cases X with
  | nil => left; simp [configName, isAlpha]
  | cons x X' =>
    simp only [List.cons_append, configName]
    by_cases hx : isAlpha x = true
    · right
      generalize hsp : spanP isNameChar (X' ++ 91 :: c1) = q
      obtain ⟨w, r0⟩ := q
      obtain ⟨B, hB, _, hall⟩ := spanP_rp isNameChar c1 X' w r0 hsp (Or.inl (by decide))
      refine ⟨x :: w, B, by simp [hx, hB], ?_⟩
      intro c1'
      simp [hx, hall c1']
    · left; simp [hx]

theorem optComment_rp (c1 : Bytes) (X : Bytes) (cm : List Event) (r : Bytes) (h : optComment (X ++ 91 :: c1) = (cm, r))
    (hlen : c1.length < r.length) :
    ∃ B, r = B ++ 91 :: c1 ∧ ∀ c1', optComment (X ++ 91 :: c1') = (cm, B ++ 91 :: c1') := by
  unfold optComment at h ⊢
  cases X with
  | nil =>
    have e1 : ((91 : UInt8) == 59 || (91 : UInt8) == 35) = false := by decide
    simp only [List.nil_append, comment, e1, Bool.false_eq_true, ↓reduceIte, Prod.mk.injEq] at h ⊢
    obtain ⟨rfl, rfl⟩ := h
    exact ⟨[], rfl, fun _ => ⟨rfl, rfl⟩⟩
  | cons x X' =>
    simp only [List.cons_append, comment] at h ⊢
    by_cases hx : (x == 59 || x == 35) = true
    · simp only [hx, ↓reduceIte] at h ⊢
      generalize hsp : spanP (fun b => b != 10) (X' ++ 91 :: c1) = q at h
      obtain ⟨w, r0⟩ := q
      simp only [Prod.mk.injEq] at h
      obtain ⟨rfl, rfl⟩ := h
      obtain ⟨B, hB, _, hall⟩ := spanP_rp (fun b => b != 10) c1 X' w r0 hsp (Or.inr hlen)
      refine ⟨B, hB, ?_⟩
      intro c1'
      simp only [hall c1']
    · simp only [hx, Bool.false_eq_true, ↓reduceIte, Prod.mk.injEq] at h ⊢
      obtain ⟨rfl, rfl⟩ := h
      exact ⟨x :: X', rfl, fun _ => ⟨rfl, rfl⟩⟩

theorem takeNewlines_rp (c1 : Bytes) : ∀ (n : Nat) (X w r : Bytes), takeNewlines n (X ++ 91 :: c1) = (w, r) →
    ∃ B, r = B ++ 91 :: c1 ∧ X = w ++ B := by
  intro n
  induction n with
  | zero =>
    intro X w r h
    simp only [takeNewlines, Prod.mk.injEq] at h
    obtain ⟨rfl, rfl⟩ := h
    exact ⟨X, rfl, rfl⟩
  | succ n ih =>
    intro X w r h
    match X with
    | [] =>
      simp only [List.nil_append, takeNewlines_bracket, Prod.mk.injEq] at h
      obtain ⟨rfl, rfl⟩ := h
      exact ⟨[], rfl, rfl⟩
    | [x] =>
      by_cases hx : x = 10
      · subst hx
        simp only [List.cons_append, List.nil_append, takeNewlines, takeNewlines_bracket, Prod.mk.injEq] at h
        obtain ⟨rfl, rfl⟩ := h
        exact ⟨[], rfl, rfl⟩
      · simp only [List.cons_append, List.nil_append] at h
        rw [takeNewlines_fall hx (by intro hh; exact absurd hh.2 (by decide)) n c1] at h
        simp only [Prod.mk.injEq] at h
        obtain ⟨rfl, rfl⟩ := h
        exact ⟨[x], rfl, rfl⟩
    | x :: y :: X2 =>
      by_cases hx : x = 10
      · subst hx
        simp only [List.cons_append, takeNewlines, Prod.mk.injEq] at h
        obtain ⟨rfl, h2⟩ := h
        obtain ⟨B, hB, hXB⟩ := ih (y :: X2) _ r (Prod.ext rfl h2)
        exact ⟨B, hB, by simp only [List.cons_append] at hXB ⊢; rw [← hXB]⟩
      · by_cases hxy : x = 13 ∧ y = 10
        · obtain ⟨rfl, rfl⟩ := hxy
          simp only [List.cons_append, takeNewlines, Prod.mk.injEq] at h
          obtain ⟨rfl, h2⟩ := h
          obtain ⟨B, hB, hXB⟩ := ih X2 _ r (Prod.ext rfl h2)
          exact ⟨B, hB, by simp only [List.cons_append]; rw [← hXB]⟩
        · simp only [List.cons_append] at h
          rw [takeNewlines_fall hx hxy n] at h
          simp only [Prod.mk.injEq] at h
          obtain ⟨rfl, rfl⟩ := h
          exact ⟨x :: y :: X2, rfl, rfl⟩

theorem optNewlines_rp (c1 : Bytes) (X : Bytes) (b1 : List Event) (r : Bytes) (h : optNewlines (X ++ 91 :: c1) = (b1, r)) :
    ∃ B, r = B ++ 91 :: c1 ∧ ∀ c1', optNewlines (X ++ 91 :: c1') = (b1, B ++ 91 :: c1') := by
  unfold optNewlines takeNewlines1 at h
  simp only at h
  generalize htn : takeNewlines 1023 (X ++ 91 :: c1) = q at h
  obtain ⟨w, r0⟩ := q
  obtain ⟨B, hB, hXB⟩ := takeNewlines_rp c1 1023 X w r0 htn
  subst hB
  have hall : ∀ c1', takeNewlines 1023 (X ++ 91 :: c1') = (w, B ++ 91 :: c1') :=
    fun c1' => takeNewlines_repl 1023 X c1 c1' w B htn hXB
  simp only at h
  by_cases he : w.isEmpty = true
  · simp only [he, ↓reduceIte, Prod.mk.injEq] at h
    obtain ⟨rfl, rfl⟩ := h
    have hw : w = [] := by simpa using he
    subst hw
    simp only [List.nil_append] at hXB
    subst hXB
    refine ⟨X, rfl, ?_⟩
    intro c1'
    unfold optNewlines takeNewlines1
    simp only [hall c1', List.isEmpty_nil, ↓reduceIte]
  · simp only [he, Bool.false_eq_true, ↓reduceIte, Prod.mk.injEq] at h
    obtain ⟨rfl, rfl⟩ := h
    refine ⟨B, rfl, ?_⟩
    intro c1'
    unfold optNewlines takeNewlines1
    simp only [hall c1', he, Bool.false_eq_true, ↓reduceIte]

/-! ### key/value pairs, the body loop, whole sections -/

theorem configValue_rp (c1 : Bytes) (X : Bytes) (out : List Event) (r : Bytes)
    (h : configValue (X ++ 91 :: c1) = some (out, r)) (hlen : c1.length < r.length) :
    ∃ B, r = B ++ 91 :: c1 ∧ ∀ c1', configValue (X ++ 91 :: c1') = some (out, B ++ 91 :: c1') := by
  cases X with
  | nil =>
    simp only [List.nil_append] at h ⊢
    have e : ∀ z, configValue (91 :: z) = some ([.value []], 91 :: z) := by
      intro z
      rw [configValue.eq_def]
      split
      · rename_i heq; simp at heq
      · rfl
    rw [e] at h
    simp only [Option.some.injEq, Prod.mk.injEq] at h
    obtain ⟨rfl, rfl⟩ := h
    exact ⟨[], rfl, fun c1' => e c1'⟩
  | cons x X' =>
    by_cases hx : x = 61
    · subst hx
      simp only [List.cons_append, configValue] at h ⊢
      generalize hos : optSpaces (X' ++ 91 :: c1) = q at h
      obtain ⟨w1, i⟩ := q
      obtain ⟨B0, hB0, hall0⟩ := optSpaces_rp c1 X' w1 i hos
      subst hB0
      simp only at h
      obtain ⟨B, hB, hall⟩ := valueScan_repl c1 B0.length B0 (Nat.le_refl _) _ _ _ _ _ _ h hlen
      refine ⟨B, hB, ?_⟩
      intro c1'
      rw [hall0 c1']
      exact hall c1'
    · have e : ∀ z, configValue (x :: z) = some ([.value []], x :: z) := by
        intro z
        rw [configValue.eq_def]
        split
        · rename_i heq; simp at heq; exact absurd heq.1 hx
        · rfl
      simp only [List.cons_append] at h ⊢
      rw [e] at h
      simp only [Option.some.injEq, Prod.mk.injEq] at h
      obtain ⟨rfl, rfl⟩ := h
      exact ⟨x :: X', rfl, fun c1' => e _⟩

theorem keyValuePair_rp (c1 : Bytes) (X : Bytes) (kv : List Event) (r : Bytes)
    (h : keyValuePair (X ++ 91 :: c1) = some (kv, r)) (hlen : c1.length < r.length) :
    ∃ B, r = B ++ 91 :: c1 ∧ ∀ c1', keyValuePair (X ++ 91 :: c1') = some (kv, B ++ 91 :: c1') := by
  unfold keyValuePair at h ⊢
  rcases configName_rp c1 X with ⟨hn, hnall⟩ | ⟨n, B0, hn, hnall⟩
  · simp only [hn, Option.some.injEq, Prod.mk.injEq] at h
    obtain ⟨rfl, rfl⟩ := h
    exact ⟨X, rfl, fun c1' => by simp [hnall c1']⟩
  · simp only [hn] at h
    generalize hos : optSpaces (B0 ++ 91 :: c1) = q at h
    obtain ⟨w1, i⟩ := q
    obtain ⟨B1, hB1, hall1⟩ := optSpaces_rp c1 B0 w1 i hos
    subst hB1
    simp only at h
    cases hv : configValue (B1 ++ 91 :: c1) with
    | none => simp [hv] at h
    | some q2 =>
      obtain ⟨evs, r2⟩ := q2
      simp only [hv, Option.some.injEq, Prod.mk.injEq] at h
      obtain ⟨rfl, rfl⟩ := h
      obtain ⟨B, hB, hall⟩ := configValue_rp c1 B1 evs r2 hv hlen
      refine ⟨B, hB, ?_⟩
      intro c1'
      simp only [hnall c1', hall1 c1', hall c1']

theorem bodyIter_rp (c1 : Bytes) (X : Bytes) (evs : List Event) (r : Bytes)
    (h : bodyIter (X ++ 91 :: c1) = some (evs, r)) (hlen : c1.length < r.length) :
    ∃ B, r = B ++ 91 :: c1 ∧ ∀ c1', bodyIter (X ++ 91 :: c1') = some (evs, B ++ 91 :: c1') := by
  unfold bodyIter at h ⊢
  simp only at h ⊢
  generalize hos : optSpaces (X ++ 91 :: c1) = q at h
  obtain ⟨a1, i1⟩ := q
  obtain ⟨B1, hB1, hall1⟩ := optSpaces_rp c1 X a1 i1 hos
  subst hB1
  simp only at h
  generalize hon : optNewlines (B1 ++ 91 :: c1) = q2 at h
  obtain ⟨b1, i2⟩ := q2
  obtain ⟨B2, hB2, hall2⟩ := optNewlines_rp c1 B1 b1 i2 hon
  subst hB2
  simp only at h
  cases hk : keyValuePair (B2 ++ 91 :: c1) with
  | none => simp [hk] at h
  | some q3 =>
    obtain ⟨kv, r1⟩ := q3
    simp only [hk, Option.some.injEq, Prod.mk.injEq] at h
    obtain ⟨rfl, hr⟩ := h
    have hle := length_le_of_ok (optComment_ok r1)
    rw [hr] at hle
    obtain ⟨B3, hB3, hall3⟩ := keyValuePair_rp c1 B2 kv r1 hk (by omega)
    subst hB3
    obtain ⟨B, hB, hall⟩ := optComment_rp c1 B3 _ r (Prod.ext rfl hr) hlen
    refine ⟨B, hB, ?_⟩
    intro c1'
    simp only [hall1 c1', hall2 c1', hall3 c1', hall c1']

theorem bodyLoop_rp (c1 : Bytes) : ∀ (f : Nat) (X : Bytes) (evs : List Event) (r : Bytes),
    bodyLoop f (X ++ 91 :: c1) = some (evs, r) → (X ++ 91 :: c1).length < f → c1.length < r.length →
    ∃ B, r = B ++ 91 :: c1 ∧ ∀ c1' g, (X ++ 91 :: c1').length < g →
      bodyLoop g (X ++ 91 :: c1') = some (evs, B ++ 91 :: c1') := by
  intro f
  induction f with
  | zero => intro X evs r _ hf; omega
  | succ f ih =>
    intro X evs r h hf hlen
    simp only [bodyLoop] at h
    cases hbi : bodyIter (X ++ 91 :: c1) with
    | none => simp [hbi] at h
    | some p =>
      obtain ⟨e1, r1⟩ := p
      simp only [hbi] at h
      have hle1 := length_le_of_ok (bodyIter_ok hbi)
      by_cases hprog : r1.length = (X ++ 91 :: c1).length
      · simp only [hprog, beq_self_eq_true, ↓reduceIte, Option.some.injEq, Prod.mk.injEq] at h
        obtain ⟨rfl, rfl⟩ := h
        obtain ⟨B, hB, hall⟩ := bodyIter_rp c1 X e1 r1 hbi hlen
        subst hB
        refine ⟨B, rfl, ?_⟩
        intro c1' g hg
        obtain ⟨g', rfl⟩ : ∃ g', g = g' + 1 := ⟨g - 1, by omega⟩
        have : ((B ++ 91 :: c1').length == (X ++ 91 :: c1').length) = true := by
          simp only [List.length_append, List.length_cons] at hprog ⊢
          simp; omega
        simp only [bodyLoop, hall c1', this, ↓reduceIte]
      · have hne : (r1.length == (X ++ 91 :: c1).length) = false := by simpa using hprog
        simp only [hne, Bool.false_eq_true, ↓reduceIte] at h
        cases hbl : bodyLoop f r1 with
        | none => simp [hbl] at h
        | some q =>
          obtain ⟨more, r'⟩ := q
          simp only [hbl, Option.some.injEq, Prod.mk.injEq] at h
          obtain ⟨rfl, rfl⟩ := h
          have hle := length_le_of_ok (bodyLoop_ok _ _ _ _ hbl)
          obtain ⟨B1, hB1, hall1⟩ := bodyIter_rp c1 X e1 r1 hbi (by omega)
          subst hB1
          obtain ⟨B, hB, hall⟩ := ih B1 more r' hbl (by omega) hlen
          refine ⟨B, hB, ?_⟩
          intro c1' g hg
          obtain ⟨g', rfl⟩ : ∃ g', g = g' + 1 := ⟨g - 1, by omega⟩
          have hlt : (B1 ++ 91 :: c1').length < (X ++ 91 :: c1').length := by
            simp only [List.length_append, List.length_cons] at hprog hle1 ⊢
            omega
          have : ((B1 ++ 91 :: c1').length == (X ++ 91 :: c1').length) = false := by
            simp only [beq_eq_false_iff_ne, ne_eq]; omega
          simp only [bodyLoop, hall1 c1', this, Bool.false_eq_true, ↓reduceIte, hall c1' g' (by omega)]

/-- a whole section before a `[`: the same events whatever follows the bracket -/
theorem sectionRaw_rp (c1 : Bytes) (X : Bytes) (evs : List Event) (r : Bytes)
    (h : sectionRaw (X ++ 91 :: c1) = some (evs, r)) (hlen : c1.length < r.length) :
    ∃ B, r = B ++ 91 :: c1 ∧ ∀ c1', sectionRaw (X ++ 91 :: c1') = some (evs, B ++ 91 :: c1') := by
  unfold sectionRaw at h
  cases hh : sectionHeaderRaw (X ++ 91 :: c1) with
  | none => simp [hh] at h
  | some p =>
    obtain ⟨hd, Y⟩ := p
    simp only [hh] at h
    cases hb : bodyLoop (Y.length + 1) Y with
    | none => simp [hb] at h
    | some q =>
      obtain ⟨body, r'⟩ := q
      simp only [hb, Option.some.injEq, Prod.mk.injEq] at h
      obtain ⟨rfl, rfl⟩ := h
      have hok := sectionHeaderRaw_ok hh
      have hle := length_le_of_ok (bodyLoop_ok _ _ _ _ hb)
      -- the header's rest still contains the bracket
      have hYlen : c1.length < Y.length := by omega
      obtain ⟨Y0, hY0⟩ : ∃ Y0, Y = Y0 ++ 91 :: c1 := by
        have hl : (hd.writeWith id).length ≤ X.length := by
          have := congrArg List.length hok
          simp only [List.length_append, List.length_cons] at this
          omega
        refine ⟨X.drop (hd.writeWith id).length, ?_⟩
        have h1 : (X ++ 91 :: c1).drop (hd.writeWith id).length = Y := by
          rw [← hok]; simp
        rw [← h1, List.drop_append_of_le_length hl]
      subst hY0
      obtain ⟨B, hB, hall⟩ := bodyLoop_rp c1 _ Y0 body r' hb (by omega) hlen
      refine ⟨B, hB, ?_⟩
      intro c1'
      have hX : X = hd.writeWith id ++ Y0 := by
        have : (hd.writeWith id ++ Y0) ++ 91 :: c1 = X ++ 91 :: c1 := by simpa using hok
        exact (List.append_cancel_right this).symm
      unfold sectionRaw
      have hh' := sectionHeaderRaw_repl hh (Y0 ++ 91 :: c1')
      rw [hX, List.append_assoc, hh']
      simp only [hall c1' _ (Nat.lt_succ_self _)]

/-! ### a newline inserted after ANY section header -/

theorem sectionRaw_shape {a r : Bytes} {evs : List Event} (h : sectionRaw a = some (evs, r)) :
    ∃ hd body, evs = .header hd :: body ∧ ∀ x ∈ body, isHeaderEv x = false := by
  unfold sectionRaw at h
  cases hh : sectionHeaderRaw a with
  | none => simp [hh] at h
  | some p =>
    obtain ⟨hd, Y⟩ := p
    simp only [hh] at h
    cases hb : bodyLoop (Y.length + 1) Y with
    | none => simp [hb] at h
    | some q =>
      obtain ⟨body, r'⟩ := q
      simp only [hb, Option.some.injEq, Prod.mk.injEq] at h
      obtain ⟨rfl, rfl⟩ := h
      exact ⟨hd, body, rfl, bodyLoop_no_header _ _ _ _ hb⟩

theorem sectionsRaw_head : ∀ (f : Nat) (r : Bytes) (more : List Event), sectionsRaw f r = some more →
    (r = [] ∧ more = []) ∨ (r ≠ [] ∧ ∃ h2 m2, more = .header h2 :: m2) := by
  intro f r more h
  by_cases hr : r = []
  · subst hr
    left
    cases f <;> simp [sectionsRaw] at h <;> exact ⟨rfl, h⟩
  · right
    refine ⟨hr, ?_⟩
    have hre : r.isEmpty = false := by simpa using hr
    cases f with
    | zero => simp [sectionsRaw, hre] at h
    | succ f =>
      simp only [sectionsRaw, hre, Bool.false_eq_true, ↓reduceIte] at h
      cases hs : sectionRaw r with
      | none => simp [hs] at h
      | some q =>
        obtain ⟨e1, r1⟩ := q
        simp only [hs, Option.map_eq_some_iff] at h
        obtain ⟨m, _, rfl⟩ := h
        obtain ⟨hd, body, rfl, _⟩ := sectionRaw_shape hs
        exact ⟨hd, body ++ m, rfl⟩

theorem split_body_header : ∀ (body pre1 : List Event) (h2 hr : Header) (m2 post : List Event),
    (∀ x ∈ body, isHeaderEv x = false) → body ++ .header h2 :: m2 = pre1 ++ .header hr :: post →
    (pre1 = body ∧ h2 = hr ∧ m2 = post) ∨ (∃ p2, pre1 = body ++ .header h2 :: p2 ∧ m2 = p2 ++ .header hr :: post) := by
  intro body
  induction body with
  | nil =>
    intro pre1 h2 hr m2 post _ h
    cases pre1 with
    | nil => left; simpa using h
    | cons e p =>
      right
      simp only [List.nil_append, List.cons_append, List.cons.injEq] at h
      obtain ⟨rfl, rfl⟩ := h
      exact ⟨p, by simp, rfl⟩
  | cons b body ih =>
    intro pre1 h2 hr m2 post hb h
    cases pre1 with
    | nil =>
      exfalso
      simp only [List.cons_append, List.nil_append, List.cons.injEq] at h
      have := hb b (by simp)
      rw [h.1] at this; simp [isHeaderEv] at this
    | cons e p =>
      simp only [List.cons_append, List.cons.injEq] at h
      obtain ⟨rfl, h'⟩ := h
      rcases ih p h2 hr m2 post (fun x hx => hb x (by simp [hx])) h' with ⟨rfl, rfl, rfl⟩ | ⟨p2, rfl, rfl⟩
      · exact Or.inl ⟨rfl, rfl, rfl⟩
      · exact Or.inr ⟨p2, rfl, rfl⟩

/-- sections parsed from a text that starts with `[`, as a whole-text parse -/
theorem parseRaw_of_sectionsRaw {a : Bytes} {c : Bytes} (ha : a = 91 :: c) :
    parseRaw a = sectionsRaw a.length a := by
  unfold parseRaw
  have : bomLen a = 0 := by rw [ha]; exact bomLen_of_noBomHead _ (by simp [noBomHead])
  rw [this]
  simp only [List.drop_zero]
  rw [ha, frontLoop_bracket]
  simp only [List.isEmpty_cons, Bool.false_eq_true, ↓reduceIte, List.nil_append]
  cases sectionsRaw (91 :: c).length (91 :: c) with
  | none => rfl
  | some x => simp

def StartsH (pre : List Event) : Prop := pre = [] ∨ ∃ h p, pre = .header h :: p

theorem renderRaw_header_head (h : Header) (p : List Event) (z : Bytes) : ∃ c, renderRaw (.header h :: p) ++ z = 91 :: c := by
  obtain ⟨c, hc⟩ := writeWith_head h (renderRaw p ++ z)
  exact ⟨c, by simp only [renderRaw, List.flatMap_cons, Event.writeRaw, Event.writeWith, List.append_assoc] at hc ⊢; exact hc⟩

theorem sectionsRaw_insK {t : Bytes} (ht : NL t) : ∀ (f : Nat) (a : Bytes) (pre post : List Event) (hr : Header),
    sectionsRaw f a = some (pre ++ .header hr :: post) → a.length ≤ f → StartsH pre →
    takeNewlines1 (renderRaw post) = none →
    ∀ g, (renderRaw pre ++ (hr.writeWith id ++ (t ++ renderRaw post))).length ≤ g →
      sectionsRaw g (renderRaw pre ++ (hr.writeWith id ++ (t ++ renderRaw post))) =
        some (pre ++ .header hr :: .newline t :: post) := by
  intro f
  induction f with
  | zero =>
    intro a pre post hr h hf _ _ g _
    have : a = [] := List.eq_nil_of_length_eq_zero (by omega)
    subst this
    simp [sectionsRaw] at h
  | succ f ih =>
    intro a pre post hr h hf hpre hY g hg
    have hok := sectionsRaw_ok _ _ _ h
    rcases hpre with rfl | ⟨h1', pre1, rfl⟩
    · -- the first section is the one: the whole-text lemma
      simp only [List.nil_append] at h hok ⊢
      obtain ⟨c, hc⟩ := writeWith_head hr (renderRaw post)
      have ha : a = 91 :: c := by
        rw [← hok, ← hc]; simp [renderRaw, Event.writeRaw, Event.writeWith]
      have hp : parseRaw a = some (.header hr :: post) := by
        rw [parseRaw_of_sectionsRaw ha, sectionsRaw_fuel a.length (f + 1) a (Nat.le_refl _) hf, h]
      have hb : bomLen a = 0 := by rw [ha]; exact bomLen_of_noBomHead _ (by simp [noBomHead])
      obtain ⟨_, hins⟩ := parseRaw_ins ht hp hb hY
      obtain ⟨c', hc'⟩ := writeWith_head hr (t ++ renderRaw post)
      rw [parseRaw_of_sectionsRaw hc'] at hins
      simp only [renderRaw, List.flatMap_nil, List.nil_append] at hg ⊢
      rw [← hins]
      exact sectionsRaw_fuel _ _ _ hg (Nat.le_refl _)
    · -- an earlier section comes first
      have hane : a ≠ [] := by
        intro h0; subst h0; simp [sectionsRaw] at h
      have hae : a.isEmpty = false := by simpa using hane
      simp only [sectionsRaw, hae, Bool.false_eq_true, ↓reduceIte] at h
      cases hs : sectionRaw a with
      | none => simp [hs] at h
      | some q =>
        obtain ⟨e1, r⟩ := q
        simp only [hs, Option.map_eq_some_iff] at h
        obtain ⟨more, hm, hsplit⟩ := h
        obtain ⟨hd, body, rfl, hbody⟩ := sectionRaw_shape hs
        simp only [List.cons_append, List.cons.injEq, Event.header.injEq] at hsplit
        obtain ⟨rfl, hsplit⟩ := hsplit
        have hlt := (sectionRaw_shrinks hs).1
        have hsok := sectionRaw_ok hs
        rcases sectionsRaw_head f r more hm with ⟨rfl, rfl⟩ | ⟨hrne, h2, m2, rfl⟩
        · exfalso
          simp only [List.append_nil] at hsplit
          have := hbody (.header hr) (by rw [hsplit]; simp)
          simp [isHeaderEv] at this
        · -- where the target header is in `more`
          obtain ⟨pre', hpre', hmore, hpre1⟩ : ∃ pre', StartsH pre' ∧ .header h2 :: m2 = pre' ++ .header hr :: post ∧
              pre1 = body ++ pre' := by
            rcases split_body_header body pre1 h2 hr m2 post hbody hsplit with ⟨rfl, rfl, rfl⟩ | ⟨p2, rfl, rfl⟩
            · exact ⟨[], Or.inl rfl, rfl, by simp⟩
            · exact ⟨.header h2 :: p2, Or.inr ⟨_, _, rfl⟩, rfl, rfl⟩
          rw [hmore] at hm
          have hrok := sectionsRaw_ok _ _ _ hm
          -- both continuations start with a bracket
          obtain ⟨c1, hc1⟩ : ∃ c1, r = 91 :: c1 := by
            rw [← hrok, ← hmore]
            obtain ⟨c, hc⟩ := renderRaw_header_head h2 m2 []
            exact ⟨c, by simpa using hc⟩
          obtain ⟨c1', hc1'⟩ : ∃ c1', renderRaw pre' ++ (hr.writeWith id ++ (t ++ renderRaw post)) = 91 :: c1' := by
            rcases hpre' with rfl | ⟨h3, p3, rfl⟩
            · simp only [renderRaw, List.flatMap_nil, List.nil_append]
              exact writeWith_head hr _
            · exact renderRaw_header_head h3 p3 _
          -- the first section does not care
          have hX : a = renderRaw (Event.header hd :: body) ++ 91 :: c1 := by rw [← hsok, hc1]
          rw [hX] at hs
          obtain ⟨B, hB, hall⟩ := sectionRaw_rp c1 _ _ _ hs (by rw [hc1]; simp)
          have hBnil : B = [] := by
            have := congrArg List.length hB
            rw [hc1] at this
            simp only [List.length_append, List.length_cons] at this
            exact List.eq_nil_of_length_eq_zero (by omega)
          subst hBnil
          have hnew : renderRaw (Event.header hd :: pre1) ++ (hr.writeWith id ++ (t ++ renderRaw post)) =
              renderRaw (Event.header hd :: body) ++ 91 :: c1' := by
            rw [hpre1, ← hc1']
            simp [renderRaw, List.flatMap_append]
          rw [hnew] at hg ⊢
          obtain ⟨g', rfl⟩ : ∃ g', g = g' + 1 := by
            cases g with
            | zero => simp at hg
            | succ g' => exact ⟨g', rfl⟩
          have hne2 : (renderRaw (Event.header hd :: body) ++ 91 :: c1').isEmpty = false := by simp
          simp only [sectionsRaw, hne2, Bool.false_eq_true, ↓reduceIte, hall c1', List.nil_append]
          have hrlen : r.length ≤ f := by omega
          have hpos : 0 < (renderRaw (Event.header hd :: body)).length := by
            have := headerWrite_pos hd id
            simp only [renderRaw, List.flatMap_cons, Event.writeRaw, Event.writeWith, List.length_append]
            omega
          have hih := ih r pre' post hr hm hrlen hpre' hY g' (by
            rw [hc1']
            simp only [List.length_append, List.length_cons] at hg ⊢
            omega)
          rw [hc1'] at hih
          rw [hih, hpre1]
          simp

theorem pre_split : ∀ (pre : List Event), ∃ fe spre, pre = fe ++ spre ∧ (∀ e ∈ fe, isHeaderEv e = false) ∧ StartsH spre := by
  intro pre
  induction pre with
  | nil => exact ⟨[], [], rfl, by simp, Or.inl rfl⟩
  | cons e p ih =>
    by_cases he : isHeaderEv e = true
    · refine ⟨[], e :: p, rfl, by simp, Or.inr ?_⟩
      cases e <;> simp [isHeaderEv] at he
      exact ⟨_, _, rfl⟩
    · obtain ⟨fe, spre, h1, h2, h3⟩ := ih
      refine ⟨e :: fe, spre, by simp [h1], ?_, h3⟩
      intro x hx
      simp only [List.mem_cons] at hx
      rcases hx with rfl | hx
      · simpa using he
      · exact h2 x hx

/-- INS-K: the text parses as `pre ++ header hr :: post`; a newline written right after THAT header
(any header of the file) is read back as one more newline event, everything else as before -/
theorem parseRaw_insK {t : Bytes} (ht : NL t) {a : Bytes} {pre : List Event} {hr : Header} {post : List Event}
    (hp : parseRaw a = some (pre ++ .header hr :: post)) (hb : bomLen a = 0)
    (hY : takeNewlines1 (renderRaw post) = none) :
    parseRaw (renderRaw pre ++ (hr.writeWith id ++ (t ++ renderRaw post))) =
      some (pre ++ .header hr :: .newline t :: post) := by
  have hnb := noBomHead_of_parse hp hb
  obtain ⟨fe, spre, hpre, hfe, hspre⟩ := pre_split pre
  unfold parseRaw at hp
  rw [hb] at hp
  simp only [List.drop_zero] at hp
  have hfk := frontLoop_kind2 a.length a
  have hfok := frontLoop_ok a.length a
  generalize hfm : frontLoop a.length a = fm at hp hfk hfok
  obtain ⟨fm1, fm2⟩ := fm
  simp only at hp hfk hfok
  by_cases he : fm2.isEmpty = true
  · exfalso
    simp only [he, ↓reduceIte, Option.some.injEq] at hp
    have := hfk (.header hr) (by rw [hp]; simp)
    simp [isHeaderEv] at this
  · simp only [he, Bool.false_eq_true, ↓reduceIte, Option.map_eq_some_iff] at hp
    obtain ⟨more, hm, hmore⟩ := hp
    have hne : fm2 ≠ [] := by simpa using he
    rcases sectionsRaw_head _ _ _ hm with ⟨h0, _⟩ | ⟨_, h0, rest0, rfl⟩
    · exact absurd h0 hne
    · -- front matter and sections split the same way on both sides
      have hsplit : fm1 = fe ∧ Event.header h0 :: rest0 = spre ++ .header hr :: post := by
        rw [hpre] at hmore
        rcases hspre with rfl | ⟨h3, p3, rfl⟩
        · simp only [List.append_nil] at hmore
          obtain ⟨h1, h2, h3⟩ := split_first_header fm1 fe h0 hr rest0 post hfk hfe hmore
          exact ⟨h1, by simp [h2, h3]⟩
        · rw [List.append_assoc] at hmore
          simp only [List.cons_append] at hmore
          obtain ⟨h1, h2, h3'⟩ := split_first_header fm1 fe h0 h3 rest0 _ hfk hfe hmore
          exact ⟨h1, by simp [h2, h3']⟩
      obtain ⟨rfl, hmore2⟩ := hsplit
      rw [hmore2] at hm
      have hsok := sectionsRaw_ok _ _ _ hm
      obtain ⟨c1, hc1⟩ : ∃ c1, fm2 = 91 :: c1 := by
        rw [← hsok, ← hmore2]
        obtain ⟨c, hc⟩ := renderRaw_header_head h0 rest0 []
        exact ⟨c, by simpa using hc⟩
      obtain ⟨c1', hc1'⟩ : ∃ c1', renderRaw spre ++ (hr.writeWith id ++ (t ++ renderRaw post)) = 91 :: c1' := by
        rcases hspre with rfl | ⟨h3, p3, rfl⟩
        · simp only [renderRaw, List.flatMap_nil, List.nil_append]
          exact writeWith_head hr _
        · exact renderRaw_header_head h3 p3 _
      have hsec := sectionsRaw_insK ht fm2.length fm2 spre post hr hm (Nat.le_refl _) hspre hY
        (91 :: c1').length (by rw [hc1']; exact Nat.le_refl _)
      rw [hc1'] at hsec
      have htext : renderRaw pre ++ (hr.writeWith id ++ (t ++ renderRaw post)) = renderRaw fm1 ++ 91 :: c1' := by
        rw [← hc1', hpre]; simp [renderRaw, List.flatMap_append]
      rw [htext]
      unfold parseRaw
      have hnb' : noBomHead (renderRaw fm1 ++ 91 :: c1') = true := by
        cases hF : renderRaw fm1 with
        | nil => simp [noBomHead]
        | cons x F' =>
          rw [← hfok, hF] at hnb
          exact noBomHead_same_head hnb
      rw [bomLen_of_noBomHead _ hnb']
      simp only [List.drop_zero]
      have hfl : frontLoop a.length (renderRaw fm1 ++ 91 :: c1) = (fm1, 91 :: c1) := by
        rw [← hc1, hfok]; exact hfm
      have := frontLoop_repl a.length (renderRaw fm1) c1 c1' fm1 (renderRaw fm1 ++ 91 :: c1').length hfl (by simp)
      rw [this]
      simp only [List.isEmpty_cons, Bool.false_eq_true, ↓reduceIte, hsec, Option.map_some]
      rw [hpre]
      simp

/-! ### the file read back -/

theorem groupSections_pre_header_nl (hd : Header) (t : Bytes) (tl : List Event) : ∀ (pre : List Event),
    (groupSections (pre ++ .header hd :: .newline t :: tl)).1 = (groupSections (pre ++ .header hd :: tl)).1 ∧
    (groupSections (pre ++ .header hd :: .newline t :: tl)).2.map (·.header) =
      (groupSections (pre ++ .header hd :: tl)).2.map (·.header) ∧
    (groupSections (pre ++ .header hd :: .newline t :: tl)).2.flatMap (fun s => bodyEntries s.header s.body none []) =
      (groupSections (pre ++ .header hd :: tl)).2.flatMap (fun s => bodyEntries s.header s.body none []) := by
  intro pre
  induction pre with
  | nil => simp [groupSections, bodyEntries]
  | cons e pre ih =>
    obtain ⟨ih1, ih2, ih3⟩ := ih
    cases e with
    | header h0 =>
      simp only [List.cons_append, groupSections, List.map_cons, List.flatMap_cons]
      exact ⟨trivial, by rw [ih2], by rw [ih1, ih3]⟩
    | _ =>
      simp only [List.cons_append, groupSections]
      exact ⟨by rw [ih1], ih2, ih3⟩

theorem fileOfEvents_pre_header_nl (pre : List Event) (hd : Header) (t : Bytes) (tl : List Event) :
    (fileOfEvents (pre ++ .header hd :: .newline t :: tl)).entries = (fileOfEvents (pre ++ .header hd :: tl)).entries ∧
    (fileOfEvents (pre ++ .header hd :: .newline t :: tl)).headers = (fileOfEvents (pre ++ .header hd :: tl)).headers := by
  obtain ⟨_, h2, h3⟩ := groupSections_pre_header_nl hd t tl pre
  constructor
  · simpa [File.entries, fileOfEvents] using h3
  · simp only [File.headers, fileOfEvents]
    have : ∀ l : List Section, l.map (fun s => (s.header.name, s.header.sub)) =
        (l.map (·.header)).map (fun h => (h.name, h.sub)) := by intro l; simp
    rw [this, this, h2]

/-- anything, a header, the inserted newline `t`, the rest — and optionally the final newline `t2` -/
theorem fileFromBytes_insK {t : Bytes} (ht : NL t) {bs : Bytes} {f : File} (h : fileFromBytes bs = some f)
    (hb : bomLen bs = 0) (hc : ∀ revs, parseRaw bs = some revs → ∀ e ∈ revs, e.canon = true)
    {fe : List Event} {hd : Header} {tl : List Event}
    (hev : f.events = fe ++ .header hd :: tl) (hY : takeNewlines1 (render tl) = none) :
    fileFromBytes (render (fe ++ .header hd :: .newline t :: tl)) =
      some (fileOfEvents (fe ++ .header hd :: .newline t :: tl)) := by
  unfold fileFromBytes parseEvents at h
  simp only [Option.map_eq_some_iff] at h
  obtain ⟨evs, ⟨revs, hr, rfl⟩, rfl⟩ := h
  rw [fileOfEvents_events] at hev
  have hcan := hc revs hr
  obtain ⟨rfe, hraw, revs', rfl, hrfe, hreal, htl⟩ := map_toReal_split hev
  have hcan1 : ∀ e ∈ rfe, e.canon = true := fun e he => hcan e (by simp [he])
  have hcan' : ∀ e ∈ revs', e.canon = true := fun e he => hcan e (by simp [he])
  have hrtl : render tl = renderRaw revs' := by rw [← htl]; exact render_toReal_of_canon revs' hcan'
  have hrfe' : render fe = renderRaw rfe := by rw [← hrfe]; exact render_toReal_of_canon rfe hcan1
  have hhw : (Event.header hd).write = hraw.writeWith id := by
    have := (toReal_write_iff (.header hraw)).mpr (hcan _ (by simp))
    rw [show (Event.header hraw).toReal = Event.header hd by simp [Event.toReal, hreal]] at this
    simpa [Event.writeRaw, Event.writeWith] using this
  have hins := parseRaw_insK ht hr hb (by rw [← hrtl]; exact hY)
  have htext : render (fe ++ .header hd :: .newline t :: tl) =
      renderRaw rfe ++ (hraw.writeWith id ++ (t ++ renderRaw revs')) := by
    simp only [render, List.flatMap_append, List.flatMap_cons]
    rw [show List.flatMap Event.write tl = render tl from rfl, show List.flatMap Event.write fe = render fe from rfl,
      hrtl, hrfe', hhw]
    simp [Event.write, Event.writeWith]
  unfold fileFromBytes parseEvents
  rw [htext, hins]
  simp [Event.toReal, hrfe, htl, hreal]

theorem fileFromBytes_insK_app {t t2 : Bytes} (ht : NL t) (ht2 : NL t2) {G : Event → Bool} (hG : EofOk t2 G)
    (hGr : ∀ e : Event, G e.toReal = G e) {bs : Bytes} {f : File} (h : fileFromBytes bs = some f)
    (hb : bomLen bs = 0) (hc : ∀ revs, parseRaw bs = some revs → ∀ e ∈ revs, e.canon = true)
    {fe : List Event} {hd : Header} {tl : List Event}
    (hev : f.events = fe ++ .header hd :: tl)
    (hY : takeNewlines1 (render tl) = none) (hne : render tl ≠ []) (h13 : render tl ≠ [13])
    (hl : LastOkG G f.events) :
    fileFromBytes (render (fe ++ .header hd :: .newline t :: (tl ++ [.newline t2]))) =
      some (fileOfEvents (fe ++ .header hd :: .newline t :: (tl ++ [.newline t2]))) := by
  unfold fileFromBytes parseEvents at h
  simp only [Option.map_eq_some_iff] at h
  obtain ⟨evs, ⟨revs, hr, rfl⟩, rfl⟩ := h
  rw [fileOfEvents_events] at hev hl
  have hcan := hc revs hr
  obtain ⟨rfe, hraw, revs', rfl, hrfe, hreal, htl⟩ := map_toReal_split hev
  have hcan1 : ∀ e ∈ rfe, e.canon = true := fun e he => hcan e (by simp [he])
  have hcan' : ∀ e ∈ revs', e.canon = true := fun e he => hcan e (by simp [he])
  have hrtl : render tl = renderRaw revs' := by rw [← htl]; exact render_toReal_of_canon revs' hcan'
  have hrfe' : render fe = renderRaw rfe := by rw [← hrfe]; exact render_toReal_of_canon rfe hcan1
  have hhw : (Event.header hd).write = hraw.writeWith id := by
    have := (toReal_write_iff (.header hraw)).mpr (hcan _ (by simp))
    rw [show (Event.header hraw).toReal = Event.header hd by simp [Event.toReal, hreal]] at this
    simpa [Event.writeRaw, Event.writeWith] using this
  have hnb := noBomHead_of_parse hr hb
  have hl' : LastOkG G (rfe ++ Event.header hraw :: revs') := by
    obtain ⟨e, hle, hv⟩ := hl
    rw [List.getLast?_map] at hle
    cases hg : (rfe ++ Event.header hraw :: revs').getLast? with
    | none => rw [hg] at hle; simp at hle
    | some e1 =>
      rw [hg] at hle
      simp only [Option.map_some, Option.some.injEq] at hle
      subst hle
      exact ⟨e1, hg, by rw [← hGr, ← isHeaderEv_toReal]; exact hv⟩
  have happ := parseRaw_appH ht2 hG hr hnb ⟨Event.header hraw, by simp, rfl⟩ hl'
  have happ' : parseRaw (bs ++ t2) = some (rfe ++ Event.header hraw :: (revs' ++ [Event.newline t2])) := by
    rw [happ]; simp
  have hb2 : bomLen (bs ++ t2) = 0 := bomLen_of_noBomHead _ (noBomHead_app ht2 bs hnb)
  have hren : renderRaw (revs' ++ [Event.newline t2]) = renderRaw revs' ++ t2 := by
    simp [renderRaw, Event.writeRaw, Event.writeWith]
  have hY2 : takeNewlines1 (renderRaw (revs' ++ [Event.newline t2])) = none := by
    rw [hren, ← hrtl]
    exact takeNewlines1_none_app ht2 hY hne h13
  have hins := parseRaw_insK ht happ' hb2 hY2
  have htext : render (fe ++ .header hd :: .newline t :: (tl ++ [.newline t2])) =
      renderRaw rfe ++ (hraw.writeWith id ++ (t ++ renderRaw (revs' ++ [Event.newline t2]))) := by
    simp only [render, List.flatMap_append, List.flatMap_cons]
    rw [show List.flatMap Event.write tl = render tl from rfl, show List.flatMap Event.write fe = render fe from rfl,
      hrtl, hrfe', hhw, hren]
    simp [Event.write, Event.writeWith]
  unfold fileFromBytes parseEvents
  rw [htext, hins]
  simp [Event.toReal, hrfe, htl, hreal]


/-- per section: header, entries and comments are unchanged by the newline event after a header -/
theorem groupSections_pre_header_nl2 (hd : Header) (t : Bytes) (tl : List Event) : ∀ (pre : List Event),
    (groupSections (pre ++ .header hd :: .newline t :: tl)).1 = (groupSections (pre ++ .header hd :: tl)).1 ∧
    (groupSections (pre ++ .header hd :: .newline t :: tl)).2.map
        (fun s => (s.header, bodyEntries s.header s.body none [], s.body.filter isComment)) =
      (groupSections (pre ++ .header hd :: tl)).2.map
        (fun s => (s.header, bodyEntries s.header s.body none [], s.body.filter isComment)) := by
  intro pre
  induction pre with
  | nil => simp [groupSections, bodyEntries, isComment]
  | cons e pre ih =>
    obtain ⟨ih1, ih2⟩ := ih
    cases e with
    | header h0 =>
      simp only [List.cons_append, groupSections, List.map_cons]
      exact ⟨trivial, by rw [ih1, ih2]⟩
    | _ =>
      simp only [List.cons_append, groupSections]
      exact ⟨by rw [ih1], ih2⟩

/-! ### any number of headers -/

/-- `b` is `a` with newline events inserted right after some of its section headers (each time the
text after the header does not itself start with a newline) -/
inductive InsAfterHeaders (rend : List Event → Bytes) : List Event → List Event → Prop
  | refl (evs : List Event) : InsAfterHeaders rend evs evs
  | step {evs pre post : List Event} {hr : Header} {t : Bytes} :
      InsAfterHeaders rend evs (pre ++ .header hr :: post) → NL t → takeNewlines1 (rend post) = none →
      InsAfterHeaders rend evs (pre ++ .header hr :: .newline t :: post)

theorem bomLen_of_self_render {x : Bytes} {evs : List Event} (hp : parseRaw x = some evs) (hx : x = renderRaw evs) :
    bomLen x = 0 := by
  have hok := parseRaw_ok hp
  rw [← hx] at hok
  cases x with
  | nil => rfl
  | cons c r =>
    have := congrArg List.length hok
    simp only [List.length_drop, List.length_cons] at this
    omega

theorem renderRaw_ins (pre post : List Event) (hr : Header) (t : Bytes) :
    renderRaw (pre ++ .header hr :: .newline t :: post) = renderRaw pre ++ (hr.writeWith id ++ (t ++ renderRaw post)) := by
  simp [renderRaw, List.flatMap_append, Event.writeRaw, Event.writeWith]

/-- the text written for events with newlines inserted after any number of headers parses back to
exactly those events -/
theorem parseRaw_ins_many {a : Bytes} {evs evs' : List Event} (hp : parseRaw a = some evs) (ha : a = renderRaw evs)
    (h : InsAfterHeaders renderRaw evs evs') : parseRaw (renderRaw evs') = some evs' := by
  induction h with
  | refl => rw [← ha]; exact hp
  | step _ ht hY ih =>
    have hb := bomLen_of_self_render ih rfl
    have := parseRaw_insK ht (by simpa [renderRaw, List.flatMap_append, Event.writeRaw, Event.writeWith] using ih)
      (by simpa [renderRaw, List.flatMap_append, Event.writeRaw, Event.writeWith] using hb) hY
    rw [renderRaw_ins]
    exact this

theorem canon_newline (t : Bytes) : (Event.newline t).canon = true := rfl

/-- the same for a loaded file and its (real) events: every list reachable from the file's events
by such insertions is written as a text that parses back to it, with the same headers and entries -/
theorem fileFromBytes_ins_many {x : Bytes} {revs : List Event} (hp : parseRaw x = some revs) (hx : x = renderRaw revs)
    (hcan : ∀ e ∈ revs, e.canon = true) {E' : List Event}
    (h : InsAfterHeaders render (revs.map Event.toReal) E') :
    ∃ R', R'.map Event.toReal = E' ∧ (∀ e ∈ R', e.canon = true) ∧ InsAfterHeaders renderRaw revs R' ∧
      (fileOfEvents E').entries = (fileOfEvents (revs.map Event.toReal)).entries ∧
      (fileOfEvents E').headers = (fileOfEvents (revs.map Event.toReal)).headers := by
  induction h with
  | refl => exact ⟨revs, rfl, hcan, .refl _, rfl, rfl⟩
  | @step pre post hd t _ ht hY ih =>
    obtain ⟨R, hR, hRcan, hRins, he, hh⟩ := ih
    obtain ⟨rpre, hraw, rpost, rfl, hrpre, hreal, hrpost⟩ := map_toReal_split hR
    have hcpost : ∀ e ∈ rpost, e.canon = true := fun e he => hRcan e (by simp [he])
    have hrend : render post = renderRaw rpost := by rw [← hrpost]; exact render_toReal_of_canon rpost hcpost
    refine ⟨rpre ++ .header hraw :: .newline t :: rpost, ?_, ?_, ?_, ?_, ?_⟩
    · simp [Event.toReal, hrpre, hreal, hrpost]
    · intro e hmem
      simp only [List.mem_append, List.mem_cons] at hmem
      rcases hmem with hm | rfl | rfl | hm
      · exact hRcan e (by simp [hm])
      · exact hRcan _ (by simp)
      · rfl
      · exact hRcan e (by simp [hm])
    · exact .step hRins ht (by rw [← hrend]; exact hY)
    · rw [(fileOfEvents_pre_header_nl pre hd t post).1]; exact he
    · rw [(fileOfEvents_pre_header_nl pre hd t post).2]; exact hh

/-- along such insertions every section keeps its header, its entries and its comments -/
theorem ins_many_sections {E E' : List Event} (h : InsAfterHeaders render E E') :
    (groupSections E').2.map (fun s => (s.header, bodyEntries s.header s.body none [], s.body.filter isComment)) =
      (groupSections E).2.map (fun s => (s.header, bodyEntries s.header s.body none [], s.body.filter isComment)) := by
  induction h with
  | refl => rfl
  | @step pre post hd t _ _ _ ih =>
    rw [(groupSections_pre_header_nl2 hd t post pre).2]; exact ih

/-- the written text of a loaded file whose output is its events with newlines inserted after some
headers parses to exactly the writer's event list -/
theorem fileFromBytes_write_ins_many {bs : Bytes} {f : File} (h : fileFromBytes bs = some f)
    (hb : bomLen bs = 0) (hc : ∀ revs, parseRaw bs = some revs → ∀ e ∈ revs, e.canon = true)
    (hins : InsAfterHeaders render f.events f.aug) :
    fileFromBytes f.write = some (fileOfEvents f.aug) := by
  unfold fileFromBytes parseEvents at h
  simp only [Option.map_eq_some_iff] at h
  obtain ⟨evs, ⟨revs, hr, rfl⟩, rfl⟩ := h
  have hcan := hc revs hr
  have hx : bs = renderRaw revs := by
    have := parseRaw_ok hr
    rw [hb] at this
    simpa using this.symm
  rw [fileOfEvents_events] at hins
  obtain ⟨R', hR', hR'can, hR'ins, _, _⟩ := fileFromBytes_ins_many hr hx hcan hins
  have hparse := parseRaw_ins_many hr hx hR'ins
  have hw : (fileOfEvents (revs.map Event.toReal)).write = renderRaw R' := by
    rw [File.write_eq, ← hR', render_toReal_of_canon R' hR'can]
  unfold fileFromBytes parseEvents
  rw [hw, hparse, ← hR']; rfl

/-! ### a decidable check for the shape -/

/-- is `A` the list `E` with newline events (`\n` or `\r\n`) inserted right after some of its
headers, each time before something that is not written starting with a newline? -/
def insCheck : List Event → List Event → Bool
  | [], [] => true
  | e :: E, a :: A =>
    if e == a then
      (match e, A with
       | .header _, .newline t :: A' =>
         insCheck E A || ((t == [10] || t == [13, 10]) && (takeNewlines1 (render A')).isNone && insCheck E A')
       | _, _ => insCheck E A)
    else false
  | _, _ => false

theorem InsAfterHeaders.cons {rend : List Event → Bytes} {E A : List Event} (x : Event)
    (h : InsAfterHeaders rend E A) : InsAfterHeaders rend (x :: E) (x :: A) := by
  induction h with
  | refl => exact .refl _
  | @step pre post hd t _ ht hY ih =>
    have : InsAfterHeaders rend (x :: E) ((x :: pre) ++ .header hd :: .newline t :: post) :=
      .step (pre := x :: pre) ih ht hY
    exact this

theorem insCheck_sound : ∀ (E A : List Event), insCheck E A = true → InsAfterHeaders render E A := by
  intro E
  induction E with
  | nil =>
    intro A h
    cases A with
    | nil => exact .refl _
    | cons a A => simp [insCheck] at h
  | cons e E ih =>
    intro A h
    cases A with
    | nil => simp [insCheck] at h
    | cons a A =>
      simp only [insCheck] at h
      split at h
      · rename_i hea
        have hea' : e = a := by simpa using hea
        subst hea'
        split at h
        · rename_i hh t A'
          simp only [Bool.or_eq_true, Bool.and_eq_true, beq_iff_eq, Option.isNone_iff_eq_none] at h
          rcases h with h | ⟨⟨ht, hY⟩, h⟩
          · exact (ih _ h).cons _
          · have h1 := (ih _ h).cons (Event.header hh)
            exact .step (pre := []) h1 ht hY
        · exact (ih _ h).cons _
      · simp at h

end GixModel.C26
