import GixModel.Model.C57
/-
C57 — helper lemmas: per-byte facts about git's quoting table versus `undo`'s escape interpreter
(each by exhaustive `decide` over the 256 bytes), and the one-piece step of the loop.
-/
namespace GixModel.C57
open GixModel

theorem forall_u8 (P : UInt8 → Prop) (h : ∀ n, n < 256 → P (UInt8.ofNat n)) : ∀ b, P b := by
  intro b
  have := h b.toNat (UInt8.toNat_lt b)
  simpa using this

/-- a byte git leaves alone is neither `"` nor `\` -/
theorem plain_not_special : ∀ c : UInt8, ∀ full : Bool, mustQuote full c = false → c ≠ 34 ∧ c ≠ 92 := by
  apply forall_u8
  decide +kernel

/-- git's letter escapes are exactly inverted by `undo`'s letter table -/
theorem letter_inverts : ∀ c : UInt8, cqLookup c ≥ 32 →
    unescape (UInt8.ofNat (cqLookup c).toNat) = some c := by
  apply forall_u8
  decide +kernel

/-- git's octal escapes start with `0..3`, are not letters, and parse back to the byte -/
theorem octal_inverts : ∀ c : UInt8,
    unescape (octD0 c) = none ∧ (48 ≤ octD0 c ∧ octD0 c ≤ 51) ∧
    parseOctal3 (octD0 c) (octD1 c) (octD2 c) = some c := by
  apply forall_u8
  decide +kernel

theorem undoBody_plain (c : UInt8) (rest : Bytes) (h1 : c ≠ 34) (h2 : c ≠ 92) :
    undoBody (c :: rest) = consOut c 1 (undoBody rest) := by
  rw [undoBody.eq_def]; simp [h1, h2]

theorem undoBody_letter (l x : UInt8) (rest : Bytes) (h : unescape l = some x) :
    undoBody (92 :: l :: rest) = consOut x 2 (undoBody rest) := by
  rw [undoBody.eq_def]; simp [h]

theorem undoBody_octal (d0 d1 d2 v : UInt8) (rest : Bytes) (h0 : unescape d0 = none)
    (hr : 48 ≤ d0 ∧ d0 ≤ 51) (hp : parseOctal3 d0 d1 d2 = some v) :
    undoBody (92 :: d0 :: d1 :: d2 :: rest) = consOut v 4 (undoBody rest) := by
  rw [undoBody.eq_def]; simp [h0, hr, hp]

/-- one piece of git's output is undone to the byte it came from, consuming exactly the piece -/
theorem undoBody_piece (full : Bool) (c : UInt8) (rest : Bytes) :
    undoBody (quotePiece full c ++ rest) = consOut c (quotePiece full c).length (undoBody rest) := by
  unfold quotePiece
  by_cases hm : mustQuote full c = true
  · simp only [hm, if_true]
    unfold escByte
    by_cases hl : cqLookup c ≥ 32
    · simp only [hl, if_true]
      exact undoBody_letter _ c rest (letter_inverts c hl)
    · simp only [hl, if_false]
      obtain ⟨h0, hr, hp⟩ := octal_inverts c
      exact undoBody_octal _ _ _ c rest h0 hr hp
  · have hm' : mustQuote full c = false := by simpa using hm
    simp only [hm', Bool.false_eq_true, if_false]
    obtain ⟨h1, h2⟩ := plain_not_special c full hm'
    exact undoBody_plain c rest h1 h2

/-- the whole body: pieces, closing quote, arbitrary trailing text -/
theorem undoBody_pieces (full : Bool) (bs tail : Bytes) :
    undoBody (bs.flatMap (quotePiece full) ++ 34 :: tail)
      = .ok bs ((bs.flatMap (quotePiece full)).length + 1) := by
  induction bs with
  | nil => rw [List.flatMap_nil, List.nil_append, undoBody.eq_def]; simp
  | cons c bs ih =>
    simp only [List.flatMap_cons, List.append_assoc, undoBody_piece, ih, consOut, List.length_append]
    congr 1; omega

theorem undoBody_le : ∀ (s : Bytes) (o : Bytes) (c : Nat), undoBody s = .ok o c →
    c ≤ s.length ∧ o.length ≤ s.length := by
  intro s
  fun_induction undoBody s with
  | case1 => intro o c h; cases h; simp
  | case2 rest => intro o c h; cases h; simp
  | case3 => intro o c h; cases h
  | case4 next rest v hv hne ih =>
    intro o c h
    cases hr : undoBody rest with
    | err e => simp [hr, consOut] at h
    | ok o' c' =>
      simp only [hr, consOut, Res.ok.injEq] at h
      obtain ⟨h1, h2⟩ := ih o' c' hr
      obtain ⟨rfl, rfl⟩ := h
      simp; omega
  | case5 next hn hr d1 d2 rest v hv hne ih =>
    intro o c h
    cases hr : undoBody rest with
    | err e => simp [hr, consOut] at h
    | ok o' c' =>
      simp only [hr, consOut, Res.ok.injEq] at h
      obtain ⟨h1, h2⟩ := ih o' c' hr
      obtain ⟨rfl, rfl⟩ := h
      simp; omega
  | case6 => intro o c h; cases h
  | case7 => intro o c h; cases h
  | case8 => intro o c h; cases h
  | case9 b rest h1 h2 ih =>
    intro o c h
    cases hr : undoBody rest with
    | err e => simp [hr, consOut] at h
    | ok o' c' =>
      simp only [hr, consOut, Res.ok.injEq] at h
      obtain ⟨h1, h2⟩ := ih o' c' hr
      obtain ⟨rfl, rfl⟩ := h
      simp; omega

end GixModel.C57
