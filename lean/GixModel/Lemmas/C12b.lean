import GixModel.Lemmas.C12a
/-
C12 — the slot-level invariant `InvS` of the repaired protocol (`Cfg.fixed`) and its preservation.
-/
namespace GixModel.C12

structure InvS (s : Sys) : Prop where
  cfg : s.cfg = Cfg.fixed
  /-- a slot generation is at most the published one, except for slots overwritten by the running
  consolidation, which will publish the next generation -/
  sb : ∀ k, (s.slots k).gen ≤ s.pubGen ∨
    ∃ c, s.cons = some c ∧ c.published = false ∧ c.bumped = true ∧ (s.slots k).gen = c.G + 1
  consG : ∀ c, s.cons = some c →
    (c.published = false → c.G = s.pubGen) ∧ (c.published = true → c.newGen = s.pubGen)
  noneLe : ∀ k, (s.slots k).files = none → (s.slots k).gen ≤ s.pubGen
  pend : ∀ c k, s.cons = some c → c.pending = some k → c.published = false →
    (s.slots k).files = none ∨ (s.slots k).gen = c.G + 1
  pendPub : ∀ c k, s.cons = some c → c.pending = some k → c.published = true →
    (s.slots k).gen = c.newGen ∧ c.newGen = c.G + 1 ∧ k ∉ s.pubSlots
  wl : ∀ k, (s.slots k).wlock = true → ∃ c, s.cons = some c ∧ c.pending = some k
  disp : ∀ k b, (s.slots k).files = some b → s.pubGen < (s.slots k).gen → (s.slots k).wlock = false →
    b.isDisposable = false

theorem invS_init (n : Nat) : InvS (Sys.init Cfg.fixed n) := by
  refine ⟨rfl, ?_, ?_, ?_, ?_, ?_, ?_, ?_⟩
  · intro k; left; exact Nat.le_refl _
  · intro c hc; cases hc
  · intro k _; exact Nat.le_refl _
  · intro c k hc; cases hc
  · intro c k hc; cases hc
  · intro k hk; cases hk
  · intro k b hb; cases hb

theorem InvS.of_same {s s' : Sys} (inv : InvS s) (h1 : s'.cfg = s.cfg) (h2 : s'.slots = s.slots)
    (h3 : s'.pubGen = s.pubGen) (h4 : s'.pubSlots = s.pubSlots) (h5 : s'.cons = s.cons) : InvS s' := by
  refine ⟨h1 ▸ inv.cfg, ?_, ?_, ?_, ?_, ?_, ?_, ?_⟩
  · rw [h2, h3, h5]; exact inv.sb
  · rw [h3, h5]; exact inv.consG
  · rw [h2, h3]; exact inv.noneLe
  · rw [h2, h5]; exact inv.pend
  · rw [h2, h4, h5]; exact inv.pendPub
  · rw [h2, h5]; exact inv.wl
  · rw [h2, h3]; exact inv.disp

theorem InvS.of_sameCore {s s' : Sys} (inv : InvS s) (h : SameCore s s') : InvS s' :=
  inv.of_same h.1 h.2.1 h.2.2.1 h.2.2.2.1 h.2.2.2.2.2.1

theorem Cfg.fixed_recheck {s : Sys} (h : s.cfg = Cfg.fixed) : s.cfg.recheck = true := by rw [h]; rfl
theorem Cfg.fixed_bump {s : Sys} (h : s.cfg = Cfg.fixed) : s.cfg.bumpOnClear = true := by rw [h]; rfl

/-- a slot keeps its generation and lock, the bundle changes (load state only) while the slot's
generation is at most the published one -/
theorem InvS.setBundle {s : Sys} (inv : InvS s) (k : Nat) (b b' : Bundle)
    (hf : (s.slots k).files = some b) (hg : (s.slots k).gen ≤ s.pubGen) :
    InvS (s.setSlot k { s.slots k with files := some b' }) := by
  refine ⟨inv.cfg, ?_, ?_, ?_, ?_, ?_, ?_, ?_⟩
  · intro j
    by_cases hj : j = k
    · subst hj; left; simpa using hg
    · simpa [hj] using inv.sb j
  · simpa using inv.consG
  · intro j hjn
    by_cases hj : j = k
    · subst hj; simp at hjn
    · simp [hj] at hjn ⊢; exact inv.noneLe j hjn
  · intro c j hc hp hpub
    by_cases hj : j = k
    · subst hj
      rcases inv.pend c j hc hp hpub with h | h
      · rw [hf] at h; cases h
      · right; simpa using h
    · simpa [hj] using inv.pend c j hc hp hpub
  · intro c j hc hp hpub
    by_cases hj : j = k
    · subst hj; simpa using inv.pendPub c j hc hp hpub
    · simpa [hj] using inv.pendPub c j hc hp hpub
  · intro j hw
    by_cases hj : j = k
    · subst hj; simp at hw; exact inv.wl j hw
    · simp [hj] at hw; exact inv.wl j hw
  · intro j bb hb hgt hw
    by_cases hj : j = k
    · subst hj; simp at hgt; omega
    · simp [hj] at hb hgt hw; exact inv.disp j bb hb hgt hw

theorem step_invS {s s' : Sys} {ev : Ev} (inv : InvS s) (hg : ∀ h, (s.handles h).g ≤ s.pubGen)
    (hs : step s ev = some s') : InvS s' := by
  cases ev with
  | envAdd f o => exact inv.of_sameCore (inv_env hs (Or.inl ⟨f, o, rfl⟩))
  | envRemove f => exact inv.of_sameCore (inv_env hs (Or.inr (Or.inl ⟨f, rfl⟩)))
  | envAddLoose o => exact inv.of_sameCore (inv_env hs (Or.inr (Or.inr (Or.inl ⟨o, rfl⟩))))
  | envRemoveLoose o => exact inv.of_sameCore (inv_env hs (Or.inr (Or.inr (Or.inr (Or.inl ⟨o, rfl⟩)))))
  | newHandle => exact inv.of_sameCore (inv_env hs (Or.inr (Or.inr (Or.inr (Or.inr rfl)))))
  | collBegin h => obtain ⟨_, _, rfl⟩ := inv_collBegin hs; exact inv.of_same rfl rfl rfl rfl rfl
  | collSlot h => obtain ⟨c, k, rest, _, _, rfl⟩ := inv_collSlot hs; exact inv.of_same rfl rfl rfl rfl rfl
  | collEnd h => obtain ⟨c, _, _, rfl⟩ := inv_collEnd hs; exact inv.of_same rfl rfl rfl rfl rfl
  | promote h i => obtain ⟨_, _, rfl⟩ := inv_promote hs; exact inv.of_same rfl rfl rfl rfl rfl
  | retCached h i => obtain ⟨e, p, _, _, rfl⟩ := inv_retCached hs; exact inv.of_same rfl rfl rfl rfl rfl
  | lp1 h i =>
    obtain ⟨_, _, rfl | rfl⟩ := inv_lp1 hs
    · exact inv
    · exact inv.of_same rfl rfl rfl rfl rfl
  | lp2 h => obtain ⟨i, e, _, _, rfl⟩ := inv_lp2 hs; exact inv.of_same rfl rfl rfl rfl rfl
  | lp3 h =>
    obtain ⟨i, p, e, _, _, ⟨_, rfl⟩ | ⟨_, rfl⟩⟩ := inv_lp3 hs <;> exact inv.of_same rfl rfl rfl rfl rfl
  | lp4 h =>
    obtain ⟨i, p, e, _, _, ⟨_, rfl⟩ | ⟨b, _, rfl⟩ | ⟨b, _, rfl⟩⟩ := inv_lp4 hs <;>
      exact inv.of_same rfl rfl rfl rfl rfl
  | lp5 h =>
    obtain ⟨i, b, e, _, _, rfl | ⟨_, _, rfl⟩ | ⟨b', hre, hf, rfl | rfl | rfl⟩⟩ := inv_lp5 hs
    · exact inv.of_same rfl rfl rfl rfl rfl
    · exact inv.of_same rfl rfl rfl rfl rfl
    · exact inv.of_same rfl rfl rfl rfl rfl
    · have hle := Nat.le_trans (hre (Cfg.fixed_recheck inv.cfg)) (hg h)
      exact (inv.setBundle e.slot b' _ hf hle).of_same rfl rfl rfl rfl rfl
    · have hle := Nat.le_trans (hre (Cfg.fixed_recheck inv.cfg)) (hg h)
      exact (inv.setBundle e.slot b' _ hf hle).of_same rfl rfl rfl rfl rfl
  | loadIdx k gIx =>
    obtain ⟨hgi, _, rfl | ⟨b, b', hle, hf, _, rfl⟩⟩ := inv_loadIdx hs
    · exact inv
    · exact inv.setBundle k b _ hf (Nat.le_trans hle hgi)
  | consBegin h =>
    obtain ⟨hnone, rfl⟩ := inv_consBegin hs
    refine ⟨inv.cfg, ?_, ?_, ?_, ?_, ?_, ?_, ?_⟩
    · intro k
      rcases inv.sb k with h1 | ⟨c, hc, _⟩
      · left; exact h1
      · rw [hnone] at hc; cases hc
    · intro c hc; cases hc; exact ⟨fun _ => rfl, fun h => by cases h⟩
    · exact inv.noneLe
    · intro c k hc hp; cases hc; cases hp
    · intro c k hc hp; cases hc; cases hp
    · intro k hk; obtain ⟨c, hc, _⟩ := inv.wl k hk; rw [hnone] at hc; cases hc
    · exact inv.disp
  | consSetGen k =>
    obtain ⟨c, hc, hpub, hpend, ⟨hf, rfl⟩ | ⟨hf, rfl⟩⟩ := inv_consSetGen hs
    · have hG := (inv.consG c hc).1 hpub
      refine ⟨inv.cfg, ?_, ?_, ?_, ?_, ?_, ?_, ?_⟩
      · intro j
        by_cases hj : j = k
        · subst hj; right; exact ⟨_, rfl, hpub, rfl, by simp⟩
        · rcases inv.sb j with h1 | ⟨c', hc', _, _, h4⟩
          · left; simpa [hj] using h1
          · right; rw [hc] at hc'; cases hc'; exact ⟨_, rfl, hpub, rfl, by simpa [hj] using h4⟩
      · intro c' hc'; cases hc'; exact ⟨fun _ => hG, fun h => by simp [hpub] at h⟩
      · intro j hj
        by_cases hjk : j = k
        · subst hjk; simp at hj; simp [hj] at hf
        · simp [hjk] at hj ⊢; exact inv.noneLe j hj
      · intro c' j hc' hp _; cases hc'; cases hp; right; simp
      · intro c' j hc' hp hp2; cases hc'; simp [hpub] at hp2
      · intro j hj
        by_cases hjk : j = k
        · subst hjk; exact ⟨_, rfl, rfl⟩
        · simp [hjk] at hj
          obtain ⟨c', hc', hp⟩ := inv.wl j hj
          rw [hc] at hc'; cases hc'; rw [hpend] at hp; cases hp
      · intro j b hb hgt hw
        by_cases hjk : j = k
        · subst hjk; simp at hw
        · simp [hjk] at hb hgt hw; exact inv.disp j b hb hgt hw
    · have hG := (inv.consG c hc).1 hpub
      refine ⟨inv.cfg, ?_, ?_, ?_, ?_, ?_, ?_, ?_⟩
      · intro j
        by_cases hj : j = k
        · subst hj; left; simp; omega
        · rcases inv.sb j with h1 | ⟨c', hc', h2, h3, h4⟩
          · left; simpa [hj] using h1
          · right; rw [hc] at hc'; cases hc'; exact ⟨_, rfl, hpub, h3, by simpa [hj] using h4⟩
      · intro c' hc'; cases hc'; exact ⟨fun _ => hG, fun h => by simp [hpub] at h⟩
      · intro j hj
        by_cases hjk : j = k
        · subst hjk; simp; omega
        · simp [hjk] at hj ⊢; exact inv.noneLe j hj
      · intro c' j hc' hp _; cases hc'; cases hp; left; simpa using hf
      · intro c' j hc' hp hp2; cases hc'; simp [hpub] at hp2
      · intro j hj
        by_cases hjk : j = k
        · subst hjk; exact ⟨_, rfl, rfl⟩
        · simp [hjk] at hj
          obtain ⟨c', hc', hp⟩ := inv.wl j hj
          rw [hc] at hc'; cases hc'; rw [hpend] at hp; cases hp
      · intro j b hb hgt hw
        by_cases hjk : j = k
        · subst hjk; simp at hw
        · simp [hjk] at hb hgt hw; exact inv.disp j b hb hgt hw
  | consSetFiles k file multi =>
    obtain ⟨c, hc, hpub, hpend, rfl⟩ := inv_consSetFiles hs
    have hG := (inv.consG c hc).1 hpub
    refine ⟨inv.cfg, ?_, ?_, ?_, ?_, ?_, ?_, ?_⟩
    · intro j
      rcases inv.sb j with h1 | ⟨c', hc', h2, h3, h4⟩
      · left
        by_cases hj : j = k
        · subst hj; simpa using h1
        · simpa [hj] using h1
      · right; rw [hc] at hc'; cases hc'
        refine ⟨_, rfl, hpub, h3, ?_⟩
        by_cases hj : j = k
        · subst hj; simpa using h4
        · simpa [hj] using h4
    · intro c' hc'; cases hc'; exact ⟨fun _ => hG, fun h => by simp [hpub] at h⟩
    · intro j hj
      by_cases hjk : j = k
      · subst hjk; simp at hj
      · simp [hjk] at hj ⊢; exact inv.noneLe j hj
    · intro c' j hc' hp _; cases hc'; cases hp
    · intro c' j hc' hp; cases hc'; cases hp
    · intro j hj
      by_cases hjk : j = k
      · subst hjk; simp at hj
      · simp [hjk] at hj
        obtain ⟨c', hc', hp⟩ := inv.wl j hj
        rw [hc] at hc'; cases hc'; rw [hpend] at hp; cases hp; exact absurd rfl hjk
    · intro j b hb hgt hw
      by_cases hjk : j = k
      · subst hjk; simp at hb; subst hb
        cases multi <;> rfl
      · simp [hjk] at hb hgt hw; exact inv.disp j b hb hgt hw
  | consSetFilesM k file extra =>
    obtain ⟨c, hc, hpub, hpend, rfl⟩ := inv_consSetFilesM hs
    have hG := (inv.consG c hc).1 hpub
    refine ⟨inv.cfg, ?_, ?_, ?_, ?_, ?_, ?_, ?_⟩
    · intro j
      rcases inv.sb j with h1 | ⟨c', hc', h2, h3, h4⟩
      · left
        by_cases hj : j = k
        · subst hj; simpa using h1
        · simpa [hj] using h1
      · right; rw [hc] at hc'; cases hc'
        refine ⟨_, rfl, hpub, h3, ?_⟩
        by_cases hj : j = k
        · subst hj; simpa using h4
        · simpa [hj] using h4
    · intro c' hc'; cases hc'; exact ⟨fun _ => hG, fun h => by simp [hpub] at h⟩
    · intro j hj
      by_cases hjk : j = k
      · subst hjk; simp at hj
      · simp [hjk] at hj ⊢; exact inv.noneLe j hj
    · intro c' j hc' hp _; cases hc'; cases hp
    · intro c' j hc' hp; cases hc'; cases hp
    · intro j hj
      by_cases hjk : j = k
      · subst hjk; simp at hj
      · simp [hjk] at hj
        obtain ⟨c', hc', hp⟩ := inv.wl j hj
        rw [hc] at hc'; cases hc'; rw [hpend] at hp; cases hp; exact absurd rfl hjk
    · intro j b hb hgt hw
      by_cases hjk : j = k
      · subst hjk; simp at hb; subst hb
        simp [Bundle.isDisposable, LoadSt.isDisposable]
      · simp [hjk] at hb hgt hw; exact inv.disp j b hb hgt hw
  | consPutBack k =>
    obtain ⟨c, b, hc, hpub, hpend, hf, hd, rfl⟩ := inv_consPutBack hs
    have hG := (inv.consG c hc).1 hpub
    refine ⟨inv.cfg, ?_, ?_, ?_, ?_, ?_, ?_, ?_⟩
    · intro j
      by_cases hj : j = k
      · subst hj; left; simp; omega
      · simpa [hj] using inv.sb j
    · simpa using inv.consG
    · intro j hjn
      by_cases hj : j = k
      · subst hj; simp at hjn
      · simp [hj] at hjn ⊢; exact inv.noneLe j hjn
    · intro c' j hc' hp _
      have : s.cons = some c' := hc'
      rw [hc] at this; cases this; rw [hpend] at hp; cases hp
    · intro c' j hc' hp _
      have : s.cons = some c' := hc'
      rw [hc] at this; cases this; rw [hpend] at hp; cases hp
    · intro j hw
      by_cases hj : j = k
      · subst hj; simp at hw; exact inv.wl j hw
      · simp [hj] at hw; exact inv.wl j hw
    · intro j bb hb hgt hw
      by_cases hj : j = k
      · subst hj; simp at hgt; omega
      · simp [hj] at hb hgt hw; exact inv.disp j bb hb hgt hw
  | consPublish slots bump =>
    obtain ⟨c, hc, hpub, hpend, rfl⟩ := inv_consPublish hs
    have hG := (inv.consG c hc).1 hpub
    have hsb : ∀ j, (s.slots j).gen ≤ (if (c.bumped || bump) = true then c.G + 1 else c.G) := by
      intro j
      rcases inv.sb j with h1 | ⟨c', hc', _, h3, h4⟩
      · split <;> omega
      · rw [hc] at hc'; cases hc'; simp [h3]; omega
    refine ⟨inv.cfg, ?_, ?_, ?_, ?_, ?_, ?_, ?_⟩
    · intro j; left; exact hsb j
    · intro c' hc'; cases hc'; exact ⟨fun h => (by cases h), fun _ => rfl⟩
    · intro j _; exact hsb j
    · intro c' j hc' hp; cases hc'; rw [hpend] at hp; cases hp
    · intro c' j hc' hp; cases hc'; rw [hpend] at hp; cases hp
    · intro j hw
      obtain ⟨c', hc', hp⟩ := inv.wl j hw
      rw [hc] at hc'; cases hc'; rw [hpend] at hp; cases hp
    · intro j b _ hgt _
      have := hsb j
      exact absurd hgt (by simp only [] at this ⊢; omega)
  | consTrash k =>
    obtain ⟨c, hc, hpub, hpend, rfl | ⟨b, hf, rfl⟩⟩ := inv_consTrash hs
    · exact inv
    · have hle : (s.slots k).gen ≤ s.pubGen := by
        rcases inv.sb k with h1 | ⟨c', hc', h2, _⟩
        · exact h1
        · rw [hc] at hc'; cases hc'; rw [hpub] at h2; cases h2
      exact inv.setBundle k b _ hf hle
  | consClearGen k =>
    obtain ⟨c, hc, hpub, hpend, hnot, hbump, rfl⟩ := inv_consClearGen hs
    have hN := (inv.consG c hc).2 hpub
    refine ⟨inv.cfg, ?_, ?_, ?_, ?_, ?_, ?_, ?_⟩
    · intro j
      by_cases hj : j = k
      · subst hj; left; simp; omega
      · rcases inv.sb j with h1 | ⟨c', hc', h2, _⟩
        · left; simpa [hj] using h1
        · rw [hc] at hc'; cases hc'; rw [hpub] at h2; cases h2
    · intro c' hc'; cases hc'; exact ⟨fun h => by simp [hpub] at h, fun _ => hN⟩
    · intro j hj
      by_cases hjk : j = k
      · subst hjk; simp; omega
      · simp [hjk] at hj ⊢; exact inv.noneLe j hj
    · intro c' j hc' hp hp2; cases hc'; simp [hpub] at hp2
    · intro c' j hc' hp _; cases hc'; cases hp
      exact ⟨by simp, hbump (Cfg.fixed_bump inv.cfg), hnot⟩
    · intro j hj
      by_cases hjk : j = k
      · subst hjk; exact ⟨_, rfl, rfl⟩
      · simp [hjk] at hj
        obtain ⟨c', hc', hp⟩ := inv.wl j hj
        rw [hc] at hc'; cases hc'; rw [hpend] at hp; cases hp
    · intro j b hb hgt hw
      by_cases hjk : j = k
      · subst hjk; simp at hw
      · simp [hjk] at hb hgt hw; exact inv.disp j b hb hgt hw
  | consClearFiles k =>
    obtain ⟨c, hc, hpub, hpend, rfl⟩ := inv_consClearFiles hs
    have hN := (inv.consG c hc).2 hpub
    have hP := inv.pendPub c k hc hpend hpub
    refine ⟨inv.cfg, ?_, ?_, ?_, ?_, ?_, ?_, ?_⟩
    · intro j
      rcases inv.sb j with h1 | ⟨c', hc', h2, _⟩
      · left
        by_cases hj : j = k
        · subst hj; simpa using h1
        · simpa [hj] using h1
      · rw [hc] at hc'; cases hc'; rw [hpub] at h2; cases h2
    · intro c' hc'; cases hc'; exact ⟨fun h => by simp [hpub] at h, fun _ => hN⟩
    · intro j hj
      by_cases hjk : j = k
      · subst hjk; simp; omega
      · simp [hjk] at hj ⊢; exact inv.noneLe j hj
    · intro c' j hc' hp; cases hc'; cases hp
    · intro c' j hc' hp; cases hc'; cases hp
    · intro j hj
      by_cases hjk : j = k
      · subst hjk; simp at hj
      · simp [hjk] at hj
        obtain ⟨c', hc', hp⟩ := inv.wl j hj
        rw [hc] at hc'; cases hc'; rw [hpend] at hp; cases hp; exact absurd rfl hjk
    · intro j b hb hgt hw
      by_cases hjk : j = k
      · subst hjk; simp at hb
      · simp [hjk] at hb hgt hw; exact inv.disp j b hb hgt hw
  | consEnd =>
    obtain ⟨c, hc, hpend, hor, rfl⟩ := inv_consEnd hs
    refine ⟨inv.cfg, ?_, ?_, ?_, ?_, ?_, ?_, ?_⟩
    · intro j
      rcases inv.sb j with h1 | ⟨c', hc', h2, h3, _⟩
      · left; exact h1
      · rw [hc] at hc'; cases hc'
        rcases hor with h | h
        · rw [h2] at h; cases h
        · rw [h3] at h; cases h
    · intro c' hc'; cases hc'
    · exact inv.noneLe
    · intro c' j hc'; cases hc'
    · intro c' j hc'; cases hc'
    · intro j hj
      obtain ⟨c', hc', hp⟩ := inv.wl j hj
      rw [hc] at hc'; cases hc'; rw [hpend] at hp; cases hp
    · exact inv.disp

/-- generations never decrease (slots and the published index) -/
theorem step_gen_mono {s s' : Sys} {ev : Ev} (inv : InvS s) (hs : step s ev = some s') :
    (∀ k, (s.slots k).gen ≤ (s'.slots k).gen) ∧ s.pubGen ≤ s'.pubGen := by
  cases ev with
  | envAdd f o => have h := inv_env hs (Or.inl ⟨f, o, rfl⟩); rw [h.2.1, h.2.2.1]; exact ⟨fun _ => Nat.le_refl _, Nat.le_refl _⟩
  | envRemove f => have h := inv_env hs (Or.inr (Or.inl ⟨f, rfl⟩)); rw [h.2.1, h.2.2.1]; exact ⟨fun _ => Nat.le_refl _, Nat.le_refl _⟩
  | envAddLoose o => have h := inv_env hs (Or.inr (Or.inr (Or.inl ⟨o, rfl⟩))); rw [h.2.1, h.2.2.1]; exact ⟨fun _ => Nat.le_refl _, Nat.le_refl _⟩
  | envRemoveLoose o => have h := inv_env hs (Or.inr (Or.inr (Or.inr (Or.inl ⟨o, rfl⟩)))); rw [h.2.1, h.2.2.1]; exact ⟨fun _ => Nat.le_refl _, Nat.le_refl _⟩
  | newHandle => have h := inv_env hs (Or.inr (Or.inr (Or.inr (Or.inr rfl)))); rw [h.2.1, h.2.2.1]; exact ⟨fun _ => Nat.le_refl _, Nat.le_refl _⟩
  | collBegin h => obtain ⟨_, _, rfl⟩ := inv_collBegin hs; exact ⟨fun _ => Nat.le_refl _, Nat.le_refl _⟩
  | collSlot h => obtain ⟨c, k, rest, _, _, rfl⟩ := inv_collSlot hs; exact ⟨fun _ => Nat.le_refl _, Nat.le_refl _⟩
  | collEnd h => obtain ⟨c, _, _, rfl⟩ := inv_collEnd hs; exact ⟨fun _ => Nat.le_refl _, Nat.le_refl _⟩
  | promote h i => obtain ⟨_, _, rfl⟩ := inv_promote hs; exact ⟨fun _ => Nat.le_refl _, Nat.le_refl _⟩
  | retCached h i => obtain ⟨e, p, _, _, rfl⟩ := inv_retCached hs; exact ⟨fun _ => Nat.le_refl _, Nat.le_refl _⟩
  | lp1 h i => obtain ⟨_, _, rfl | rfl⟩ := inv_lp1 hs <;> exact ⟨fun _ => Nat.le_refl _, Nat.le_refl _⟩
  | lp2 h => obtain ⟨i, e, _, _, rfl⟩ := inv_lp2 hs; exact ⟨fun _ => Nat.le_refl _, Nat.le_refl _⟩
  | lp3 h =>
    obtain ⟨i, p, e, _, _, ⟨_, rfl⟩ | ⟨_, rfl⟩⟩ := inv_lp3 hs <;> exact ⟨fun _ => Nat.le_refl _, Nat.le_refl _⟩
  | lp4 h =>
    obtain ⟨i, p, e, _, _, ⟨_, rfl⟩ | ⟨b, _, rfl⟩ | ⟨b, _, rfl⟩⟩ := inv_lp4 hs <;>
      exact ⟨fun _ => Nat.le_refl _, Nat.le_refl _⟩
  | lp5 h =>
    obtain ⟨i, b, e, _, _, rfl | ⟨_, _, rfl⟩ | ⟨b', hre, hf, rfl | rfl | rfl⟩⟩ := inv_lp5 hs
    · exact ⟨fun _ => Nat.le_refl _, Nat.le_refl _⟩
    · exact ⟨fun _ => Nat.le_refl _, Nat.le_refl _⟩
    · exact ⟨fun _ => Nat.le_refl _, Nat.le_refl _⟩
    · refine ⟨fun j => ?_, Nat.le_refl _⟩
      by_cases hj : j = e.slot
      · subst hj; simp
      · simp [hj]
    · refine ⟨fun j => ?_, Nat.le_refl _⟩
      by_cases hj : j = e.slot
      · subst hj; simp
      · simp [hj]
  | loadIdx k gIx =>
    obtain ⟨_, _, rfl | ⟨b, b', _, _, _, rfl⟩⟩ := inv_loadIdx hs
    · exact ⟨fun _ => Nat.le_refl _, Nat.le_refl _⟩
    · refine ⟨fun j => ?_, Nat.le_refl _⟩
      by_cases hj : j = k
      · subst hj; simp
      · simp [hj]
  | consBegin h => obtain ⟨_, rfl⟩ := inv_consBegin hs; exact ⟨fun _ => Nat.le_refl _, Nat.le_refl _⟩
  | consSetGen k =>
    obtain ⟨c, hc, hpub, hpend, ⟨hf, rfl⟩ | ⟨hf, rfl⟩⟩ := inv_consSetGen hs
    · have hG := (inv.consG c hc).1 hpub
      refine ⟨fun j => ?_, Nat.le_refl _⟩
      by_cases hj : j = k
      · subst hj
        rcases inv.sb j with h1 | ⟨c', hc', _, _, h4⟩
        · simp; omega
        · rw [hc] at hc'; cases hc'; simp; omega
      · simp [hj]
    · have hG := (inv.consG c hc).1 hpub
      refine ⟨fun j => ?_, Nat.le_refl _⟩
      by_cases hj : j = k
      · subst hj; have := inv.noneLe j hf; simp; omega
      · simp [hj]
  | consSetFiles k file multi =>
    obtain ⟨c, hc, hpub, hpend, rfl⟩ := inv_consSetFiles hs
    refine ⟨fun j => ?_, Nat.le_refl _⟩
    by_cases hj : j = k
    · subst hj; simp
    · simp [hj]
  | consSetFilesM k file extra =>
    obtain ⟨c, hc, hpub, hpend, rfl⟩ := inv_consSetFilesM hs
    refine ⟨fun j => ?_, Nat.le_refl _⟩
    by_cases hj : j = k
    · subst hj; simp
    · simp [hj]
  | consPutBack k =>
    obtain ⟨c, b, hc, hpub, hpend, hf, hd, rfl⟩ := inv_consPutBack hs
    have hG := (inv.consG c hc).1 hpub
    refine ⟨fun j => ?_, Nat.le_refl _⟩
    by_cases hj : j = k
    · subst hj
      rcases inv.sb j with h1 | ⟨c', hc', _, _, h4⟩
      · simp; omega
      · -- the slot was overwritten by this consolidation: its bundle is fresh, not disposable
        have hw : (s.slots j).wlock = false := by
          cases hw : (s.slots j).wlock
          · rfl
          · obtain ⟨c'', hc'', hp⟩ := inv.wl j hw
            rw [hc] at hc''; cases hc''; rw [hpend] at hp; cases hp
        rw [hc] at hc'; cases hc'
        have := inv.disp j b hf (by omega) hw
        rw [hd] at this; cases this
    · simp [hj]
  | consPublish slots bump =>
    obtain ⟨c, hc, hpub, hpend, rfl⟩ := inv_consPublish hs
    have hG := (inv.consG c hc).1 hpub
    refine ⟨fun _ => Nat.le_refl _, ?_⟩
    show s.pubGen ≤ (if (c.bumped || bump) = true then c.G + 1 else c.G)
    split <;> omega
  | consTrash k =>
    obtain ⟨c, hc, hpub, hpend, rfl | ⟨b, hf, rfl⟩⟩ := inv_consTrash hs
    · exact ⟨fun _ => Nat.le_refl _, Nat.le_refl _⟩
    · refine ⟨fun j => ?_, Nat.le_refl _⟩
      by_cases hj : j = k
      · subst hj; simp
      · simp [hj]
  | consClearGen k =>
    obtain ⟨c, hc, hpub, hpend, hnot, hbump, rfl⟩ := inv_consClearGen hs
    have hN := (inv.consG c hc).2 hpub
    refine ⟨fun j => ?_, Nat.le_refl _⟩
    by_cases hj : j = k
    · subst hj
      rcases inv.sb j with h1 | ⟨c', hc', h2, _⟩
      · simp; omega
      · rw [hc] at hc'; cases hc'; rw [hpub] at h2; cases h2
    · simp [hj]
  | consClearFiles k =>
    obtain ⟨c, hc, hpub, hpend, rfl⟩ := inv_consClearFiles hs
    refine ⟨fun j => ?_, Nat.le_refl _⟩
    by_cases hj : j = k
    · subst hj; simp
    · simp [hj]
  | consEnd => obtain ⟨c, _, _, _, rfl⟩ := inv_consEnd hs; exact ⟨fun _ => Nat.le_refl _, Nat.le_refl _⟩

end GixModel.C12
