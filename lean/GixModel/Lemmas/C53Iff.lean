import GixModel.Lemmas.C53Line
import GixModel.Lemmas.C53File
/-
C53 — one line, exact: on lines without exotic white space gitoxide's parse and git's agree IF AND ONLY IF
`lineAgree` holds for the trimmed line. The three parser deviations (padded emails, empty commit email,
text after the last `<email>`) are visible in the predicate.
-/
namespace GixModel.C53
open GixModel
open GixModel.Spec.C53 (splitAt1 isSpace dropEndWhile readLineBody readLine Entry)

/-- the exact condition (a weakening of `lineClean`): no `<…>` pair at all; an empty first email; an
all-blank first email with no name and no second pair; otherwise the first email unpadded and — with one
pair — either no name (no mapping on both sides) or only blanks behind it, — with two pairs — the second
email unpadded and not empty and only blanks behind it -/
def lineAgree (t : Bytes) : Bool :=
  match scan t with
  | none => true
  | some (pre1, e1, rest1) =>
    if e1.isEmpty then true
    else if (gitTrim e1).isEmpty then (nameOf (gitTrim pre1)).isNone && (scan rest1).isNone
    else match scan rest1 with
      | none => (nameOf (gitTrim pre1)).isNone || (isBlank rest1 && gitTrim e1 == e1)
      | some (_, e2, rest2) => !(gitTrim e2).isEmpty && isBlank rest2 && gitTrim e1 == e1 && gitTrim e2 == e2

theorem blank_of_gitTrim_nil (r : Bytes) (h : gitTrim r = []) : isBlank r = true := by
  obtain ⟨w1, w2, h1, h2, hr⟩ := gitTrim_decomp r
  rw [h, List.append_nil] at hr
  rw [hr]
  unfold isBlank at *
  rw [List.all_append, h1, h2]; rfl

theorem trim_isEmpty_iff {r : Bytes} (hx : noExotic r = true) : (trim r).isEmpty = isBlank r := by
  rw [trim_plain r hx]
  cases hb : isBlank r with
  | true => rw [gitTrim_of_blank r hb]; rfl
  | false =>
    cases hg : gitTrim r with
    | nil => rw [blank_of_gitTrim_nil r hg] at hb; cases hb
    | cons _ _ => rfl

/-- git's second parse: it finds a pair exactly when there is one -/
theorem spec_second (rest1 : Bytes) :
    Spec.C53.parseNameAndEmail rest1 true =
      match scan rest1 with
      | none => none
      | some (pre2, e2, rest2) => some (nameOf (gitTrim pre2), e2, if rest2.isEmpty then none else some rest2) := by
  unfold scan
  cases h3 : splitAt1 60 rest1 with
  | none => rw [spec_parse_none true h3]
  | some pa =>
    obtain ⟨pre2, after2⟩ := pa
    cases h4 : splitAt1 62 after2 with
    | none => rw [spec_parse_open true h3 h4]; simp only [h4]
    | some er =>
      obtain ⟨e2, rest2⟩ := er
      rw [spec_parse_pair true h3 h4]
      simp only [h4, Bool.not_true, Bool.false_and, Bool.false_eq_true, if_false]

/-- what git does with a line whose first pair is complete and not empty -/
theorem spec_line (t pre1 after1 e1 rest1 : Bytes) (h1 : splitAt1 60 t = some (pre1, after1))
    (h2 : splitAt1 62 after1 = some (e1, rest1)) (he : e1.isEmpty = false) :
    readLineBody t =
      match scan rest1 with
      | none => some (nameOf (gitTrim pre1), e1, none, none)
      | some (pre2, e2, _) => some (nameOf (gitTrim pre1), e1, nameOf (gitTrim pre2), some e2) := by
  have hs1 := spec_parse_pair false h1 h2
  simp only [he, Bool.and_false, Bool.false_eq_true, if_false] at hs1
  by_cases hr : rest1.isEmpty = true
  · simp only [hr, if_true] at hs1
    have : rest1 = [] := by simpa using hr
    subst this
    rw [readLineBody_first_end hs1]
    rfl
  · simp only [hr, Bool.false_eq_true, if_false] at hs1
    have h2nd := spec_second rest1
    cases hsc : scan rest1 with
    | none =>
      rw [hsc] at h2nd
      rw [readLineBody_first_rest_none hs1 h2nd]
    | some x =>
      obtain ⟨pre2, e2, rest2⟩ := x
      rw [hsc] at h2nd
      simp only at h2nd ⊢
      rw [readLineBody_first_rest_some hs1 h2nd]

/-- what gitoxide does with the rest after a complete first pair -/
theorem model_second (rest1 : Bytes) (hx : noExotic rest1 = true) :
    parseNameAndEmail rest1 =
      match splitAt1 60 rest1 with
      | none => some (none, none, rest1)
      | some (pre2, after2) =>
        match splitAt1 62 after2 with
        | none => none
        | some (e2, rest2) =>
          if (gitTrim e2).isEmpty then none else some (nameOf (gitTrim pre2), some (gitTrim e2), rest2) := by
  cases h3 : splitAt1 60 rest1 with
  | none => rw [model_parse_none h3]
  | some pa =>
    obtain ⟨pre2, after2⟩ := pa
    obtain ⟨hr1, _⟩ := splitAt1_some h3
    have hxpre2 : noExotic pre2 = true := by rw [hr1] at hx; exact noExotic_prefix _ _ hx
    have hxafter2 : noExotic after2 = true := by
      rw [hr1] at hx
      have := noExotic_suffix _ _ hx
      simp only [noExotic, Bool.and_eq_true] at this; exact this.2
    cases h4 : splitAt1 62 after2 with
    | none => rw [model_parse_open h3 h4]; simp only [h4]
    | some er =>
      obtain ⟨e2, rest2⟩ := er
      obtain ⟨ha2, _⟩ := splitAt1_some h4
      have hxe2 : noExotic e2 = true := by rw [ha2] at hxafter2; exact noExotic_prefix _ _ hxafter2
      rw [model_parse_pair h3 h4 hxpre2 hxe2]; simp only [h4]

theorem scan_none_of_blank {r : Bytes} (h : isBlank r = true) : scan r = none := by
  unfold scan
  rw [splitAt1_of_notin (blank_notin 60 lt_not_space h)]

theorem scan_rest_noexotic {r pre e rest : Bytes} (hx : noExotic r = true) (h : scan r = some (pre, e, rest)) :
    noExotic rest = true := by
  unfold scan at h
  cases h3 : splitAt1 60 r with
  | none => rw [h3] at h; cases h
  | some pa =>
    obtain ⟨p, a⟩ := pa
    rw [h3] at h
    simp only at h
    cases h4 : splitAt1 62 a with
    | none => rw [h4] at h; cases h
    | some er =>
      obtain ⟨e', r'⟩ := er
      rw [h4] at h
      simp only [Option.some.injEq, Prod.mk.injEq] at h
      obtain ⟨_, _, hr⟩ := h
      subst hr
      obtain ⟨hr1, _⟩ := splitAt1_some h3
      obtain ⟨ha, _⟩ := splitAt1_some h4
      rw [hr1] at hx
      have h1 := noExotic_suffix _ _ hx
      simp only [noExotic, Bool.and_eq_true] at h1
      have h2 := h1.2
      rw [ha] at h2
      have h3' := noExotic_suffix _ _ h2
      simp only [noExotic, Bool.and_eq_true] at h3'
      exact h3'.2

end GixModel.C53

namespace GixModel.C53
open GixModel
open GixModel.Spec.C53 (splitAt1 isSpace dropEndWhile readLineBody readLine Entry)

theorem parseLine_unconsumed {t rest rest2 : Bytes} {n1 e1 n2 e2 : Option Bytes}
    (h : parseNameAndEmail t = some (n1, e1, rest)) (h2 : parseNameAndEmail rest = some (n2, e2, rest2))
    (h3 : (trim rest2).isEmpty = false) : parseLine t = none := by
  unfold parseLine; rw [h]; simp only [h2, h3, Bool.not_false, if_true]

theorem scan_of_splits {t pre1 after1 e1 rest1 : Bytes} (h1 : splitAt1 60 t = some (pre1, after1))
    (h2 : splitAt1 62 after1 = some (e1, rest1)) : scan t = some (pre1, e1, rest1) := by
  unfold scan; rw [h1]; simp only [h2]

/-- the exact line theorem on the trimmed line -/
theorem parseLine_agree_iff (t : Bytes) (hx : noExotic t = true) :
    parseLine t = effOfArgs (readLineBody t) ↔ lineAgree t = true := by
  unfold lineAgree
  cases h1 : splitAt1 60 t with
  | none =>
    have hsc : scan t = none := by unfold scan; rw [h1]
    rw [hsc]
    simp only [iff_true]
    rw [readLineBody_first_none (spec_parse_none false h1)]
    have hm := model_parse_none h1
    by_cases htr : (trim t).isEmpty = true
    · rw [parseLine_both hm hm htr]; rfl
    · rw [parseLine_unconsumed hm hm (by simpa using htr)]; rfl
  | some pa =>
    obtain ⟨pre1, after1⟩ := pa
    obtain ⟨ht, _⟩ := splitAt1_some h1
    have hxpre1 : noExotic pre1 = true := by rw [ht] at hx; exact noExotic_prefix _ _ hx
    have hxafter1 : noExotic after1 = true := by
      rw [ht] at hx
      have := noExotic_suffix _ _ hx
      simp only [noExotic, Bool.and_eq_true] at this; exact this.2
    cases h2 : splitAt1 62 after1 with
    | none =>
      have hsc : scan t = none := by unfold scan; rw [h1]; simp only [h2]
      rw [hsc, parseLine_first_none (model_parse_open h1 h2), readLineBody_first_none (spec_parse_open false h1 h2)]
      simp [effOfArgs]
    | some er =>
      obtain ⟨e1, rest1⟩ := er
      obtain ⟨ha, _⟩ := splitAt1_some h2
      have hxe1 : noExotic e1 = true := by rw [ha] at hxafter1; exact noExotic_prefix _ _ hxafter1
      have hxrest1 : noExotic rest1 = true := by
        rw [ha] at hxafter1
        have := noExotic_suffix _ _ hxafter1
        simp only [noExotic, Bool.and_eq_true] at this; exact this.2
      rw [scan_of_splits h1 h2]
      simp only
      have hm1 := model_parse_pair h1 h2 hxpre1 hxe1
      by_cases he : e1.isEmpty = true
      · -- `<>`: no mapping on either side
        have : e1 = [] := by simpa using he
        subst this
        have hs1 := spec_parse_pair false h1 h2
        simp only [List.isEmpty_nil, Bool.not_false, Bool.and_self, if_true] at hs1
        have hg : (gitTrim ([] : Bytes)).isEmpty = true := rfl
        rw [hg, if_pos rfl] at hm1
        rw [parseLine_first_none hm1, readLineBody_first_none hs1]
        simp [effOfArgs]
      · have he' : e1.isEmpty = false := by simpa using he
        rw [if_neg he]
        have hsl := spec_line t pre1 after1 e1 rest1 h1 h2 he'
        by_cases hte : (gitTrim e1).isEmpty = true
        · -- only blanks between the brackets: an error for gitoxide, the email " " for git
          rw [if_pos hte]
          rw [if_pos hte] at hm1
          rw [parseLine_first_none hm1, hsl]
          cases hsc : scan rest1 with
          | none =>
            simp only [effOfArgs, Entry.ofArgs, isNoop]
            cases nameOf (gitTrim pre1) <;> simp
          | some x =>
            obtain ⟨pre2, e2, rest2⟩ := x
            simp [effOfArgs, Entry.ofArgs, isNoop]
        · rw [if_neg hte]
          rw [if_neg hte] at hm1
          have hm2 := model_second rest1 hxrest1
          rw [hsl]
          cases hsc : scan rest1 with
          | none =>
            simp only
            -- one pair
            cases h3 : splitAt1 60 rest1 with
            | none =>
              rw [h3] at hm2
              simp only at hm2
              by_cases hbl : isBlank rest1 = true
              · have htr : (trim rest1).isEmpty = true := by rw [trim_isEmpty_iff hxrest1]; exact hbl
                rw [parseLine_both hm1 hm2 htr]
                cases hn : nameOf (gitTrim pre1) with
                | none => simp [effOfArgs, Entry.ofArgs, isNoop, mkEntry]
                | some n1 =>
                  simp only [effOfArgs, Entry.ofArgs, isNoop, mkEntry, hbl, Option.isNone_some, Bool.false_or, Bool.true_and,
                    beq_iff_eq, Bool.and_self, Bool.false_and, Bool.false_eq_true, if_false, Option.some.injEq]
                  constructor
                  · intro h; injection h
                  · intro h; rw [h]
              · have hbl' : isBlank rest1 = false := by simpa using hbl
                have htr : (trim rest1).isEmpty = false := by rw [trim_isEmpty_iff hxrest1]; exact hbl'
                rw [parseLine_unconsumed hm1 hm2 htr]
                cases hn : nameOf (gitTrim pre1) with
                | none => simp [effOfArgs, Entry.ofArgs, isNoop]
                | some n1 => simp [effOfArgs, Entry.ofArgs, isNoop, hbl']
            | some pa2 =>
              obtain ⟨pre2, after2⟩ := pa2
              -- a `<` without `>`: an error for gitoxide; the rest is not blank
              have h4 : splitAt1 62 after2 = none := by
                unfold scan at hsc
                rw [h3] at hsc
                simp only at hsc
                cases h4 : splitAt1 62 after2 with
                | none => rfl
                | some er2 => rw [h4] at hsc; cases hsc
              rw [h3] at hm2
              simp only [h4] at hm2
              rw [parseLine_second_none hm1 hm2]
              have hbl' : isBlank rest1 = false := by
                cases hb : isBlank rest1 with
                | false => rfl
                | true =>
                  have := blank_notin 60 lt_not_space hb
                  rw [(splitAt1_some h3).1] at this
                  exact absurd (by simp) this
              cases hn : nameOf (gitTrim pre1) with
              | none => simp [effOfArgs, Entry.ofArgs, isNoop]
              | some n1 => simp [effOfArgs, Entry.ofArgs, isNoop, hbl']
          | some x =>
            obtain ⟨pre2, e2, rest2⟩ := x
            simp only
            have hxrest2 := scan_rest_noexotic hxrest1 hsc
            -- two pairs
            have hsplits : ∃ after2, splitAt1 60 rest1 = some (pre2, after2) ∧ splitAt1 62 after2 = some (e2, rest2) := by
              unfold scan at hsc
              cases h3 : splitAt1 60 rest1 with
              | none => rw [h3] at hsc; cases hsc
              | some pa2 =>
                obtain ⟨p, a⟩ := pa2
                rw [h3] at hsc
                simp only at hsc
                cases h4 : splitAt1 62 a with
                | none => rw [h4] at hsc; cases hsc
                | some er2 =>
                  obtain ⟨e', r'⟩ := er2
                  rw [h4] at hsc
                  simp only [Option.some.injEq, Prod.mk.injEq] at hsc
                  obtain ⟨rfl, rfl, rfl⟩ := hsc
                  exact ⟨a, rfl, h4⟩
            obtain ⟨after2, h3, h4⟩ := hsplits
            rw [h3] at hm2
            simp only [h4] at hm2
            have hgit : effOfArgs (some (nameOf (gitTrim pre1), e1, nameOf (gitTrim pre2), some e2)) =
                some { newName := nameOf (gitTrim pre1), newEmail := some e1, oldName := nameOf (gitTrim pre2), oldEmail := e2 } := by
              simp [effOfArgs, Entry.ofArgs, isNoop]
            rw [hgit]
            by_cases hte2 : (gitTrim e2).isEmpty = true
            · rw [if_pos hte2] at hm2
              rw [parseLine_second_none hm1 hm2]
              simp [hte2]
            · rw [if_neg hte2] at hm2
              have hte2' : (gitTrim e2).isEmpty = false := by simpa using hte2
              by_cases hbl : isBlank rest2 = true
              · have htr : (trim rest2).isEmpty = true := by rw [trim_isEmpty_iff hxrest2]; exact hbl
                rw [parseLine_both hm1 hm2 htr]
                have hmk : mkEntry (nameOf (gitTrim pre1)) (some (gitTrim e1)) (nameOf (gitTrim pre2)) (some (gitTrim e2)) =
                    some { newName := nameOf (gitTrim pre1), newEmail := some (gitTrim e1), oldName := nameOf (gitTrim pre2),
                           oldEmail := gitTrim e2 } := by
                  cases nameOf (gitTrim pre1) <;> cases nameOf (gitTrim pre2) <;> rfl
                rw [hmk]
                simp only [hte2', Bool.not_false, hbl, Bool.and_self, Bool.true_and, Bool.and_eq_true, beq_iff_eq,
                  Option.some.injEq]
                constructor
                · intro h; injection h with _ h2 _ h4; exact ⟨by injection h2, h4⟩
                · intro h; rw [h.1, h.2]
              · have hbl' : isBlank rest2 = false := by simpa using hbl
                have htr : (trim rest2).isEmpty = false := by rw [trim_isEmpty_iff hxrest2]; exact hbl'
                rw [parseLine_unconsumed hm1 hm2 htr]
                simp [hbl']

/-- the exact line theorem: for a line without Unicode-only white space, the two parsers take the same mapping
from the line exactly when it is a comment or its trimmed text satisfies `lineAgree` -/
theorem line_eq_iff (l term : Bytes) (hterm : isTerm term) (hx : noExotic l = true) :
    gixEff l = gitEff (l ++ term) ↔ (l.head? == some 35 || lineAgree (gitTrim l)) = true := by
  have htb := term_blank hterm
  cases l with
  | nil =>
    have : readLine ([] ++ term) = none := by
      rcases hterm with rfl | rfl | rfl <;> decide
    simp only [gixEff, lineResult, gitEff, this, effOfArgs, true_iff]
    decide
  | cons b r =>
    by_cases hb : (b == 35) = true
    · have : b = 35 := by simpa using hb
      subst this
      unfold gixEff gitEff lineResult readLine
      simp [effOfArgs]
    · have hb' : (b == 35) = false := by simpa using hb
      have hhead : (((b :: r) ++ term).head? == some 35) = false := by
        simp only [List.cons_append, List.head?_cons]
        cases hbb : (some b == some (35 : UInt8)) with
        | false => rfl
        | true =>
          have : b = 35 := by simpa using hbb
          subst this
          simp at hb
      have hhead2 : ((b :: r).head? == some 35) = false := by
        simpa using hhead
      rw [hhead2, Bool.false_or]
      obtain ⟨w1, w2, hw1, hw2, hl⟩ := gitTrim_decomp (b :: r)
      have hpad : readLineBody ((b :: r) ++ term) = readLineBody (gitTrim (b :: r)) := by
        have hw2t : isBlank (w2 ++ term) = true := by
          unfold isBlank at *
          rw [List.all_append, hw2, htb]; rfl
        have := readLineBody_pad w1 (gitTrim (b :: r)) (w2 ++ term) hw1 hw2t
        rw [← this]
        congr 1
        conv => lhs; rw [hl]
        simp [List.append_assoc]
      have hgit : gitEff ((b :: r) ++ term) = effOfArgs (readLineBody (gitTrim (b :: r))) := by
        unfold gitEff readLine
        simp only [hhead, Bool.false_eq_true, if_false]
        rw [hpad]
      rw [hgit]
      by_cases hte : (gitTrim (b :: r)).isEmpty = true
      · have h0 : gitTrim (b :: r) = [] := by simpa using hte
        have hgix : gixEff (b :: r) = none := by
          unfold gixEff lineResult
          simp only [hb', Bool.false_eq_true, if_false]
          rw [trim_plain _ hx]
          simp only [hte, if_true]
        rw [hgix, h0]
        simp only [iff_true_right (by decide : lineAgree [] = true)]
        decide
      · have hgix : gixEff (b :: r) = parseLine (gitTrim (b :: r)) := by
          unfold gixEff lineResult
          simp only [hb', Bool.false_eq_true, if_false]
          rw [trim_plain _ hx]
          simp only [hte, Bool.false_eq_true, if_false]
          cases parseLine (gitTrim (b :: r)) <;> rfl
        rw [hgix]
        exact parseLine_agree_iff _ (noExotic_gitTrim _ hx)

/-- `lineClean` lines are inside the exact domain (so `line_eq` is the `←` direction restricted) -/
theorem lineAgree_of_lineOk (l : Bytes) (hok : lineOk l = true) :
    (l.head? == some 35 || lineAgree (gitTrim l)) = true := by
  have hx : noExotic l = true := by
    unfold lineOk at hok
    simp only [Bool.and_eq_true] at hok
    exact hok.1
  exact (line_eq_iff l [] (Or.inl rfl) hx).mp (by simpa using line_eq l [] (Or.inl rfl) hok)

/-! ### whole files on the exact line domain -/

/-- every physical line is free of Unicode-only white space and inside the exact domain of the line theorem -/
def fileAgree (file : Bytes) : Bool :=
  (filePairs file).all (fun p => noExotic p.1 && (p.1.head? == some 35 || lineAgree (gitTrim p.1)))

theorem fileEntries_eq_wide (file : Bytes) (hok : fileAgree file = true) :
    fileEntries file = (Spec.C53.fileEntries file).filter (fun e => !isNoop e) := by
  rw [model_fileEntries, spec_fileEntries, filterMap_filter]
  unfold fileAgree at hok
  rw [List.all_eq_true] at hok
  apply filterMap_congr'
  intro p hp
  rw [← gitEff_eq]
  have h := hok p hp
  simp only [Bool.and_eq_true] at h
  exact (line_eq_iff p.1 p.2 (pairsGo_term file [] p hp) h.1).mpr h.2

theorem fileAgree_of_fileOk (file : Bytes) (hok : fileOk file = true) : fileAgree file = true := by
  unfold fileOk at hok
  unfold fileAgree
  rw [List.all_eq_true] at hok ⊢
  intro p hp
  have h := hok p hp
  have hx : noExotic p.1 = true := by
    unfold lineOk at h
    simp only [Bool.and_eq_true] at h
    exact h.1
  rw [hx, Bool.true_and]
  exact lineAgree_of_lineOk p.1 h

end GixModel.C53
