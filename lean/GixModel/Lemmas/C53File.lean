import GixModel.Lemmas.C53Line
import GixModel.Lemmas.C53Rep
/-
C53 — whole files: the physical lines seen by `bstr::lines` and by `fgets` correspond, mappings
without effect do not change what `map_user` answers, hence `Snapshot::from_bytes(file)` resolves
like `git check-mailmap` with `mailmap.file=file`.
-/
namespace GixModel.C53
open GixModel
open GixModel.Spec.C53 (Entry Info Me Map addEntry mapUser slLookup slUpsert build readLine)

/-! ### physical lines -/

/-- (bstr line, what `fgets` has in addition at its end) -/
def pairsGo : Bytes → Bytes → List (Bytes × Bytes)
  | [], acc => if acc.isEmpty then [] else [(acc.reverse, [])]
  | b :: rest, acc =>
    if b == 10 then
      (match acc with
       | 13 :: r => (r.reverse, [13, 10])
       | r => (r.reverse, [10])) :: pairsGo rest []
    else pairsGo rest (b :: acc)

def filePairs (file : Bytes) : List (Bytes × Bytes) := pairsGo file []

theorem bstrLines_go (bs acc : Bytes) : bstrLines.go bs acc = (pairsGo bs acc).map Prod.fst := by
  induction bs generalizing acc with
  | nil =>
    simp only [bstrLines.go, pairsGo]
    split <;> simp
  | cons b rest ih =>
    simp only [bstrLines.go, pairsGo]
    by_cases hb : (b == 10) = true
    · simp only [hb, if_true, List.map_cons, ih]
      congr 1
      unfold bstrLines.stripCr
      split <;> simp_all
    · simp only [hb, Bool.false_eq_true, if_false, ih]

theorem fgetsLines_go (bs acc : Bytes) :
    Spec.C53.fgetsLines.go bs acc = (pairsGo bs acc).map (fun p => p.1 ++ p.2) := by
  induction bs generalizing acc with
  | nil =>
    simp only [Spec.C53.fgetsLines.go, pairsGo]
    split <;> simp
  | cons b rest ih =>
    simp only [Spec.C53.fgetsLines.go, pairsGo]
    by_cases hb : (b == 10) = true
    · have : b = 10 := by simpa using hb
      subst this
      simp only [beq_self_eq_true, if_true, List.map_cons, ih]
      congr 1
      split <;> simp
    · simp only [hb, Bool.false_eq_true, if_false, ih]

theorem pairsGo_term (bs acc : Bytes) : ∀ p ∈ pairsGo bs acc, isTerm p.2 := by
  induction bs generalizing acc with
  | nil =>
    intro p hp
    simp only [pairsGo] at hp
    split at hp
    · simp at hp
    · simp only [List.mem_singleton] at hp; subst hp; left; rfl
  | cons b rest ih =>
    intro p hp
    simp only [pairsGo] at hp
    by_cases hb : (b == 10) = true
    · simp only [hb, if_true, List.mem_cons] at hp
      rcases hp with rfl | hp
      · split
        · right; right; rfl
        · right; left; rfl
      · exact ih [] p hp
    · simp only [hb, Bool.false_eq_true, if_false] at hp
      exact ih _ p hp

/-- every physical line is in the domain of the line theorem -/
def fileOk (file : Bytes) : Bool := (filePairs file).all (fun p => lineOk p.1)

/-! ### mappings without effect -/

def normSimple (m : Map) (q : Bytes) : Option Bytes × Option Bytes :=
  match view Prod.fst m q with
  | none => (none, none)
  | some (_, me) => (me.name, me.email)

def normSub (m : Map) (q n : Bytes) : Option Info :=
  match view Prod.fst m q with
  | none => none
  | some (_, me) => (view Prod.fst me.namemap n).map (·.2)

def orElse (a b : Option Bytes) : Option Bytes := match a with | some x => some x | none => b

def updSimple (e : Entry) (x : Option Bytes × Option Bytes) : Option Bytes × Option Bytes :=
  match e.oldName with
  | none => (orElse e.newName x.1, orElse e.newEmail x.2)
  | some _ => x

def updSub (e : Entry) (n : Bytes) (x : Option Info) : Option Info :=
  match e.oldName with
  | none => x
  | some on => if foldB on == foldB n then some { name := e.newName, email := e.newEmail } else x

theorem view_congr {α : Type} (key : α → Bytes) (xs : List α) {q q' : Bytes} (h : foldB q = foldB q') :
    view key xs q = view key xs q' := by
  unfold view; rw [h]

theorem view_addEntry (m : Map) (e : Entry) (q : Bytes) :
    view Prod.fst (addEntry m e) q =
      if foldB e.oldEmail == foldB q then
        some (match view Prod.fst m q with
              | some kv => (kv.1, updMe e kv.2)
              | none => (e.oldEmail, updMe e freshMe))
      else view Prod.fst m q := by
  rw [addEntry_eq, slUpsert_view]
  by_cases hq : (foldB e.oldEmail == foldB q) = true
  · have : foldB e.oldEmail = foldB q := by simpa using hq
    rw [view_congr Prod.fst m this]
    simp only [hq, if_true]
    cases view Prod.fst m q <;> rfl
  · simp only [hq, Bool.false_eq_true, if_false]

theorem normSimple_addEntry (m : Map) (e : Entry) (q : Bytes) :
    normSimple (addEntry m e) q =
      if foldB e.oldEmail == foldB q then updSimple e (normSimple m q) else normSimple m q := by
  unfold normSimple
  rw [view_addEntry]
  by_cases hq : (foldB e.oldEmail == foldB q) = true
  · simp only [hq, if_true]
    cases hv : view Prod.fst m q with
    | none =>
      simp only [updMe, freshMe, updSimple, orElse]
      cases e.oldName with
      | none => cases e.newName <;> cases e.newEmail <;> rfl
      | some on => rfl
    | some kv =>
      simp only [updMe, updSimple, orElse]
      cases e.oldName with
      | none => cases e.newName <;> cases e.newEmail <;> rfl
      | some on => rfl
  · simp only [hq, Bool.false_eq_true, if_false]

theorem normSub_addEntry (m : Map) (e : Entry) (q n : Bytes) :
    normSub (addEntry m e) q n =
      if foldB e.oldEmail == foldB q then updSub e n (normSub m q n) else normSub m q n := by
  unfold normSub
  rw [view_addEntry]
  by_cases hq : (foldB e.oldEmail == foldB q) = true
  · simp only [hq, if_true]
    cases hv : view Prod.fst m q with
    | none =>
      simp only [updMe, freshMe, updSub]
      cases e.oldName with
      | none => simp [view]
      | some on =>
        simp only [slUpsert_view]
        by_cases hn : (foldB on == foldB n) = true
        · simp [hn, view]
        · simp [hn, view]
    | some kv =>
      simp only [updMe, updSub]
      cases e.oldName with
      | none => rfl
      | some on =>
        simp only [slUpsert_view]
        by_cases hn : (foldB on == foldB n) = true
        · simp only [hn, if_true, Option.map_some]
          cases view Prod.fst kv.2.namemap on <;> rfl
        · simp only [hn, Bool.false_eq_true, if_false]
  · simp only [hq, Bool.false_eq_true, if_false]

theorem mapUser_of_norm (m : Map) (n e : Bytes) :
    mapUser m n e =
      (((normSub m e n).getD { name := (normSimple m e).1, email := (normSimple m e).2 }).name.getD n,
       ((normSub m e n).getD { name := (normSimple m e).1, email := (normSimple m e).2 }).email.getD e) := by
  unfold mapUser normSub normSimple
  rw [slLookup_eq_view]
  cases hv : view Prod.fst m e with
  | none => rfl
  | some kv =>
    obtain ⟨k, me⟩ := kv
    simp only [slLookup_eq_view]
    cases view Prod.fst me.namemap n with
    | none => rfl
    | some sub => rfl

/-- two maps that answer alike -/
def NormEq (m m' : Map) : Prop :=
  ∀ q, normSimple m q = normSimple m' q ∧ ∀ n, normSub m q n = normSub m' q n

theorem normEq_addEntry {m m' : Map} (h : NormEq m m') (e : Entry) : NormEq (addEntry m e) (addEntry m' e) := by
  intro q
  refine ⟨?_, fun n => ?_⟩
  · rw [normSimple_addEntry, normSimple_addEntry, (h q).1]
  · rw [normSub_addEntry, normSub_addEntry, (h q).2 n]

theorem normEq_noop {m m' : Map} (h : NormEq m m') (e : Entry) (he : isNoop e = true) :
    NormEq (addEntry m e) m' := by
  unfold isNoop at he
  simp only [Bool.and_eq_true, Option.isNone_iff_eq_none] at he
  obtain ⟨⟨h1, h2⟩, h3⟩ := he
  intro q
  refine ⟨?_, fun n => ?_⟩
  · rw [normSimple_addEntry, ← (h q).1]
    simp only [updSimple, h1, h2, h3, orElse]
    split <;> rfl
  · rw [normSub_addEntry, ← (h q).2 n]
    simp only [updSub, h3]
    split <;> rfl

theorem normEq_fold (es : List Entry) : ∀ (m m' : Map), NormEq m m' →
    NormEq (es.foldl addEntry m) ((es.filter (fun e => !isNoop e)).foldl addEntry m') := by
  induction es with
  | nil => intro m m' h; exact h
  | cons e es ih =>
    intro m m' h
    simp only [List.foldl_cons, List.filter_cons]
    by_cases he : isNoop e = true
    · simp only [he, Bool.not_true, Bool.false_eq_true, if_false]
      exact ih _ _ (normEq_noop h e he)
    · have : isNoop e = false := by simpa using he
      simp only [this, Bool.not_false, if_true, List.foldl_cons]
      exact ih _ _ (normEq_addEntry h e)

theorem mapUser_filter_noop (es : List Entry) (n e : Bytes) :
    mapUser (build es) n e = mapUser (build (es.filter (fun e => !isNoop e))) n e := by
  have h := normEq_fold es [] [] (fun q => ⟨rfl, fun _ => rfl⟩)
  unfold build
  rw [mapUser_of_norm, mapUser_of_norm, (h e).1, (h e).2 n]

/-! ### the two readers -/

/-- every mapping git adds for a buffer (with or without effect) -/
def specAll (buf : Bytes) : Option Entry :=
  match readLine buf with
  | none => none
  | some (a, b, c, d) => some (Entry.ofArgs a b c d)

def optFilter {β : Type} (p : β → Bool) : Option β → Option β
  | some y => if p y then some y else none
  | none => none

theorem gitEff_eq (buf : Bytes) : gitEff buf = optFilter (fun e => !isNoop e) (specAll buf) := by
  unfold gitEff effOfArgs specAll
  cases readLine buf with
  | none => rfl
  | some x =>
    obtain ⟨a, b, c, d⟩ := x
    simp only [optFilter]
    by_cases hn : isNoop (Entry.ofArgs a b c d) = true
    · simp [hn]
    · simp [hn]

theorem spec_fileEntries (file : Bytes) :
    Spec.C53.fileEntries file = (filePairs file).filterMap (fun p => specAll (p.1 ++ p.2)) := by
  unfold Spec.C53.fileEntries Spec.C53.fgetsLines filePairs
  rw [fgetsLines_go, List.filterMap_map]
  rfl

theorem model_fileEntries (file : Bytes) :
    fileEntries file = (filePairs file).filterMap (fun p => gixEff p.1) := by
  unfold fileEntries bstrLines filePairs
  rw [bstrLines_go, List.filterMap_map]
  rfl

theorem filterMap_filter {α β : Type} (f : α → Option β) (p : β → Bool) (xs : List α) :
    (xs.filterMap f).filter p = xs.filterMap (fun x => optFilter p (f x)) := by
  induction xs with
  | nil => rfl
  | cons x xs ih =>
    cases hf : f x with
    | none =>
      rw [List.filterMap_cons_none hf,
        List.filterMap_cons_none (f := fun x => optFilter p (f x)) (a := x) (l := xs) (by simp [hf, optFilter])]
      exact ih
    | some y =>
      rw [List.filterMap_cons_some hf, List.filter_cons]
      cases hp : p y with
      | false =>
        rw [List.filterMap_cons_none (f := fun x => optFilter p (f x)) (a := x) (l := xs) (by simp [hf, optFilter, hp])]
        simp only [Bool.false_eq_true, if_false]
        exact ih
      | true =>
        rw [List.filterMap_cons_some (f := fun x => optFilter p (f x)) (a := x) (l := xs) (b := y) (by simp [hf, optFilter, hp])]
        simp only [if_true, ih]

theorem filterMap_congr' {α β : Type} (f g : α → Option β) (xs : List α) (h : ∀ x ∈ xs, f x = g x) :
    xs.filterMap f = xs.filterMap g := by
  induction xs with
  | nil => rfl
  | cons x xs ih =>
    simp only [List.filterMap_cons, h x (by simp)]
    rw [ih (fun y hy => h y (by simp [hy]))]

/-- on files whose lines are all in the domain, gitoxide reads exactly git's mappings with an effect -/
theorem fileEntries_eq (file : Bytes) (hok : fileOk file = true) :
    fileEntries file = (Spec.C53.fileEntries file).filter (fun e => !isNoop e) := by
  rw [model_fileEntries, spec_fileEntries, filterMap_filter]
  unfold fileOk at hok
  rw [List.all_eq_true] at hok
  apply filterMap_congr'
  intro p hp
  rw [← gitEff_eq]
  exact line_eq p.1 p.2 (pairsGo_term file [] p hp) (hok p hp)

end GixModel.C53
