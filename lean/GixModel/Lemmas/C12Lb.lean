import GixModel.Lemmas.C12La
/-
C12 (liveness) — frame lemmas: steps that only change one handle.
-/
namespace GixModel.C12.Live

theorem NoLoad.setH {s : S} {ix h : Nat} {x' : H} (hn : NoLoad s ix) (hnew : ∀ p pr k, x'.pc ≠ Pc.lnLoad p pr k) :
    NoLoad (s.setH h x') ix := by
  intro h' pr k
  show (setAt s.hs h x' h').pc ≠ _
  by_cases hh : h' = h
  · subst hh; rw [setAt_same]; exact hnew ix pr k
  · rw [setAt_other _ _ _ _ hh]; exact hn h' pr k

theorem Exh.setH {s : S} {ix h : Nat} {x' : H} (he : Exh s ix) (hnew : ∀ p pr k, x'.pc ≠ Pc.lnLoad p pr k) :
    Exh (s.setH h x') ix := ⟨he.1, he.2.setH hnew⟩

/-- a handle keeps its invariant when the shared data it depends on stays and nobody enters a critical section -/
theorem HInv.transfer {s s' : S} {x : H} (hx : HInv s x) (h1 : s'.nObjs = s.nObjs) (h2 : s'.nextFile = s.nextFile)
    (h3 : s'.objs = s.objs) (h4 : s'.disk = s.disk) (h5 : s'.pub = s.pub) (h6 : s'.fileObjs = s.fileObjs)
    (hno : ∀ ix, NoLoad s ix → NoLoad s' ix) : HInv s' x := by
  have hex : ∀ ix, Exh s ix → Exh s' ix := fun ix he => ⟨by rw [h3]; exact he.1, hno ix he.2⟩
  have hholds : ∀ f o, holds s' f o = holds s f o := fun f o => by simp [holds, h6]
  refine ⟨?_, ?_, ?_, hx.noLate, ?_, ?_, ?_, ?_, hx.readPtr, ?_, ?_, ?_, ?_, ?_, ?_, hx.nf⟩
  · rw [h1]; exact hx.ixLt
  · rw [h1]; exact hx.mLt
  · rw [h2]; exact hx.snapLt
  · rw [h3]; exact hx.loadK
  · rw [h3]; exact hx.mLe
  · rw [h3]; exact hx.prevLe
  · rw [h3, h4]; exact hx.snapOk
  · intro hp f hf; rw [hholds]; exact hx.scanFail hp f hf
  · rw [h3]; exact hx.waitAll
  · intro ix p hp he; exact hex ix (hx.endExh ix p hp (by rw [h3] at he; exact he))
  · intro ix hp; exact hex ix (hx.consExh ix hp)
  · intro ix hp
    obtain ⟨a, b, c⟩ := hx.reExh ix hp
    exact ⟨hex ix a, by rw [h3]; exact b, by rw [h5]; exact c⟩
  · intro f hf; rw [h4, hholds]; exact hx.aliveOk f hf

/-- a step that changes only handle `h`, which neither leaves nor enters a critical section -/
theorem Inv.handleOnly {s : S} (inv : Inv s) (h : Nat) (x' : H) (hlt : h < s.nH)
    (hold : ∀ p pr k, (s.hs h).pc ≠ Pc.lnLoad p pr k) (hnew : ∀ p pr k, x'.pc ≠ Pc.lnLoad p pr k)
    (hx : HInv (s.setH h x') x') : Inv (s.setH h x') := by
  refine ⟨⟨inv.g.cfg, inv.g.diskLt, inv.g.filesLt, inv.g.pubLt, inv.g.beyond, inv.g.claimedLe, ?_, inv.g.loadedOk, ?_,
    inv.g.obj0, inv.g.uninit⟩, ?_⟩
  · intro p k hk
    rcases inv.g.pos p k hk with hd | ⟨h', pr, hp⟩
    · exact Or.inl hd
    · refine Or.inr ⟨h', pr, ?_⟩
      have : h' ≠ h := by intro he; subst he; exact hold p pr k hp
      show (setAt s.hs h x' h').pc = _
      rw [setAt_other _ _ _ _ this]; exact hp
  · intro h' hge
    have hge' : s.nH ≤ h' := hge
    show setAt s.hs h x' h' = _
    rw [setAt_other _ _ _ _ (by omega)]; exact inv.g.freshH h' hge'
  · intro h'
    show HInv _ (setAt s.hs h x' h')
    by_cases hh : h' = h
    · subst hh; rw [setAt_same]; exact hx
    · rw [setAt_other _ _ _ _ hh]
      exact (inv.h h').transfer rfl rfl rfl rfl rfl rfl (fun ix hn => hn.setH hnew)

/-- a non-fresh handle is a registered one -/
theorem Inv.lt_of_pc {s : S} (inv : Inv s) (h : Nat) (hpc : (s.hs h).pc ≠ Pc.idle) : h < s.nH := by
  rcases Nat.lt_or_ge h s.nH with hl | hge
  · exact hl
  · rw [inv.g.freshH h hge] at hpc; exact absurd rfl hpc

/-- the handle's own invariant after it moved to another program counter `pc'` (nothing else changed) -/
theorem HInv.withPc {s : S} {h : Nat} {x : H} (hx : HInv s x) (pc' : Pc)
    (hnl : ∀ p pr k, pc' ≠ Pc.lnLoad p pr k)
    (o1 : ∀ ix, pcIx pc' = some ix → ix < s.nObjs)
    (o2 : ∀ ix p k, pc' ≠ Pc.lnLate ix p k)
    (o3 : ∀ ix p, pcPrev pc' = some (ix, p) → p ≤ (s.objs ix).loaded)
    (o4 : ∀ ix, x.pc ≠ Pc.collRead ix)
    (o5 : ∀ ix, pc' ≠ Pc.collRead ix)
    (o6 : postScan pc' = true → ∀ f ∈ x.snap, holds s f x.obj = false)
    (o7 : ∀ ix p, pc' = Pc.lnWait ix p → (s.objs ix).claimed = (s.objs ix).files.length)
    (o8 : ∀ ix p, pc' = Pc.lnEnd ix p → p = (s.objs ix).loaded → Exh s ix)
    (o9 : ∀ ix, pc' = Pc.cons ix → Exh s ix)
    (o10 : ∀ ix, pc' = Pc.recheck ix → Exh s ix ∧ (∀ f ∈ x.alive, f ∈ (s.objs ix).files) ∧ (s.pub = ix ∨ x.mPtr ≠ s.pub))
    (o11 : pc' = Pc.notFound → x.alive = []) :
    HInv (s.setH h { x with pc := pc' }) { x with pc := pc' } := by
  have hnl' : ∀ p pr k, ({ x with pc := pc' } : H).pc ≠ Pc.lnLoad p pr k := hnl
  refine ⟨o1, hx.mLt, hx.snapLt, o2, ?_, hx.mLe, o3, ?_, ?_, o6, o7, ?_, ?_, ?_, hx.aliveOk, o11⟩
  · intro ix p k hp; exact absurd hp (hnl ix p k)
  · intro _ hm; exact hx.snapOk o4 hm
  · intro ix hp; exact absurd hp (o5 ix)
  · intro ix p hp he; exact (o8 ix p hp he).setH hnl'
  · intro ix hp; exact (o9 ix hp).setH hnl'
  · intro ix hp
    obtain ⟨a, b, c⟩ := o10 ix hp
    exact ⟨a.setH hnl', b, c⟩

end GixModel.C12.Live

namespace GixModel.C12.Live

/-- a handle keeps its invariant when index objects only make progress (more claimed, more loaded — and
`done` only grows together with `loaded`), possibly with a new index object published -/
theorem HInv.transferObjs {s s' : S} {x : H} (hx : HInv s x) (h1 : s.nObjs ≤ s'.nObjs) (h2 : s'.nextFile = s.nextFile)
    (h4 : s'.disk = s.disk) (h5 : s'.pub = s.pub ∨ s.nObjs ≤ s'.pub) (h6 : s'.fileObjs = s.fileObjs)
    (hf : ∀ p, p < s.nObjs → (s'.objs p).files = (s.objs p).files)
    (hc : ∀ p, p < s.nObjs → (s.objs p).claimed ≤ (s'.objs p).claimed)
    (hl : ∀ p, p < s.nObjs → (s.objs p).loaded ≤ (s'.objs p).loaded)
    (hd : ∀ p, p < s.nObjs → (s'.objs p).loaded = (s.objs p).loaded → (s'.objs p).done = (s.objs p).done)
    (hcl : ∀ p, p < s.nObjs → (s.objs p).claimed = (s.objs p).files.length → (s'.objs p).claimed = (s.objs p).claimed)
    (hno : ∀ p, p < s.nObjs → Exh s p → NoLoad s' p) : HInv s' x := by
  have hex : ∀ ix, ix < s.nObjs → Exh s ix → Exh s' ix := by
    intro ix hlt he
    exact ⟨by rw [hcl ix hlt he.1, hf ix hlt]; exact he.1, hno ix hlt he⟩
  have hholds : ∀ f o, holds s' f o = holds s f o := fun f o => by simp [holds, h6]
  refine ⟨?_, ?_, ?_, hx.noLate, ?_, ?_, ?_, ?_, hx.readPtr, ?_, ?_, ?_, ?_, ?_, ?_, hx.nf⟩
  · intro ix hp; have := hx.ixLt ix hp; omega
  · have := hx.mLt; omega
  · rw [h2]; exact hx.snapLt
  · intro ix p k hp
    have hlt := hx.ixLt ix (by rw [hp]; rfl)
    have := hx.loadK ix p k hp; have := hc ix hlt; omega
  · have := hl x.mPtr hx.mLt; have := hx.mLe; omega
  · intro ix p hp
    have hlt : ix < s.nObjs := by
      apply hx.ixLt ix
      cases hpc : x.pc <;> rw [hpc] at hp <;> simp [pcPrev] at hp <;> simp [pcIx, hp.1]
    have := hx.prevLe ix p hp; have := hl ix hlt; omega
  · intro hnc hm k hk f hfk hfd
    have hlt := hx.mLt
    have hle := hx.mLe
    have hl' := hl x.mPtr hlt
    have heq : (s'.objs x.mPtr).loaded = (s.objs x.mPtr).loaded := by omega
    rw [hd x.mPtr hlt heq] at hk
    rw [hf x.mPtr hlt] at hfk
    rw [h4] at hfd
    exact hx.snapOk hnc (by omega) k hk f hfk hfd
  · intro hp f hfm; rw [hholds]; exact hx.scanFail hp f hfm
  · intro ix p hp
    have hlt := hx.ixLt ix (by rw [hp]; rfl)
    have := hx.waitAll ix p hp
    rw [hcl ix hlt this, hf ix hlt]; exact this
  · intro ix p hp he
    have hlt := hx.ixLt ix (by rw [hp]; rfl)
    have hle := hx.prevLe ix p (by rw [hp]; rfl)
    have := hl ix hlt
    exact hex ix hlt (hx.endExh ix p hp (by omega))
  · intro ix hp
    exact hex ix (hx.ixLt ix (by rw [hp]; rfl)) (hx.consExh ix hp)
  · intro ix hp
    have hlt := hx.ixLt ix (by rw [hp]; rfl)
    obtain ⟨a, b, c⟩ := hx.reExh ix hp
    refine ⟨hex ix hlt a, by rw [hf ix hlt]; exact b, ?_⟩
    rcases h5 with h | h
    · rw [h]; exact c
    · right; have := hx.mLt; omega
  · intro f hfm; rw [h4, hholds]; exact hx.aliveOk f hfm

end GixModel.C12.Live
