import GixModel.Lemmas.C24
/-
C24 — lemmas at the file level: header, `decode::all` / offset-table lookup on encoded extensions,
a `Layout` (header, blocks, extensions, trailer) and what every branch of `from_bytes` makes of it.
-/
namespace GixModel.C24
open GixModel GixModel.Spec.C24

theorem headerDecode_encoded (version n : Nat) (hv : version = 2 ∨ version = 3 ∨ version = 4)
    (hn : n < 4294967296) (rest : Bytes) (hrest : hashLen ≤ rest.length) :
    headerDecode (header version n ++ rest) = some (version, n, rest) := by
  unfold headerDecode header
  have hlen : ¬ ((sigDIRC ++ be32 version ++ be32 n ++ rest).length < 12 + hashLen) := by
    simp only [List.length_append, sigDIRC, be32, List.length_cons, List.length_nil]; omega
  rw [if_neg hlen]
  have htake : List.take 4 (sigDIRC ++ be32 version ++ be32 n ++ rest) = sigDIRC := by
    simp only [List.append_assoc]
    rw [show (4 : Nat) = sigDIRC.length from rfl, List.take_left]
  have hdrop : List.drop 4 (sigDIRC ++ be32 version ++ be32 n ++ rest) = be32 version ++ (be32 n ++ rest) := by
    simp only [List.append_assoc]
    rw [show (4 : Nat) = sigDIRC.length from rfl, List.drop_left]
  rw [htake, hdrop]
  have hvlt : version < 4294967296 := by omega
  rw [readU32_be32 _ hvlt]
  simp only [ne_eq, not_true_eq_false, if_false]
  have hvv : ¬ (¬ version = 2 ∧ ¬ version = 3 ∧ ¬ version = 4) := by omega
  rw [if_neg hvv, readU32_be32 _ hn]

theorem header_length (version n : Nat) : (header version n).length = 12 := by
  simp [header, sigDIRC, be32]


theorem encodeExts_append (a b : List (Bytes × Bytes)) : encodeExts (a ++ b) = encodeExts a ++ encodeExts b := by
  simp [encodeExts, List.flatMap_append]

/-- `decode::all` on well-formed extension bytes followed by the trailer -/
theorem extAll_encoded (L : List (Bytes × Bytes)) (T : Bytes) (hok : ∀ sp ∈ L, ExtOk sp) (ht : T.length = hashLen) :
    extAll (encodeExts L ++ T) =
      match extFold {} L with
      | .ok e => .ok (e, T)
      | .err => .err
      | .panic => .panic := by
  unfold extAll
  have h0 : ¬ ((encodeExts L ++ T).length < hashLen) := by simp only [List.length_append]; omega
  rw [if_neg h0]
  have hbody : List.take ((encodeExts L ++ T).length - hashLen) (encodeExts L ++ T) = encodeExts L := by
    have : (encodeExts L ++ T).length - hashLen = (encodeExts L).length := by
      simp only [List.length_append]; omega
    rw [this, List.take_left]
  rw [hbody]
  simp only [extIter_encoded L _ hok (Nat.le_refl _), List.drop_left]
  cases extFold {} L <;> rfl

theorem ieotFind_encoded (L : List (Bytes × Bytes)) (T : Bytes) (hok : ∀ sp ∈ L, ExtOk sp) (ht : T.length = hashLen) :
    ieotFind (encodeExts L ++ T) =
      match L.find? (fun sp => sp.1 == sigIEOT) with
      | none => none
      | some (_, p) => ieotDecode p := by
  unfold ieotFind
  have h0 : ¬ ((encodeExts L ++ T).length < hashLen) := by simp only [List.length_append]; omega
  rw [if_neg h0]
  have hbody : List.take ((encodeExts L ++ T).length - hashLen) (encodeExts L ++ T) = encodeExts L := by
    have : (encodeExts L ++ T).length - hashLen = (encodeExts L).length := by
      simp only [List.length_append]; omega
    rw [this, List.take_left]
  rw [hbody]
  simp only [extIter_encoded L _ hok (Nat.le_refl _)]
  cases List.find? (fun sp => sp.fst == sigIEOT) L with
  | none => rfl
  | some x => cases x; rfl

theorem blockOffsets_bound (v4 : Bool) : ∀ (blocks : List (List Entry)) (start : Nat) (prev : Bytes),
    ∀ o ∈ blockOffsets v4 start prev blocks,
      o.fromStart ≤ start + (gitEncodeBlocks v4 prev blocks).length ∧ o.numEntries ≤ (blocks.map List.length).sum := by
  intro blocks
  induction blocks with
  | nil => intro start prev o ho; simp [blockOffsets] at ho
  | cons b bs ih =>
    intro start prev o ho
    rw [blockOffsets_cons] at ho
    rw [gitEncodeBlocks_cons]
    simp only [List.mem_cons, List.length_append, List.map_cons, List.sum_cons] at *
    rcases ho with rfl | ho
    · simp only; omega
    · have := ih _ _ o ho
      omega

theorem blockOffsets_ne_nil (v4 : Bool) (b : List Entry) (bs : List (List Entry)) (start : Nat) (prev : Bytes) :
    blockOffsets v4 start prev (b :: bs) ≠ [] := by
  rw [blockOffsets_cons]; simp

theorem ceilDiv_pos (a b : Nat) (ha : 1 ≤ a) (hb : 1 ≤ b) : 1 ≤ ceilDiv a b := by
  unfold ceilDiv
  apply Nat.le_div_iff_mul_le (by omega) |>.mpr
  omega


theorem payload_le_encodeExts : ∀ (L : List (Bytes × Bytes)) (sp : Bytes × Bytes), sp ∈ L →
    sp.2.length ≤ (encodeExts L).length := by
  intro L
  induction L with
  | nil => intro sp h; simp at h
  | cons x xs ih =>
    intro sp h
    have hx : encodeExts (x :: xs) = encodeExt x.1 x.2 ++ encodeExts xs := by
      simp [encodeExts, List.flatMap_cons]
    rw [hx]
    simp only [List.mem_cons] at h
    rcases h with rfl | h
    · simp only [encodeExt, List.length_append]; omega
    · have := ih sp h
      simp only [List.length_append]; omega

/-- the pieces of a file as git lays it out -/
structure Layout where
  version : Nat
  blocks : List (List Entry)
  /-- every extension in file order, the end-of-index entry (if any) included -/
  exts : List (Bytes × Bytes)
  trailer : Bytes

def Layout.v4 (l : Layout) : Bool := l.version == 4
def Layout.n (l : Layout) : Nat := (l.blocks.map List.length).sum
def Layout.body (l : Layout) : Bytes := gitEncodeBlocks l.v4 [] l.blocks
def Layout.file (l : Layout) : Bytes :=
  header l.version l.n ++ (l.body ++ (encodeExts l.exts ++ l.trailer))

structure Layout.Ok (l : Layout) : Prop where
  version : l.version = 2 ∨ l.version = 3 ∨ l.version = 4
  count : l.n < 4294967296
  wf : ∀ b ∈ l.blocks, AllWf b
  fit : ∀ b ∈ l.blocks, PathsFit b
  exts : ∀ sp ∈ l.exts, ExtOk sp
  trailer : l.trailer.length = hashLen

/-- what every branch of `from_bytes` must produce for a laid-out file -/
def Layout.expected (l : Layout) : Outcome :=
  match extFold {} l.exts with
  | .ok e => finish l.version l.blocks.flatten e l.trailer
  | .err => .errExtension
  | .panic => .panic

theorem serialDecode_layout (l : Layout) (h : l.Ok) :
    serialDecode l.version l.n (l.body ++ (encodeExts l.exts ++ l.trailer)) = l.expected := by
  unfold serialDecode Layout.expected
  have hc := chunkGo_blocks l.v4 l.blocks [] none (encodeExts l.exts ++ l.trailer) (Or.inl rfl) h.wf h.fit
    (by decide) (by simp only [List.length_append, h.trailer, hashLen]; omega)
  have hc' : chunk (l.version == 4) l.n (l.body ++ (encodeExts l.exts ++ l.trailer)) =
      some (l.blocks.flatten, encodeExts l.exts ++ l.trailer) := hc
  rw [hc']
  simp only [extAll_encoded l.exts l.trailer h.exts h.trailer]
  cases extFold {} l.exts <;> rfl

theorem fromBytes_one_layout (sha1 : Bytes → Bytes) (l : Layout) (h : l.Ok) :
    fromBytes sha1 1 l.file = l.expected := by
  unfold fromBytes Layout.file
  rw [headerDecode_encoded l.version l.n h.version h.count _
    (by simp only [List.length_append, h.trailer]; omega)]
  simp only []
  have h1 : ¬ (1 > 1) := by decide
  cases eoieDecode sha1 (header l.version l.n ++ (l.body ++ (encodeExts l.exts ++ l.trailer))) with
  | none => exact serialDecode_layout l h
  | some off => simp only [h1, if_false]; exact serialDecode_layout l h


theorem ieotDecode_empty : ieotDecode (ieotPayload []) = none := by
  unfold ieotDecode ieotPayload
  rw [show (be32 1 ++ List.flatMap (fun o => be32 o.fromStart ++ be32 o.numEntries) ([] : List Offset)) = be32 1 ++ [] from rfl,
    readU32_be32 1 (by decide)]
  simp

theorem Layout.file_split (l : Layout) :
    l.file = (header l.version l.n ++ l.body) ++ (encodeExts l.exts ++ l.trailer) := by
  simp [Layout.file, List.append_assoc]

/-- the entries as the threaded branch obtains them (offset table or not) -/
theorem threaded_entries (l : Layout) (h : l.Ok) (hsize : l.file.length < 4294967296) (c : Nat) (hc : 1 ≤ c) :
    decodeGrouped l.v4 c l.file (blockOffsets l.v4 12 [] l.blocks) = .ok l.blocks.flatten := by
  rw [decodeGrouped_ok_iff l.v4 c hc]
  have := decodeGroup_blocks l.v4 l.blocks (header l.version l.n) [] (encodeExts l.exts ++ l.trailer) h.wf h.fit
    (by decide) (by simp only [List.length_append, h.trailer, hashLen]; omega)
  rw [header_length] at this
  exact this

theorem threadedEntries_layout (l : Layout) (h : l.Ok) (threads : Nat) (ht : 1 < threads)
    (pre : List (Bytes × Bytes)) (eoiePl : Bytes) (hexts : l.exts = pre ++ [(sigEOIE, eoiePl)])
    (hieot : ∀ p, pre.find? (fun sp => sp.1 == sigIEOT) = some (sigIEOT, p) →
      p = ieotPayload (blockOffsets l.v4 12 [] l.blocks))
    (hsize : l.file.length < 4294967296) :
    threadedEntries (l.version == 4) l.n (l.body ++ (encodeExts l.exts ++ l.trailer)) l.file
      (encodeExts l.exts ++ l.trailer) threads = .ok l.blocks.flatten := by
  unfold threadedEntries
  have hserial : chunk (l.version == 4) l.n (l.body ++ (encodeExts l.exts ++ l.trailer)) =
      some (l.blocks.flatten, encodeExts l.exts ++ l.trailer) :=
    chunkGo_blocks l.v4 l.blocks [] none (encodeExts l.exts ++ l.trailer) (Or.inl rfl) h.wf h.fit
      (by decide) (by simp only [List.length_append, h.trailer, hashLen]; omega)
  have hE : List.find? (fun sp => sp.1 == sigIEOT) [(sigEOIE, eoiePl)] = none := by
    simp [sigEOIE, sigIEOT]
  have hfind : l.exts.find? (fun sp => sp.1 == sigIEOT) = pre.find? (fun sp => sp.1 == sigIEOT) := by
    rw [hexts, List.find?_append, hE, Option.or_none]
  rw [ieotFind_encoded l.exts l.trailer h.exts h.trailer, hfind]
  cases hf : pre.find? (fun sp => sp.1 == sigIEOT) with
  | none => simp only [hserial]
  | some sp =>
    obtain ⟨sg, p⟩ := sp
    have hsg : sg = sigIEOT := by
      have := List.find?_some hf
      simpa using this
    subst hsg
    have hp := hieot p hf
    subst hp
    simp only []
    cases hb : l.blocks with
    | nil =>
      have : blockOffsets l.v4 12 [] [] = [] := rfl
      rw [this, ieotDecode_empty]
      simp only [hserial, hb]
    | cons b bs =>
      have hne := blockOffsets_ne_nil l.v4 b bs 12 []
      have hok : ∀ o ∈ blockOffsets l.v4 12 [] (b :: bs), OffsetOk o := by
        intro o ho
        rw [← hb] at ho
        have hbd := blockOffsets_bound l.v4 l.blocks 12 [] o ho
        have hfl : 12 + l.body.length ≤ l.file.length := by
          simp only [Layout.file, List.length_append, header_length]; omega
        have hcount := h.count
        unfold Layout.n at hcount
        unfold Layout.body at hfl
        exact ⟨by omega, by omega⟩
      rw [ieotDecode_payload _ hne hok]
      simp only []
      have hlen : 1 ≤ (blockOffsets l.v4 12 [] (b :: bs)).length := by
        cases hq : blockOffsets l.v4 12 [] (b :: bs) with
        | nil => exact absurd hq hne
        | cons _ _ => simp
      have := threaded_entries l h hsize (ceilDiv (blockOffsets l.v4 12 [] (b :: bs)).length (threads - 1))
        (ceilDiv_pos _ _ hlen (by omega))
      rw [hb] at this
      exact this

theorem threadedDecode_layout (l : Layout) (h : l.Ok) (threads : Nat) (ht : 1 < threads)
    (pre : List (Bytes × Bytes)) (eoiePl : Bytes) (hexts : l.exts = pre ++ [(sigEOIE, eoiePl)])
    (hieot : ∀ p, pre.find? (fun sp => sp.1 == sigIEOT) = some (sigIEOT, p) →
      p = ieotPayload (blockOffsets l.v4 12 [] l.blocks))
    (hsize : l.file.length < 4294967296) :
    threadedDecode l.version l.n (l.body ++ (encodeExts l.exts ++ l.trailer)) l.file (12 + l.body.length) threads
      = l.expected := by
  unfold threadedDecode Layout.expected
  have hdrop : List.drop (12 + l.body.length) l.file = encodeExts l.exts ++ l.trailer := by
    rw [Layout.file_split]
    have : 12 + l.body.length = (header l.version l.n ++ l.body).length := by
      simp only [List.length_append, header_length]
    rw [this, List.drop_left]
  rw [hdrop, threadedEntries_layout l h threads ht pre eoiePl hexts hieot hsize,
    extAll_encoded l.exts l.trailer h.exts h.trailer]
  cases extFold {} l.exts <;> rfl


/-- For a laid-out file whose last extension is the end-of-index entry git computes (offset of the
first extension, hash over the (signature, size) pairs before it) and whose offset table — if
there is one — is the one git records for the blocks: every thread limit gives the same, expected
outcome. -/
theorem fromBytes_layout_eoie (sha1 : Bytes → Bytes) (hsha : ∀ x, (sha1 x).length = 20) (l : Layout) (h : l.Ok)
    (threads : Nat) (ht : 1 ≤ threads) (pre : List (Bytes × Bytes))
    (hexts : l.exts = pre ++ [(sigEOIE, eoiePayload sha1 (12 + l.body.length) pre)])
    (hieot : ∀ p, pre.find? (fun sp => sp.1 == sigIEOT) = some (sigIEOT, p) →
      p = ieotPayload (blockOffsets l.v4 12 [] l.blocks))
    (hsize : l.file.length < 4294967296) :
    fromBytes sha1 threads l.file = l.expected := by
  by_cases h1 : threads > 1
  · have hQ : (header l.version l.n ++ l.body).length = 12 + l.body.length := by
      simp only [List.length_append, header_length]
    have hfile : l.file = (header l.version l.n ++ l.body) ++
        (encodeExts pre ++ (eoieExt sha1 (header l.version l.n ++ l.body).length pre ++ l.trailer)) := by
      rw [Layout.file_split, hexts, encodeExts_append, hQ]
      simp [encodeExts, eoieExt, List.append_assoc]
    have hpre : ∀ sp ∈ pre, ExtOk sp := fun sp hsp => h.exts sp (by rw [hexts]; simp [hsp])
    have hQ2 : (header l.version l.n ++ l.body).length < 4294967296 := by
      have : (header l.version l.n ++ l.body).length ≤ l.file.length := by
        rw [Layout.file_split]; simp only [List.length_append]; omega
      omega
    have hph : headerDecode l.file = some (l.version, l.n, l.body ++ (encodeExts l.exts ++ l.trailer)) := by
      unfold Layout.file
      exact headerDecode_encoded l.version l.n h.version h.count _
        (by simp only [List.length_append, h.trailer]; omega)
    unfold fromBytes
    rw [hph]
    simp only []
    cases hp : pre with
    | nil =>
      have hnone : eoieDecode sha1 l.file = none := by
        rw [hfile, hp]
        simp only [encodeExts, List.flatMap_nil, List.nil_append]
        exact eoieDecode_no_exts sha1 hsha _ _ hQ2 h.trailer
      rw [hnone]
      exact serialDecode_layout l h
    | cons x xs =>
      have hsome : eoieDecode sha1 l.file = some (12 + l.body.length) := by
        rw [hfile, ← hQ]
        exact eoieDecode_encoded sha1 hsha _ _ pre (by rw [hp]; simp) hpre (by rw [hQ]; omega) hQ2 h.trailer
      rw [hsome]
      simp only [h1, if_true]
      exact threadedDecode_layout l h threads h1 pre _ hexts hieot hsize
  · have : threads = 1 := by omega
    rw [this]
    exact fromBytes_one_layout sha1 l h

/-- Without a (recognisable) end-of-index entry every thread limit takes the serial branch. -/
theorem fromBytes_layout_no_eoie (sha1 : Bytes → Bytes) (l : Layout) (h : l.Ok) (threads : Nat)
    (hnone : eoieDecode sha1 l.file = none) :
    fromBytes sha1 threads l.file = l.expected := by
  have hph : headerDecode l.file = some (l.version, l.n, l.body ++ (encodeExts l.exts ++ l.trailer)) := by
    unfold Layout.file
    exact headerDecode_encoded l.version l.n h.version h.count _
      (by simp only [List.length_append, h.trailer]; omega)
  unfold fromBytes
  rw [hph]
  simp only [hnone]
  exact serialDecode_layout l h


/-! ### git's writer produces a layout -/

/-- the extension list of `gitEncodeIndex`, the end-of-index entry included -/
def indexExts (sha1 : Bytes → Bytes) (version : Nat) (blocks : List (List Entry)) (recordIeot : Bool)
    (exts : List (Bytes × Bytes)) (recordEoie : Bool) : List (Bytes × Bytes) :=
  let v4 := version == 4
  let allExts := (if recordIeot then [(sigIEOT, ieotPayload (blockOffsets v4 12 [] blocks))] else []) ++ exts
  allExts ++ (if recordEoie then [(sigEOIE, eoiePayload sha1 (12 + (gitEncodeBlocks v4 [] blocks).length) allExts)] else [])

def indexLayout (sha1 : Bytes → Bytes) (version : Nat) (blocks : List (List Entry)) (recordIeot : Bool)
    (exts : List (Bytes × Bytes)) (recordEoie : Bool) (trailer : Bytes) : Layout :=
  { version, blocks, exts := indexExts sha1 version blocks recordIeot exts recordEoie, trailer }

theorem gitEncodeIndex_eq_layout (sha1 : Bytes → Bytes) (version : Nat) (blocks : List (List Entry))
    (recordIeot : Bool) (exts : List (Bytes × Bytes)) (recordEoie : Bool) (trailer : Bytes) :
    gitEncodeIndex sha1 version blocks recordIeot exts recordEoie trailer =
      (indexLayout sha1 version blocks recordIeot exts recordEoie trailer).file := by
  unfold gitEncodeIndex indexLayout Layout.file Layout.body Layout.n Layout.v4 indexExts
  simp only [encodeExts_append, List.append_assoc]
  cases recordEoie <;> simp [encodeExts, List.append_assoc]

theorem indexLayout_ok (sha1 : Bytes → Bytes) (hsha : ∀ x, (sha1 x).length = 20) (version : Nat)
    (blocks : List (List Entry)) (recordIeot : Bool) (exts : List (Bytes × Bytes)) (recordEoie : Bool) (trailer : Bytes)
    (hv : version = 2 ∨ version = 3 ∨ version = 4)
    (hwf : ∀ b ∈ blocks, AllWf b) (hfit : ∀ b ∈ blocks, PathsFit b) (htr : trailer.length = hashLen)
    (hn : (blocks.map List.length).sum < 4294967296)
    (hexts : ∀ sp ∈ exts, sp.1.length = 4)
    (hsize : (indexLayout sha1 version blocks recordIeot exts recordEoie trailer).file.length < 4294967296) :
    (indexLayout sha1 version blocks recordIeot exts recordEoie trailer).Ok where
  version := hv
  count := hn
  wf := hwf
  fit := hfit
  trailer := htr
  exts := by
    intro sp hsp
    constructor
    · -- signature length
      simp only [indexLayout, indexExts, List.mem_append] at hsp
      rcases hsp with (hsp | hsp) | hsp
      · cases recordIeot <;> simp at hsp
        rw [hsp]; rfl
      · exact hexts sp hsp
      · cases recordEoie <;> simp at hsp
        rw [hsp]; rfl
    · have h1 := payload_le_encodeExts _ sp hsp
      have h2 : (encodeExts (indexLayout sha1 version blocks recordIeot exts recordEoie trailer).exts).length
          ≤ (indexLayout sha1 version blocks recordIeot exts recordEoie trailer).file.length := by
        simp only [Layout.file, List.length_append]; omega
      simp only [indexLayout] at h1 h2 hsize ⊢
      omega

/-- decoding, with any thread limit, the file git writes -/
theorem fromBytes_gitEncodeIndex (sha1 : Bytes → Bytes) (hsha : ∀ x, (sha1 x).length = 20) (version threads : Nat)
    (ht : 1 ≤ threads) (blocks : List (List Entry)) (recordIeot : Bool) (exts : List (Bytes × Bytes))
    (recordEoie : Bool) (trailer : Bytes)
    (hv : version = 2 ∨ version = 3 ∨ version = 4)
    (hwf : ∀ b ∈ blocks, AllWf b) (hfit : ∀ b ∈ blocks, PathsFit b) (htr : trailer.length = hashLen)
    (hn : (blocks.map List.length).sum < 4294967296)
    (hexts : ∀ sp ∈ exts, sp.1.length = 4 ∧ sp.1 ≠ sigIEOT)
    (hsize : (gitEncodeIndex sha1 version blocks recordIeot exts recordEoie trailer).length < 4294967296)
    (hno : recordEoie = false → eoieDecode sha1 (gitEncodeIndex sha1 version blocks recordIeot exts recordEoie trailer) = none) :
    fromBytes sha1 threads (gitEncodeIndex sha1 version blocks recordIeot exts recordEoie trailer) =
      (indexLayout sha1 version blocks recordIeot exts recordEoie trailer).expected := by
  rw [gitEncodeIndex_eq_layout] at hsize hno ⊢
  have hok := indexLayout_ok sha1 hsha version blocks recordIeot exts recordEoie trailer hv hwf hfit htr hn
    (fun sp hsp => (hexts sp hsp).1) hsize
  cases hE : recordEoie with
  | false =>
    rw [hE] at hno hok hsize
    exact fromBytes_layout_no_eoie sha1 _ hok threads (hno rfl)
  | true =>
    rw [hE] at hok hsize
    refine fromBytes_layout_eoie sha1 hsha _ hok threads ht
      ((if recordIeot then [(sigIEOT, ieotPayload (blockOffsets (version == 4) 12 [] blocks))] else []) ++ exts)
      ?_ ?_ hsize
    · simp only [indexLayout, indexExts, if_true, Layout.body, Layout.v4]
    · intro p hp
      simp only [indexLayout, Layout.v4]
      cases hI : recordIeot with
      | true =>
        rw [hI] at hp
        simp only [if_true, List.cons_append, List.nil_append, List.find?_cons, beq_self_eq_true] at hp
        simp only [Option.some.injEq, Prod.mk.injEq, true_and] at hp
        exact hp.symm
      | false =>
        rw [hI] at hp
        simp only [Bool.false_eq_true, if_false, List.nil_append] at hp
        have hmem := List.mem_of_find?_eq_some hp
        exact absurd rfl (hexts _ hmem).2


/-- `tree::decode` as an option (it neither fails nor panics after the repair) -/
def treeDecodeOpt (data : Bytes) : Option Tree :=
  match treeOne (data.length + 2) 0 data with
  | none => none
  | some (t, rest) => if rest.isEmpty then some t else none

theorem treeDecode_eq (data : Bytes) : treeDecode data = .ok (treeDecodeOpt data) := by
  unfold treeDecode treeDecodeOpt
  cases treeOne (data.length + 2) 0 data with
  | none => rfl
  | some x => obtain ⟨t, rest⟩ := x; simp only []; split <;> rfl

theorem extStep_tree (acc : Exts) (p : Bytes) : extStep acc sigTREE p = .ok { acc with tree := treeDecodeOpt p } := by
  simp [extStep, treeDecode_eq]

theorem extStep_reuc (acc : Exts) (p : Bytes) : extStep acc sigREUC p = .ok { acc with reuc := reucDecode p } := by
  simp [extStep, sigREUC, sigTREE]

theorem extStep_ieot (acc : Exts) (p : Bytes) : extStep acc sigIEOT p = .ok { acc with offsetTable := true } := by
  simp [extStep, sigIEOT, sigREUC, sigTREE, sigUNTR, sigFSMN, sigEOIE]

theorem extStep_eoie (acc : Exts) (p : Bytes) : extStep acc sigEOIE p = .ok { acc with endOfIndex := true } := by
  simp [extStep, sigIEOT, sigREUC, sigTREE, sigUNTR, sigFSMN, sigEOIE]

theorem extStep_sdir (acc : Exts) : extStep acc sigSdir [] = .ok { acc with isSparse := true } := by
  simp [extStep, sigIEOT, sigREUC, sigTREE, sigUNTR, sigFSMN, sigEOIE, sigSdir, sigLink]

/-- the extensions git writes after the offset table, in git's order -/
def gitExts (tree : Option Tree) (reuc : Option (List ReucPath)) (sparse : Bool) : List (Bytes × Bytes) :=
  (match tree with | some t => [(sigTREE, gitEncodeTree t)] | none => []) ++
  (match reuc with | some ps => [(sigREUC, gitEncodeReuc ps)] | none => []) ++
  (if sparse then [(sigSdir, [])] else [])

theorem gitExts_sigs (tree : Option Tree) (reuc : Option (List ReucPath)) (sparse : Bool) :
    ∀ sp ∈ gitExts tree reuc sparse, sp.1.length = 4 ∧ sp.1 ≠ sigIEOT := by
  intro sp hsp
  simp only [gitExts, List.mem_append] at hsp
  rcases hsp with (hsp | hsp) | hsp
  · cases tree <;> simp at hsp
    rw [hsp]; exact ⟨rfl, by simp only [sigTREE, sigIEOT]; decide⟩
  · cases reuc <;> simp at hsp
    rw [hsp]; exact ⟨rfl, by simp only [sigREUC, sigIEOT]; decide⟩
  · cases sparse <;> simp at hsp
    rw [hsp]; exact ⟨rfl, by simp only [sigSdir, sigIEOT]; decide⟩

/-- what `decode::all` collects from the extensions of a git-written index -/
def expectedExts (tree : Option Tree) (reuc : Option (List ReucPath)) (sparse recordIeot recordEoie : Bool) : Exts :=
  { tree := tree.bind fun t => treeDecodeOpt (gitEncodeTree t),
    reuc := reuc.bind fun ps => reucDecode (gitEncodeReuc ps),
    isSparse := sparse, offsetTable := recordIeot, endOfIndex := recordEoie }

theorem extFold_gitExts (sha1 : Bytes → Bytes) (version : Nat) (blocks : List (List Entry))
    (tree : Option Tree) (reuc : Option (List ReucPath)) (sparse recordIeot recordEoie : Bool) :
    extFold {} (indexExts sha1 version blocks recordIeot (gitExts tree reuc sparse) recordEoie) =
      .ok (expectedExts tree reuc sparse recordIeot recordEoie) := by
  unfold indexExts gitExts expectedExts
  cases tree <;> cases reuc <;> cases sparse <;> cases recordIeot <;> cases recordEoie <;>
    simp [extFold, extStep_tree, extStep_reuc, extStep_ieot, extStep_eoie, extStep_sdir]

theorem file_roundtrip' (sha1 : Bytes → Bytes) (hsha : ∀ x, (sha1 x).length = 20) (version threads : Nat)
    (ht : 1 ≤ threads) (blocks : List (List Entry)) (recordIeot recordEoie sparse : Bool)
    (tree : Option Tree) (reuc : Option (List ReucPath)) (trailer : Bytes)
    (hv : version = 2 ∨ version = 3 ∨ version = 4)
    (hwf : ∀ b ∈ blocks, AllWf b) (hfit : ∀ b ∈ blocks, PathsFit b) (htr : trailer.length = hashLen)
    (hn : (blocks.map List.length).sum < 4294967296)
    (hsize : (gitEncodeIndex sha1 version blocks recordIeot (gitExts tree reuc sparse) recordEoie trailer).length
      < 4294967296)
    (hno : recordEoie = false →
      eoieDecode sha1 (gitEncodeIndex sha1 version blocks recordIeot (gitExts tree reuc sparse) recordEoie trailer)
        = none) :
    fromBytes sha1 threads (gitEncodeIndex sha1 version blocks recordIeot (gitExts tree reuc sparse) recordEoie trailer)
      = .ok version blocks.flatten (isSparseEntries blocks.flatten || sparse)
          (expectedExts tree reuc sparse recordIeot recordEoie)
          (if isNull trailer then none else some trailer) := by
  rw [fromBytes_gitEncodeIndex sha1 hsha version threads ht blocks recordIeot _ recordEoie trailer hv hwf hfit htr hn
    (gitExts_sigs tree reuc sparse) hsize hno]
  unfold Layout.expected indexLayout
  simp only [extFold_gitExts]
  simp only [finish, htr, ne_eq, not_true_eq_false, if_false, expectedExts]

end GixModel.C24
