import GixModel.Lemmas.C04g
/-
C04 helper lemmas, part t: `upsert` of kind Tree with the id of a stored tree (a graft).
-/
namespace GixModel.C04
open GixModel GixModel.Tree
open GixModel.Spec.C04 (Leaf FS)

/-- the tree an upserted directory id stands for: nothing for the null id of a placeholder, else the
stored tree -/
def Grafts (store : Assoc Bytes (List Entry)) (id : Bytes) (ts : List Entry) : Prop :=
  (id = nullId ∧ ts = []) ∨ (id ≠ nullId ∧ aget id store = some ts)

theorem spec_graft_cons (n : Bytes) (p' : Path) (hp' : p' ≠ []) (sub : FS) (fs : FS) (q : Path) :
    Spec.C04.graft (n :: p') sub fs q =
      match q with
      | [] => none
      | m :: qs => if m = n then (if qs = [] then none
                     else Spec.C04.graft p' sub (fun r => fs (n :: r)) qs) else fs (m :: qs) := by
  unfold Spec.C04.graft
  cases q with
  | nil => simp
  | cons m qs =>
    simp only
    by_cases hm : m = n
    · subst hm
      simp only [if_true, List.cons.injEq, true_and, List.cons_prefix_cons, List.length_cons, List.drop_succ_cons]
      by_cases hq : qs = []
      · subst hq; simp [hp', Ne.symm hp']
      · simp [hq]
    · have h2 : ¬ (n :: p') <+: (m :: qs) := by
        rw [List.cons_prefix_cons]; intro h; exact hm h.1.symm
      have h3 : ¬ (m :: qs) <+: (n :: p') := by
        rw [List.cons_prefix_cons]; intro h; exact hm h.1
      simp [h2, h3, hm]

theorem spec_graft_congr (p : Path) (sub : FS) {f g : FS} (q : Path) (h : f q = g q) :
    Spec.C04.graft p sub f q = Spec.C04.graft p sub g q := by
  unfold Spec.C04.graft; rw [h]

/-- semantics of putting a directory entry for the stored tree `ts` at name `n` of the tree at `P`,
nothing being cached at or below `P ++ [n]` afterwards -/
theorem lookup_tree_update {ed ed' : Ed} (hs : ed'.store = ed.store) {P : Path}
    {t t' ts : List Entry} {n : Bytes} {e' : Entry} (hfe : findName t' n = some e')
    (hd : e'.isTree = true) (hne : e'.oid ≠ emptyTreeId) (hst : Grafts ed.store e'.oid ts)
    (hother : ∀ m, m ≠ n → findName t' m = findName t m)
    (hframe : ∀ K, ¬ (P ++ [n]) <+: K → K ≠ P → aget K ed'.trees = aget K ed.trees)
    (hgone : ∀ K, (P ++ [n]) <+: K → aget K ed'.trees = none) (q : Path) :
    lookupIn ed' t' P q =
      Spec.C04.graft [n] (lookupIn (storeEd ed.store) ts []) (lookupIn ed t P) q := by
  unfold Spec.C04.graft
  cases q with
  | nil => simp [lookupIn]
  | cons m qs =>
    by_cases hm : m = n
    · subst hm
      have h2 : [m] <+: (m :: qs) := (singleton_prefix_cons _ _ _).2 rfl
      cases qs with
      | nil => simp [lookupIn, hfe, leafOf, hd]
      | cons m2 rest =>
        have h1 : ¬ (m :: m2 :: rest = [m]) := by simp
        simp only [h2, if_true, h1, if_false, List.length_singleton, List.drop_succ_cons, List.drop_zero]
        have hres : resolve ed' (P ++ [m]) e'.oid = some ts := by
          rcases hst with ⟨h1, h2⟩ | ⟨h1, h2⟩
          · have : noFind e'.oid = true := by simp [noFind, h1]
            simp [resolve, hgone _ (List.prefix_refl _), this, h2]
          · simp [resolve, hgone _ (List.prefix_refl _), noFind_false hne h1, hs, h2]
        rw [lookupIn_cons_dir hfe hd hres (by simp)]
        rw [lookup_store_path ed.store (m2 :: rest) ts [] (P ++ [m])]
        apply lookupIn_congr (ed := storeEd ed.store) (ed' := ed') hs
        intro K hK _
        rw [hgone K hK]
        simp [storeEd, aget]
    · have h1 : ¬ [n] <+: (m :: qs) := fun h => hm ((singleton_prefix_cons _ _ _).1 h).symm
      have h3 : ¬ (m :: qs) <+: [n] := fun h => hm ((cons_prefix_singleton _ _ _).1 h).1
      simp only [h1, if_false, h3]
      rw [lookupIn_tree_congr_name ed' P (hother m hm) qs]
      apply lookupIn_congr_name hs
      intro K hK
      obtain ⟨h4, h5⟩ := under_child_ne hm hK
      exact hframe K h4 h5

/-- outcome of the last iteration of an `upsert` of kind Tree -/
def TreeOut (ed : Ed) (P : Path) (t : List Entry) (n : Bytes) (sub : FS) (r : Step) : Prop :=
  ∃ ed' t', r = .stop (.ok ed') ∧ Inv ed' ∧ ed'.store = ed.store ∧ aget P ed'.trees = some t' ∧
    (∀ K, ¬ P <+: K → aget K ed'.trees = aget K ed.trees) ∧
    (∀ q, lookupIn ed' t' P q = Spec.C04.graft [n] sub (lookupIn ed t P) q)

theorem tree_finish {ed : Ed} (hinv : Inv ed) {P : Path} {t : List Entry}
    (hP : aget P ed.trees = some t) {n : Bytes} {t' ts : List Entry} (ht' : TreeOk t') {e' : Entry}
    (hfe : findName t' n = some e') (hd : e'.isTree = true) (hst : Grafts ed.store e'.oid ts)
    (hother : ∀ m, m ≠ n → findName t' m = findName t m) (trees' : Assoc Path (List Entry))
    (hget : ∀ K, aget K trees' =
      if (P ++ [n]) <+: K then none else if K = P then some t' else aget K ed.trees)
    {r : Step} (hr : r = .stop (.ok { ed with trees := trees' })) :
    TreeOut ed P t n (lookupIn (storeEd ed.store) ts []) r := by
  have hmem := ((findName_eq_some_iff ht'.uniq).1 hfe).1
  have hinv' := inv_leaf_update hinv hP ht'
    (fun e he _ => by
      rw [hfe] at he; cases he
      rcases hst with ⟨h1, _⟩ | ⟨_, h2⟩
      · exact Or.inl (by simp [noFind, h1])
      · exact Or.inr (by simp [h2])) hother trees' hget ed.pathBuf
  refine ⟨{ ed with trees := trees' }, t', hr, hinv', rfl, ?_, ?_, ?_⟩
  · show aget P trees' = some t'
    rw [hget]; simp [not_prefix_append_singleton P n]
  · intro K hK
    show aget K trees' = aget K ed.trees
    rw [hget]
    have h1 : ¬ (P ++ [n]) <+: K := fun h => hK ((List.prefix_append P [n]).trans h)
    have h2 : K ≠ P := fun h => hK (h ▸ List.prefix_refl _)
    simp [h1, h2]
  · intro q
    apply lookup_tree_update (ed := ed) (ed' := { ed with trees := trees' }) rfl hfe hd
      (ht'.good e' hmem hd).1 hst hother
    · intro K h1 h2
      show aget K trees' = aget K ed.trees
      rw [hget]; simp [h1, h2]
    · intro K hK
      show aget K trees' = none
      rw [hget]; simp [hK]

/-- last iteration of `upsert` of kind Tree with the id of a stored tree -/
theorem leaf_step_upsert_tree {ed : Ed} (hinv : Inv ed) {P : Path} (hpb : ed.pathBuf = P)
    {t : List Entry} (hP : aget P ed.trees = some t) {n : Bytes} (hn : ValidName n) {k : KI}
    (hum : k.um = .normal) (hmode : k.mode = 0o040000) {ts : List Entry}
    (hst : Grafts ed.store k.id ts) (hne : k.id ≠ emptyTreeId) :
    TreeOut ed P t n (lookupIn (storeEd ed.store) ts []) (stepAt ed n true (some k)) := by
  have ht := hinv.trees P t hP
  have hgood : ∀ (nm : Bytes), GoodEntry ⟨0o040000, nm, k.id⟩ := fun _ _ => ⟨hne, rfl⟩
  cases hf : findName t n with
  | none =>
    obtain ⟨i, hs, hp⟩ := searchName_absent ht hn hf true
    let e3 : Entry := { name := n, mode := 0o040000, oid := k.id }
    have ht' := treeOk_insertAt ht hn hf hp e3 rfl isTree_040000 (hgood n)
    have hfn := findName_insertAt ht hn hf hp e3 rfl isTree_040000 (hgood n)
    refine tree_finish hinv hP ht' (e' := e3) (by rw [hfn]; simp) isTree_040000 hst ?_
      (aset P (insertAt t i e3) ed.trees) ?_ ?_
    · intro m hm; rw [hfn]; simp [hm]
    · intro K
      by_cases h1 : (P ++ [n]) <+: K
      · have hKP : K ≠ P := fun h => not_prefix_append_singleton P n (h ▸ h1)
        rw [aget_aset_ne _ _ hKP, if_pos h1]
        exact nothing_below hinv hP (by intro e he; rw [hf] at he; cases he) h1
      · rw [if_neg h1]
        by_cases h2 : K = P
        · subst h2; simp [aget_aset_self]
        · simp [aget_aset_ne _ _ h2, h2]
    · simp [stepAt, hpb, hP, hmode, hs, hum, e3]
  | some e =>
    obtain ⟨i, hs, hi, hti⟩ := searchName_found ht hn hf true
    have hen : e.name = n := ((findName_eq_some_iff ht.uniq).1 hf).2
    let e2 : Entry := { e with oid := k.id, mode := 0o040000 }
    have he2 : e2.isTree = true := isTree_040000
    have he2n : e2.name = t[i].name := by rw [hti]
    have hg2 : GoodEntry e2 := fun _ => ⟨hne, rfl⟩
    cases hd : e.isTree with
    | true =>
      have he2t : e2.isTree = t[i].isTree := by rw [hti, hd]; exact he2
      have ht' := treeOk_set_same ht hi e2 he2n he2t hg2
      have hfn := findName_set ht hi e2 he2n ht' (fun _ => Iff.rfl)
      rw [hti, hen] at hfn
      refine tree_finish hinv hP ht' (e' := e2) (by rw [hfn]; simp) he2 hst ?_
        (forgetBelow (aset P (t.set i e2) ed.trees) P n) ?_ ?_
      · intro m hm; rw [hfn]; simp [hm]
      · intro K
        rw [aget_forgetBelow]
        by_cases h1 : (P ++ [n]) <+: K
        · simp [h1]
        · simp only [h1, if_false]
          by_cases h2 : K = P
          · subst h2; simp [aget_aset_self]
          · simp [aget_aset_ne _ _ h2, h2]
      · simp [stepAt, hpb, hP, hs, List.getElem?_eq_getElem hi, hti, hum, hd, hmode, setAt, e2]
    | false =>
      have ht' := treeOk_set_sort ht hi e2 he2n hg2
      have hmem : ∀ x, x ∈ sortEntries (t.set i e2) ↔ x ∈ t.set i e2 :=
        fun x => (sortEntries_perm _).mem_iff
      have hfn := findName_set ht hi e2 he2n ht' hmem
      rw [hti, hen] at hfn
      refine tree_finish hinv hP ht' (e' := e2) (by rw [hfn]; simp) he2 hst ?_
        (aset P (sortEntries (t.set i e2)) ed.trees) ?_ ?_
      · intro m hm; rw [hfn]; simp [hm]
      · intro K
        by_cases h1 : (P ++ [n]) <+: K
        · have hKP : K ≠ P := fun h => not_prefix_append_singleton P n (h ▸ h1)
          rw [aget_aset_ne _ _ hKP, if_pos h1]
          exact nothing_below hinv hP (by intro x hx; rw [hf] at hx; cases hx; exact hd) h1
        · rw [if_neg h1]
          by_cases h2 : K = P
          · subst h2; simp [aget_aset_self]
          · simp [aget_aset_ne _ _ h2, h2]
      · simp [stepAt, hpb, hP, hs, List.getElem?_eq_getElem hi, hti, hum, hd, hmode, setAt, e2]

theorem graft_single_eq (n : Bytes) (sub : FS) (fs : FS) (q : Path) :
    Spec.C04.graft [n] sub fs q = Spec.C04.graft [n] sub fs q := rfl

theorem editLoop_upsert_tree (k : KI) (hum : k.um = .normal) (hmode : k.mode = 0o040000)
    (hne : k.id ≠ emptyTreeId) :
    ∀ (p : Path), p ≠ [] → (∀ n ∈ p, ValidName n) →
    ∀ (ed : Ed) (P : Path) (t ts : List Entry), Inv ed → ed.pathBuf = P → aget P ed.trees = some t →
      Grafts ed.store k.id ts →
      EditOut ed P t (Spec.C04.graft p (lookupIn (storeEd ed.store) ts [])) (editLoop (some k) ed p) := by
  intro p
  induction p with
  | nil => intro h; exact absurd rfl h
  | cons n rest ih =>
    intro _ hvalid ed P t ts hinv hpb hP hst
    have hn : ValidName n := hvalid n (by simp)
    cases rest with
    | nil =>
      obtain ⟨ed', t', hr, hinv', hs, hP', hframe, hsem⟩ :=
        leaf_step_upsert_tree hinv hpb hP hn hum hmode hst hne
      refine ⟨ed', t', ?_, hinv', hs, hP', hframe, hsem⟩
      simp [editLoop, nonempty_name hn, hr]
    | cons m rest' =>
      have hk : MkdirMode false k := by intro h; cases h
      obtain ⟨edS, lookup, ed1, t', tn, hstep, hdesc, hpb1, hinv1, hs1, hP1, hPn1, hdir, hother,
        hframe1, hsem1⟩ := mkdir_step hinv hpb hP hn hk
      obtain ⟨ed2, tn2, hr2, hinv2, hs2, hPn2, hframe2, hsem2⟩ :=
        ih (by simp) (fun x hx => hvalid x (List.mem_cons_of_mem _ hx)) ed1 (P ++ [n]) tn ts hinv1 hpb1 hPn1
          (by rw [hs1]; exact hst)
      have hP2 : aget P ed2.trees = some t' := by
        rw [hframe2 P (not_prefix_append_singleton P n)]; exact hP1
      obtain ⟨l0, l1, l2, l3⟩ := lookup_down (t := t) hs1 hs2 hdir hother hframe1 hframe2 hPn2
      refine ⟨ed2, t', ?_, hinv2, hs2.trans hs1, hP2, ?_, ?_⟩
      · have : editLoop (some k) ed (n :: m :: rest') = editLoop (some k) ed1 (m :: rest') := by
          rw [editLoop]
          simp only [nonempty_name hn, Bool.false_eq_true, if_false, List.isEmpty_cons, hstep, hdesc]
        rw [this]; exact hr2
      · intro K hK
        have h1 : ¬ (P ++ [n]) <+: K := fun h => hK ((List.prefix_append P [n]).trans h)
        rw [hframe2 K h1]
        apply hframe1
        · intro h; exact hK (h ▸ List.prefix_refl _)
        · intro h; exact h1 (h ▸ List.prefix_refl _)
      · intro q
        rw [spec_graft_cons n (m :: rest') (by simp)]
        cases q with
        | nil => exact l0
        | cons x qs =>
          simp only
          by_cases hx : x = n
          · subst hx
            simp only [if_true]
            by_cases hq : qs = []
            · subst hq; simp only [if_true]; exact l1
            · simp only [hq, if_false]
              rw [l2 qs hq, hsem2 qs, hs1]
              exact spec_graft_congr _ _ qs (hsem1 qs hq)
          · simp only [hx, if_false]
            exact l3 x qs hx

/-- `Editor::upsert(path, Tree, id)` with the id of a stored (non-empty-id) tree: a graft -/
theorem upsert_tree_spec {ed : Ed} (hinv : Inv ed) {p : Path} (hp : p ≠ [] ∧ ∀ n ∈ p, ValidName n)
    {id : Bytes} {ts : List Entry} (hst : Grafts ed.store id ts) (hne : id ≠ emptyTreeId) :
    ∃ ed', upsert ed p 0o040000 id = .ok ed' ∧ Inv ed' ∧ ed'.store = ed.store ∧
      abs ed' = Spec.C04.graft p (absStore ed.store ts) (abs ed) := by
  cases hroot : aget [] ed.trees with
  | none => have := hinv.root; simp [hroot] at this
  | some root =>
    obtain ⟨ed', t', hr, hinv', hs, hP', _, hsem⟩ :=
      editLoop_upsert_tree ⟨0o040000, id, .normal⟩ rfl rfl hne p hp.1 hp.2 { ed with pathBuf := [] } [] root ts
        (inv_pathBuf hinv []) rfl hroot hst
    refine ⟨ed', hr, hinv', hs, ?_⟩
    funext q
    have h1 : abs ed' q = lookupIn ed' t' [] q := by simp [abs, hP']
    rw [h1, hsem q]
    have h2 : lookupIn { ed with pathBuf := [] } root [] = abs ed := by
      funext r
      have := congrFun (abs_pathBuf ed []) r
      simp only [abs, hroot] at this
      simp only [abs, hroot]
      exact this
    rw [h2]; rfl

end GixModel.C04
