import GixModel.Model.C11
import GixModel.Lemmas.C56
/-
Helper lemmas for C11: decimal digits and `decode::loose_header ∘ encode::loose_header`, the
`inflateRest` loop on valid and on truncated streams.
-/
namespace GixModel.C11
open GixModel GixModel.C56

/-- per-run obligations on the constants extracted from the source -/
theorem HEADER_MAX_SIZE_ge : 28 ≤ HEADER_MAX_SIZE := by decide
theorem TRY_HEADER_room : HEADER_MAX_SIZE ≤ TRY_HEADER_BUF_SIZE ∧ 28 ≤ TRY_HEADER_BUF_SIZE - (TRY_HEADER_BUF_SIZE - HEADER_MAX_SIZE) := by decide

/-! ## decimal digits -/

def valueFrom (acc : Nat) (ds : Bytes) : Nat := ds.foldl (fun a b => a * 10 + (b.toNat - 48)) acc

theorem valueFrom_append (acc : Nat) (xs ys : Bytes) :
    valueFrom acc (xs ++ ys) = valueFrom (valueFrom acc xs) ys := by
  simp [valueFrom, List.foldl_append]

theorem le_valueFrom (ds : Bytes) : ∀ acc, acc ≤ valueFrom acc ds := by
  induction ds with
  | nil => intro acc; simp [valueFrom]
  | cons d ds ih =>
    intro acc
    have := ih (acc * 10 + (d.toNat - 48))
    simp only [valueFrom, List.foldl_cons] at this ⊢
    omega

theorem digit_ofNat (n : Nat) (h : n < 10) :
    isDigit10 (UInt8.ofNat (48 + n)) = true ∧ (UInt8.ofNat (48 + n)).toNat - 48 = n := by
  have ht : (UInt8.ofNat (48 + n)).toNat = 48 + n := by simp [UInt8.toNat_ofNat']; omega
  refine ⟨?_, by omega⟩
  simp only [isDigit10, Bool.and_eq_true, decide_eq_true_eq, UInt8.le_iff_toNat_le, ht]
  exact ⟨by decide +revert, by
    have : (57 : UInt8).toNat = 57 := rfl
    omega⟩

theorem digitsFuel_spec : ∀ (f n : Nat), n < 10 ^ f →
    (∀ b ∈ digitsFuel 10 f n, isDigit10 b = true) ∧ valueFrom 0 (digitsFuel 10 f n) = n ∧
    (0 < f → digitsFuel 10 f n ≠ []) := by
  intro f
  induction f with
  | zero =>
    intro n h
    have : n = 0 := by simpa using h
    subst this
    exact ⟨by simp [digitsFuel], by simp [digitsFuel, valueFrom], by omega⟩
  | succ f ih =>
    intro n h
    unfold digitsFuel
    by_cases hn : n < 10
    · simp only [hn, if_true]
      obtain ⟨h1, h2⟩ := digit_ofNat n hn
      refine ⟨by simpa using h1, ?_, by simp⟩
      simp only [valueFrom, List.foldl_cons, List.foldl_nil, h2]
      omega
    · simp only [hn, if_false]
      have hq : n / 10 < 10 ^ f := by
        rw [Nat.div_lt_iff_lt_mul (by omega)]
        rw [Nat.pow_succ] at h; exact h
      obtain ⟨i1, i2, _⟩ := ih (n / 10) hq
      obtain ⟨h1, h2⟩ := digit_ofNat (n % 10) (Nat.mod_lt _ (by omega))
      refine ⟨?_, ?_, by simp⟩
      · intro b hb
        simp only [List.mem_append, List.mem_singleton] at hb
        rcases hb with hb | hb
        · exact i1 b hb
        · subst hb; exact h1
      · rw [valueFrom_append, i2]
        simp only [valueFrom, List.foldl_cons, List.foldl_nil, h2]
        omega

theorem digitsFuel_length_le : ∀ (f n w : Nat), 1 ≤ w → n < 10 ^ w → (digitsFuel 10 f n).length ≤ w := by
  intro f
  induction f with
  | zero => intro n w _ _; simp [digitsFuel]
  | succ f ih =>
    intro n w hw h
    unfold digitsFuel
    by_cases hn : n < 10
    · simp only [hn, if_true, List.length_singleton]; exact hw
    · simp only [hn, if_false, List.length_append, List.length_singleton]
      have hw2 : 2 ≤ w := by
        by_cases h1 : w = 1
        · subst h1; simp at h; omega
        · omega
      have hq : n / 10 < 10 ^ (w - 1) := by
        rw [Nat.div_lt_iff_lt_mul (by omega)]
        have : w = (w - 1) + 1 := by omega
        rw [this, Nat.pow_succ] at h; exact h
      have := ih (n / 10) (w - 1) (by omega) hq
      omega

theorem lt_pow_fuel (n : Nat) : n < 10 ^ (n.log2 + 2) := by
  have h1 : n < 2 ^ (n.log2 + 1) := Nat.lt_log2_self
  have h2 : 2 ^ (n.log2 + 1) ≤ 10 ^ (n.log2 + 1) := Nat.pow_le_pow_left (by omega) _
  have h3 : 10 ^ (n.log2 + 1) ≤ 10 ^ (n.log2 + 2) := Nat.pow_le_pow_right (by omega) (by omega)
  omega

theorem natDec_spec (n : Nat) :
    (∀ b ∈ natDec n, isDigit10 b = true) ∧ valueFrom 0 (natDec n) = n ∧ natDec n ≠ [] := by
  obtain ⟨h1, h2, h3⟩ := digitsFuel_spec (n.log2 + 2) n (lt_pow_fuel n)
  exact ⟨h1, h2, h3 (by omega)⟩

theorem natDec_length_le (n : Nat) (h : n < 2 ^ 64) : (natDec n).length ≤ 20 :=
  digitsFuel_length_le _ n 20 (by omega) (by
    have : (2 : Nat) ^ 64 < 10 ^ 20 := by decide
    omega)

theorem parseU64Go_spec (ds : Bytes) : ∀ acc, (∀ b ∈ ds, isDigit10 b = true) → valueFrom acc ds < 2 ^ 64 →
    parseU64Go acc ds = some (valueFrom acc ds) := by
  induction ds with
  | nil => intro acc _ _; simp [parseU64Go, valueFrom]
  | cons d ds ih =>
    intro acc hd hv
    have hdig : isDigit10 d = true := hd d (by simp)
    have hle := le_valueFrom ds (acc * 10 + (d.toNat - 48))
    have hv' : valueFrom (acc * 10 + (d.toNat - 48)) ds < 2 ^ 64 := by
      simpa [valueFrom] using hv
    have h1 : ¬ acc * 10 ≥ 2 ^ 64 := by omega
    have h2 : ¬ acc * 10 + (d.toNat - 48) ≥ 2 ^ 64 := by omega
    simp only [parseU64Go, hdig, Bool.not_true, Bool.false_eq_true, if_false, h1, h2]
    rw [ih _ (fun b hb => hd b (by simp [hb])) hv']
    simp [valueFrom]

theorem digit_not_sign (d : UInt8) (h : isDigit10 d = true) : d ≠ 43 ∧ d ≠ 45 ∧ d ≠ 0 ∧ d ≠ 32 := by
  simp only [isDigit10, Bool.and_eq_true, decide_eq_true_eq, UInt8.le_iff_toNat_le] at h
  have a : (48 : UInt8).toNat = 48 := rfl
  refine ⟨?_, ?_, ?_, ?_⟩ <;> (intro hc; subst hc; revert h; decide)

theorem parseSize_natDec (n : Nat) (h : n < 2 ^ 64) : parseSize (natDec n) = some n := by
  obtain ⟨h1, h2, h3⟩ := natDec_spec n
  cases hd : natDec n with
  | nil => exact absurd hd h3
  | cons d ds =>
    have hdig : isDigit10 d = true := h1 d (by rw [hd]; simp)
    obtain ⟨n1, n2, _, _⟩ := digit_not_sign d hdig
    simp only [parseSize, n1, n2, if_false]
    have : parseU64 (d :: ds) = parseU64Go 0 (d :: ds) := by simp [parseU64]
    rw [this, ← hd, parseU64Go_spec (natDec n) 0 h1 (by rw [h2]; exact h), h2]

/-! ## `findByte` -/

theorem findByte_append_hit (b : UInt8) (xs ys : Bytes) (h : ∀ x ∈ xs, x ≠ b) :
    findByte b (xs ++ b :: ys) = some xs.length := by
  induction xs with
  | nil => simp [findByte]
  | cons x xs ih =>
    have hx : (x == b) = false := by simpa using h x (by simp)
    simp only [List.cons_append, findByte, hx, Bool.false_eq_true, if_false, List.length_cons]
    rw [ih (fun y hy => h y (by simp [hy]))]
    rfl

theorem findByte_none (b : UInt8) (xs : Bytes) (h : ∀ x ∈ xs, x ≠ b) : findByte b xs = none := by
  induction xs with
  | nil => rfl
  | cons x xs ih =>
    have hx : (x == b) = false := by simpa using h x (by simp)
    simp only [findByte, hx, Bool.false_eq_true, if_false]
    rw [ih (fun y hy => h y (by simp [hy]))]
    rfl

/-! ## `decode::loose_header` inverts `encode::loose_header` -/

theorem kind_bytes_clean (k : Kind) : ∀ x ∈ k.bytes, x ≠ 32 ∧ x ≠ 0 := by
  cases k <;> decide

theorem kindOfBytes_bytes (k : Kind) : kindOfBytes k.bytes = some k := by
  cases k <;> decide

theorem kind_bytes_length (k : Kind) : k.bytes.length ≤ 6 := by
  cases k <;> decide

theorem looseHeader_length_le (k : Kind) (n : Nat) (h : n < 2 ^ 64) : (looseHeader k n).length ≤ 28 := by
  have := natDec_length_le n h
  have := kind_bytes_length k
  simp only [looseHeader, List.length_append, List.length_cons, List.length_nil]
  omega

theorem decode_encode (k : Kind) (n : Nat) (h : n < 2 ^ 64) (rest : Bytes) :
    decodeLooseHeader (looseHeader k n ++ rest) = some (k, n, (looseHeader k n).length) := by
  obtain ⟨hd, _, _⟩ := natDec_spec n
  have hk := kind_bytes_clean k
  have e1 : looseHeader k n ++ rest = k.bytes ++ 32 :: (natDec n ++ 0 :: rest) := by
    simp [looseHeader, List.append_assoc]
  have e2 : looseHeader k n ++ rest = (k.bytes ++ 32 :: natDec n) ++ 0 :: rest := by
    simp [looseHeader, List.append_assoc]
  have f1 : findByte 32 (looseHeader k n ++ rest) = some k.bytes.length := by
    rw [e1]; exact findByte_append_hit 32 _ _ (fun x hx => (hk x hx).1)
  have f2 : findByte 0 (looseHeader k n ++ rest) = some (k.bytes ++ 32 :: natDec n).length := by
    rw [e2]
    apply findByte_append_hit
    intro x hx
    simp only [List.mem_append, List.mem_cons] at hx
    rcases hx with hx | hx | hx
    · exact (hk x hx).2
    · subst hx; decide
    · exact (digit_not_sign x (hd x hx)).2.2.1
  have t1 : (looseHeader k n ++ rest).take k.bytes.length = k.bytes := by
    rw [e1, List.take_left']
    rfl
  have t2 : ((looseHeader k n ++ rest).take (k.bytes ++ 32 :: natDec n).length).drop (k.bytes.length + 1) = natDec n := by
    rw [e2, List.take_left' rfl]
    have : k.bytes ++ 32 :: natDec n = (k.bytes ++ [32]) ++ natDec n := by simp
    rw [this, List.drop_left' (by simp)]
  simp only [decodeLooseHeader, f1, f2, t1, kindOfBytes_bytes, t2, parseSize_natDec n h]
  simp [looseHeader]
  omega

theorem decode_some_has_nul (p : Bytes) (x : Kind × Nat × Nat) (h : decodeLooseHeader p = some x) :
    ∃ i, findByte 0 p = some i := by
  unfold decodeLooseHeader at h
  cases h1 : findByte 32 p with
  | none => simp [h1] at h
  | some a =>
    simp only [h1] at h
    cases h2 : kindOfBytes (p.take a) with
    | none => simp [h2] at h
    | some kd =>
      simp only [h2] at h
      cases h3 : findByte 0 p with
      | none => simp [h3] at h
      | some i => exact ⟨i, rfl⟩

/-- a prefix of `header ++ body` that decodes at all decodes to the header's values -/
theorem decode_prefix (k : Kind) (n : Nat) (hn : n < 2 ^ 64) (rest p : Bytes) (x : Kind × Nat × Nat)
    (hp : p <+: looseHeader k n ++ rest) (h : decodeLooseHeader p = some x) :
    x = (k, n, (looseHeader k n).length) ∧ (looseHeader k n).length ≤ p.length := by
  by_cases hl : (looseHeader k n).length ≤ p.length
  · -- `p` contains the whole header
    obtain ⟨t, ht⟩ := hp
    have hpe : p = looseHeader k n ++ (p.drop (looseHeader k n).length) := by
      have h1 : (looseHeader k n ++ rest).take (looseHeader k n).length = looseHeader k n := List.take_left' rfl
      have h2 : (p ++ t).take (looseHeader k n).length = p.take (looseHeader k n).length := by
        rw [List.take_append_of_le_length hl]
      rw [ht] at h2
      rw [h1] at h2
      conv => lhs; rw [← List.take_append_drop (looseHeader k n).length p]
      rw [← h2]
    rw [hpe, decode_encode k n hn] at h
    exact ⟨by simpa using h.symm, hl⟩
  · -- a strict prefix of the header has no NUL
    exfalso
    obtain ⟨i, hi⟩ := decode_some_has_nul p x h
    have hpre : p <+: k.bytes ++ 32 :: natDec n := by
      have hh : looseHeader k n = (k.bytes ++ 32 :: natDec n) ++ [0] := by simp [looseHeader]
      have hlen : p.length ≤ (k.bytes ++ 32 :: natDec n).length := by
        rw [hh] at hl; simp only [List.length_append, List.length_cons, List.length_nil] at hl ⊢; omega
      rw [hh, List.append_assoc] at hp
      exact List.prefix_of_prefix_length_le hp (List.prefix_append _ _) hlen
    obtain ⟨hd, _, _⟩ := natDec_spec n
    have hk := kind_bytes_clean k
    have hclean : ∀ y ∈ p, y ≠ 0 := by
      intro y hy
      have hy' := (List.IsPrefix.subset hpre) hy
      simp only [List.mem_append, List.mem_cons] at hy'
      rcases hy' with h1 | h1 | h1
      · exact (hk y h1).2
      · subst h1; decide
      · exact (digit_not_sign y (hd y h1)).2.2.1
    rw [findByte_none 0 p hclean] at hi
    exact absurd hi (by simp)

/-! ## the `inflateRest` loop (the fix) -/

theorem prefix_drop {p l : Bytes} (h : p <+: l) (n : Nat) (hn : n ≤ p.length) : p.drop n <+: l.drop n := by
  obtain ⟨t, ht⟩ := h
  exact ⟨t, by rw [← ht, List.drop_append_of_le_length hn]⟩

theorem take_append_prefix {d p : Bytes} (o : Nat) (hp : p <+: d.drop o) :
    d.take o ++ p = d.take (o + p.length) := by
  have : p = (d.drop o).take p.length := List.prefix_iff_eq_take.mp hp
  rw [List.take_add]
  congr 1

/-- on (the rest of) a valid stream the loop ends with `StreamEnd` and yields the whole content -/
theorem inflateRest_valid {D : Decompressor} {IsStream : Bytes → Bytes → Prop} (K : DecompressorOk D IsStream)
    (z d : Bytes) : ∀ (fuel : Nat) (s : D.σ) (i o : Nat) (acc : Bytes),
    K.Inv s z d i o → i ≤ z.length → o ≤ d.length → acc = d.take o →
    (z.length - i) + (d.length - o) < fuel →
    inflateRest D fuel s (z.drop i) (d.length - o) acc = .ok d := by
  intro fuel
  induction fuel with
  | zero => intro s i o acc _ _ _ _ h; omega
  | succ fuel ih =>
    intro s i o acc hinv hi ho hacc hfuel
    have hpre : z.drop i <+: z.drop i := List.prefix_refl _
    obtain ⟨r, hr⟩ := K.total (d.length - o) hinv hpre
    obtain ⟨hc, hp, hpp, hnext, hend⟩ := K.step hinv hpre hr
    have h1 : ¬ r.consumed > (z.drop i).length := by omega
    have h2 : ¬ r.produced.length > d.length - o := by omega
    have hacc' : acc ++ r.produced = d.take (o + r.produced.length) := by
      rw [hacc]; exact take_append_prefix o hpp
    cases hst : r.status with
    | streamEnd =>
      obtain ⟨_, hdl⟩ := hend hst
      simp only [inflateRest, inflateOnce, hr, h1, h2, if_false, hst]
      rw [hacc', hdl, List.take_length]
    | ok =>
      have hne : r.status ≠ .streamEnd := by rw [hst]; simp
      have hprog := K.finish_progress hinv (Nat.le_refl _) hr hne
      have hb : (r.consumed ≠ 0 || r.produced.length ≠ 0) = true := by
        rcases hprog with h | h
        · have : r.consumed ≠ 0 := by omega
          simp [this]
        · have : r.produced.length ≠ 0 := fun h0 => h (List.eq_nil_of_length_eq_zero h0)
          simp [this]
      have hlen : (z.drop i).length = z.length - i := List.length_drop
      have hdec : (z.length - (i + r.consumed)) + (d.length - (o + r.produced.length)) < fuel := by
        rcases hprog with h | h
        · omega
        · have : r.produced.length ≠ 0 := fun h0 => h (List.eq_nil_of_length_eq_zero h0)
          omega
      have := ih r.state (i + r.consumed) (o + r.produced.length) (acc ++ r.produced) (hnext hne)
        (by omega) (by omega) hacc' hdec
      simp only [inflateRest, inflateOnce, hr, h1, h2, if_false, hst, hb, if_true]
      rw [List.drop_drop, Nat.sub_sub]
      exact this
    | bufError =>
      have hne : r.status ≠ .streamEnd := by rw [hst]; simp
      have hprog := K.finish_progress hinv (Nat.le_refl _) hr hne
      obtain ⟨b1, b2⟩ := K.buf_error hr hst
      rcases hprog with h | h
      · omega
      · exact absurd b2 h

/-- on a stream whose end is not within the available input the loop can only fail -/
theorem inflateRest_trunc {D : Decompressor} {IsStream : Bytes → Bytes → Prop} (K : DecompressorOk D IsStream)
    (z d : Bytes) : ∀ (fuel : Nat) (s : D.σ) (input : Bytes) (room : Nat) (acc : Bytes) (i o : Nat),
    K.Inv s z d i o → input <+: z.drop i → i + input.length < z.length → input.length + room < fuel →
    ∃ e, inflateRest D fuel s input room acc = .err e := by
  intro fuel
  induction fuel with
  | zero => intro s input room acc i o _ _ _ h; omega
  | succ fuel ih =>
    intro s input room acc i o hinv hpre hlt hfuel
    cases hr : D.decompress s input room false with
    | none => exact ⟨.decompress, by simp only [inflateRest, inflateOnce, hr]⟩
    | some r =>
      obtain ⟨hc, hp, _, hnext, hend⟩ := K.step hinv hpre hr
      have h1 : ¬ r.consumed > input.length := by omega
      have h2 : ¬ r.produced.length > room := by omega
      cases hst : r.status with
      | streamEnd =>
        obtain ⟨hz, _⟩ := hend hst
        omega
      | bufError => exact ⟨.decompress, by simp only [inflateRest, inflateOnce, hr, h1, h2, if_false, hst]⟩
      | ok =>
        have hne : r.status ≠ .streamEnd := by rw [hst]; simp
        by_cases hb : (r.consumed ≠ 0 || r.produced.length ≠ 0) = true
        · have hdec : (input.drop r.consumed).length + (room - r.produced.length) < fuel := by
            simp only [List.length_drop]
            simp only [Bool.or_eq_true, decide_eq_true_eq, ne_eq] at hb
            omega
          obtain ⟨e, he⟩ := ih r.state (input.drop r.consumed) (room - r.produced.length) (acc ++ r.produced)
            (i + r.consumed) (o + r.produced.length) (hnext hne)
            (by rw [← List.drop_drop]; exact prefix_drop hpre _ hc)
            (by simp only [List.length_drop]; omega) hdec
          exact ⟨e, by simp only [inflateRest, inflateOnce, hr, h1, h2, if_false, hst, hb, if_true]; exact he⟩
        · exact ⟨.decompress, by simp only [inflateRest, inflateOnce, hr, h1, h2, if_false, hst, hb]; rfl⟩

/-! ## `find_inner` -/

theorem prefix_of_take {d p : Bytes} (hp : p <+: d) (h : p.length = d.length) : p = d := by
  obtain ⟨t, ht⟩ := hp
  have : t = [] := by
    have := congrArg List.length ht
    simp only [List.length_append] at this
    exact List.eq_nil_of_length_eq_zero (by omega)
  rw [this, List.append_nil] at ht
  exact ht

/-- the first `once` call of `find_inner`/`try_header` on a complete valid stream, given room for at
least the header: it is not `BufError`, and its output decodes to the header's values -/
theorem first_once_valid {D : Decompressor} {IsStream : Bytes → Bytes → Prop} (K : DecompressorOk D IsStream)
    (k : Kind) (body z : Bytes) (hn : body.length < 2 ^ 64)
    (hz : IsStream z (looseHeader k body.length ++ body)) (cap : Nat) (hcap : 28 ≤ cap) :
    ∃ r, D.decompress D.init z cap false = some r ∧ r.status ≠ .bufError ∧ r.consumed ≤ z.length ∧
      r.produced <+: looseHeader k body.length ++ body ∧
      decodeLooseHeader r.produced = some (k, body.length, (looseHeader k body.length).length) ∧
      (r.status = .streamEnd → r.produced = looseHeader k body.length ++ body) ∧
      (r.status ≠ .streamEnd → r.produced.length = cap ∧
        K.Inv r.state z (looseHeader k body.length ++ body) r.consumed r.produced.length) := by
  have hinv := K.inv_init hz
  have hpre : z <+: z.drop 0 := by simp
  obtain ⟨r, hr⟩ := K.total cap hinv hpre
  obtain ⟨hc, hp, hpp, hnext, hend⟩ := K.step hinv hpre hr
  simp only [List.drop_zero, Nat.zero_add] at hpp hnext hend
  have hzne := K.stream_ne hz
  have hzl : 0 < z.length := by
    cases z with
    | nil => exact absurd rfl hzne
    | cons _ _ => simp
  have hH := looseHeader_length_le k body.length hn
  -- before the end the first call fills the output
  have hfull : r.status ≠ .streamEnd → r.produced.length = cap := by
    intro hne
    rcases K.greedy_init hz (by simp : z <+: z) hr hne with h | h
    · exact h
    · by_cases hlt : r.produced.length < cap
      · have := K.end_detect hinv hpre hr hne h hlt
        omega
      · omega
  have hnb : r.status ≠ .bufError := by
    intro hb
    obtain ⟨_, b2⟩ := K.buf_error hr hb
    have := hfull (by rw [hb]; simp)
    rw [b2] at this
    simp at this
    omega
  have hdec : decodeLooseHeader r.produced = some (k, body.length, (looseHeader k body.length).length) := by
    by_cases hst : r.status = .streamEnd
    · obtain ⟨_, hdl⟩ := hend hst
      rw [prefix_of_take hpp hdl]
      exact decode_encode k body.length hn body
    · have hl := hfull hst
      -- `produced` holds the whole header, hence is `header ++ something`
      obtain ⟨t, ht⟩ := hpp
      have hge : (looseHeader k body.length).length ≤ r.produced.length := by omega
      have hpe : r.produced = looseHeader k body.length ++ (r.produced.drop (looseHeader k body.length).length) := by
        have h1 : (looseHeader k body.length ++ body).take (looseHeader k body.length).length = looseHeader k body.length :=
          List.take_left' rfl
        have h2 : (r.produced ++ t).take (looseHeader k body.length).length =
            r.produced.take (looseHeader k body.length).length := by
          rw [List.take_append_of_le_length hge]
        rw [ht, h1] at h2
        conv => lhs; rw [← List.take_append_drop (looseHeader k body.length).length r.produced]
        rw [← h2]
      rw [hpe]
      exact decode_encode k body.length hn _
  refine ⟨r, hr, hnb, hc, hpp, hdec, ?_, ?_⟩
  · intro hst
    obtain ⟨_, hdl⟩ := hend hst
    exact prefix_of_take hpp hdl
  · intro hne
    exact ⟨hfull hne, hnext hne⟩

/-- reading back: a complete valid stream of `header ++ body` is found as `(kind, body)` -/
theorem findInner_valid {D : Decompressor} {IsStream : Bytes → Bytes → Prop} (K : DecompressorOk D IsStream)
    (k : Kind) (body z : Bytes) (hz : IsStream z (looseHeader k body.length ++ body))
    (hsz : z.length + body.length + 28 < 2 ^ 63) : findInner D z = .ok k body := by
  have hn : body.length < 2 ^ 64 := by omega
  have hH := looseHeader_length_le k body.length hn
  obtain ⟨r1, hr1, hnb, hc1, hpp, hdec, hE, hN⟩ :=
    first_once_valid K k body z hn hz HEADER_MAX_SIZE HEADER_MAX_SIZE_ge
  have hdl : (looseHeader k body.length ++ body).length = body.length + (looseHeader k body.length).length := by
    simp only [List.length_append]; omega
  have hbody : (looseHeader k body.length ++ body).drop (looseHeader k body.length).length = body :=
    List.drop_left' rfl
  have g1 : ¬ body.length + (looseHeader k body.length).length ≥ 2 ^ 64 := by omega
  by_cases hst : r1.status = .streamEnd
  · have hp := hE hst
    have g2 : ¬ r1.produced.length ≠ body.length + (looseHeader k body.length).length := by
      rw [hp, hdl]; simp
    simp only [findInner, inflateOnce, hr1, hdec, g1, hst, if_true, g2, reduceCtorEq, if_false]
    rw [hp, hbody]
  · obtain ⟨hfull, hinv⟩ := hN hst
    have hple := List.IsPrefix.length_le hpp
    have g3 : ¬ z.length + body.length + (looseHeader k body.length).length ≥ 2 ^ 63 := by omega
    have g4 : ¬ r1.consumed > z.length := by omega
    have g5 : ¬ r1.produced.length > body.length + (looseHeader k body.length).length := by
      rw [← hdl]; omega
    have hacc : r1.produced = (looseHeader k body.length ++ body).take r1.produced.length :=
      List.prefix_iff_eq_take.mp hpp
    have hrest := inflateRest_valid K z (looseHeader k body.length ++ body)
      (z.length + body.length + (looseHeader k body.length).length + 2) r1.state r1.consumed r1.produced.length
      r1.produced hinv hc1 hple hacc (by rw [hdl]; omega)
    rw [hdl] at hrest
    have g6 : ¬ (looseHeader k body.length ++ body).length ≠ body.length + (looseHeader k body.length).length := by
      rw [hdl]; simp
    simp only [findInner, inflateOnce, hr1, hnb, if_false, hdec, g1, hst, g3, g4, g5, hrest, g6]
    rw [hbody]

/-- a file that stops before the end of the stream is an error — never `Ok`, never a panic -/
theorem findInner_truncated {D : Decompressor} {IsStream : Bytes → Bytes → Prop} (K : DecompressorOk D IsStream)
    (k : Kind) (body z p : Bytes) (hz : IsStream z (looseHeader k body.length ++ body))
    (hp : p <+: z) (hlt : p.length < z.length) (hsz : z.length + body.length + 28 < 2 ^ 63) :
    ∃ e, findInner D p = .err e := by
  have hn : body.length < 2 ^ 64 := by omega
  have hH := looseHeader_length_le k body.length hn
  have hinv := K.inv_init hz
  have hpre : p <+: z.drop 0 := by simpa using hp
  cases hr1 : D.decompress D.init p HEADER_MAX_SIZE false with
  | none => exact ⟨.decompress, by simp only [findInner, inflateOnce, hr1]⟩
  | some r1 =>
    obtain ⟨hc, hpl, hpp, hnext, hend⟩ := K.step hinv hpre hr1
    simp only [List.drop_zero, Nat.zero_add] at hpp hnext hend
    have hne : r1.status ≠ .streamEnd := by
      intro h
      obtain ⟨h1, _⟩ := hend h
      omega
    by_cases hb : r1.status = .bufError
    · exact ⟨.decompress, by simp only [findInner, inflateOnce, hr1, hb, if_true]⟩
    · cases hdec : decodeLooseHeader r1.produced with
      | none => exact ⟨.decode, by simp only [findInner, inflateOnce, hr1, hb, if_false, hdec]⟩
      | some x =>
        obtain ⟨hx, hxl⟩ := decode_prefix k body.length hn body r1.produced x hpp hdec
        subst hx
        have hdl : (looseHeader k body.length ++ body).length = body.length + (looseHeader k body.length).length := by
          simp only [List.length_append]; omega
        have hple := List.IsPrefix.length_le hpp
        have hplen := List.IsPrefix.length_le hp
        have g1 : ¬ body.length + (looseHeader k body.length).length ≥ 2 ^ 64 := by omega
        have g3 : ¬ p.length + body.length + (looseHeader k body.length).length ≥ 2 ^ 63 := by omega
        have g4 : ¬ r1.consumed > p.length := by omega
        have g5 : ¬ r1.produced.length > body.length + (looseHeader k body.length).length := by
          rw [← hdl]; omega
        obtain ⟨e, he⟩ := inflateRest_trunc K z (looseHeader k body.length ++ body)
          (p.length + body.length + (looseHeader k body.length).length + 2) r1.state (p.drop r1.consumed)
          (body.length + (looseHeader k body.length).length - r1.produced.length) r1.produced
          r1.consumed r1.produced.length (hnext hne)
          (by
            have := prefix_drop hpre r1.consumed hc
            simpa using this)
          (by simp only [List.length_drop]; omega)
          (by simp only [List.length_drop]; omega)
        exact ⟨e, by simp only [findInner, inflateOnce, hr1, hb, if_false, hdec, g1, hne, g3, g4, g5, he]⟩

/-- `try_header` never reports a wrong size or kind, whatever prefix of the file it is given -/
theorem tryHeader_sound {D : Decompressor} {IsStream : Bytes → Bytes → Prop} (K : DecompressorOk D IsStream)
    (k : Kind) (body z p : Bytes) (hz : IsStream z (looseHeader k body.length ++ body))
    (hn : body.length < 2 ^ 64) (hp : p <+: z) (size : Nat) (kind : Kind)
    (h : tryHeader D p = .ok size kind) : size = body.length ∧ kind = k := by
  have hinv := K.inv_init hz
  have hgen : ∀ c : Bytes, c <+: z → tryHeaderOn D c = .ok size kind → size = body.length ∧ kind = k := by
    intro c hc h
    have hpre : c <+: z.drop 0 := by simpa using hc
    unfold tryHeaderOn at h
    simp only [inflateOnce] at h
    cases hr : D.decompress D.init c (TRY_HEADER_BUF_SIZE - c.length) false with
    | none => rw [hr] at h; simp at h
    | some r =>
      obtain ⟨_, _, hpp, _, _⟩ := K.step hinv hpre hr
      simp only [List.drop_zero] at hpp
      rw [hr] at h
      by_cases hb : r.status = .bufError
      · simp [hb] at h
      · simp only [hb, if_false] at h
        cases hdec : decodeLooseHeader r.produced with
        | none => rw [hdec] at h; simp at h
        | some x =>
          obtain ⟨hx, _⟩ := decode_prefix k body.length hn body r.produced x hpp hdec
          subst hx
          rw [hdec] at h
          simp only [HeaderRes.ok.injEq] at h
          exact ⟨h.1.symm, h.2.symm⟩
  exact hgen _ (List.IsPrefix.trans (List.take_prefix _ _) hp) h

/-- … and when the whole file fits its read buffer it does report them -/
theorem tryHeader_small {D : Decompressor} {IsStream : Bytes → Bytes → Prop} (K : DecompressorOk D IsStream)
    (k : Kind) (body z : Bytes) (hz : IsStream z (looseHeader k body.length ++ body))
    (hn : body.length < 2 ^ 64) (hsmall : z.length ≤ TRY_HEADER_BUF_SIZE - HEADER_MAX_SIZE) :
    tryHeader D z = .ok body.length k := by
  have ht : z.take (TRY_HEADER_BUF_SIZE - HEADER_MAX_SIZE) = z := List.take_of_length_le hsmall
  have hcap : 28 ≤ TRY_HEADER_BUF_SIZE - z.length := by
    have := TRY_HEADER_room
    omega
  obtain ⟨r, hr, hnb, _, _, hdec, _, _⟩ := first_once_valid K k body z hn hz (TRY_HEADER_BUF_SIZE - z.length) hcap
  simp only [tryHeader, tryHeaderOn, inflateOnce, ht, hr, hnb, if_false, hdec]

/-! ## arbitrary files: no panic -/

/-- what the `flate2` API guarantees by its types for ANY state and input (it reads from a slice and
writes into a slice): a call consumes at most its input and produces at most its room -/
def DecompressorBounded (D : Decompressor) : Prop :=
  ∀ (s : D.σ) (inp : Bytes) (cap : Nat) (fin : Bool) (r : Step D.σ),
    D.decompress s inp cap fin = some r → r.consumed ≤ inp.length ∧ r.produced.length ≤ cap

theorem inflateRest_no_panic {D : Decompressor} (hB : DecompressorBounded D) :
    ∀ (fuel : Nat) (s : D.σ) (input : Bytes) (room : Nat) (acc : Bytes), input.length + room < fuel →
    inflateRest D fuel s input room acc ≠ .panic ∧ inflateRest D fuel s input room acc ≠ .outOfFuel := by
  intro fuel
  induction fuel with
  | zero => intro s input room acc h; omega
  | succ fuel ih =>
    intro s input room acc hf
    cases hr : D.decompress s input room false with
    | none => simp [inflateRest, inflateOnce, hr]
    | some r =>
      obtain ⟨hc, hp⟩ := hB s input room false r hr
      have h1 : ¬ r.consumed > input.length := by omega
      have h2 : ¬ r.produced.length > room := by omega
      cases hst : r.status with
      | streamEnd => simp [inflateRest, inflateOnce, hr, h1, h2, hst]
      | bufError => simp [inflateRest, inflateOnce, hr, h1, h2, hst]
      | ok =>
        by_cases hb : (r.consumed ≠ 0 || r.produced.length ≠ 0) = true
        · have hdec : (input.drop r.consumed).length + (room - r.produced.length) < fuel := by
            simp only [List.length_drop]
            simp only [Bool.or_eq_true, decide_eq_true_eq, ne_eq] at hb
            omega
          have := ih r.state (input.drop r.consumed) (room - r.produced.length) (acc ++ r.produced) hdec
          simp only [inflateRest, inflateOnce, hr, h1, h2, if_false, hst, hb, if_true]
          exact this
        · simp only [inflateRest, inflateOnce, hr, h1, h2, if_false, hst, hb]
          simp

/-- `find_inner` on ANY file content — valid, truncated, garbage, with a header that lies in either
direction or advertises up to `u64::MAX` bytes — returns `Ok` or `Err`: no slice panic, no arithmetic
overflow, and the loop's fuel suffices. -/
theorem findInner_no_panic {D : Decompressor} (hB : DecompressorBounded D) (file : Bytes) :
    findInner D file ≠ .panic ∧ findInner D file ≠ .outOfFuel := by
  unfold findInner
  cases hr1 : inflateOnce D D.init file HEADER_MAX_SIZE with
  | none => simp
  | some r1 =>
    obtain ⟨hc, _⟩ := hB D.init file HEADER_MAX_SIZE false r1 hr1
    simp only
    split
    · simp
    · split
      · simp
      · rename_i kind size headerSize _
        split
        · simp
        · split
          · split <;> simp
          · split
            · simp
            · split
              · simp
              · have g : ¬ r1.consumed > file.length := by omega
                simp only [g, if_false]
                rename_i hle _
                have hfuel : (file.drop r1.consumed).length + (size + headerSize - r1.produced.length)
                    < file.length + size + headerSize + 2 := by
                  simp only [List.length_drop]; omega
                obtain ⟨n1, n2⟩ := inflateRest_no_panic hB _ r1.state (file.drop r1.consumed)
                  (size + headerSize - r1.produced.length) r1.produced hfuel
                split
                · exact absurd ‹_› n1
                · exact absurd ‹_› n2
                · simp
                · split <;> simp

/-! ## `try_header` for files longer than its read buffer -/

/-- A property of the STREAMS (of how the compressor lays them out), not of the zlib API: the first
`TRY_HEADER_BUF_SIZE - HEADER_MAX_SIZE` (192) bytes of a stream already yield 28 bytes of content if
there is room for them. It cannot follow from `DecompressorOk`: a valid deflate stream may spend more
than 192 bytes before its first content byte (empty stored blocks, a large dynamic-Huffman table) —
`Props.C11.try_header_needs_early_output` exhibits one on which the real `try_header` fails, too. -/
structure EarlyOutput (D : Decompressor) (IsStream : Bytes → Bytes → Prop) : Prop where
  early : ∀ {z d inp cap r}, IsStream z d → inp <+: z → TRY_HEADER_BUF_SIZE - HEADER_MAX_SIZE ≤ inp.length →
    D.decompress D.init inp cap false = some r → r.status ≠ .streamEnd → min cap 28 ≤ r.produced.length

theorem decode_long_prefix (k : Kind) (n : Nat) (hn : n < 2 ^ 64) (rest p : Bytes)
    (hp : p <+: looseHeader k n ++ rest) (hl : (looseHeader k n).length ≤ p.length) :
    decodeLooseHeader p = some (k, n, (looseHeader k n).length) := by
  obtain ⟨t, ht⟩ := hp
  have hpe : p = looseHeader k n ++ (p.drop (looseHeader k n).length) := by
    have h1 : (looseHeader k n ++ rest).take (looseHeader k n).length = looseHeader k n := List.take_left' rfl
    have h2 : (p ++ t).take (looseHeader k n).length = p.take (looseHeader k n).length := by
      rw [List.take_append_of_le_length hl]
    rw [ht, h1] at h2
    conv => lhs; rw [← List.take_append_drop (looseHeader k n).length p]
    rw [← h2]
  rw [hpe]
  exact decode_encode k n hn _

/-- `try_header` answers for EVERY complete object file, however long, given `EarlyOutput` -/
theorem tryHeader_complete {D : Decompressor} {IsStream : Bytes → Bytes → Prop} (K : DecompressorOk D IsStream)
    (E : EarlyOutput D IsStream) (k : Kind) (body z : Bytes) (hz : IsStream z (looseHeader k body.length ++ body))
    (hn : body.length < 2 ^ 64) : tryHeader D z = .ok body.length k := by
  by_cases hsmall : z.length ≤ TRY_HEADER_BUF_SIZE - HEADER_MAX_SIZE
  · exact tryHeader_small K k body z hz hn hsmall
  · have hH := looseHeader_length_le k body.length hn
    have hroom := TRY_HEADER_room
    have hlen : (z.take (TRY_HEADER_BUF_SIZE - HEADER_MAX_SIZE)).length = TRY_HEADER_BUF_SIZE - HEADER_MAX_SIZE := by
      rw [List.length_take]; omega
    have hpz : z.take (TRY_HEADER_BUF_SIZE - HEADER_MAX_SIZE) <+: z := List.take_prefix _ _
    have hinv := K.inv_init hz
    have hpre : z.take (TRY_HEADER_BUF_SIZE - HEADER_MAX_SIZE) <+: z.drop 0 := by simpa using hpz
    obtain ⟨r, hr⟩ := K.total (TRY_HEADER_BUF_SIZE - (z.take (TRY_HEADER_BUF_SIZE - HEADER_MAX_SIZE)).length) hinv hpre
    obtain ⟨hc, _, hpp, _, hend⟩ := K.step hinv hpre hr
    simp only [List.drop_zero, Nat.zero_add] at hpp hend
    have hne : r.status ≠ .streamEnd := by
      intro h
      obtain ⟨h1, _⟩ := hend h
      omega
    have hearly := E.early hz hpz (by omega) hr hne
    have hcap : 28 ≤ TRY_HEADER_BUF_SIZE - (z.take (TRY_HEADER_BUF_SIZE - HEADER_MAX_SIZE)).length := by
      rw [hlen]; omega
    have hpl : (looseHeader k body.length).length ≤ r.produced.length := by omega
    have hnb : r.status ≠ .bufError := by
      intro hb
      obtain ⟨_, b2⟩ := K.buf_error hr hb
      rw [b2] at hpl
      have : 0 < (looseHeader k body.length).length := by
        simp only [looseHeader, List.length_append, List.length_cons, List.length_nil]; omega
      simp only [List.length_nil] at hpl
      omega
    have hdec := decode_long_prefix k body.length hn body r.produced hpp hpl
    simp only [tryHeader, tryHeaderOn, inflateOnce, hr, hnb, if_false, hdec]

/-! ## writing: `hash::Write<deflate::Write<file>>` -/

/-- the `io::Write::write` of the deflate writer as the inner writer of `hash::Write` -/
def deflateWrite (C : Compressor) (fuelW : Writer C.σ → Bytes → Nat) (w : Writer C.σ) (buf : Bytes) :
    IoRes (Writer C.σ × Nat) := Writer.write C (fuelW w buf) w buf

theorem hashDeflate_writeAll {C : Compressor} {IsStream : Bytes → Bytes → Prop} (K : CompressorOk C IsStream)
    (f : BlockFn) (fuelW : Writer C.σ → Bytes → Nat) (hW : ∀ w c, K.rank w.comp c.length .none < fuelW w c)
    (hw : HashWrite (Writer C.σ)) (i buf : Bytes) (hwf : hw.hash.WF) (hok : hw.inner.Ok K i) :
    ∃ hw', writeAll (HashWrite.write f (deflateWrite C fuelW)) hw buf = .ok hw' ∧
      hw'.hash = hw.hash.update f buf ∧ hw'.inner.Ok K (i ++ buf) := by
  cases hb : buf with
  | nil =>
    refine ⟨hw, by simp [writeAll, writeAllWith], by rw [Sha1.update_nil f _ hwf], by simpa using hok⟩
  | cons a l =>
    rw [← hb]
    have hlen : buf.length = l.length + 1 := by rw [hb]; simp
    obtain ⟨w', h1, h2⟩ := Writer.write_ok K (fuelW hw.inner buf) hw.inner buf i hok (hW hw.inner buf)
    have hne : buf.isEmpty = false := by rw [hb]; rfl
    have hstep : HashWrite.write f (deflateWrite C fuelW) hw buf =
        .ok ({ hash := hw.hash.update f (buf.take buf.length), inner := w' }, buf.length) := by
      simp only [HashWrite.write, deflateWrite, h1]
      simp
    refine ⟨{ hash := hw.hash.update f (buf.take buf.length), inner := w' }, ?_, by simp, h2⟩
    have h0 : ¬ buf.length = 0 := by omega
    have hgt : ¬ buf.length > buf.length := by omega
    rw [writeAll, hlen]
    simp only [writeAllWith, hne, hstep, h0, hgt, if_false, Bool.false_eq_true]
    rw [List.drop_length]
    rw [hlen]
    simp

theorem hashDeflate_pieces {C : Compressor} {IsStream : Bytes → Bytes → Prop} (K : CompressorOk C IsStream)
    (f : BlockFn) (fuelW : Writer C.σ → Bytes → Nat) (hW : ∀ w c, K.rank w.comp c.length .none < fuelW w c)
    (pieces : List Bytes) : ∀ (hw : HashWrite (Writer C.σ)) (i : Bytes), hw.hash.WF → hw.inner.Ok K i →
    ∃ hw', hashWritePieces f (deflateWrite C fuelW) hw pieces = .ok hw' ∧
      hw'.hash = hw.hash.update f pieces.flatten ∧ hw'.inner.Ok K (i ++ pieces.flatten) := by
  induction pieces with
  | nil =>
    intro hw i hwf hok
    exact ⟨hw, rfl, by simp [Sha1.update_nil f _ hwf], by simpa using hok⟩
  | cons p ps ih =>
    intro hw i hwf hok
    obtain ⟨hw1, h1, h2, h3⟩ := hashDeflate_writeAll K f fuelW hW hw i p hwf hok
    obtain ⟨hw2, h4, h5, h6⟩ := ih hw1 (i ++ p) (by rw [h2]; exact Sha1.update_wf f _ _) h3
    refine ⟨hw2, ?_, ?_, ?_⟩
    · simp only [hashWritePieces, List.foldl_cons, h1] at h4 ⊢; exact h4
    · rw [h5, h2, Sha1.update_append]; simp
    · simpa [List.append_assoc] using h6

theorem storeWrite_ok {C : Compressor} {IsStream : Bytes → Bytes → Prop} (K : CompressorOk C IsStream)
    (f : BlockFn) (fuelW : Writer C.σ → Bytes → Nat) (fuelF : Writer C.σ → Nat)
    (hW : ∀ w c, K.rank w.comp c.length .none < fuelW w c) (hF : ∀ w, K.rank w.comp 0 .finish < fuelF w)
    (pieces : List Bytes) :
    ∃ w, storeWrite C f fuelW fuelF pieces = .ok w ∧
      w.id = (Sha1.new.update f pieces.flatten).digest f ∧ IsStream w.content pieces.flatten ∧
      (w.dir, w.file) = hashPath w.id := by
  obtain ⟨hw, h1, h2, h3⟩ := hashDeflate_pieces K f fuelW hW pieces
    { hash := Sha1.new, inner := Writer.new C } [] Sha1.new_wf (Writer.new_ok K)
  obtain ⟨w', h4, h5⟩ := Writer.flush_ok K (fuelF hw.inner) hw.inner _ h3 (hF hw.inner)
  have h1' : hashWritePieces f (fun w buf => Writer.write C (fuelW w buf) w buf)
      { hash := Sha1.new, inner := Writer.new C } pieces = .ok hw := h1
  refine ⟨{ id := hw.hash.digest f, dir := (hashPath (hw.hash.digest f)).1,
            file := (hashPath (hw.hash.digest f)).2, content := w'.inner }, ?_, ?_, ?_, ?_⟩
  · simp only [storeWrite, h1', h4]
  · simp only [h2]
  · simpa using h5
  · rfl

theorem be32_length (x : UInt32) : (be32 x).length = 4 := rfl

theorem digest_length (f : BlockFn) (s : Sha1) : (s.digest f).length = 20 := by
  have hb : ∀ h : H5, h.bytes.length = 20 := fun h => rfl
  simp only [Sha1.digest]
  split <;> exact hb _

theorem hexBytes_length (id : Bytes) : (hexBytes id).length = 2 * id.length := by
  induction id with
  | nil => rfl
  | cons b bs ih =>
    simp only [hexBytes, List.flatMap_cons, List.length_append, List.length_cons, List.length_nil] at ih ⊢
    omega

end GixModel.C11
